(* DeterminismProofs.v — proofs about Determinism.v *)
From Verif Require Import Base Transform Determinism.
From Coq Require Import Permutation.
