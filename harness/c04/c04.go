// Package c04 drives the correspondence and the implementation-side oracle for C04 (a
// transaction's outcome is a function of configuration and request only).
//
// Every case is a configuration (2-7 SecRules, possibly chained, with per-match setvar
// counters, deny thresholds, severities, captures, transformation lists sharing prefixes) and a
// request (argument names repeated within and across GET/POST, case variants, headers).
//
//   - The property's own oracle: the case is run N times on a FRESH WAF each and N times on ONE
//     long-lived WAF (Go randomises every map range statement); for an ORDER-INSENSITIVE
//     configuration (Determinism.order_insensitive, mirrored in Go by orderInsensitive and
//     re-checked inside Coq for every case) all 2N canonical outcomes must be equal:
//     interruption (rule id, status); ids of the fired rules in order; per fired rule the sorted
//     multiset of matched (variable, key, value); the TX collection without TX.0-9;
//     HIGHEST_SEVERITY.
//   - The correspondence: the canonical outcome must equal Determinism.run under the identity
//     oracle and under the reversing oracle (CorrC04.CI).
//   - A few configurations are generated ORDER-SENSITIVE on purpose (a read of MATCHED_VAR /
//     MATCHED_VAR_NAME / TX.0 after a link that matched several entries, known finding F26 key
//     c04-matched-var-hash-order): run-to-run differences are recorded as the known finding, and
//     every distinct observed outcome must be produced by the model under one of the oracles that
//     reverse a subset of the selections (CorrC04.CS; two-argument requests, so id/rev is complete).
package c04

import (
	"encoding/json"
	"fmt"
	"math/rand"
	"net/url"
	"os"
	"sort"
	"strconv"
	"strings"

	"github.com/corazawaf/coraza/v3/internal/corazawaf"
	"github.com/corazawaf/coraza/v3/internal/seclang"
	"github.com/corazawaf/coraza/v3/verifharness/vh"
)

func init() { vh.Register("C04", Run) }

const knownKey = "c04-matched-var-hash-order"

// ---------------------------------------------------------------------------------------
// case descriptions
// ---------------------------------------------------------------------------------------

type targetJ struct {
	Var   string   `json:"var"`
	Key   string   `json:"key,omitempty"`
	Excl  []string `json:"excl,omitempty"`
	Count bool     `json:"count,omitempty"`
	Rx    string   `json:"rx,omitempty"` // regex key ARGS:/^pfx/ ; modelled when it is "^" + lower-case literal
}

type actJ struct {
	Key string `json:"key"` // setvar:tx.<key>=<val>
	Val string `json:"val"`
}

type linkJ struct {
	Targets []targetJ `json:"targets"`
	T       []string  `json:"t,omitempty"`
	Op      string    `json:"op"` // any rxdot rxlit streq contains beginswith eq ge
	Arg     string    `json:"arg,omitempty"`
	Neg     bool      `json:"neg,omitempty"`
	Capture bool      `json:"capture,omitempty"`
	Acts    []actJ    `json:"acts,omitempty"`
}

type ruleJ struct {
	ID    int     `json:"id"`
	Phase int     `json:"phase"`
	Head  linkJ   `json:"head"`
	Chain []linkJ `json:"chain,omitempty"`
	Deny  int     `json:"deny,omitempty"` // status, 0 = pass
	Sev   int     `json:"sev"`            // -1 = none
}

type caseJSON struct {
	Kind       string      `json:"kind"` // insens | sens
	Rules      []ruleJ     `json:"rules"`
	Get        [][2]string `json:"get,omitempty"`
	Post       [][2]string `json:"post,omitempty"`
	Headers    [][2]string `json:"headers,omitempty"`
	GetWire    string      `json:"get_wire,omitempty"`  // explicit wire form of Get (alternative encodings of names/values)
	PostWire   string      `json:"post_wire,omitempty"` // explicit wire form of Post
	// the sibling request B: on the long-lived WAF the runs of the request (A) alternate with runs of B
	// (same configuration; same number of names with other lengths, or another number of names)
	Alt     bool        `json:"alt,omitempty"`
	AltGet  [][2]string `json:"alt_get,omitempty"`
	AltPost [][2]string `json:"alt_post,omitempty"`
	Reps       int         `json:"reps,omitempty"`
	Observed   any         `json:"observed,omitempty"`
	FindingKey string      `json:"finding_key,omitempty"`
	Note       string      `json:"note,omitempty"`
}

// ---------------------------------------------------------------------------------------
// variables / transformations / operators known to the model
// ---------------------------------------------------------------------------------------

var varCoq = map[string]string{
	"ARGS": "VArgs", "ARGS_GET": "VArgsGet", "ARGS_POST": "VArgsPost", "ARGS_NAMES": "VArgsNames",
	"ARGS_GET_NAMES": "VArgsGetNames", "ARGS_POST_NAMES": "VArgsPostNames", "REQUEST_HEADERS": "VReqHeaders",
	"REQUEST_HEADERS_NAMES": "VReqHeadersNames", "TX": "VTx", "MATCHED_VAR": "VMatchedVar",
	"MATCHED_VAR_NAME": "VMatchedVarName", "REQUEST_METHOD": "VReqMethod", "QUERY_STRING": "VQueryString",
	"ARGS_COMBINED_SIZE": "VArgsCombinedSize",
}

var singleVar = map[string]bool{"MATCHED_VAR": true, "MATCHED_VAR_NAME": true, "REQUEST_METHOD": true, "QUERY_STRING": true, "ARGS_COMBINED_SIZE": true}

var tfCoq = map[string]string{
	"lowercase": "TLowercase", "uppercase": "TUppercase", "trim": "TTrim", "trimLeft": "TTrimLeft", "trimRight": "TTrimRight",
	"compressWhitespace": "TCompressWhitespace", "removeWhitespace": "TRemoveWhitespace", "length": "TLength",
	"urlDecode": "TUrlDecode", "hexEncode": "THexEncode",
}

func isCapKey(k string) bool { return len(k) == 1 && k[0] >= '0' && k[0] <= '9' }

// macro text -> list of parts (kind, payload): "lit", "mv", "mvn", "tx"
type mpart struct{ kind, s string }

func parseMacro(v string) ([]mpart, bool) {
	var out []mpart
	for v != "" {
		i := strings.Index(v, "%{")
		if i < 0 {
			out = append(out, mpart{"lit", v})
			break
		}
		if i > 0 {
			out = append(out, mpart{"lit", v[:i]})
		}
		j := strings.IndexByte(v[i:], '}')
		if j < 0 {
			return nil, false
		}
		name := v[i+2 : i+j]
		v = v[i+j+1:]
		switch {
		case name == "MATCHED_VAR":
			out = append(out, mpart{"mv", ""})
		case name == "MATCHED_VAR_NAME":
			out = append(out, mpart{"mvn", ""})
		case strings.HasPrefix(name, "tx.") && name == strings.ToLower(name):
			out = append(out, mpart{"tx", name[3:]})
		default:
			return nil, false
		}
	}
	return out, true
}

// ---------------------------------------------------------------------------------------
// the guard (mirror of Determinism.order_insensitive; Coq re-checks it for every case)
// ---------------------------------------------------------------------------------------

func multiTarget(t targetJ) bool {
	if t.Count || singleVar[t.Var] {
		return false
	}
	if t.Rx != "" {
		return true
	}
	if t.Var == "TX" && t.Key != "" {
		return false
	}
	return true
}

func multiLink(l linkJ) bool {
	for _, t := range l.Targets {
		if multiTarget(t) {
			return true
		}
	}
	return false
}

func captures(l linkJ) bool { return l.Capture && (l.Op == "rxdot" || l.Op == "rxlit") }

func linkOK(tm, tc bool, l linkJ) bool {
	tma := tm || multiLink(l)
	tca := tc || (multiLink(l) && captures(l))
	for _, t := range l.Targets {
		if (t.Var == "MATCHED_VAR" || t.Var == "MATCHED_VAR_NAME") && tma {
			return false
		}
		if t.Var == "TX" && (t.Rx != "" || t.Key == "" || isCapKey(strings.ToLower(t.Key))) && tca {
			return false
		}
	}
	for _, a := range l.Acts {
		if isCapKey(a.Key) {
			return false
		}
		parts, _ := parseMacro(a.Val)
		for _, p := range parts {
			if (p.kind == "mv" || p.kind == "mvn") && multiLink(l) {
				return false
			}
			if p.kind == "tx" && isCapKey(p.s) && tca {
				return false
			}
		}
	}
	return true
}

func ruleOK(tm, tc bool, r ruleJ) bool {
	if !linkOK(tm, tc, r.Head) {
		return false
	}
	ptm, ptc := multiLink(r.Head), tc || (multiLink(r.Head) && captures(r.Head))
	for _, l := range r.Chain {
		if !linkOK(ptm, ptc, l) {
			return false
		}
		ptm, ptc = multiLink(l), ptc || (multiLink(l) && captures(l))
	}
	return true
}

func rulesOK(ph int, tm, tc bool, rs []ruleJ) (bool, bool, bool) {
	ok := true
	for _, r := range rs {
		if r.Phase != ph {
			continue
		}
		if !ruleOK(tm, tc, r) {
			ok = false
		}
		for _, l := range append([]linkJ{r.Head}, r.Chain...) {
			if multiLink(l) {
				tm = true
				if captures(l) {
					tc = true
				}
			}
		}
	}
	return ok, tm, tc
}

func orderInsensitive(rs []ruleJ) bool {
	b1, tm1, tc1 := rulesOK(1, false, false, rs)
	b2, tm2, tc2 := rulesOK(2, tm1, tc1, rs)
	b5, _, _ := rulesOK(5, tm2, tc2, rs)
	b5b, _, _ := rulesOK(5, tm1, tc1, rs)
	return b1 && b2 && b5 && b5b
}

// ---------------------------------------------------------------------------------------
// seclang rendering
// ---------------------------------------------------------------------------------------

func targetText(ts []targetJ) string {
	var parts []string
	for _, t := range ts {
		s := t.Var
		if t.Rx != "" {
			s += ":/" + t.Rx + "/"
		} else if t.Key != "" {
			s += ":" + t.Key
		}
		if t.Count {
			s = "&" + s
		}
		parts = append(parts, s)
		for _, e := range t.Excl {
			parts = append(parts, "!"+t.Var+":"+e)
		}
	}
	return strings.Join(parts, "|")
}

func opText(l linkJ) string {
	s := ""
	switch l.Op {
	case "any":
		s = "@unconditionalMatch"
	case "rxdot":
		s = "@rx ."
	case "rxlit":
		s = "@rx " + l.Arg
	case "streq":
		s = "@streq " + l.Arg
	case "contains":
		s = "@contains " + l.Arg
	case "beginswith":
		s = "@beginsWith " + l.Arg
	case "eq":
		s = "@eq " + l.Arg
	case "ge":
		s = "@ge " + l.Arg
	}
	if l.Neg {
		s = "!" + s
	}
	return s
}

func linkActs(l linkJ) []string {
	acts := []string{"t:none"}
	for _, t := range l.T {
		acts = append(acts, "t:"+t)
	}
	if l.Capture {
		acts = append(acts, "capture")
	}
	for _, a := range l.Acts {
		acts = append(acts, fmt.Sprintf("setvar:'tx.%s=%s'", a.Key, a.Val))
	}
	return acts
}

func directives(rs []ruleJ) string {
	var b strings.Builder
	b.WriteString("SecRuleEngine On\nSecRequestBodyAccess On\n")
	for _, r := range rs {
		acts := []string{fmt.Sprintf("id:%d", r.ID), fmt.Sprintf("phase:%d", r.Phase)}
		if r.Deny != 0 {
			acts = append(acts, "deny", fmt.Sprintf("status:%d", r.Deny))
		} else {
			acts = append(acts, "pass")
		}
		acts = append(acts, "log")
		if r.Sev >= 0 {
			acts = append(acts, fmt.Sprintf("severity:'%d'", r.Sev))
		}
		acts = append(acts, linkActs(r.Head)...)
		if len(r.Chain) > 0 {
			acts = append(acts, "chain")
		}
		fmt.Fprintf(&b, "SecRule %s \"%s\" \"%s\"\n", targetText(r.Head.Targets), opText(r.Head), strings.Join(acts, ","))
		for i, l := range r.Chain {
			la := linkActs(l)
			if i+1 < len(r.Chain) {
				la = append(la, "chain")
			}
			fmt.Fprintf(&b, "SecRule %s \"%s\" \"%s\"\n", targetText(l.Targets), opText(l), strings.Join(la, ","))
		}
	}
	return b.String()
}

func (cj caseJSON) getWire() string {
	if cj.GetWire != "" {
		return cj.GetWire
	}
	return encodePairs(cj.Get)
}

func (cj caseJSON) postWire() string {
	if cj.PostWire != "" {
		return cj.PostWire
	}
	return encodePairs(cj.Post)
}

// wireDecodes: the explicit wire form decodes (split at &, first =, %XX and + unescaped) to the pairs
func wireDecodes(wire string, ps [][2]string) bool {
	parts := strings.Split(wire, "&")
	if len(parts) != len(ps) {
		return false
	}
	for i, p := range parts {
		k, v, _ := strings.Cut(p, "=")
		dk, e1 := url.QueryUnescape(k)
		dv, e2 := url.QueryUnescape(v)
		if e1 != nil || e2 != nil || dk != ps[i][0] || dv != ps[i][1] {
			return false
		}
	}
	return true
}

func encodePairs(ps [][2]string) string {
	var parts []string
	for _, p := range ps {
		parts = append(parts, url.QueryEscape(p[0])+"="+url.QueryEscape(p[1]))
	}
	return strings.Join(parts, "&")
}

// ---------------------------------------------------------------------------------------
// Coq rendering
// ---------------------------------------------------------------------------------------

func coqLink(l linkJ) (string, bool) {
	var ts []string
	for _, t := range l.Targets {
		v, ok := varCoq[t.Var]
		if !ok {
			return "", false
		}
		rx := "None"
		if t.Rx != "" {
			// modelled fragment: ^ + literal of lower-case letters, digits, '-'
			if t.Rx[0] != '^' || len(t.Rx) < 2 {
				return "", false
			}
			for _, c := range t.Rx[1:] {
				if !(c >= 'a' && c <= 'z' || c >= '0' && c <= '9' || c == '-') {
					return "", false
				}
			}
			rx = "(Some " + vh.HxS(t.Rx[1:]) + ")"
		}
		ts = append(ts, fmt.Sprintf("(mkT %s %s %s %s %s)", v, vh.OptionOf(t.Key != "", vh.HxS(t.Key)), vh.HxList(t.Excl), vh.Bool(t.Count), rx))
	}
	var tfs []string
	for _, t := range l.T {
		c, ok := tfCoq[t]
		if !ok {
			return "", false
		}
		tfs = append(tfs, c)
	}
	op := ""
	switch l.Op {
	case "any":
		op = "OAny"
	case "rxdot":
		op = "ORxDot"
	case "rxlit":
		op = "(ORxLit " + vh.HxS(l.Arg) + ")"
	case "streq":
		op = "(OStreq " + vh.HxS(l.Arg) + ")"
	case "contains":
		op = "(OContains " + vh.HxS(l.Arg) + ")"
	case "beginswith":
		op = "(OBeginsWith " + vh.HxS(l.Arg) + ")"
	case "eq", "ge":
		n, err := strconv.Atoi(l.Arg)
		if err != nil {
			return "", false
		}
		if l.Op == "eq" {
			op = "(OEq " + vh.Z(int64(n)) + ")"
		} else {
			op = "(OGe " + vh.Z(int64(n)) + ")"
		}
	default:
		return "", false
	}
	var acts []string
	for _, a := range l.Acts {
		parts, ok := parseMacro(a.Val)
		if !ok || a.Key != strings.ToLower(a.Key) {
			return "", false
		}
		var ps []string
		for _, p := range parts {
			switch p.kind {
			case "lit":
				ps = append(ps, "MLit "+vh.HxS(p.s))
			case "mv":
				ps = append(ps, "MMatchedVar")
			case "mvn":
				ps = append(ps, "MMatchedVarName")
			case "tx":
				ps = append(ps, "MTx "+vh.HxS(p.s))
			}
		}
		acts = append(acts, fmt.Sprintf("ASetvar %s %s", vh.HxS(a.Key), vh.List(ps)))
	}
	return fmt.Sprintf("(mkL %s %s %s %s %s %s)", vh.List(ts), vh.List(tfs), op, vh.Bool(l.Neg), vh.Bool(l.Capture), vh.List(acts)), true
}

func coqCfg(rs []ruleJ) (string, bool) {
	var out []string
	for _, r := range rs {
		h, ok := coqLink(r.Head)
		if !ok {
			return "", false
		}
		var ch []string
		for _, l := range r.Chain {
			c, ok := coqLink(l)
			if !ok {
				return "", false
			}
			ch = append(ch, c)
		}
		out = append(out, fmt.Sprintf("(mkR %s %s %s %s %s %s)", vh.Nat(r.ID), vh.N(int64(r.Phase)), h, vh.List(ch),
			vh.OptionOf(r.Deny != 0, vh.N(int64(r.Deny))), vh.OptionOf(r.Sev >= 0, vh.N(int64(r.Sev)))))
	}
	return vh.List(out), true
}

func coqPairs(ps [][2]string) string {
	var it []string
	for _, p := range ps {
		it = append(it, "("+vh.HxS(p[0])+", "+vh.HxS(p[1])+")")
	}
	return vh.List(it)
}

func coqReq(cj caseJSON) string {
	method := "GET"
	if len(cj.Post) > 0 {
		method = "POST"
	}
	return fmt.Sprintf("(mkReq %s %s %s %s %s)", coqPairs(cj.Get), coqPairs(cj.Post), coqPairs(cj.Headers), vh.HxS(method), vh.HxS(cj.getWire()))
}

// ---------------------------------------------------------------------------------------
// running the implementation
// ---------------------------------------------------------------------------------------

type matchT struct{ Var, Key, Value string }

type firedT struct {
	ID      int      `json:"id"`
	Matches []matchT `json:"matches"`
}

type outcome struct {
	IntrRule   int         `json:"intr_rule"` // 0 = none
	IntrStatus int         `json:"intr_status"`
	Fired      []firedT    `json:"fired"`
	TX         [][2]string `json:"tx"`
	HS         string      `json:"highest_severity"`
}

func (o outcome) canon() string {
	b, _ := json.Marshal(o)
	return string(b)
}

func newWAF(dirs string) (*corazawaf.WAF, error) {
	waf := corazawaf.NewWAF()
	p := seclang.NewParser(waf)
	if err := p.FromString(dirs); err != nil {
		return nil, err
	}
	return waf, nil
}

func runTx(waf *corazawaf.WAF, cj caseJSON) outcome {
	tx := waf.NewTransaction()
	defer tx.Close()
	method := "GET"
	if len(cj.Post) > 0 {
		method = "POST"
	}
	uri := "/p"
	if len(cj.Get) > 0 {
		uri += "?" + cj.getWire()
	}
	tx.ProcessURI(uri, method, "HTTP/1.1")
	for _, h := range cj.Headers {
		tx.AddRequestHeader(h[0], h[1])
	}
	tx.ProcessRequestHeaders()
	if len(cj.Post) > 0 {
		_, _, _ = tx.WriteRequestBody([]byte(cj.postWire()))
	}
	_, _ = tx.ProcessRequestBody()
	tx.ProcessLogging()

	var o outcome
	if it := tx.Interruption(); it != nil {
		o.IntrRule, o.IntrStatus = it.RuleID, it.Status
	}
	o.Fired = []firedT{}
	for _, mr := range tx.MatchedRules() {
		f := firedT{ID: mr.Rule().ID()}
		for _, md := range mr.MatchedDatas() {
			f.Matches = append(f.Matches, matchT{md.Variable().Name(), md.Key(), md.Value()})
		}
		sort.Slice(f.Matches, func(i, j int) bool {
			a, b := f.Matches[i], f.Matches[j]
			if a.Var != b.Var {
				return a.Var < b.Var
			}
			if a.Key != b.Key {
				return a.Key < b.Key
			}
			return a.Value < b.Value
		})
		o.Fired = append(o.Fired, f)
	}
	o.TX = [][2]string{}
	for _, md := range tx.Variables().TX().FindAll() {
		if isCapKey(md.Key()) {
			continue
		}
		o.TX = append(o.TX, [2]string{md.Key(), md.Value()})
	}
	sort.Slice(o.TX, func(i, j int) bool {
		if o.TX[i][0] != o.TX[j][0] {
			return o.TX[i][0] < o.TX[j][0]
		}
		return o.TX[i][1] < o.TX[j][1]
	})
	o.HS = tx.Variables().HighestSeverity().Get()
	return o
}

func coqObs(o outcome) (string, bool) {
	var fired []string
	for _, f := range o.Fired {
		var ms []string
		for _, m := range f.Matches {
			v, ok := varCoq[m.Var]
			if !ok {
				return "", false
			}
			ms = append(ms, fmt.Sprintf("mkE %s %s %s", v, vh.HxS(m.Key), vh.HxS(m.Value)))
		}
		fired = append(fired, fmt.Sprintf("(%s, %s)", vh.Nat(f.ID), vh.List(ms)))
	}
	intr := "None"
	if o.IntrRule != 0 || o.IntrStatus != 0 {
		intr = fmt.Sprintf("(Some (%s, %s))", vh.Nat(o.IntrRule), vh.N(int64(o.IntrStatus)))
	}
	return fmt.Sprintf("(mkX %s %s %s %s)", intr, vh.List(fired), coqPairs(o.TX), vh.HxS(o.HS)), true
}

// ---------------------------------------------------------------------------------------
// one case
// ---------------------------------------------------------------------------------------

type runner struct {
	cfg         vh.Config
	res         *vh.Result
	terms       []string
	cases       []any
	seen        map[string]bool
	nontrivial  int
	oracleEvals int
	knownSeen   bool
	knownCount  int
	sensCount   int

	seriesNontrivial int
	sstats           sstats
}

type sstats struct{ uploadsDeleted, spillsDeleted, closeErrors int }

func (rn *runner) fail(key, what string, c caseJSON) {
	rn.res.OracleFailures = append(rn.res.OracleFailures, vh.OracleFailure{Key: key, What: what, Case: c})
}

func sigOf(cj caseJSON) string {
	c := cj
	c.Observed = nil
	c.Reps = 0
	b, _ := json.Marshal(c)
	return string(b)
}

func totalTargets(rs []ruleJ) int {
	n := 0
	for _, r := range rs {
		n += len(r.Head.Targets)
		for _, l := range r.Chain {
			n += len(l.Targets)
		}
	}
	return n
}

func (rn *runner) runCase(cj caseJSON) {
	reps := cj.Reps
	if reps <= 0 {
		reps = rn.cfg.Pick(20, 200)
	}
	if (cj.GetWire != "" && !wireDecodes(cj.GetWire, cj.Get)) || (cj.PostWire != "" && !wireDecodes(cj.PostWire, cj.Post)) {
		rn.res.InputDistribution["wire_form_inconsistent_skipped"]++
		return
	}
	if cj.GetWire != "" || cj.PostWire != "" {
		rn.res.InputDistribution["names_in_several_encodings"]++
	}
	dirs := directives(cj.Rules)
	long, err := newWAF(dirs)
	if err != nil {
		rn.res.InputDistribution["rejected_by_seclang"]++
		if len(rn.res.Notes) < 3 {
			rn.res.Notes = append(rn.res.Notes, "seclang rejected: "+err.Error()+" :: "+dirs)
		}
		return
	}
	insens := orderInsensitive(cj.Rules)
	distinct := map[string]outcome{}
	var order []string
	record := func(o outcome) {
		c := o.canon()
		if _, ok := distinct[c]; !ok {
			distinct[c] = o
			order = append(order, c)
		}
	}
	// the sibling request B alternates with A on the long-lived WAF: A, B, A, B, ...
	useAlt := cj.Alt && insens
	alt := cj
	alt.Get, alt.Post, alt.GetWire, alt.PostWire, alt.Alt, alt.AltGet, alt.AltPost = cj.AltGet, cj.AltPost, "", "", false, nil, nil
	altDistinct := map[string]outcome{}
	var altOrder []string
	altRecord := func(o outcome) {
		c := o.canon()
		if _, ok := altDistinct[c]; !ok {
			altDistinct[c] = o
			altOrder = append(altOrder, c)
		}
	}
	for i := 0; i < reps; i++ {
		fresh, err := newWAF(dirs)
		if err != nil {
			return
		}
		record(runTx(fresh, cj))
		record(runTx(long, cj))
		rn.oracleEvals += 2
		if useAlt {
			if i < 3 {
				if f2, err := newWAF(dirs); err == nil {
					altRecord(runTx(f2, alt))
					rn.oracleEvals++
				}
			}
			altRecord(runTx(long, alt))
			rn.oracleEvals++
		}
	}
	if useAlt {
		rn.res.InputDistribution["alternating_sibling_request_on_long_lived_waf"]++
		if len(altOrder) > 1 {
			c := cj
			var allAlt []outcome
			for _, k := range altOrder {
				allAlt = append(allAlt, altDistinct[k])
			}
			c.Observed = map[string]any{"sibling_request_outcomes": allAlt}
			rn.fail("c04-long-lived-differs-from-fresh", fmt.Sprintf("the sibling request (alt_get/alt_post), run on fresh WAFs and alternating with the main request on the long-lived WAF, has %d distinct outcomes", len(altOrder)), c)
		}
	}
	first := distinct[order[0]]
	var all []outcome
	for _, c := range order {
		all = append(all, distinct[c])
	}
	cfgTerm, modelled := coqCfg(cj.Rules)

	if insens {
		cj.Kind = "insens"
		if len(order) > 1 {
			c := cj
			c.Observed = all
			rn.fail("c04-outcome-varies-between-runs", fmt.Sprintf("%d distinct canonical outcomes over %d runs (fresh and long-lived WAF) of an order-insensitive configuration", len(order), 2*reps), c)
		}
		if modelled {
			if ot, ok := coqObs(first); ok {
				c := cj
				c.Observed = first
				rn.terms = append(rn.terms, fmt.Sprintf("CI %s %s %s", cfgTerm, coqReq(cj), ot))
				rn.cases = append(rn.cases, c)
			}
			// the sibling's outcome against the model too (one case in three, to bound the Coq time)
			if useAlt && len(altOrder) > 0 && len(rn.terms)%3 == 0 {
				if ot, ok := coqObs(altDistinct[altOrder[0]]); ok {
					c := alt
					c.Kind = "insens"
					c.Note = "sibling request of an alternating series"
					c.Observed = altDistinct[altOrder[0]]
					rn.terms = append(rn.terms, fmt.Sprintf("CI %s %s %s", cfgTerm, coqReq(alt), ot))
					rn.cases = append(rn.cases, c)
				}
			}
		}
		rn.res.InputDistribution["order_insensitive"]++
	} else {
		cj.Kind = "sens"
		rn.sensCount++
		rn.res.InputDistribution["order_sensitive"]++
		if len(order) > 1 {
			rn.knownCount++
			rn.res.InputDistribution["order_sensitive_with_observed_difference"]++
			if !rn.knownSeen {
				rn.knownSeen = true
				rn.res.KnownReproduced = append(rn.res.KnownReproduced, knownKey)
				c := cj
				c.FindingKey = knownKey
				c.Observed = all
				rn.fail(knownKey, fmt.Sprintf("%d distinct outcomes over %d runs: a link/rule reads MATCHED_VAR / MATCHED_VAR_NAME / TX.0-9 after a link that matched several entries", len(order), 2*reps), c)
			}
		}
		steps := totalTargets(cj.Rules)
		if modelled && steps <= 7 && len(cj.Get) <= 2 && len(cj.Post) == 0 && len(cj.Headers) <= 2 {
			var ots []string
			okAll := true
			for _, o := range all {
				t, ok := coqObs(o)
				if !ok {
					okAll = false
				}
				ots = append(ots, t)
			}
			if okAll {
				c := cj
				c.Observed = all
				rn.terms = append(rn.terms, fmt.Sprintf("CS %s %s %s %s", cfgTerm, coqReq(cj), vh.Nat(steps), vh.List(ots)))
				rn.cases = append(rn.cases, c)
			}
		}
	}

	// statistics
	s := sigOf(cj)
	if !rn.seen[s] {
		rn.seen[s] = true
		multiFired := false
		for _, f := range first.Fired {
			if len(f.Matches) >= 2 {
				multiFired = true
			}
		}
		if multiFired {
			rn.nontrivial++
		}
	}
	rn.res.InputDistribution[fmt.Sprintf("fired_rules_%s", bucket(len(first.Fired)))]++
	if first.IntrRule != 0 {
		rn.res.InputDistribution["interrupted"]++
	}
	maxm := 0
	for _, f := range first.Fired {
		if len(f.Matches) > maxm {
			maxm = len(f.Matches)
		}
	}
	rn.res.InputDistribution[fmt.Sprintf("max_matches_per_rule_%s", bucket(maxm))]++
	rn.res.InputDistribution[fmt.Sprintf("args_%s", bucket(len(cj.Get)+len(cj.Post)))]++
	rep := map[string]int{}
	for _, p := range append(append([][2]string{}, cj.Get...), cj.Post...) {
		rep[strings.ToLower(p[0])]++
	}
	mr := 0
	for _, n := range rep {
		if n > mr {
			mr = n
		}
	}
	rn.res.InputDistribution[fmt.Sprintf("max_name_repetition_%d", mr)]++
}

func bucket(n int) string {
	switch {
	case n == 0:
		return "0"
	case n == 1:
		return "1"
	case n <= 3:
		return "2-3"
	case n <= 8:
		return "4-8"
	}
	return ">8"
}

func (rn *runner) runDoc(doc json.RawMessage) {
	var kind struct {
		Kind string `json:"kind"`
	}
	if json.Unmarshal(doc, &kind) == nil && kind.Kind == "series" {
		var sj seriesJSON
		if json.Unmarshal(doc, &sj) == nil {
			sj.Observed = nil
			rn.runSeries(sj)
		}
		return
	}
	var c caseJSON
	if json.Unmarshal(doc, &c) != nil {
		return
	}
	c.Observed = nil
	c.FindingKey = ""
	rn.runCase(c)
}

// ---------------------------------------------------------------------------------------
// driver
// ---------------------------------------------------------------------------------------

func Run(cfg vh.Config) (*vh.Result, error) {
	res := &vh.Result{InputDistribution: map[string]int{}, Shards: []vh.ShardInfo{}}
	res.Rule = "a case = configuration (2-7 rules: 13 target variables incl. exclusions/counts/by-key, 8 operators, shared transformation prefixes, per-match setvar counters, deny thresholds, severities, captures, chains) x request (2-8 distinct names, names repeated 2-4 times within and across GET/POST incl. case variants, headers); each run N times on fresh WAFs and N times on one long-lived WAF. non-trivial = some fired rule matched at least two entries (its matched multiset and counters depend on a map iteration). distinct = distinct case descriptions. series = configuration with 2-6 state-carrying actions (allow / allow:request / allow:phase, skip, skipAfter present/absent, ctl:ruleEngine / ruleRemoveById / ByTag / TargetById / requestBodyAccess / forceRequestBodyVariable, setvar, capture, deny, severity) each triggered by the value of X-Trigger + observation rules in phases 1-5; one long-lived WAF serves a sequence alternating triggering and non-triggering requests, every run compared with the same request on a fresh WAF (implementation-side only, not modelled); non-trivial = rules fired during the series"
	rn := &runner{cfg: cfg, res: res, seen: map[string]bool{}}
	rng := vh.Rng(cfg.Seed, "c04")

	if cfg.Replay != "" {
		b, err := os.ReadFile(cfg.Replay)
		if err != nil {
			return nil, err
		}
		var rp struct {
			Case json.RawMessage `json:"case"`
		}
		if json.Unmarshal(b, &rp) == nil && rp.Case != nil {
			rn.runDoc(rp.Case)
		} else {
			rn.runDoc(b)
		}
	} else {
		docs, _ := vh.LoadCorpus(cfg.Corpus)
		for _, d := range docs {
			rn.runDoc(d)
		}
		res.InputDistribution["corpus"] = len(docs)
		n := cfg.Pick(420, 1000)
		for i := 0; i < n; i++ {
			rn.runCase(genCase(rng, false))
		}
		ns := cfg.Pick(40, 100)
		for i := 0; i < ns; i++ {
			rn.runCase(genCase(rng, true))
		}
		// fresh versus long-lived WAF with state-carrying actions (implementation-side oracle only)
		srng := vh.Rng(cfg.Seed, "c04-series")
		nser := cfg.Pick(150, 800)
		for i := 0; i < nser; i++ {
			rn.runSeries(genSeries(srng))
		}
		res.InputDistribution["series_with_fired_rules_on_long_lived_waf"] = rn.seriesNontrivial
		res.InputDistribution["series_upload_temp_files_deleted_before_close"] = rn.sstats.uploadsDeleted
		res.InputDistribution["series_spill_files_deleted_before_close"] = rn.sstats.spillsDeleted
		res.InputDistribution["series_close_returned_error"] = rn.sstats.closeErrors
	}
	res.OracleEvaluations = rn.oracleEvals
	res.Evaluations = rn.oracleEvals
	res.DistinctNontrivial = rn.nontrivial + rn.seriesNontrivial
	if rn.sensCount > 0 {
		res.Notes = append(res.Notes, fmt.Sprintf("%d order-sensitive configurations generated on purpose, %d of them showed run-to-run differences (known finding %s)", rn.sensCount, rn.knownCount, knownKey))
	}

	const per = 100
	for i, k := 0, 0; i < len(rn.terms); i, k = i+per, k+1 {
		j := i + per
		if j > len(rn.terms) {
			j = len(rn.terms)
		}
		info, err := vh.WriteShard(cfg.OutDir, vh.Shard{
			Name: fmt.Sprintf("C04_%d", k), Imports: "From Verif Require Import Base Transform Determinism CorrC04.",
			CaseType: "CorrC04.case", MismatchF: "CorrC04.mismatches", Terms: rn.terms[i:j], Cases: rn.cases[i:j],
		})
		if err != nil {
			return nil, err
		}
		res.Shards = append(res.Shards, info)
	}
	for i := 0; i < len(rn.cases) && len(res.Samples) < 6; i += 1 + len(rn.cases)/6 {
		res.Samples = append(res.Samples, rn.cases[i])
	}
	return res, nil
}

var _ = rand.Int
