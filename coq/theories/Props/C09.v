(* Props/C09.v — the property theorems of C09 and nothing else.
   C09: non-disruptive actions run once per match; counters add up exactly. The theorems hold for
   EVERY operator semantics (op_eval), every environment, rule list and state. *)
From Verif Require Import Base Transform Setvar SetvarProofs.
From Coq Require Import String ZArith.
From Coq Require Import List.
Open Scope N_scope.

(* every non-disruptive action of a link runs exactly once per value the link matched *)
Theorem C09_once_per_match :
  forall (opid : Type) (op_eval : opid -> env -> st -> bytes -> bool * list (N * bytes))
         (e : env) (l : link opid) (lvl : nat) (s s' : st) (mds : list mdata),
  eval_link op_eval e l lvl s = (s', mds) ->
  exists new, s_trace s' = new ++ s_trace s /\
    forall i a, nth_error (l_actions l) i = Some a -> is_nd a = true ->
                count_tag (lvl, i) (act_tags new) = length mds.
Proof. exact once_per_match_link. Qed.
Print Assumptions C09_once_per_match.

(* for a whole rule: action i of link k (starter = 0) runs once per matched value of that link
   (0 times when the walk did not reach it); the starter's flow / disruptive actions and MatchRule
   run exactly once when every link matched and not at all otherwise *)
Theorem C09_starter_once_per_chain :
  forall (opid : Type) (op_eval : opid -> env -> st -> bytes -> bool * list (N * bytes))
         (e : env) (r : rule opid) (s : st),
  exists new, s_trace (eval_rule op_eval e r s) = new ++ s_trace s /\
    (forall k l i a, nth_error (rule_links opid r) k = Some l -> nth_error (l_actions l) i = Some a -> is_nd a = true ->
       count_tag (k, i) (act_tags new) = nth k (rule_counts opid op_eval e r s) 0%nat) /\
    fd_events new =
      if chain_complete opid (rule_links opid r) (rule_counts opid op_eval e r s)
      then (if (l_id (r_head r) =? 0)%Z then [] else [EvRuleMatched (l_id (r_head r))]) ++ rev (fd_names (l_actions (r_head r)))
      else [].
Proof. exact once_per_match_rule. Qed.
Print Assumptions C09_starter_once_per_chain.

(* a setvar's key and value macros are expanded in the state after the MATCHED_* update for that
   very match and after the preceding actions of the list *)
Theorem C09_macro_at_that_moment :
  forall (opid : Type) (e : env) (l : link opid) (lvl : nat) (known : bool) (vn key value : bytes) (s : st)
         (pre : list action) (a : setvar) (post : list action),
  l_actions l = pre ++ ASetvar a :: post ->
  let s0 := if known then st_log (EvMatching (link_rid l) vn key) s else s in
  let sp := run_nd e (l_id l) lvl 0 pre (st_match_variable vn key value s0) in
  let k := macro_expand e sp (sv_key a) in
  let v := macro_expand_opt e sp (sv_value a) in
  on_match e l lvl known vn key value s =
    run_nd e (l_id l) lvl (S (length pre)) post
      (st_with_tx (st_log (EvSetvar k v (l_id l)) (st_log (EvAct lvl (length pre) (str "setvar")) sp))
                  (setvar_apply (sv_remove a) (lower_ascii k) v (s_tx sp)))
  /\ s_mv sp = value /\ s_mvn sp = sv_match_name vn key.
Proof. intros opid. exact (@macro_at_that_moment opid). Qed.
Print Assumptions C09_macro_at_that_moment.

(* captures at that moment: the state in which a matched value's actions run (and in which
   C09_macro_at_that_moment expands %{tx.N}) is the state after CaptureField was applied to every
   field the operator reported for THAT value — including the empty string of a group that did
   not participate, which therefore clears an earlier value's capture *)
Theorem C09_captures_at_that_moment :
  forall (opid : Type) (op_eval : opid -> env -> st -> bytes -> bool * list (N * bytes))
         (e : env) (l : link opid) (lvl : nat) (o : opid) (neg : bool) (vn key carg : bytes)
         (r : list (bytes * bytes * bytes)) (s : st) (acc : list mdata),
  eval_cands op_eval e l lvl o neg ((vn, key, carg) :: r) s acc =
    (let '(res, caps) := op_eval o e s carg in
     let s1 := apply_caps caps s in
     if xorb res neg then
       let s2 := on_match e l lvl true vn key carg s1 in
       eval_cands op_eval e l lvl o neg r s2
         (mk_md e l (negb (l_parent l =? 0)%Z || negb (l_haschain l)) vn key carg s2 :: acc)
     else eval_cands op_eval e l lvl o neg r s1 acc)
  /\ (forall caps i v, s_capture s = true -> NoDup (map fst caps) -> In (i, v) caps ->
        exists rest, tx_get (s_tx (apply_caps caps s)) (itoa i) = v :: rest).
Proof.
  intros. split; [apply eval_cands_step | intros caps i v; apply apply_caps_get].
Qed.
Print Assumptions C09_captures_at_that_moment.

(* exact accounting: a counter that every action either cannot reach or moves by a literal +N / -N
   ends the transaction at its initial value plus, over the rules evaluated in order and over the
   links of each, (matched values of the link) x (delta of the link) — provided the absolute sum
   stays inside int64 (beyond that Go's addition wraps: see C09_setvar_arith) *)
Theorem C09_sum :
  forall (opid : Type) (op_eval : opid -> env -> st -> bytes -> bool * list (N * bytes)) (c : bytes),
  has_nondigit c = true ->
  forall (e : env) (rs : list (rule opid)) (s : st) (z : Z),
  forallb (rule_ok opid c) rs = true ->
  tx_counter (s_tx s) c = Some z ->
  (Z.abs z + tx_sum opid op_eval (link_abs opid c) e rs s < two63)%Z ->
  tx_counter (s_tx (eval_tx op_eval e rs s)) c = Some (z + tx_sum opid op_eval (link_delta opid c) e rs s)%Z.
Proof. exact sum_exact. Qed.
Print Assumptions C09_sum.

(* HIGHEST_SEVERITY is the minimum of 255 and the severities set on the rules that fired *)
Theorem C09_highest_severity_min :
  forall (opid : Type) (op_eval : opid -> env -> st -> bytes -> bool * list (N * bytes))
         (e : env) (rs : list (rule opid)),
  rules_sev_ok opid rs = true ->
  s_hs (eval_tx op_eval e rs st_init) = z_itoa (fold_min 255 (s_matched (eval_tx op_eval e rs st_init))).
Proof. exact highest_severity_min_init. Qed.
Print Assumptions C09_highest_severity_min.

Theorem C09_highest_severity_invariant :
  forall (opid : Type) (op_eval : opid -> env -> st -> bytes -> bool * list (N * bytes))
         (h0 : Z) (e : env) (rs : list (rule opid)) (s : st),
  rules_sev_ok opid rs = true -> hs_inv h0 s -> hs_inv h0 (eval_tx op_eval e rs s).
Proof. exact highest_severity_min. Qed.
Print Assumptions C09_highest_severity_invariant.

(* pooled objects: whatever requests an object served before (each processed and closed), the next
   transaction on it starts from the initial state — TX.0-10 = "", HIGHEST_SEVERITY = 255, no
   matched rules — so every per-transaction theorem above holds for the n-th transaction of a WAF *)
Theorem C09_recycled_transaction_starts_fresh :
  forall (s : st), st_new (st_close s) = st_init.
Proof. exact st_new_close_init. Qed.
Print Assumptions C09_recycled_transaction_starts_fresh.

Theorem C09_nth_transaction_is_first :
  forall (opid : Type) (op_eval : opid -> env -> st -> bytes -> bool * list (N * bytes))
         (rs : list (rule opid)) (priors : list env) (e : env),
  eval_nth_tx op_eval rs priors e = eval_tx op_eval e rs st_init.
Proof. exact nth_tx_is_first. Qed.
Print Assumptions C09_nth_transaction_is_first.

Theorem C09_highest_severity_min_nth :
  forall (opid : Type) (op_eval : opid -> env -> st -> bytes -> bool * list (N * bytes))
         (rs : list (rule opid)) (priors : list env) (e : env),
  rules_sev_ok opid rs = true ->
  s_hs (eval_nth_tx op_eval rs priors e) = z_itoa (fold_min 255 (s_matched (eval_nth_tx op_eval rs priors e))).
Proof. exact highest_severity_min_nth. Qed.
Print Assumptions C09_highest_severity_min_nth.

(* ---- setvar semantics ---- *)
Theorem C09_setvar_delete_removes : forall k v m, tx_get (setvar_apply true k v m) k = [].
Proof. exact setvar_delete_removes. Qed.
Print Assumptions C09_setvar_delete_removes.

Theorem C09_setvar_assign_one_value : forall k c rest m,
  (c =? 43) || (c =? 45) = false -> tx_get (setvar_apply false k (c :: rest) m) k = [c :: rest].
Proof. exact setvar_assign_one_value. Qed.
Print Assumptions C09_setvar_assign_one_value.

Theorem C09_setvar_empty_value : forall k m, tx_get (setvar_apply false k [] m) k = [[]].
Proof. exact setvar_empty_value. Qed.
Print Assumptions C09_setvar_empty_value.

(* +N / -N on a numeric (or absent / empty) current value: Go int addition, i.e. wrap at int64 *)
Theorem C09_setvar_arith : forall k sign rest m cur n,
  (sign = 43 \/ sign = 45) -> tx_counter m k = Some cur -> sv_operand rest = AOk n ->
  tx_get (setvar_apply false k (sign :: rest) m) k =
    [z_itoa (wrap64 (if sign =? 43 then (cur + n)%Z else (cur - n)%Z))].
Proof. exact setvar_arith. Qed.
Print Assumptions C09_setvar_arith.

(* a current value that Atoi rejects: the action stores nothing *)
Theorem C09_setvar_non_numeric_current : forall k sign rest m n,
  (sign = 43 \/ sign = 45) -> tx_counter m k = None -> sv_operand rest = AOk n ->
  setvar_apply false k (sign :: rest) m = m.
Proof. exact setvar_non_numeric_current. Qed.
Print Assumptions C09_setvar_non_numeric_current.

(* an operand that Atoi rejects: nothing stored when it starts with "tx." (unresolved macro),
   otherwise the literal text (sign included) replaces the value *)
Theorem C09_setvar_non_numeric_operand : forall k sign rest m z,
  (sign = 43 \/ sign = 45) -> sv_operand rest = AErr z ->
  setvar_apply false k (sign :: rest) m =
    if is_prefix (str "tx.") rest then m else tx_set m k [sign :: rest].
Proof. exact setvar_non_numeric_operand. Qed.
Print Assumptions C09_setvar_non_numeric_operand.

Theorem C09_setvar_frame : forall rm k v m k2, k2 <> k -> tx_get (setvar_apply rm k v m) k2 = tx_get m k2.
Proof. exact setvar_apply_frame. Qed.
Print Assumptions C09_setvar_frame.

Theorem C09_setvar_keys_distinct : forall rm k v m, NoDup (tx_keys m) -> NoDup (tx_keys (setvar_apply rm k v m)).
Proof. exact setvar_apply_nodup. Qed.
Print Assumptions C09_setvar_keys_distinct.

(* what an arithmetic setvar writes is read back as the same integer *)
Theorem C09_itoa_atoi_roundtrip : forall z, (- two63 <= z < two63)%Z -> atoi (z_itoa z) = AOk z.
Proof. exact atoi_z_itoa. Qed.
Print Assumptions C09_itoa_atoi_roundtrip.

(* observed oddity (not a violation of the property as stated): the test that recognises an
   unresolved %{tx.x} operand is case sensitive, %{TX.x} overwrites the counter with text *)
Theorem C09_unresolved_operand_case_sensitive :
  let m := [(str "score", [str "5"])] in
  setvar_apply false (str "score") (str "+tx.inc") m = m /\
  setvar_apply false (str "score") (str "+TX.inc") m = [(str "score", [str "+TX.inc"])].
Proof. exact setvar_missing_operand_case. Qed.
Print Assumptions C09_unresolved_operand_case_sensitive.
