package c04

import (
	"fmt"
	"math/rand"
	"net/url"
	"strings"
)

// ---------------------------------------------------------------------------------------
// requests: names repeated within a collection and across GET/POST, case variants
// ---------------------------------------------------------------------------------------

var valuePool = []string{"ONE", "one", "One", "TWO", "two", " x ", "x", "attack", "ATTACK 1", "Attack  two", "5", "12", "0", "",
	"select 1", "SELECT", "  padded  ", "a b", "x", "y", "one two", "7", "%41", "a+b"}

var namePool = []string{"a", "b", "c", "d", "e", "f", "g", "h", "token", "tok2"}

func genValue(r *rand.Rand) string { return valuePool[r.Intn(len(valuePool))] }

func caseVariant(r *rand.Rand, n string) string {
	switch r.Intn(8) {
	case 0, 1:
		return strings.ToUpper(n)
	case 2:
		return strings.ToUpper(n[:1]) + n[1:] // Token
	}
	return n
}

func genArgs(r *rand.Rand, names []string) [][2]string {
	var out [][2]string
	for _, n := range names {
		rep := 1
		if r.Intn(3) == 0 {
			rep = 2 + r.Intn(3) // 2-4 times
		}
		if len(out) >= 7 {
			rep = 1
		}
		for i := 0; i < rep; i++ {
			out = append(out, [2]string{caseVariant(r, n), genValue(r)})
		}
	}
	r.Shuffle(len(out), func(i, j int) { out[i], out[j] = out[j], out[i] })
	return out
}

func genRequest(r *rand.Rand, cj *caseJSON) {
	nd := 2 + r.Intn(7) // 2-8 distinct names
	names := append([]string(nil), namePool...)
	r.Shuffle(len(names), func(i, j int) { names[i], names[j] = names[j], names[i] })
	names = names[:nd]
	switch r.Intn(4) {
	case 0: // GET only
		cj.Get = genArgs(r, names)
	case 1: // the same names in both
		cj.Get = genArgs(r, names)
		cj.Post = genArgs(r, names[:1+r.Intn(len(names))])
	default: // overlapping halves
		k := 1 + r.Intn(len(names))
		cj.Get = genArgs(r, names[:k])
		lo := r.Intn(k)
		cj.Post = genArgs(r, names[lo:])
	}
	// the classic shape of the property text: a=1&a=2&A=3 in both
	if r.Intn(5) == 0 {
		cj.Get = append(cj.Get, [2]string{"a", "1"}, [2]string{"a", "2"}, [2]string{"A", "3"})
		cj.Post = append(cj.Post, [2]string{"a", "1"}, [2]string{"a", "2"}, [2]string{"A", "3"})
	}
	// names differing only in case, within and across GET/POST (they share one bucket of the collection)
	if r.Intn(4) == 0 {
		vs := [][2]string{{"Token", "1"}, {"token", "2"}, {"TOKEN", "one"}, {"tOken", "attack"}, {"Tok2", "x"}, {"tok2", "ONE"}}
		r.Shuffle(len(vs), func(i, j int) { vs[i], vs[j] = vs[j], vs[i] })
		k := 2 + r.Intn(3)
		cj.Get = append(cj.Get, vs[:k]...)
		if len(cj.Post) > 0 || r.Intn(2) == 0 {
			r.Shuffle(len(vs), func(i, j int) { vs[i], vs[j] = vs[j], vs[i] })
			cj.Post = append(cj.Post, vs[:1+r.Intn(3)]...)
		}
	}
	// one name spelled in 2-3 different percent / plus encodings (and values likewise), within and across GET/POST
	if r.Intn(4) == 0 {
		names := []string{"q", "a b", "id[]", "token", "a"}
		r.Shuffle(len(names), func(i, j int) { names[i], names[j] = names[j], names[i] })
		var extra [][2]string
		for _, n := range names[:1+r.Intn(2)] {
			vals := []string{"ok", "evil", "one two", "attack", "x"}
			r.Shuffle(len(vals), func(i, j int) { vals[i], vals[j] = vals[j], vals[i] })
			for k := 0; k < 2+r.Intn(2); k++ {
				extra = append(extra, [2]string{n, vals[k]})
			}
		}
		switch r.Intn(3) {
		case 0:
			cj.Get = append(cj.Get, extra...)
		case 1:
			cj.Post = append(cj.Post, extra...)
		default:
			cj.Get = append(cj.Get, extra...)
			r.Shuffle(len(extra), func(i, j int) { extra[i], extra[j] = extra[j], extra[i] })
			cj.Post = append(cj.Post, extra[:1+r.Intn(len(extra))]...)
		}
		cj.GetWire = wireOf(r, cj.Get)
		cj.PostWire = wireOf(r, cj.Post)
	}
	hs := [][2]string{{"X-One", "One"}, {"x-one", "TWO"}, {"Y", "ONE"}, {"X-Attack", "attack"}, {"Z", " x "}, {"y", "5"}}
	nh := r.Intn(len(hs) + 1)
	cj.Headers = append(cj.Headers, hs[:nh]...)
	if len(cj.Post) > 0 {
		cj.Headers = append(cj.Headers, [2]string{"Content-Type", "application/x-www-form-urlencoded"})
	}
}

// ---------------------------------------------------------------------------------------
// configurations
// ---------------------------------------------------------------------------------------

var tfPools = [][]string{
	{"lowercase", "trim", "compressWhitespace"},
	{"lowercase", "trim", "removeWhitespace"},
	{"trim", "lowercase"},
	{"urlDecode", "lowercase", "trim"},
	{"uppercase", "trimLeft"},
	{"lowercase", "length"},
}

func genTfs(r *rand.Rand, base []string) []string {
	if r.Intn(6) == 0 {
		return nil
	}
	k := 1 + r.Intn(len(base))
	return append([]string(nil), base[:k]...)
}

func multiTargetPool(phase int) []targetJ {
	p := []targetJ{
		{Var: "ARGS"}, {Var: "ARGS"}, {Var: "ARGS"}, {Var: "ARGS", Excl: []string{"b"}}, {Var: "ARGS", Excl: []string{"a"}}, {Var: "ARGS", Excl: []string{"a", "c"}},
		{Var: "ARGS", Key: "a"}, {Var: "ARGS", Key: "b"}, {Var: "ARGS_GET"}, {Var: "ARGS_GET"}, {Var: "ARGS_GET", Key: "a"}, {Var: "ARGS_GET", Excl: []string{"a"}},
		{Var: "ARGS_NAMES"}, {Var: "ARGS_NAMES", Key: "a"}, {Var: "ARGS_GET_NAMES"}, {Var: "REQUEST_HEADERS"}, {Var: "REQUEST_HEADERS"}, {Var: "REQUEST_HEADERS", Key: "x-one"},
		{Var: "REQUEST_HEADERS_NAMES"}, {Var: "REQUEST_HEADERS", Excl: []string{"y"}},
		// regex keys and string keys over names / values, with case-variant names in the request
		{Var: "ARGS_NAMES", Rx: "^tok"}, {Var: "ARGS_GET_NAMES", Rx: "^tok"}, {Var: "ARGS_GET_NAMES", Rx: "^t"}, {Var: "ARGS_NAMES", Rx: "^a"},
		{Var: "ARGS", Rx: "^tok"}, {Var: "ARGS_GET", Rx: "^a"}, {Var: "ARGS", Rx: "^[a-c]"}, {Var: "REQUEST_HEADERS_NAMES", Rx: "^x-"}, {Var: "REQUEST_HEADERS", Rx: "^x-o"},
		{Var: "ARGS_NAMES", Key: "token"}, {Var: "ARGS_GET_NAMES", Key: "token"}, {Var: "ARGS", Key: "token"}, {Var: "REQUEST_HEADERS_NAMES", Key: "x-one"},
		{Var: "ARGS_NAMES", Rx: "^tok", Excl: []string{"tok2"}},
	}
	if phase >= 2 {
		p = append(p, targetJ{Var: "ARGS_POST"}, targetJ{Var: "ARGS_POST"}, targetJ{Var: "ARGS_POST", Key: "a"}, targetJ{Var: "ARGS_POST_NAMES"}, targetJ{Var: "ARGS_POST", Excl: []string{"b"}},
			targetJ{Var: "ARGS_POST_NAMES", Rx: "^t"}, targetJ{Var: "ARGS_POST_NAMES", Rx: "^tok"}, targetJ{Var: "ARGS_POST", Rx: "^tok"})
	}
	return p
}

var counters = []string{"score", "cnt", "hits", "pl1", "flag"}

func singleTargetPool() []targetJ {
	return []targetJ{
		{Var: "REQUEST_METHOD"}, {Var: "QUERY_STRING"}, {Var: "ARGS", Count: true}, {Var: "ARGS", Key: "a", Count: true},
		{Var: "ARGS_GET", Count: true}, {Var: "ARGS_NAMES", Count: true}, {Var: "REQUEST_HEADERS", Count: true},
		{Var: "TX", Key: "score"}, {Var: "TX", Key: "cnt"}, {Var: "TX", Key: "hits"}, {Var: "TX", Key: "crit"},
		// derived views: size and counts
		{Var: "ARGS_COMBINED_SIZE"}, {Var: "ARGS_COMBINED_SIZE"}, {Var: "ARGS_COMBINED_SIZE"}, {Var: "ARGS_POST", Count: true}, {Var: "ARGS_GET_NAMES", Count: true},
		{Var: "ARGS_POST_NAMES", Count: true}, {Var: "REQUEST_HEADERS_NAMES", Count: true}, {Var: "ARGS_NAMES", Key: "token", Count: true},
	}
}

func genOp(r *rand.Rand, l *linkJ, numeric bool) {
	if numeric {
		if r.Intn(2) == 0 {
			l.Op, l.Arg = "ge", fmt.Sprint(r.Intn(8))
		} else {
			l.Op, l.Arg = "eq", fmt.Sprint(r.Intn(6))
		}
		return
	}
	lits := []string{"one", "two", "attack", "x", "a", "select", "ONE", "1", "o"}
	// operators that distinguish the case of a reported NAME
	isNames := len(l.Targets) > 0 && (strings.HasSuffix(l.Targets[0].Var, "_NAMES") || l.Targets[0].Rx != "")
	if isNames && r.Intn(3) > 0 {
		lits = []string{"T", "Token", "token", "TOKEN", "A", "a", "X-One", "x-", "Tok", "t", "K"}
	}
	switch r.Intn(10) {
	case 0, 1, 2:
		l.Op = "rxdot"
	case 3, 4:
		l.Op, l.Arg = "rxlit", lits[r.Intn(len(lits))]
	case 5:
		l.Op, l.Arg = "streq", lits[r.Intn(len(lits))]
	case 6:
		l.Op, l.Arg = "contains", lits[r.Intn(len(lits))]
	case 7:
		l.Op, l.Arg = "beginswith", lits[r.Intn(len(lits))]
	case 8:
		l.Op = "any"
	default:
		l.Op, l.Arg = "contains", "e"
	}
	if r.Intn(8) == 0 {
		l.Neg = true
	}
}

func genActs(r *rand.Rand, l *linkJ) {
	n := r.Intn(3)
	if r.Intn(4) > 0 && n == 0 {
		n = 1
	}
	for i := 0; i < n; i++ {
		k := counters[r.Intn(len(counters))]
		switch r.Intn(10) {
		case 0, 1, 2, 3, 4:
			l.Acts = append(l.Acts, actJ{k, fmt.Sprintf("+%d", 1+r.Intn(5))})
		case 5:
			l.Acts = append(l.Acts, actJ{k, fmt.Sprintf("-%d", 1+r.Intn(3))})
		case 6:
			l.Acts = append(l.Acts, actJ{k, "+%{tx.crit}"})
		case 7:
			l.Acts = append(l.Acts, actJ{"flag", []string{"1", "seen", "007", "x y"}[r.Intn(4)]})
		case 8:
			l.Acts = append(l.Acts, actJ{k, "+%{tx.missing}"})
		default:
			l.Acts = append(l.Acts, actJ{k, fmt.Sprintf("%d", r.Intn(4))})
		}
	}
}

func isNumericTarget(t targetJ) bool { return t.Count || (t.Var == "TX") || t.Var == "ARGS_COMBINED_SIZE" }

// genLink: a link over 1-2 targets; sens adds the order-dependent reads
func genLink(r *rand.Rand, phase int, base []string, wantMulti bool) linkJ {
	var l linkJ
	if wantMulti {
		pool := multiTargetPool(phase)
		l.Targets = append(l.Targets, pool[r.Intn(len(pool))])
		if r.Intn(4) == 0 {
			t := pool[r.Intn(len(pool))]
			if t.Var != l.Targets[0].Var {
				l.Targets = append(l.Targets, t)
			}
		}
		l.T = genTfs(r, base)
		genOp(r, &l, false)
		if (l.Op == "rxdot" || l.Op == "rxlit") && r.Intn(4) == 0 {
			l.Capture = true
		}
	} else {
		pool := singleTargetPool()
		t := pool[r.Intn(len(pool))]
		l.Targets = []targetJ{t}
		if isNumericTarget(t) {
			genOp(r, &l, true)
			if t.Var != "TX" && r.Intn(2) == 0 {
				// the value itself goes into the compared outcome
				l.Acts = append(l.Acts, actJ{[]string{"snap", "snap2", "size"}[r.Intn(3)], "%{MATCHED_VAR}"})
			}
		} else {
			l.T = genTfs(r, base)
			genOp(r, &l, false)
		}
	}
	genActs(r, &l)
	return l
}

func genCase(r *rand.Rand, sens bool) caseJSON {
	var cj caseJSON
	if sens {
		return genSens(r)
	}
	genRequest(r, &cj)
	base := tfPools[r.Intn(len(tfPools))]
	nr := 2 + r.Intn(5)
	phase := 1 + r.Intn(2)
	id := 100
	// constants read by +%{tx.crit}
	cj.Rules = append(cj.Rules, ruleJ{ID: id, Phase: 1, Sev: -1, Head: linkJ{Targets: []targetJ{{Var: "REQUEST_METHOD"}}, Op: "any",
		Acts: []actJ{{"crit", fmt.Sprint(2 + r.Intn(4))}}}})
	for i := 0; i < nr; i++ {
		id++
		if r.Intn(4) == 0 {
			phase = []int{1, 2, 2, 5}[r.Intn(4)]
		}
		rule := ruleJ{ID: id, Phase: phase, Sev: -1}
		rule.Head = genLink(r, phase, base, r.Intn(5) > 0)
		if r.Intn(3) == 0 && i > 0 { // the same transformation list as the previous rule
			rule.Head.T = append([]string(nil), cj.Rules[len(cj.Rules)-1].Head.T...)
			if isNumericTarget(rule.Head.Targets[0]) {
				rule.Head.T = nil
			}
		}
		if r.Intn(4) == 0 {
			nl := 1 + r.Intn(2)
			for k := 0; k < nl; k++ {
				rule.Chain = append(rule.Chain, genLink(r, phase, base, r.Intn(2) == 0))
			}
		}
		if r.Intn(3) == 0 {
			rule.Sev = r.Intn(6)
		}
		if r.Intn(6) == 0 {
			rule.Deny = []int{403, 401, 406}[r.Intn(3)]
		}
		cj.Rules = append(cj.Rules, rule)
	}
	// anomaly threshold at the end of a phase
	if r.Intn(2) == 0 {
		id++
		cj.Rules = append(cj.Rules, ruleJ{ID: id, Phase: []int{1, 2, 2}[r.Intn(3)], Sev: 2, Deny: 403,
			Head: linkJ{Targets: []targetJ{{Var: "TX", Key: "score"}}, Op: "ge", Arg: fmt.Sprint(3 + r.Intn(12))}})
	}
	// readers that are fine where they stand: a chain link reading MATCHED_VAR right after a single-valued link
	if r.Intn(5) == 0 {
		id++
		cj.Rules = append(cj.Rules, ruleJ{ID: id, Phase: 2, Sev: -1,
			Head:  linkJ{Targets: []targetJ{{Var: "REQUEST_METHOD"}}, Op: "rxdot", T: []string{"lowercase"}},
			Chain: []linkJ{{Targets: []targetJ{{Var: "MATCHED_VAR"}}, Op: "beginswith", Arg: "p", Acts: []actJ{{"m", "%{MATCHED_VAR}"}, {"cnt", "+1"}}}}})
	}
	tuneThresholds(r, &cj)
	genAlt(r, &cj)
	if !orderInsensitive(cj.Rules) {
		// by construction this should not happen; keep the stream order-insensitive
		return genCase(r, false)
	}
	return cj
}

// genSens: the known finding F26 on purpose. Two GET arguments with distinct names, so that every
// map iteration has exactly two possible orders.
func genSens(r *rand.Rand) caseJSON {
	var cj caseJSON
	vals := [][2]string{{"x", "y"}, {"one", "TWO"}, {"attack", "x"}, {"5", "7"}}
	v := vals[r.Intn(len(vals))]
	cj.Get = [][2]string{{"a", v[0]}, {"b", v[1]}}
	parent := linkJ{Targets: []targetJ{{Var: []string{"ARGS", "ARGS_GET", "ARGS_NAMES"}[r.Intn(3)]}}, Op: "rxdot"}
	switch r.Intn(5) {
	case 0: // chain link reads MATCHED_VAR
		cj.Rules = []ruleJ{{ID: 1, Phase: 1, Sev: -1, Head: parent,
			Chain: []linkJ{{Targets: []targetJ{{Var: "MATCHED_VAR"}}, Op: "streq", Arg: v[0]}}}}
	case 1: // chain link reads MATCHED_VAR_NAME
		cj.Rules = []ruleJ{{ID: 1, Phase: 1, Sev: -1, Deny: 403, Head: parent,
			Chain: []linkJ{{Targets: []targetJ{{Var: "MATCHED_VAR_NAME"}}, Op: "contains", Arg: ":a"}}}}
	case 2: // setvar from MATCHED_VAR in a multi-valued link
		parent.Acts = []actJ{{"last", "%{MATCHED_VAR}"}, {"cnt", "+1"}}
		cj.Rules = []ruleJ{{ID: 1, Phase: 1, Sev: -1, Head: parent}}
	case 3: // later rule reads TX.0 captured by a multi-valued link
		parent.Capture = true
		cj.Rules = []ruleJ{{ID: 1, Phase: 1, Sev: -1, Head: parent},
			{ID: 2, Phase: 2, Sev: 3, Head: linkJ{Targets: []targetJ{{Var: "TX", Key: "0"}}, Op: "streq", Arg: v[0][:1]}}}
	default: // later rule (next phase) reads the stale MATCHED_VAR
		cj.Rules = []ruleJ{{ID: 1, Phase: 1, Sev: -1, Head: parent},
			{ID: 2, Phase: 2, Sev: -1, Head: linkJ{Targets: []targetJ{{Var: "MATCHED_VAR"}}, Op: "streq", Arg: v[1], Acts: []actJ{{"hits", "+1"}}}}}
	}
	return cj
}

// wireOf encodes pairs choosing, per occurrence, one of several equivalent spellings of name and value
func wireOf(r *rand.Rand, ps [][2]string) string {
	var parts []string
	for _, p := range ps {
		parts = append(parts, spell(r, p[0])+"="+spell(r, p[1]))
	}
	return strings.Join(parts, "&")
}

func rawSafe(c byte) bool {
	return c >= 'a' && c <= 'z' || c >= 'A' && c <= 'Z' || c >= '0' && c <= '9' || c == '[' || c == ']' || c == '_' || c == '.' || c == '-'
}

func spell(r *rand.Rand, s string) string {
	if s == "" {
		return ""
	}
	style := r.Intn(5)
	var b strings.Builder
	for i := 0; i < len(s); i++ {
		c := s[i]
		pct := func(upper bool) {
			if upper {
				fmt.Fprintf(&b, "%%%02X", c)
			} else {
				fmt.Fprintf(&b, "%%%02x", c)
			}
		}
		switch style {
		case 0: // canonical (url.QueryEscape): space as +, brackets escaped
			b.WriteString(url.QueryEscape(string(c)))
		case 1: // first byte percent-encoded, the rest raw where possible
			if i == 0 || !rawSafe(c) {
				pct(true)
			} else {
				b.WriteByte(c)
			}
		case 2: // everything percent-encoded, lower-case hex
			pct(false)
		case 3: // raw where possible (id[] stays id[]), space as %20
			if rawSafe(c) {
				b.WriteByte(c)
			} else {
				pct(true)
			}
		default: // raw where possible, space as +, last byte percent-encoded
			switch {
			case i == len(s)-1:
				pct(false)
			case c == ' ':
				b.WriteByte('+')
			case rawSafe(c):
				b.WriteByte(c)
			default:
				pct(true)
			}
		}
	}
	return b.String()
}

func pairsSize(ps [][2]string) int {
	n := 0
	for _, p := range ps {
		n += len(p[0]) + len(p[1])
	}
	return n
}

// tuneThresholds puts the numeric argument of rules over ARGS_COMBINED_SIZE / plain counts close to the
// actual value (of the request or of its sibling), so that the verdict depends on the exact value
func tuneThresholds(r *rand.Rand, cj *caseJSON) {
	actual := func(t targetJ, phase int) (int, bool) {
		get, post := cj.Get, cj.Post
		if phase < 2 {
			post = nil
		}
		if t.Key != "" || t.Rx != "" || len(t.Excl) > 0 {
			return 0, false
		}
		switch {
		case t.Var == "ARGS_COMBINED_SIZE":
			return pairsSize(get) + pairsSize(post), true
		case t.Count && (t.Var == "ARGS" || t.Var == "ARGS_NAMES"):
			return len(get) + len(post), true
		case t.Count && (t.Var == "ARGS_GET" || t.Var == "ARGS_GET_NAMES"):
			return len(get), true
		case t.Count && (t.Var == "ARGS_POST" || t.Var == "ARGS_POST_NAMES"):
			return len(post), true
		}
		return 0, false
	}
	tune := func(l *linkJ, phase int) {
		if len(l.Targets) != 1 || (l.Op != "ge" && l.Op != "eq") || r.Intn(4) == 0 {
			return
		}
		if v, ok := actual(l.Targets[0], phase); ok {
			v += r.Intn(5) - 2
			if v < 0 {
				v = 0
			}
			l.Arg = fmt.Sprint(v)
		}
	}
	for i := range cj.Rules {
		tune(&cj.Rules[i].Head, cj.Rules[i].Phase)
		for k := range cj.Rules[i].Chain {
			tune(&cj.Rules[i].Chain[k], cj.Rules[i].Phase)
		}
	}
}

// genAlt: the sibling request that alternates with the main one on the long-lived WAF
func genAlt(r *rand.Rand, cj *caseJSON) {
	if r.Intn(5) == 0 {
		return
	}
	cj.Alt = true
	other := func(v string) string {
		switch r.Intn(4) {
		case 0:
			return v + "xxxxxxxx"[:1+r.Intn(8)]
		case 1:
			if len(v) > 1 {
				return v[:len(v)/2]
			}
			return v + "attack"
		default:
			w := genValue(r)
			if len(w) == len(v) {
				w += "1"
			}
			return w
		}
	}
	mode := r.Intn(4)
	ren := map[string]string{}
	rename := func(n string) string {
		l := strings.ToLower(n)
		if _, ok := ren[l]; !ok {
			ren[l] = l + []string{"x", "yy", "zzz"}[r.Intn(3)]
		}
		return ren[l]
	}
	mut := func(ps [][2]string) [][2]string {
		var out [][2]string
		for _, p := range ps {
			switch mode {
			case 0, 1: // the same names (so the same number of names), values of other lengths
				out = append(out, [2]string{p[0], other(p[1])})
			case 2: // the same NUMBER of distinct names, names and values of other lengths
				out = append(out, [2]string{rename(p[0]), other(p[1])})
			default: // the converse: another number of names, the values kept
				out = append(out, p)
			}
		}
		if mode == 3 && len(out) > 0 {
			if len(out) > 1 && r.Intn(2) == 0 {
				out = out[:len(out)-1]
			} else {
				out = append(out, [2]string{"extra" + fmt.Sprint(r.Intn(3)), "one"})
			}
		}
		return out
	}
	cj.AltGet = mut(cj.Get)
	cj.AltPost = mut(cj.Post)
}
