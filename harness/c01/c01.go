// Package c01 drives the correspondence for C01 (rule matching is exact: no missed match, no
// phantom match).  Rule sets are compiled by real WAFs (coraza.NewWAF with directives), requests are
// fed through the public transaction API (ProcessURI, AddRequestHeader, ProcessRequestHeaders,
// WriteRequestBody, ProcessRequestBody) and the observable is tx.MatchedRules(): per fired rule
// (in order) the multiset of (variable, key, value, chain level) of MatchedDatas().  The same rule
// sets and requests are written as Coq terms; Match.run_tx is evaluated on them inside Coq.
package c01

import (
	"encoding/hex"
	"encoding/json"
	"fmt"
	"math/rand"
	"os"
	"regexp"
	"sort"
	"strings"

	coraza "github.com/corazawaf/coraza/v3"
	"github.com/corazawaf/coraza/v3/experimental/plugins/plugintypes"
	"github.com/corazawaf/coraza/v3/internal/collections"
	"github.com/corazawaf/coraza/v3/internal/corazawaf"
	"github.com/corazawaf/coraza/v3/internal/operators"
	"github.com/corazawaf/coraza/v3/internal/transformations"
	"github.com/corazawaf/coraza/v3/types"
	"github.com/corazawaf/coraza/v3/types/variables"
	"github.com/corazawaf/coraza/v3/verifharness/vh"
)

func init() { vh.Register("C01", Run) }

// ---------------------------------------------------------------------------------------
// case description (JSON shape = replay / corpus shape); every byte string is hex
// ---------------------------------------------------------------------------------------

type RxPat struct {
	Class  string `json:"class,omitempty"` // nondigits (^\\D+$) | digits (^\\d+$) | nonspace (^\\S+$)
	Any    bool   `json:"any,omitempty"`
	AL     bool   `json:"al,omitempty"`
	AR     bool   `json:"ar,omitempty"`
	LitHex string `json:"lit_hex,omitempty"`
}

type Sel struct {
	Kind   string `json:"kind"` // all | str | rx
	KeyHex string `json:"key_hex,omitempty"`
	Rx     *RxPat `json:"rx,omitempty"`
}

type Item struct {
	Neg   bool   `json:"neg,omitempty"`
	Count bool   `json:"count,omitempty"`
	Var   string `json:"var"`
	Sel   Sel    `json:"sel"`
}

type Link struct {
	Items   []Item      `json:"items,omitempty"`
	Action  bool        `json:"action,omitempty"`  // operator-less (SecAction)
	Setvars [][2]string `json:"setvars,omitempty"` // hex key, hex value
	Ctls    []Ctl       `json:"ctls,omitempty"`    // ctl:ruleRemoveTargetById / ByTag of an operator-less rule
	Neg     bool        `json:"neg,omitempty"`
	Op      string      `json:"op,omitempty"`
	ArgHex  string      `json:"arg_hex,omitempty"`
	Tfs     []string    `json:"tfs,omitempty"`
	Multi   bool        `json:"multi,omitempty"`
}

// Ctl is one ctl:ruleRemoveTargetById=lo[-hi];VAR[:key|:/rx/] action; with Tag it is written as
// ctl:ruleRemoveTargetByTag=Tag;... and IDs lists the rules that carry the tag (what it resolves to)
type Ctl struct {
	Lo  int    `json:"lo,omitempty"`
	Hi  int    `json:"hi,omitempty"`
	Tag string `json:"tag,omitempty"`
	IDs []int  `json:"ids,omitempty"`
	Var string `json:"var"`
	Sel Sel    `json:"sel"`
}

// Removal is one argument of SecRuleRemoveById: a single id (Hi == 0) or a range
type Removal struct {
	Lo int `json:"lo"`
	Hi int `json:"hi,omitempty"`
}

type Rule struct {
	Tag   string `json:"tag,omitempty"`
	ID    int    `json:"id"`
	Phase int    `json:"phase"`
	Links []Link `json:"links"`
}

type Request struct {
	Get    [][2]string `json:"get,omitempty"` // hex key, hex value (decoded form)
	Post   [][2]string `json:"post,omitempty"`
	Hdr    [][2]string `json:"hdr,omitempty"`
	Cookie [][2]string `json:"cookie,omitempty"`
	Method string      `json:"method"`
	Path   string      `json:"path"`
}

type ObsMD struct {
	Var   string `json:"var"`
	Key   string `json:"key_hex"`
	Val   string `json:"val_hex"`
	Level int    `json:"level"`
}
type ObsRule struct {
	ID  int     `json:"id"`
	MDs []ObsMD `json:"mds"`
}

type Case struct {
	Kind       string    `json:"kind"` // tx | rx | op
	Rules      []Rule    `json:"rules,omitempty"`
	Req        *Request  `json:"request,omitempty"`
	Removes    []Removal `json:"removes,omitempty"` // SecRuleRemoveById after the rules
	SecLang    string    `json:"seclang,omitempty"` // informative
	Observed   []ObsRule `json:"observed,omitempty"`
	FindingKey string    `json:"finding_key,omitempty"`
	// rx / op validation cases
	Rx     *RxPat `json:"rx,omitempty"`
	KeyHex string `json:"key_hex,omitempty"`
	Op     string `json:"op,omitempty"`
	ArgHex string `json:"arg_hex,omitempty"`
	ValHex string `json:"val_hex,omitempty"`
	Res    bool   `json:"res,omitempty"`
}

func hx(s string) string { return hex.EncodeToString([]byte(s)) }
func unhx(h string) string {
	b, _ := hex.DecodeString(h)
	return string(b)
}

// ---------------------------------------------------------------------------------------
// tables: variables, operators, transformations
// ---------------------------------------------------------------------------------------

var varCoq = map[string]string{
	"UNKNOWN": "VUnknown", "ARGS": "VArgs", "ARGS_GET": "VArgsGet", "ARGS_POST": "VArgsPost",
	"ARGS_NAMES": "VArgsNames", "ARGS_GET_NAMES": "VArgsGetNames", "ARGS_POST_NAMES": "VArgsPostNames",
	"REQUEST_HEADERS": "VReqHeaders", "REQUEST_HEADERS_NAMES": "VReqHeadersNames",
	"REQUEST_COOKIES": "VReqCookies", "REQUEST_COOKIES_NAMES": "VReqCookiesNames", "TX": "VTx",
	"REQUEST_URI": "VReqUri", "REQUEST_METHOD": "VReqMethod", "QUERY_STRING": "VQueryString",
	"MATCHED_VAR": "VMatchedVar", "ARGS_COMBINED_SIZE": "VArgsCombinedSize",
	"MATCHED_VAR_NAME": "VMatchedVarName", "MATCHED_VARS": "VMatchedVars", "MATCHED_VARS_NAMES": "VMatchedVarsNames",
	"FILES_COMBINED_SIZE": "VFilesCombinedSize",
}

var keyedVars = []string{"ARGS", "ARGS_GET", "ARGS_POST", "ARGS_NAMES", "ARGS_GET_NAMES", "ARGS_POST_NAMES",
	"REQUEST_HEADERS", "REQUEST_HEADERS_NAMES", "REQUEST_COOKIES", "REQUEST_COOKIES_NAMES", "TX"}
var singleVars = []string{"REQUEST_URI", "REQUEST_METHOD", "QUERY_STRING", "ARGS_COMBINED_SIZE"}

func isKeyed(v string) bool {
	for _, k := range keyedVars {
		if k == v {
			return true
		}
	}
	return false
}

var opCoq = map[string]string{
	"streq": "OpStreq", "contains": "OpContains", "beginsWith": "OpBeginsWith", "endsWith": "OpEndsWith",
	"eq": "OpEq", "gt": "OpGt", "unconditionalMatch": "OpUncond", "noMatch": "OpNoMatch",
}
var opNames = []string{"streq", "contains", "beginsWith", "endsWith", "eq", "gt", "unconditionalMatch", "noMatch"}

type tdesc struct {
	Go, Coq string
	ASCII   bool
}

var tds = []tdesc{
	{"lowercase", "TLowercase", true}, {"uppercase", "TUppercase", true},
	{"urlDecode", "TUrlDecode", false}, {"trim", "TTrim", false}, {"trimLeft", "TTrimLeft", false},
	{"trimRight", "TTrimRight", false}, {"removeNulls", "TRemoveNulls", false}, {"replaceNulls", "TReplaceNulls", false},
	{"length", "TLength", false}, {"hexEncode", "THexEncode", false}, {"hexDecode", "THexDecode", false},
	{"base64Decode", "TBase64Decode", false}, {"base64Encode", "TBase64Encode", false},
	{"compressWhitespace", "TCompressWhitespace", false}, {"removeWhitespace", "TRemoveWhitespace", false},
	{"cmdLine", "TCmdLine", false}, {"urlEncode", "TUrlEncode", false}, {"escapeSeqDecode", "TEscapeSeqDecode", false},
	{"utf8toUnicode", "TUtf8ToUnicode", false}, {"removeCommentsChar", "TRemoveCommentsChar", false},
	{"replaceComments", "TReplaceComments", false},
}
var tdByName = func() map[string]tdesc {
	m := map[string]tdesc{}
	for _, t := range tds {
		m[t.Go] = t
	}
	return m
}()

func isASCII(s string) bool {
	for i := 0; i < len(s); i++ {
		if s[i] >= 0x80 {
			return false
		}
	}
	return true
}

// ---------------------------------------------------------------------------------------
// rendering: SecLang text and Coq terms
// ---------------------------------------------------------------------------------------

func (p *RxPat) src() string {
	switch p.Class {
	case "nondigits":
		return `^\D+$`
	case "digits":
		return `^\d+$`
	case "nonspace":
		return `^\S+$`
	}
	if p.Any {
		return "."
	}
	s := unhx(p.LitHex)
	if p.AL {
		s = "^" + s
	}
	if p.AR {
		s += "$"
	}
	return s
}
func (p *RxPat) coq() string {
	switch p.Class {
	case "nondigits":
		return "RxNonDigits"
	case "digits":
		return "RxDigits"
	case "nonspace":
		return "RxNonSpace"
	}
	if p.Any {
		return "RxAny"
	}
	return fmt.Sprintf("(RxLit %s %s %s)", vh.Bool(p.AL), vh.Bool(p.AR), vh.HxS(unhx(p.LitHex)))
}

func (s Sel) text() string {
	switch s.Kind {
	case "str":
		return ":" + unhx(s.KeyHex)
	case "rx":
		return ":/" + s.Rx.src() + "/"
	}
	return ""
}
func (s Sel) coq() string {
	switch s.Kind {
	case "str":
		return "(SelStr " + vh.HxS(unhx(s.KeyHex)) + ")"
	case "rx":
		return "(SelRx " + s.Rx.coq() + ")"
	}
	return "SelAll"
}

func (it Item) text() string {
	p := ""
	if it.Neg {
		p = "!"
	} else if it.Count {
		p = "&"
	}
	return p + it.Var + it.Sel.text()
}
func (it Item) coq() string {
	if it.Neg {
		return fmt.Sprintf("TNeg %s %s", varCoq[it.Var], it.Sel.coq())
	}
	return fmt.Sprintf("TPos %s %s %s", vh.Bool(it.Count), varCoq[it.Var], it.Sel.coq())
}

func (l Link) coq() string {
	items := make([]string, len(l.Items))
	for i, it := range l.Items {
		items[i] = it.coq()
	}
	kind := ""
	if l.Action {
		var sv []string
		for _, kv := range l.Setvars {
			sv = append(sv, "ASetvar "+vh.HxS(unhx(kv[0]))+" "+vh.HxS(unhx(kv[1])))
		}
		for _, c := range l.Ctls {
			if c.Tag != "" {
				for _, id := range c.IDs {
					sv = append(sv, fmt.Sprintf("ACtlRmTarget %s %s %s %s", vh.N(int64(id)), vh.N(int64(id)), varCoq[c.Var], c.Sel.coq()))
				}
				continue
			}
			hi := c.Hi
			if hi == 0 {
				hi = c.Lo
			}
			sv = append(sv, fmt.Sprintf("ACtlRmTarget %s %s %s %s", vh.N(int64(c.Lo)), vh.N(int64(hi)), varCoq[c.Var], c.Sel.coq()))
		}
		kind = "(LAction " + vh.List(sv) + ")"
	} else {
		kind = fmt.Sprintf("(LRule %s (mk_op %s %s))", vh.Bool(l.Neg), opCoq[l.Op], vh.HxS(unhx(l.ArgHex)))
	}
	tf := make([]string, len(l.Tfs))
	for i, t := range l.Tfs {
		tf[i] = tdByName[t].Coq
	}
	return fmt.Sprintf("(mk_link %s %s %s %s)", vh.List(items), kind, vh.List(tf), vh.Bool(l.Multi))
}

func (r Rule) coq() string {
	ch := make([]string, 0, len(r.Links))
	for _, l := range r.Links[1:] {
		ch = append(ch, l.coq())
	}
	return fmt.Sprintf("(mk_rule %s %s %s %s)", vh.N(int64(r.ID)), vh.N(int64(r.Phase)), r.Links[0].coq(), vh.List(ch))
}

func pairsCoq(ps [][2]string) string {
	it := make([]string, len(ps))
	for i, p := range ps {
		it[i] = "(" + vh.HxS(unhx(p[0])) + ", " + vh.HxS(unhx(p[1])) + ")"
	}
	return vh.List(it)
}

func seclang(rules []Rule) string { return seclangR(rules, nil) }

func seclangR(rules []Rule, rms []Removal) string {
	out := seclangBody(rules)
	if len(rms) > 0 {
		var parts []string
		for _, rm := range rms {
			if rm.Hi == 0 {
				parts = append(parts, fmt.Sprint(rm.Lo))
			} else {
				parts = append(parts, fmt.Sprintf("%d-%d", rm.Lo, rm.Hi))
			}
		}
		out += "SecRuleRemoveById " + strings.Join(parts, " ") + "\n"
	}
	return out
}

func seclangBody(rules []Rule) string {
	var b strings.Builder
	b.WriteString("SecRuleEngine On\nSecRequestBodyAccess On\n")
	for _, r := range rules {
		for li, l := range r.Links {
			var acts []string
			if li == 0 {
				acts = append(acts, fmt.Sprintf("id:%d", r.ID), fmt.Sprintf("phase:%d", r.Phase), "pass", "nolog")
				if r.Tag != "" {
					acts = append(acts, "tag:"+r.Tag)
				}
			} else {
				acts = append(acts, "nolog")
			}
			for _, t := range l.Tfs {
				acts = append(acts, "t:"+t)
			}
			if l.Multi {
				acts = append(acts, "multiMatch")
			}
			for _, kv := range l.Setvars {
				acts = append(acts, "setvar:tx."+unhx(kv[0])+"="+unhx(kv[1]))
			}
			for _, c := range l.Ctls {
				if c.Tag != "" {
					acts = append(acts, "ctl:ruleRemoveTargetByTag="+c.Tag+";"+c.Var+c.Sel.text())
				} else if c.Hi != 0 && c.Hi != c.Lo {
					acts = append(acts, fmt.Sprintf("ctl:ruleRemoveTargetById=%d-%d;%s%s", c.Lo, c.Hi, c.Var, c.Sel.text()))
				} else {
					acts = append(acts, fmt.Sprintf("ctl:ruleRemoveTargetById=%d;%s%s", c.Lo, c.Var, c.Sel.text()))
				}
			}
			if li+1 < len(r.Links) {
				acts = append(acts, "chain")
			}
			if l.Action {
				fmt.Fprintf(&b, "SecAction \"%s\"\n", strings.Join(acts, ","))
				continue
			}
			ts := make([]string, len(l.Items))
			for i, it := range l.Items {
				ts[i] = it.text()
			}
			op := "@" + l.Op
			if l.Neg {
				op = "!" + op
			}
			if a := unhx(l.ArgHex); a != "" {
				op += " " + a
			}
			fmt.Fprintf(&b, "SecRule %s \"%s\" \"%s\"\n", strings.Join(ts, "|"), op, strings.Join(acts, ","))
		}
	}
	return b.String()
}

// percent-encode every byte that is not an ASCII letter or digit
func pct(s string) string {
	var b strings.Builder
	for i := 0; i < len(s); i++ {
		c := s[i]
		if (c >= 'a' && c <= 'z') || (c >= 'A' && c <= 'Z') || (c >= '0' && c <= '9') {
			b.WriteByte(c)
		} else {
			fmt.Fprintf(&b, "%%%02X", c)
		}
	}
	return b.String()
}
func encodePairs(ps [][2]string) string {
	segs := make([]string, len(ps))
	for i, p := range ps {
		segs[i] = pct(unhx(p[0])) + "=" + pct(unhx(p[1]))
	}
	return strings.Join(segs, "&")
}

// the request as the model receives it: header list includes the Cookie / Content-Type headers
func (q *Request) wire() (uri, query string, hdrs [][2]string, body string) {
	query = encodePairs(q.Get)
	uri = q.Path
	if query != "" {
		uri += "?" + query
	}
	for _, h := range q.Hdr {
		hdrs = append(hdrs, [2]string{unhx(h[0]), unhx(h[1])})
	}
	if len(q.Cookie) > 0 {
		parts := make([]string, len(q.Cookie))
		for i, c := range q.Cookie {
			parts[i] = unhx(c[0]) + "=" + unhx(c[1])
		}
		hdrs = append(hdrs, [2]string{"Cookie", strings.Join(parts, "; ")})
	}
	if len(q.Post) > 0 {
		hdrs = append(hdrs, [2]string{"Content-Type", "application/x-www-form-urlencoded"})
		body = encodePairs(q.Post)
	}
	return
}

func (q *Request) coq() string {
	uri, query, hdrs, _ := q.wire()
	hp := make([][2]string, len(hdrs))
	for i, h := range hdrs {
		hp[i] = [2]string{hx(h[0]), hx(h[1])}
	}
	return fmt.Sprintf("(mk_request %s %s %s %s %s %s %s)", pairsCoq(q.Get), pairsCoq(q.Post), pairsCoq(hp), pairsCoq(q.Cookie),
		vh.HxS(uri), vh.HxS(q.Method), vh.HxS(query))
}

// ---------------------------------------------------------------------------------------
// the implementation run
// ---------------------------------------------------------------------------------------

func runImpl(rules []Rule, q *Request) (obs []ObsRule, readback map[string][][2]string, err error) {
	return runImplR(rules, nil, q)
}

func runImplR(rules []Rule, rms []Removal, q *Request) (obs []ObsRule, readback map[string][][2]string, err error) {
	defer func() {
		if r := recover(); r != nil {
			err = fmt.Errorf("panic: %v", r)
		}
	}()
	waf, e := coraza.NewWAF(coraza.NewWAFConfig().WithDirectives(seclangR(rules, rms)))
	if e != nil {
		return nil, nil, e
	}
	tx := waf.NewTransaction()
	defer tx.Close()
	uri, _, hdrs, body := q.wire()
	tx.ProcessConnection("127.0.0.1", 1234, "127.0.0.1", 80)
	tx.ProcessURI(uri, q.Method, "HTTP/1.1")
	for _, h := range hdrs {
		tx.AddRequestHeader(h[0], h[1])
	}
	tx.ProcessRequestHeaders()
	if body != "" {
		if _, _, e := tx.WriteRequestBody([]byte(body)); e != nil {
			return nil, nil, e
		}
	}
	if _, e := tx.ProcessRequestBody(); e != nil {
		return nil, nil, e
	}
	for _, mr := range tx.MatchedRules() {
		o := ObsRule{ID: mr.Rule().ID()}
		for _, md := range mr.MatchedDatas() {
			o.MDs = append(o.MDs, ObsMD{Var: md.Variable().Name(), Key: hx(md.Key()), Val: hx(md.Value()), Level: md.ChainLevel()})
		}
		sort.Slice(o.MDs, func(i, j int) bool {
			a, b := o.MDs[i], o.MDs[j]
			if a.Level != b.Level {
				return a.Level < b.Level
			}
			if a.Var != b.Var {
				return a.Var < b.Var
			}
			if a.Key != b.Key {
				return a.Key < b.Key
			}
			return a.Val < b.Val
		})
		obs = append(obs, o)
	}
	// read the collections back (sanity oracle: the request data reached the collections unchanged)
	readback = map[string][][2]string{}
	if st, ok := tx.(plugintypes.TransactionState); ok {
		v := st.Variables()
		grab := func(name string, mds []types.MatchData) {
			var l [][2]string
			for _, m := range mds {
				l = append(l, [2]string{hx(m.Key()), hx(m.Value())})
			}
			sortPairs(l)
			readback[name] = l
		}
		grab("get", v.ArgsGet().FindAll())
		grab("post", v.ArgsPost().FindAll())
		grab("cookie", v.RequestCookies().FindAll())
		grab("hdr", v.RequestHeaders().FindAll())
		readback["uri"] = [][2]string{{"", hx(v.RequestURI().Get())}}
		readback["query"] = [][2]string{{"", hx(v.QueryString().Get())}}
	}
	return obs, readback, nil
}

func sortPairs(l [][2]string) {
	sort.Slice(l, func(i, j int) bool {
		if l[i][0] != l[j][0] {
			return l[i][0] < l[j][0]
		}
		return l[i][1] < l[j][1]
	})
}

func obsCoq(obs []ObsRule) string {
	rs := make([]string, len(obs))
	for i, o := range obs {
		ms := make([]string, len(o.MDs))
		for j, m := range o.MDs {
			vc, ok := varCoq[m.Var]
			if !ok {
				vc = "VUnknown (* " + m.Var + " *)"
			}
			ms[j] = fmt.Sprintf("((%s, %s, %s), %s)", vc, vh.HxS(unhx(m.Key)), vh.HxS(unhx(m.Val)), vh.Nat(m.Level))
		}
		rs[i] = fmt.Sprintf("(%s, %s)", vh.N(int64(o.ID)), vh.List(ms))
	}
	return vh.List(rs)
}

// ---------------------------------------------------------------------------------------
// generators
// ---------------------------------------------------------------------------------------

var keyAlpha = []string{"a", "A", "b", "", "a-b", "a", "A", "b", "B", "ab", "12", "/^a/"}
var selKeyAlpha = []string{"a", "A", "b", "a-b", "B", "ab", "A-B", "Ab"}
var hdrKeyAlpha = []string{"a", "A", "b", "a-b", "X-A", "x-a", "B", "12", "X-Id", "a b"}
var valAlpha = []string{"x", "X", "", "a b", " x ", "%41", "x\x00y", "\xff", "1", "10", "-1", "abc", "ABC", "+5", "  ", "YQ==", "61", "a%20b", "x/*c*/y", "\\x41", "\xc3\xa9"}
var cookieValAlpha = []string{"x", "X", "", "a b", "%41", "\xff", "1", "10", "abc", "ABC", "YQ=="}
var argAlpha = []string{"x", "X", "a", "1", "0", "x", "41", "A", "a b", "abc", "10", "-1", "%41", "b", "5", "2", "78"}
var litAlpha = []string{"a", "A", "b", "a-b", "-", "B", "ab", "x", "X-A"}

func pick(r *rand.Rand, l []string) string { return l[r.Intn(len(l))] }

func genPairs(r *rand.Rand, n int, keys, vals []string) [][2]string {
	var ps [][2]string
	for i := 0; i < n; i++ {
		k := pick(r, keys)
		if len(ps) > 0 && r.Intn(4) == 0 {
			k = unhx(ps[r.Intn(len(ps))][0]) // repeated name
		}
		ps = append(ps, [2]string{hx(k), hx(pick(r, vals))})
	}
	return ps
}

func genRequest(r *rand.Rand) *Request {
	q := &Request{Method: pick(r, []string{"GET", "POST", "PUT"}), Path: pick(r, []string{"/", "/p", "/a/b.php", "/A"})}
	total := r.Intn(7)
	if total == 0 && r.Intn(3) > 0 {
		total = 1 + r.Intn(6)
	}
	ng := r.Intn(total + 1)
	q.Get = genPairs(r, ng, keyAlpha, valAlpha)
	q.Post = genPairs(r, total-ng, keyAlpha, valAlpha)
	if len(q.Get) > 0 && len(q.Post) > 0 && r.Intn(3) == 0 {
		q.Post[0][0] = q.Get[0][0] // the same name in both collections
	}
	q.Hdr = genPairs(r, []int{0, 1, 2, 2, 3, 3}[r.Intn(6)], hdrKeyAlpha, valAlpha)
	for i := range q.Hdr { // header values: no leading/trailing blanks are needed, any bytes are kept as is
		_ = i
	}
	ck := genPairs(r, []int{0, 1, 2, 2, 3, 3}[r.Intn(6)], []string{"a", "A", "b", "a-b", "B", "12"}, cookieValAlpha)
	q.Cookie = ck
	return q
}

func genRx(r *rand.Rand) *RxPat {
	switch r.Intn(12) {
	case 0:
		return &RxPat{Any: true}
	case 1:
		return &RxPat{Class: "nondigits"}
	case 2:
		return &RxPat{Class: "digits"}
	case 3:
		return &RxPat{Class: "nonspace"}
	}
	return &RxPat{AL: r.Intn(2) == 0, AR: r.Intn(3) == 0, LitHex: hx(pick(r, litAlpha))}
}

// keys present in the request for the family of variable v (so that selectors often hit)
func requestKeys(q *Request, v string) []string {
	var l [][2]string
	switch {
	case strings.HasPrefix(v, "ARGS"):
		l = append(append(l, q.Get...), q.Post...)
	case strings.HasPrefix(v, "REQUEST_HEADERS"):
		l = q.Hdr
	case strings.HasPrefix(v, "REQUEST_COOKIES"):
		l = q.Cookie
	}
	var ks []string
	for _, p := range l {
		k := unhx(p[0])
		ok := k != ""
		for i := 0; i < len(k); i++ {
			c := k[i]
			if !((c >= 'a' && c <= 'z') || (c >= 'A' && c <= 'Z') || (c >= '0' && c <= '9') || c == '-') {
				ok = false
			}
		}
		if ok {
			ks = append(ks, k)
		}
	}
	return ks
}

// a different variable over the same underlying data (ARGS vs ARGS_GET vs ARGS_NAMES ...)
func sibling(r *rand.Rand, v string) string {
	var fam []string
	switch {
	case strings.HasPrefix(v, "ARGS") && v != "ARGS_COMBINED_SIZE":
		fam = []string{"ARGS", "ARGS_GET", "ARGS_POST", "ARGS_NAMES", "ARGS_GET_NAMES", "ARGS_POST_NAMES"}
	case strings.HasPrefix(v, "REQUEST_HEADERS"):
		fam = []string{"REQUEST_HEADERS", "REQUEST_HEADERS_NAMES"}
	case strings.HasPrefix(v, "REQUEST_COOKIES"):
		fam = []string{"REQUEST_COOKIES", "REQUEST_COOKIES_NAMES"}
	default:
		return v
	}
	for {
		if w := pick(r, fam); w != v {
			return w
		}
	}
}

func flipCase(r *rand.Rand, k string) string {
	switch r.Intn(4) {
	case 0:
		return strings.ToUpper(k)
	case 1:
		return strings.ToLower(k)
	}
	return k
}

func genSel(r *rand.Rand, v string, forNeg bool, q *Request) Sel {
	if !isKeyed(v) {
		return Sel{Kind: "all"}
	}
	n := r.Intn(20)
	switch {
	case n < 8 && !forNeg:
		return Sel{Kind: "all"}
	case n < 1 && forNeg:
		return Sel{Kind: "all"}
	case n < 16:
		if ks := requestKeys(q, v); len(ks) > 0 && r.Intn(10) < 7 {
			return Sel{Kind: "str", KeyHex: hx(flipCase(r, ks[r.Intn(len(ks))]))}
		}
		return Sel{Kind: "str", KeyHex: hx(pick(r, selKeyAlpha))}
	}
	return Sel{Kind: "rx", Rx: genRx(r)}
}

// an operator argument SecLang can carry verbatim: printable ASCII, no quote / backslash / macro,
// no leading or trailing blank (the parser trims), not empty
func argOK(a string) bool {
	if a == "" || a != strings.TrimSpace(a) || strings.Contains(a, "%{") {
		return false
	}
	for i := 0; i < len(a); i++ {
		if a[i] < 0x20 || a[i] > 0x7e || a[i] == '"' || a[i] == '\\' || a[i] == '\'' {
			return false
		}
	}
	return true
}

// values (before transformations) the variable v can yield for this request (approximation used
// only to steer the generator towards operators that hold)
func candidateValues(q *Request, v string) []string {
	uri, query, hdrs, _ := q.wire()
	var out []string
	add := func(l [][2]string, names bool) {
		for _, p := range l {
			if names {
				out = append(out, unhx(p[0]))
			} else {
				out = append(out, unhx(p[1]))
			}
		}
	}
	names := strings.HasSuffix(v, "_NAMES")
	switch {
	case v == "ARGS_COMBINED_SIZE":
		n := 0
		for _, p := range append(append([][2]string{}, q.Get...), q.Post...) {
			n += len(unhx(p[0])) + len(unhx(p[1]))
		}
		out = append(out, fmt.Sprint(n))
	case strings.HasPrefix(v, "ARGS_GET"):
		add(q.Get, names)
	case strings.HasPrefix(v, "ARGS_POST"):
		add(q.Post, names)
	case strings.HasPrefix(v, "ARGS"):
		add(q.Get, names)
		add(q.Post, names)
	case strings.HasPrefix(v, "REQUEST_HEADERS"):
		for _, h := range hdrs {
			if names {
				out = append(out, h[0])
			} else {
				out = append(out, h[1])
			}
		}
	case strings.HasPrefix(v, "REQUEST_COOKIES"):
		add(q.Cookie, names)
	case v == "REQUEST_URI":
		out = append(out, uri)
	case v == "REQUEST_METHOD":
		out = append(out, q.Method)
	case v == "QUERY_STRING":
		out = append(out, query)
	case v == "TX":
		out = append(out, "", "x", "X", "1", "abc")
	}
	return out
}

// derive an argument from a value one of the link's targets can select (after the link's
// transformations) so that the operator has a fair chance to hold
func argFromRequest(r *rand.Rand, l *Link, q *Request) string {
	var vals []string
	for _, it := range l.Items {
		if it.Neg {
			continue
		}
		if it.Count {
			vals = append(vals, pick(r, []string{"0", "1", "2", "3"}))
			continue
		}
		vals = append(vals, candidateValues(q, it.Var)...)
	}
	if len(vals) == 0 {
		return ""
	}
	v := vals[r.Intn(len(vals))]
	for _, name := range l.Tfs {
		if o, _, err := tf(name)(v); err == nil {
			v = o
		}
	}
	if v == "" {
		return ""
	}
	switch l.Op {
	case "contains":
		i := r.Intn(len(v))
		j := i + 1 + r.Intn(len(v)-i)
		return strings.TrimSpace(v[i:j])
	case "beginsWith":
		return strings.TrimRight(v[:1+r.Intn(len(v))], " ")
	case "endsWith":
		return strings.TrimLeft(v[r.Intn(len(v)):], " ")
	case "eq":
		return v
	case "gt":
		return pick(r, []string{"0", "0", "1", "-1"})
	}
	return v
}

func genLink(r *rand.Rand, prev *Link, q *Request) Link {
	l := Link{Op: pick(r, opNames), ArgHex: hx(pick(r, argAlpha)), Neg: r.Intn(4) == 0, Multi: r.Intn(4) == 0}
	if l.Op == "unconditionalMatch" || l.Op == "noMatch" {
		l.ArgHex = ""
		if r.Intn(2) == 0 {
			l.Op = pick(r, opNames[:6])
			l.ArgHex = hx(pick(r, argAlpha))
		} else if l.Op == "noMatch" && r.Intn(2) == 0 {
			l.Neg = true
		}
	}
	if prev != nil && r.Intn(2) == 0 { // later chain links: more often something that holds
		l.Op, l.ArgHex, l.Neg = pick(r, []string{"unconditionalMatch", "noMatch", "streq"}), "", false
		switch l.Op {
		case "noMatch":
			l.Neg = true
		case "streq":
			l.ArgHex, l.Neg = hx("zzz"), true
		}
	}
	// MATCHED_VAR only after a link that matched at most one value (otherwise: hash order, C04's finding)
	if prev != nil && !prev.Action && !prev.Multi && len(prev.Items) == 1 && (!isKeyed(prev.Items[0].Var) || prev.Items[0].Count) && r.Intn(2) == 0 {
		l.Items = []Item{{Var: "MATCHED_VAR", Sel: Sel{Kind: "all"}}}
	} else {
		np := 1 + r.Intn(3)
		if r.Intn(2) == 0 {
			np = 1
		}
		var vars []string
		for i := 0; i < np; i++ {
			v := pick(r, keyedVars)
			if r.Intn(6) == 0 {
				v = pick(r, singleVars)
			}
			if i > 0 && r.Intn(4) == 0 {
				v = vars[0] // the same variable twice
			}
			vars = append(vars, v)
			l.Items = append(l.Items, Item{Var: v, Count: r.Intn(5) == 0, Sel: genSel(r, v, false, q)})
		}
		nn := []int{0, 0, 1, 1, 2, 3}[r.Intn(6)]
		for i := 0; i < nn; i++ {
			v := vars[r.Intn(len(vars))]
			switch r.Intn(8) {
			case 0:
				v = pick(r, keyedVars)
			case 1, 2:
				v = sibling(r, v) // an exclusion on a related variable must NOT apply
			}
			it := Item{Neg: true, Var: v, Sel: genSel(r, v, true, q)}
			// mostly after the positive items; sometimes in between (applies to earlier targets only)
			if r.Intn(5) == 0 {
				pos := r.Intn(len(l.Items) + 1)
				l.Items = append(l.Items[:pos], append([]Item{it}, l.Items[pos:]...)...)
			} else {
				l.Items = append(l.Items, it)
			}
		}
		// the first item must be positive for the parser's sake? (a leading negation is legal: no-op)
	}
	nt := []int{0, 0, 1, 1, 2, 3}[r.Intn(6)]
	for i := 0; i < nt; i++ {
		l.Tfs = append(l.Tfs, tds[r.Intn(len(tds))].Go)
	}
	if l.ArgHex != "" && r.Intn(10) < 7 {
		if a := argFromRequest(r, &l, q); argOK(a) {
			l.ArgHex = hx(a)
		}
	}
	return l
}

func genRules(r *rand.Rand, q *Request) []Rule {
	n := 1 + r.Intn(4)
	var rules []Rule
	id := 0
	for i := 0; i < n; i++ {
		id += 1 + r.Intn(3)
		ru := Rule{ID: id, Phase: 1 + r.Intn(2)}
		if r.Intn(7) == 0 {
			a := Link{Action: true}
			for k := 0; k < 1+r.Intn(2); k++ {
				a.Setvars = append(a.Setvars, [2]string{hx(pick(r, []string{"a", "A", "b", "a-b", "B"})), hx(pick(r, []string{"x", "X", "1", "a b", "abc"}))})
			}
			ru.Links = []Link{a}
		} else {
			nl := []int{1, 1, 1, 1, 1, 2, 2, 2, 3, 3}[r.Intn(10)]
			for k := 0; k < nl; k++ {
				var prev *Link
				if k > 0 {
					prev = &ru.Links[k-1]
				}
				ru.Links = append(ru.Links, genLink(r, prev, q))
			}
		}
		for _, l := range ru.Links {
			for _, it := range l.Items {
				if strings.HasPrefix(it.Var, "ARGS_POST") && !it.Neg && r.Intn(4) > 0 {
					ru.Phase = 2
				}
			}
		}
		rules = append(rules, ru)
	}
	return rules
}

// selection-focused rule sets: single links with @unconditionalMatch, so that the match data IS the
// selection (GetField): positive targets over present keys, exclusions on the same and on sibling
// variables, counts
func genSelectionRules(r *rand.Rand, q *Request) []Rule {
	var rules []Rule
	for id := 1; id <= 4; id++ {
		l := Link{Op: "unconditionalMatch"}
		if r.Intn(4) == 0 {
			l.Op, l.Neg = "noMatch", true
		}
		v := pick(r, keyedVars[:10])
		l.Items = append(l.Items, Item{Var: v, Count: r.Intn(6) == 0, Sel: genSel(r, v, false, q)})
		if r.Intn(3) == 0 {
			w := sibling(r, v)
			l.Items = append(l.Items, Item{Var: w, Sel: genSel(r, w, false, q)})
		}
		for k := r.Intn(3); k > 0; k-- {
			w := v
			if r.Intn(2) == 0 {
				w = sibling(r, v)
			}
			l.Items = append(l.Items, Item{Neg: true, Var: w, Sel: genSel(r, w, true, q)})
		}
		// regex-keyed *_NAMES targets with an operator that tells the name from the value
		if strings.HasSuffix(v, "_NAMES") && l.Items[0].Sel.Kind == "rx" && !l.Items[0].Count && r.Intn(2) == 0 {
			if ks := requestKeys(q, v); len(ks) > 0 {
				l.Op, l.Neg, l.ArgHex = pick(r, []string{"streq", "contains", "beginsWith"}), false, hx(ks[r.Intn(len(ks))])
			}
		}
		ph := 1 + r.Intn(2)
		for _, it := range l.Items {
			if strings.HasPrefix(it.Var, "ARGS_POST") || (it.Var == "ARGS" && r.Intn(2) == 0) || (it.Var == "ARGS_NAMES" && r.Intn(2) == 0) {
				ph = 2
			}
		}
		rules = append(rules, Rule{ID: id, Phase: ph, Links: []Link{l}})
	}
	return rules
}

// MATCHED_* focused rule sets.  tx.matchVariable runs at every match, so a target reads what the
// EARLIER targets of the same link (and earlier links / rules) matched last.  MATCHED_VAR and
// MATCHED_VAR_NAME depend on the order of the matches, so every producer before a read is
// order-safe: single-valued variables, counts, string-key selectors over a request whose folded
// keys have one spelling each (repeated identical names are fine: a bucket keeps insertion order),
// multiMatch on those.  MATCHED_VARS / MATCHED_VARS_NAMES (whole collection, random bucket order)
// are read only after the last MATCHED_VAR / MATCHED_VAR_NAME read of the rule set.
func genRequestSafe(r *rand.Rand) *Request {
	q := &Request{Method: pick(r, []string{"GET", "POST"}), Path: pick(r, []string{"/", "/p"})}
	keys := []string{"a", "b", "ab", "a-b", "12"}
	vals := []string{"x", "X", "", "a b", "%41", "1", "10", "abc", "x"}
	q.Get = genPairs(r, 1+r.Intn(4), keys, vals)
	q.Post = genPairs(r, r.Intn(3), keys, vals)
	q.Hdr = genPairs(r, 1+r.Intn(2), []string{"X-A", "b", "X-Id"}, vals)
	q.Cookie = genPairs(r, r.Intn(3), keys, []string{"x", "X", "1", "abc"})
	return q
}

func genSafeItem(r *rand.Rand, q *Request) Item {
	switch r.Intn(10) {
	case 0, 1:
		return Item{Var: pick(r, []string{"REQUEST_METHOD", "REQUEST_URI", "QUERY_STRING", "ARGS_COMBINED_SIZE"}), Sel: Sel{Kind: "all"}}
	case 2:
		v := pick(r, keyedVars)
		return Item{Var: v, Count: true, Sel: genSel(r, v, false, q)}
	}
	v := pick(r, []string{"ARGS", "ARGS_GET", "ARGS_GET", "ARGS_POST", "ARGS_NAMES", "ARGS_GET_NAMES", "REQUEST_HEADERS", "REQUEST_COOKIES", "REQUEST_HEADERS_NAMES"})
	k := pick(r, []string{"a", "b", "ab"})
	if ks := requestKeys(q, v); len(ks) > 0 && r.Intn(5) > 0 {
		k = flipCase(r, ks[r.Intn(len(ks))])
	}
	return Item{Var: v, Sel: Sel{Kind: "str", KeyHex: hx(k)}}
}

func genMatchedRules(r *rand.Rand, q *Request) []Rule {
	ph := 1 + r.Intn(2)
	var rules []Rule
	n := 1 + r.Intn(3)
	for id := 1; id <= n; id++ {
		ru := Rule{ID: id, Phase: ph}
		if r.Intn(6) == 0 {
			ru.Links = []Link{{Action: true, Setvars: [][2]string{{hx("a"), hx("x")}}}}
			rules = append(rules, ru)
			continue
		}
		nl := []int{1, 1, 2, 2, 3}[r.Intn(5)]
		for k := 0; k < nl; k++ {
			l := Link{Op: "unconditionalMatch", Multi: r.Intn(5) == 0}
			np := r.Intn(3) // 0 / 1 / 2 producers before (and after) the reads
			for i := 0; i < np; i++ {
				l.Items = append(l.Items, genSafeItem(r, q))
			}
			nr := 1 + r.Intn(2)
			for i := 0; i < nr; i++ {
				it := Item{Var: pick(r, []string{"MATCHED_VAR", "MATCHED_VAR", "MATCHED_VAR_NAME", "MATCHED_VARS", "MATCHED_VARS_NAMES"}), Sel: Sel{Kind: "all"}}
				if r.Intn(8) == 0 {
					it.Count = true
				}
				pos := r.Intn(len(l.Items) + 1) // before, between or after the producers
				l.Items = append(l.Items[:pos], append([]Item{it}, l.Items[pos:]...)...)
			}
			if r.Intn(4) == 0 {
				l.Items = append(l.Items, Item{Neg: true, Var: pick(r, []string{"MATCHED_VARS", "MATCHED_VARS_NAMES", "MATCHED_VAR"}), Sel: Sel{Kind: "all"}})
			}
			switch r.Intn(6) {
			case 0:
				l.Op, l.ArgHex = "streq", hx(pick(r, []string{"x", "X", "abc", "1"}))
			case 1:
				l.Op, l.ArgHex = "contains", hx(pick(r, []string{"x", "a", "A", "ARGS", ":"}))
			case 2:
				l.Op, l.ArgHex, l.Neg = "streq", hx("zzz"), true
			case 3:
				l.Op, l.ArgHex = "beginsWith", hx(pick(r, []string{"ARGS_GET:", "ARGS", "x", "REQUEST"}))
			}
			if r.Intn(3) == 0 {
				l.Tfs = []string{pick(r, []string{"lowercase", "uppercase", "length", "urlDecode", "hexEncode"})}
			}
			ru.Links = append(ru.Links, l)
		}
		rules = append(rules, ru)
	}
	// MATCHED_VARS / MATCHED_VARS_NAMES reads yield matches in Go's map order: keep them only after the
	// last MATCHED_VAR / MATCHED_VAR_NAME read (evaluation order = rule, link, item order: one phase)
	lastRead := [3]int{-1, -1, -1}
	for ri := range rules {
		for li := range rules[ri].Links {
			for ii, it := range rules[ri].Links[li].Items {
				if !it.Neg && (it.Var == "MATCHED_VAR" || it.Var == "MATCHED_VAR_NAME") {
					lastRead = [3]int{ri, li, ii}
				}
			}
		}
	}
	before := func(ri, li, ii int) bool {
		a, b := [3]int{ri, li, ii}, lastRead
		for k := 0; k < 3; k++ {
			if a[k] != b[k] {
				return a[k] < b[k]
			}
		}
		return false
	}
	for ri := range rules {
		for li := range rules[ri].Links {
			l := &rules[ri].Links[li]
			for ii := range l.Items {
				it := &l.Items[ii]
				if !it.Neg && !it.Count && (it.Var == "MATCHED_VARS" || it.Var == "MATCHED_VARS_NAMES") && before(ri, li, ii) {
					it.Var = "MATCHED_VAR"
				}
			}
		}
	}
	return rules
}

// ctl-focused rule sets: an operator-less rule executes ctl:ruleRemoveTargetById / ByTag with
// regex / string / bare selectors; later rules (same and next phase, plain and chained, targets
// on the same and on sibling variables) read requests whose keys the exclusion does and does NOT hit
func genCtlRules(r *rand.Rand, q *Request) []Rule {
	fams := [][]string{{"ARGS", "ARGS_GET", "ARGS_NAMES", "ARGS_GET_NAMES"}, {"REQUEST_HEADERS", "REQUEST_HEADERS_NAMES"}, {"REQUEST_COOKIES", "REQUEST_COOKIES_NAMES"}}
	fam := fams[r.Intn(len(fams))]
	nObs := 2 + r.Intn(3)
	ctlAt := r.Intn(2) // the ctl rule comes first, or after the first observed rule (no effect on it)
	var rules []Rule
	id := 0
	var obsIDs []int
	mk := func() Rule {
		id++
		v := pick(r, fam)
		l := Link{Op: "unconditionalMatch", Items: []Item{{Var: v, Count: r.Intn(7) == 0, Sel: genSel(r, v, false, q)}}}
		if r.Intn(3) == 0 {
			w := pick(r, fam)
			l.Items = append(l.Items, Item{Var: w, Sel: genSel(r, w, false, q)})
		}
		if r.Intn(3) == 0 {
			l.Items = append(l.Items, Item{Neg: true, Var: v, Sel: genSel(r, v, true, q)})
		}
		switch r.Intn(5) {
		case 0:
			l.Op, l.ArgHex = "contains", hx(pick(r, []string{"x", "a", "A", "b", "1"}))
		case 1:
			l.Op, l.ArgHex, l.Neg = "streq", hx("zzz"), true
		}
		ru := Rule{ID: id, Phase: 1 + r.Intn(2), Links: []Link{l}}
		if r.Intn(4) == 0 { // chained: the child looks the exclusions up under the parent's id
			w := pick(r, fam)
			ru.Links = append(ru.Links, Link{Op: "unconditionalMatch", Items: []Item{{Var: w, Sel: genSel(r, w, false, q)}}})
		}
		if r.Intn(3) == 0 {
			ru.Tag = pick(r, []string{"t1", "t2"})
		}
		obsIDs = append(obsIDs, id)
		return ru
	}
	for i := 0; i < nObs; i++ {
		if i == ctlAt {
			id++
			rules = append(rules, Rule{ID: id, Phase: 1, Links: []Link{{Action: true}}})
		}
		rules = append(rules, mk())
	}
	// fill the ctl actions now that the ids and tags are known
	for ri := range rules {
		if !rules[ri].Links[0].Action {
			continue
		}
		n := 1 + r.Intn(2)
		for k := 0; k < n; k++ {
			v := pick(r, fam)
			c := Ctl{Var: v}
			switch r.Intn(10) {
			case 0:
				c.Sel = Sel{Kind: "all"}
			case 1, 2, 3, 4:
				c.Sel = Sel{Kind: "rx", Rx: genRx(r)}
			default:
				c.Sel = genSel(r, v, true, q)
				if c.Sel.Kind == "all" {
					c.Sel = Sel{Kind: "str", KeyHex: hx(pick(r, selKeyAlpha))}
				}
			}
			switch r.Intn(4) {
			case 0:
				c.Tag = pick(r, []string{"t1", "t2"})
				for _, ru := range rules {
					if ru.Tag == c.Tag {
						c.IDs = append(c.IDs, ru.ID)
					}
				}
			case 1:
				c.Lo, c.Hi = obsIDs[0], obsIDs[len(obsIDs)-1]
			default:
				c.Lo = obsIDs[r.Intn(len(obsIDs))]
			}
			rules[ri].Links[0].Ctls = append(rules[ri].Links[0].Ctls, c)
		}
		if r.Intn(3) == 0 {
			rules[ri].Links[0].Setvars = [][2]string{{hx("a"), hx("x")}}
		}
	}
	return rules
}

// removal-focused configurations: 3-6 rules that mostly fire (SecAction stages written to TX and read
// back by later rules), then SecRuleRemoveById with single ids / several / ranges: the fired ids must
// come in configuration order minus the removed rules
func genRemovalRules(r *rand.Rand, q *Request) ([]Rule, []Removal) {
	n := 3 + r.Intn(4)
	ph := 1 + r.Intn(2)
	var rules []Rule
	id := 0
	for i := 0; i < n; i++ {
		id += 1 + r.Intn(2)
		ru := Rule{ID: id, Phase: ph}
		if r.Intn(5) == 0 {
			ru.Phase = 3 - ph
		}
		switch r.Intn(4) {
		case 0:
			ru.Links = []Link{{Action: true, Setvars: [][2]string{{hx("stage"), hx(fmt.Sprint(i))}}}}
		case 1:
			ru.Links = []Link{{Op: "streq", ArgHex: hx(fmt.Sprint(r.Intn(n))), Neg: r.Intn(2) == 0, Items: []Item{{Var: "TX", Sel: Sel{Kind: "str", KeyHex: hx("stage")}}}}}
		case 2:
			ru.Links = []Link{{Op: "unconditionalMatch", Items: []Item{{Var: pick(r, []string{"REQUEST_METHOD", "REQUEST_URI", "TX"}), Sel: Sel{Kind: "all"}}}}}
		default:
			v := pick(r, keyedVars[:10])
			ru.Links = []Link{{Op: "unconditionalMatch", Items: []Item{{Var: v, Sel: genSel(r, v, false, q)}}}}
		}
		rules = append(rules, ru)
	}
	var rms []Removal
	k := 1 + r.Intn(2)
	for i := 0; i < k; i++ {
		switch r.Intn(5) {
		case 0:
			a, b := rules[r.Intn(n)].ID, rules[r.Intn(n)].ID
			if a > b {
				a, b = b, a
			}
			if a == b {
				b = a + 1
			}
			rms = append(rms, Removal{Lo: a, Hi: b})
		case 1:
			rms = append(rms, Removal{Lo: 99}) // an id that does not exist
		default:
			rms = append(rms, Removal{Lo: rules[r.Intn(n-1)].ID}) // mostly not the last rule
		}
	}
	return rules, rms
}

// size / count focused rule sets.  Parameter NAMES with invalid UTF-8 bytes and with letters whose
// lower-case form has another UTF-8 length (Go groups such entries under a map key of another length):
// only grouping-invariant targets are used - ARGS_COMBINED_SIZE, FILES_COMBINED_SIZE, the '&' counts and
// keyless collections - with thresholds around the true value (true-1, true, true+1).
var oddNames = []string{"\xff", "a\xff", "\xfe\xff", "\xe2\x84\xaa", "\xc4\xb0", "\xe1\xba\x9e", "\xc8\xba", "K\xc3\x89", "\xc3", "a", "A", "b", "", "a-b"}

func genSizeCase(r *rand.Rand) ([]Rule, *Request) {
	q := &Request{Method: pick(r, []string{"GET", "POST"}), Path: "/p"}
	vals := []string{"x", "", "abc", "\xff", "a b", "1", "\xe2\x84\xaa"}
	q.Get = genPairs(r, 1+r.Intn(4), oddNames, vals)
	q.Post = genPairs(r, r.Intn(4), oddNames, vals)
	size := func(ps [][2]string) int {
		n := 0
		for _, p := range ps {
			n += len(unhx(p[0])) + len(unhx(p[1]))
		}
		return n
	}
	var rules []Rule
	n := 2 + r.Intn(3)
	for id := 1; id <= n; id++ {
		ph := 1 + r.Intn(2)
		truth := size(q.Get)
		cnt := map[string]int{"ARGS": len(q.Get), "ARGS_GET": len(q.Get), "ARGS_POST": 0, "ARGS_NAMES": len(q.Get), "ARGS_GET_NAMES": len(q.Get), "ARGS_POST_NAMES": 0}
		if ph == 2 {
			truth += size(q.Post)
			for _, k := range []string{"ARGS", "ARGS_NAMES"} {
				cnt[k] += len(q.Post)
			}
			cnt["ARGS_POST"], cnt["ARGS_POST_NAMES"] = len(q.Post), len(q.Post)
		}
		var l Link
		switch r.Intn(6) {
		case 0, 1, 2: // ARGS_COMBINED_SIZE against a threshold around the true value
			t := truth + r.Intn(3) - 1
			l = Link{Items: []Item{{Var: "ARGS_COMBINED_SIZE", Sel: Sel{Kind: "all"}}}, Op: pick(r, []string{"eq", "gt", "streq"}), ArgHex: hx(fmt.Sprint(t)), Neg: r.Intn(4) == 0}
		case 3: // a count against a threshold around the true count
			v := pick(r, []string{"ARGS", "ARGS_GET", "ARGS_POST", "ARGS_NAMES", "ARGS_GET_NAMES", "ARGS_POST_NAMES"})
			t := cnt[v] + r.Intn(3) - 1
			l = Link{Items: []Item{{Var: v, Count: true, Sel: Sel{Kind: "all"}}}, Op: pick(r, []string{"eq", "gt"}), ArgHex: hx(fmt.Sprint(t))}
		case 4:
			l = Link{Items: []Item{{Var: pick(r, []string{"FILES_COMBINED_SIZE", "ARGS_COMBINED_SIZE"}), Count: r.Intn(2) == 0, Sel: Sel{Kind: "all"}}}, Op: "eq", ArgHex: hx(pick(r, []string{"0", "1"}))}
		default: // keyless collections: every entry, names as sent
			v := pick(r, []string{"ARGS", "ARGS_GET", "ARGS_NAMES", "ARGS_GET_NAMES", "ARGS_POST"})
			l = Link{Items: []Item{{Var: v, Sel: Sel{Kind: "all"}}}, Op: "unconditionalMatch"}
			if r.Intn(2) == 0 {
				l.Tfs = []string{pick(r, []string{"length", "hexEncode", "urlEncode"})}
			}
		}
		if r.Intn(5) == 0 {
			l.Items = append(l.Items, Item{Var: "ARGS_COMBINED_SIZE", Sel: Sel{Kind: "all"}})
		}
		rules = append(rules, Rule{ID: id, Phase: ph, Links: []Link{l}})
	}
	return rules, q
}

// every string a transformation of this request can be applied to first
func requestStrings(q *Request) []string {
	uri, query, hdrs, _ := q.wire()
	ss := []string{uri, query, q.Method, ""}
	for _, l := range [][][2]string{q.Get, q.Post, q.Cookie} {
		for _, p := range l {
			ss = append(ss, unhx(p[0]), unhx(p[1]))
		}
	}
	for _, h := range hdrs {
		ss = append(ss, h[0], h[1])
	}
	for i := 0; i < 40; i++ {
		ss = append(ss, fmt.Sprint(i)) // counts and sizes
	}
	return ss
}

func tf(name string) plugintypes.Transformation {
	t, err := transformations.GetTransformation(name)
	if err != nil {
		panic(err)
	}
	return t
}

// lowercase/uppercase are modelled on ASCII input only: replace them where a value of this request
// would reach them with a non-ASCII byte
func asciiGuard(rules []Rule, q *Request) {
	ss := requestStrings(q)
	for ri := range rules {
		for li := range rules[ri].Links {
			l := &rules[ri].Links[li]
			for ti, name := range l.Tfs {
				if !tdByName[name].ASCII {
					continue
				}
				bad := false
				for _, s := range ss {
					v := s
					for _, pn := range l.Tfs[:ti] {
						if o, _, err := tf(pn)(v); err == nil {
							v = o
						}
					}
					if !isASCII(v) {
						bad = true
						break
					}
				}
				// TX values and MATCHED_VAR are derived from the above or from ASCII constants
				if bad {
					l.Tfs[ti] = "trim"
				}
			}
		}
	}
}

// ---------------------------------------------------------------------------------------
// driver
// ---------------------------------------------------------------------------------------

type runner struct {
	res      *vh.Result
	terms    []string
	cases    []any
	uses     [][]string        // per term: names of prelude definitions it refers to
	defs     map[string]string // prelude definitions: name -> "Definition ..." text
	seen     map[string]bool
	nontriv  int
	oracleEv int
}

func (rn *runner) fail(key, what string, c any) {
	rn.res.OracleFailures = append(rn.res.OracleFailures, vh.OracleFailure{Key: key, What: what, Case: c})
}

func (rn *runner) addTx(rules []Rule, q *Request, findingKey string) {
	rn.addTxNamed(rules, q, findingKey, "", "")
}

// addTxNamed: with rsName / rqName the rule set / request are written once per shard as prelude
// definitions and the case refers to them by name (exhaustive scope: thousands of cases share them)
func (rn *runner) addTxNamed(rules []Rule, q *Request, findingKey, rsName, rqName string) {
	rn.addTxFull(rules, nil, q, findingKey, rsName, rqName)
}

func (rn *runner) addTxFull(rules []Rule, rms []Removal, q *Request, findingKey, rsName, rqName string) {
	asciiGuard(rules, q)
	c := Case{Kind: "tx", Rules: rules, Removes: rms, Req: q, SecLang: seclangR(rules, rms), FindingKey: findingKey}
	obs, rb, err := runImplR(rules, rms, q)
	rn.res.Evaluations++
	if err != nil {
		rn.fail("c01-harness-compile", "rule set did not compile or run: "+err.Error(), c)
		return
	}
	c.Observed = obs
	// implementation-side oracle 1: the canonical observable does not depend on map iteration order
	obs2, _, err2 := runImplR(rules, rms, q)
	rn.oracleEv++
	if err2 != nil || fmt.Sprint(obs2) != fmt.Sprint(obs) {
		rn.fail("c01-order-dependence", "two runs of the same rule set and request fired different rules / match data", c)
	}
	// implementation-side oracle 2: the request data reached the collections unchanged
	rn.oracleEv++
	_, query, hdrs, _ := q.wire()
	want := map[string][][2]string{"get": append([][2]string{}, q.Get...), "post": append([][2]string{}, q.Post...), "cookie": append([][2]string{}, q.Cookie...)}
	var hp [][2]string
	for _, h := range hdrs {
		hp = append(hp, [2]string{hx(h[0]), hx(h[1])})
	}
	want["hdr"] = hp
	for _, name := range []string{"get", "post", "cookie", "hdr"} {
		w := want[name]
		sortPairs(w)
		if fmt.Sprint(w) != fmt.Sprint(rb[name]) && !(len(w) == 0 && len(rb[name]) == 0) {
			rn.fail("c01-collection-readback", "collection "+name+" does not hold the request's pairs", c)
		}
	}
	if len(rb["query"]) == 1 && unhx(rb["query"][0][1]) != query {
		rn.fail("c01-collection-readback", "QUERY_STRING differs from the raw query", c)
	}

	key := c.SecLang + "|" + q.coq()
	if !rn.seen[key] {
		rn.seen[key] = true
		if len(obs) > 0 {
			rn.nontriv++
		}
	}
	rn.hist(rules, q, obs)
	qt, rt := q.coq(), rulesCoq(rules)
	var use []string
	if rqName != "" {
		rn.defs[rqName] = fmt.Sprintf("Definition %s : request := %s.", rqName, qt)
		qt = rqName
		use = append(use, rqName)
	}
	if rsName != "" {
		rn.defs[rsName] = fmt.Sprintf("Definition %s : list rule := %s.", rsName, rt)
		rt = rsName
		use = append(use, rsName)
	}
	if len(rms) > 0 {
		parts := make([]string, len(rms))
		for i, rm := range rms {
			if rm.Hi == 0 {
				parts[i] = "RmId " + vh.N(int64(rm.Lo))
			} else {
				parts[i] = fmt.Sprintf("RmRange %s %s", vh.N(int64(rm.Lo)), vh.N(int64(rm.Hi)))
			}
		}
		rn.push(fmt.Sprintf("CaseR %s %s %s %s", qt, rt, vh.List(parts), obsCoq(obs)), c, use)
		return
	}
	rn.push(fmt.Sprintf("Case %s %s %s", qt, rt, obsCoq(obs)), c, use)
}

func (rn *runner) push(term string, c any, use []string) {
	rn.terms = append(rn.terms, term)
	rn.cases = append(rn.cases, c)
	rn.uses = append(rn.uses, use)
}

func rulesCoq(rules []Rule) string {
	rs := make([]string, len(rules))
	for i, r := range rules {
		rs[i] = r.coq()
	}
	return vh.List(rs)
}

func (rn *runner) hist(rules []Rule, q *Request, obs []ObsRule) {
	d := rn.res.InputDistribution
	d[fmt.Sprintf("rules_%d", len(rules))]++
	d[fmt.Sprintf("fired_%d", min(len(obs), 4))]++
	nargs := len(q.Get) + len(q.Post)
	d[fmt.Sprintf("args_%d", nargs)]++
	for _, r := range rules {
		d[fmt.Sprintf("chain_len_%d", len(r.Links))]++
		d[fmt.Sprintf("phase_%d", r.Phase)]++
		for _, l := range r.Links {
			if l.Action {
				d["secaction"]++
				continue
			}
			d["op_"+l.Op]++
			if l.Neg {
				d["op_negated"]++
			}
			if l.Multi {
				d["multimatch"]++
			}
			d[fmt.Sprintf("tfs_%d", len(l.Tfs))]++
			nneg := 0
			for _, it := range l.Items {
				if it.Neg {
					nneg++
					d["excl_"+it.Sel.Kind]++
				} else {
					d["sel_"+it.Sel.Kind]++
					d["var_"+it.Var]++
					if it.Count {
						d["count"]++
					}
				}
			}
			d[fmt.Sprintf("exclusions_%d", min(nneg, 3))]++
		}
	}
	nmd := 0
	for _, o := range obs {
		nmd += len(o.MDs)
	}
	switch {
	case nmd == 0:
		d["matchdata_0"]++
	case nmd <= 2:
		d["matchdata_1-2"]++
	case nmd <= 6:
		d["matchdata_3-6"]++
	default:
		d["matchdata_7+"]++
	}
}

func (rn *runner) addRx(p *RxPat, k string) {
	re, err := regexp.Compile(p.src())
	if err != nil {
		rn.fail("c01-harness-rx", "pattern does not compile: "+p.src(), p)
		return
	}
	res := re.MatchString(k)
	low := corazawaf.VerifC01LowerRegexSource(p.src()) // what AddVariable compiles for a case-insensitive collection
	rn.res.Evaluations++
	rn.push(fmt.Sprintf("CRx %s %s %s %s %s", p.coq(), vh.HxS(p.src()), vh.HxS(low), vh.HxS(k), vh.Bool(res)), Case{Kind: "rx", Rx: p, KeyHex: hx(k), Res: res}, nil)
	rn.res.InputDistribution["rx_validation"]++
}

func (rn *runner) addOp(name, arg, val string) {
	o, err := operators.Get(name, plugintypes.OperatorOptions{Arguments: arg})
	if err != nil {
		rn.fail("c01-harness-op", "operator does not initialise: "+name+" "+arg, nil)
		return
	}
	res := o.Evaluate(nil, val)
	rn.res.Evaluations++
	rn.push(fmt.Sprintf("COp (mk_op %s %s) %s %s", opCoq[name], vh.HxS(arg), vh.HxS(val), vh.Bool(res)), Case{Kind: "op", Op: name, ArgHex: hx(arg), ValHex: hx(val), Res: res}, nil)
	rn.res.InputDistribution["op_validation"]++
}

// addFold: a real case-insensitive NamedCollection filled with pairs of arbitrary bytes, then
// FindString(k) on it (or on its Names view), against MatchFold's model with strings.ToLower
func (rn *runner) addFold(pairs [][2]string, names bool, k string) {
	col := collections.NewNamedCollection(variables.ArgsGet)
	for _, p := range pairs {
		col.Add(p[0], p[1])
	}
	var mds []types.MatchData
	if names {
		mds = col.Names(variables.ArgsGetNames).FindString(k)
	} else {
		mds = col.FindString(k)
	}
	var obs, in [][2]string
	for _, m := range mds {
		obs = append(obs, [2]string{hx(m.Key()), hx(m.Value())})
	}
	sortPairs(obs)
	for _, p := range pairs {
		in = append(in, [2]string{hx(p[0]), hx(p[1])})
	}
	rn.res.Evaluations++
	if len(obs) > 0 {
		rn.nontriv++
	}
	rn.res.InputDistribution["fold_collection"]++
	rn.push(fmt.Sprintf("CFold %s %s %s %s", pairsCoq(in), vh.Bool(names), vh.HxS(k), pairsCoq(obs)),
		map[string]any{"kind": "fold", "pairs": in, "names": names, "key_hex": hx(k), "observed": obs}, nil)
}

func (rn *runner) runDoc(doc json.RawMessage) {
	var c Case
	if err := json.Unmarshal(doc, &c); err != nil {
		return
	}
	switch c.Kind {
	case "rx":
		if c.Rx != nil {
			rn.addRx(c.Rx, unhx(c.KeyHex))
		}
	case "op":
		rn.addOp(c.Op, unhx(c.ArgHex), unhx(c.ValHex))
	default:
		if c.Req != nil && len(c.Rules) > 0 {
			rn.addTxFull(c.Rules, c.Removes, c.Req, c.FindingKey, "", "")
		}
	}
}

// the known unrepaired finding F24b, re-checked on the implementation
func knownF24b() bool {
	rules := []Rule{{ID: 1, Phase: 1, Links: []Link{{Items: []Item{{Var: "ARGS", Sel: Sel{Kind: "rx", Rx: &RxPat{AL: true, LitHex: hx("Foo")}}}}, Op: "unconditionalMatch"}}}}
	q := &Request{Method: "GET", Path: "/", Get: [][2]string{{hx("Foo"), hx("1")}}}
	obs, _, err := runImpl(rules, q)
	return err == nil && len(obs) == 0
}

func Run(cfg vh.Config) (*vh.Result, error) {
	res := &vh.Result{InputDistribution: map[string]int{}}
	res.Rule = "each case = one rule set (1-4 rules; chains of 1-3 links; targets over 15 variables x {no key, string key, regex key} x 0-3 exclusions x '&'; 0-3 transformations; 8 operators; '!'; multiMatch; SecAction+setvar; phases 1-2) compiled by a real WAF x one request (0-6 GET/POST arguments with repeated / mixed-case / empty names, headers, cookies; values with NUL, 0xFF, %41, blanks) run through the transaction API; a case is non-trivial when at least one rule fired; distinct = distinct (SecLang text, request)"
	rn := &runner{res: res, seen: map[string]bool{}, defs: map[string]string{}}
	rng := vh.Rng(cfg.Seed, "c01")

	if cfg.Replay != "" {
		b, err := os.ReadFile(cfg.Replay)
		if err != nil {
			return nil, err
		}
		var rp struct {
			Case json.RawMessage `json:"case"`
		}
		if json.Unmarshal(b, &rp) == nil && rp.Case != nil {
			rn.runDoc(rp.Case)
		} else {
			rn.runDoc(b)
		}
	} else {
		docs, _ := vh.LoadCorpus(cfg.Corpus)
		for _, d := range docs {
			rn.runDoc(d)
		}
		res.InputDistribution["corpus"] = len(docs)

		// the tiny key-pattern matcher against Go's regexp; the operators against the registry
		rxKeys := []string{"", "a", "A", "b", "ab", "a-b", "ba", "aa", "-", "x-a", "foo", "\n", "a\n", "b-a-b"}
		for _, lit := range litAlpha {
			for m := 0; m < 4; m++ {
				p := &RxPat{AL: m&1 != 0, AR: m&2 != 0, LitHex: hx(lit)}
				for _, k := range rxKeys {
					rn.addRx(p, k)
					rn.addRx(p, strings.ToLower(lit)+k)
				}
			}
		}
		for _, k := range append([]string{"12", "1a", "a1", "x-id", "X-Id", "0", "9", "/", ":", "a b", " ", "a\tb", "A\fB", "\r"}, rxKeys...) {
			rn.addRx(&RxPat{Any: true}, k)
			rn.addRx(&RxPat{Class: "nondigits"}, k)
			rn.addRx(&RxPat{Class: "digits"}, k)
			rn.addRx(&RxPat{Class: "nonspace"}, k)
		}
		opVals := append([]string{"+1", "-0", "007", " 1", "1 ", "9223372036854775807", "9223372036854775808", "-9223372036854775808", "-9223372036854775809", "99999999999999999999", "+", "-", "1_0", "0x10", "xa", "ax", "axb",
			"99999999999999999999x", "18446744073709551615x", "18446744073709551616x", "18446744073709551615", "18446744073709551616", "-99999999999999999999x",
			"1844674407370955161x", "253246253545612532463d2532353431", "x99999999999999999999", "-18446744073709551616y", "+18446744073709551616y"}, valAlpha...)
		for _, o := range opNames {
			for _, a := range append([]string{"9223372036854775807", "-1", "+1", "253246253545612532463d2532353431", "-9223372036854775808"}, argAlpha...) {
				if (o == "unconditionalMatch" || o == "noMatch") && a != "" {
					continue
				}
				for _, v := range opVals {
					if cfg.Thorough() || rng.Intn(5) == 0 {
						rn.addOp(o, a, v)
					}
				}
			}
		}

		n := cfg.Pick(450, 8000)
		for i := 0; i < n; i++ {
			q := genRequest(rng)
			rn.addTx(genRules(rng, q), q, "")
		}
		for i := 0; i < cfg.Pick(300, 3000); i++ {
			q := genRequest(rng)
			rn.addTx(genSelectionRules(rng, q), q, "")
			res.InputDistribution["selection_focused"]++
		}
		for i := 0; i < cfg.Pick(250, 3000); i++ {
			q := genRequestSafe(rng)
			rn.addTx(genMatchedRules(rng, q), q, "")
			res.InputDistribution["matched_var_focused"]++
		}
		for i := 0; i < cfg.Pick(250, 2500); i++ {
			q := genRequest(rng)
			rn.addTx(genCtlRules(rng, q), q, "")
			res.InputDistribution["ctl_target_removal_focused"]++
		}
		for i := 0; i < cfg.Pick(200, 2000); i++ {
			q := genRequest(rng)
			rules, rms := genRemovalRules(rng, q)
			rn.addTxFull(rules, rms, q, "", "", "")
			res.InputDistribution["rule_removal_focused"]++
		}
		for i := 0; i < cfg.Pick(200, 2500); i++ {
			rules, q := genSizeCase(rng)
			rn.addTx(rules, q, "")
			res.InputDistribution["size_count_focused"]++
		}
		// growth 2: keyed lookup with non-ASCII / invalid-UTF-8 names; own PRNG stream, appended after
		// every existing family (the existing stream is not touched)
		{
			g2 := vh.Rng(cfg.Seed, "C01-growth2")
			foldNames := []string{"\xe2\x84\xaa", "K", "k", "\xc4\xb0", "I", "i", "\xff", "\xfe", "\xef\xbf\xbd", "a\xff", "A\xfe", "\xe1\xba\x9e", "\xc3\x9f", "\xc8\xba", "\xc3\x89", "\xc3\xa9", "\xc3", "a", "A", "", "\xe2\x84\xab", "\xc3\xa5"}
			for _, k := range foldNames { // deterministic grid: every name looked up in the collection of all names
				var all [][2]string
				for i, n := range foldNames {
					all = append(all, [2]string{n, fmt.Sprint(i)})
				}
				rn.addFold(all, false, k)
				rn.addFold(all, true, k)
			}
			for i := 0; i < cfg.Pick(150, 3000); i++ {
				var ps [][2]string
				for j := g2.Intn(6); j >= 0; j-- {
					ps = append(ps, [2]string{pick(g2, foldNames), pick(g2, []string{"x", "", "\xff", "v"})})
				}
				rn.addFold(ps, g2.Intn(3) == 0, pick(g2, foldNames))
			}
		}
		if cfg.Thorough() {
			rn.exhaustive()
			res.Exhaustive = true
			res.Notes = append(res.Notes, "exhaustive small scope: every rule of the one-target / one-exclusion / one-transformation grammar over the ARGS family x every request with <= 3 arguments over {a,A,b} x {x,X}")
		}
		if knownF24b() {
			res.KnownReproduced = append(res.KnownReproduced, "c01-args-regex-key-case")
		}
	}
	res.OracleEvaluations = rn.oracleEv
	res.DistinctNontrivial = rn.nontriv

	per := 600
	for i, k := 0, 0; i < len(rn.terms); i, k = i+per, k+1 {
		j := i + per
		if j > len(rn.terms) {
			j = len(rn.terms)
		}
		var prelude []string
		seenDef := map[string]bool{}
		for _, u := range rn.uses[i:j] {
			for _, name := range u {
				if !seenDef[name] {
					seenDef[name] = true
					prelude = append(prelude, rn.defs[name])
				}
			}
		}
		info, err := vh.WriteShard(cfg.OutDir, vh.Shard{
			Name: fmt.Sprintf("C01_%d", k), Imports: "From Verif Require Import Base Transform Match CorrC01.\nFrom VerifGen Require Import FactsC14.",
			CaseType: "CorrC01.case", MismatchF: "CorrC01.mismatches FactsC14.lower_table", Terms: rn.terms[i:j], Cases: rn.cases[i:j],
			Prelude: strings.Join(prelude, "\n"),
		})
		if err != nil {
			return nil, err
		}
		res.Shards = append(res.Shards, info)
	}
	for i := len(rn.cases) - 1; i >= 0 && len(res.Samples) < 5; i -= 1 + len(rn.cases)/7 {
		res.Samples = append(res.Samples, rn.cases[i])
	}
	return res, nil
}

// exhaustive small scope (thorough tier): one target, at most one exclusion, at most one
// transformation, over every request with <= 3 GET arguments over {a,A,b} x {x,X}.  Rules are
// batched (one transaction evaluates a batch of independent rules).
func (rn *runner) exhaustive() {
	keys := []string{"a", "A", "b"}
	vals := []string{"x", "X"}
	var pairs [][2]string
	for _, k := range keys {
		for _, v := range vals {
			pairs = append(pairs, [2]string{hx(k), hx(v)})
		}
	}
	var reqs []*Request
	var rec func(cur [][2]string, d int)
	rec = func(cur [][2]string, d int) {
		reqs = append(reqs, &Request{Method: "GET", Path: "/", Get: append([][2]string{}, cur...)})
		if d == 3 {
			return
		}
		for _, p := range pairs {
			rec(append(cur, p), d+1)
		}
	}
	rec(nil, 0)
	sels := []Sel{{Kind: "all"}, {Kind: "str", KeyHex: hx("a")}, {Kind: "str", KeyHex: hx("A")}, {Kind: "str", KeyHex: hx("b")},
		{Kind: "rx", Rx: &RxPat{AL: true, LitHex: hx("a")}}, {Kind: "rx", Rx: &RxPat{AL: true, AR: true, LitHex: hx("b")}}, {Kind: "rx", Rx: &RxPat{Any: true}}}
	negs := []*Sel{nil, {Kind: "all"}, {Kind: "str", KeyHex: hx("a")}, {Kind: "str", KeyHex: hx("B")}, {Kind: "rx", Rx: &RxPat{AL: true, LitHex: hx("a")}}}
	tfl := [][]string{nil, {"lowercase"}}
	var batches [][]Rule
	for _, v := range []string{"ARGS", "ARGS_GET", "ARGS_NAMES", "ARGS_GET_NAMES"} {
		var batch []Rule
		id := 0
		for _, s := range sels {
			for _, ng := range negs {
				for _, t := range tfl {
					for _, count := range []bool{false, true} {
						if count && (t != nil) {
							continue
						}
						id++
						items := []Item{{Var: v, Sel: s, Count: count}}
						if ng != nil {
							items = append(items, Item{Neg: true, Var: v, Sel: *ng})
						}
						l := Link{Items: items, Op: "streq", ArgHex: hx("x"), Tfs: t}
						if count {
							l.Op, l.ArgHex = "gt", hx("0")
						}
						batch = append(batch, Rule{ID: id, Phase: 1, Links: []Link{l}})
					}
				}
			}
		}
		for i := 0; i < len(batch); i += 15 {
			j := min(i+15, len(batch))
			batches = append(batches, batch[i:j])
		}
	}
	for qi, q := range reqs {
		for bi, b := range batches {
			rs := make([]Rule, len(b))
			copy(rs, b)
			rn.addTxNamed(rs, q, "", fmt.Sprintf("xrs_%d", bi), fmt.Sprintf("xrq_%d", qi))
			rn.res.InputDistribution["exhaustive_small_scope"]++
		}
	}
}
