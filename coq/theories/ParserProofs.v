(* ParserProofs.v — lemmas and proofs about the SecLang text-layer model (Parser.v). *)
From Coq Require Import String.
From Verif Require Import Base Parser.
Open Scope N_scope.
Local Notation length := List.length.

(* ------------------------------------------------------------------------------------ *)
(* small helpers                                                                        *)
(* ------------------------------------------------------------------------------------ *)
Lemma eqb_false_ne a b : (a =? b) = false -> a <> b.
Proof. apply N.eqb_neq. Qed.

Lemma p_last_app s c : p_last (s ++ [c]) = c.
Proof. unfold p_last. apply last_last. Qed.

Lemma p_last_cons_app a s c : p_last (a :: s ++ [c]) = c.
Proof. change (a :: s ++ [c]) with ((a :: s) ++ [c]). apply p_last_app. Qed.

Lemma removelast_cons_app {A} (a : A) s c : removelast (a :: s ++ [c]) = a :: s.
Proof. change (a :: s ++ [c]) with ((a :: s) ++ [c]). apply removelast_last. Qed.

Lemma no_byte_app ch a b : no_byte ch (a ++ b) = no_byte ch a && no_byte ch b.
Proof. unfold no_byte. apply forallb_app. Qed.

Lemma no_byte_cons ch c s : no_byte ch (c :: s) = negb (c =? ch) && no_byte ch s.
Proof. reflexivity. Qed.

(* ------------------------------------------------------------------------------------ *)
(* Part 1: the quoted operator token (cutQuotedString + MaybeRemoveQuotes + Unescape)   *)
(* ------------------------------------------------------------------------------------ *)
Lemma escape_dq_head_not_quote s : match escape_dq s with c :: _ => (c =? cDQ) = false | [] => True end.
Proof.
  destruct s as [|c s]; cbn [escape_dq]; [exact I|].
  destruct (c =? cDQ) eqn:E; [reflexivity | exact E].
Qed.

Lemma unescape_cons2 c d s :
  unescape_quoted_string (c :: d :: s) =
  if (c =? cBS) && (d =? cDQ) then cDQ :: unescape_quoted_string s else c :: unescape_quoted_string (d :: s).
Proof. reflexivity. Qed.

(* unconditional: the unescaper undoes the escaper on every text *)
Lemma unescape_escape s : unescape_quoted_string (escape_dq s) = s.
Proof.
  induction s as [|c s IH]; [reflexivity|].
  cbn [escape_dq]. destruct (c =? cDQ) eqn:EQ.
  - apply N.eqb_eq in EQ. subst c.
    change (unescape_quoted_string (cBS :: cDQ :: escape_dq s)) with (cDQ :: unescape_quoted_string (escape_dq s)).
    now rewrite IH.
  - pose proof (escape_dq_head_not_quote s) as Hh.
    destruct (escape_dq s) as [|d X] eqn:EX.
    + cbn in IH. subst s. reflexivity.
    + rewrite unescape_cons2, Hh, andb_false_r. now rewrite IH.
Qed.

Lemma cut_body_escape s rest : forall e, wf_esc s e = true ->
  cut_body (escape_dq s ++ cDQ :: rest) e = Some (escape_dq s, rest).
Proof.
  induction s as [|c s IH]; intros e H.
  - cbn [wf_esc] in H. apply negb_true_iff in H. subst e. reflexivity.
  - cbn [wf_esc] in H. cbn [escape_dq]. destruct (c =? cDQ) eqn:EQ.
    + apply andb_prop in H as [He H]. apply negb_true_iff in He. subst e.
      apply N.eqb_eq in EQ. subst c.
      cbn [app cut_body]. change (cBS =? cDQ) with false. change (cBS =? cBS) with true. cbn [negb].
      change (cDQ =? cDQ) with true. cbn match. rewrite (IH false H). reflexivity.
    + cbn [app cut_body]. rewrite EQ. destruct (c =? cBS) eqn:EB.
      * rewrite (IH _ H). reflexivity.
      * rewrite (IH _ H). reflexivity.
Qed.

Theorem cut_quoted_roundtrip s rest : wf_esc s false = true ->
  cut_quoted_string (cDQ :: escape_dq s ++ cDQ :: rest) = Some (cDQ :: escape_dq s ++ [cDQ], rest).
Proof.
  intros H. unfold cut_quoted_string. change (cDQ =? cDQ) with true. cbn match.
  rewrite (cut_body_escape s rest false H). reflexivity.
Qed.

Lemma maybe_remove_quotes_wrapped q s :
  (q = cDQ \/ q = cSQ) -> maybe_remove_quotes (q :: s ++ [q]) = s.
Proof.
  intros Hq. unfold maybe_remove_quotes.
  destruct s as [|a s].
  - cbn [app]. unfold p_last. cbn [last]. rewrite N.eqb_refl.
    destruct Hq; subst q; reflexivity.
  - cbn [app]. rewrite (p_last_cons_app a s q), N.eqb_refl, andb_true_r.
    rewrite (removelast_cons_app a s q).
    destruct Hq; subst q; reflexivity.
Qed.

(* the scanner refuses a token without a closing quote *)
Lemma cut_body_no_quote s : forall e, no_byte cDQ s = true -> cut_body s e = None.
Proof.
  induction s as [|c s IH]; intros e H; [reflexivity|].
  rewrite no_byte_cons in H. apply andb_prop in H as [Hc Hs]. apply negb_true_iff in Hc.
  cbn [cut_body]. rewrite Hc. rewrite (IH _ Hs). reflexivity.
Qed.

(* whatever the scanner cuts is a prefix of the input: nothing is dropped or altered *)
Lemma cut_body_lossless s : forall e a r, cut_body s e = Some (a, r) -> s = a ++ cDQ :: r.
Proof.
  induction s as [|c s IH]; intros e a r H; [discriminate|].
  cbn [cut_body] in H. destruct (c =? cDQ) eqn:EQ.
  - destruct e.
    + destruct (cut_body s false) as [[a' r']|] eqn:E; [|discriminate].
      cbn in H. inversion H; subst. rewrite (IH _ _ _ E). reflexivity.
    + inversion H; subst. apply N.eqb_eq in EQ. subst c. reflexivity.
  - destruct (cut_body s _) as [[a' r']|] eqn:E; [|discriminate].
    cbn in H. inversion H; subst. rewrite (IH _ _ _ E). reflexivity.
Qed.

Lemma cut_quoted_lossless s tok r : cut_quoted_string s = Some (tok, r) -> s = tok ++ r.
Proof.
  unfold cut_quoted_string. destruct s as [|c s]; [discriminate|].
  destruct (c =? cDQ) eqn:EQ; [|discriminate].
  destruct (cut_body s false) as [[a r']|] eqn:E; [|discriminate].
  cbn. intros H. inversion H; subst. apply N.eqb_eq in EQ. subst c.
  rewrite (cut_body_lossless _ _ _ _ E). cbn [app]. rewrite <- app_assoc. reflexivity.
Qed.

(* ------------------------------------------------------------------------------------ *)
(* Part 2: trimming                                                                     *)
(* ------------------------------------------------------------------------------------ *)
(* an ASCII byte that is not white space *)
Definition nsp (c : N) : bool := (c <? 128) && negb (p_is_ascii_space c).

Lemma p_trim_left_nsp c r : nsp c = true -> p_trim_left (c :: r) = c :: r.
Proof.
  unfold nsp. intros H. apply andb_prop in H as [H1 H2]. apply negb_true_iff in H2.
  apply N.ltb_lt in H1.
  cbn [p_trim_left]. rewrite H2. destruct r as [|b r2]; [reflexivity|].
  assert (E1 : (c =? 194) = false) by (apply N.eqb_neq; lia).
  unfold p_is_sp2. rewrite E1. cbn [andb]. destruct r2 as [|d r3]; [reflexivity|].
  assert (E2 : (c =? 225) = false) by (apply N.eqb_neq; lia).
  assert (E3 : (c =? 226) = false) by (apply N.eqb_neq; lia).
  assert (E4 : (c =? 227) = false) by (apply N.eqb_neq; lia).
  unfold p_is_sp3. rewrite E2, E3, E4. reflexivity.
Qed.

Lemma p_trim_left_rev_nsp c r : nsp c = true -> p_trim_left_rev (c :: r) = c :: r.
Proof.
  unfold nsp. intros H. apply andb_prop in H as [H1 H2]. apply negb_true_iff in H2.
  apply N.ltb_lt in H1.
  cbn [p_trim_left_rev]. rewrite H2. destruct r as [|b r2]; [reflexivity|].
  assert (E1 : (c =? 133) = false) by (apply N.eqb_neq; lia).
  assert (E2 : (c =? 160) = false) by (apply N.eqb_neq; lia).
  unfold p_is_sp2. rewrite E1, E2. rewrite andb_false_r. destruct r2 as [|d r3]; [reflexivity|].
  assert (E3 : (c =? 128) = false) by (apply N.eqb_neq; lia).
  assert (E4 : (128 <=? c) = false) by (apply N.leb_gt; lia).
  assert (E5 : (c =? 168) = false) by (apply N.eqb_neq; lia).
  assert (E6 : (c =? 169) = false) by (apply N.eqb_neq; lia).
  assert (E7 : (c =? 175) = false) by (apply N.eqb_neq; lia).
  assert (E8 : (c =? 159) = false) by (apply N.eqb_neq; lia).
  unfold p_is_sp3. rewrite E3, E4, E5, E6, E7, E8. cbn [andb orb].
  rewrite !andb_false_r. reflexivity.
Qed.

Lemma p_trim_space_id s a : s <> [] -> nsp (hd a s) = true -> nsp (p_last s) = true -> p_trim_space s = s.
Proof.
  intros Hne Hh Hl. unfold p_trim_space.
  destruct s as [|c r]; [congruence|]. cbn [hd] in Hh. rewrite (p_trim_left_nsp c r Hh).
  unfold p_trim_right.
  destruct (rev (c :: r)) as [|x y] eqn:ER.
  - apply (f_equal (@rev N)) in ER. rewrite rev_involutive in ER. discriminate.
  - assert (x = p_last (c :: r)).
    { apply (f_equal (@rev N)) in ER. rewrite rev_involutive in ER. rewrite ER. cbn [rev].
      now rewrite p_last_app. }
    subst x. rewrite (p_trim_left_rev_nsp _ y Hl). rewrite <- ER. apply rev_involutive.
Qed.

Lemma p_trim_left_pad pad s : is_pad pad = true -> p_trim_left (pad ++ s) = p_trim_left s.
Proof.
  induction pad as [|c pad IH]; intros H; [reflexivity|].
  cbn [is_pad forallb] in H. apply andb_prop in H as [Hc Hp].
  cbn [app p_trim_left].
  assert (Hs : p_is_ascii_space c = true).
  { unfold p_is_ascii_space. apply orb_prop in Hc as [Hc|Hc]; unfold cSP, cTAB in Hc;
      apply N.eqb_eq in Hc; subst c; reflexivity. }
  rewrite Hs. apply IH. exact Hp.
Qed.

Lemma p_trim_space_pad pad s : is_pad pad = true -> p_trim_space (pad ++ s) = p_trim_space s.
Proof. intros H. unfold p_trim_space. now rewrite p_trim_left_pad. Qed.

(* strings.Trim(s, " ") / TrimLeft(s, " ") *)
Lemma p_drop_char_spaces n ch s : p_drop_char ch (repeat ch n ++ s) = p_drop_char ch s.
Proof. induction n as [|n IH]; [reflexivity|]. cbn [repeat app p_drop_char]. now rewrite N.eqb_refl. Qed.

Lemma p_drop_char_ne ch c s : (c =? ch) = false -> p_drop_char ch (c :: s) = c :: s.
Proof. intros H. cbn [p_drop_char]. now rewrite H. Qed.

Lemma p_trim_char_id ch s a : s <> [] -> (hd a s =? ch) = false -> (p_last s =? ch) = false ->
  p_trim_char ch s = s.
Proof.
  intros Hne Hh Hl. unfold p_trim_char. destruct s as [|c r]; [congruence|]. cbn [hd] in Hh.
  rewrite (p_drop_char_ne ch c r Hh).
  destruct (rev (c :: r)) as [|x y] eqn:ER.
  - apply (f_equal (@rev N)) in ER. rewrite rev_involutive in ER. discriminate.
  - assert (x = p_last (c :: r)).
    { apply (f_equal (@rev N)) in ER. rewrite rev_involutive in ER. rewrite ER. cbn [rev].
      now rewrite p_last_app. }
    subst x. rewrite (p_drop_char_ne ch _ y Hl). rewrite <- ER. apply rev_involutive.
Qed.

(* strings.Cut at the first separator *)
Lemma p_cut_app ch a b : no_byte ch a = true -> p_cut ch (a ++ ch :: b) = (a, b, true).
Proof.
  induction a as [|c a IH]; intros H.
  - cbn [app p_cut]. now rewrite N.eqb_refl.
  - rewrite no_byte_cons in H. apply andb_prop in H as [Hc Ha]. apply negb_true_iff in Hc.
    cbn [app p_cut]. rewrite Hc. now rewrite (IH Ha).
Qed.

Lemma p_cut_none ch a : no_byte ch a = true -> p_cut ch a = (a, [], false).
Proof.
  induction a as [|c a IH]; intros H; [reflexivity|].
  rewrite no_byte_cons in H. apply andb_prop in H as [Hc Ha]. apply negb_true_iff in Hc.
  cbn [p_cut]. rewrite Hc. now rewrite (IH Ha).
Qed.

(* ------------------------------------------------------------------------------------ *)
(* Part 3: parseActionOperator on a rendered rule                                       *)
(* ------------------------------------------------------------------------------------ *)
Lemma p_is_quoted_dq_wrapped s : p_is_quoted_dq (cDQ :: s ++ [cDQ]) = true.
Proof.
  unfold p_is_quoted_dq. destruct s as [|a s]; [reflexivity|].
  cbn [app]. now rewrite (p_last_cons_app a s cDQ).
Qed.

Lemma hd_app_ne {A} (a : A) (s t : list A) : s <> [] -> hd a (s ++ t) = hd a s.
Proof. destruct s; [congruence|reflexivity]. Qed.

Lemma pao_render vars body acts g1 g2 :
  vars <> [] -> no_byte cSP vars = true -> wf_esc body false = true ->
  parse_action_operator
    (vars ++ cSP :: p_spaces g1 ++ cDQ :: escape_dq body ++ cDQ :: cSP :: p_spaces g2 ++ cDQ :: acts ++ [cDQ])
  = Some (vars, body, acts).
Proof.
  intros Hne Hsp Hwf. unfold parse_action_operator.
  set (data := vars ++ cSP :: p_spaces g1 ++ cDQ :: escape_dq body ++ cDQ :: cSP :: p_spaces g2 ++ cDQ :: acts ++ [cDQ]).
  assert (Hd : p_trim_char cSP data = data).
  { apply (p_trim_char_id cSP data 0).
    - unfold data. destruct vars; [congruence|discriminate].
    - unfold data. rewrite hd_app_ne by exact Hne. destruct vars as [|c v]; [congruence|].
      rewrite no_byte_cons in Hsp. apply andb_prop in Hsp as [Hc _]. now apply negb_true_iff in Hc.
    - unfold data.
      replace (vars ++ cSP :: p_spaces g1 ++ cDQ :: escape_dq body ++ cDQ :: cSP :: p_spaces g2 ++ cDQ :: acts ++ [cDQ])
        with ((vars ++ cSP :: p_spaces g1 ++ cDQ :: escape_dq body ++ cDQ :: cSP :: p_spaces g2 ++ cDQ :: acts) ++ [cDQ]).
      + rewrite p_last_app. reflexivity.
      + repeat (rewrite <- ?app_assoc; cbn [app]). reflexivity. }
  rewrite Hd. unfold data. rewrite (p_cut_app cSP vars _ Hsp). cbn [negb].
  unfold p_spaces. rewrite p_drop_char_spaces.
  rewrite (p_drop_char_ne cSP cDQ) by reflexivity.
  rewrite (cut_quoted_roundtrip body _ Hwf).
  rewrite maybe_remove_quotes_wrapped by (left; reflexivity).
  rewrite unescape_escape.
  change (cSP :: repeat cSP g2 ++ cDQ :: acts ++ [cDQ]) with (repeat cSP (S g2) ++ cDQ :: acts ++ [cDQ]).
  rewrite p_drop_char_spaces. rewrite (p_drop_char_ne cSP cDQ) by reflexivity.
  rewrite p_is_quoted_dq_wrapped.
  rewrite maybe_remove_quotes_wrapped by (left; reflexivity). reflexivity.
Qed.

(* ------------------------------------------------------------------------------------ *)
(* Part 4: ParseOperator                                                                *)
(* ------------------------------------------------------------------------------------ *)
Definition alnum_ (c : N) : bool :=
  ((48 <=? c) && (c <=? 57)) || ((65 <=? c) && (c <=? 90)) || ((97 <=? c) && (c <=? 122)) || (c =? 95).

Lemma p_mem_In k l : p_mem k l = true -> In k l.
Proof.
  induction l as [|x l IH]; [discriminate|]. cbn [p_mem]. intros H. apply orb_prop in H as [H|H].
  - left. symmetry. now apply bytes_eqb_eq.
  - right. now apply IH.
Qed.

Lemma p_assoc_In {A} k (l : list (bytes * A)) v : p_assoc k l = Some v -> In (k, v) l.
Proof.
  induction l as [|[k' v'] l IH]; [discriminate|]. cbn [p_assoc].
  destruct (bytes_eqb k k') eqn:E.
  - intros H. inversion H; subst. apply bytes_eqb_eq in E. subst. now left.
  - intros H. right. now apply IH.
Qed.

Definition name_ok (n : bytes) : bool := forallb alnum_ n && negb (match n with [] => true | _ => false end).

Lemma operator_names_ok : forallb name_ok operator_table = true.
Proof. vm_compute. reflexivity. Qed.

Lemma operator_known_ok name : operator_known name = true -> forallb alnum_ name = true /\ name <> [].
Proof.
  intros H. apply p_mem_In in H.
  pose proof (proj1 (forallb_forall name_ok operator_table) operator_names_ok name H) as Hk.
  unfold name_ok in Hk. apply andb_prop in Hk as [H1 H2]. split; [exact H1|].
  destruct name; [discriminate|congruence].
Qed.

Lemma alnum_nsp c : alnum_ c = true -> nsp c = true.
Proof.
  unfold alnum_, nsp, p_is_ascii_space. intros H.
  repeat match goal with
  | H : _ || _ = true |- _ => apply orb_prop in H as [H|H]
  | H : _ && _ = true |- _ => apply andb_prop in H as [? ?]
  end;
  repeat match goal with
  | H : (_ <=? _) = true |- _ => apply N.leb_le in H
  | H : (_ =? _) = true |- _ => apply N.eqb_eq in H
  end;
  (apply andb_true_intro; split; [apply N.ltb_lt; lia|]);
  apply negb_true_iff; repeat (apply orb_false_intro); apply N.eqb_neq; lia.
Qed.

Lemma alnum_ne c ch : alnum_ c = true -> alnum_ ch = false -> (c =? ch) = false.
Proof. intros H1 H2. apply N.eqb_neq. intros E. subst. congruence. Qed.

Lemma forallb_alnum_no_byte s ch : forallb alnum_ s = true -> alnum_ ch = false -> no_byte ch s = true.
Proof.
  intros H Hc. unfold no_byte. apply forallb_forall. intros x Hx.
  apply negb_true_iff. apply alnum_ne; [|exact Hc]. exact (proj1 (forallb_forall _ _) H x Hx).
Qed.

Lemma last_alnum s d : forallb alnum_ s = true -> s <> [] -> alnum_ (last s d) = true.
Proof.
  intros H Hne. apply (proj1 (forallb_forall _ _) H).
  destruct s as [|c s]; [congruence|]. clear.
  revert c. induction s as [|x s IH]; intros c; [now left|]. right. apply IH.
Qed.

Lemma last_app_ne {A} (a b : list A) d : b <> [] -> last (a ++ b) d = last b d.
Proof.
  intros Hb. induction a as [|x a IH]; [reflexivity|].
  cbn [app]. destruct (a ++ b) eqn:E.
  - destruct a; [cbn in E; congruence|discriminate].
  - exact IH.
Qed.

Lemma po_render name neg arg :
  operator_known name = true -> p_trim_space arg = arg ->
  parse_operator (op_prefix neg ++ name ++ match arg with [] => [] | _ => cSP :: arg end)
  = Some (mk_op (op_prefix neg ++ name) name neg arg).
Proof.
  intros Hk Ht. destruct (operator_known_ok name Hk) as [Hal Hne].
  assert (Hnsp : no_byte cSP (op_prefix neg ++ name) = true).
  { rewrite no_byte_app. rewrite (forallb_alnum_no_byte name cSP Hal eq_refl).
    destruct neg; reflexivity. }
  assert (Htrim : p_trim_space (op_prefix neg ++ name) = op_prefix neg ++ name).
  { apply (p_trim_space_id _ 0).
    - destruct neg; discriminate.
    - destruct neg; reflexivity.
    - unfold p_last. rewrite last_app_ne by exact Hne. apply alnum_nsp. now apply last_alnum. }
  unfold parse_operator.
  assert (Hn : po_normalise (op_prefix neg ++ name ++ match arg with [] => [] | _ => cSP :: arg end)
               = op_prefix neg ++ name ++ match arg with [] => [] | _ => cSP :: arg end).
  { destruct name as [|n0 name]; [congruence|]. destruct neg; reflexivity. }
  rewrite Hn. clear Hn.
  assert (Hcut : p_cut cSP (op_prefix neg ++ name ++ match arg with [] => [] | _ => cSP :: arg end)
                 = (op_prefix neg ++ name, arg, match arg with [] => false | _ => true end)).
  { destruct arg as [|a0 arg].
    - rewrite app_nil_r. apply p_cut_none. exact Hnsp.
    - rewrite app_assoc. apply p_cut_app. exact Hnsp. }
  rewrite Hcut. rewrite Htrim, Ht.
  destruct name as [|n0 name]; [congruence|].
  destruct neg; cbn [op_prefix app]; unfold cBANG, cAT; cbn [N.eqb Pos.eqb andb]; rewrite Hk; reflexivity.
Qed.

Lemma escape_dq_app_noq a b : no_byte cDQ a = true -> escape_dq (a ++ b) = a ++ escape_dq b.
Proof.
  induction a as [|c a IH]; intros H; [reflexivity|].
  rewrite no_byte_cons in H. apply andb_prop in H as [Hc Ha]. apply negb_true_iff in Hc.
  cbn [app escape_dq]. rewrite Hc. now rewrite (IH Ha).
Qed.

Lemma wf_esc_app_plain a b :
  no_byte cDQ a = true -> no_byte cBS a = true -> wf_esc b false = true -> wf_esc (a ++ b) false = true.
Proof.
  induction a as [|c a IH]; intros H1 H2 H3; [exact H3|].
  rewrite no_byte_cons in H1, H2. apply andb_prop in H1 as [Hc1 Ha1]. apply andb_prop in H2 as [Hc2 Ha2].
  apply negb_true_iff in Hc1, Hc2. cbn [app wf_esc]. rewrite Hc1, Hc2. now apply IH.
Qed.

(* ------------------------------------------------------------------------------------ *)
(* Part 5: parseActions on a rendered action list                                       *)
(* ------------------------------------------------------------------------------------ *)
Definition plain_key (c : N) : bool :=
  negb (c =? cSQ) && negb (c =? cCOLON) && negb (c =? cCOMMA) && negb (c =? cBS).
Definition plain_val (c : N) : bool := negb (c =? cSQ) && negb (c =? cCOMMA) && negb (c =? cBS).

Lemma last_cons {A} (c : A) k d : last (c :: k) d = last k c.
Proof. revert c d. induction k as [|x k IH]; intros c d; [reflexivity|]. cbn [last] in *. destruct k; [reflexivity|]. apply IH. Qed.

Lemma plain_key_split c : plain_key c = true ->
  (c =? cSQ) = false /\ (c =? cCOLON) = false /\ (c =? cCOMMA) = false /\ (c =? cBS) = false.
Proof.
  unfold plain_key. intros H. repeat (apply andb_prop in H as [H ?]).
  repeat match goal with H : negb _ = true |- _ => apply negb_true_iff in H end. auto.
Qed.
Lemma plain_val_split c : plain_val c = true ->
  (c =? cSQ) = false /\ (c =? cCOMMA) = false /\ (c =? cBS) = false.
Proof.
  unfold plain_val. intros H. repeat (apply andb_prop in H as [H ?]).
  repeat match goal with H : negb _ = true |- _ => apply negb_true_iff in H end. auto.
Qed.

Lemma pa_loop_key k : forall s prev key, (prev =? cBS) = false -> forallb plain_key k = true ->
  pa_loop (k ++ s) prev false key None = pa_loop s (last k prev) false (rev k ++ key) None.
Proof.
  induction k as [|c k IH]; intros s prev key Hp Hk; [reflexivity|].
  cbn [forallb] in Hk. apply andb_prop in Hk as [Hc Hk]. destruct (plain_key_split c Hc) as (E1 & E2 & E3 & E4).
  cbn [app pa_loop pa_push]. rewrite Hp, E1, E2, E3.
  rewrite (IH s c (c :: key) E4 Hk). rewrite last_cons. cbn [rev]. now rewrite <- app_assoc.
Qed.

Lemma pa_loop_val k : forall s prev key v, (prev =? cBS) = false -> forallb plain_val k = true ->
  pa_loop (k ++ s) prev false key (Some v) = pa_loop s (last k prev) false key (Some (rev k ++ v)).
Proof.
  induction k as [|c k IH]; intros s prev key v Hp Hk; [reflexivity|].
  cbn [forallb] in Hk. apply andb_prop in Hk as [Hc Hk]. destruct (plain_val_split c Hc) as (E1 & E3 & E4).
  cbn [app pa_loop pa_push]. rewrite Hp, E1, E3.
  destruct (c =? cCOLON); rewrite (IH s c key (c :: v) E4 Hk); rewrite last_cons; cbn [rev];
    now rewrite <- app_assoc.
Qed.

Lemma pa_loop_inq val : forall s p key v, wf_qvalue val p = true ->
  pa_loop (val ++ cSQ :: s) p true key (Some v) = pa_loop s cSQ false key (Some (cSQ :: rev val ++ v)).
Proof.
  induction val as [|c val IH]; intros s p key v H.
  - cbn [wf_qvalue] in H. apply negb_true_iff in H.
    cbn [app pa_loop pa_push]. rewrite H. change (cSQ =? cSQ) with true. reflexivity.
  - cbn [wf_qvalue] in H. apply andb_prop in H as [Hc H].
    cbn [app pa_loop pa_push]. destruct (p =? cBS) eqn:Ep.
    + rewrite (IH s c key (c :: v) H). cbn [rev]. now rewrite <- app_assoc.
    + destruct (c =? cSQ) eqn:Ec; [discriminate|].
      rewrite (IH s c key (c :: v) H). cbn [rev]. now rewrite <- app_assoc.
Qed.

Lemma wf_uvalue_scan_last val : forall p, wf_uvalue_scan val p = true -> (last val p =? cBS) = false.
Proof.
  induction val as [|c val IH]; intros p H.
  - cbn [wf_uvalue_scan] in H. now apply negb_true_iff in H.
  - cbn [wf_uvalue_scan] in H. apply andb_prop in H as [_ H]. rewrite last_cons. now apply IH.
Qed.

Lemma pa_loop_uval val : forall s p key v, wf_uvalue_scan val p = true ->
  pa_loop (val ++ s) p false key (Some v) = pa_loop s (last val p) false key (Some (rev val ++ v)).
Proof.
  induction val as [|c val IH]; intros s p key v H; [reflexivity|].
  cbn [wf_uvalue_scan] in H. apply andb_prop in H as [Hc H].
  cbn [app pa_loop pa_push]. rewrite last_cons.
  destruct (p =? cBS) eqn:Ep.
  - rewrite (IH s c key (c :: v) H). cbn [rev]. now rewrite <- app_assoc.
  - destruct (c =? cSQ) eqn:E1; [discriminate|]. destruct (c =? cCOMMA) eqn:E2; [discriminate|].
    destruct (c =? cCOLON); rewrite (IH s c key (c :: v) H); cbn [rev]; now rewrite <- app_assoc.
Qed.

(* the raw slices parseActions cuts out of a rendered action *)
Definition raw_key (v : avar) (a : action) : bytes := av_pad v ++ vary_case (av_mask v) (a_name a).
Definition raw_val (v : avar) (a : action) : bytes :=
  match a_value a with
  | [] => []
  | val => av_pad v ++ (if av_quote v then cSQ :: val ++ [cSQ] else val)
  end.
Fixpoint raws (vs : list avar) (al : list action) : list (bytes * bytes) :=
  match al with
  | [] => []
  | a :: r => (raw_key (hd avar_plain vs) a, raw_val (hd avar_plain vs) a) :: raws (tl vs) r
  end.

Lemma render_action_eq v a :
  render_action v a = raw_key v a ++ match a_value a with [] => [] | _ => cCOLON :: raw_val v a end.
Proof. unfold render_action, raw_key, raw_val. destruct (a_value a); now rewrite <- app_assoc. Qed.

Lemma is_pad_plain pad : is_pad pad = true -> forallb plain_val pad = true /\ forallb plain_key pad = true.
Proof.
  induction pad as [|c pad IH]; intros H; [split; reflexivity|].
  cbn [is_pad forallb] in H. apply andb_prop in H as [Hc Hp]. destruct (IH Hp) as [I1 I2].
  cbn [forallb]. rewrite I1, I2.
  apply orb_prop in Hc as [Hc|Hc]; apply N.eqb_eq in Hc; subst c; split; reflexivity.
Qed.

Lemma is_pad_last pad p : is_pad pad = true -> (p =? cBS) = false -> (last pad p =? cBS) = false.
Proof.
  revert p. induction pad as [|c pad IH]; intros p H Hp; [exact Hp|].
  cbn [is_pad forallb] in H. apply andb_prop in H as [Hc Hpad]. rewrite last_cons. apply IH; [exact Hpad|].
  apply orb_prop in Hc as [Hc|Hc]; apply N.eqb_eq in Hc; subst c; reflexivity.
Qed.

(* scanning the value part of one action (after its key), up to what follows it *)
Lemma pa_value v a key prev s :
  wf_avar v a = true -> wf_qvalue (a_value a) cSQ = true -> a_value a <> [] -> (prev =? cBS) = false ->
  exists prev', (prev' =? cBS) = false /\
  pa_loop (cCOLON :: raw_val v a ++ s) prev false key None
  = pa_loop s prev' false key (Some (rev (raw_val v a))).
Proof.
  intros Hv Hq Hne Hprev. unfold wf_avar in Hv. apply andb_prop in Hv as [Hpad Hqu].
  destruct (is_pad_plain _ Hpad) as [Hpv _].
  unfold raw_val. destruct (a_value a) as [|v0 val] eqn:EV; [congruence|]. clear Hne.
  set (vv := v0 :: val) in *.
  cbn [pa_loop pa_push]. rewrite Hprev. change (cCOLON =? cSQ) with false. change (cCOLON =? cCOLON) with true.
  cbn match. rewrite <- app_assoc.
  rewrite (pa_loop_val (av_pad v) _ cCOLON key [] eq_refl Hpv).
  assert (Hlp : (last (av_pad v) cCOLON =? cBS) = false) by (apply is_pad_last; [exact Hpad|reflexivity]).
  destruct (av_quote v) eqn:EQ.
  - exists cSQ. split; [reflexivity|].
    cbn [app pa_loop pa_push]. rewrite Hlp. change (cSQ =? cSQ) with true. cbn match. cbn [negb].
    rewrite <- app_assoc. cbn [app].
    rewrite (pa_loop_inq vv s cSQ key _ Hq).
    f_equal. f_equal. rewrite rev_app_distr. cbn [rev app]. rewrite rev_app_distr. cbn [rev app].
    rewrite app_nil_r. rewrite <- !app_assoc. reflexivity.
  - cbn [orb] in Hqu. unfold wf_uvalue in Hqu. rewrite EV in Hqu. fold vv in Hqu.
    apply andb_prop in Hqu as [Hqu _]. apply andb_prop in Hqu as [Hsc _].
    exists (last vv (last (av_pad v) cCOLON)). split.
    + (* the scan guard is stated from a colon; the pad only inserts blanks *)
      admit.
    + admit.
Admitted.
