(* CorrC02.v — correspondence checker for C02: runs TxPhase.tp_step on the configuration and the
   call sequence the Go harness ran against the real transaction and compares, call by call, the
   returned value, Interruption(), DetectionOnlyInterruption(), LastPhase(), RuleEngine, AllowType,
   and at the end MatchedRules() (id, Disruptive) and the per-rule TX counters. *)
From Verif Require Import Base TxPhase.
Open Scope N_scope.

(* observation after one call *)
Inductive obsv :=
  | O (r : tp_ret) (i d : option tp_intr) (last : N) (e : tp_mode) (a : option tp_scope)
  | OF (r : tp_ret) (i d : option tp_intr) (last : N) (e : tp_mode) (a : option tp_scope)
       (skip : N) (skipafter : option N)    (* tx.Skip / tx.SkipAfter not at their rest values *)
  | OB (o : obsv) (ra : bool) (rl : Z) (pa : bool) (pl : Z).
       (* plus tx.RequestBodyAccess / RequestBodyLimit / ResponseBodyAccess / ResponseBodyLimit *)

Inductive case :=
  | Case (w : tp_waf) (ks : list tp_call) (obs : list obsv)
         (matched : list (N * bool)) (counts : list (N * N)).

(* short names for the shard files *)
Definition I := mkIntr.
(* id, phase and nolog are the first three (inert) elements of every list parseActions sees *)
Definition R id ph c ch acts := mkRaw None id ph c ch (IInert :: IInert :: IInert :: acts).
(* the counter rules "id:N,phase:P,nolog,setvar:tx.cN=+1,pass" and "...,pass,setvar:..." *)
Definition Ca id ph := R id ph CTrue None [IInert; IDis DPass].
Definition Cb id ph := R id ph CTrue None [IDis DPass; IInert].
Definition II := IInert.
Definition MK (m : N) := mkRaw (Some m) 0 0 CTrue None [].
Definition D := mkDef.
Definition W := mkWaf.

Definition akind_eqb (a b : tp_akind) : bool :=
  match a, b with KDeny, KDeny | KDrop, KDrop | KRedirect, KRedirect => true | _, _ => false end.
Definition mode_eqb (a b : tp_mode) : bool :=
  match a, b with MOn, MOn | MDet, MDet | MOff, MOff => true | _, _ => false end.
Definition scope_eqb (a b : tp_scope) : bool :=
  match a, b with SPhase, SPhase | SRequest, SRequest | SAll, SAll => true | _, _ => false end.
Definition intr_eqb (a b : tp_intr) : bool :=
  (i_rule a =? i_rule b) && akind_eqb (i_kind a) (i_kind b) && (i_status a =? i_status b)
  && bytes_eqb (i_data a) (i_data b).
Definition opt_eqb {A} (eqb : A -> A -> bool) (a b : option A) : bool :=
  match a, b with
  | None, None => true
  | Some x, Some y => eqb x y
  | _, _ => false
  end.
Definition ret_eqb (a b : tp_ret) : bool :=
  match a, b with
  | RVoid, RVoid => true
  | RI x, RI y => opt_eqb intr_eqb x y
  | RW x n, RW y m => opt_eqb intr_eqb x y && (n =? m)%Z
  | _, _ => false
  end.

Definition observe (s : tp_state) (r : tp_ret) : obsv :=
  OF r (st_intr s) (st_dintr s) (st_last s) (st_engine s) (st_allow s) (st_skip s) (st_skipafter s).

(* [O ...] abbreviates [OF ... 0 None] *)
Definition obsv_norm (a : obsv) : obsv :=
  match a with O r i d l e al => OF r i d l e al 0 None | _ => a end.

Definition obsv_eqb (a b : obsv) : bool :=
  match obsv_norm a, obsv_norm b with
  | OF r i d l e al k m, OF r' i' d' l' e' al' k' m' =>
    ret_eqb r r' && opt_eqb intr_eqb i i' && opt_eqb intr_eqb d d' && (l =? l')
    && mode_eqb e e' && opt_eqb scope_eqb al al' && (k =? k') && opt_eqb N.eqb m m'
  | _, _ => false
  end.

(* an observation that also carries the per-transaction body settings *)
Definition obs_ok (c : tp_cfg) (bm : tp_bmap) (s : tp_state) (r : tp_ret) (o : obsv) : bool :=
  match o with
  | OB o' ra rl pa pl =>
    let b := tp_body_of c bm (st_trace s) in
    obsv_eqb (observe s r) o' && Bool.eqb (b_reqacc b) ra && (b_reqlim b =? rl)%Z
    && Bool.eqb (b_respacc b) pa && (b_resplim b =? pl)%Z
  | _ => obsv_eqb (observe s r) o
  end.

(* run the model along the calls, comparing every observation *)
Fixpoint run_cmp (c : tp_cfg) (bm : tp_bmap) (s : tp_state) (ks : list tp_call) (obs : list obsv) : bool * tp_state :=
  match ks, obs with
  | [], [] => (true, s)
  | k :: ks', o :: obs' =>
    let '(s', r) := tb_step c bm s k in
    if obs_ok c bm s' r o then run_cmp c bm s' ks' obs' else (false, s')
  | _, _ => (false, s)
  end.

Fixpoint matched_eqb (a b : list (N * bool)) : bool :=
  match a, b with
  | [], [] => true
  | (x, p) :: a', (y, q) :: b' => (x =? y) && Bool.eqb p q && matched_eqb a' b'
  | _, _ => false
  end.

(* the harness lists the non-zero TX counters only *)
Fixpoint count_lookup (id : N) (l : list (N * N)) : N :=
  match l with
  | [] => 0
  | (i, n) :: r => if i =? id then n else count_lookup id r
  end.

Definition ok (cs : case) : bool :=
  match cs with
  | Case w ks obs matched counts =>
    let c := tp_compile w in
    let '(b, s) := run_cmp c (tp_compile_bmap w) (tp_init c) ks obs in
    b && matched_eqb (tp_matched (st_trace s)) matched
      && forallb (fun r => is_some (rr_mark r) || (tp_starter_count (rr_id r) (st_trace s) =? count_lookup (rr_id r) counts)) (w_rules w)
  end.

Definition mismatches (l : list case) : list nat := mismatches_of ok l.

(* the state [run_cmp] ends in is the state of [tb_run] (so [ok] evaluates the functions the theorems are
   about); without body ctls [tb_step] is [tp_step] (TxPhaseProofs.tb_step_nil) *)
Lemma run_cmp_state c bm : forall ks obs s, fst (run_cmp c bm s ks obs) = true ->
  snd (run_cmp c bm s ks obs) = tb_run_from c bm s ks.
Proof.
  induction ks as [|k ks IH]; intros [|o obs] s H; cbn [run_cmp fst snd] in *; try discriminate; try reflexivity.
  unfold tb_run_from in *. cbn [fold_left].
  destruct (tb_step c bm s k) as [s' r] eqn:E. cbn [fst].
  destruct (obs_ok c bm s' r o); cbn [fst snd] in *; try discriminate.
  apply IH, H.
Qed.
