package c15

import (
	"fmt"
	"math/rand"
	"strings"

	"github.com/corazawaf/coraza/v3/experimental/plugins/plugintypes"
	"github.com/corazawaf/coraza/v3/internal/corazawaf"
	"github.com/corazawaf/coraza/v3/internal/operators"
	"github.com/corazawaf/coraza/v3/internal/seclang"

	"github.com/corazawaf/coraza/v3/experimental/plugins/macro"
	"github.com/corazawaf/coraza/v3/verifharness/vh"
)

func enumerate(alpha string, minLen, maxLen int) []string {
	var res []string
	prev := []string{""}
	if minLen == 0 {
		res = append(res, "")
	}
	for l := 1; l <= maxLen; l++ {
		var cur []string
		for _, p := range prev {
			for i := 0; i < len(alpha); i++ {
				cur = append(cur, p+string(alpha[i]))
			}
		}
		if l >= minLen {
			res = append(res, cur...)
		}
		prev = cur
	}
	return res
}

func randFrom(r *rand.Rand, alpha string, n int) string {
	b := make([]byte, n)
	for i := range b {
		b[i] = alpha[r.Intn(len(alpha))]
	}
	return string(b)
}

func pick(r *rand.Rand, l []string) string { return l[r.Intn(len(l))] }

var numStrings = []string{
	"0", "-0", "+0", "7", "-7", "+7", "007", " 7", "7 ", "7a", "a7", "--7", "+-7", "+", "-", "a", " ",
	"9223372036854775806", "9223372036854775807", "9223372036854775808", "-9223372036854775807",
	"-9223372036854775808", "-9223372036854775809", "18446744073709551615", "18446744073709551616",
	"99999999999999999999", "-99999999999999999999", "999999999999999999", "1000000000000000000",
	"1844674407370955161", "1844674407370955162", "18446744073709551609", "18446744073709551620",
	"99999999999999999999x", "-99999999999999999999x", "18446744073709551616 ", "x99999999999999999999",
	"1_000", "0x10", "1e3", "\xef\xbc\x91", "12\x00", "\xff", "2147483648", "-2147483649", "4294967296",
	"000000000000000000000000000007", "+0000000000000000000009223372036854775808",
}

func (r *runner) generate() {
	cfg := r.cfg
	rng := vh.Rng(cfg.Seed, "c15")

	// ---------------- string operators: exhaustive small scope ----------------
	alpha := "ab"
	args := enumerate(alpha, 1, 3)
	vals := enumerate(alpha, 0, cfg.Pick(3, 5))
	for _, op := range strOps {
		for _, a := range args {
			for _, v := range vals {
				r.runMop(op, a, nil, v)
			}
		}
	}
	// boundary shapes on a wider alphabet, arbitrary bytes
	wide := "abAB \x00\xff%{}."
	for i := 0; i < cfg.Pick(600, 12000); i++ {
		a := randFrom(rng, "abAB \x00\xff.", 1+rng.Intn(5))
		pre, suf := randFrom(rng, wide, rng.Intn(6)), randFrom(rng, wide, rng.Intn(6))
		var v string
		switch rng.Intn(8) {
		case 0:
			v = a
		case 1:
			v = pre + a
		case 2:
			v = a + suf
		case 3:
			v = pre + a + suf
		case 4:
			v = pre + a[:len(a)-1] // truncated at the very end
		case 5:
			v = a[1:] + suf
		case 6:
			v = ""
		default:
			v = randFrom(rng, wide, rng.Intn(8))
		}
		op := strOps[rng.Intn(len(strOps))]
		if op == "within" && rng.Intn(2) == 0 {
			a, v = pre+a+suf, a
		}
		r.runMop(op, a, nil, v)
	}

	// ---------------- macro arguments ----------------
	txv := [][2]string{{"x", hx("Vx")}, {"a", hx("")}, {"t", hx("b a")}, {"a.x", hx("\xff\x00")}, {"tx", hx("%{tx.x}")}}
	mtexts := enumerate("%{}.txa", 0, cfg.Pick(3, 4))
	for i := 0; i < cfg.Pick(200, 8000); i++ {
		mtexts = append(mtexts, randFrom(rng, "%{}.txa%{}.tx", 4+rng.Intn(5)))
	}
	mtexts = append(mtexts, "%{tx.x}", "pre%{tx.x}post", "%{tx.missing}", "%{TX.X}", "%{Tx.A.X}", "%{tx.a%{tx.x}",
		"%{tx.x}%{tx.t}", "%{tx.x", "%{tx.}", "%{nosuch.x}", "%{tx.a b}", "%{tx.x}}", "%%{tx.x}", "%{tx.x}%", "%{tx.x}%{",
		"%{tx.0}", "%{tx.a-b_c[1]}", "%{tx}", "%{tx.tx}", "a%{tx.x}%{tx.nokey}b", "%{tx.x\xff}", "%{.x}", "%{tx..x}")
	for _, m := range mtexts {
		// the value is what the real macro expands to (so that the match is decided by the
		// expansion being exactly right), and a near miss
		exp := ""
		if mc, err := macro.NewMacro(m); err == nil {
			tx := newTx(false, txv)
			exp = mc.Expand(tx)
			tx.Close()
		}
		r.runMop("streq", m, txv, exp)
		r.runMop("streq", m, txv, exp+"z")
		if len(m) >= 4 || rng.Intn(4) == 0 {
			r.runMop(pick(rng, []string{"contains", "beginsWith", "endsWith", "within", "strmatch"}), m, txv, exp)
		}
	}
	// numeric operators with macro arguments
	for i := 0; i < cfg.Pick(60, 2000); i++ {
		n := pick(rng, numStrings)
		r.runMop(pick(rng, numOps), "%{tx.n}", [][2]string{{"n", hx(n)}}, pick(rng, numStrings))
	}

	// ---------------- numeric operators ----------------
	for _, op := range numOps {
		for _, a := range numStrings {
			for _, v := range numStrings {
				if cfg.Thorough() || rng.Intn(12) == 0 {
					r.runMop(op, a, nil, v)
				}
			}
			r.runMop(op, a, nil, "")
		}
	}
	for i := 0; i < cfg.Pick(500, 12000); i++ {
		mk := func() string {
			s := pick(rng, []string{"", "", "-", "+"}) + randFrom(rng, "0123456789", 1+rng.Intn(21))
			if rng.Intn(10) == 0 {
				s += pick(rng, []string{"x", " ", "-", "\x00"})
			}
			return s
		}
		a := mk()
		v := a
		if rng.Intn(3) > 0 {
			v = mk()
		}
		r.runMop(pick(rng, numOps), a, nil, v)
	}

	// ---------------- @pm ----------------
	r.genPm(rng)

	r.genDatasetWAFs(rng)

	// ---------------- @validateByteRange ----------------
	r.genVbr(rng)

	// ---------------- @validateUrlEncoding ----------------
	for _, v := range enumerate("%4gA", 0, cfg.Pick(4, 6)) {
		r.runSimple("vue", "validateUrlEncoding", "", v)
	}
	for b := 0; b < 256; b++ {
		c := string([]byte{byte(b)})
		r.runSimple("vue", "validateUrlEncoding", "", c)
		r.runSimple("vue", "validateUrlEncoding", "", "%"+c+"0")
		r.runSimple("vue", "validateUrlEncoding", "", "%0"+c)
		if cfg.Thorough() || b%4 == 0 || isHex(byte(b)) {
			r.runSimple("vue", "validateUrlEncoding", "", "a%"+c+c+"b")
		}
	}
	// truncated %XX at every offset of a longer valid string
	base := "ab%41cd%2fe%7E"
	for i := 0; i <= len(base); i++ {
		r.runSimple("vue", "validateUrlEncoding", "", base[:i])
		r.runSimple("vue", "validateUrlEncoding", "", base[i:])
		r.runSimple("vue", "validateUrlEncoding", "", base[:i]+"%")
		r.runSimple("vue", "validateUrlEncoding", "", base[:i]+"%4")
		r.runSimple("vue", "validateUrlEncoding", "", base[:i]+"%4F")
	}
	for i := 0; i < cfg.Pick(300, 8000); i++ {
		r.runSimple("vue", "validateUrlEncoding", "", randFrom(rng, "%%%09afAFgG@`:/ \x00\xff", rng.Intn(40)))
	}

	// ---------------- @validateUtf8Encoding ----------------
	r.genUtf8(rng)

	// ---------------- @rx captures ----------------
	r.genRx(rng)

	// ---------------- captures over a non-empty prior TX.0-9 ----------------
	r.genCapSeq(rng)

	// ---------------- ParseOperator ----------------
	r.genParse(rng)

	// ---------------- single-rule WAFs ----------------
	r.genRules(rng)

	// ---------------- @ipMatch (implementation-side oracle only) ----------------
	r.genIPMatch(rng)

	// ---------------- @ipMatch / @ipMatchFromFile against the model (own PRNG stream) ----------------
	r.genIpmModel()
}

func (r *runner) genPm(rng *rand.Rand) {
	cfg := r.cfg
	// exhaustive: phrase sets of up to 2 phrases over {a,b} (length 1..3) x all values up to length 4/5 over {a,b,A}
	phr := enumerate("ab", 1, 2)
	vals := enumerate("abA", 0, cfg.Pick(4, 5))
	for i, p1 := range phr {
		for j, p2 := range phr {
			if j < i {
				continue
			}
			arg := p1
			if j > i {
				arg = p1 + " " + p2
			}
			for k, v := range vals {
				r.runPm(arg, v, (i+j+k)%2 == 0)
			}
		}
	}
	mkPhrase := func(al string, n int) string { return randFrom(rng, al, n) }
	for i := 0; i < cfg.Pick(900, 25000); i++ {
		al := pick(rng, []string{"abc", "abcABC", "ab", "abcxyzQ-_/.", "ab\xff\x80", "aAbB\xc3\xa9\x89"})
		n := 1 + rng.Intn(5)
		ps := make([]string, n)
		for j := range ps {
			ps[j] = mkPhrase(al, 1+rng.Intn(5))
		}
		if rng.Intn(5) == 0 {
			ps = append(ps, ps[0]) // duplicate
		}
		if rng.Intn(6) == 0 { // a phrase with inner white space that is not the separator
			k := rng.Intn(len(ps))
			ps[k] = ps[k] + pick(rng, []string{"\t", "\n", "\f", "\v", "\r"}) + mkPhrase(al, 1+rng.Intn(3))
		}
		if rng.Intn(6) == 0 {
			ps = append(ps, ps[0]+mkPhrase(al, 2)) // one phrase extends another
		}
		arg := strings.Join(ps, " ")
		switch rng.Intn(8) {
		case 0: // consecutive spaces: empty phrases are dropped
			arg = strings.Join(ps, "  ")
		case 1:
			arg = " " + arg + "  "
		}
		minLen := 1 << 30
		for _, p := range ps {
			if len(p) < minLen {
				minLen = len(p)
			}
		}
		noise := func(n int) string { return randFrom(rng, al+"xyz XYZ", n) }
		flip := func(s string) string {
			b := []byte(s)
			for i, c := range b {
				if rng.Intn(2) == 0 {
					if 'a' <= c && c <= 'z' {
						b[i] = c - 32
					} else if 'A' <= c && c <= 'Z' {
						b[i] = c + 32
					}
				}
			}
			return string(b)
		}
		var v string
		switch rng.Intn(9) {
		case 0: // phrase at the very end
			v = noise(rng.Intn(12)) + flip(pick(rng, ps))
		case 1: // phrase at the very end minus its last byte
			p := pick(rng, ps)
			v = noise(rng.Intn(12)) + p[:len(p)-1]
		case 2: // value shorter than the shortest phrase
			if minLen > 0 {
				v = flip(pick(rng, ps))[:minLen-1]
			}
		case 3: // exactly the minimum length
			v = noise(minLen)
		case 4: // many hits (more than ten)
			for k := 0; k < 8+rng.Intn(8); k++ {
				v += flip(pick(rng, ps)) + noise(rng.Intn(2))
			}
		case 5: // long haystack, the only hit far away (exercises the library's prefilters)
			v = strings.Repeat(noise(7), 10+rng.Intn(60)) + flip(pick(rng, ps)) + noise(rng.Intn(4))
		case 6:
			v = flip(pick(rng, ps))
		case 7:
			v = ""
		default:
			v = noise(rng.Intn(20))
		}
		r.runPm(arg, v, rng.Intn(3) > 0)
	}
	// the argument is split on the single byte 0x20 only: tab, newline, VT, FF, CR, NEL (U+0085),
	// NBSP (U+00A0) and other Unicode spaces stay inside a phrase; inputs hold the whole phrase
	// and only each fragment
	for _, ws := range []string{"\t", "\n", "\v", "\f", "\r", "\xc2\x85", "\xc2\xa0", "\xe2\x80\x83", "\xe3\x80\x80", "\x00", "\x1f"} {
		for _, pr := range [][2]string{{"drop", "table"}, {"a", "b"}, {"Ab", "cD"}} {
			phrase := pr[0] + ws + pr[1]
			for _, arg := range []string{phrase, "zz " + phrase, phrase + " zz", "zz  " + phrase + ws + "q yy"} {
				for _, v := range []string{phrase, "x" + strings.ToUpper(pr[0]) + ws + pr[1] + "y", pr[0], pr[1], "x" + pr[0] + " " + pr[1], pr[0] + ws, ws + pr[1], pr[0] + pr[1], "q", ws} {
					if cfg.Thorough() || arg == phrase || len(v)%2 == 0 {
						r.runPm(arg, v, len(v)%3 == 0)
					}
				}
			}
		}
	}
	// empty phrases only / no phrase at all
	for _, a := range []string{"", " ", "   ", "a ", " a", "a  b", "foo  fob", "foo  Fob bar", "  ab   cd  "} {
		for _, v := range []string{"", "hello", "a", "xfoby", "ab", "x cd", " ", "b"} {
			r.runPm(a, v, len(v)%2 == 1)
		}
	}
	// non-ASCII phrases: strings.ToLower re-encodes (oracle table for the runes)
	for _, a := range []string{"\xc3\x89t\xc3\x89", "\xff", "a\xffb", "\xe2\x84\xaa", "\xc4\xb0x", "\xce\xa3\xce\xa3", "caf\xc3\xa9 TH\xc3\x89", "\xc3", "\xed\xa0\x80"} {
		for _, v := range []string{a, strings.ToLower(a), strings.ToUpper(a), "x" + a + "y", "k", "K", "\xef\xbf\xbd", "i\xcc\x87x", "\xc3\xa9t\xc3\xa9", "caf\xc3\xa9", "th\xc3\xa9", ""} {
			r.runPm(a, v, true)
		}
	}

	// @pmFromFile: line handling
	files := []string{
		"abc\nDEF\n", "abc\r\nDEF\r\n", "abc\n\n\n# comment\n  def  \n", "#abc\nabc", "  # indented comment\nxy\n",
		"abc", "\nabc\n", "a b c\nd\n", "abc\r", "abc\r\r\n", "\xc2\xa0abc\xc2\xa0\n", "abc \t\nABC\n", "#\n#\n", "",
		"ab\x00c\nq\n", "\xffab\n", "\xe2\x80\x83tail\xe2\x80\x83\n", "x#y\n",
	}
	for _, f := range files {
		for _, v := range []string{"", "abc", "xxABCxx", "def", "  def  ", "a b c", "a", "#abc", "xy", "# comment", "abc\r", "ab\x00c", "\xc2\xa0abc", "\xffab", "\xef\xbf\xbdab", "tail", "x#y", "d"} {
			r.runPmf(f, v, len(v)%2 == 0)
		}
	}
	for i := 0; i < cfg.Pick(200, 4000); i++ {
		var sb strings.Builder
		for j := 0; j < 1+rng.Intn(5); j++ {
			sb.WriteString(pick(rng, []string{"", "", " ", "\t", "#"}))
			sb.WriteString(randFrom(rng, "abAB", 1+rng.Intn(4)))
			sb.WriteString(pick(rng, []string{"\n", "\r\n", " \n", "\n\n", ""}))
		}
		r.runPmf(sb.String(), randFrom(rng, "abAB#", rng.Intn(9)), rng.Intn(2) == 0)
	}
	// @pmFromDataset: phrases are used as given (no lower-casing, no trimming)
	for i := 0; i < cfg.Pick(300, 4000); i++ {
		n := 1 + rng.Intn(4)
		ps := make([]string, n)
		for j := range ps {
			ps[j] = randFrom(rng, "abAB \xff", 1+rng.Intn(4))
		}
		v := randFrom(rng, "abAB \xff", rng.Intn(10))
		if rng.Intn(3) == 0 {
			v += ps[0]
		}
		if rng.Intn(4) == 0 { // empty entries are dropped
			k := rng.Intn(len(ps) + 1)
			ps = append(append(append([]string{}, ps[:k]...), ""), ps[k:]...)
		}
		r.runPmd(ps, v, rng.Intn(2) == 0)
	}
}

func (r *runner) genVbr(rng *rand.Rand) {
	cfg := r.cfg
	args := []string{
		"0-255", "1-255", "0-254", "0", "255", "0,255", "32-126", "10, 13, 32-126", "65-90,97-122", "97-122,65-90",
		"100-50", "50-100,100-50", "10-20,15-30", "10-20,21-30", "10-20,22-30", "65", "65,65", "65-65", "0-0", "255-255",
		"+65", "65-+70", "065-0070", " 65 , 66 ", "\t65\n", "\xc2\xa065", "1-255,0",
		// malformed
		"", "a", "65,", ",65", "65,,66", "-5", "5-", "1-2-3", "256", "0-256", "300-400", "65 - 66", "65 -66", "0x41", "6 5",
		"65;66", "-", "--", "+", "99999999999999999999", "1-99999999999999999999", "-1-5", "65-\xff", "\xef\xbc\x96", "1e2",
	}
	for _, a := range args {
		for b := 0; b < 256; b++ {
			if cfg.Thorough() || b < 2 || b > 253 || rng.Intn(40) == 0 || (b >= 9 && b <= 14) || (b >= 31 && b <= 33) || (b >= 64 && b <= 67) || (b >= 89 && b <= 91) || (b >= 96 && b <= 101) || (b >= 125 && b <= 128) {
				r.runSimple("vbr", "validateByteRange", a, string([]byte{byte(b)}))
			}
		}
		r.runSimple("vbr", "validateByteRange", a, "")
		r.runSimple("vbr", "validateByteRange", a, "AZaz")
		r.runSimple("vbr", "validateByteRange", a, "hello\x00")
	}
	for i := 0; i < cfg.Pick(500, 12000); i++ {
		var items []string
		for j := 0; j < 1+rng.Intn(4); j++ {
			lo := pick(rng, []string{"0", "1", "9", "10", "31", "32", "64", "65", "126", "127", "128", "200", "254", "255", "256", "-1"})
			hi := pick(rng, []string{"0", "1", "9", "10", "31", "32", "64", "65", "126", "127", "128", "200", "254", "255", "256"})
			it := lo
			if rng.Intn(3) > 0 {
				it = lo + "-" + hi
			}
			if rng.Intn(4) == 0 {
				it = " " + it + pick(rng, []string{"", " ", "\t"})
			}
			items = append(items, it)
		}
		a := strings.Join(items, ",")
		v := randFrom(rng, "\x00\x01\x09\x0a\x1f\x20\x40\x41\x7e\x7f\x80\xc8\xfe\xff", 1+rng.Intn(4))
		r.runSimple("vbr", "validateByteRange", a, v)
	}
}

func (r *runner) genUtf8(rng *rand.Rand) {
	cfg := r.cfg
	for b := 0; b < 256; b++ {
		r.runSimple("vutf8", "validateUtf8Encoding", "", string([]byte{byte(b)}))
		if cfg.Thorough() || b >= 0x7e {
			r.runSimple("vutf8", "validateUtf8Encoding", "", "a"+string([]byte{byte(b)})+"b")
		}
	}
	bd := []byte{0x00, 0x7f, 0x80, 0x8f, 0x90, 0x9f, 0xa0, 0xbf, 0xc0, 0xc1, 0xc2, 0xdf, 0xe0, 0xe1, 0xec, 0xed, 0xee, 0xef, 0xf0, 0xf1, 0xf3, 0xf4, 0xf5, 0xff}
	for _, b0 := range bd {
		for _, b1 := range bd {
			r.runSimple("vutf8", "validateUtf8Encoding", "", string([]byte{b0, b1}))
			for _, b2 := range bd {
				if cfg.Thorough() || ((b0 >= 0xe0 && b0 <= 0xf4) && rng.Intn(10) == 0) || rng.Intn(100) == 0 {
					r.runSimple("vutf8", "validateUtf8Encoding", "", string([]byte{b0, b1, b2}))
				}
				if b0 >= 0xf0 && (cfg.Thorough() || rng.Intn(20) == 0) {
					for _, b3 := range []byte{0x7f, 0x80, 0xbf, 0xc0} {
						r.runSimple("vutf8", "validateUtf8Encoding", "", string([]byte{b0, b1, b2, b3}))
					}
				}
			}
		}
	}
	good := []string{"a", "\xc2\xa0", "\xdf\xbf", "\xe0\xa0\x80", "\xed\x9f\xbf", "\xee\x80\x80", "\xef\xbf\xbd", "\xf0\x90\x80\x80", "\xf4\x8f\xbf\xbf", "\xe2\x82\xac"}
	bad := []string{"\x80", "\xc0\xaf", "\xed\xa0\x80", "\xf4\x90\x80\x80", "\xe2\x82", "\xf0\x9f\x98", "\xff", "\xc2"}
	for i := 0; i < cfg.Pick(400, 8000); i++ {
		var sb strings.Builder
		for j := 0; j < 1+rng.Intn(6); j++ {
			if rng.Intn(5) == 0 {
				sb.WriteString(pick(rng, bad))
			} else {
				sb.WriteString(pick(rng, good))
			}
		}
		s := sb.String()
		if rng.Intn(4) == 0 && len(s) > 1 { // truncate inside a sequence
			s = s[:len(s)-1]
		}
		r.runSimple("vutf8", "validateUtf8Encoding", "", s)
	}
}

var rxPatterns = []string{
	"^(a)(b)(c)(d)(e)(f)(g)(h)(i)$", "^(a)(b)(c)(d)(e)(f)(g)(h)(i)(j)(k)(l)$", "(a)(b)?(c)", "(a)|(b)", "((a)(b))+", "a.b", "^b$", "(?i)(ab)+",
	"()", "(a*)(b*)", "x(\\d+)y(\\w*)", "(?:a)(b)", "(?P<n>a+)", "a", "", "^$", "(.)(.)(.)(.)(.)(.)(.)(.)(.)(.)(.)", "(\\xc3\\xa9)(.)?",
	"(a)(b)(c)(d)(e)(f)(g)(h)(i)(j)", "(a)(b)(c)(d)(e)(f)(g)(h)(i)(j)?",
	// byte escapes that are not valid UTF-8: the binary matcher (F50: it keeps (?sm))
	"\\xff.b", "^b\\xff", "(\\xff)(.)(b)?", "[\\x80-\\xff]+(.)", "(a)|(\\xfe)", "x\\x{ff}(.*)$",
}

func (r *runner) genRx(rng *rand.Rand) {
	cfg := r.cfg
	values := []string{"\xff\nb", "a\nb\xff", "x\xff\n\n", "\x80\x81\n", "\xfe", "abcdefghi", "abcdefghijkl", "abcdefghij", "ac", "abc", "b", "a", "abab", "a\nb", "a\nb\nc", "ABab", "", "x12yz_", "aaabbb",
		"0123456789abcdef", "\xc3\xa9!", "\xff", "xa\xffb", "abcdefghijk", "b\n"}
	for i, p := range rxPatterns {
		for j, v := range values {
			// the documented semantics hold whatever SecRxPreFilter says: alternate the setting
			r.pf = cfg.Thorough() || (i+j)%2 == 0
			r.runRx(p, v, true)
			r.pf = false
			if cfg.Thorough() || (i+j)%2 == 1 {
				r.runRx(p, v, true)
			}
			if len(v)%3 == 0 {
				r.runRx(p, v, false)
			}
		}
	}
	// ^literal$ patterns (exact-match fast path when the prefilter is on): (?sm) makes ^ and $
	// line anchors, so the literal on a line of its own at the start / middle / end matches
	exact := []string{"^Upload$", "(?i)^upload$", "^a$", "^ab$", "^(?i:Upload)$", "^Upload", "Upload$", "^Up.oad$"}
	lines := []string{"Upload", "Upload\nmore", "more\nUpload", "\nUpload", "Upload\n", "a\nUpload\nb", "a\nUpload\nb\n", "\nUpload\n",
		"upload\nx", "x\nUPLOAD", "UPLOAD", "Uploadx", "xUpload", "", "\n", "a", "a\nb", "b\na", "ab\n", "x\nab", "Up\noad", "more\nUploads", "Upload\r\nmore"}
	for _, p := range exact {
		for _, v := range lines {
			for _, pf := range []bool{true, false} {
				r.pf = pf
				r.runRx(p, v, true)
				// the operator against the regexp engine, without the model in between
				r.oracleN++
				_, want, _ := rxOracle(p, v)
				op, err := operators.Get("rx", plugintypes.OperatorOptions{Arguments: p, RxPreFilterEnabled: pf})
				if err == nil {
					tx := newTx(false, nil)
					if op.Evaluate(tx, v) != want {
						r.fail("c15-rx-line-anchors", "@rx differs from regexp (?sm)pattern (line anchors / prefilter setting)",
							&caseJSON{Kind: "rx", ArgHex: hx(p), ValueHex: hx(v), Prefilter: pf})
					}
					tx.Close()
				}
			}
		}
	}
	r.pf = false
	for i := 0; i < cfg.Pick(300, 5000); i++ {
		r.pf = i%2 == 0
		pat := pick(rng, rxPatterns)
		if i%5 == 0 {
			pat = pick(rng, exact)
		}
		v := randFrom(rng, "abcdefghijkl\nAB1_", rng.Intn(14))
		if i%5 == 0 {
			v = pick(rng, []string{"", "x\n", "\n"}) + pick(rng, []string{"Upload", "upload", "a", "ab", "UpXoad"}) + pick(rng, []string{"", "\n", "\ny", "\n\n"})
		}
		r.runRx(pat, v, rng.Intn(4) > 0)
	}
	r.pf = false
	// implementation-side expectations stated by the property: RE2 semantics with dot matching newline
	exp := []struct {
		p, v string
		want bool
	}{{"a.b", "a\nb", true}, {"^a.*c$", "a\n\nc", true}, {"a[^x]b", "a\nb", true}, {"^b", "a\nb", true}, {"(?-s)a.b", "a\nb", false}, {"a{2,3}", "a", false}, {"\\bfoo\\b", "a foo.", true}, {"(?i)SeLeCt", "xselectx", true}}
	exp = append(exp, []struct {
		p, v string
		want bool
	}{{"\\xff.b", "\xff\nb", true}, {"^b\\xff", "a\nb\xff", true}, {"[\\x80-\\xff].", "\x80\n", true}, {"\\xff$", "\xff\nx", true}}...)
	for _, e := range exp {
		cj := &caseJSON{Kind: "rx", ArgHex: hx(e.p), ValueHex: hx(e.v)}
		_, m, ok := rxOracle(e.p, e.v)
		r.oracleN++
		if !ok || m != e.want {
			r.fail("c15-rx-dotall", "regexp semantics differ from the stated expectation", cj)
		}
		r.runRx(e.p, e.v, false)
		// the operator itself, not only the oracle engine
		r.oracleN++
		if got, ok := rxResult(e.p, e.v); !ok || got != e.want {
			r.fail("c15-rx-dotall", "@rx differs from the stated expectation (dot matches newline, ^/$ at line ends)", cj)
		}
	}
	// both regexp paths decide the same language: (?:\xfe|P) forces the binary matcher and is
	// equivalent to P on values without the byte \xfe (ASCII patterns and values)
	for _, p := range rxPatterns {
		if strings.Contains(p, "\\x") || strings.Contains(p, "(?P<") {
			continue
		}
		for i := 0; i < cfg.Pick(12, 200); i++ {
			v := randFrom(rng, "abcdefghijkl\n\nAB1_", rng.Intn(14))
			cj := &caseJSON{Kind: "rx", ArgHex: hx(p), ValueHex: hx(v), Note: "binary path vs regexp path"}
			a, ok1 := rxResult(p, v)
			b, ok2 := rxResult("(?:\\xfe|"+p+")", v)
			r.oracleN++
			if ok1 != ok2 || a != b {
				r.fail("c15-rx-binary-path", "@rx P and @rx (?:\\xfe|P) (binary matcher) disagree on a value without \\xfe", cj)
			}
		}
	}
}

func (r *runner) genParse(rng *rand.Rand) {
	cfg := r.cfg
	fixed := []string{"", "!", "!@", "@", "@rx", "@rx a", "!@rx a", "!a", "! a", "a b", "@contains  a ", "@contains\ta", "!@contains a",
		"@Contains a", "@nosuch a", "@@rx a", "!!a", "!!@rx a", " @rx a", "@streq", "@streq ", "@ rx", "!@ rx a", "@rx  a  b ", "@pm a b c",
		"!@pm a b", "@eq 5", "!@eq 5", "@eq", "@validateByteRange 1-5", "@validateByteRange", "@validateByteRange x", "@validateUrlEncoding",
		"@validateUrlEncoding ignored", "@validateUtf8Encoding", "@unconditionalMatch", "!@unconditionalMatch", "@noMatch", "!@noMatch x",
		"@within a,b", "@beginsWith %{tx.x}", "@endsWith %{tx.}", "@strmatch %{nosuch.x}", "@ge -1", "@gt +1", "@le a", "@lt 1 2",
		"@rx\xc2\xa0a", "@\xc2\xa0rx a", "@contains \xc2\xa0a\xc2\xa0", "@contains \t a \t", "@rx \xe2\x80\x83", "!@", "!@ ", "!@x",
		"@streq a", "@STREQ a", "@beginswith a", "@endsWith  ", "! @rx a", "!\t@rx a", "@rx\ta", "@rx\t a", "@rx \ta"}
	for _, o := range fixed {
		r.runParse(o)
	}
	names := []string{"rx", "streq", "contains", "strmatch", "beginsWith", "endsWith", "within", "eq", "ge", "gt", "le", "lt", "pm",
		"validateByteRange", "validateUrlEncoding", "validateUtf8Encoding", "unconditionalMatch", "noMatch", "nosuch", "Rx", "", "x"}
	for i := 0; i < cfg.Pick(500, 5000); i++ {
		o := pick(rng, []string{"", "@", "!@", "!", "!!", "@@", " ", "!@ ", "@ "}) + pick(rng, names) +
			pick(rng, []string{"", " ", "  ", "\t", " \t"}) + pick(rng, []string{"", "a", "a b", "1-5", "7", "%{tx.x}", "a ", "@rx", "!a", "%{"})
		r.runParse(o)
	}
	for _, o := range enumerate("@! rx", 0, cfg.Pick(4, 5)) {
		r.runParse(o)
	}
}

func (r *runner) genRules(rng *rand.Rand) {
	cfg := r.cfg
	tx := [][2]string{{"x", hx("abc")}}
	type rc struct {
		op, v string
	}
	fixed := []rc{
		{"^(a)(b)(c)(d)(e)(f)(g)(h)(i)$", "abcdefghi"}, {"@rx ^(a)(b)(c)(d)(e)(f)(g)(h)(i)$", "abcdefghi"},
		{"!@rx ^(a)(b)$", "ab"}, {"!@rx ^(a)(b)$", "xy"}, {"(a)(b)?(c)", "ac"}, {"", "anything"}, {"!", "anything"},
		{"@pm abc bc", "xABCbc bc bc bc bc bc bc bc bc bc bc"}, {"@pm a\tb zz", "a"}, {"@pm a\tb zz", "xA\tBy"}, {"@pm drop\ftable", "table"}, {"!@pm abc", "xabcx"}, {"!@pm abc", "xyz"}, {"@pm a b", ""},
		{"@streq %{tx.x}", "abc"}, {"!@streq %{tx.x}", "abc"}, {"!@streq %{tx.x}", "abd"}, {"@contains b", "abc"}, {"!@contains b", "abc"},
		{"@beginsWith %{tx.x}", "abcd"}, {"@endsWith c", "abc"}, {"@within a,abc,d", "abc"}, {"!@within GET,POST", "PUT"},
		{"@eq 3", "3"}, {"!@eq 3", "4"}, {"@ge 3", "3"}, {"@gt 3", "3"}, {"@le 3", "4"}, {"@lt 3", "2"},
		{"@validateByteRange 32-126", "abc\x01"}, {"!@validateByteRange 32-126", "abc"}, {"@validateByteRange 300", "a"},
		{"@validateUrlEncoding", "a%4"}, {"!@validateUrlEncoding", "a%41"}, {"@validateUtf8Encoding", "\xc3"}, {"!@validateUtf8Encoding", "\xc3\xa9"},
		{"@unconditionalMatch", ""}, {"!@unconditionalMatch", "a"}, {"@noMatch", "a"}, {"!@noMatch", "a"}, {"@nosuch a", "a"}, {"@streq", "a"},
		{"@Contains b", "abc"}, {"abc", "xABCx"}, {"(?i)abc", "xABCx"}, {"!abc", "xABCx"}, {"@contains  b ", "a b c"},
	}
	for _, v := range []string{"Upload", "Upload\nmore", "more\nUpload", "\nUpload", "a\nUpload\nb", "Upload\n", "upload", "Uploadx"} {
		fixed = append(fixed, rc{"^Upload$", v}, rc{"!@rx ^Upload$", v}, rc{"@rx (?i)^upload$", v})
	}
	for _, c := range fixed {
		for _, capt := range []bool{true, false} {
			r.runRule(c.op, tx, c.v, capt, "")
		}
		if _, name, _ := modelParse(c.op); name == "rx" {
			r.pf = true
			r.runRule(c.op, tx, c.v, true, "")
			r.pf = false
		}
	}
	ops := []string{"streq", "contains", "strmatch", "beginsWith", "endsWith", "within", "eq", "ge", "gt", "le", "lt", "pm",
		"validateByteRange", "validateUrlEncoding", "validateUtf8Encoding", "unconditionalMatch", "noMatch", "rx"}
	for i := 0; i < cfg.Pick(700, 6000); i++ {
		name := pick(rng, ops)
		var arg, v string
		switch name {
		case "eq", "ge", "gt", "le", "lt":
			arg = pick(rng, []string{"0", "3", "-3", "+3", "9223372036854775807", "99999999999999999999", "x", "%{tx.x}", "%{tx.n}"})
			v = pick(rng, []string{"0", "3", "-3", "2", "4", "", "abc", "9223372036854775808", "99999999999999999999z"})
		case "pm":
			n := 1 + rng.Intn(3)
			ps := make([]string, n)
			for j := range ps {
				ps[j] = randFrom(rng, "abAB", 1+rng.Intn(3))
			}
			arg = strings.Join(ps, " ")
			v = randFrom(rng, "abAB-", rng.Intn(16))
		case "validateByteRange":
			arg = pick(rng, []string{"32-126", "0-255", "97-98", "65,66,97", "98-97", "1-", "97 - 98", "10, 13, 32-126"})
			v = randFrom(rng, "abAB \x01\xff", rng.Intn(5))
		case "validateUrlEncoding":
			v = randFrom(rng, "%4gA", rng.Intn(6))
		case "validateUtf8Encoding":
			v = randFrom(rng, "a\xc3\xa9\xe2\x82\xac\xff", rng.Intn(6))
		case "unconditionalMatch", "noMatch":
			v = randFrom(rng, "ab", rng.Intn(3))
		case "rx":
			arg = pick(rng, []string{"(a)(b)?", "^(a+)(b+)$", "(a)|(b)", "a.b", "((a)b)+", "(a)(a)(a)(a)(a)(a)(a)(a)(a)(a)(a)", "^$", "(", "[a"})
			v = randFrom(rng, "abAB\n", rng.Intn(13))
		default:
			arg = pick(rng, []string{"a", "ab", "aB", "%{tx.x}", "x%{tx.x}", "%{tx.nokey}", "abc", "%{tx.}", "a b", "b ", "%{"})
			v = pick(rng, []string{"a", "ab", "abc", "xabc", "abcx", "xabcx", "aB", "tx.nokey", "", "a b", "b", "x"})
			if name == "within" {
				arg = pick(rng, []string{"a,ab,abc", "GET,POST", "%{tx.x},x"})
				v = pick(rng, []string{"a", "ab", "abc", "b,a", "GET", "PUT", "", ",", "bc"})
			}
		}
		text := pick(rng, []string{"@", "@", "!@"}) + name
		if arg != "" {
			text += pick(rng, []string{" ", " ", "  "}) + arg
		}
		if name == "rx" && rng.Intn(2) == 0 && arg != "" {
			text = pick(rng, []string{"", "!"}) + arg
		}
		txv := tx
		if strings.Contains(arg, "tx.n") {
			txv = [][2]string{{"x", hx("3")}, {"n", hx(pick(rng, []string{"3", "-3", "4"}))}}
		}
		r.pf = name == "rx" && rng.Intn(2) == 0
		r.runRule(text, txv, v, rng.Intn(4) > 0, "")
		r.pf = false
	}
	_ = fmt.Sprint
}

func isHex(c byte) bool {
	return (c >= '0' && c <= '9') || (c >= 'a' && c <= 'f') || (c >= 'A' && c <= 'F')
}

// genDatasetWAFs: @pmFromDataset through real WAFs that live in the same process and use the same
// data-set names with different contents (two WAFs; one configuration that declares the data set
// twice); every rule must decide membership of ITS OWN phrase list (implementation-side oracle).
func (r *runner) genDatasetWAFs(rng *rand.Rand) {
	mkList := func() []string {
		n := 1 + rng.Intn(3)
		ps := make([]string, n)
		for i := range ps {
			ps[i] = randFrom(rng, "abcdABCD", 2+rng.Intn(3))
		}
		return ps
	}
	want := func(ps []string, v string) bool {
		lv := asciiLower(v)
		for _, p := range ps {
			if strings.Contains(lv, asciiLower(p)) {
				return true
			}
		}
		return false
	}
	conf := func(lists ...[]string) string {
		var sb strings.Builder
		for i, ps := range lists {
			fmt.Fprintf(&sb, "SecDataset ds `\n%s\n`\n", strings.Join(ps, "\n"))
			fmt.Fprintf(&sb, "SecRule REQUEST_HEADERS:x \"@pmFromDataset ds\" \"id:%d,phase:1,pass,nolog,setvar:tx.m%d=1\"\n", i+1, i+1)
		}
		return sb.String()
	}
	probe := func(waf *corazawaf.WAF, nRules int, v string) []bool {
		tx := waf.NewTransaction()
		defer tx.Close()
		tx.AddRequestHeader("x", v)
		tx.ProcessRequestHeaders()
		res := make([]bool, nRules)
		for i := range res {
			res[i] = len(tx.Variables().TX().Get(fmt.Sprintf("m%d", i+1))) > 0
		}
		return res
	}
	for it := 0; it < r.cfg.Pick(40, 600); it++ {
		a, b := mkList(), mkList()
		w1, w2, w3 := corazawaf.NewWAF(), corazawaf.NewWAF(), corazawaf.NewWAF()
		if seclang.NewParser(w1).FromString(conf(a)) != nil || seclang.NewParser(w2).FromString(conf(b)) != nil ||
			seclang.NewParser(w3).FromString(conf(a, b)) != nil {
			r.fail("c15-pmds-waf", "SecDataset + @pmFromDataset configuration does not compile", map[string]any{"a": a, "b": b})
			continue
		}
		vals := []string{a[0], b[0], "x" + strings.ToUpper(b[len(b)-1]) + "y", randFrom(rng, "abcdABCD", 6), ""}
		for _, v := range vals {
			r.oracleN += 3
			r.res.InputDistribution["pmds_waf"]++
			c := map[string]any{"kind": "pmds-waf", "first_list": a, "second_list": b, "value_hex": hx(v)}
			if got := probe(w1, 1, v); got[0] != want(a, v) {
				r.fail("c15-pmds-waf", "@pmFromDataset in the first WAF does not decide membership of its own data set", c)
			}
			if got := probe(w2, 1, v); got[0] != want(b, v) {
				r.fail("c15-pmds-waf", "@pmFromDataset in a second WAF (same data-set name, other content) does not decide membership of its own data set", c)
			}
			if got := probe(w3, 2, v); got[0] != want(a, v) || got[1] != want(b, v) {
				r.fail("c15-pmds-waf", "@pmFromDataset after SecDataset was declared again does not decide membership of the data set current at its rule", c)
			}
		}
	}
}

// capture patterns: groups that all participate, optional groups and alternation branches that
// do not participate, more than ten groups, nested groups
var capPatterns = []string{
	"(a)(b)(c)", "(a)(b)(c)(d)(e)", "^(.)(.)(.)(.)(.)(.)(.)(.)(.)(.)(.)?", "(a)|(b)", "(a)|(b)|(c)", "(x)?y", "(a)(b)?(c)", "(?:(a)|(b))(c)?",
	"^(a)?(b)?(c)?(d)?(e)?(f)?(g)?(h)?(i)?(j)?(k)?$", "((a)|(b))+", "(a*)(b*)", "(a)", "a", "(\\w+)-(\\d+)?-(\\w+)?", "(?i)(ab)|(cd)|(ef)", "()(a)?",
	"^(?:(a)|b)(?:(c)|d)(?:(e)|f)(?:(g)|h)(?:(i)|j)(?:(k)|l)(?:(m)|n)(?:(o)|p)(?:(q)|r)(?:(s)|t)$",
}
var capValues = []string{"abc", "abcde", "a", "b", "c", "y", "xy", "ac", "bc", "abcdefghijk", "0123456789", "0123456789X", "acegikmoqs", "bdfhjlnprt", "adehilmpqt",
	"ab-12-cd", "ab--cd", "ab--", "aabb", "bb", "CD", "ef", "bdfhj", "", "zzz", "ABC-9-"}

func (r *runner) genCapSeq(rng *rand.Rand) {
	cfg := r.cfg
	step := func() stepJSON {
		if rng.Intn(5) == 0 {
			return stepJSON{Op: "pm", ArgHex: hx(pick(rng, []string{"a b c", "ab", "abc bc c", "x y", "k"})), ValueHex: hx(pick(rng, []string{"abcabc", "xbc", "cab abc", "zzz", "ABCABCABCABC", ""}))}
		}
		return stepJSON{Op: "rx", ArgHex: hx(pick(rng, capPatterns)), ValueHex: hx(pick(rng, capValues))}
	}
	// fixed family: fill TX.1..n first, then a pattern whose group does not participate
	fill := []stepJSON{{Op: "rx", ArgHex: hx("^(.)(.)(.)(.)(.)(.)(.)(.)(.)(.)(.)?"), ValueHex: hx("0123456789")}, {Op: "rx", ArgHex: hx("(a)(b)(c)"), ValueHex: hx("abc")},
		{Op: "pm", ArgHex: hx("a b c"), ValueHex: hx("abcabc")}}
	for _, f := range fill {
		for _, p := range capPatterns {
			for _, v := range []string{"b", "y", "ac", "c", "abc", "bdfhjlnprt", "ab--", "zzz"} {
				if cfg.Thorough() || rng.Intn(3) == 0 {
					r.pf = rng.Intn(2) == 0
					r.runCapSeq([]stepJSON{f, {Op: "rx", ArgHex: hx(p), ValueHex: hx(v)}})
				}
			}
		}
	}
	for i := 0; i < cfg.Pick(500, 8000); i++ {
		n := 2 + rng.Intn(3)
		st := make([]stepJSON, n)
		for j := range st {
			st[j] = step()
		}
		r.pf = i%2 == 0
		r.runCapSeq(st)
	}
	// rule level: 2-3 rules in one WAF; not every rule has `capture`, some are negated, some are
	// operators that never capture
	ruleText := func() string {
		switch rng.Intn(8) {
		case 0:
			return "@pm " + pick(rng, []string{"a b c", "abc bc", "k"})
		case 1:
			return pick(rng, []string{"@streq abc", "@contains b", "@unconditionalMatch", "@eq 0"})
		case 2:
			return "!@rx " + pick(rng, capPatterns)
		case 3:
			return "@rx " + pick(rng, capPatterns)
		}
		return pick(rng, capPatterns)
	}
	for i := 0; i < cfg.Pick(350, 5000); i++ {
		n := 2 + rng.Intn(2)
		st := make([]stepJSON, n)
		for j := range st {
			t := ruleText()
			if strings.HasPrefix(t, "^") && rng.Intn(2) == 0 { // avoid nothing: bare patterns are fine
				t = "@rx " + t
			}
			st[j] = stepJSON{ArgHex: hx(t), ValueHex: hx(pick(rng, capValues)), Capture: rng.Intn(5) > 0}
		}
		r.pf = i%2 == 0
		r.runRuleSeq(st)
	}
	r.pf = false
}
