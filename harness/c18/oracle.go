package c18

import (
	"fmt"
	"reflect"
)

// shape predicates over the handler's operation list (mirrors of Http.no_late_headers and
// Http.no_status_after_info)
func commitsOp(op Op) bool {
	switch op.Op {
	case "wh", "w", "fl":
		return true
	case "rf":
		for _, c := range op.Chunks {
			if len(c) > 0 {
				return true
			}
		}
	}
	return false
}

func lateHeaders(ops []Op) bool {
	committed := false
	for _, op := range ops {
		if committed && (op.Op == "set" || op.Op == "add" || op.Op == "del") {
			return true
		}
		if commitsOp(op) {
			committed = true
		}
	}
	return false
}

func statusAfterInfo(ops []Op) bool {
	info := false
	for _, op := range ops {
		if op.Op == "wh" {
			if info {
				return true
			}
			if isInfo(op.C) {
				info = true
			}
		}
	}
	return false
}

// oracle checks the property's statement on the implementation's observations, without the
// model: blocked requests never reach the handler and carry the interruption's status; blocked
// responses carry no handler byte; otherwise the exchange equals the one with the bare handler.
// Returns the number of oracle evaluations.
func oracle(c *Case, s *server, fail func(key, what string, c any), known map[string]bool) int {
	o := c.Obs
	if o.ClientErr != "" {
		fail("c18-client-error", "the HTTP client could not complete the exchange: "+o.ClientErr, c)
		return 1
	}
	bodyEvents := 0
	for _, e := range o.Trace {
		if e.Ev == "b" {
			bodyEvents++
		}
	}
	switch {
	case o.Intr != nil && !o.Invoked:
		// request-phase interruption
		if o.ReadHex != "" || o.BodyHex != "" || bodyEvents > 0 {
			fail("c18-request-block-leak", "a request interrupted in a request phase produced handler output", c)
		}
		switch o.Intr.Action {
		case "deny":
			want := o.Intr.Status
			if want == 0 {
				want = 403
			}
			if o.Status != want {
				fail("c18-request-block-status", fmt.Sprintf("deny with status %d answered with %d", want, o.Status), c)
			}
		default:
			// redirect: the interruption's status (and a Location); drop: no ordinary answer
			if o.Intr.Action == "drop" || o.Status != o.Intr.Status {
				known["c18-request-redirect-drop-status"] = true
				fail("c18-request-redirect-drop-status", fmt.Sprintf("request-phase %s (status %d) answered with %d", o.Intr.Action, o.Intr.Status, o.Status), c)
			}
		}
		return 1
	case o.Intr != nil:
		// response-phase interruption: none of the handler's body bytes
		if o.BodyHex != "" || bodyEvents > 0 || o.Refused > 0 {
			// includes bytes the middleware handed to the writer that the writer refused (F52, repaired)
			fail("c18-response-block-leak", "a response interrupted in a response phase handed handler bytes to the writer", c)
		}
		return 1
	}
	// nothing interrupted: compare with the unwrapped handler on the same request
	if !o.Invoked {
		fail("c18-passthrough-not-invoked", "no interruption but the handler was not invoked", c)
		return 1
	}
	bare, err := exchange(c, s, false)
	if err != nil {
		fail("c18-bare-exchange", "bare exchange failed: "+err.Error(), c)
		return 1
	}
	b := bare.obs
	var diffs []string
	if b.ReadHex != o.ReadHex {
		diffs = append(diffs, fmt.Sprintf("handler read %q behind the middleware, %q without", unhex(o.ReadHex), unhex(b.ReadHex)))
	}
	for _, op := range c.Ops {
		if op.Op == "rdall" && !lateRead(c) {
			if o.ReadHex != c.BodyHex {
				diffs = append(diffs, "handler's ReadAll did not return the client's body")
			}
			break
		}
	}
	if b.Status != o.Status {
		diffs = append(diffs, fmt.Sprintf("status %d, bare %d", o.Status, b.Status))
	}
	if b.BodyHex != o.BodyHex {
		diffs = append(diffs, fmt.Sprintf("body %q, bare %q", clip(unhex(o.BodyHex)), clip(unhex(b.BodyHex))))
	}
	if !reflect.DeepEqual(b.Headers, o.Headers) {
		diffs = append(diffs, fmt.Sprintf("headers %v, bare %v", o.Headers, b.Headers))
	}
	if !reflect.DeepEqual(b.Infos, o.Infos) {
		diffs = append(diffs, fmt.Sprintf("1xx %v, bare %v", o.Infos, b.Infos))
	}
	if len(diffs) > 0 {
		what := fmt.Sprint(diffs)
		switch {
		case statusAfterInfo(c.Ops):
			known["c18-informational-status"] = true
			fail("c18-informational-status", what, c)
		case lateHeaders(c.Ops):
			known["c18-late-header-visible"] = true
			fail("c18-late-header-visible", "a header set after WriteHeader/Write/Flush reaches the client only behind the middleware: "+what, c)
		default:
			fail("c18-passthrough", what, c)
		}
	}
	return 2
}

func clip(b []byte) []byte {
	if len(b) > 60 {
		return append(append([]byte{}, b[:60]...), "..."...)
	}
	return b
}

// a ReadAll placed after the first write (recorder mode only)
func lateRead(c *Case) bool {
	committed := false
	for _, op := range c.Ops {
		if commitsOp(op) {
			committed = true
		}
		if committed && (op.Op == "rd" || op.Op == "rdall") {
			return true
		}
	}
	return false
}
