package c07

import (
	"fmt"
	"strings"
)

// "operator-argument x traffic": for every operator a table of argument shapes that make its
// inner branches reachable, paired with request values derived from those arguments (digit
// strings with separators whose length / digit count sit around the operators' thresholds,
// empty, only separators, very long, addresses, byte ranges, injections, encodings).

var opTrafficArgs = map[string][]string{
	"validatenid": {`us \d{3}-?\d{2}-?\d{3,4}`, `us [0-9 -]{9,11}`, `us .+`, `us .*`, `us \d+`, `us \d{3}-\d{2}-\d{4}`,
		`cl .+`, `cl .*`, `cl \d{1,2}\.?\d{3}\.?\d{3}-?[\dkK]`, `cl [0-9.kK-]{8,12}`, `cl \d+`, `us [^a-z]+`, `cl [^a-z]+`},
	"validatebyterange":    {"0-255", "32-126", "1", "0", "255", "10,13,32-126", "65-66,67", "126-32", "0-0", "48-57,45"},
	"ipmatch":              {"1.2.3.4", "10.0.0.0/8", "::1", "::/0", "0.0.0.0/0", "1.2.3.4,::1,10.0.0.0/8", "2001:db8::/32", "1.2.3.4/32", "::ffff:1.2.3.4"},
	"ipmatchfromfile":      {"@TMP@/ip.data"},
	"ipmatchf":             {"@TMP@/ip.data"},
	"ipmatchfromdataset":   {"ds2"},
	"pm":                   {"foo bar", "a", "219 - .", "\xc3\xa9 x", "select union script"},
	"pmfromfile":           {"@TMP@/pm.data"},
	"pmf":                  {"@TMP@/pm.data"},
	"pmfromdataset":        {"ds1"},
	"restpath":             {"/a/{id}/b", "/{x}", "/{a}/{b}/{c}", "/t/{id}"},
	"validateschema":       {"@TMP@/schema.json"},
	"within":               {"GET POST 219-09-999", "%{tx.a}", "%{request_method} %{args.a0}", ""},
	"contains":             {"-", "%{tx.a}", "%{args.a0}", "9"},
	"beginswith":           {"2", "%{tx.a}", "%{args.a1}", "/"},
	"endswith":             {"9", "%{tx.a}", "%{args.a2}"},
	"streq":                {"219-09-999", "%{tx.a}", "%{args.a0}", ""},
	"strmatch":             {"09", "%{tx.a}", "-"},
	"rx":                   {`(\d{3})-(\d{2})-(\d+)`, `(a)|(b)`, `(?:(x)|(y))+`, `^(.*)$`, `(((((((((((.)))))))))))`, `(?P<n>\d+)`, `\xff+`, `(?i)SELECT`, `(\d)(\d)(\d)(\d)(\d)(\d)(\d)(\d)(\d)(\d)`, `^$`, `\b`},
	"detectsqli":           {""},
	"detectxss":            {""},
	"eq":                   {"9", "%{tx.n}", "-1", "0"},
	"ge":                   {"9", "%{tx.n}", "0"},
	"gt":                   {"9", "%{tx.n}", "-1"},
	"le":                   {"9", "%{tx.n}"},
	"lt":                   {"9", "%{tx.n}", "0"},
	"validateurlencoding":  {""},
	"validateutf8encoding": {""},
	"geolookup":            {""},
	"nomatch":              {""},
	"unconditionalmatch":   {""},
}

// digitSep builds strings of the given total length with the given number of digits, the rest
// being separators spread between them.
func digitSep(total, digits int, sep byte) string {
	if digits > total {
		digits = total
	}
	b := make([]byte, 0, total)
	seps := total - digits
	for i := 0; i < total; i++ {
		// spread: emit a separator whenever the remaining separators are "ahead" proportionally
		remaining := total - i
		if seps > 0 && (digits == 0 || seps*(remaining) >= remaining*seps && i%2 == 1 || remaining == seps) {
			b = append(b, sep)
			seps--
		} else if digits > 0 {
			b = append(b, byte('0'+(i*7+1)%10))
			digits--
		} else {
			b = append(b, sep)
			seps--
		}
	}
	return string(b)
}

func opTrafficValues() []string {
	vals := []string{"", "219-09-999", "219-09-9999", "219099999", "21909999", "000-00-0000", "666-12-1234", "078-05-1120",
		"---------", "--------", "-------", "----------", ".........", "         ", "1-2-3-4-5", "1--------", "--------1", "12345678-", "1234 5678",
		"12.345.678-5", "11.111.111-1", "1234567-k", "1234567-K", "kkkkkkkk", "kkkkkkkkk", "k-------", "........k", "1.234.567-k", "0000000-0", "7654321-6",
		strings.Repeat("9", 20), strings.Repeat("-", 40), strings.Repeat("1-", 30), strings.Repeat("a", 300), strings.Repeat("7", 300),
		"1.2.3.4", "::1", "10.0.0.5", "999.1.1.1", "1.2.3", "::ffff:1.2.3.4", "fe80::1%eth0", "2001:db8::1", "1.2.3.4.5", ":", "[::1]",
		"\x00", "\xff\xfe", "\x7f", "\xc3\xa9", "\xc3", "\xe2\x82", "\xf0\x9f\x98\x80", "a\x00b", "\x80\x81",
		"1' or '1'='1", "<script>alert(1)</script>", "<svg/onload=", "' union select 1,2--", "-- ", "/**/", "1;drop table x", "javascript:alert(1)", "<a href=\"x\" onclick='y'>",
		"%", "%4", "%zz", "%41", "+", "%u0041", "%%", "a%", "%0", "%00",
		"0", "-1", "1e3", "99999999999999999999", " 5 ", "9", "9.5", "+9", "0x9", "-9223372036854775808",
		"/a/1/b", "/x", "a/{id}", "/t/42", "//", "/a//b", "GET", "foo", "bar baz qux", "SELECT", "x", "y", "xyxy", "select"}
	for _, total := range []int{7, 8, 9, 10, 11, 12} {
		for _, d := range []int{0, 1, 7, 8, 9, 10} {
			if d <= total {
				vals = append(vals, digitSep(total, d, '-'), digitSep(total, d, ' '))
			}
		}
	}
	seen := map[string]bool{}
	var out []string
	for _, v := range vals {
		if !seen[v] {
			seen[v] = true
			out = append(out, v)
		}
	}
	return out
}

func (r *runner) generateOpTraffic() {
	values := opTrafficValues()
	per := 16
	for _, o := range tabOperators {
		lo := strings.ToLower(o)
		args, ok := opTrafficArgs[lo]
		if !ok {
			if lo == "rbl" || lo == "inspectfile" {
				continue // network / exec: covered (rarely) by the every-operator family
			}
			args = []string{"", "a", "9", "%{tx.a}"}
		}
		for ai, a := range args {
			for start := 0; start < len(values); start += per {
				end := start + per
				if end > len(values) {
					end = len(values)
				}
				chunk := values[start:end]
				neg := ""
				if (ai+start/per)%3 == 2 {
					neg = "!"
				}
				ct := "application/x-www-form-urlencoded"
				body := "b=1&ssn=219-09-999"
				if lo == "validateschema" {
					ct = "application/json"
					body = r.pick([]string{`{"a":[1]}`, `{"a":1}`, `[`, `{"a":[1],"b":{"c":null}}`})
				}
				c := header + "SecDataset ds1 `\nfoo\nbar\n`\nSecDataset ds2 `\n1.2.3.4\n10.0.0.0/8\n::1\n`\n" +
					"SecAction \"id:1,phase:1,pass,setvar:tx.a=219-09-999,setvar:tx.n=9\"\n" +
					fmt.Sprintf("SecRule ARGS|ARGS_NAMES|REQUEST_HEADERS:X-V|REQUEST_BODY|REQUEST_URI|REMOTE_ADDR|XML:/* \"%s@%s %s\" \"id:10,phase:2,pass,capture,t:none,msg:'%%{tx.0} %%{tx.1} %%{tx.9}',logdata:'%%{matched_var}'\"\n", neg, o, a) +
					fmt.Sprintf("SecRule RESPONSE_BODY|RESPONSE_HEADERS \"@%s %s\" \"id:11,phase:4,pass,t:none\"\n", o, a)
				st := []step{{Op: "conn", A: r.pick([]string{"1.2.3.4", "::1", "10.0.0.5"}), B: "5.6.7.8", N: 1234},
					{Op: "uri", A: enc("/t/42?q=1"), B: "POST"}, {Op: "reqh", A: "Host", B: "h"}, {Op: "reqh", A: "Content-Type", B: ct},
					{Op: "reqh", A: "X-V", B: enc(chunk[0])}}
				for i, v := range chunk {
					st = append(st, step{Op: r.pick([]string{"getarg", "getarg", "postarg"}), A: fmt.Sprintf("a%d", i), B: enc(v)})
				}
				st = append(st, step{Op: "getarg", A: enc(chunk[len(chunk)-1]), B: "name-position"})
				st = append(st, step{Op: "p1"}, step{Op: "reqbody", A: enc(body)}, step{Op: "p2"},
					step{Op: "resh", A: "Content-Type", B: "text/plain"}, step{Op: "resh", A: "X-R", B: enc(chunk[len(chunk)/2])}, step{Op: "p3", N: 200},
					step{Op: "resbody", A: enc(strings.Join(chunk, "\n"))}, step{Op: "p4"}, step{Op: "p5"}, step{Op: "query"})
				r.conf("operator-traffic", c, st)
			}
		}
	}
}
