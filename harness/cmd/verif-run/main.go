// verif-run <Cxx> -tier quick|thorough -seed N -out DIR [-replay FILE] [-corpus DIR]
// Runs the implementation side of the correspondence for one property and writes the Coq
// case shards, the cases' JSON descriptions and result.json into DIR.
package main

import (
	"flag"
	"fmt"
	"os"
	"strings"

	"github.com/corazawaf/coraza/v3/verifharness/vh"
)

func main() {
	if len(os.Args) < 2 {
		fmt.Fprintln(os.Stderr, "usage: verif-run <Cxx> [flags]")
		os.Exit(2)
	}
	prop := strings.ToUpper(os.Args[1])
	fs := flag.NewFlagSet("verif-run", flag.ExitOnError)
	tier := fs.String("tier", "quick", "quick|thorough")
	seed := fs.Int64("seed", 1, "PRNG seed")
	out := fs.String("out", "", "output directory")
	replay := fs.String("replay", "", "replay file")
	corpus := fs.String("corpus", "", "corpus directory of this property")
	_ = fs.Parse(os.Args[2:])
	d, ok := vh.Drivers[prop]
	if !ok {
		fmt.Fprintf(os.Stderr, "no driver for %s\n", prop)
		os.Exit(2)
	}
	if *out == "" {
		fmt.Fprintln(os.Stderr, "-out is required")
		os.Exit(2)
	}
	if err := os.MkdirAll(*out, 0o755); err != nil {
		fmt.Fprintln(os.Stderr, err)
		os.Exit(2)
	}
	cfg := vh.Config{Property: prop, Tier: *tier, Seed: *seed, OutDir: *out, Replay: *replay, Corpus: *corpus}
	res, err := d(cfg)
	if err != nil {
		fmt.Fprintln(os.Stderr, "driver error:", err)
		os.Exit(3)
	}
	res.Property, res.Tier, res.Seed = prop, *tier, *seed
	if err := vh.WriteResult(*out, res); err != nil {
		fmt.Fprintln(os.Stderr, err)
		os.Exit(3)
	}
}
