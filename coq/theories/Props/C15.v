(* Props/C15.v — the property theorems of C15 and nothing else. *)
From Verif Require Import Base Utf8 Operators OperatorsProofs.

Theorem C15_negation_complement : forall r, exec_operator true r = negb (exec_operator false r).
Proof. exact exec_operator_complement. Qed.
Print Assumptions C15_negation_complement.
