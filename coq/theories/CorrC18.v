(* CorrC18.v — correspondence checker for C18: runs Http.wrap_handler on the configuration,
   request and handler the Go harness used and compares with what the real middleware did
   (handler-invoked flag, bytes the handler read, the interruption, the calls that reached the
   downstream ResponseWriter, and what the HTTP client received). *)
From Verif Require Import Base Http.
Open Scope N_scope.

(* the rules the harness installs per phase, as oracles of the model *)
Inductive rspec :=
  | RNone
  | RAlways (a : iaction) (s : N)
  | RContains (m : bytes) (a : iaction) (s : N)     (* REQUEST_BODY / RESPONSE_BODY @contains m *)
  | RStatus (c : N) (a : iaction) (s : N)            (* RESPONSE_STATUS @streq c *)
  | RHeader (k v : bytes) (a : iaction) (s : N)      (* REQUEST_HEADERS:k / RESPONSE_HEADERS:k @streq v *)
  | RTxFlag (a : iaction) (s : N).                   (* phase 4: TX:c18flag @streq 1 (set by a ctl rule that matched) *)

(* a non-disruptive rule of phase 1-3: condition (an rspec whose action is ignored), then
   setvar:tx.c18flag=1 and the ctl actions *)
Inductive cspec :=
  | CNone
  | CRule (cond : rspec) (e : ctl).

(* internal/actions deny.go, drop.go, redirect.go: the interruption a rule with status s records *)
Definition spec_intr (a : iaction) (s : N) : intr :=
  match a with
  | ADeny => mkintr ADeny (if s =? 0 then 403 else s)
  | ADrop => mkintr ADrop s
  | ARedirect => mkintr ARedirect (if (s =? 301) || (s =? 302) || (s =? 303) || (s =? 307) then s else 302)
  end.

Definition eval_spec (sp : rspec) (code : N) (hd : headers) (data : bytes) : option intr :=
  match sp with
  | RNone => None
  | RAlways a s => Some (spec_intr a s)
  | RContains m a s => if is_substring m data then Some (spec_intr a s) else None
  | RStatus c a s => if code =? c then Some (spec_intr a s) else None
  | RHeader k v a s => if existsb (bytes_eqb v) (h_get k hd) then Some (spec_intr a s) else None
  | RTxFlag _ _ => None
  end.

Definition cfired (k : cspec) (code : N) (hd : headers) (data : bytes) : bool :=
  match k with
  | CNone => false
  | CRule cond _ => match eval_spec cond code hd data with Some _ => true | None => false end
  end.
Definition cctl (k : cspec) (code : N) (hd : headers) (data : bytes) : ctl :=
  match k with
  | CRule _ e => if cfired k code hd data then e else ctl_none
  | CNone => ctl_none
  end.

Definition mk_config (eng : engine) (rqa : bool) (rql : N) (rqact : laction)
    (rsa : bool) (rsl : N) (rsact : laction) (mimes : list bytes)
    (p1 p2 p3 p4 : rspec) (k1 k2 k3 : cspec) (reqh : headers) (body : bytes) : config :=
  let e1 := cctl k1 0 reqh [] in
  (* what phase 2 sees, with the access / limit in force after phase 1 *)
  let qacc := match k_qacc e1 with Some b => b | None => rqa end in
  let qlim := match k_qlim e1 with Some n => n | None => rql end in
  let buffered := if qacc then takeN qlim body else [] in
  let flag12 := cfired k1 0 reqh [] || cfired k2 0 reqh buffered in
  mkcfg eng rqa rql rqact rsa rsl rsact mimes
        (eval_spec p1 0 reqh [])
        (fun b => eval_spec p2 0 reqh b)
        (fun c h => eval_spec p3 c h [])
        (fun c h b => match p4 with
                      | RTxFlag a s => if flag12 || cfired k3 c h [] then Some (spec_intr a s) else None
                      | _ => eval_spec p4 c h b
                      end)
        e1
        (fun b => cctl k2 0 reqh b)
        (fun c h => cctl k3 c h []).

Inductive case :=
  | Case (sk : bool) (eng : engine)
         (rqa : bool) (rql : N) (rqact : laction)
         (rsa : bool) (rsl : N) (rsact : laction) (mimes : list bytes)
         (p1 p2 p3 p4 : rspec) (k1 k2 k3 : cspec)
         (reqh : headers) (body : bytes) (ops : list hop)
         (o_invoked : bool) (o_read : bytes)
         (o_intr : option (iaction * N))
         (o_trace : list dev)
         (o_status : N) (o_headers : headers) (o_body : bytes) (o_infos : list N).

Fixpoint list_bytes_eqb (a b : list bytes) : bool :=
  match a, b with
  | [], [] => true
  | x :: a', y :: b' => bytes_eqb x y && list_bytes_eqb a' b'
  | _, _ => false
  end.

Fixpoint list_N_eqb (a b : list N) : bool :=
  match a, b with
  | [], [] => true
  | x :: a', y :: b' => (x =? y) && list_N_eqb a' b'
  | _, _ => false
  end.

Definition h_filter (keys : list bytes) (h : headers) : headers :=
  filter (fun kv => existsb (bytes_eqb (fst kv)) keys && negb (match snd kv with [] => true | _ => false end)) h.

(* order-insensitive comparison of two header maps without duplicate keys *)
Definition h_sub (a b : headers) : bool :=
  forallb (fun kv => list_bytes_eqb (h_get (fst kv) b) (snd kv)) a.
Definition h_equiv (a b : headers) : bool := h_sub a b && h_sub b a.

Definition iaction_eqb (a b : iaction) : bool :=
  match a, b with ADeny, ADeny | ADrop, ADrop | ARedirect, ARedirect => true | _, _ => false end.

Definition intr_obs_eqb (m : option intr) (o : option (iaction * N)) : bool :=
  match m, o with
  | None, None => true
  | Some i, Some (a, s) => iaction_eqb (in_act i) a && (in_status i =? s)
  | _, _ => false
  end.

Definition dev_eqb (tracked : list bytes) (m o : dev) : bool :=
  match m, o with
  | DHeader c h, DHeader c' h' => (c =? c') && h_equiv (h_filter tracked h) h'
  | DBody b, DBody b' => bytes_eqb b b'
  | DFlush, DFlush => true
  | _, _ => false
  end.

Fixpoint trace_eqb (tracked : list bytes) (m o : list dev) : bool :=
  match m, o with
  | [], [] => true
  | x :: m', y :: o' => dev_eqb tracked x y && trace_eqb tracked m' o'
  | _, _ => false
  end.

(* header keys that are compared: those the handler mentions, and Content-Length *)
Fixpoint tracked_of (ops : list hop) : list bytes :=
  match ops with
  | [] => [K_CL]
  | HSet k _ :: r | HAdd k _ :: r | HDel k :: r => k :: tracked_of r
  | _ :: r => tracked_of r
  end.

Definition model_of (c : case) : result :=
  match c with
  | Case sk eng rqa rql rqact rsa rsl rsact mimes p1 p2 p3 p4 k1 k2 k3 reqh body ops _ _ _ _ _ _ _ _ =>
    wrap_handler (mk_config eng rqa rql rqact rsa rsl rsact mimes p1 p2 p3 p4 k1 k2 k3 reqh body) sk body ops
  end.

Definition ok (c : case) : bool :=
  match c with
  | Case sk eng rqa rql rqact rsa rsl rsact mimes p1 p2 p3 p4 k1 k2 k3 reqh body ops
         o_invoked o_read o_intr o_trace o_status o_headers o_body o_infos =>
    let tracked := tracked_of ops in
    let r := model_of c in
    let cl := client_of sk (r_ds r) in
    (* on a real connection Content-Length is net/http's own, and a 304 never carries Content-Type *)
    let ctracked := filter (fun k => negb (bytes_eqb k K_CL) && negb ((cl_status cl =? 304) && bytes_eqb k K_CT)) tracked in
    Bool.eqb (r_invoked r) o_invoked
    && bytes_eqb (r_read r) o_read
    && intr_obs_eqb (r_intr r) o_intr
    && trace_eqb tracked (rev (d_trace (r_ds r))) o_trace
    && (cl_status cl =? o_status)
    && h_equiv (h_filter (if sk then ctracked else tracked) (cl_headers cl)) o_headers
    && bytes_eqb (cl_body cl) o_body
    && list_N_eqb (cl_infos cl) o_infos
  end.

Definition mismatches (l : list case) : list nat := mismatches_of ok l.
