(* EngineBridge3Proofs.v — Flow.v, TxPhase.v and Config.v agree on their common fragments. *)
From Coq Require Import Arith Lia NArith.
From Verif Require Import Base Transform TCache TCacheProofs Flow TxPhase Config EngineBridge3.
Local Open Scope nat_scope.

(* ------------------------------------------------------------------------------------ *)
(* 1. Flow.v simulates the reference evaluation (no guard)                               *)
(* ------------------------------------------------------------------------------------ *)
Definition b3_drop3 (i : option (nat * nat * nat)) : option (nat * nat) :=
  option_map (fun i => (fst (fst i), snd (fst i))) i.
Definition fl_of_x (x : b3_st) : fl_st :=
  Flow.mkSt (x_skip x) (x_after x) (x_allow x) (b3_drop3 (x_intr x)) (b3_drop3 (x_dintr x)) (x_rm x) (x_eng x) (x_ev x).

Lemma is_some_drop3 i : Flow.is_some (b3_drop3 i) = Flow.is_some i.
Proof. destruct i; reflexivity. Qed.

Lemma fl_rid r : Flow.r_id (b3_to_flow r) = b3_rid r.
Proof. unfold b3_to_flow, b3_rid, b3_is_marker. destruct (b_mark r); reflexivity. Qed.
Lemma fl_rphase r : Flow.r_phase (b3_to_flow r) = b3_rphase r.
Proof. unfold b3_to_flow, b3_rphase, b3_is_marker. destruct (b_mark r); reflexivity. Qed.
Lemma fl_rmark r : Flow.r_mark (b3_to_flow r) = b_mark r.
Proof. unfold b3_to_flow. destruct (b_mark r) eqn:E; reflexivity. Qed.

Lemma fl_sim_disr p r x : b_mark r = None ->
  fold_left (fl_apply_act p (b_id r))
    (match b_disr r with BPass => [] | BDeny _ => [Flow.ADeny] | BAllow sc => [Flow.AAllow sc] end) (fl_of_x x)
  = fl_of_x (b3_apply_disr p r x).
Proof.
  intros _. unfold b3_apply_disr. destruct x as [sk af al it di rm en ev].
  destruct (b_disr r) as [|st|sc]; cbn [fold_left fl_apply_act]; [reflexivity| |];
    destruct en, it, di; reflexivity.
Qed.

Lemma fl_sim_flow p id r x :
  fold_left (fl_apply_act p id)
    ((match b_skip r with 0 => [] | n => [Flow.ASkip n] end)
     ++ (match b_after r with Some m => [Flow.ASkipAfter m] | None => [] end)) (fl_of_x x)
  = fl_of_x (b3_apply_flow r x).
Proof. unfold b3_apply_flow. destruct (b_skip r), (b_after r); reflexivity. Qed.

Lemma fl_sim_evaluate p r x :
  fl_evaluate b3_req p (b3_to_flow r) (fl_of_x x) = fl_of_x (b3_evaluate p r x).
Proof.
  unfold b3_evaluate, b3_is_marker, b3_to_flow. destruct (b_mark r) as [m|] eqn:Em.
  { unfold fl_evaluate, fl_marker, fl_of_x, add_ev, fl_link_ctl, add_rm. cbn. rewrite app_nil_r. reflexivity. }
  unfold fl_evaluate. cbn [Flow.r_links Flow.r_acts Flow.r_id fl_walk].
  destruct (b_hit r); cbn [fl_link_matches l_key b3_key b3_req nth]; [|reflexivity].
  unfold b3_chain_ok.
  assert (Hctl : fl_link_ctl (mkLink (b3_key true) (b_rm r) (b_eng r) []) (fl_of_x x)
                 = fl_of_x (match b_eng r with Some e => x_set_eng e (x_add_rm (b_rm r) x) | None => x_add_rm (b_rm r) x end)).
  { unfold fl_link_ctl. cbn [l_rm l_eng]. destruct (b_eng r); reflexivity. }
  rewrite Hctl. set (x2 := match b_eng r with Some e => _ | None => _ end).
  destruct (b_chain r) as [[|]|]; cbn [fl_walk fl_link_matches l_key b3_key b3_req nth]; try reflexivity.
  - unfold fl_link_ctl. cbn [l_rm l_eng].
    replace (add_rm [] (fl_of_x x2)) with (fl_of_x x2) by (unfold add_rm, fl_of_x; cbn; rewrite app_nil_r; reflexivity).
    unfold b3_fl_acts. rewrite fold_left_app, (fl_sim_disr p r _ Em), fl_sim_flow. reflexivity.
  - unfold b3_fl_acts. rewrite fold_left_app, (fl_sim_disr p r _ Em), fl_sim_flow. reflexivity.
Qed.

Lemma fl_sim_allow_break p x : fl_allow_break p (fl_of_x x) = option_map fl_of_x (b3_allow_break p x).
Proof.
  unfold fl_allow_break, b3_allow_break. cbn [fl_of_x Flow.s_allow].
  destruct (x_allow x) as [[| |]|]; try reflexivity.
  - destruct (p =? 1); [reflexivity|]. destruct (p =? 2); reflexivity.
  - destruct (p =? 5); reflexivity.
Qed.

Lemma fl_sim_loop p : forall rs x,
  fl_eval_loop b3_req p (map b3_to_flow rs) (fl_of_x x) = fl_of_x (b3_loop p rs x).
Proof.
  induction rs as [|r rs IH]; intro x; [reflexivity|]. cbn [map fl_eval_loop b3_loop].
  unfold fl_halted, fl_in_phase, fl_removed. rewrite fl_rid, fl_rphase, fl_rmark.
  change (Flow.s_intr (fl_of_x x)) with (b3_drop3 (x_intr x)). rewrite is_some_drop3.
  change (Flow.s_rm (fl_of_x x)) with (x_rm x). change (Flow.s_after (fl_of_x x)) with (x_after x).
  change (Flow.s_skip (fl_of_x x)) with (x_skip x).
  destruct (Flow.is_some (x_intr x) && negb (p =? 5)); [reflexivity|].
  destruct (negb ((b3_rphase r =? 0) || (b3_rphase r =? p))); [apply IH|].
  destruct (existsb (Nat.eqb (b3_rid r)) (x_rm x)); [apply IH|].
  destruct (x_after x) as [m|].
  - destruct (opt_nat_eqb (b_mark r) (Some m)); [apply (IH (x_set_after None x)) | apply IH].
  - destruct (x_skip x) as [|k]; [|apply (IH (x_set_skip k x))].
    rewrite fl_sim_allow_break. destruct (b3_allow_break p x) as [x'|]; [reflexivity|].
    cbn [option_map]. rewrite fl_sim_evaluate. apply IH.
Qed.

Lemma fl_sim_end_phase x : fl_end_phase (fl_of_x x) = fl_of_x (b3_end_phase x).
Proof. unfold fl_end_phase, b3_end_phase. change (Flow.s_allow (fl_of_x x)) with (x_allow x). destruct (x_allow x) as [[| |]|]; reflexivity. Qed.

Lemma fl_sim_phase p rs x : fl_eval_phase b3_req p (map b3_to_flow rs) (fl_of_x x) = fl_of_x (b3_phase p rs x).
Proof. unfold fl_eval_phase, b3_phase. rewrite fl_sim_loop. apply fl_sim_end_phase. Qed.

Lemma fl_sim_guarded rs x p : fl_guarded_phase b3_req (map b3_to_flow rs) (fl_of_x x) p = fl_of_x (b3_guarded rs x p).
Proof.
  unfold fl_guarded_phase, b3_guarded. change (Flow.s_eng (fl_of_x x)) with (x_eng x).
  change (Flow.s_intr (fl_of_x x)) with (b3_drop3 (x_intr x)). rewrite is_some_drop3.
  destruct (fl_is_off (x_eng x)); [reflexivity|]. destruct (Flow.is_some (x_intr x)); [reflexivity|]. apply fl_sim_phase.
Qed.

Lemma fl_sim_run eng rs : b3_run_flow eng rs = fl_of_x (b3_run eng rs).
Proof.
  unfold b3_run_flow, fl_run, b3_run. change (fl_init eng) with (fl_of_x (b3_init eng)).
  cbn [fold_left]. rewrite !fl_sim_guarded. unfold fl_logging, b3_logging.
  set (x4 := b3_guarded rs _ 4). change (Flow.s_eng (fl_of_x x4)) with (x_eng x4).
  destruct (fl_is_off (x_eng x4)); [reflexivity|]. apply fl_sim_phase.
Qed.

(* Flow.v on the translated rules shows the reference observables *)
Theorem b3_flow_is_ref eng rs : b3_obs_flow (b3_run_flow eng rs) = b3_drop_status (b3_obs (b3_run eng rs)).
Proof.
  rewrite fl_sim_run. unfold b3_obs_flow, b3_obs, b3_drop_status, fl_of_x, b3_xintr, b3_drop3. cbn [fst snd Flow.s_ev Flow.s_intr Flow.s_dintr].
  destruct (x_intr (b3_run eng rs)) as [[[a b] c]|], (x_dintr (b3_run eng rs)) as [[[d e] f]|]; reflexivity.
Qed.

(* ------------------------------------------------------------------------------------ *)
(* 2. TxPhase.v simulates the reference evaluation (guard b3_tp_ok)                      *)
(* ------------------------------------------------------------------------------------ *)
Lemma Nat2N_eqb a b : (N.of_nat a =? N.of_nat b)%N = (a =? b).
Proof.
  destruct (Nat.eqb_spec a b) as [->|Hne]; [apply N.eqb_refl|]. apply N.eqb_neq. intro H. apply Nat2N.inj in H. contradiction.
Qed.
Lemma N_ltb0_succ k : (0 <? N.of_nat (S k))%N = true.
Proof. apply N.ltb_lt. lia. Qed.
Lemma N_succ_pred k : (N.of_nat (S k) - 1)%N = N.of_nat k.
Proof. lia. Qed.
Lemma N_status st : (if (N.of_nat st =? 0)%N then 403%N else N.of_nat st) = N.of_nat (b3_status st).
Proof. unfold b3_status. change 0%N with (N.of_nat 0). rewrite Nat2N_eqb. destruct (st =? 0); reflexivity. Qed.

Definition tp_mk_intr (i : nat * nat * nat) : tp_intr := mkIntr (N.of_nat (snd (fst i))) KDeny (N.of_nat (snd i)) [].
Definition tp_of_x (x : b3_st) (last : N) (tr : list tp_event) : tp_state :=
  TxPhase.mkSt last (b3_tp_mode (x_eng x)) (option_map tp_mk_intr (x_intr x)) (option_map tp_mk_intr (x_dintr x))
    (option_map b3_tp_scope (x_allow x)) (N.of_nat (x_skip x)) (option_map N.of_nat (x_after x))
    0%Z 0%Z false false false false tr.

(* the ghost history of TxPhase.v shows the evaluations of the reference trace *)
Definition tp_inv (x : b3_st) (tr : list tp_event) : Prop := b3_tp_evs tr = b3_rule_evs (x_ev x).

Lemma b3_tp_evs_app a b : b3_tp_evs (a ++ b) = b3_tp_evs a ++ b3_tp_evs b.
Proof. induction a as [|e a IH]; [reflexivity|]. destruct e; cbn [app b3_tp_evs]; rewrite IH; reflexivity. Qed.
Lemma b3_rule_evs_app a b : b3_rule_evs (a ++ b) = b3_rule_evs a ++ b3_rule_evs b.
Proof. unfold b3_rule_evs. rewrite filter_app, map_app. reflexivity. Qed.

Lemma tp_inv_rule x tr p r st (m : bool) ev' : tp_inv x tr -> x_ev ev' = x_ev x ++ [Ev p (b_id r) m] ->
  b_mark r = None -> b_id r <> 0 -> m = (match st with RFired _ => true | _ => false end) ->
  tp_inv ev' (tr ++ [EvRule (N.of_nat p) (b3_to_tp r) st]).
Proof.
  unfold tp_inv. intros Hi He Hm Hid ->. rewrite He, b3_tp_evs_app, b3_rule_evs_app, Hi. f_equal.
  unfold b3_rule_evs. cbn [filter ev_id b3_tp_evs]. apply Nat.eqb_neq in Hid. rewrite Hid. cbn [negb map b3_ev_triple ev_phase ev_id ev_matched].
  unfold b3_to_tp. rewrite Hm. cbn [TxPhase.r_id]. rewrite !Nat2N.id. reflexivity.
Qed.

Lemma tp_sim_dact p r x last tr : b_mark r = None ->
  tp_exec_dact (b3_to_tp r) (tp_of_x x last tr) = tp_of_x (b3_apply_disr p r x) last tr.
Proof.
  intro Hm. destruct r as [mk id ph hit ch eng rm sk af d]. cbn in Hm. subst mk.
  unfold tp_exec_dact, tp_intr_of, b3_to_tp, b3_apply_disr.
  cbn [b_mark b_disr b_id TxPhase.r_act TxPhase.r_status TxPhase.r_id].
  destruct x as [xs xa xl xi xd xr xe xv]. destruct d as [|st|sc].
  - reflexivity.
  - rewrite N_status. unfold tp_interrupt, tp_of_x. cbn. destruct xe, xi, xd; reflexivity.
  - unfold tp_allow, tp_of_x. cbn. destruct xe; reflexivity.
Qed.

Lemma tp_sim_flow r x last tr : b_mark r = None ->
  tp_exec_flow (b3_to_tp r) (tp_of_x x last tr) = tp_of_x (b3_apply_flow r x) last tr.
Proof.
  intro Hm. destruct r as [mk id ph hit ch eng rm sk af d]. cbn in Hm. subst mk.
  unfold tp_exec_flow, b3_to_tp, b3_apply_flow. cbn [b_mark b_skip b_after TxPhase.r_skip TxPhase.r_skipafter].
  destruct sk as [|k]; [|rewrite N_ltb0_succ]; destruct af; reflexivity.
Qed.

Lemma b3_evaluate_rm p r x : b_rm r = [] -> x_rm (b3_evaluate p r x) = x_rm x.
Proof.
  intro Hr. destruct r as [mk id ph hit ch eng rm sk af d]. cbn in Hr. subst rm. destruct x as [xs xa xl xi xd xr xe xv].
  unfold b3_evaluate, b3_is_marker, b3_chain_ok, b3_apply_disr, b3_apply_flow. cbn [b_mark b_hit b_chain b_eng b_rm b_skip b_after b_disr b_id].
  destruct mk; [reflexivity|]. destruct hit; [|reflexivity].
  destruct ch as [[|]|], eng as [[| |]|], sk, af, d as [| |sc], xe, xi, xd; cbn; rewrite ?app_nil_r; reflexivity.
Qed.

Lemma tp_is_some_map {A B} (f : A -> B) o : TxPhase.is_some (option_map f o) = Flow.is_some o.
Proof. destruct o; reflexivity. Qed.

Lemma tp_rphase r : TxPhase.r_phase (b3_to_tp r) = N.of_nat (b3_rphase r).
Proof. unfold b3_to_tp, b3_rphase, b3_is_marker. destruct (b_mark r); reflexivity. Qed.
Lemma tp_rmark r : TxPhase.r_mark (b3_to_tp r) = option_map N.of_nat (b_mark r).
Proof. unfold b3_to_tp. destruct (b_mark r); reflexivity. Qed.

Lemma x_ev_disr p r x : x_ev (b3_apply_disr p r x) = x_ev x.
Proof. unfold b3_apply_disr. destruct (b_disr r), (x_eng x), (Flow.is_some (x_intr x)), (Flow.is_some (x_dintr x)); reflexivity. Qed.
Lemma x_ev_flow r x : x_ev (b3_apply_flow r x) = x_ev x.
Proof. unfold b3_apply_flow. destruct (b_skip r), (b_after r); reflexivity. Qed.

(* Rule.Evaluate *)
Lemma tp_sim_eval p r x last tr : b_mark r = None -> b_id r <> 0 -> tp_inv x tr ->
  exists tr', tp_eval_rule (N.of_nat p) (b3_to_tp r) (tp_of_x x last tr) = tp_of_x (b3_evaluate p r x) last tr'
              /\ tp_inv (b3_evaluate p r x) tr'.
Proof.
  intros Hm Hid Hinv. unfold tp_eval_rule, b3_evaluate, b3_is_marker. rewrite Hm.
  assert (Hcond : TxPhase.r_cond (b3_to_tp r) = b3_tp_cond (b_hit r)) by (unfold b3_to_tp; rewrite Hm; reflexivity).
  assert (Hchain : TxPhase.r_chain (b3_to_tp r) = option_map b3_tp_cond (b_chain r)) by (unfold b3_to_tp; rewrite Hm; reflexivity).
  assert (Hctl : TxPhase.r_ctl (b3_to_tp r) = option_map b3_tp_mode (b_eng r)) by (unfold b3_to_tp; rewrite Hm; reflexivity).
  assert (Hnz : negb (b_id r =? 0) = true) by (apply negb_true_iff, Nat.eqb_neq; exact Hid).
  rewrite Hcond, Hchain, Hctl.
  destruct (b_hit r); cbn [b3_tp_cond tp_holds].
  - set (x2 := match b_eng r with Some e => x_set_eng e (x_add_rm (b_rm r) x) | None => x_add_rm (b_rm r) x end).
    assert (Hs1 : match option_map b3_tp_mode (b_eng r) with
                  | Some m => set_engine (tp_of_x x last tr) m | None => tp_of_x x last tr end = tp_of_x x2 last tr).
    { subst x2. destruct (b_eng r); reflexivity. }
    rewrite Hs1.
    assert (Hev2 : x_ev x2 = x_ev x). { subst x2. destruct (b_eng r); reflexivity. }
    assert (Heng2 : TxPhase.st_engine (tp_of_x x2 last tr) = b3_tp_mode (x_eng x2)) by reflexivity.
    unfold b3_chain_ok. destruct (b_chain r) as [[|]|]; cbn [option_map b3_tp_cond tp_holds].
    + rewrite (tp_sim_dact p r x2 last tr Hm), (tp_sim_flow r _ last tr Hm).
      eexists. split; [reflexivity|].
      eapply (tp_inv_rule x); [exact Hinv| |exact Hm|exact Hid|reflexivity].
      cbn [x_add_ev x_ev]. rewrite x_ev_flow, x_ev_disr, Hev2, Hnz. reflexivity.
    + eexists. split; [reflexivity|].
      eapply (tp_inv_rule x); [exact Hinv| |exact Hm|exact Hid|reflexivity].
      cbn [x_add_ev x_ev]. rewrite Hev2. reflexivity.
    + rewrite (tp_sim_dact p r x2 last tr Hm), (tp_sim_flow r _ last tr Hm).
      eexists. split; [reflexivity|].
      eapply (tp_inv_rule x); [exact Hinv| |exact Hm|exact Hid|reflexivity].
      cbn [x_add_ev x_ev]. rewrite x_ev_flow, x_ev_disr, Hev2, Hnz. reflexivity.
  - eexists. split; [reflexivity|].
    eapply (tp_inv_rule x); [exact Hinv| |exact Hm|exact Hid|reflexivity]. reflexivity.
Qed.

Lemma tp_inv_marker x tr p : tp_inv x tr -> tp_inv (x_add_ev (Ev p 0 false) x) tr.
Proof. unfold tp_inv. intro H. cbn [x_add_ev x_ev]. rewrite b3_rule_evs_app, H. unfold b3_rule_evs at 2. cbn. rewrite app_nil_r. reflexivity. Qed.

Lemma b3_tp_ok_cases r : b3_tp_ok r = true ->
  (exists m, b_mark r = Some m) \/ (b_mark r = None /\ b_id r <> 0 /\ b_rm r = []).
Proof.
  unfold b3_tp_ok, b3_is_marker. destruct (b_mark r) as [m|]; [left; eauto|]. cbn [orb]. intro H.
  apply andb_true_iff in H as [H1 H2]. right. split; [reflexivity|]. split.
  - apply negb_true_iff, Nat.eqb_neq in H1. exact H1.
  - destruct (b_rm r); [reflexivity | discriminate].
Qed.

Lemma b3_evaluate_rm_ok p r x : b3_tp_ok r = true -> x_rm (b3_evaluate p r x) = x_rm x.
Proof.
  intro H. destruct (b3_tp_ok_cases r H) as [[m Hm]|(Hm & _ & Hr)].
  - unfold b3_evaluate, b3_is_marker. rewrite Hm. reflexivity.
  - apply b3_evaluate_rm. exact Hr.
Qed.

(* the RulesLoop *)
Lemma tp_sim_loop p last : forall rs x tr, forallb b3_tp_ok rs = true -> x_rm x = [] -> tp_inv x tr ->
  exists tr', tp_eval_loop (N.of_nat p) (map b3_to_tp rs) (tp_of_x x last tr) = tp_of_x (b3_loop p rs x) last tr'
              /\ tp_inv (b3_loop p rs x) tr' /\ x_rm (b3_loop p rs x) = [].
Proof.
  induction rs as [|r rs IH]; intros x tr Hok Hrm Hinv.
  { exists tr. repeat split; assumption. }
  cbn [forallb] in Hok. apply andb_true_iff in Hok as [Hr Hrs]. cbn [map tp_eval_loop b3_loop].
  change (TxPhase.st_intr (tp_of_x x last tr)) with (option_map tp_mk_intr (x_intr x)). rewrite tp_is_some_map.
  change 5%N with (N.of_nat 5). rewrite Nat2N_eqb.
  destruct (Flow.is_some (x_intr x) && negb (p =? 5)).
  { exists tr. repeat split; assumption. }
  rewrite tp_rphase. change 0%N with (N.of_nat 0) at 1. rewrite !Nat2N_eqb.
  destruct (negb ((b3_rphase r =? 0) || (b3_rphase r =? p))); [apply IH; assumption|].
  rewrite Hrm. cbn [existsb].
  change (st_skipafter (tp_of_x x last tr)) with (option_map N.of_nat (x_after x)).
  destruct (x_after x) as [m|] eqn:Ea; cbn [option_map].
  - assert (Hmk : tp_mark_eqb (TxPhase.r_mark (b3_to_tp r)) (N.of_nat m) = opt_nat_eqb (b_mark r) (Some m)).
    { rewrite tp_rmark. destruct (b_mark r); cbn [option_map tp_mark_eqb opt_nat_eqb]; [apply Nat2N_eqb | reflexivity]. }
    rewrite Hmk. destruct (opt_nat_eqb (b_mark r) (Some m)).
    + assert (E : set_flow (tp_of_x x last tr) (TxPhase.st_skip (tp_of_x x last tr)) None = tp_of_x (x_set_after None x) last tr) by reflexivity.
      rewrite E. apply IH; assumption.
    + apply IH; assumption.
  - change (TxPhase.st_skip (tp_of_x x last tr)) with (N.of_nat (x_skip x)).
    destruct (x_skip x) as [|k] eqn:Ek.
    + change (0 <? N.of_nat 0)%N with false. cbv iota.
      change (TxPhase.st_allow (tp_of_x x last tr)) with (option_map b3_tp_scope (x_allow x)).
      (* the evaluation of the entry and the rest of the loop *)
      assert (Hgo : exists tr', tp_eval_loop (N.of_nat p) (map b3_to_tp rs)
                      (if TxPhase.is_some (TxPhase.r_mark (b3_to_tp r)) then tp_of_x x last tr
                       else tp_eval_rule (N.of_nat p) (b3_to_tp r) (tp_of_x x last tr))
                    = tp_of_x (b3_loop p rs (b3_evaluate p r x)) last tr'
                    /\ tp_inv (b3_loop p rs (b3_evaluate p r x)) tr' /\ x_rm (b3_loop p rs (b3_evaluate p r x)) = []).
      { pose proof (b3_evaluate_rm_ok p r x Hr) as Hrm'. rewrite Hrm in Hrm'.
        destruct (b3_tp_ok_cases r Hr) as [[m Hm]|(Hm & Hid & _)].
        - rewrite tp_rmark, Hm. cbn [option_map TxPhase.is_some].
          assert (Hev : b3_evaluate p r x = x_add_ev (Ev p 0 false) x) by (unfold b3_evaluate, b3_is_marker; rewrite Hm; reflexivity).
          rewrite Hev in *. apply (IH (x_add_ev (Ev p 0 false) x) tr Hrs Hrm'). apply tp_inv_marker. exact Hinv.
        - rewrite tp_rmark, Hm. cbn [option_map TxPhase.is_some].
          destruct (tp_sim_eval p r x last tr Hm Hid Hinv) as (tr1 & E1 & I1). rewrite E1.
          apply (IH _ tr1 Hrs Hrm' I1). }
      unfold b3_allow_break. destruct (x_allow x) as [[| |]|] eqn:El; cbn [option_map b3_tp_scope].
      * exists tr. repeat split; assumption.
      * change 1%N with (N.of_nat 1). change 2%N with (N.of_nat 2). rewrite !Nat2N_eqb.
        destruct (p =? 1); [exists tr; repeat split; assumption|].
        destruct (p =? 2); [|exact Hgo].
        exists tr. split; [|split; assumption]. unfold tp_of_x, TxPhase.set_allow. cbn. rewrite Ea, Ek. reflexivity.
      * rewrite ?Nat2N_eqb. destruct (p =? 5); [exact Hgo|]. exists tr. repeat split; assumption.
      * exact Hgo.
    + rewrite N_ltb0_succ.
      assert (E : set_flow (tp_of_x x last tr) (N.of_nat (S k) - 1) None = tp_of_x (x_set_skip k x) last tr).
      { rewrite N_succ_pred. unfold tp_of_x, set_flow. cbn. rewrite Ea. reflexivity. }
      rewrite E. apply IH; assumption.
Qed.

Lemma tp_inv_phase x tr p : tp_inv x tr -> tp_inv x (tr ++ [EvPhase p]).
Proof. unfold tp_inv. intro H. rewrite b3_tp_evs_app, H. cbn. apply app_nil_r. Qed.

Lemma tp_sim_phase eng p rs x last tr : forallb b3_tp_ok rs = true -> x_rm x = [] -> tp_inv x tr ->
  exists tr', tp_eval_phase (b3_tp_cfg eng rs) (N.of_nat p) (tp_of_x x last tr) = tp_of_x (b3_phase p rs x) (N.of_nat p) tr'
              /\ tp_inv (b3_phase p rs x) tr' /\ x_rm (b3_phase p rs x) = [].
Proof.
  intros Hok Hrm Hinv. unfold tp_eval_phase, b3_phase. cbn [b3_tp_cfg c_rules].
  assert (E1 : add_event (set_last (tp_of_x x last tr) (N.of_nat p)) (EvPhase (N.of_nat p))
               = tp_of_x x (N.of_nat p) (tr ++ [EvPhase (N.of_nat p)])) by reflexivity.
  rewrite E1.
  destruct (tp_sim_loop p (N.of_nat p) rs x _ Hok Hrm (tp_inv_phase x tr (N.of_nat p) Hinv)) as (tr' & E & I & R).
  rewrite E. set (y := b3_loop p rs x) in *. exists tr'. split; [|split].
  - unfold b3_end_phase. change (TxPhase.st_allow (tp_of_x y (N.of_nat p) tr')) with (option_map b3_tp_scope (x_allow y)).
    destruct (x_allow y) as [[| |]|]; reflexivity.
  - unfold b3_end_phase, tp_inv in *. destruct (x_allow y) as [[| |]|]; exact I.
  - unfold b3_end_phase. destruct (x_allow y) as [[| |]|]; exact R.
Qed.

Lemma tp_is_off x last tr : TxPhase.is_off (tp_of_x x last tr) = fl_is_off (x_eng x).
Proof. unfold TxPhase.is_off. cbn. destruct (x_eng x); reflexivity. Qed.

(* where a transaction stands before the call for phase k+1 *)
Definition tp_ready (x : b3_st) (last : N) (k : nat) : Prop :=
  last = N.of_nat k \/ fl_is_off (x_eng x) = true \/ Flow.is_some (x_intr x) = true.

Section Calls.
Variable eng : fl_mode.
Variable rs : list b3_rule.
Hypothesis Hok : forallb b3_tp_ok rs = true.
Notation c := (b3_tp_cfg eng rs).

Definition tp_post (p : nat) (x : b3_st) (res : tp_state) : Prop :=
  exists last' tr', res = tp_of_x (b3_guarded rs x p) last' tr' /\ tp_inv (b3_guarded rs x p) tr'
                    /\ x_rm (b3_guarded rs x p) = [] /\ tp_ready (b3_guarded rs x p) last' p.

Lemma tp_post_skip p x last tr : x_rm x = [] -> tp_inv x tr ->
  fl_is_off (x_eng x) = true \/ Flow.is_some (x_intr x) = true ->
  tp_post p x (tp_of_x x last tr).
Proof.
  intros Hrm Hinv H. assert (E : b3_guarded rs x p = x).
  { unfold b3_guarded. destruct H as [-> | H]; [reflexivity|]. rewrite H. destruct (fl_is_off (x_eng x)); reflexivity. }
  exists last, tr. rewrite E. repeat split; try assumption. right. exact H.
Qed.

Lemma tp_post_eval p x last tr : x_rm x = [] -> tp_inv x tr ->
  fl_is_off (x_eng x) = false -> Flow.is_some (x_intr x) = false ->
  tp_post p x (tp_eval_phase c (N.of_nat p) (tp_of_x x last tr)).
Proof.
  intros Hrm Hinv Hoff Hi. destruct (tp_sim_phase eng p rs x last tr Hok Hrm Hinv) as (tr' & E & I & R).
  assert (Eg : b3_guarded rs x p = b3_phase p rs x) by (unfold b3_guarded; rewrite Hoff, Hi; reflexivity).
  exists (N.of_nat p), tr'. rewrite Eg, E. repeat split; try assumption. left. reflexivity.
Qed.

Ltac tp_call_tac x last tr Hrm Hinv :=
  rewrite ?tp_is_off;
  change (TxPhase.st_intr (tp_of_x x last tr)) with (option_map tp_mk_intr (x_intr x)); rewrite ?tp_is_some_map;
  change (TxPhase.st_last (tp_of_x x last tr)) with last.

Lemma tp_call_prh x last tr : x_rm x = [] -> tp_inv x tr -> tp_ready x last 0 ->
  tp_post 1 x (fst (tp_step c (tp_of_x x last tr) KPRH)).
Proof.
  intros Hrm Hinv Hr. cbn [tp_step]. unfold tp_prh. tp_call_tac x last tr Hrm Hinv.
  destruct (fl_is_off (x_eng x)) eqn:Eo; [apply tp_post_skip; auto|].
  destruct (Flow.is_some (x_intr x)) eqn:Ei.
  - destruct (1 <=? last)%N; apply tp_post_skip; auto.
  - destruct Hr as [-> | [H|H]]; [|congruence|congruence]. cbn [N.of_nat N.leb N.compare fst].
    apply (tp_post_eval 1); assumption.
Qed.

Lemma tp_call_prb x last tr : x_rm x = [] -> tp_inv x tr -> tp_ready x last 1 ->
  tp_post 2 x (fst (tp_step c (tp_of_x x last tr) KPRB)).
Proof.
  intros Hrm Hinv Hr. cbn [tp_step]. unfold tp_prb. tp_call_tac x last tr Hrm Hinv.
  destruct (fl_is_off (x_eng x)) eqn:Eo; [apply tp_post_skip; auto|].
  destruct (Flow.is_some (x_intr x)) eqn:Ei; [apply tp_post_skip; auto|].
  destruct Hr as [-> | [H|H]]; [|congruence|congruence]. cbn [N.of_nat Pos.of_succ_nat N.eqb Pos.eqb negb fst].
  apply (tp_post_eval 2); assumption.
Qed.

Lemma tp_call_presph x last tr : x_rm x = [] -> tp_inv x tr -> tp_ready x last 2 ->
  tp_post 3 x (fst (tp_step c (tp_of_x x last tr) KPRespH)).
Proof.
  intros Hrm Hinv Hr. cbn [tp_step]. unfold tp_presph. tp_call_tac x last tr Hrm Hinv.
  destruct (fl_is_off (x_eng x)) eqn:Eo; [apply tp_post_skip; auto|].
  destruct (Flow.is_some (x_intr x)) eqn:Ei.
  - destruct (3 <=? last)%N; apply tp_post_skip; auto.
  - destruct Hr as [-> | [H|H]]; [|congruence|congruence]. change (3 <=? N.of_nat 2)%N with false. cbv iota. cbn [fst].
    apply (tp_post_eval 3); assumption.
Qed.

Lemma tp_call_prespb x last tr : x_rm x = [] -> tp_inv x tr -> tp_ready x last 3 ->
  tp_post 4 x (fst (tp_step c (tp_of_x x last tr) KPRespB)).
Proof.
  intros Hrm Hinv Hr. cbn [tp_step]. unfold tp_prespb. tp_call_tac x last tr Hrm Hinv.
  destruct (fl_is_off (x_eng x)) eqn:Eo; [apply tp_post_skip; auto|].
  destruct (Flow.is_some (x_intr x)) eqn:Ei; [apply tp_post_skip; auto|].
  destruct Hr as [-> | [H|H]]; [|congruence|congruence]. change (negb (N.of_nat 3 =? 3)%N) with false. cbv iota. cbn [fst].
  apply (tp_post_eval 4); assumption.
Qed.

Theorem tp_sim_run : exists last tr, b3_run_tp eng rs = tp_of_x (b3_run eng rs) last tr /\ tp_inv (b3_run eng rs) tr.
Proof.
  unfold b3_run_tp, tp_run, tp_run_from, b3_tp_calls, b3_run. cbn [fold_left].
  assert (E0 : tp_init c = tp_of_x (b3_init eng) 0%N []) by reflexivity. rewrite E0.
  destruct (tp_call_prh (b3_init eng) 0%N [] eq_refl eq_refl (or_introl eq_refl)) as (l1 & t1 & E1 & I1 & R1 & D1). rewrite E1.
  destruct (tp_call_prb _ l1 t1 R1 I1 D1) as (l2 & t2 & E2 & I2 & R2 & D2). rewrite E2.
  destruct (tp_call_presph _ l2 t2 R2 I2 D2) as (l3 & t3 & E3 & I3 & R3 & D3). rewrite E3.
  destruct (tp_call_prespb _ l3 t3 R3 I3 D3) as (l4 & t4 & E4 & I4 & R4 & D4). rewrite E4.
  set (x4 := b3_guarded rs _ 4) in *. cbn [tp_step fst]. unfold tp_log, b3_logging. rewrite tp_is_off.
  destruct (fl_is_off (x_eng x4)); [exists l4, t4; split; [reflexivity | exact I4]|].
  destruct (tp_sim_phase eng 5 rs x4 l4 t4 Hok R4 I4) as (tr' & E & I & _).
  exists (N.of_nat 5), tr'. split; [exact E | exact I].
Qed.
End Calls.

(* TxPhase.v on the translated rules shows the reference observables *)
Theorem b3_tp_is_ref eng rs : forallb b3_tp_ok rs = true -> b3_obs_tp (b3_run_tp eng rs) = b3_obs (b3_run eng rs).
Proof.
  intro Hok. destruct (tp_sim_run eng rs Hok) as (last & tr & E & I). rewrite E.
  unfold b3_obs_tp, b3_obs, tp_of_x. cbn [st_trace TxPhase.st_intr st_dintr]. rewrite I. f_equal; [f_equal|].
  - destruct (x_intr (b3_run eng rs)) as [[[a b] d]|]; cbn; [rewrite !Nat2N.id|]; reflexivity.
  - destruct (x_dintr (b3_run eng rs)) as [[[a b] d]|]; cbn; [rewrite !Nat2N.id|]; reflexivity.
Qed.

(* ---- Flow.v and TxPhase.v agree ---- *)
Theorem b3_flow_tp_agree eng rs : forallb b3_tp_ok rs = true ->
  b3_obs_flow (b3_run_flow eng rs) = b3_drop_status (b3_obs_tp (b3_run_tp eng rs)).
Proof. intro Hok. rewrite b3_flow_is_ref, b3_tp_is_ref by exact Hok. reflexivity. Qed.

(* ------------------------------------------------------------------------------------ *)
(* 3. Config.v simulates the reference evaluation (guard b3_cf_ok, engine On)            *)
(* ------------------------------------------------------------------------------------ *)
Definition cf_name (a : option nat) : bytes := match a with Some m => b3_mname m | None => [] end.
Definition cf_mk_intr (i : nat * nat * nat) : Config.intr := (N.of_nat (snd i), N.of_nat (snd (fst i)), Config.DDeny).
Definition cf_of_x (x : b3_st) (mt : list (N * list md)) : txst :=
  Config.mkSt (map N.of_nat (x_rm x)) [] [] (cf_name (x_after x)) (option_map cf_mk_intr (x_intr x)) mt (N.of_nat (x_skip x)).

Definition cf_inv (x : b3_st) (mt : list (N * list md)) : Prop :=
  map (fun m => N.to_nat (fst m)) mt = b3_matched_ids (b3_rule_evs (x_ev x)) /\ x_allow x = None /\ x_eng x = Flow.MOn.

Lemma b3_mname_eqb a b : bytes_eqb (b3_mname a) (b3_mname b) = (a =? b).
Proof.
  destruct (Nat.eqb_spec a b) as [->|Hne]; [apply bytes_eqb_refl|]. apply bytes_eqb_neq. unfold b3_mname. intro H.
  injection H as H. apply itp_itoa_inj in H. apply Nat2N.inj in H. contradiction.
Qed.

Section Cf.
Variable rx : bytes -> bytes -> bool.
Variable rq : request.

Lemma cf_link_matches hit nd ds fl st : link_matches rx (b3_cf_link hit nd ds fl st) [] rq = if hit then [(VMethod, [], rq_method rq)] else [].
Proof. destruct hit; reflexivity. Qed.

Lemma cf_is_removed x mt id : is_removed (cf_of_x x mt) (N.of_nat id) = existsb (Nat.eqb id) (x_rm x).
Proof.
  unfold is_removed. cbn [cf_of_x Config.st_rm st_rng existsb]. rewrite orb_false_r.
  induction (x_rm x) as [|a l IH]; [reflexivity|]. cbn [map existsb]. rewrite Nat2N_eqb, IH. reflexivity.
Qed.

Lemma cf_run_nd rules mt : forall rm x,
  run_nd rules (map (fun n => CRmId (IdOne (N.of_nat n))) rm) (cf_of_x x mt) = cf_of_x (x_add_rm rm x) mt.
Proof.
  unfold run_nd. induction rm as [|n rm IH]; intro x; cbn [map fold_left].
  - unfold cf_of_x, x_add_rm. cbn. rewrite app_nil_r. reflexivity.
  - assert (E : cf_ctl_step rules (CRmId (IdOne (N.of_nat n))) (cf_of_x x mt) = cf_of_x (x_add_rm [n] x) mt).
    { unfold cf_of_x, x_add_rm, st_add_rm. cbn. rewrite map_app. reflexivity. }
    rewrite E, IH. unfold cf_of_x, x_add_rm. cbn. rewrite <- app_assoc. reflexivity.
Qed.
End Cf.

Lemma b3_cf_ok_cases r : b3_cf_ok r = true ->
  (exists m, b_mark r = Some m) \/
  (b_mark r = None /\ b_id r <> 0 /\ (b_phase r = 1 \/ b_phase r = 2) /\ b_eng r = None /\
   (b_disr r = BPass \/ exists st, b_disr r = BDeny st)).
Proof.
  unfold b3_cf_ok, b3_is_marker. destruct (b_mark r) as [m|]; [left; eauto|]. cbn [orb]. intro H.
  repeat (apply andb_true_iff in H as [H ?]). right. split; [reflexivity|].
  split; [apply negb_true_iff, Nat.eqb_neq in H; exact H|]. split.
  - apply orb_true_iff in H2 as [E|E]; apply Nat.eqb_eq in E; auto.
  - split; [destruct (b_eng r); [discriminate | reflexivity]|]. destruct (b_disr r); [left; reflexivity | right; eauto | discriminate].
Qed.

Lemma b3_matched_ids_app a b : b3_matched_ids (a ++ b) = b3_matched_ids a ++ b3_matched_ids b.
Proof. unfold b3_matched_ids. rewrite filter_app, map_app. reflexivity. Qed.

Lemma cf_inv_ext x y mt : x_ev y = x_ev x -> x_allow y = x_allow x -> x_eng y = x_eng x -> cf_inv x mt -> cf_inv y mt.
Proof. unfold cf_inv. intros -> -> ->. tauto. Qed.

Lemma cf_inv_unmatched x mt e : cf_inv x mt -> ev_matched e = false -> cf_inv (x_add_ev e x) mt.
Proof.
  intros (I1 & I2 & I3) He. split; [|split; assumption]. cbn [x_add_ev x_ev].
  rewrite b3_rule_evs_app, b3_matched_ids_app, <- I1. unfold b3_rule_evs, b3_matched_ids. cbn [filter].
  destruct (negb (ev_id e =? 0)); cbn [map filter b3_ev_triple snd]; rewrite ?He; cbn; rewrite app_nil_r; reflexivity.
Qed.

Lemma cf_inv_matched x mt p id ms : cf_inv x mt -> id <> 0 ->
  cf_inv (x_add_ev (Ev p id true) x) (mt ++ [(N.of_nat id, ms)]).
Proof.
  intros (I1 & I2 & I3) Hid. split; [|split; assumption]. cbn [x_add_ev x_ev].
  rewrite b3_rule_evs_app, b3_matched_ids_app, map_app, I1. f_equal.
  unfold b3_rule_evs, b3_matched_ids. cbn [filter ev_id]. apply Nat.eqb_neq in Hid. rewrite Hid. cbn. rewrite Nat2N.id. reflexivity.
Qed.

Lemma x_disr_fields p r x : (b_disr r = BPass \/ exists st, b_disr r = BDeny st) ->
  x_ev (b3_apply_disr p r x) = x_ev x /\ x_allow (b3_apply_disr p r x) = x_allow x /\ x_eng (b3_apply_disr p r x) = x_eng x.
Proof.
  unfold b3_apply_disr. intros [-> | [st ->]]; [repeat split; reflexivity|].
  destruct x as [xs xa xl xi xd xr xe xv]. destruct xe, xi, xd; repeat split; reflexivity.
Qed.
Lemma x_flow_fields r x :
  x_ev (b3_apply_flow r x) = x_ev x /\ x_allow (b3_apply_flow r x) = x_allow x /\ x_eng (b3_apply_flow r x) = x_eng x.
Proof. unfold b3_apply_flow. destruct (b_skip r), (b_after r); repeat split; reflexivity. Qed.

Section Cf2.
Variable rx : bytes -> bytes -> bool.
Variable rq : request.
Variable rules : list crule.

Lemma cf_sim_marker p m r x mt : b_mark r = Some m -> cf_inv x mt ->
  eval_rule rx rules (b3_to_cf r) rq (cf_of_x x mt) = cf_of_x (b3_evaluate p r x) mt /\ cf_inv (b3_evaluate p r x) mt.
Proof.
  intros Hm (I1 & I2 & I3). unfold b3_to_cf, b3_evaluate, b3_is_marker. rewrite Hm. split; [reflexivity|].
  split; [|split; assumption]. cbn [x_add_ev x_ev]. rewrite b3_rule_evs_app, b3_matched_ids_app, I1. cbn. rewrite app_nil_r. reflexivity.
Qed.

Lemma cf_link_nd h nd ds fl st : cl_nd (b3_cf_link h nd ds fl st) = nd. Proof. reflexivity. Qed.
Lemma cf_link_disr h nd ds fl st : cl_disr (b3_cf_link h nd ds fl st) = ds. Proof. reflexivity. Qed.
Lemma cf_link_flow h nd ds fl st : cl_flow (b3_cf_link h nd ds fl st) = fl. Proof. reflexivity. Qed.
Lemma cf_link_status h nd ds fl st : cl_status (b3_cf_link h nd ds fl st) = st. Proof. reflexivity. Qed.

(* the disruptive and flow actions of the starter *)
Lemma cf_sim_acts p r x mt : b_mark r = None -> x_eng x = Flow.MOn ->
  (b_disr r = BPass \/ exists st, b_disr r = BDeny st) ->
  fold_left (fun s f => exec_flow f s) (b3_cf_flow r)
    (fold_left (fun s d => exec_disr (N.of_nat (b_id r)) (match b_disr r with BDeny st => N.of_nat st | _ => 0%N end) d s)
               (match b_disr r with BDeny _ => [Config.DDeny] | _ => [Config.DPass] end) (cf_of_x x mt))
  = cf_of_x (b3_apply_flow r (b3_apply_disr p r x)) mt.
Proof.
  intros Hm He Hd. unfold b3_apply_disr. rewrite He.
  assert (E1 : fold_left (fun s d => exec_disr (N.of_nat (b_id r)) (match b_disr r with BDeny st => N.of_nat st | _ => 0%N end) d s)
               (match b_disr r with BDeny _ => [Config.DDeny] | _ => [Config.DPass] end) (cf_of_x x mt)
             = cf_of_x (match b_disr r with
                        | BPass => x
                        | BDeny st => if Flow.is_some (x_intr x) then x else x_set_intr (Some (p, b_id r, b3_status st)) x
                        | BAllow sc => x_set_allow (Some sc) x end) mt).
  { destruct Hd as [-> | [st ->]]; [reflexivity|]. cbn [fold_left exec_disr]. rewrite N_status.
    unfold st_interrupt. cbn [cf_of_x Config.st_intr]. destruct (x_intr x); reflexivity. }
  rewrite E1. set (y := match b_disr r with BPass => x | _ => _ end).
  unfold b3_cf_flow, b3_apply_flow. destruct (b_skip r), (b_after r); reflexivity.
Qed.

Lemma cf_sim_eval p r x mt : b_mark r = None -> b_id r <> 0 -> b_eng r = None ->
  (b_disr r = BPass \/ exists st, b_disr r = BDeny st) -> cf_inv x mt ->
  exists mt', eval_rule rx rules (b3_to_cf r) rq (cf_of_x x mt) = cf_of_x (b3_evaluate p r x) mt' /\ cf_inv (b3_evaluate p r x) mt'.
Proof.
  intros Hm Hid He Hd Hinv. pose proof Hinv as (I1 & I2 & I3).
  assert (Hnz : negb (b_id r =? 0) = true) by (apply negb_true_iff, Nat.eqb_neq; exact Hid).
  assert (Hnz' : (N.of_nat (b_id r) =? 0)%N = false).
  { change 0%N with (N.of_nat 0). rewrite Nat2N_eqb. apply negb_true_iff. exact Hnz. }
  unfold eval_rule, b3_to_cf, b3_evaluate, b3_is_marker. rewrite Hm, He. cbn [cr_head cr_id cr_chain].
  assert (Htx : texc_for (cf_of_x x mt) (N.of_nat (b_id r)) = []) by reflexivity. rewrite Htx, cf_link_matches.
  destruct (b_hit r).
  2:{ exists mt. split; [reflexivity|]. apply cf_inv_unmatched; [exact Hinv | reflexivity]. }
  rewrite cf_link_nd, cf_run_nd. set (x2 := x_add_rm (b_rm r) x).
  assert (Hinv2 : cf_inv x2 mt) by (apply (cf_inv_ext x); [reflexivity..|exact Hinv]).
  assert (E2 : x_eng x2 = Flow.MOn) by exact I3.
  assert (Hfired : forall ms, exists mt',
     (if (N.of_nat (b_id r) =? 0)%N
      then fold_left (fun s f => exec_flow f s) (cl_flow (b3_cf_link true (map (fun n => CRmId (IdOne (N.of_nat n))) (b_rm r))
              (match b_disr r with BDeny _ => [Config.DDeny] | _ => [Config.DPass] end) (b3_cf_flow r)
              (match b_disr r with BDeny st => N.of_nat st | _ => 0%N end)))
             (fold_left (fun s d => exec_disr (N.of_nat (b_id r)) (cl_status (b3_cf_link true (map (fun n => CRmId (IdOne (N.of_nat n))) (b_rm r))
              (match b_disr r with BDeny _ => [Config.DDeny] | _ => [Config.DPass] end) (b3_cf_flow r)
              (match b_disr r with BDeny st => N.of_nat st | _ => 0%N end))) d s)
                (cl_disr (b3_cf_link true (map (fun n => CRmId (IdOne (N.of_nat n))) (b_rm r))
              (match b_disr r with BDeny _ => [Config.DDeny] | _ => [Config.DPass] end) (b3_cf_flow r)
              (match b_disr r with BDeny st => N.of_nat st | _ => 0%N end))) (cf_of_x x2 mt))
      else st_add_match (N.of_nat (b_id r)) ms
            (fold_left (fun s f => exec_flow f s) (cl_flow (b3_cf_link true (map (fun n => CRmId (IdOne (N.of_nat n))) (b_rm r))
              (match b_disr r with BDeny _ => [Config.DDeny] | _ => [Config.DPass] end) (b3_cf_flow r)
              (match b_disr r with BDeny st => N.of_nat st | _ => 0%N end)))
             (fold_left (fun s d => exec_disr (N.of_nat (b_id r)) (cl_status (b3_cf_link true (map (fun n => CRmId (IdOne (N.of_nat n))) (b_rm r))
              (match b_disr r with BDeny _ => [Config.DDeny] | _ => [Config.DPass] end) (b3_cf_flow r)
              (match b_disr r with BDeny st => N.of_nat st | _ => 0%N end))) d s)
                (cl_disr (b3_cf_link true (map (fun n => CRmId (IdOne (N.of_nat n))) (b_rm r))
              (match b_disr r with BDeny _ => [Config.DDeny] | _ => [Config.DPass] end) (b3_cf_flow r)
              (match b_disr r with BDeny st => N.of_nat st | _ => 0%N end))) (cf_of_x x2 mt))))
     = cf_of_x (x_add_ev (Ev p (b_id r) (negb (b_id r =? 0))) (b3_apply_flow r (b3_apply_disr p r x2))) mt'
     /\ cf_inv (x_add_ev (Ev p (b_id r) (negb (b_id r =? 0))) (b3_apply_flow r (b3_apply_disr p r x2))) mt').
  { intro ms. rewrite Hnz'. rewrite cf_link_flow, cf_link_status, cf_link_disr. rewrite (cf_sim_acts p r x2 mt Hm E2 Hd).
    exists (mt ++ [(N.of_nat (b_id r), ms)]). split; [reflexivity|]. rewrite Hnz.
    apply cf_inv_matched; [|exact Hid]. destruct (x_disr_fields p r x2 Hd) as (A1 & A2 & A3).
    destruct (x_flow_fields r (b3_apply_disr p r x2)) as (B1 & B2 & B3).
    apply (cf_inv_ext x2); [rewrite B1; exact A1 | rewrite B2; exact A2 | rewrite B3; exact A3 | exact Hinv2]. }
  unfold b3_chain_ok. destruct (b_chain r) as [[|]|]; cbn [eval_chain].
  - assert (Htx2 : texc_for (cf_of_x x2 mt) (N.of_nat (b_id r)) = []) by reflexivity. rewrite Htx2, cf_link_matches.
    rewrite cf_link_nd. unfold run_nd at 1. cbn [fold_left app]. apply Hfired.
  - assert (Htx2 : texc_for (cf_of_x x2 mt) (N.of_nat (b_id r)) = []) by reflexivity. rewrite Htx2, cf_link_matches.
    exists mt. split; [reflexivity|]. apply cf_inv_unmatched; [exact Hinv2 | reflexivity].
  - apply Hfired.
Qed.
End Cf2.

Lemma cf_rphase r : cr_phase (b3_to_cf r) = N.of_nat (b3_rphase r).
Proof. unfold b3_to_cf, b3_rphase, b3_is_marker. destruct (b_mark r); reflexivity. Qed.
Lemma cf_rid r : cr_id (b3_to_cf r) = N.of_nat (b3_rid r).
Proof. unfold b3_to_cf, b3_rid, b3_is_marker. destruct (b_mark r); reflexivity. Qed.
Lemma cf_rmark r : cr_mark (b3_to_cf r) = cf_name (b_mark r).
Proof. unfold b3_to_cf. destruct (b_mark r); reflexivity. Qed.

Section Cf3.
Variable rx : bytes -> bytes -> bool.
Variable rq : request.
Variable rules : list crule.

Lemma cf_sim_loop p : p = 1 \/ p = 2 -> forall rs x mt, forallb b3_cf_ok rs = true -> cf_inv x mt ->
  exists mt', eval_list rx rules (map b3_to_cf rs) (N.of_nat p) rq (cf_of_x x mt) = cf_of_x (b3_loop p rs x) mt'
              /\ cf_inv (b3_loop p rs x) mt'.
Proof.
  intro Hp. assert (Hp5 : negb (p =? 5) = true) by (destruct Hp; subst; reflexivity).
  induction rs as [|r rs IH]; intros x mt Hok Hinv; [exists mt; split; [reflexivity | exact Hinv]|].
  cbn [forallb] in Hok. apply andb_true_iff in Hok as [Hr Hrs]. cbn [map eval_list b3_loop].
  change (Config.st_intr (cf_of_x x mt)) with (option_map cf_mk_intr (x_intr x)). rewrite Hp5, andb_true_r.
  destruct (x_intr x) as [i|] eqn:Ei; cbn [option_map Flow.is_some]; [exists mt; split; [reflexivity | exact Hinv]|].
  unfold eval_step. rewrite cf_rphase, cf_rid, cf_rmark. change 0%N with (N.of_nat 0) at 1. rewrite !Nat2N_eqb, <- negb_orb.
  destruct (negb ((b3_rphase r =? 0) || (b3_rphase r =? p))); [apply IH; assumption|].
  rewrite cf_is_removed. destruct (existsb (Nat.eqb (b3_rid r)) (x_rm x)); [apply IH; assumption|].
  change (Config.st_skip (cf_of_x x mt)) with (cf_name (x_after x)).
  destruct (x_after x) as [m|] eqn:Ea.
  - change (cf_name (Some m)) with (b3_mname m). change (negb (bytes_nil (b3_mname m))) with true. cbv iota.
    assert (Hmk : bytes_eqb (cf_name (b_mark r)) (b3_mname m) = opt_nat_eqb (b_mark r) (Some m)).
    { destruct (b_mark r) as [a|]; [apply (b3_mname_eqb a m) | reflexivity]. }
    rewrite Hmk. destruct (opt_nat_eqb (b_mark r) (Some m)).
    + assert (E : st_set_skip [] (cf_of_x x mt) = cf_of_x (x_set_after None x) mt) by reflexivity.
      rewrite E. apply IH; [exact Hrs|]. apply (cf_inv_ext x); [reflexivity..|exact Hinv].
    + apply IH; assumption.
  - change (negb (bytes_nil (cf_name None))) with false. cbv iota. change (st_skipn (cf_of_x x mt)) with (N.of_nat (x_skip x)).
    destruct (x_skip x) as [|k] eqn:Ek.
    + change (0 <? N.of_nat 0)%N with false. cbv iota.
      destruct Hinv as (I1 & I2 & I3). unfold b3_allow_break. rewrite I2.
      destruct (b3_cf_ok_cases r Hr) as [[m Hm]|(Hm & Hid & _ & He & Hd)].
      * destruct (cf_sim_marker rx rq rules p m r x mt Hm (conj I1 (conj I2 I3))) as [E I]. rewrite E. apply IH; assumption.
      * destruct (cf_sim_eval rx rq rules p r x mt Hm Hid He Hd (conj I1 (conj I2 I3))) as (mt1 & E & I). rewrite E. apply IH; assumption.
    + rewrite N_ltb0_succ.
      assert (E : st_set_skipn (N.of_nat (S k) - 1) (cf_of_x x mt) = cf_of_x (x_set_skip k x) mt).
      { rewrite N_succ_pred. unfold cf_of_x, st_set_skipn. cbn. rewrite Ea. reflexivity. }
      rewrite E. apply IH; [exact Hrs|]. apply (cf_inv_ext x); [reflexivity..|exact Hinv].
Qed.

End Cf3.

Lemma cf_sim_phase rx rq p rs x mt : p = 1 \/ p = 2 -> forallb b3_cf_ok rs = true -> cf_inv x mt ->
  exists mt', eval_phase rx (map b3_to_cf rs) (N.of_nat p) rq (cf_of_x x mt) = cf_of_x (b3_phase p rs x) mt'
              /\ cf_inv (b3_phase p rs x) mt'.
Proof.
  intros Hp Hok Hinv. unfold eval_phase, b3_phase.
  destruct (cf_sim_loop rx rq (map b3_to_cf rs) p Hp rs x mt Hok Hinv) as (mt' & E & I). rewrite E.
  set (y := b3_loop p rs x) in *. destruct I as (I1 & I2 & I3). exists mt'. unfold b3_end_phase. rewrite I2. split; [reflexivity|].
  repeat split; assumption.
Qed.

(* phases 3, 4, 5 of the reference: only markers are left to visit - nothing observable through Config.v *)
Lemma b3_loop_idle p : 3 <= p -> forall rs x, forallb b3_cf_ok rs = true ->
  x_intr (b3_loop p rs x) = x_intr x /\
  b3_matched_ids (b3_rule_evs (x_ev (b3_loop p rs x))) = b3_matched_ids (b3_rule_evs (x_ev x)).
Proof.
  intro Hp. induction rs as [|r rs IH]; intros x Hok; [split; reflexivity|].
  cbn [forallb] in Hok. apply andb_true_iff in Hok as [Hr Hrs]. cbn [b3_loop].
  destruct (Flow.is_some (x_intr x) && negb (p =? 5)); [split; reflexivity|].
  destruct (negb ((b3_rphase r =? 0) || (b3_rphase r =? p))) eqn:Eph; [apply IH; exact Hrs|].
  destruct (existsb (Nat.eqb (b3_rid r)) (x_rm x)); [apply IH; exact Hrs|].
  destruct (x_after x) as [m|].
  - destruct (opt_nat_eqb (b_mark r) (Some m)); [apply (IH (x_set_after None x) Hrs) | apply IH; exact Hrs].
  - destruct (x_skip x) as [|k]; [|apply (IH (x_set_skip k x) Hrs)].
    unfold b3_allow_break. 
    assert (Hev : forall y, y = b3_evaluate p r x ->
              x_intr (b3_loop p rs y) = x_intr x /\
              b3_matched_ids (b3_rule_evs (x_ev (b3_loop p rs y))) = b3_matched_ids (b3_rule_evs (x_ev x))).
    { intros y ->. destruct (b3_cf_ok_cases r Hr) as [[m Hm]|(Hm & _ & Hph & _)].
      - assert (E : b3_evaluate p r x = x_add_ev (Ev p 0 false) x) by (unfold b3_evaluate, b3_is_marker; rewrite Hm; reflexivity).
        rewrite E. destruct (IH (x_add_ev (Ev p 0 false) x) Hrs) as [H1 H2]. split; [exact H1|]. rewrite H2.
        cbn [x_add_ev x_ev]. rewrite b3_rule_evs_app, b3_matched_ids_app. cbn. apply app_nil_r.
      - exfalso. unfold b3_rphase, b3_is_marker in Eph. rewrite Hm in Eph. apply negb_false_iff, orb_true_iff in Eph.
        destruct Eph as [E|E]; apply Nat.eqb_eq in E; lia. }
    destruct (x_allow x) as [[| |]|].
    + split; reflexivity.
    + destruct (p =? 1); [split; reflexivity|]. destruct (p =? 2); [split; reflexivity|]. apply Hev. reflexivity.
    + destruct (p =? 5); [apply Hev; reflexivity | split; reflexivity].
    + apply Hev. reflexivity.
Qed.

Lemma b3_phase_idle p rs x : 3 <= p -> forallb b3_cf_ok rs = true ->
  x_intr (b3_phase p rs x) = x_intr x /\
  b3_matched_ids (b3_rule_evs (x_ev (b3_phase p rs x))) = b3_matched_ids (b3_rule_evs (x_ev x)).
Proof.
  intros Hp Hok. destruct (b3_loop_idle p Hp rs x Hok) as [H1 H2]. unfold b3_phase, b3_end_phase.
  destruct (x_allow (b3_loop p rs x)) as [[| |]|]; split; assumption.
Qed.

Definition b3_cf_view (x : b3_st) : list nat * b3_intr := (b3_matched_ids (b3_rule_evs (x_ev x)), b3_xintr (x_intr x)).

Lemma b3_guarded_idle p rs x : 3 <= p -> forallb b3_cf_ok rs = true -> b3_cf_view (b3_guarded rs x p) = b3_cf_view x.
Proof.
  intros Hp Hok. unfold b3_guarded. destruct (fl_is_off (x_eng x)); [reflexivity|]. destruct (Flow.is_some (x_intr x)); [reflexivity|].
  destruct (b3_phase_idle p rs x Hp Hok) as [H1 H2]. unfold b3_cf_view. rewrite H1, H2. reflexivity.
Qed.

Lemma cf_obs_of_x x mt : cf_inv x mt -> b3_obs_cf (cf_of_x x mt) = b3_cf_view x.
Proof.
  intros (I1 & _ & _). unfold b3_obs_cf, b3_cf_view, cf_of_x. cbn [st_matched Config.st_intr]. rewrite I1. f_equal.
  destruct (x_intr x) as [[[a b] c]|]; cbn; [rewrite !Nat2N.id|]; reflexivity.
Qed.

(* Config.v on the translated rules shows the reference observables (matched ids, interruption) *)
Theorem b3_cf_is_ref rx rs : forallb b3_cf_ok rs = true ->
  b3_obs_cf (b3_run_cf rx rs) = b3_matched_view (b3_obs (b3_run Flow.MOn rs)).
Proof.
  intro Hok. unfold b3_run_cf, cf_run.
  assert (I0 : cf_inv (b3_init Flow.MOn) []) by (repeat split).
  change st_init with (cf_of_x (b3_init Flow.MOn) []).
  destruct (cf_sim_phase rx b3_cf_req 1 rs _ _ (or_introl eq_refl) Hok I0) as (mt1 & E1 & I1).
  change 1%N with (N.of_nat 1). rewrite E1. set (x1 := b3_phase 1 rs (b3_init Flow.MOn)) in *.
  (* the reference run *)
  assert (Eref : b3_cf_view (b3_run Flow.MOn rs) =
                 b3_cf_view (if Flow.is_some (x_intr x1) then x1 else b3_phase 2 rs x1)).
  { unfold b3_run. cbn [fold_left]. 
    assert (G1 : b3_guarded rs (b3_init Flow.MOn) 1 = x1) by reflexivity. rewrite G1.
    assert (G2 : b3_guarded rs x1 2 = if Flow.is_some (x_intr x1) then x1 else b3_phase 2 rs x1).
    { unfold b3_guarded. destruct I1 as (_ & _ & ->). reflexivity. }
    rewrite G2. set (x2 := if Flow.is_some (x_intr x1) then x1 else b3_phase 2 rs x1).
    unfold b3_logging. set (x4 := b3_guarded rs (b3_guarded rs x2 3) 4).
    assert (E4 : b3_cf_view x4 = b3_cf_view x2).
    { subst x4. rewrite b3_guarded_idle by (try lia; exact Hok). apply b3_guarded_idle; [lia | exact Hok]. }
    destruct (fl_is_off (x_eng x4)); [exact E4|].
    destruct (b3_phase_idle 5 rs x4 ltac:(lia) Hok) as [H1 H2]. unfold b3_cf_view in *. rewrite H1, H2. exact E4. }
  assert (Ev : b3_matched_view (b3_obs (b3_run Flow.MOn rs)) = b3_cf_view (b3_run Flow.MOn rs)) by reflexivity.
  rewrite Ev, Eref.
  change (Config.st_intr (cf_of_x x1 mt1)) with (option_map cf_mk_intr (x_intr x1)).
  destruct (x_intr x1) as [i|] eqn:Ei; cbn [option_map Flow.is_some].
  - apply cf_obs_of_x. exact I1.
  - destruct (cf_sim_phase rx b3_cf_req 2 rs x1 mt1 (or_intror eq_refl) Hok I1) as (mt2 & E2 & I2).
    change 2%N with (N.of_nat 2). rewrite E2. apply cf_obs_of_x. exact I2.
Qed.

(* ---- Flow.v and Config.v agree; TxPhase.v and Config.v agree ---- *)
Theorem b3_flow_cf_agree rx rs : forallb b3_cf_ok rs = true ->
  b3_matched_view_ids (b3_obs_flow (b3_run_flow Flow.MOn rs)) =
  (fst (b3_obs_cf (b3_run_cf rx rs)), option_map fst (snd (b3_obs_cf (b3_run_cf rx rs)))).
Proof.
  intro Hok. rewrite b3_flow_is_ref, (b3_cf_is_ref rx rs Hok).
  destruct (b3_obs (b3_run Flow.MOn rs)) as [[evs i] d]. reflexivity.
Qed.

Theorem b3_tp_cf_agree rx rs : forallb b3_tp_ok rs = true -> forallb b3_cf_ok rs = true ->
  b3_matched_view (b3_obs_tp (b3_run_tp Flow.MOn rs)) = b3_obs_cf (b3_run_cf rx rs).
Proof. intros H1 H2. rewrite (b3_tp_is_ref Flow.MOn rs H1), (b3_cf_is_ref rx rs H2). reflexivity. Qed.

(* ------------------------------------------------------------------------------------ *)
(* 4. executable checks                                                                  *)
(* ------------------------------------------------------------------------------------ *)
Definition b3_R (id ph : nat) (hit : bool) (ch : option bool) (eng : option fl_mode) (rm : list nat)
           (sk : nat) (af : option nat) (d : b3_disr) : b3_rule := mkB3 None id ph hit ch eng rm sk af d.
Definition b3_rx0 (p s : bytes) : bool := false.

(* deny + skip:1, then more rules of the phase, a phase-2 rule and a logging rule: the interruption
   ends phase 1 at once (the skip counter is never consumed), phases 2-4 are not evaluated, phase 5 is *)
Definition ex3_deny_skip : list b3_rule :=
  [b3_R 1 1 true None None [] 1 None (BDeny 0); b3_R 2 1 true None None [] 0 None BPass;
   b3_R 3 1 true None None [] 0 None BPass; b3_R 4 2 true None None [] 0 None BPass; b3_R 5 5 true None None [] 0 None BPass].
Example ex3_deny_skip_flow_tp :
  forallb b3_tp_ok ex3_deny_skip = true /\
  b3_obs_tp (b3_run_tp Flow.MOn ex3_deny_skip) = ([(1, 1, true); (5, 5, true)], Some (1, 403), None) /\
  b3_obs_flow (b3_run_flow Flow.MOn ex3_deny_skip) = ([(1, 1, true); (5, 5, true)], Some 1, None).
Proof. vm_compute. repeat split. Qed.
(* the same in DetectionOnly: nothing is interrupted, the skip counter is consumed by rule 2 *)
Example ex3_deny_skip_detection :
  b3_obs_tp (b3_run_tp Flow.MDet ex3_deny_skip)
    = ([(1, 1, true); (1, 3, true); (2, 4, true); (5, 5, true)], None, Some (1, 403)) /\
  b3_obs_flow (b3_run_flow Flow.MDet ex3_deny_skip)
    = ([(1, 1, true); (1, 3, true); (2, 4, true); (5, 5, true)], None, Some 1).
Proof. vm_compute. repeat split. Qed.

(* skipAfter with an absent marker: the rest of the phase is skipped, the next phase starts clean *)
Definition ex3_after_absent : list b3_rule :=
  [b3_R 1 1 true None None [] 0 (Some 9) BPass; b3_R 2 1 true None None [] 0 None (BDeny 0); b3_marker 1;
   b3_R 3 1 true None None [] 0 None BPass; b3_R 4 2 true None None [] 0 None (BDeny 501)].
Example ex3_after_absent_all :
  forallb b3_tp_ok ex3_after_absent = true /\ forallb b3_cf_ok ex3_after_absent = true /\
  b3_obs_tp (b3_run_tp Flow.MOn ex3_after_absent) = ([(1, 1, true); (2, 4, true)], Some (4, 501), None) /\
  b3_obs_flow (b3_run_flow Flow.MOn ex3_after_absent) = ([(1, 1, true); (2, 4, true)], Some 4, None) /\
  b3_obs_cf (b3_run_cf b3_rx0 ex3_after_absent) = ([1; 4], Some (4, 501)).
Proof. vm_compute. repeat split. Qed.

(* allow:request set in phase 1 ends phase 1, covers phase 2, is gone in phase 3 *)
Definition ex3_allow_request : list b3_rule :=
  [b3_R 1 1 true None None [] 0 None (BAllow ScRequest); b3_R 2 1 true None None [] 0 None (BDeny 0);
   b3_R 3 2 true None None [] 0 None (BDeny 0); b3_R 4 3 true None None [] 0 None BPass; b3_R 5 4 true (Some false) None [] 0 None (BDeny 0)].
Example ex3_allow_request_flow_tp :
  forallb b3_tp_ok ex3_allow_request = true /\
  b3_obs_tp (b3_run_tp Flow.MOn ex3_allow_request) = ([(1, 1, true); (3, 4, true); (4, 5, false)], None, None) /\
  b3_obs_flow (b3_run_flow Flow.MOn ex3_allow_request) = ([(1, 1, true); (3, 4, true); (4, 5, false)], None, None).
Proof. vm_compute. repeat split. Qed.

(* a rule removed for the transaction does not count inside a skip window: rule 1 removes rule 2 and
   skips one entry - that entry is rule 3 (a deny), rule 4 is evaluated *)
Definition ex3_removed_in_window : list b3_rule :=
  [b3_R 1 1 true None None [2] 1 None BPass; b3_R 2 1 true None None [] 0 None (BDeny 0);
   b3_R 3 1 true None None [] 0 None (BDeny 500); b3_R 4 1 true None None [] 0 None BPass;
   b3_R 2 2 true None None [] 0 None (BDeny 0); b3_R 6 2 true (Some true) None [] 0 None (BDeny 0)].
Example ex3_removed_in_window_flow_cf :
  forallb b3_cf_ok ex3_removed_in_window = true /\
  b3_obs_cf (b3_run_cf b3_rx0 ex3_removed_in_window) = ([1; 4; 6], Some (6, 403)) /\
  b3_obs_flow (b3_run_flow Flow.MOn ex3_removed_in_window) = ([(1, 1, true); (1, 4, true); (2, 6, true)], Some 6, None).
Proof. vm_compute. repeat split. Qed.

(* ctl:ruleEngine=Off in the middle of phase 1: the phase goes on (deny without effect), no later phase *)
Definition ex3_engine_off : list b3_rule :=
  [b3_R 1 1 true None (Some Flow.MOff) [] 0 None BPass; b3_R 2 1 true None None [] 0 None (BDeny 0);
   b3_R 3 2 true None None [] 0 None BPass; b3_R 4 5 true None None [] 0 None BPass].
Example ex3_engine_off_flow_tp :
  b3_obs_tp (b3_run_tp Flow.MOn ex3_engine_off) = ([(1, 1, true); (1, 2, true)], None, None) /\
  b3_obs_flow (b3_run_flow Flow.MOn ex3_engine_off) = ([(1, 1, true); (1, 2, true)], None, None).
Proof. vm_compute. repeat split. Qed.

(* FINITE CHECK (not a theorem about all rule lists - those are b3_flow_tp_agree, b3_flow_cf_agree,
   b3_tp_cf_agree): every rule list of length <= 2 over the alphabets below, ids by position.
   The same check was run in a scratch file for length <= 3 (47 989 lists x 3 engine modes for
   Flow/TxPhase, 33 825 lists for Config against both): no mismatch. *)
Definition b3_shape := nat -> b3_rule.
Definition b3_S (ph : nat) (hit : bool) (ch : option bool) (eng : option fl_mode) (rm : list nat) (sk : nat) (af : option nat) (d : b3_disr) : b3_shape :=
  fun id => b3_R id ph hit ch eng rm sk af d.
Definition b3_shapes_ft (ph : nat) : list b3_shape :=
  [b3_S ph true None None [] 0 None BPass; b3_S ph true None None [] 1 None BPass; b3_S ph true None None [] 2 None BPass;
   b3_S ph true None None [] 0 (Some 1) BPass; b3_S ph true None None [] 0 (Some 2) BPass;
   b3_S ph true None None [] 0 None (BDeny 0); b3_S ph true None None [] 1 None (BDeny 500);
   b3_S ph true None None [] 0 None (BAllow ScAll); b3_S ph true None None [] 0 None (BAllow ScRequest);
   b3_S ph true None None [] 0 None (BAllow ScPhase);
   b3_S ph true None (Some Flow.MDet) [] 0 None (BDeny 0); b3_S ph true None (Some Flow.MOff) [] 0 None BPass;
   b3_S ph true None (Some Flow.MOn) [] 0 None (BAllow ScPhase);
   b3_S ph true (Some false) None [] 1 None (BDeny 0); b3_S ph true (Some true) None [] 0 (Some 1) (BDeny 0);
   b3_S ph false None None [] 1 None (BDeny 0)].
Definition b3_shapes_cf (ph : nat) : list b3_shape :=
  [b3_S ph true None None [] 0 None BPass; b3_S ph true None None [] 1 None BPass; b3_S ph true None None [] 2 None BPass;
   b3_S ph true None None [] 0 (Some 1) BPass; b3_S ph true None None [] 0 (Some 2) BPass; b3_S ph true None None [] 1 (Some 1) BPass;
   b3_S ph true None None [] 0 None (BDeny 0); b3_S ph true None None [] 1 None (BDeny 500);
   b3_S ph true None None [2] 0 None BPass; b3_S ph true None None [3] 1 None BPass; b3_S ph true None None [3; 1] 0 (Some 1) BPass;
   b3_S ph true None None [0] 0 (Some 1) BPass;
   b3_S ph true (Some false) None [3] 1 None (BDeny 0); b3_S ph true (Some true) None [2] 0 (Some 1) (BDeny 0);
   b3_S ph false None None [2] 1 None (BDeny 0)].
Definition b3_alpha_ft : list b3_shape :=
  (fun _ => b3_marker 1) :: b3_shapes_ft 1 ++ b3_shapes_ft 2
  ++ [b3_S 5 true None None [] 0 None (BDeny 0); b3_S 5 true None None [] 0 None BPass; b3_S 3 true None None [] 0 None BPass].
Definition b3_alpha_cf : list b3_shape := (fun _ => b3_marker 1) :: (fun _ => b3_marker 2) :: b3_shapes_cf 1 ++ b3_shapes_cf 2.

Definition b3_lists2 (al : list b3_shape) : list (list b3_rule) :=
  [[]] ++ map (fun s => [s 1]) al ++ flat_map (fun s => map (fun t => [s 1; t 2]) al) al.

Fixpoint b3_list_eqb {A} (f : A -> A -> bool) (a b : list A) : bool :=
  match a, b with [], [] => true | x :: a', y :: b' => f x y && b3_list_eqb f a' b' | _, _ => false end.
Definition b3_opt_eqb {A} (f : A -> A -> bool) (a b : option A) : bool :=
  match a, b with None, None => true | Some x, Some y => f x y | _, _ => false end.
Definition b3_ev_eqb (a b : nat * nat * bool) : bool :=
  (fst (fst a) =? fst (fst b)) && (snd (fst a) =? snd (fst b)) && Bool.eqb (snd a) (snd b).
Definition b3_pair_eqb (a b : nat * nat) : bool := (fst a =? fst b) && (snd a =? snd b).
Definition b3_check_ft (eng : fl_mode) (rs : list b3_rule) : bool :=
  let a := b3_obs_flow (b3_run_flow eng rs) in let b := b3_drop_status (b3_obs_tp (b3_run_tp eng rs)) in
  b3_list_eqb b3_ev_eqb (fst (fst a)) (fst (fst b)) && b3_opt_eqb Nat.eqb (snd (fst a)) (snd (fst b)) && b3_opt_eqb Nat.eqb (snd a) (snd b).
Definition b3_check_fc (rs : list b3_rule) : bool :=
  let a := b3_matched_view_ids (b3_obs_flow (b3_run_flow Flow.MOn rs)) in let b := b3_obs_cf (b3_run_cf b3_rx0 rs) in
  b3_list_eqb Nat.eqb (fst a) (fst b) && b3_opt_eqb Nat.eqb (snd a) (option_map fst (snd b)).

Example b3_finite_check_flow_tp :
  forallb (fun eng => forallb (b3_check_ft eng) (b3_lists2 b3_alpha_ft)) [Flow.MOn; Flow.MDet; Flow.MOff] = true.
Proof. vm_compute. reflexivity. Qed.
Example b3_finite_check_flow_cf : forallb b3_check_fc (b3_lists2 b3_alpha_cf) = true.
Proof. vm_compute. reflexivity. Qed.
