//go:build verif_all || verif_c20

package main

import _ "github.com/corazawaf/coraza/v3/verifharness/c20"
