package c08

import (
	"fmt"
	"strconv"
	"strings"

	"github.com/corazawaf/coraza/v3/verifharness/vh"
)

// specRun is the implementation-side oracle: the documented semantics of skip / skipAfter / allow /
// chain, written directly over the phase-filtered rule list (index arithmetic, no residual counters):
//   - skip:N passes over the next N entries of the current phase (a SecMarker counts as an entry,
//     rules removed by ctl:ruleRemoveById do not);
//   - skipAfter:M resumes after the first later marker M; when there is none the rest of this phase is
//     passed over and nothing else;
//   - allow ends phases 1-4, allow:request phases 1-2, allow:phase the current phase; the logging phase
//     always runs; in DetectionOnly allow and deny are not enforced;
//   - a starter's flow / disruptive actions run once, only when every link matched; links' own flow
//     actions never run; a link's non-disruptive actions (ctl) run when that link matched;
//   - an interruption ends phases 1-4 at once.
//
// It returns the expected observables and the kinds of directives that took effect.
func specRun(engine string, rules []ruleJ, req []bool) (*obsJ, []string) {
	mode := engine // the transaction's current mode; ctl:ruleEngine of a matching link changes it
	o := &obsJ{Evaluated: make([][]int, 5), Matched: make([][]int, 5)}
	for i := 0; i < 5; i++ {
		o.Evaluated[i], o.Matched[i] = []int{}, []int{}
	}
	var kinds []string
	removed := map[int]bool{}
	var removedRanges [][2]int
	allow := "" // "", phase, request, all
	blocks := func(p int) bool {
		switch allow {
		case "phase":
			return true
		case "request":
			return p <= 2
		case "all":
			return p <= 4
		}
		return false
	}
	matches := func(l linkJ) bool {
		if l.Body && o.Intr != nil && o.Intr[0] == 1 {
			return false // interrupted in phase 1: the request body is never processed
		}
		return l.Key < 0 || (l.Key < len(req) && req[l.Key])
	}
	for p := 1; p <= 5; p++ {
		if mode == "Off" {
			break // nothing is evaluated any more, not even the logging phase
		}
		if p < 5 && o.Intr != nil {
			continue
		}
		if !blocks(p) {
			var ag []ruleJ
			for _, r := range rules {
				if r.Marker != "" || r.Phase == p {
					ag = append(ag, r)
				}
			}
			live := func(r ruleJ) bool {
				if removed[r.ID] {
					return false
				}
				for _, rg := range removedRanges {
					if rg[0] <= r.ID && r.ID <= rg[1] {
						return false
					}
				}
				return true
			}
			i := 0
			for i < len(ag) {
				if p < 5 && o.Intr != nil {
					break
				}
				r := ag[i]
				if !live(r) {
					if r.Marker != "" {
						kinds = append(kinds, "marker-removed-by-id-0")
					} else {
						kinds = append(kinds, "removed-rule-passed-over")
					}
					i++
					continue
				}
				o.Evaluated[p-1] = append(o.Evaluated[p-1], r.ID)
				next := i + 1
				if r.Marker != "" {
					i = next
					continue
				}
				all := true
				for _, l := range r.Links {
					if !matches(l) {
						all = false
						break
					}
					for _, id := range l.Rm {
						removed[id] = true
					}
					if len(l.RmR) > 0 {
						removedRanges = append(removedRanges, l.RmR...)
						kinds = append(kinds, "ctl-remove-range")
					}
					if l.Eng != "" {
						if l.Eng != mode {
							kinds = append(kinds, "ctl-engine:"+mode+"->"+l.Eng)
						}
						mode = l.Eng
					}
				}
				if !all {
					if len(r.Links) > 1 && len(r.Acts) > 0 && matches(r.Links[0]) {
						kinds = append(kinds, "chain-partial-actions-withheld")
					}
					i = next
					continue
				}
				if len(r.Links) > 1 && len(r.Acts) > 0 {
					kinds = append(kinds, fmt.Sprintf("chain-full-len%d", len(r.Links)))
				}
				o.Matched[p-1] = append(o.Matched[p-1], r.ID)
				skipN, after, haveAfter := 0, "", false
				for _, a := range r.Acts {
					switch a.A {
					case "skip":
						skipN = a.N
					case "skipAfter":
						after, haveAfter = a.M, true
					case "allow":
						if mode == "On" {
							allow = a.Scope
							if allow == "" {
								allow = "all"
							}
							kinds = append(kinds, "allow:"+allow+fmt.Sprintf("@%d", p))
							if engine != "On" {
								kinds = append(kinds, "allow-enforced-after-switch-to-On")
							}
						} else {
							kinds = append(kinds, "allow-not-enforced-configured-"+engine+"-current-"+mode)
						}
					case "deny":
						switch mode {
						case "On":
							if o.Intr == nil {
								o.Intr = []int{p, r.ID}
							}
						case "DetectionOnly":
							if o.DIntr == nil {
								o.DIntr = []int{p, r.ID}
							}
						}
						kinds = append(kinds, "deny")
						if mode == "On" && (skipN > 0 || haveAfter || hasFlowLater(r.Acts)) {
							kinds = append(kinds, "deny-with-skip-state")
						}
					}
				}
				if haveAfter {
					j := next
					for j < len(ag) && !(live(ag[j]) && ag[j].Marker == after) {
						j++
					}
					if j < len(ag) {
						next = j + 1
						kinds = append(kinds, "skipAfter-present")
					} else {
						next = len(ag)
						before := false
						for _, x := range ag[:i] {
							if x.Marker == after {
								before = true
							}
						}
						if before {
							kinds = append(kinds, "skipAfter-marker-before")
						} else {
							kinds = append(kinds, "skipAfter-absent")
						}
					}
				}
				if skipN > 0 {
					left := 0
					for _, x := range ag[next:] {
						if live(x) {
							left++
						}
					}
					switch {
					case left == skipN:
						kinds = append(kinds, "skip-exactly-to-phase-end")
					case left < skipN:
						kinds = append(kinds, "skip-beyond-phase-end")
					default:
						kinds = append(kinds, "skip-inside")
					}
					for n := skipN; n > 0 && next < len(ag); next++ {
						if live(ag[next]) {
							n--
						} else {
							kinds = append(kinds, "skip-window-holds-removed-entry")
						}
					}
				}
				if blocks(p) {
					next = len(ag)
				}
				i = next
			}
		}
		if allow == "phase" || (allow == "request" && p >= 2) {
			allow = ""
		}
	}
	return o, kinds
}

// configure is the documented configure-time semantics, independently of the parser: a rule takes the
// disruptive action of the SecDefaultAction of its phase (defined earlier in the file; phase 2 has the
// built-in default pass) when it has none of its own or says block; SecRuleRemoveById removes, from the
// rules read so far, every rule whose id is in a range and the first rule carrying a single id.
func configure(ds []ruleJ) ([]ruleJ, []string) {
	var out []ruleJ
	var kinds []string
	defs := map[int]string{}
	for _, d := range ds {
		switch {
		case d.Default != nil:
			if _, ok := defs[d.Default.Phase]; !ok {
				defs[d.Default.Phase] = d.Default.DA
			}
		case len(d.Remove) > 0:
			for _, tok := range d.Remove {
				if lo, hi, ok := strings.Cut(tok, "-"); ok {
					l, _ := strconv.Atoi(lo)
					h, _ := strconv.Atoi(hi)
					var kept []ruleJ
					for _, r := range out {
						if r.ID < l || r.ID > h {
							kept = append(kept, r)
						} else {
							kinds = append(kinds, "SecRuleRemoveById-range-hit")
						}
					}
					out = kept
				} else {
					id, _ := strconv.Atoi(tok)
					for i, r := range out {
						if r.ID == id {
							out = append(append([]ruleJ{}, out[:i]...), out[i+1:]...)
							if id == 0 {
								kinds = append(kinds, "SecRuleRemoveById-0-first-marker")
							} else {
								kinds = append(kinds, "SecRuleRemoveById-id-hit")
							}
							break
						}
					}
				}
			}
		case d.Marker != "":
			out = append(out, d)
		default:
			r := d
			var own []actJ
			hasDa := false
			block := false
			// several disruptive actions in one list: the last one written counts, with its own parameter
			written := writtenActs(d)
			lastDis := -1
			nDis := 0
			for i, a := range written {
				if isDisruptive(a) {
					lastDis = i
					nDis++
				}
			}
			if nDis > 1 {
				kinds = append(kinds, "several-disruptive-last-is-"+written[lastDis].A+written[lastDis].Scope)
			}
			placed := false
			for _, a0 := range written {
				a := a0
				if isDisruptive(a) {
					if placed {
						continue
					}
					placed = true
					a = written[lastDis]
				}
				switch a.A {
				case "block":
					block = true
				case "pass":
					hasDa = true
				case "drop", "redirect":
					hasDa = true
					own = append(own, actJ{A: "deny"})
				case "allow", "deny":
					hasDa = true
					own = append(own, a)
				default:
					own = append(own, a)
				}
			}
			da, ok := defs[d.Phase]
			if !ok && d.Phase == 2 {
				da, ok = "pass", true
			}
			if ok && !hasDa {
				switch da {
				case "deny":
					own = append(own, actJ{A: "deny"})
				case "allow":
					own = append(own, actJ{A: "allow"})
				case "allow:phase":
					own = append(own, actJ{A: "allow", Scope: "phase"})
				case "allow:request":
					own = append(own, actJ{A: "allow", Scope: "request"})
				}
				if da != "pass" {
					if block {
						kinds = append(kinds, "block-inherits-"+da)
					} else {
						kinds = append(kinds, "no-da-inherits-"+da)
					}
				}
			} else if block && !ok {
				kinds = append(kinds, "block-without-default")
			} else if ok && hasDa && da != "pass" {
				kinds = append(kinds, "own-da-overrides-default")
			}
			r.Acts = own
			r.Inherit = false
			out = append(out, r)
		}
	}
	return out, kinds
}

func hasFlowLater(acts []actJ) bool {
	for _, a := range acts {
		if a.A == "skip" || a.A == "skipAfter" {
			return true
		}
	}
	return false
}

func classify(dist vh.Counter, set ruleSet, want *obsJ, kinds []string) {
	fired := len(kinds)
	seen := map[string]bool{}
	for _, k := range kinds {
		if !seen[k] {
			seen[k] = true
			dist.Inc("effect:" + k)
		}
	}
	dist.Inc("engine:" + set.Engine)
	dist.Inc("shape:" + shapeFamily(set.Shape))
	if strings.HasSuffix(set.Shape, "/all-subsets") {
		dist.Inc("requests:all-subsets")
	} else {
		dist.Inc("requests:sampled")
	}
	dist.Inc(fmt.Sprintf("rules:%02d", len(set.Rules)))
	if fired == 0 {
		dist.Inc("directives-fired:0")
	} else if fired <= 2 {
		dist.Inc("directives-fired:1-2")
	} else {
		dist.Inc("directives-fired:3+")
	}
	if want.Intr != nil {
		dist.Inc(fmt.Sprintf("interrupted@%d", want.Intr[0]))
	}
}

func shapeFamily(s string) string {
	for _, suf := range []string{"/all-subsets", "/sampled"} {
		if strings.HasSuffix(s, suf) {
			return s[:len(s)-len(suf)]
		}
	}
	if strings.HasPrefix(s, "corpus:") {
		return "corpus"
	}
	return s
}
