(* Decode.v — executable model of how Coraza turns request bytes into rule variables (property C03).
   Modelled, line by line, from /repo:
     internal/url/url.go            doParseQuery, queryUnescape, hexDigitToByte
     internal/cookies/cookies.go    ParseCookies (textproto.TrimString = trim of SP HT LF CR)
     internal/collections/map.go    Map.Add / Set / SetIndex / Get / FindString / FindAll / Len
     internal/collections/named.go  NamedCollection.Len, NamedCollectionNames.FindAll
     internal/collections/concat.go ConcatKeyed.FindAll, sized.go SizeCollection.size
     internal/corazawaf/transaction.go  AddRequestHeader, ExtractGetArguments, AddGetRequestArgument,
                                    AddPostRequestArgument, checkArgumentLimit, ProcessURI,
                                    ProcessRequestBody (processor selection, REQBODY_ERROR paths)
     internal/bodyprocessors/urlencoded.go, raw.go, json.go (readJSON / readItems flattening)
   Oracles (not modelled, enter as arguments): Go map iteration order (the [ord] arguments),
   strings.ToLower on non-ASCII keys (the [fold] argument), net/url.ParseRequestURI (the
   [parse_uri] argument; [dc_simple_parse_uri] is a partial specification of it that the
   correspondence run validates), gjson parsing (the model works on the abstract JSON tree),
   mime/multipart and encoding/xml (not modelled at all).
   No proofs here; see DecodeProofs.v. *)
From Coq Require Import String.
From Verif Require Import Base.
Open Scope N_scope.

(* ------------------------------------------------------------------------------------ *)
(* internal/url/url.go                                                                  *)
(* ------------------------------------------------------------------------------------ *)

Definition dc_in (lo hi b : N) : bool := (lo <=? b) && (b <=? hi).

(* hexDigitToByte *)
Definition dc_hex_val (c : byte) : option N :=
  if dc_in 48 57 c then Some (c - 48)
  else if dc_in 97 102 c then Some (c - 97 + 10)
  else if dc_in 65 70 c then Some (c - 65 + 10)
  else None.

(* queryUnescape: '+' => ' ', "%XY" with two hex digits AND i+2 < len => the byte, any other
   '%' is kept literally; one pass, the decoded byte is never looked at again *)
Fixpoint query_unescape (s : bytes) : bytes :=
  match s with
  | [] => []
  | c :: r =>
    if c =? 43 then 32 :: query_unescape r
    else if c =? 37 then
      match r with
      | h :: l :: r' =>
        match dc_hex_val h, dc_hex_val l with
        | Some a, Some b => (16 * a + b) :: query_unescape r'
        | _, _ => 37 :: query_unescape r
        end
      | _ => 37 :: query_unescape r
      end
    else c :: query_unescape r
  end.

(* strings.Split semantics on one separator byte (never returns the empty list) *)
Fixpoint dc_split (sep : byte) (s : bytes) : list bytes :=
  match s with
  | [] => [[]]
  | c :: r =>
    if c =? sep then [] :: dc_split sep r
    else match dc_split sep r with
         | h :: t => (c :: h) :: t
         | [] => [[c]]
         end
  end.

Definition dc_is_empty (s : bytes) : bool := match s with [] => true | _ => false end.

(* cut at the first occurrence of [c]: (before, after, found) — strings.Cut / IndexByte *)
Fixpoint dc_cut (c : byte) (s : bytes) : bytes * bytes * bool :=
  match s with
  | [] => ([], [], false)
  | x :: r => if x =? c then ([], r, true)
              else let '(a, b, f) := dc_cut c r in (x :: a, b, f)
  end.

(* one piece "key=value": the first '=' splits, both halves are unescaped *)
Definition dc_parse_piece (unesc : bool) (p : bytes) : bytes * bytes :=
  let '(k, v, _) := dc_cut 61 p in
  if unesc then (query_unescape k, query_unescape v) else (k, v).

(* the loop of doParseQuery: pieces in order of appearance, empty pieces skipped *)
Definition parse_pairs (sep : byte) (unesc : bool) (q : bytes) : list (bytes * bytes) :=
  map (dc_parse_piece unesc) (filter (fun p => negb (dc_is_empty p)) (dc_split sep q)).

(* map[string][]string as an association list: keys in order of first appearance (the Go
   map has NO order: every consumer below takes the order as an oracle), values in order *)
Definition gmap := list (bytes * list bytes).
Fixpoint dc_grp_add (k v : bytes) (g : gmap) : gmap :=
  match g with
  | [] => [(k, [v])]
  | (k', vs) :: r => if bytes_eqb k' k then (k', vs ++ [v]) :: r else (k', vs) :: dc_grp_add k v r
  end.
Definition group_pairs (l : list (bytes * bytes)) : gmap :=
  fold_left (fun g p => dc_grp_add (fst p) (snd p) g) l [].

Definition do_parse_query (q : bytes) (sep : byte) (unesc : bool) : gmap :=
  group_pairs (parse_pairs sep unesc q).
Definition parse_query (q : bytes) (sep : byte) : gmap := do_parse_query q sep true.

Fixpoint gmap_get (k : bytes) (g : gmap) : list bytes :=
  match g with
  | [] => []
  | (k', vs) :: r => if bytes_eqb k' k then vs else gmap_get k r
  end.
Definition gmap_flat (g : gmap) : list (bytes * bytes) :=
  flat_map (fun e => map (fun v => (fst e, v)) (snd e)) g.

(* ------------------------------------------------------------------------------------ *)
(* internal/cookies/cookies.go                                                           *)
(* ------------------------------------------------------------------------------------ *)

(* net/textproto.isASCIISpace *)
Definition dc_is_ows (b : byte) : bool := (b =? 32) || (b =? 9) || (b =? 10) || (b =? 13).
Fixpoint dc_drop_ws (s : bytes) : bytes :=
  match s with
  | [] => []
  | b :: r => if dc_is_ows b then dc_drop_ws r else s
  end.
Definition dc_trim (s : bytes) : bytes := rev (dc_drop_ws (rev (dc_drop_ws s))).

Definition dc_cookie_part (part : bytes) : option (bytes * bytes) :=
  let part := dc_trim part in
  if dc_is_empty part then None
  else let '(name, val, _) := dc_cut 61 part in
       let name := dc_trim name in
       if dc_is_empty name then None else Some (name, val).

Fixpoint dc_some_list {A} (l : list (option A)) : list A :=
  match l with
  | [] => []
  | Some x :: r => x :: dc_some_list r
  | None :: r => dc_some_list r
  end.

(* cookie pairs in order of appearance (ParseCookies before grouping) *)
Definition cookie_pairs (raw : bytes) : list (bytes * bytes) :=
  dc_some_list (map dc_cookie_part (dc_split 59 (dc_trim raw))).
Definition parse_cookies (raw : bytes) : gmap := group_pairs (cookie_pairs raw).

(* ------------------------------------------------------------------------------------ *)
(* internal/collections/map.go (case-insensitive Map / NamedCollection)                  *)
(* ------------------------------------------------------------------------------------ *)

Definition kv := (bytes * bytes)%type.
(* data map[string][]keyValue: bucket key = folded name; entries keep the original key *)
Definition cmap := list (bytes * list kv).

Section Fold.
Variable fold : bytes -> bytes.   (* strings.ToLower; lower_ascii on ASCII keys *)

Fixpoint dc_bucket_add (fk : bytes) (e : kv) (m : cmap) : cmap :=
  match m with
  | [] => [(fk, [e])]
  | (k', es) :: r => if bytes_eqb k' fk then (k', es ++ [e]) :: r else (k', es) :: dc_bucket_add fk e r
  end.
(* Map.Add *)
Definition cm_add (m : cmap) (k v : bytes) : cmap := dc_bucket_add (fold k) (k, v) m.

Fixpoint dc_bucket_get (fk : bytes) (m : cmap) : list kv :=
  match m with
  | [] => []
  | (k', es) :: r => if bytes_eqb k' fk then es else dc_bucket_get fk r
  end.
Fixpoint dc_bucket_put (fk : bytes) (es : list kv) (m : cmap) : cmap :=
  match m with
  | [] => [(fk, es)]
  | (k', es') :: r => if bytes_eqb k' fk then (k', es) :: r else (k', es') :: dc_bucket_put fk es r
  end.
Fixpoint dc_set_nth (i : nat) (e : kv) (es : list kv) : list kv :=
  match es, i with
  | [], _ => []
  | _ :: r, O => e :: r
  | x :: r, S j => x :: dc_set_nth j e r
  end.
(* Map.SetIndex *)
Definition cm_set_index (m : cmap) (k : bytes) (idx : nat) (v : bytes) : cmap :=
  let es := dc_bucket_get (fold k) m in
  match es with
  | [] => dc_bucket_put (fold k) [(k, v)] m
  | _ => if (length es <=? idx)%nat then dc_bucket_put (fold k) (es ++ [(k, v)]) m
         else dc_bucket_put (fold k) (dc_set_nth idx (k, v) es) m
  end.
(* Map.Set *)
Definition cm_set (m : cmap) (k : bytes) (vs : list bytes) : cmap :=
  dc_bucket_put (fold k) (map (fun v => (k, v)) vs) m.

(* Map.Len / NamedCollection.Len: number of buckets = distinct folded names (NOT entries) *)
Definition cm_len (m : cmap) : nat := length m.
(* FindAll: every entry (bucket order is Go map order: compare as multisets) *)
Definition cm_find_all (m : cmap) : list kv := flat_map snd m.
(* FindString *)
Definition cm_find_string (m : cmap) (k : bytes) : list kv :=
  if dc_is_empty k then cm_find_all m else dc_bucket_get (fold k) m.
(* Get *)
Definition cm_get (m : cmap) (k : bytes) : list bytes := map snd (dc_bucket_get (fold k) m).
(* NamedCollectionNames.FindAll: key and value are both the original key *)
Definition cm_names (m : cmap) : list kv := map (fun e => (fst e, fst e)) (cm_find_all m).
(* SizeCollection.size over one collection *)
Definition cm_size (m : cmap) : nat :=
  fold_left (fun n e => (n + length (fst e) + length (snd e))%nat) (cm_find_all m) 0%nat.

(* ------------------------------------------------------------------------------------ *)
(* arguments and the argument limit (transaction.go:761-808)                             *)
(* ------------------------------------------------------------------------------------ *)

(* AddGetRequestArgument / AddPostRequestArgument: skipped (debug log only) when the number
   of distinct names already stored has reached the limit *)
Definition add_argument (limit : nat) (m : cmap) (k v : bytes) : cmap :=
  if (limit <=? cm_len m)%nat then m else cm_add m k v.

(* ExtractGetArguments: "for k, vs := range data { for _, v := range vs { add } }"; [ord] is
   the parsed map in the order Go's range happens to visit it *)
Definition add_group (limit : nat) (m : cmap) (g : bytes * list bytes) : cmap :=
  fold_left (fun m v => add_argument limit m (fst g) v) (snd g) m.
Definition extract_arguments (limit : nat) (m : cmap) (ord : gmap) : cmap :=
  fold_left (add_group limit) ord m.

(* the urlencoded body processor and the cookie loop call Add directly: no limit *)
Definition add_all_groups (m : cmap) (ord : gmap) : cmap :=
  fold_left (fun m g => fold_left (fun m v => cm_add m (fst g) v) (snd g) m) ord m.

(* ------------------------------------------------------------------------------------ *)
(* transaction variables                                                                 *)
(* ------------------------------------------------------------------------------------ *)

Record txv := mk_txv {
  v_args_get : cmap; v_args_post : cmap; v_args_path : cmap;
  v_headers : cmap; v_cookies : cmap;
  v_rbp : bytes;                    (* REQBODY_PROCESSOR *)
  v_request_body : bytes; v_request_body_length : bytes;
  v_reqbody_error : bool;           (* REQBODY_ERROR = "1" (and REQBODY_PROCESSOR_ERROR) *)
  v_urlencoded_error : bool;        (* URLENCODED_ERROR non-empty *)
  v_uri : bytes; v_uri_raw : bytes; v_query_string : bytes;
  v_basename : bytes; v_filename : bytes; v_request_line : bytes
}.
(* NewTransaction: REQUEST_BODY_LENGTH, REQBODY_ERROR, URLENCODED_ERROR start as "0" *)
Definition txv_empty : txv :=
  mk_txv [] [] [] [] [] [] [] [48] false false [] [] [] [] [] [].

Definition set_args_get (t : txv) (m : cmap) : txv :=
  mk_txv m (v_args_post t) (v_args_path t) (v_headers t) (v_cookies t) (v_rbp t) (v_request_body t)
    (v_request_body_length t) (v_reqbody_error t) (v_urlencoded_error t) (v_uri t) (v_uri_raw t)
    (v_query_string t) (v_basename t) (v_filename t) (v_request_line t).
Definition set_args_post (t : txv) (m : cmap) : txv :=
  mk_txv (v_args_get t) m (v_args_path t) (v_headers t) (v_cookies t) (v_rbp t) (v_request_body t)
    (v_request_body_length t) (v_reqbody_error t) (v_urlencoded_error t) (v_uri t) (v_uri_raw t)
    (v_query_string t) (v_basename t) (v_filename t) (v_request_line t).
Definition set_headers (t : txv) (m : cmap) : txv :=
  mk_txv (v_args_get t) (v_args_post t) (v_args_path t) m (v_cookies t) (v_rbp t) (v_request_body t)
    (v_request_body_length t) (v_reqbody_error t) (v_urlencoded_error t) (v_uri t) (v_uri_raw t)
    (v_query_string t) (v_basename t) (v_filename t) (v_request_line t).
Definition set_cookies (t : txv) (m : cmap) : txv :=
  mk_txv (v_args_get t) (v_args_post t) (v_args_path t) (v_headers t) m (v_rbp t) (v_request_body t)
    (v_request_body_length t) (v_reqbody_error t) (v_urlencoded_error t) (v_uri t) (v_uri_raw t)
    (v_query_string t) (v_basename t) (v_filename t) (v_request_line t).
Definition set_rbp (t : txv) (p : bytes) : txv :=
  mk_txv (v_args_get t) (v_args_post t) (v_args_path t) (v_headers t) (v_cookies t) p (v_request_body t)
    (v_request_body_length t) (v_reqbody_error t) (v_urlencoded_error t) (v_uri t) (v_uri_raw t)
    (v_query_string t) (v_basename t) (v_filename t) (v_request_line t).
Definition set_request_body (t : txv) (b : bytes) : txv :=
  mk_txv (v_args_get t) (v_args_post t) (v_args_path t) (v_headers t) (v_cookies t) (v_rbp t) b
    (itoa (N.of_nat (length b))) (v_reqbody_error t) (v_urlencoded_error t) (v_uri t) (v_uri_raw t)
    (v_query_string t) (v_basename t) (v_filename t) (v_request_line t).
Definition set_reqbody_error (t : txv) : txv :=
  mk_txv (v_args_get t) (v_args_post t) (v_args_path t) (v_headers t) (v_cookies t) (v_rbp t)
    (v_request_body t) (v_request_body_length t) true (v_urlencoded_error t) (v_uri t) (v_uri_raw t)
    (v_query_string t) (v_basename t) (v_filename t) (v_request_line t).

(* derived variables *)
(* ARGS = ConcatKeyed(ARGS_GET, ARGS_POST, ARGS_PATH).FindAll *)
Definition var_args (t : txv) : list kv :=
  cm_find_all (v_args_get t) ++ cm_find_all (v_args_post t) ++ cm_find_all (v_args_path t).
Definition var_args_names (t : txv) : list kv :=
  cm_names (v_args_get t) ++ cm_names (v_args_post t) ++ cm_names (v_args_path t).
(* ARGS_COMBINED_SIZE = SizeCollection(ARGS_GET, ARGS_POST) *)
Definition var_args_combined_size (t : txv) : nat :=
  (cm_size (v_args_get t) + cm_size (v_args_post t))%nat.

(* ------------------------------------------------------------------------------------ *)
(* AddRequestHeader (transaction.go:376)                                                 *)
(* ------------------------------------------------------------------------------------ *)

Definition dc_ct_urlencoded : bytes := str "application/x-www-form-urlencoded"%string.
Definition dc_ct_multipart : bytes := str "multipart/form-data"%string.

(* strings.TrimSpace on its ASCII white space (HT LF VT FF CR SP); the Unicode spaces it also
   trims (U+0085, U+00A0, ...) are outside the model *)
Definition dc_is_space (b : byte) : bool := (b =? 32) || dc_in 9 13 b.
Fixpoint dc_drop_space (s : bytes) : bytes :=
  match s with
  | [] => []
  | b :: r => if dc_is_space b then dc_drop_space r else s
  end.
Definition dc_trim_space (s : bytes) : bytes := rev (dc_drop_space (rev (dc_drop_space s))).
(* mediaType := val[:IndexByte(val, ';')] (the whole value without ';'), trimmed *)
Definition dc_media_type (vl : bytes) : bytes := let '(a, _, _) := dc_cut 59 vl in dc_trim_space a.

(* [cookie_ord raw] = parse_cookies raw in Go's range order (oracle) *)
Definition add_request_header (cookie_ord : bytes -> gmap) (t : txv) (k v : bytes) : txv :=
  if dc_is_empty k then t
  else
    let t1 := set_headers t (cm_add (v_headers t) k v) in
    let kl := lower_ascii k in   (* compared with two ASCII constants only *)
    if bytes_eqb kl (str "content-type"%string) then
      let vl := lower_ascii v in
      (* the value up to the first ';', strings.TrimSpace'd, is compared with the media type *)
      if bytes_eqb (dc_media_type vl) dc_ct_urlencoded
      then set_rbp t1 (str "URLENCODED"%string)
      else if is_prefix dc_ct_multipart vl then set_rbp t1 (str "MULTIPART"%string)
      else t1
    else if bytes_eqb kl (str "cookie"%string) then
      set_cookies t1 (add_all_groups (v_cookies t1) (cookie_ord v))
    else t1.

(* ------------------------------------------------------------------------------------ *)
(* ProcessURI (transaction.go:819)                                                       *)
(* ------------------------------------------------------------------------------------ *)

(* last index of '/' or '\\' : the part after it, or the whole path when there is none or
   when it is the last byte (offset != -1 && len(path) > offset+1) *)
Fixpoint dc_after_last_sep (s : bytes) : option bytes :=
  match s with
  | [] => None
  | c :: r =>
    match dc_after_last_sep r with
    | Some x => Some x
    | None => if (c =? 47) || (c =? 92) then Some r else None
    end
  end.
Definition dc_basename (path : bytes) : bytes :=
  match dc_after_last_sep path with
  | Some [] => path
  | Some b => b
  | None => path
  end.

Definition dc_cut_fragment (u : bytes) : bytes := let '(a, _, _) := dc_cut 35 u in a.

Record uri_parts := mk_uri { u_path : bytes; u_rawquery : bytes; u_string : bytes }.

(* [parse_uri]: net/url.ParseRequestURI as an oracle: None = error *)
Definition process_uri (parse_uri : bytes -> option uri_parts) (limit : nat)
    (query_ord : bytes -> gmap) (t : txv) (uri method proto : bytes) : txv :=
  let line := method ++ [32] ++ uri ++ [32] ++ proto in
  let u := dc_cut_fragment uri in
  match parse_uri u with
  | None =>
    mk_txv (v_args_get t) (v_args_post t) (v_args_path t) (v_headers t) (v_cookies t) (v_rbp t)
      (v_request_body t) (v_request_body_length t) (v_reqbody_error t) true
      u uri [] (dc_basename u) u line
  | Some p =>
    mk_txv (extract_arguments limit (v_args_get t) (query_ord (u_rawquery p)))
      (v_args_post t) (v_args_path t) (v_headers t) (v_cookies t) (v_rbp t)
      (v_request_body t) (v_request_body_length t) (v_reqbody_error t) (v_urlencoded_error t)
      (u_string p) uri (u_rawquery p) (dc_basename (u_path p)) (u_path p) line
  end.

(* A partial specification of url.ParseRequestURI, validated by the correspondence run:
   origin-form URIs "/path[?query]" whose path uses unreserved bytes and '/', does not start
   with "//", and which contain no control byte (< 0x20 or 0x7f). *)
Definition dc_unreserved (c : byte) : bool :=
  dc_in 48 57 c || dc_in 65 90 c || dc_in 97 122 c || (c =? 45) || (c =? 46) || (c =? 95) || (c =? 126).
Definition dc_path_byte (c : byte) : bool := dc_unreserved c || (c =? 47).
Definition dc_no_ctl (c : byte) : bool := negb (c <? 32) && negb (c =? 127).
Definition dc_origin_path (p : bytes) : bool :=
  match p with
  | a :: r => (a =? 47) && negb (match r with b :: _ => b =? 47 | [] => false end) && forallb dc_path_byte p
  | [] => false
  end.
Definition dc_simple_uri (u : bytes) : bool :=
  let '(p, q, _) := dc_cut 63 u in dc_origin_path p && forallb dc_no_ctl q.
Definition dc_simple_parse_uri (u : bytes) : option uri_parts :=
  if dc_simple_uri u then let '(p, q, _) := dc_cut 63 u in Some (mk_uri p q u) else None.

End Fold.

(* ------------------------------------------------------------------------------------ *)
(* JSON body processor (json.go readJSON / readItems) over an abstract tree              *)
(* ------------------------------------------------------------------------------------ *)

(* what gjson hands to readItems: strings already unescaped, null, other scalars as raw text *)
Inductive json :=
  | JStr (s : bytes)
  | JNull
  | JRaw (raw : bytes)                 (* number / true / false: value.Raw *)
  | JArr (items : list json)
  | JObj (members : list (bytes * json)).

Definition dc_leaf (t : json) : option bytes :=
  match t with
  | JStr s => Some s
  | JNull => Some []
  | JRaw r => Some r
  | _ => None
  end.

(* one assignment res[key] = value, in program order *)
Definition jwrite := (bytes * bytes)%type.

Definition dc_len_entry (key : bytes) (n : nat) : list jwrite :=
  match n with O => [] | _ => [(key, itoa (N.of_nat n))] end.

(* the two ForEach loops of readItems, parameterised by the recursive call [rec x key'] =
   readItems(x, key', maxRecursion-1).
   array: returns writes, error, key under which the length entry goes, elements visited *)
Definition dc_arr_go (rec : json -> bytes -> list jwrite * bool) (key : bytes) :=
  fix go (i : N) (l : list json) : list jwrite * bool * bytes * nat :=
    match l with
    | [] => ([], false, key, 0%nat)
    | x :: r =>
      let k' := key ++ [46] ++ itoa i in
      match dc_leaf x with
      | Some v =>
        let '(w2, e2, lk, n) := go (i + 1) r in ((k', v) :: w2, e2, lk, S n)
      | None =>
        let '(w, e) := rec x k' in
        if e then (w, true, k', 1%nat)
        else let '(w2, e2, lk, n) := go (i + 1) r in (w ++ w2, e2, lk, S n)
      end
    end.
Definition dc_obj_go (rec : json -> bytes -> list jwrite * bool) (key : bytes) :=
  fix go (l : list (bytes * json)) : list jwrite * bool :=
    match l with
    | [] => ([], false)
    | (k, x) :: r =>
      let k' := key ++ [46] ++ k in
      match dc_leaf x with
      | Some v => let '(w2, e2) := go r in ((k', v) :: w2, e2)
      | None =>
        let '(w, e) := rec x k' in
        if e then (w, true) else let '(w2, e2) := go r in (w ++ w2, e2)
      end
    end.

(* readItems(json, objKey, maxRecursion, res) for a container [t]; returns the writes and the
   error bit. depth = maxRecursion; 0 => error before anything is read. ForEach stops at the
   first member whose recursive call failed; in that case objKey is NOT cut back, so the
   array-length entry is written under the failing child's key (as coded). *)
Fixpoint read_items (t : json) (depth : nat) (key : bytes) {struct t} : list jwrite * bool :=
  match depth with
  | O => ([], true)
  | S d =>
    match t with
    | JArr items =>
      let '(w, e, lk, n) := dc_arr_go (fun x k => read_items x d k) key 0 items in
      (w ++ dc_len_entry lk n, e)
    | JObj ms => dc_obj_go (fun x k => read_items x d k) key ms
    | _ =>
      (* top-level scalar: gjson's ForEach calls the iterator once with a zero key, which
         readItems treats as array index 0 *)
      match dc_leaf t with
      | Some v => ([(key ++ [46; 48], v); (key, [49])], false)
      | None => ([], false)
      end
    end
  end.

Definition read_json (t : json) (depth : nat) : list jwrite * bool := read_items t depth (str "json"%string).

(* res map[string]string: last assignment to an (exact) key wins; kept in first-assignment order *)
Fixpoint dc_res_put (k v : bytes) (m : list jwrite) : list jwrite :=
  match m with
  | [] => [(k, v)]
  | (k', v') :: r => if bytes_eqb k' k then (k', v) :: r else (k', v') :: dc_res_put k v r
  end.
Definition json_res (w : list jwrite) : list jwrite :=
  fold_left (fun m e => dc_res_put (fst e) (snd e) m) w [].

(* "for key, value := range data { col.SetIndex(key, 0, value) }" in the order [ord] *)
Definition json_apply (fold : bytes -> bytes) (m : cmap) (ord : list jwrite) : cmap :=
  fold_left (fun m e => cm_set_index fold m (fst e) 0 (snd e)) ord m.

(* ------------------------------------------------------------------------------------ *)
(* ProcessRequestBody (transaction.go:1062-1153): processor selection and error paths    *)
(* Preconditions kept by the harness: engine on, no interruption, last phase = request   *)
(* headers.                                                                              *)
(* ------------------------------------------------------------------------------------ *)

Record body_cfg := mk_bcfg {
  bc_access : bool;        (* SecRequestBodyAccess *)
  bc_force : bool;         (* ctl:forceRequestBodyVariable *)
  bc_depth : nat           (* SecRequestBodyJsonDepthLimit *)
}.

(* what the parsers that are not modelled reported *)
Record body_oracle := mk_borc {
  bo_post_ord : gmap;            (* ParseQuery(body,'&') in range order *)
  bo_json : option json;         (* Some tree when gjson.Valid *)
  bo_json_ord : list jwrite -> list jwrite;   (* range order over res *)
  bo_ext_err : bool              (* multipart / xml processor returned an error *)
}.

Inductive proc := PUrlencoded | PRaw | PJson | PMultipart | PXml | PNone | PInvalid.
Definition select_processor (rbp : bytes) : proc :=
  let rl := lower_ascii rbp in
  if dc_is_empty rl then PNone
  else if bytes_eqb rl (str "urlencoded"%string) then PUrlencoded
  else if bytes_eqb rl (str "raw"%string) then PRaw
  else if bytes_eqb rl (str "json"%string) then PJson
  else if bytes_eqb rl (str "multipart"%string) then PMultipart
  else if bytes_eqb rl (str "xml"%string) then PXml
  else PInvalid.

Definition process_request_body (fold : bytes -> bytes) (cfg : body_cfg) (o : body_oracle)
    (t : txv) (body : bytes) : txv :=
  if negb (bc_access cfg) || dc_is_empty body then t
  else
    let t1 := if bc_force cfg
              then set_rbp t (if dc_is_empty (v_rbp t) then str "URLENCODED"%string else v_rbp t)
              else t in
    match select_processor (v_rbp t1) with
    | PNone => t1
    | PInvalid => set_reqbody_error t1
    | PUrlencoded =>
      set_request_body (set_args_post t1 (add_all_groups fold (v_args_post t1) (bo_post_ord o))) body
    | PRaw => set_request_body t1 body
    | PJson =>
      match bo_json o with
      | Some tree =>
        let '(w, e) := read_json tree (bc_depth cfg) in
        let t2 := set_args_post t1 (json_apply fold (v_args_post t1) (bo_json_ord o (json_res w))) in
        if e then set_reqbody_error t2 else t2
      | None => set_reqbody_error t1      (* best-effort ARGS_POST of invalid JSON: not modelled *)
      end
    | PMultipart | PXml => if bo_ext_err o then set_reqbody_error t1 else t1
    end.

(* ------------------------------------------------------------------------------------ *)
(* the request body delivered in chunks under SecRequestBodyLimit (transaction.go:          *)
(* WriteRequestBody, ReadRequestBodyFrom, the final ProcessRequestBody)                    *)
(* Preconditions kept by the harness: engine on, body access on, no rule interrupts.       *)
(* ------------------------------------------------------------------------------------ *)

(* WriteRequestBody(b) / ReadRequestBodyFrom(reader with Len()) / ReadRequestBodyFrom(plain reader) *)
Inductive body_api := ViaWrite | ViaReadLen | ViaReadNoLen.

Record bstate := mk_bst {
  bs_buf : bytes;            (* requestBodyBuffer *)
  bs_inbound : bool;         (* INBOUND_DATA_ERROR = "1" *)
  bs_interrupted : bool;     (* tx.interruption != nil (413 deny) *)
  bs_processed : bool;       (* lastPhase = request body: ProcessRequestBody already ran *)
  bs_tx : txv
}.

(* ProcessRequestBody: nothing when interrupted or already run, else the processor on the buffer *)
Definition bs_run (process : bytes -> txv -> txv) (s : bstate) : bstate :=
  if bs_interrupted s || bs_processed s then s
  else mk_bst (bs_buf s) (bs_inbound s) (bs_interrupted s) true (process (bs_buf s) (bs_tx s)).

Definition body_step (limit : nat) (reject : bool) (process : bytes -> txv -> txv)
    (s : bstate) (c : body_api * bytes) : bstate :=
  let '(api, chunk) := c in
  let len := length (bs_buf s) in
  (* "RequestBodyLimit == requestBodyBuffer.length": the limit was reported before, return *)
  if (limit =? len)%nat then s
  else
    match api with
    | ViaReadNoLen =>
      (* writingBytes = limit - length; io.CopyN; afterwards "length == limit" is checked *)
      let buf := bs_buf s ++ firstn (limit - len) chunk in
      if (length buf =? limit)%nat then
        if reject then mk_bst buf true true (bs_processed s) (bs_tx s)
        else bs_run process (mk_bst buf true (bs_interrupted s) (bs_processed s) (bs_tx s))
      else mk_bst buf (bs_inbound s) (bs_interrupted s) (bs_processed s) (bs_tx s)
    | _ =>
      (* "length + writingBytes >= limit" *)
      if (limit <=? len + length chunk)%nat then
        if reject then mk_bst (bs_buf s) true true (bs_processed s) (bs_tx s)
        else bs_run process (mk_bst (bs_buf s ++ firstn (limit - len) chunk) true
                                    (bs_interrupted s) (bs_processed s) (bs_tx s))
      else mk_bst (bs_buf s ++ chunk) (bs_inbound s) (bs_interrupted s) (bs_processed s) (bs_tx s)
    end.

Definition body_stream (limit : nat) (reject : bool) (process : bytes -> txv -> txv)
    (chunks : list (body_api * bytes)) (t0 : txv) : bstate :=
  bs_run process (fold_left (body_step limit reject process) chunks (mk_bst [] false false false t0)).

(* ------------------------------------------------------------------------------------ *)
(* the INDEPENDENT encoders (mirrored in the harness): what a client does to send pairs  *)
(* ------------------------------------------------------------------------------------ *)

Definition dc_hex_up (n : N) : byte := if n <? 10 then 48 + n else 55 + n.
Definition pct_byte (c : byte) : bytes := [37; dc_hex_up (c / 16); dc_hex_up (c mod 16)].
(* percent-encode everything outside the RFC 3986 unreserved set *)
Definition pct_enc (s : bytes) : bytes :=
  flat_map (fun c => if dc_unreserved c then [c] else pct_byte c) s.
Fixpoint dc_join (sep : bytes) (l : list bytes) : bytes :=
  match l with
  | [] => []
  | x :: r => match r with [] => x | _ => x ++ sep ++ dc_join sep r end
  end.
Definition enc_pair (p : bytes * bytes) : bytes := pct_enc (fst p) ++ [61] ++ pct_enc (snd p).
Definition enc_query (l : list (bytes * bytes)) : bytes := dc_join [38] (map enc_pair l).
Definition enc_urlencoded := enc_query.
Definition enc_cookie (l : list (bytes * bytes)) : bytes :=
  dc_join [59; 32] (map (fun p => fst p ++ [61] ++ snd p) l).

(* JSON serialisation: double quote, backslash and control bytes escaped, everything else raw *)
Definition dc_json_esc (c : byte) : bytes :=
  if c =? 34 then [92; 34]
  else if c =? 92 then [92; 92]
  else if c <? 32 then [92; 117; 48; 48; dc_hex_up (c / 16); dc_hex_up (c mod 16)]
  else [c].
Definition enc_json_str (s : bytes) : bytes := [34] ++ flat_map dc_json_esc s ++ [34].
Fixpoint enc_json (t : json) : bytes :=
  match t with
  | JStr s => enc_json_str s
  | JNull => str "null"%string
  | JRaw r => r
  | JArr items =>
    [91] ++ dc_join [44] ((fix go (l : list json) : list bytes :=
                             match l with [] => [] | x :: r => enc_json x :: go r end) items) ++ [93]
  | JObj ms =>
    [123] ++ dc_join [44] ((fix go (l : list (bytes * json)) : list bytes :=
                              match l with
                              | [] => []
                              | (k, x) :: r => (enc_json_str k ++ [58] ++ enc_json x) :: go r
                              end) ms) ++ [125]
  end.

(* ------------------------------------------------------------------------------------ *)
(* multipart/form-data (internal/bodyprocessors/multipart.go)                            *)
(* The loop of the body processor over the parts handed out by mime/multipart is         *)
(* modelled as coded ([mp_collect]). mime/multipart + mime.ParseMediaType themselves are *)
(* an oracle; [mp_parse] is a partial specification of them for well-formed bodies of the *)
(* shape [mp_print] produces, validated by the correspondence run.                        *)
(* ------------------------------------------------------------------------------------ *)

(* a part as the processor sees it: FormName(), originFileName() ([] = a plain field), data *)
Record mpart := mk_mpart { mp_name : bytes; mp_filename : bytes; mp_content : bytes }.

Definition mp_is_file (p : mpart) : bool := negb (dc_is_empty (mp_filename p)).

Record mp_vars := mk_mpv {
  mv_post : cmap;            (* ARGS_POST *)
  mv_files : cmap;           (* FILES: key "", value filename *)
  mv_files_names : cmap;     (* FILES_NAMES: key "", value form name *)
  mv_files_sizes : cmap;     (* FILES_SIZES: key filename, value size *)
  mv_combined : nat;         (* FILES_COMBINED_SIZE: fields count too, as coded *)
  mv_part_headers : cmap     (* MULTIPART_PART_HEADERS: key form name, value "Key: value" *)
}.

Definition dc_crlf : bytes := [13; 10].
Definition mp_quote (s : bytes) : bytes :=
  flat_map (fun c => if (c =? 92) || (c =? 34) then [92; c] else [c]) s.
(* the value of the Content-Disposition header the printer writes *)
Definition mp_disp (p : mpart) : bytes :=
  str "form-data; name="%string ++ [34] ++ mp_quote (mp_name p) ++ [34] ++
  (if mp_is_file p then str "; filename="%string ++ [34] ++ mp_quote (mp_filename p) ++ [34] else []).
Definition mp_ctype : bytes := str "application/octet-stream"%string.
(* the header lines of a part as textproto hands them out (canonical key, ": ", value) *)
Definition mp_header_lines (p : mpart) : list bytes :=
  (str "Content-Disposition: "%string ++ mp_disp p) ::
  (if mp_is_file p then [str "Content-Type: "%string ++ mp_ctype] else []).

Section MpFold.
Variable fold : bytes -> bytes.
Definition mp_step (v : mp_vars) (p : mpart) : mp_vars :=
  let total := (mv_combined v + length (mp_content p))%nat in
  let hdrs := fold_left (fun m h => cm_add fold m (mp_name p) h) (mp_header_lines p) (mv_part_headers v) in
  if mp_is_file p then
    mk_mpv (mv_post v) (cm_add fold (mv_files v) [] (mp_filename p))
           (cm_add fold (mv_files_names v) [] (mp_name p))
           (cm_set_index fold (mv_files_sizes v) (mp_filename p) 0 (itoa (N.of_nat (length (mp_content p)))))
           total hdrs
  else
    mk_mpv (cm_add fold (mv_post v) (mp_name p) (mp_content p)) (mv_files v) (mv_files_names v)
           (mv_files_sizes v) total hdrs.
Definition mp_collect (parts : list mpart) : mp_vars :=
  fold_left mp_step parts (mk_mpv [] [] [] [] 0%nat []).
End MpFold.

(* ---- the printer (what a client sends; mirrored in the harness) ---- *)
Definition mp_delim (b : bytes) : bytes := [13; 10; 45; 45] ++ b.
Definition mp_part_bytes (b : bytes) (p : mpart) : bytes :=
  dc_crlf ++ str "Content-Disposition: "%string ++ mp_disp p ++
  (if mp_is_file p then dc_crlf ++ str "Content-Type: "%string ++ mp_ctype else []) ++
  dc_crlf ++ dc_crlf ++ mp_content p ++ mp_delim b.
Definition mp_print (b : bytes) (parts : list mpart) : bytes :=
  [45; 45] ++ b ++ flat_map (mp_part_bytes b) parts ++ [45; 45; 13; 10].

(* ---- the partial specification of the parser ---- *)
Fixpoint dc_strip (p s : bytes) : option bytes :=
  match p with
  | [] => Some s
  | x :: p' => match s with
               | y :: s' => if x =? y then dc_strip p' s' else None
               | [] => None
               end
  end.

(* mime.isTSpecial *)
Definition mp_is_tspecial (c : byte) : bool :=
  existsb (N.eqb c) [40; 41; 60; 62; 64; 44; 59; 58; 92; 34; 47; 91; 93; 63; 61].

(* mime.consumeValue on a quoted string, after the opening quote: a backslash escapes only a
   tspecial, CR / LF are refused; returns the value and what follows the closing quote *)
Fixpoint mp_scan_quoted (s : bytes) : option (bytes * bytes) :=
  match s with
  | [] => None
  | c :: r =>
    if c =? 34 then Some ([], r)
    else if c =? 92 then
      match r with
      | e :: r' =>
        if mp_is_tspecial e
        then match mp_scan_quoted r' with Some (v, t) => Some (e :: v, t) | None => None end
        else match mp_scan_quoted r with Some (v, t) => Some (92 :: v, t) | None => None end
      | [] => None
      end
    else if (c =? 13) || (c =? 10) then None
    else match mp_scan_quoted r with Some (v, t) => Some (c :: v, t) | None => None end
  end.

(* first occurrence of the delimiter: (bytes before it, bytes after it) *)
Fixpoint mp_find (d s : bytes) : option (bytes * bytes) :=
  match s with
  | [] => if is_prefix d [] then Some ([], []) else None
  | x :: r =>
    if is_prefix d s then Some ([], skipn (length d) s)
    else match mp_find d r with Some (a, t) => Some (x :: a, t) | None => None end
  end.

Definition mp_parse_part (d s : bytes) : option (mpart * bytes) :=
  match dc_strip (dc_crlf ++ str "Content-Disposition: form-data; name="%string ++ [34]) s with
  | None => None
  | Some s2 =>
    match mp_scan_quoted s2 with
    | None => None
    | Some (name, s3) =>
      match dc_strip (str "; filename="%string ++ [34]) s3 with
      | Some s4 =>
        match mp_scan_quoted s4 with
        | None => None
        | Some (fn, s5) =>
          match dc_strip (dc_crlf ++ str "Content-Type: "%string ++ mp_ctype ++ dc_crlf ++ dc_crlf) s5 with
          | None => None
          | Some s6 =>
            match mp_find d s6 with
            | Some (content, rest) => Some (mk_mpart name fn content, rest)
            | None => None
            end
          end
        end
      | None =>
        match dc_strip (dc_crlf ++ dc_crlf) s3 with
        | None => None
        | Some s6 =>
          match mp_find d s6 with
          | Some (content, rest) => Some (mk_mpart name [] content, rest)
          | None => None
          end
        end
      end
    end
  end.

Fixpoint mp_parse_parts (fuel : nat) (d s : bytes) : option (list mpart) :=
  match fuel with
  | O => None
  | S f =>
    if bytes_eqb s [45; 45; 13; 10] then Some []
    else match mp_parse_part d s with
         | Some (p, rest) =>
           match mp_parse_parts f d rest with Some l => Some (p :: l) | None => None end
         | None => None
         end
  end.

Definition mp_parse (b body : bytes) : option (list mpart) :=
  match dc_strip ([45; 45] ++ b) body with
  | Some s => mp_parse_parts (S (length body)) (mp_delim b) s
  | None => None
  end.

