// Package c05 drives the check of C05 (transactions are isolated from earlier transactions):
//   - the metamorphic oracle of the property on the real code: after ANY predecessor history on a
//     WAF, the recycled Transaction object (pointer identity asserted) is compared FIELD BY FIELD
//     (reflect + unsafe over every field of corazawaf.Transaction, including every collection of
//     TransactionVariables and both body buffers) with a brand-new object of an identical WAF, and
//     a probe transaction's full outcome on the recycled object is compared with the same probe on
//     the fresh WAF;
//   - the correspondence with the Pool.v model instantiated with the regenerated source facts
//     (coq/gen/FactsC05.v): for every key the model calls observable, equality must have been
//     observed; the runtime field list (reflect) must equal the extracted field list (go/ast).
package c05

import (
	"bytes"
	"encoding/json"
	"fmt"
	"io"
	"math/rand"
	"os"
	"reflect"
	"sort"
	"strings"
	"unsafe"

	"github.com/corazawaf/coraza/v3/internal/corazawaf"
	"github.com/corazawaf/coraza/v3/internal/seclang"
	"github.com/corazawaf/coraza/v3/types"
	"github.com/corazawaf/coraza/v3/verifharness/vh"
)

func init() { vh.Register("C05", Run) }

const rules = `
SecRuleEngine On
SecRequestBodyAccess On
SecResponseBodyAccess On
SecResponseBodyMimeType text/plain
SecRequestBodyLimit 80
SecRequestBodyInMemoryLimit 8
SecRequestBodyLimitAction ProcessPartial
SecResponseBodyLimit 64
SecAuditEngine RelevantOnly
SecAuditLogRelevantStatus ^4
SecAuditLogParts ABCFHZ
SecRule REQUEST_HEADERS:X-Ctl "@contains engine-det" "id:10,phase:1,pass,nolog,ctl:ruleEngine=DetectionOnly"
SecRule REQUEST_HEADERS:X-Ctl "@contains engine-off" "id:11,phase:1,pass,nolog,ctl:ruleEngine=Off"
SecRule REQUEST_HEADERS:X-Ctl "@contains reqlimit" "id:12,phase:1,pass,nolog,ctl:requestBodyLimit=5"
SecRule REQUEST_HEADERS:X-Ctl "@contains audit-on" "id:13,phase:1,pass,nolog,ctl:auditEngine=On"
SecRule REQUEST_HEADERS:X-Ctl "@contains audit-parts" "id:14,phase:1,pass,nolog,ctl:auditLogParts=+E"
SecRule REQUEST_HEADERS:X-Ctl "@contains parts-noop-add" "id:23,phase:1,pass,nolog,ctl:auditLogParts=+F"
SecRule REQUEST_HEADERS:X-Ctl "@contains parts-noop-del" "id:24,phase:1,pass,nolog,ctl:auditLogParts=-J"
SecRule REQUEST_HEADERS:X-Ctl "@contains parts-abs" "id:25,phase:1,pass,nolog,ctl:auditLogParts=ABIZ"
SecRule REQUEST_HEADERS:X-Ctl "@contains parts-del" "id:26,phase:1,pass,nolog,ctl:auditLogParts=-C"
SecRule REQUEST_HEADERS:X-Ctl "@contains rm-id" "id:15,phase:1,pass,nolog,ctl:ruleRemoveById=100"
SecRule REQUEST_HEADERS:X-Ctl "@contains rm-range" "id:16,phase:1,pass,nolog,ctl:ruleRemoveById=100-101"
SecRule REQUEST_HEADERS:X-Ctl "@contains rm-target" "id:17,phase:1,pass,nolog,ctl:ruleRemoveTargetById=101;ARGS:a"
SecRule REQUEST_HEADERS:X-Ctl "@contains force-body" "id:18,phase:1,pass,nolog,ctl:forceRequestBodyVariable=On"
SecRule REQUEST_HEADERS:X-Ctl "@contains body-access-off" "id:19,phase:1,pass,nolog,ctl:requestBodyAccess=Off"
SecRule REQUEST_HEADERS:X-Ctl "@contains resp-access-off" "id:20,phase:1,pass,nolog,ctl:responseBodyAccess=Off"
SecRule REQUEST_HEADERS:X-Ctl "@contains resp-limit" "id:21,phase:1,pass,nolog,ctl:responseBodyLimit=3"
SecRule REQUEST_HEADERS:X-Ctl "@contains rm-tag" "id:22,phase:1,pass,nolog,ctl:ruleRemoveByTag=tagx"
SecRule REQUEST_HEADERS:X-Flow "@streq skip" "id:30,phase:2,pass,nolog,skip:2"
SecRule REQUEST_HEADERS:X-Flow "@streq skipafter" "id:31,phase:2,pass,nolog,skipAfter:NOWHERE"
SecRule REQUEST_HEADERS:X-Flow "@streq allow" "id:32,phase:1,allow,nolog"
SecRule REQUEST_HEADERS:X-Flow "@streq allow-request" "id:33,phase:1,allow:request,nolog"
SecRule REQUEST_HEADERS:X-Flow "@streq allow-phase" "id:34,phase:2,allow:phase,nolog"
SecRule REQUEST_HEADERS:X-Deny "@streq 1" "id:41,phase:1,deny,status:401,log,auditlog"
SecRule REQUEST_HEADERS:X-Deny "@streq 2" "id:42,phase:2,deny,status:402,log"
SecRule REQUEST_HEADERS:X-Deny "@streq 3" "id:43,phase:3,deny,status:403,log"
SecRule REQUEST_HEADERS:X-Deny "@streq 4" "id:44,phase:4,deny,status:404,log"
SecRule REQUEST_HEADERS:X-Deny "@streq 5" "id:45,phase:5,pass,log,auditlog,msg:'late'"
SecRule ARGS:a "@rx (a)(b)(c)?" "id:100,phase:2,capture,pass,log,tag:tagx,severity:2,setvar:tx.cap=%{tx.1}%{tx.2},setvar:tx.n=+1"
SecRule ARGS:a "@streq x" "id:101,phase:2,pass,nolog,setvar:tx.hit=+1,setvar:tx.name=%{MATCHED_VAR_NAME}"
SecRule ARGS_COMBINED_SIZE "@gt 6" "id:107,phase:2,pass,nolog,setvar:tx.big=%{ARGS_COMBINED_SIZE}"
SecRule ARGS_NAMES|ARGS_GET_NAMES|ARGS_POST_NAMES "@streq q" "id:108,phase:2,pass,nolog,setvar:tx.qname=+1"
SecRule FILES_COMBINED_SIZE "@gt 0" "id:109,phase:2,pass,nolog,setvar:tx.fsize=%{FILES_COMBINED_SIZE}"
SecRule &ARGS "@gt 2" "id:110,phase:2,pass,nolog,setvar:tx.many=1"
SecRule HIGHEST_SEVERITY "@lt 5" "id:111,phase:5,pass,nolog,setvar:tx.sev=%{HIGHEST_SEVERITY}"
SecRule FILES_NAMES "@rx ." "id:106,phase:2,pass,nolog,setvar:tx.upload=%{MATCHED_VAR}"
SecRule REQUEST_BODY "@contains zz" "id:102,phase:2,pass,nolog,setvar:tx.body=seen"
SecRule RESPONSE_BODY "@contains yy" "id:103,phase:4,pass,nolog,setvar:tx.rbody=seen"
SecRule TX:n "@ge 1" "id:104,phase:2,pass,nolog,setvar:tx.chainlike=1"
SecAction "id:105,phase:5,pass,nolog,setvar:tx.logged=1"
`

type txPlan struct {
	Ctl      []string `json:"ctl"`
	Flow     string   `json:"flow"`
	Deny     string   `json:"deny"`
	Query    string   `json:"query"`
	Body     string   `json:"body"`
	RespBody string   `json:"resp_body"`
	Calls    int      `json:"calls"`  // how many API calls are made before Close (early termination)
	Logging  bool     `json:"logging"` // call ProcessLogging before Close
	CloseTwice bool   `json:"close_twice"`
	Upload     bool   `json:"upload,omitempty"`      // the body is a multipart/form-data upload with one file part
	RmTmp      bool   `json:"rm_tmp,omitempty"`      // the upload's temporary file disappears before Close (Close then reports an error)
}

const uploadBody = "--b\r\nContent-Disposition: form-data; name=f; filename=x\r\n\r\nzz\r\n--b--\r\n"

type caseJSON struct {
	Preds []txPlan `json:"preds"`
	Probe txPlan   `json:"probe"`
	FindingKey string `json:"finding_key,omitempty"`
}

func newWAF(tmp string) (*corazawaf.WAF, error) {
	waf := corazawaf.NewWAF()
	waf.TmpDir = tmp
	p := seclang.NewParser(waf)
	if err := p.FromString(rules); err != nil {
		return nil, err
	}
	return waf, nil
}

// runTx drives one transaction according to plan; returns a canonical outcome string.
func runTx(tx *corazawaf.Transaction, pl txPlan) (out string, readers []io.Reader) {
	var sb strings.Builder
	n := 0
	step := func() bool { n++; return n <= pl.Calls }
	rec := func(name string, it *types.Interruption) {
		if it != nil {
			fmt.Fprintf(&sb, "%s=>%d/%s/%d;", name, it.RuleID, it.Action, it.Status)
		} else {
			fmt.Fprintf(&sb, "%s=>nil;", name)
		}
	}
	func() {
		if !step() {
			return
		}
		// readers obtained while the buffers are still empty (e.g. by a connector that fetches the
		// reader before streaming): they too must be dead after Close
		if r, err := tx.RequestBodyReader(); err == nil {
			readers = append(readers, r)
		}
		if r, err := tx.ResponseBodyReader(); err == nil {
			readers = append(readers, r)
		}
		tx.ProcessConnection("10.0.0.1", 1234, "10.0.0.2", 80)
		tx.ProcessURI("/p?"+pl.Query, "POST", "HTTP/1.1")
		if len(pl.Ctl) > 0 {
			tx.AddRequestHeader("X-Ctl", strings.Join(pl.Ctl, ","))
		}
		if pl.Flow != "" {
			tx.AddRequestHeader("X-Flow", pl.Flow)
		}
		if pl.Deny != "" {
			tx.AddRequestHeader("X-Deny", pl.Deny)
		}
		if pl.Upload {
			tx.AddRequestHeader("Content-Type", "multipart/form-data; boundary=b")
		} else {
			tx.AddRequestHeader("Content-Type", "application/x-www-form-urlencoded")
		}
		if !step() {
			return
		}
		rec("p1", tx.ProcessRequestHeaders())
		if !step() {
			return
		}
		// the body arrives in several chunks (the first fits the in-memory limit, a later one
		// crosses it): the spill path of the buffer is exercised with a non-empty memory part
		var it *types.Interruption
		var nw int
		var err error
		body := pl.Body
		if pl.Upload {
			body = uploadBody
		}
		for off := 0; off < len(body) || off == 0; off += 5 {
			end := off + 5
			if end > len(body) {
				end = len(body)
			}
			var n1 int
			it, n1, err = tx.WriteRequestBody([]byte(body[off:end]))
			nw += n1
			if it != nil || err != nil || end == len(body) {
				break
			}
		}
		rec("wb", it)
		fmt.Fprintf(&sb, "n=%d,e=%v;", nw, err != nil)
		if r, err := tx.RequestBodyReader(); err == nil {
			readers = append(readers, r)
		}
		if !step() {
			return
		}
		it, err = tx.ProcessRequestBody()
		rec("p2", it)
		if !step() {
			return
		}
		tx.AddResponseHeader("Content-Type", "text/plain")
		rec("p3", tx.ProcessResponseHeaders(200, "HTTP/1.1"))
		if !step() {
			return
		}
		it, nw, err = tx.WriteResponseBody([]byte(pl.RespBody))
		rec("wrb", it)
		fmt.Fprintf(&sb, "n=%d,e=%v;", nw, err != nil)
		if r, err := tx.ResponseBodyReader(); err == nil {
			readers = append(readers, r)
		}
		if !step() {
			return
		}
		it, err = tx.ProcessResponseBody()
		rec("p4", it)
	}()
	if pl.Logging {
		tx.ProcessLogging()
	}
	// outcome: matched rule ids, TX dump, interruption, audit flag relevant observables
	var ids []string
	for _, mr := range tx.MatchedRules() {
		ids = append(ids, fmt.Sprint(mr.Rule().ID()))
	}
	fmt.Fprintf(&sb, "matched=%s;", strings.Join(ids, ","))
	var kv []string
	for _, md := range tx.Variables().TX().FindAll() {
		kv = append(kv, md.Key()+"="+md.Value())
	}
	sort.Strings(kv)
	fmt.Fprintf(&sb, "tx=%s;", strings.Join(kv, "|"))
	if it := tx.Interruption(); it != nil {
		fmt.Fprintf(&sb, "intr=%d/%d;", it.RuleID, it.Status)
	}
	fmt.Fprintf(&sb, "last=%d;", tx.LastPhase())
	return sb.String(), readers
}

// ---- deep snapshot of a Transaction through reflection ----

var skipTop = map[string]bool{"id": true, "context": true, "Timestamp": true, "debugLogger": true, "WAF": true, "stopWatches": true}
var skipVars = map[string]bool{"uniqueID": true, "time": true, "timeDay": true, "timeEpoch": true, "timeHour": true, "timeMin": true, "timeMon": true, "timeSec": true, "timeWday": true, "timeYear": true}

func access(v reflect.Value) reflect.Value {
	if v.CanInterface() {
		return v
	}
	if v.CanAddr() {
		return reflect.NewAt(v.Type(), unsafe.Pointer(v.UnsafeAddr())).Elem()
	}
	return v
}

func canon(v reflect.Value, depth int, seen map[uintptr]bool) string {
	if depth > 12 {
		return "<deep>"
	}
	v = access(v)
	switch v.Kind() {
	case reflect.Ptr:
		if v.IsNil() {
			return "nil"
		}
		tn := v.Type().String()
		if strings.Contains(tn, "corazawaf.WAF") || strings.Contains(tn, "os.File") {
			return "<" + tn + ">"
		}
		if tn == "*bytes.Buffer" {
			b := v.Interface().(*bytes.Buffer)
			return fmt.Sprintf("buf(%x)", b.Bytes())
		}
		p := v.Pointer()
		if seen[p] {
			return "<cycle>"
		}
		seen[p] = true
		defer delete(seen, p)
		return "&" + canon(v.Elem(), depth+1, seen)
	case reflect.Interface:
		if v.IsNil() {
			return "nil"
		}
		return canon(v.Elem(), depth+1, seen)
	case reflect.Struct:
		var parts []string
		for i := 0; i < v.NumField(); i++ {
			fn := v.Type().Field(i).Name
			if fn == "variable" || fn == "name" { // collection identity, constant
				continue
			}
			parts = append(parts, fn+":"+canon(v.Field(i), depth+1, seen))
		}
		return "{" + strings.Join(parts, ",") + "}"
	case reflect.Map:
		if v.Len() == 0 {
			return "empty"
		}
		var parts []string
		it := v.MapRange()
		for it.Next() {
			parts = append(parts, canon(it.Key(), depth+1, seen)+"->"+canon(it.Value(), depth+1, seen))
		}
		sort.Strings(parts)
		return "map[" + strings.Join(parts, ",") + "]"
	case reflect.Slice, reflect.Array:
		if v.Len() == 0 {
			return "empty"
		}
		var parts []string
		for i := 0; i < v.Len(); i++ {
			parts = append(parts, canon(v.Index(i), depth+1, seen))
		}
		return "[" + strings.Join(parts, ",") + "]"
	case reflect.String:
		if v.Len() == 0 {
			return "empty"
		}
		return fmt.Sprintf("%q", v.String())
	case reflect.Bool:
		return fmt.Sprint(v.Bool())
	case reflect.Int, reflect.Int8, reflect.Int16, reflect.Int32, reflect.Int64:
		return fmt.Sprint(v.Int())
	case reflect.Uint, reflect.Uint8, reflect.Uint16, reflect.Uint32, reflect.Uint64, reflect.Uintptr:
		return fmt.Sprint(v.Uint())
	case reflect.Func, reflect.Chan, reflect.UnsafePointer:
		return "<" + v.Kind().String() + ">"
	}
	return "<" + v.Kind().String() + ">"
}

// snapshot returns key -> canonical content for every Transaction field ("F") and every
// TransactionVariables field ("variables.f").
func snapshot(tx *corazawaf.Transaction) map[string]string {
	res := map[string]string{}
	v := reflect.ValueOf(tx).Elem()
	for i := 0; i < v.NumField(); i++ {
		fn := v.Type().Field(i).Name
		if fn == "variables" {
			vv := access(v.Field(i))
			for j := 0; j < vv.NumField(); j++ {
				vn := vv.Type().Field(j).Name
				if skipVars[vn] {
					res["variables."+vn] = "<skipped>"
					continue
				}
				res["variables."+vn] = canon(vv.Field(j), 0, map[uintptr]bool{})
			}
			res[fn] = "<struct>"
			continue
		}
		if skipTop[fn] {
			res[fn] = "<skipped>"
			continue
		}
		res[fn] = canon(v.Field(i), 0, map[uintptr]bool{})
	}
	return res
}

// wafSnapshot: the plain settings of the WAF (numbers, strings, flags and slices of them), canonicalised
func wafSnapshot(w *corazawaf.WAF) string {
	v := reflect.ValueOf(w).Elem()
	var parts []string
	for i := 0; i < v.NumField(); i++ {
		f := access(v.Field(i))
		switch f.Kind() {
		case reflect.Bool, reflect.Int, reflect.Int8, reflect.Int16, reflect.Int32, reflect.Int64, reflect.Uint, reflect.Uint8,
			reflect.Uint16, reflect.Uint32, reflect.Uint64, reflect.String:
			parts = append(parts, v.Type().Field(i).Name+":"+canon(f, 0, map[uintptr]bool{}))
		case reflect.Slice:
			switch f.Type().Elem().Kind() {
			case reflect.Uint8, reflect.Int, reflect.String, reflect.Int32:
				// the whole backing array up to the capacity: an in-place edit of a shared slice shows here
				full := f
				if f.Cap() > f.Len() {
					full = f.Slice(0, f.Cap())
				}
				parts = append(parts, v.Type().Field(i).Name+":"+canon(full, 0, map[uintptr]bool{}))
			}
		}
	}
	return strings.Join(parts, ";")
}

var ctlChoices = []string{"parts-noop-add", "parts-noop-del", "parts-abs", "parts-del", "engine-det", "engine-off", "reqlimit", "audit-on", "audit-parts", "rm-id", "rm-range", "rm-target", "force-body", "body-access-off", "resp-access-off", "resp-limit", "rm-tag"}
var flowChoices = []string{"", "", "skip", "skipafter", "allow", "allow-request", "allow-phase"}
var denyChoices = []string{"", "", "", "1", "2", "3", "4", "5"}
var queries = []string{"", "a=x", "a=ab&b=abc", "a=x&a=ab&a=abc", "q=abc&a=x"}
var bodies = []string{"", "b=ab", "k=zz&a=x", "0123456789abcdefzz", strings.Repeat("z", 90)}
var respBodies = []string{"", "yy", "hello yy world", strings.Repeat("y", 70)}

func genPlan(r *rand.Rand, dirty bool) txPlan {
	pl := txPlan{Calls: 7, Logging: true}
	pl.Query = queries[r.Intn(len(queries))]
	pl.Body = bodies[r.Intn(len(bodies))]
	pl.RespBody = respBodies[r.Intn(len(respBodies))]
	if dirty {
		for _, c := range ctlChoices {
			if r.Intn(5) == 0 {
				pl.Ctl = append(pl.Ctl, c)
			}
		}
		pl.Flow = flowChoices[r.Intn(len(flowChoices))]
		pl.Deny = denyChoices[r.Intn(len(denyChoices))]
		if r.Intn(3) == 0 {
			pl.Calls = r.Intn(8)
		}
		pl.Logging = r.Intn(4) != 0
		if r.Intn(6) == 0 {
			pl.Upload = true
			pl.RmTmp = r.Intn(2) == 0
		}
	} else {
		if r.Intn(3) == 0 {
			pl.Deny = denyChoices[r.Intn(len(denyChoices))]
		}
	}
	return pl
}

func Run(cfg vh.Config) (*vh.Result, error) {
	res := &vh.Result{InputDistribution: map[string]int{}}
	res.Rule = "pairs (predecessor history of 1-3 dirty transactions, probe transaction) on one WAF with pool reuse asserted by pointer identity; the recycled object is compared field by field (reflection over all Transaction and TransactionVariables fields) with a brand-new object of an identical WAF, and the probe's outcome with the same probe on the fresh WAF; non-trivial = the predecessor left at least one field different from a fresh object before Close (it matched, was interrupted, spilled, changed settings by ctl, left flow state pending)"
	rng := vh.Rng(cfg.Seed, "c05")
	tmp, err := os.MkdirTemp("", "verif-c05-")
	if err != nil {
		return nil, err
	}
	defer os.RemoveAll(tmp)

	var terms []string
	var cases []any
	nontrivial := map[string]bool{}
	fail := func(key, what string, c any) {
		res.OracleFailures = append(res.OracleFailures, vh.OracleFailure{Key: key, What: what, Case: c})
	}
	notReused := 0
	var keyList []string

	runCase := func(c caseJSON) error {
		waf, err := newWAF(tmp)
		if err != nil {
			return err
		}
		fresh, err := newWAF(tmp)
		if err != nil {
			return err
		}
		res.Evaluations++
		wafBase := wafSnapshot(waf)
		var last *corazawaf.Transaction
		var deadReaders []io.Reader
		dirtyKeys := map[string]bool{}
		for _, pl := range c.Preds {
			tx := waf.NewTransaction()
			base := snapshot(tx)
			_, rds := runTx(tx, pl)
			before := snapshot(tx)
			for k, v := range before {
				if v != base[k] {
					dirtyKeys[k] = true
				}
			}
			deadReaders = append(deadReaders, rds...)
			if pl.RmTmp {
				// the upload's temporary file is gone before Close (tmp cleaner, a hook that moved it away)
				for _, f := range tx.Variables().FilesTmpNames().Get("") {
					_ = os.Remove(f)
				}
			}
			// the WAF itself is configuration: no transaction may leave a mark on it (ctl changes are per transaction)
			res.OracleEvaluations++
			if w := wafSnapshot(waf); w != wafBase {
				fail("c05-waf-mutated", fmt.Sprintf("a transaction changed the WAF's own settings: %.200s vs %.200s", w, wafBase), c)
			}
			if err := tx.Close(); err != nil {
				_ = err
			}
			if pl.CloseTwice {
				_ = tx.Close()
			}
			last = tx
		}
		// body readers handed out by a closed transaction yield no further data
		for _, rd := range deadReaders {
			b, _ := io.ReadAll(rd)
			res.OracleEvaluations++
			if len(b) != 0 {
				fail("c05-reader-alive-after-close", fmt.Sprintf("a body reader of a closed transaction still yields %d bytes", len(b)), c)
			}
		}
		probe := waf.NewTransaction()
		if probe != last {
			notReused++
			_ = probe.Close()
			return nil
		}
		ftx := fresh.NewTransaction()
		s1, s2 := snapshot(probe), snapshot(ftx)
		keys := make([]string, 0, len(s1))
		for k := range s1 {
			keys = append(keys, k)
		}
		sort.Strings(keys)
		var fieldTerms []string
		for _, k := range keys {
			eq := s1[k] == s2[k]
			skipped := s1[k] == "<skipped>"
			res.OracleEvaluations++
			if !eq && k != "transformationCache" {
				fail("c05-field-"+k, fmt.Sprintf("recycled transaction differs from a fresh one in field %s: %.200s vs %.200s", k, s1[k], s2[k]), c)
			}
			fieldTerms = append(fieldTerms, fmt.Sprintf("(%s,%s)", vh.Bool(dirtyKeys[k]), vh.Bool(eq || skipped)))
		}
		if keyList == nil {
			keyList = keys
		} else if strings.Join(keyList, ",") != strings.Join(keys, ",") {
			return fmt.Errorf("key list changed between cases")
		}
		o1, _ := runTx(probe, c.Probe)
		o2, _ := runTx(ftx, c.Probe)
		// ... and they must stay dead while the recycled object buffers the NEXT transaction's bodies
		for _, rd := range deadReaders {
			b, _ := io.ReadAll(rd)
			res.OracleEvaluations++
			if len(b) != 0 {
				fail("c05-reader-alive-after-close", fmt.Sprintf("a body reader of a closed transaction yields %d bytes of the next transaction's body", len(b)), c)
			}
		}
		res.OracleEvaluations++
		if o1 != o2 {
			fail("c05-probe-outcome", fmt.Sprintf("probe outcome on the recycled object differs from a fresh WAF: %.300s vs %.300s", o1, o2), c)
		}
		_ = probe.Close()
		_ = ftx.Close()
		terms = append(terms, fmt.Sprintf("CorrC05.mk_case %s %s", vh.List(fieldTerms), vh.Bool(o1 == o2)))
		cases = append(cases, c)
		dk := make([]string, 0, len(dirtyKeys))
		for k := range dirtyKeys {
			dk = append(dk, k)
		}
		sort.Strings(dk)
		if len(dk) > 0 {
			nontrivial[strings.Join(dk, ",")+"|"+fmt.Sprint(c.Probe)] = true
		}
		res.InputDistribution[fmt.Sprintf("dirty_fields_%02d+", (len(dk)/5)*5)]++
		res.InputDistribution[fmt.Sprintf("preds_%d", len(c.Preds))]++
		return nil
	}

	if cfg.Replay != "" {
		b, err := os.ReadFile(cfg.Replay)
		if err != nil {
			return nil, err
		}
		var rp struct {
			Case *caseJSON `json:"case"`
		}
		var c caseJSON
		if json.Unmarshal(b, &rp) == nil && rp.Case != nil {
			c = *rp.Case
		} else if err := json.Unmarshal(b, &c); err != nil {
			return nil, err
		}
		if err := runCase(c); err != nil {
			return nil, err
		}
	} else {
		docs, _ := vh.LoadCorpus(cfg.Corpus)
		for _, d := range docs {
			var c caseJSON
			if json.Unmarshal(d, &c) == nil {
				if err := runCase(c); err != nil {
					return nil, err
				}
			}
		}
		n := cfg.Pick(400, 6000)
		for i := 0; i < n; i++ {
			c := caseJSON{}
			for j := 0; j < 1+rng.Intn(3); j++ {
				c.Preds = append(c.Preds, genPlan(rng, true))
			}
			c.Probe = genPlan(rng, false)
			if err := runCase(c); err != nil {
				return nil, err
			}
		}
	}
	res.DistinctNontrivial = len(nontrivial)
	res.InputDistribution["pool_not_reused_skipped"] = notReused

	const per = 100
	qk := make([]string, len(keyList))
	for i, k := range keyList {
		qk[i] = fmt.Sprintf("%q%%string", k)
	}
	prelude := "Definition keys : list String.string := " + vh.List(qk) + "."
	for i, k := 0, 0; i < len(terms); i, k = i+per, k+1 {
		j := i + per
		if j > len(terms) {
			j = len(terms)
		}
		info, err := vh.WriteShard(cfg.OutDir, vh.Shard{
			Name: fmt.Sprintf("C05_%d", k), Imports: "From Verif Require Import Base Pool CorrC05.\nFrom VerifGen Require Import FactsC05.",
			CaseType: "CorrC05.case", MismatchF: "CorrC05.mismatches FactsC05.src keys", Prelude: prelude, Terms: terms[i:j], Cases: cases[i:j],
		})
		if err != nil {
			return nil, err
		}
		res.Shards = append(res.Shards, info)
	}
	for i := 0; i < len(cases) && len(res.Samples) < 4; i += 1 + len(cases)/4 {
		res.Samples = append(res.Samples, cases[i])
	}
	return res, nil
}
