(* Determinism.v — model for C04: a transaction's outcome is a function of configuration and
   request only.

   What is modelled (the code as it is in /repo):
   - internal/collections/map.go  FindAll / FindString / FindRegex range over a Go map: the order
     of the returned entries is chosen by the runtime.  Here: an explicit ORDER ORACLE
     [ord : nat -> list entry -> list entry]; the only thing known about it is
     [Permutation (ord n l) l]; it is consulted with a fresh index [n] at every selection
     (Go randomises per range statement).  internal/url/url.go ParseQuery + transaction.go
     ExtractGetArguments iterate a map too: the insertion order (hence the slice order of
     case-variants of one name) is runtime-chosen as well; the oracle permuting the WHOLE selected
     list over-approximates both.
   - named.go NamedCollectionNames (value = key), concat.go ConcatKeyed (ARGS = GET ++ POST,
     variable replaced), collections.Single.
   - transaction.go GetField: selection (all / by key, key compared lower-cased), exclusions
     (!ARGS:b), count (&ARGS).
   - rule.go doEvaluate: loop over the rule's variables, over the selected entries in the order
     given, transformations (Transform.exec_tfs; the per-phase cache is C12's subject: the model is
     cache free), operator, per match: MATCHED_VAR / MATCHED_VAR_NAME overwritten (last writer
     wins), captures TX.0 written by the operator, non-disruptive actions (setvar) executed;
     chain links evaluated only when the previous link matched; a link without match cancels the
     rule; disruptive action and MatchRule (matched data list, HIGHEST_SEVERITY) at the end.
   - actions/setvar.go evaluateTxCollection (string store, +N / -N arithmetic with Atoi failures).
   - macro.go Expand for %{MATCHED_VAR}, %{MATCHED_VAR_NAME}, %{tx.k}.
   - rulegroup.go Eval: rules of the phase in configuration order, stop at an interruption except
     in the logging phase; transaction.go: phase 1, body (ARGS_POST) + phase 2 unless interrupted,
     phase 5 always; Interrupt keeps the first interruption.  *)
From Verif Require Import Base Transform.
From Coq Require Import Permutation.
From Coq Require Import String.
Open Scope N_scope.

(* ------------------------------------------------------------------------------------- *)
(* variables, entries, requests                                                          *)
(* ------------------------------------------------------------------------------------- *)

Inductive var :=
  | VArgs | VArgsGet | VArgsPost | VArgsNames | VArgsGetNames | VArgsPostNames
  | VReqHeaders | VReqHeadersNames | VTx | VMatchedVar | VMatchedVarName
  | VReqMethod | VQueryString
  | VArgsCombinedSize.          (* collections.SizeCollection over ARGS_GET, ARGS_POST: a derived view *)

Definition var_code (v : var) : N :=
  match v with
  | VArgs => 0 | VArgsGet => 1 | VArgsPost => 2 | VArgsNames => 3 | VArgsGetNames => 4
  | VArgsPostNames => 5 | VReqHeaders => 6 | VReqHeadersNames => 7 | VTx => 8
  | VMatchedVar => 9 | VMatchedVarName => 10 | VReqMethod => 11 | VQueryString => 12
  | VArgsCombinedSize => 13
  end.
Definition var_eqb (a b : var) : bool := var_code a =? var_code b.

Definition var_name (v : var) : bytes :=
  match v with
  | VArgs => str "ARGS"%string | VArgsGet => str "ARGS_GET"%string | VArgsPost => str "ARGS_POST"%string
  | VArgsNames => str "ARGS_NAMES"%string | VArgsGetNames => str "ARGS_GET_NAMES"%string
  | VArgsPostNames => str "ARGS_POST_NAMES"%string | VReqHeaders => str "REQUEST_HEADERS"%string
  | VReqHeadersNames => str "REQUEST_HEADERS_NAMES"%string | VTx => str "TX"%string
  | VMatchedVar => str "MATCHED_VAR"%string | VMatchedVarName => str "MATCHED_VAR_NAME"%string
  | VReqMethod => str "REQUEST_METHOD"%string | VQueryString => str "QUERY_STRING"%string
  | VArgsCombinedSize => str "ARGS_COMBINED_SIZE"%string
  end.

Record entry := mkE { e_var : var; e_key : bytes; e_val : bytes }.

Definition entry_eqb (a b : entry) : bool :=
  var_eqb (e_var a) (e_var b) && bytes_eqb (e_key a) (e_key b) && bytes_eqb (e_val a) (e_val b).

Record request := mkReq {
  q_get : list (bytes * bytes);     (* decoded query arguments, request order *)
  q_post : list (bytes * bytes);    (* decoded urlencoded body arguments *)
  q_hdr : list (bytes * bytes);     (* request headers as added *)
  q_method : bytes;
  q_query : bytes }.

(* ------------------------------------------------------------------------------------- *)
(* TX values: strings with Go's Atoi arithmetic                                          *)
(* ------------------------------------------------------------------------------------- *)

Inductive tv := TInt (z : Z) | TStr (s : bytes).

Definition z_itoa (z : Z) : bytes :=
  if (z <? 0)%Z then 45 :: itoa (Z.to_N (- z)) else itoa (Z.to_N z).

Fixpoint digits_val (s : bytes) (acc : Z) : option Z :=
  match s with
  | [] => Some acc
  | c :: r => if (48 <=? c) && (c <=? 57) then digits_val r (acc * 10 + Z.of_N (c - 48))%Z else None
  end.

(* strconv.Atoi without the overflow error *)
Definition atoi (s : bytes) : option Z :=
  match s with
  | [] => None
  | c :: r =>
    if c =? 43 then match r with [] => None | _ => digits_val r 0%Z end
    else if c =? 45 then match r with [] => None | _ => option_map Z.opp (digits_val r 0%Z) end
    else digits_val s 0%Z
  end.

Definition render (v : tv) : bytes := match v with TInt z => z_itoa z | TStr s => s end.

(* a stored string; canonical decimal strings are kept as integers (render gives the string back) *)
Definition mk_tv (s : bytes) : tv :=
  match atoi s with
  | Some z => if bytes_eqb (z_itoa z) s then TInt z else TStr s
  | None => TStr s
  end.

(* currentVal of setvar: "" counts as 0, otherwise Atoi *)
Definition cur_int (v : option tv) : option Z :=
  match v with
  | None => Some 0%Z
  | Some (TInt z) => Some z
  | Some (TStr []) => Some 0%Z
  | Some (TStr s) => atoi s
  end.

Definition txmap := list (bytes * tv).

Fixpoint tx_get (m : txmap) (k : bytes) : option tv :=
  match m with
  | [] => None
  | (k', v) :: r => if bytes_eqb k' k then Some v else tx_get r k
  end.

Fixpoint tx_set (m : txmap) (k : bytes) (v : tv) : txmap :=
  match m with
  | [] => [(k, v)]
  | (k', v') :: r => if bytes_eqb k' k then (k', v) :: r else (k', v') :: tx_set r k v
  end.

(* TX.0 .. TX.9: the capture slots *)
Definition is_cap_key (k : bytes) : bool :=
  match k with [c] => (48 <=? c) && (c <=? 57) | _ => false end.

(* ------------------------------------------------------------------------------------- *)
(* transaction state                                                                     *)
(* ------------------------------------------------------------------------------------- *)

Record st := mkSt {
  s_tx : txmap;                          (* TX without the capture slots *)
  s_cap : txmap;                         (* TX.0 .. TX.9 *)
  s_mv : bytes;                          (* MATCHED_VAR *)
  s_mvn : bytes;                         (* MATCHED_VAR_NAME *)
  s_intr : option (nat * N);             (* interruption: rule id, status *)
  s_fired : list (nat * list entry);     (* MatchedRules: rule id, matched data, in firing order *)
  s_hs : N;                              (* HIGHEST_SEVERITY *)
  s_step : nat }.                        (* how many selections were made (index of the oracle) *)

Definition cap_init : txmap := map (fun n => (itoa n, TStr [])) [0; 1; 2; 3; 4; 5; 6; 7; 8; 9].
Definition st_init : st := mkSt [(str "10"%string, TStr [])] cap_init [] [] None [] 255 0.

Definition st_get (s : st) (k : bytes) : option tv :=
  if is_cap_key k then tx_get (s_cap s) k else tx_get (s_tx s) k.

Definition st_set (s : st) (k : bytes) (v : tv) : st :=
  if is_cap_key k
  then mkSt (s_tx s) (tx_set (s_cap s) k v) (s_mv s) (s_mvn s) (s_intr s) (s_fired s) (s_hs s) (s_step s)
  else mkSt (tx_set (s_tx s) k v) (s_cap s) (s_mv s) (s_mvn s) (s_intr s) (s_fired s) (s_hs s) (s_step s).

Definition st_set_mv (s : st) (v n : bytes) : st :=
  mkSt (s_tx s) (s_cap s) v n (s_intr s) (s_fired s) (s_hs s) (s_step s).

Definition st_tick (s : st) : st :=
  mkSt (s_tx s) (s_cap s) (s_mv s) (s_mvn s) (s_intr s) (s_fired s) (s_hs s) (S (s_step s)).

(* ------------------------------------------------------------------------------------- *)
(* rules                                                                                 *)
(* ------------------------------------------------------------------------------------- *)

Record target := mkT {
  t_var : var;
  t_key : option bytes;      (* ARGS:a *)
  t_excl : list bytes;       (* ARGS|!ARGS:b *)
  t_count : bool;            (* &ARGS *)
  t_rx : option bytes }.     (* ARGS:/^pfx/ - regex key; modelled fragment: "^" + literal, applied (as the code
                                does) to the LOWER-CASED stored key; takes precedence over t_key *)

Inductive op :=
  | OAny                     (* @unconditionalMatch *)
  | ORxDot                   (* @rx .        (non-empty; captures the first byte) *)
  | ORxLit (v : bytes)       (* @rx literal  (alphanumeric literal: contains; captures the literal) *)
  | OStreq (v : bytes)
  | OContains (v : bytes)
  | OBeginsWith (v : bytes)
  | OEq (z : Z)
  | OGe (z : Z).

Inductive mpart :=
  | MLit (s : bytes)
  | MMatchedVar              (* %{MATCHED_VAR} *)
  | MMatchedVarName          (* %{MATCHED_VAR_NAME} *)
  | MTx (k : bytes).         (* %{tx.k}, k lower case *)

Inductive action := ASetvar (k : bytes) (v : list mpart).   (* setvar:tx.k=<macro> *)

Record link := mkL {
  l_targets : list target;
  l_tfs : list tid;
  l_op : op;
  l_neg : bool;
  l_capture : bool;
  l_acts : list action }.

Record rule := mkR {
  r_id : nat;
  r_phase : N;
  r_head : link;
  r_chain : list link;
  r_deny : option N;          (* deny with that status; None = pass *)
  r_sev : option N }.         (* severity:N *)

(* ------------------------------------------------------------------------------------- *)
(* selection (GetField)                                                                  *)
(* ------------------------------------------------------------------------------------- *)

Definition kv_entries (v : var) (names : bool) (l : list (bytes * bytes)) : list entry :=
  map (fun kv => mkE v (fst kv) (if names then fst kv else snd kv)) l.

Definition tx_entries (m : txmap) : list entry :=
  map (fun kv => mkE VTx (fst kv) (render (snd kv))) m.

(* sized.go size(): sum of len(key) + len(value) over every stored argument; computed from the
   collections at every evaluation - a VIEW, no state of its own *)
Definition kv_size (l : list (bytes * bytes)) : nat :=
  fold_right (fun kv n => (List.length (fst kv) + List.length (snd kv) + n)%nat) 0%nat l.

(* every entry of the collection, in the canonical (request) order *)
Definition coll_all (v : var) (rq : request) (post : bool) (s : st) : list entry :=
  let p := if post then q_post rq else [] in
  match v with
  | VArgs => kv_entries VArgs false (q_get rq ++ p)
  | VArgsGet => kv_entries VArgsGet false (q_get rq)
  | VArgsPost => kv_entries VArgsPost false p
  | VArgsNames => kv_entries VArgsNames true (q_get rq ++ p)
  | VArgsGetNames => kv_entries VArgsGetNames true (q_get rq)
  | VArgsPostNames => kv_entries VArgsPostNames true p
  | VReqHeaders => kv_entries VReqHeaders false (q_hdr rq)
  | VReqHeadersNames => kv_entries VReqHeadersNames true (q_hdr rq)
  | VTx => tx_entries (s_cap s) ++ tx_entries (s_tx s)
  | VMatchedVar => [mkE VMatchedVar [] (s_mv s)]
  | VMatchedVarName => [mkE VMatchedVarName [] (s_mvn s)]
  | VReqMethod => [mkE VReqMethod [] (q_method rq)]
  | VQueryString => [mkE VQueryString [] (q_query rq)]
  | VArgsCombinedSize => [mkE VArgsCombinedSize [] (itoa (N.of_nat (kv_size (q_get rq ++ p))))]
  end.

Definition is_single_var (v : var) : bool :=
  match v with VMatchedVar | VMatchedVarName | VReqMethod | VQueryString | VArgsCombinedSize => true | _ => false end.

Definition key_is (k : bytes) (e : entry) : bool := bytes_eqb (lower_ascii (e_key e)) (lower_ascii k).

Definition rx_key_is (p : bytes) (e : entry) : bool := is_prefix p (lower_ascii (e_key e)).

Definition find (t : target) (rq : request) (post : bool) (s : st) : list entry :=
  match t_rx t with
  | Some p =>   (* FindRegex: every bucket whose (lower-cased) map key matches, all its entries *)
    if is_single_var (t_var t) then [] else filter (rx_key_is p) (coll_all (t_var t) rq post s)
  | None =>
  match t_key t with
  | None => coll_all (t_var t) rq post s
  | Some k =>
    if is_single_var (t_var t) then []   (* a Single is not collection.Keyed: GetField logs an error, selects nothing *)
    else match t_var t with
         | VTx => match st_get s (lower_ascii k) with
                  | Some v => [mkE VTx (lower_ascii k) (render v)]
                  | None => []
                  end
         | _ => filter (key_is k) (coll_all (t_var t) rq post s)
         end
  end
  end.

Definition excluded (ex : list bytes) (e : entry) : bool := existsb (fun k => key_is k e) ex.

Definition select (t : target) (rq : request) (post : bool) (s : st) : list entry :=
  let l := filter (fun e => negb (excluded (t_excl t) e)) (find t rq post s) in
  if t_count t
  then [mkE (t_var t) (match t_key t with Some k => k | None => [] end) (itoa (N.of_nat (List.length l)))]
  else l.

(* ------------------------------------------------------------------------------------- *)
(* operators, macros, setvar                                                             *)
(* ------------------------------------------------------------------------------------- *)

Definition atoi0 (s : bytes) : Z := match atoi s with Some z => z | None => 0%Z end.

Definition op_raw (o : op) (v : bytes) : bool :=
  match o with
  | OAny => true
  | ORxDot => match v with [] => false | _ => true end
  | ORxLit p => is_substring p v
  | OStreq p => bytes_eqb p v
  | OContains p => is_substring p v
  | OBeginsWith p => is_prefix p v
  | OEq z => (atoi0 v =? z)%Z
  | OGe z => (z <=? atoi0 v)%Z
  end.

(* what a matching operator stores in TX.0 when the link has "capture" *)
Definition op_cap (o : op) (v : bytes) : option bytes :=
  match o with
  | ORxDot => match v with c :: _ => Some [c] | [] => None end
  | ORxLit p => Some p
  | _ => None
  end.

Definition expand_part (s : st) (p : mpart) : bytes :=
  match p with
  | MLit x => x
  | MMatchedVar => s_mv s
  | MMatchedVarName => s_mvn s
  | MTx k => match st_get s k with Some v => render v | None => str "tx."%string ++ k end
  end.

Definition expand (s : st) (m : list mpart) : bytes := flat_map (expand_part s) m.

(* actions/setvar.go evaluateTxCollection *)
Definition setvar_apply (s : st) (k value : bytes) : st :=
  match value with
  | [] => st_set s k (TStr [])
  | c :: rest =>
    if (c =? 43) || (c =? 45) then
      let arith (n : Z) :=
        match cur_int (st_get s k) with
        | None => s
        | Some cur => st_set s k (TInt (if c =? 43 then (cur + n)%Z else (cur - n)%Z))
        end in
      match rest with
      | [] => arith 0%Z
      | _ => match atoi rest with
             | Some n => arith n
             | None => if is_prefix (str "tx."%string) rest then s else st_set s k (mk_tv value)
             end
      end
    else st_set s k (mk_tv value)
  end.

Definition act_apply (s : st) (a : action) : st :=
  match a with ASetvar k m => setvar_apply s k (expand s m) end.

(* ------------------------------------------------------------------------------------- *)
(* evaluation of one link (doEvaluate up to the chain loop)                              *)
(* ------------------------------------------------------------------------------------- *)

Definition match_name (e : entry) : bytes :=
  match e_key e with [] => var_name (e_var e) | k => var_name (e_var e) ++ 58 :: k end.

Definition ord_t := nat -> list entry -> list entry.

(* one selected entry: transform, operator (+capture), on a match MATCHED_VAR*, actions *)
Definition step_entry (lk : link) (p : st * list entry) (e : entry) : st * list entry :=
  let s := fst p in
  let v := fst (exec_tfs (l_tfs lk) (e_val e)) in
  let raw := op_raw (l_op lk) v in
  let s1 := if raw && l_capture lk
            then match op_cap (l_op lk) v with Some c => st_set s (str "0"%string) (mk_tv c) | None => s end
            else s in
  if xorb raw (l_neg lk)
  then let m := mkE (e_var e) (e_key e) v in
       (fold_left act_apply (l_acts lk) (st_set_mv s1 v (match_name m)), snd p ++ [m])
  else (s1, snd p).

Definition eval_target (ord : ord_t) (lk : link) (rq : request) (post : bool)
           (p : st * list entry) (t : target) : st * list entry :=
  let s := fst p in
  fold_left (step_entry lk) (ord (s_step s) (select t rq post s)) (st_tick s, snd p).

Definition eval_link (ord : ord_t) (lk : link) (rq : request) (post : bool) (s : st) : st * list entry :=
  fold_left (eval_target ord lk rq post) (l_targets lk) (s, []).

(* ------------------------------------------------------------------------------------- *)
(* rules, phases, transaction                                                            *)
(* ------------------------------------------------------------------------------------- *)

(* chain loop: a link without match cancels the rule *)
Fixpoint eval_chain (ord : ord_t) (rq : request) (post : bool) (ls : list link)
         (p : st * list entry) : st * option (list entry) :=
  match ls with
  | [] => (fst p, Some (snd p))
  | lk :: r =>
    let q := eval_link ord lk rq post (fst p) in
    match snd q with
    | [] => (fst q, None)
    | m => eval_chain ord rq post r (fst q, snd p ++ m)
    end
  end.

Definition fire (r : rule) (s : st) (m : list entry) : st :=
  let intr := match s_intr s, r_deny r with
              | None, Some status => Some (r_id r, status)
              | i, _ => i
              end in
  let hs := match r_sev r with Some v => if v <? s_hs s then v else s_hs s | None => s_hs s end in
  mkSt (s_tx s) (s_cap s) (s_mv s) (s_mvn s) intr (s_fired s ++ [(r_id r, m)]) hs (s_step s).

Definition eval_rule (ord : ord_t) (rq : request) (post : bool) (r : rule) (s : st) : st :=
  let q := eval_link ord (r_head r) rq post s in
  match snd q with
  | [] => fst q
  | _ => match eval_chain ord rq post (r_chain r) q with
         | (s', Some m) => fire r s' m
         | (s', None) => s'
         end
  end.

Definition interrupted (s : st) : bool := match s_intr s with Some _ => true | None => false end.

Fixpoint eval_rules (ord : ord_t) (rq : request) (post : bool) (ph : N) (rs : list rule) (s : st) : st :=
  match rs with
  | [] => s
  | r :: rest =>
    if r_phase r =? ph
    then if interrupted s && negb (ph =? 5) then s
         else eval_rules ord rq post ph rest (eval_rule ord rq post r s)
    else eval_rules ord rq post ph rest s
  end.

Definition run (cfg : list rule) (rq : request) (ord : ord_t) : st :=
  let s1 := eval_rules ord rq false 1 cfg st_init in
  if interrupted s1 then eval_rules ord rq false 5 cfg s1
  else eval_rules ord rq true 5 cfg (eval_rules ord rq true 2 cfg s1).

(* ------------------------------------------------------------------------------------- *)
(* the observable outcome                                                                *)
(* ------------------------------------------------------------------------------------- *)

Record obs := mkObs {
  o_intr : option (nat * N);
  o_fired : list (nat * list entry);
  o_tx : txmap;
  o_hs : N }.

Definition observe (s : st) : obs := mkObs (s_intr s) (s_fired s) (s_tx s) (s_hs s).

Definition fired_equiv (a b : list (nat * list entry)) : Prop :=
  Forall2 (fun x y => fst x = fst y /\ Permutation (snd x) (snd y)) a b.

(* interruption equal, same rules fired in the same order, per rule the same MULTISET of matched
   (variable, key, value), counters equal, highest severity equal *)
Definition obs_equiv (a b : obs) : Prop :=
  o_intr a = o_intr b /\ fired_equiv (o_fired a) (o_fired b) /\ o_tx a = o_tx b /\ o_hs a = o_hs b.

Definition perm_oracle (ord : ord_t) : Prop := forall n l, Permutation (ord n l) l.

(* ------------------------------------------------------------------------------------- *)
(* the static guard: order_insensitive                                                   *)
(* ------------------------------------------------------------------------------------- *)

(* a target whose selection can hold several entries (a Go map is iterated) *)
Definition multi_target (t : target) : bool :=
  if t_count t then false
  else if is_single_var (t_var t) then false
  else match t_rx t with
       | Some _ => true
       | None => match t_var t, t_key t with
                 | VTx, Some _ => false
                 | _, _ => true
                 end
       end.

Definition multi_link (lk : link) : bool := existsb multi_target (l_targets lk).

Definition reads_mv_target (t : target) : bool :=
  match t_var t with VMatchedVar | VMatchedVarName => true | _ => false end.

Definition reads_cap_target (t : target) : bool :=
  match t_var t with
  | VTx => match t_rx t with
           | Some _ => true
           | None => match t_key t with None => true | Some k => is_cap_key (lower_ascii k) end
           end
  | _ => false
  end.

Definition part_reads_mv (p : mpart) : bool :=
  match p with MMatchedVar | MMatchedVarName => true | _ => false end.
Definition part_reads_cap (p : mpart) : bool :=
  match p with MTx k => is_cap_key k | _ => false end.

Definition act_reads_mv (a : action) : bool := match a with ASetvar _ m => existsb part_reads_mv m end.
Definition act_reads_cap (a : action) : bool := match a with ASetvar _ m => existsb part_reads_cap m end.
Definition act_writes_cap (a : action) : bool := match a with ASetvar k _ => is_cap_key k end.

Definition captures (lk : link) : bool :=
  l_capture lk && match l_op lk with ORxDot | ORxLit _ => true | _ => false end.

Definition tm_after (tm : bool) (lk : link) : bool := tm || multi_link lk.
Definition tc_after (tc : bool) (lk : link) : bool := tc || (multi_link lk && captures lk).

(* [tm]: MATCHED_VAR / MATCHED_VAR_NAME may depend on the order; [tc]: TX.0-9 may.
   Targets are read while the link is being evaluated (a later target of the same link sees what
   the earlier ones did), so they are checked against the flags AFTER the link. *)
Definition link_ok (tm tc : bool) (lk : link) : bool :=
  forallb (fun t => (negb (reads_mv_target t) || negb (tm_after tm lk))
                    && (negb (reads_cap_target t) || negb (tc_after tc lk))) (l_targets lk)
  && forallb (fun a => negb (act_writes_cap a)
                       && (negb (act_reads_mv a) || negb (multi_link lk))
                       && (negb (act_reads_cap a) || negb (tc_after tc lk))) (l_acts lk).

(* chain links: when a link is evaluated the previous one has matched, and a link without a
   multi-valued target has then written MATCHED_VAR deterministically *)
Fixpoint chain_ok (tm tc : bool) (ls : list link) : bool :=
  match ls with
  | [] => true
  | lk :: r => link_ok tm tc lk && chain_ok (multi_link lk) (tc_after tc lk) r
  end.

Definition rule_ok (tm tc : bool) (r : rule) : bool :=
  link_ok tm tc (r_head r) && chain_ok (multi_link (r_head r)) (tc_after tc (r_head r)) (r_chain r).

Definition rule_links (r : rule) : list link := r_head r :: r_chain r.
Definition rule_tm (tm : bool) (r : rule) : bool := tm || existsb multi_link (rule_links r).
Definition rule_tc (tc : bool) (r : rule) : bool := tc || existsb (fun lk => multi_link lk && captures lk) (rule_links r).

Fixpoint rules_ok (ph : N) (tm tc : bool) (rs : list rule) : bool * (bool * bool) :=
  match rs with
  | [] => (true, (tm, tc))
  | r :: rest =>
    if r_phase r =? ph
    then let '(b, f) := rules_ok ph (rule_tm tm r) (rule_tc tc r) rest in (rule_ok tm tc r && b, f)
    else rules_ok ph tm tc rest
  end.

(* the configuration in evaluation order: phase 1, phase 2, phase 5 *)
Definition order_insensitive (cfg : list rule) : bool :=
  let '(b1, (tm1, tc1)) := rules_ok 1 false false cfg in
  let '(b2, (tm2, tc2)) := rules_ok 2 tm1 tc1 cfg in
  let '(b5, _) := rules_ok 5 tm2 tc2 cfg in
  (* when phase 1 interrupts, phase 5 follows phase 1 directly *)
  let '(b5', _) := rules_ok 5 tm1 tc1 cfg in
  b1 && b2 && b5 && b5'.

(* ------------------------------------------------------------------------------------- *)
(* oracles used by the correspondence run and the witnesses                              *)
(* ------------------------------------------------------------------------------------- *)

Definition ord_id : ord_t := fun _ l => l.
Definition ord_rev : ord_t := fun _ l => rev l.
(* selection number n is reversed when bit n of the mask is set *)
Definition ord_mask (mask : N) : ord_t := fun n l => if N.testbit mask (N.of_nat n) then rev l else l.
