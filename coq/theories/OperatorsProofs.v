(* OperatorsProofs.v — the documented predicates of the operators (module Spec) and the proofs
   that the scanner-style models of Operators.v decide exactly those predicates. *)
From Verif Require Import Base Utf8 Operators.
From Coq Require Import String.
Open Scope N_scope.
Notation length := List.length (only parsing).
Notation sstr x := (str x%string) (only parsing).

(* ==================================================================================== *)
(* Spec: direct, declarative statements of what each operator is documented to decide    *)
(* ==================================================================================== *)
Module Spec.
  (* p occurs in s *)
  Definition occurs (p s : bytes) : Prop := exists a b, s = a ++ p ++ b.
  Definition begins (p s : bytes) : Prop := exists b, s = p ++ b.
  Definition ends (p s : bytes) : Prop := exists a, s = a ++ p.
  (* p occurs in s up to ASCII letter case *)
  Definition occurs_ci (p s : bytes) : Prop :=
    exists a m b, s = a ++ m ++ b /\ lower_ascii m = lower_ascii p.
  (* @pm: some listed phrase occurs, ASCII-case-insensitively *)
  Definition pm (phrases : list bytes) (s : bytes) : Prop :=
    exists p, In p phrases /\ occurs_ci p s.

  (* the string operators, [data] being the (macro-expanded) argument *)
  Definition mop_str (o : mop) (data v : bytes) : Prop :=
    match o with
    | OStreq => v = data
    | OContains | OStrmatch => occurs data v
    | OBeginsWith => begins data v
    | OEndsWith => ends data v
    | OWithin => occurs v data
    | _ => False
    end.

  (* integers as documented for the numeric operators: optional sign, decimal digits,
     saturating at the int64 range; anything else counts as 0 *)
  Definition digits_value (ds : bytes) : N := fold_left (fun a d => a * 10 + (d - 48)) ds 0.
  Definition clamp (z : Z) : Z :=
    Z.max (- Z.of_N two63) (Z.min z (Z.of_N two63 - 1)).
  Definition int_value (s : bytes) : Z :=
    match s with
    | [] => 0%Z
    | c :: r =>
      let neg := c =? 45 in
      let body := if (c =? 43) || neg then r else s in
      match body with
      | [] => 0%Z
      | _ => if forallb is_digit body
             then clamp (if neg then - Z.of_N (digits_value body) else Z.of_N (digits_value body))
             else 0%Z
      end
    end.
  Definition mop_num (o : mop) (data v : bytes) : bool :=
    match o with
    | OEq => (int_value v =? int_value data)%Z
    | OGe => (int_value v >=? int_value data)%Z
    | OGt => (int_value v >? int_value data)%Z
    | OLe => (int_value v <=? int_value data)%Z
    | OLt => (int_value v <? int_value data)%Z
    | _ => false
    end.

  (* @validateByteRange: an item "n" allows n, an item "a-b" allows a..b (nothing if b < a) *)
  Definition vbr_item_range (item : bytes) : option (Z * Z) :=
    let '(st, en, found) := cut_byte 45 (trim_space item) in
    let '(s, es) := go_atoi st in
    if (es =? 0) && valid_byte_z s then
      if found then
        let '(e, ee) := go_atoi en in
        if (ee =? 0) && valid_byte_z e then Some (s, e) else None
      else Some (s, s)
    else None.
  Definition vbr_allowed (items : list bytes) (b : N) : Prop :=
    exists it lo hi, In it items /\ vbr_item_range it = Some (lo, hi) /\ (lo <= Z.of_N b <= hi)%Z.
  Definition vbr (items : list bytes) (v : bytes) : Prop :=
    exists b, In b v /\ ~ vbr_allowed items b.

  (* @validateUrlEncoding: some '%' is not followed by two hexadecimal digits *)
  Definition pct_ok (s : bytes) : Prop :=
    forall i, nth_error s i = Some 37 ->
      exists h1 h2, nth_error s (S i) = Some h1 /\ nth_error s (S (S i)) = Some h2
                    /\ is_hex_digit h1 = true /\ is_hex_digit h2 = true.
  Definition vue (s : bytes) : Prop := ~ pct_ok s.

  (* @validateUtf8Encoding: s is not a concatenation of well-formed UTF-8 sequences
     (RFC 3629: scalar values U+0000..U+10FFFF without surrogates, shortest form) *)
  Definition scalar (r : N) : Prop := r <= 1114111 /\ ~ (55296 <= r <= 57343).
  Definition utf8_wf (s : bytes) : Prop :=
    exists rs, Forall scalar rs /\ s = flat_map encode_rune rs.
End Spec.

(* ==================================================================================== *)
(* small list facts                                                                      *)
(* ==================================================================================== *)
Lemma is_prefix_iff p s : is_prefix p s = true <-> exists b, s = p ++ b.
Proof.
  revert s; induction p as [|x p IH]; intros s; cbn [is_prefix].
  - split; [intros _; exists s; reflexivity | reflexivity].
  - destruct s as [|y s].
    + split; [discriminate | intros [b H]; discriminate].
    + rewrite andb_true_iff, N.eqb_eq, IH. split.
      * intros [-> [b ->]]. exists b. reflexivity.
      * intros [b H]. inversion H; subst. split; [reflexivity | exists b; reflexivity].
Qed.

Lemma is_prefix_refl_app p b : is_prefix p (p ++ b) = true.
Proof. apply is_prefix_iff. exists b. reflexivity. Qed.

Lemma go_index_from_none p s i :
  go_index_from p s i = None <-> (forall a b, s <> a ++ p ++ b).
Proof.
  revert i; induction s as [|c s IH]; intros i; cbn [go_index_from].
  - destruct (is_prefix p []) eqn:E.
    + split; [discriminate|]. intros H. apply is_prefix_iff in E as [b Hb]. exfalso. apply (H [] b). exact Hb.
    + split; [|reflexivity]. intros _ a b H.
      destruct a; cbn in H; [|discriminate].
      assert (is_prefix p [] = true) by (apply is_prefix_iff; exists b; exact H). congruence.
  - destruct (is_prefix p (c :: s)) eqn:E.
    + split; [discriminate|]. intros H. apply is_prefix_iff in E as [b Hb]. exfalso. apply (H [] b). exact Hb.
    + rewrite IH. split.
      * intros H a b Hab. destruct a as [|x a]; cbn in Hab.
        -- assert (is_prefix p (c :: s) = true) by (apply is_prefix_iff; exists b; exact Hab). congruence.
        -- inversion Hab; subst. apply (H a b). reflexivity.
      * intros H a b Hab. apply (H (c :: a) b). cbn. rewrite Hab. reflexivity.
Qed.

Lemma go_index_from_some p s i n :
  go_index_from p s i = Some n ->
  exists a b, s = a ++ p ++ b /\ n = (i + length a)%nat /\ (forall a' b', s = a' ++ p ++ b' -> (length a <= length a')%nat).
Proof.
  revert i; induction s as [|c s IH]; intros i; cbn [go_index_from].
  - destruct (is_prefix p []) eqn:E; [|discriminate].
    intros H; inversion H; subst. apply is_prefix_iff in E as [b Hb].
    exists [], b. cbn. repeat split; [exact Hb | lia | intros; lia].
  - destruct (is_prefix p (c :: s)) eqn:E.
    + intros H; inversion H; subst. apply is_prefix_iff in E as [b Hb].
      exists [], b. cbn. repeat split; [exact Hb | lia | intros; lia].
    + intros H. apply IH in H as [a [b [Hs [Hn Hmin]]]].
      exists (c :: a), b. cbn [app length]. repeat split.
      * rewrite Hs. reflexivity.
      * lia.
      * intros a' b' H'. destruct a' as [|x a']; cbn in H'.
        -- assert (is_prefix p (c :: s) = true) by (apply is_prefix_iff; exists b'; exact H'). congruence.
        -- inversion H'; subst x. cbn [length]. apply le_n_S. apply (Hmin a' b'). assumption.
Qed.

Lemma go_contains_iff s p : go_contains s p = true <-> Spec.occurs p s.
Proof.
  unfold go_contains, Spec.occurs.
  destruct (go_index_from p s 0) eqn:E.
  - split; [intros _|reflexivity].
    apply go_index_from_some in E as [a [b [H _]]]. exists a, b. exact H.
  - split; [discriminate|]. intros [a [b H]]. exfalso.
    apply (proj1 (go_index_from_none p s 0) E a b H).
Qed.

Lemma go_has_prefix_iff s p : go_has_prefix s p = true <-> Spec.begins p s.
Proof. unfold go_has_prefix, Spec.begins. apply is_prefix_iff. Qed.

Lemma go_has_suffix_iff s p : go_has_suffix s p = true <-> Spec.ends p s.
Proof.
  unfold go_has_suffix, Spec.ends. rewrite andb_true_iff, Nat.leb_le, bytes_eqb_eq. split.
  - intros [Hl He]. exists (firstn (length s - length p) s).
    rewrite <- He at 2. symmetry. apply firstn_skipn.
  - intros [a ->]. rewrite app_length. split; [lia|].
    replace (length a + length p - length p)%nat with (length a) by lia.
    rewrite skipn_app, skipn_all, Nat.sub_diag. reflexivity.
Qed.

(* ---- the five string operators decide exactly their documented predicate ---- *)
Definition is_str_op (o : mop) : bool :=
  match o with OStreq | OContains | OStrmatch | OBeginsWith | OEndsWith | OWithin => true | _ => false end.

Lemma eval_mop_str_exact o data v :
  is_str_op o = true -> (eval_mop o data v = true <-> Spec.mop_str o data v).
Proof.
  destruct o; cbn [is_str_op eval_mop Spec.mop_str]; try discriminate; intros _.
  - rewrite bytes_eqb_eq. split; congruence.
  - apply go_contains_iff.
  - apply go_contains_iff.
  - apply go_has_prefix_iff.
  - apply go_has_suffix_iff.
  - apply go_contains_iff.
Qed.

(* ---- macro arguments ---- *)
(* an argument without '%' is one literal token *)
Lemma mc_scan_literal inp : forall prev cur toks,
  forallb (fun c => negb (c =? 37)) inp = true ->
  mc_scan inp prev cur false toks = Some (flush_text (cur ++ inp) toks).
Proof.
  induction inp as [|c r IH]; intros prev cur toks H; cbn [mc_scan].
  - rewrite app_nil_r. reflexivity.
  - cbn [forallb] in H. apply andb_true_iff in H as [Hc Hr].
    apply negb_true_iff in Hc. rewrite Hc. cbn [negb].
    rewrite IH by exact Hr. rewrite <- app_assoc. reflexivity.
Qed.

Lemma macro_compile_literal arg :
  arg <> [] -> forallb (fun c => negb (c =? 37)) arg = true ->
  macro_compile arg = Some [MText arg].
Proof.
  intros Hne H. unfold macro_compile. destruct arg as [|c r]; [contradiction|].
  rewrite mc_scan_literal by exact H. cbn [app flush_text]. reflexivity.
Qed.

Lemma macro_expand_literal tx arg : macro_expand tx [MText arg] = arg.
Proof. unfold macro_expand. cbn. apply app_nil_r. Qed.

(* "%{tx.KEY}" alone (KEY a non-empty run of letters/digits/_) is one TX token *)
Definition key_char (c : N) : bool :=
  is_digit c || ((65 <=? c) && (c <=? 90)) || ((97 <=? c) && (c <=? 122)) || (c =? 95).

Lemma key_char_facts c : key_char c = true ->
  valid_macro_char c = true /\ c <> 37 /\ c <> 125 /\ c <> 46.
Proof.
  unfold key_char, valid_macro_char, is_digit.
  rewrite !orb_true_iff, !andb_true_iff, !N.leb_le, !N.eqb_eq. lia.
Qed.

Lemma mc_scan_step_valid c r prev cur toks :
  valid_macro_char c = true -> c <> 37 -> c <> 125 -> r <> [] ->
  mc_scan (c :: r) prev cur true toks = mc_scan r c (cur ++ [c]) true toks.
Proof.
  intros Hv H37 H125 Hr.
  apply N.eqb_neq in H37, H125. cbn [mc_scan]. rewrite H37, H125, Hv. cbn [negb].
  destruct r; [contradiction | reflexivity].
Qed.

Lemma mc_scan_step_key c r prev cur toks :
  key_char c = true -> r <> [] ->
  mc_scan (c :: r) prev cur true toks = mc_scan r c (cur ++ [c]) true toks.
Proof.
  intros Hc Hr. destruct (key_char_facts c Hc) as [Hv [H37 [H125 H46]]].
  apply mc_scan_step_valid; assumption.
Qed.

Lemma mc_scan_open r prev cur ism toks :
  mc_scan (37 :: 123 :: r) prev cur ism toks = mc_scan r 123 [] true (flush_text cur toks).
Proof. reflexivity. Qed.

Lemma mc_scan_close prev cur toks :
  prev <> 46 ->
  mc_scan [125] prev cur true toks =
  (let '(var, key, _) := cut_byte 46 cur in
   if bytes_eqb (lower_ascii var) (sstr "tx") then Some (toks ++ [MTx cur (lower_ascii key)]) else None).
Proof.
  intros H. apply N.eqb_neq in H. cbn [mc_scan]. 
  change (125 =? 37) with false. change (125 =? 125) with true. cbn iota. rewrite H.
  destruct (cut_byte 46 cur) as [[var key] f]. destruct (bytes_eqb (lower_ascii var) (sstr "tx")); reflexivity.
Qed.

Lemma last_nonempty_default {A} (x : A) k d1 d2 : last (x :: k) d1 = last (x :: k) d2.
Proof.
  revert x; induction k as [|y k IH]; intros x; [reflexivity|].
  change (last (x :: y :: k) d1) with (last (y :: k) d1).
  change (last (x :: y :: k) d2) with (last (y :: k) d2). apply IH.
Qed.

Lemma last_cons_default {A} (c : A) k d : last (c :: k) d = last k c.
Proof.
  destruct k as [|x k]; [reflexivity|].
  change (last (c :: x :: k) d) with (last (x :: k) d). apply last_nonempty_default.
Qed.

Lemma mc_scan_key key : forall prev cur toks rest,
  forallb key_char key = true ->
  mc_scan (key ++ 125 :: rest) prev cur true toks
  = mc_scan (125 :: rest) (last key prev) (cur ++ key) true toks.
Proof.
  induction key as [|c k IH]; intros prev cur toks rest H.
  - cbn [app last]. rewrite app_nil_r. reflexivity.
  - cbn [forallb] in H. apply andb_true_iff in H as [Hc Hk].
    change ((c :: k) ++ 125 :: rest) with (c :: (k ++ 125 :: rest)).
    rewrite mc_scan_step_key; [|exact Hc | destruct k; discriminate].
    rewrite IH by exact Hk. rewrite last_cons_default, <- app_assoc. reflexivity.
Qed.

Lemma cut_byte_no_sep sep s :
  forallb (fun c => negb (c =? sep)) s = true -> cut_byte sep s = (s, [], false).
Proof.
  induction s as [|c r IH]; cbn [forallb cut_byte]; [reflexivity|].
  intros H. apply andb_true_iff in H as [Hc Hr]. apply negb_true_iff in Hc. rewrite Hc, IH by exact Hr.
  reflexivity.
Qed.

Lemma last_key_char key d : key <> [] -> forallb key_char key = true -> last key d <> 46.
Proof.
  induction key as [|c k IH]; [contradiction|]. intros _ H.
  cbn [forallb] in H. apply andb_true_iff in H as [Hc Hk].
  destruct k as [|c2 k'].
  - cbn. apply (key_char_facts c Hc).
  - change (last (c :: c2 :: k') d) with (last (c2 :: k') d). apply IH; [discriminate | exact Hk].
Qed.

(* the argument "%{tx.KEY}" compiles to exactly one TX token with the lower-cased key *)
Lemma macro_compile_tx_var key :
  key <> [] -> forallb key_char key = true ->
  macro_compile (sstr "%{tx." ++ key ++ [125])
  = Some [MTx (sstr "tx." ++ key) (lower_ascii key)].
Proof.
  intros Hne Hk. unfold macro_compile.
  change (sstr "%{tx." ++ key ++ [125]) with (37 :: 123 :: 116 :: 120 :: 46 :: key ++ [125]).
  rewrite mc_scan_open. cbn [flush_text].
  assert (Hr : key ++ [125] <> []) by (destruct key; discriminate).
  rewrite mc_scan_step_valid; [|reflexivity|discriminate|discriminate|discriminate].
  rewrite mc_scan_step_valid; [|reflexivity|discriminate|discriminate|discriminate].
  rewrite mc_scan_step_valid; [|reflexivity|discriminate|discriminate|exact Hr].
  cbn [app].
  rewrite (mc_scan_key key 46 [116; 120; 46] [] [] Hk).
  rewrite mc_scan_close by (apply last_key_char; assumption).
  cbn [app cut_byte N.eqb Pos.eqb]. reflexivity.
Qed.

(* ==================================================================================== *)
(* @pm                                                                                   *)
(* ==================================================================================== *)
Lemma lower_length s : length (lower_ascii s) = length s.
Proof. apply map_length. Qed.

Lemma map_eq_app_split {A B} (f : A -> B) s a b :
  map f s = a ++ b ->
  s = firstn (length a) s ++ skipn (length a) s /\ map f (firstn (length a) s) = a.
Proof.
  intros H. split; [symmetry; apply firstn_skipn|].
  rewrite <- firstn_map, H. rewrite firstn_app, Nat.sub_diag, firstn_all. cbn. apply app_nil_r.
Qed.

Lemma prefix_ci_iff p s :
  prefix_ci p s = true <-> exists m b, s = m ++ b /\ lower_ascii m = lower_ascii p.
Proof.
  unfold prefix_ci. rewrite is_prefix_iff. split.
  - intros [b' H]. unfold lower_ascii in H at 1. apply map_eq_app_split in H as [H1 H2].
    eexists _, _. split; [exact H1 | exact H2].
  - intros [m [b [-> H]]]. exists (lower_ascii b). unfold lower_ascii in *. rewrite map_app. f_equal. exact H.
Qed.

Lemma prefix_ci_firstn p s :
  prefix_ci p s = true -> lower_ascii (firstn (length p) s) = lower_ascii p.
Proof.
  intros H. apply prefix_ci_iff in H as [m [b [-> H]]].
  assert (length m = length p) by (rewrite <- (lower_length m), H; apply lower_length).
  rewrite <- H0, firstn_app, Nat.sub_diag, firstn_all. cbn. rewrite app_nil_r. exact H.
Qed.

Definition la_step (s : bytes) (best : option nat) (p : bytes) : option nat :=
  if prefix_ci p s then
    match best with
    | Some l => if (l <? length p)%nat then Some (length p) else best
    | None => Some (length p)
    end
  else best.

Lemma longest_at_unfold ps s : longest_at ps s = fold_left (la_step s) ps None.
Proof. reflexivity. Qed.

Lemma la_fold_none s ps : forall best,
  fold_left (la_step s) ps best = None <->
  best = None /\ forall p, In p ps -> prefix_ci p s = false.
Proof.
  induction ps as [|p ps IH]; intros best; cbn [fold_left].
  - split; [intros ->; split; [reflexivity | intros ? []] | intros [-> _]; reflexivity].
  - rewrite IH. unfold la_step. split.
    + intros [H1 H2]. destruct (prefix_ci p s) eqn:E.
      * destruct best as [l|]; [destruct (l <? length p)%nat|]; discriminate.
      * split; [exact H1|]. intros q [<-|Hq]; [exact E | apply H2; exact Hq].
    + intros [-> H]. rewrite (H p (or_introl eq_refl)). split; [reflexivity|].
      intros q Hq. apply H. right; exact Hq.
Qed.

Lemma la_fold_some s ps : forall best l,
  fold_left (la_step s) ps best = Some l ->
  (best = Some l \/ exists p, In p ps /\ prefix_ci p s = true /\ length p = l)
  /\ (forall p, In p ps -> prefix_ci p s = true -> (length p <= l)%nat)
  /\ (forall b, best = Some b -> (b <= l)%nat).
Proof.
  induction ps as [|p ps IH]; intros best l; cbn [fold_left].
  - intros ->. split; [left; reflexivity|]. split; [intros ? []|]. intros b Hb; inversion Hb; lia.
  - intros H. apply IH in H as [H1 [H2 H3]]. unfold la_step in H1, H3.
    destruct (prefix_ci p s) eqn:E.
    + destruct best as [b0|].
      * destruct (b0 <? length p)%nat eqn:Eb.
        -- apply Nat.ltb_lt in Eb. specialize (H3 _ eq_refl). split; [|split].
           ++ destruct H1 as [H1|[q [Hq1 Hq2]]].
              ** inversion H1; subst. right. exists p. split; [left; reflexivity|]. split; [exact E | reflexivity].
              ** right. exists q. split; [right; exact Hq1 | exact Hq2].
           ++ intros q [<-|Hq] Hp; [exact H3 | apply H2; assumption].
           ++ intros b Hb; inversion Hb; subst. lia.
        -- apply Nat.ltb_ge in Eb. specialize (H3 _ eq_refl). split; [|split].
           ++ destruct H1 as [H1|[q [Hq1 Hq2]]]; [left; exact H1|].
              right. exists q. split; [right; exact Hq1 | exact Hq2].
           ++ intros q [<-|Hq] Hp; [lia | apply H2; assumption].
           ++ intros b Hb; inversion Hb; subst. exact H3.
      * specialize (H3 _ eq_refl). split; [|split].
        -- destruct H1 as [H1|[q [Hq1 Hq2]]].
           ++ inversion H1; subst. right. exists p. split; [left; reflexivity|]. split; [exact E | reflexivity].
           ++ right. exists q. split; [right; exact Hq1 | exact Hq2].
        -- intros q [<-|Hq] Hp; [exact H3 | apply H2; assumption].
        -- intros b Hb; discriminate.
    + split; [|split].
      * destruct H1 as [H1|[q [Hq1 Hq2]]]; [left; exact H1|].
        right. exists q. split; [right; exact Hq1 | exact Hq2].
      * intros q [<-|Hq] Hp; [congruence | apply H2; assumption].
      * exact H3.
Qed.

(* the longest listed phrase matching at the head of s *)
Lemma longest_at_some ps s l :
  longest_at ps s = Some l ->
  (exists p, In p ps /\ prefix_ci p s = true /\ length p = l)
  /\ (forall p, In p ps -> prefix_ci p s = true -> (length p <= l)%nat).
Proof.
  rewrite longest_at_unfold. intros H. apply la_fold_some in H as [[H|H] [H2 _]]; [discriminate|].
  split; assumption.
Qed.

Lemma longest_at_none ps s :
  longest_at ps s = None <-> forall p, In p ps -> prefix_ci p s = false.
Proof.
  rewrite longest_at_unfold, la_fold_none. split; [intros [_ H]; exact H | intros H; split; [reflexivity | exact H]].
Qed.

(* every reported match is an occurrence of a listed phrase (up to ASCII case) ... *)
Lemma ac_matches_sound ps s m :
  In m (ac_matches ps s) ->
  exists a b p, s = a ++ m ++ b /\ In p ps /\ lower_ascii m = lower_ascii p.
Proof.
  induction s as [|c s IH]; cbn [ac_matches]; intros H; apply in_app_or in H as [H|H].
  - destruct (longest_at ps []) as [l|] eqn:E; [|destruct H].
    destruct H as [<-|[]]. apply longest_at_some in E as [[p [Hp [Hpre Hl]]] _].
    exists [], (skipn l []), p. split; [|split; [exact Hp|]].
    + cbn [app]. symmetry. apply firstn_skipn.
    + subst l. apply prefix_ci_firstn. exact Hpre.
  - destruct H.
  - destruct (longest_at ps (c :: s)) as [l|] eqn:E; [|destruct H].
    destruct H as [<-|[]]. apply longest_at_some in E as [[p [Hp [Hpre Hl]]] _].
    exists [], (skipn l (c :: s)), p. split; [|split; [exact Hp|]].
    + cbn [app]. symmetry. apply firstn_skipn.
    + subst l. apply prefix_ci_firstn. exact Hpre.
  - apply IH in H as [a [b [p [Hs [Hp Hm]]]]].
    exists (c :: a), b, p. split; [cbn; rewrite Hs; reflexivity | split; assumption].
Qed.

(* ... and an occurrence of any listed phrase makes the match list non-empty *)
Lemma ac_matches_complete ps s :
  Spec.pm ps s -> ac_matches ps s <> [].
Proof.
  intros [p [Hp [a [m [b [Hs Hm]]]]]]. subst s.
  induction a as [|x a IH].
  - cbn [app].
    assert (Hpre : prefix_ci p (m ++ b) = true) by (apply prefix_ci_iff; exists m, b; split; [reflexivity | exact Hm]).
    destruct (longest_at ps (m ++ b)) as [l|] eqn:E.
    + destruct (m ++ b); cbn [ac_matches]; rewrite E; discriminate.
    + rewrite longest_at_none in E. rewrite (E p Hp) in Hpre. discriminate.
  - cbn [app ac_matches]. intros H. apply app_eq_nil in H as [_ H]. apply IH. exact H.
Qed.

Lemma ac_matches_nonempty_iff ps s : ac_matches ps s <> [] <-> Spec.pm ps s.
Proof.
  split; [|apply ac_matches_complete].
  intros H. destruct (ac_matches ps s) as [|m r] eqn:E; [contradiction|].
  assert (Hin : In m (ac_matches ps s)) by (rewrite E; left; reflexivity).
  apply ac_matches_sound in Hin as [a [b [p [Hs [Hp Hm]]]]].
  exists p. split; [exact Hp|]. exists a, m, b. split; assumption.
Qed.

(* minPatternLen never exceeds the length of a listed phrase *)
Lemma min_pattern_len_from_le ps : forall mn,
  (forall p, In p ps -> (min_pattern_len_from ps mn <= length p)%nat)
  /\ ((0 < mn)%nat -> (min_pattern_len_from ps mn <= mn)%nat).
Proof.
  induction ps as [|p ps IH]; intros mn; cbn [min_pattern_len_from].
  - split; [intros ? [] | intros; lia].
  - destruct p as [|c p'].
    + split; intros; lia.
    + set (p := c :: p') in *.
      assert (Hpos : (0 < length p)%nat) by (subst p; cbn; lia).
      destruct (Nat.eqb mn 0 || (length p <? mn)%nat) eqn:E.
      * destruct (IH (length p)) as [I1 I2]. specialize (I2 Hpos). split.
        -- intros q [<-|Hq]; [exact I2 | apply I1; exact Hq].
        -- intros Hmn. apply orb_true_iff in E as [E|E].
           ++ apply Nat.eqb_eq in E. lia.
           ++ apply Nat.ltb_lt in E. lia.
      * apply orb_false_iff in E as [E1 E2]. apply Nat.eqb_neq in E1. apply Nat.ltb_ge in E2.
        destruct (IH mn) as [I1 I2]. assert (Hmn : (0 < mn)%nat) by lia. specialize (I2 Hmn). split.
        -- intros q [<-|Hq]; [lia | apply I1; exact Hq].
        -- intros _. exact I2.
Qed.

Lemma occurs_ci_length p s : Spec.occurs_ci p s -> (length p <= length s)%nat.
Proof.
  intros [a [m [b [-> H]]]].
  assert (length m = length p) by (rewrite <- (lower_length m), H; apply lower_length).
  rewrite !app_length. lia.
Qed.

(* the length pre-check is sound: a value shorter than minPatternLen contains no phrase *)
Lemma pm_minlen_sound ps s :
  (length s < min_pattern_len ps)%nat -> ~ Spec.pm ps s.
Proof.
  intros Hlt [p [Hp Hocc]]. apply occurs_ci_length in Hocc.
  pose proof (proj1 (min_pattern_len_from_le ps 0) p Hp). unfold min_pattern_len in Hlt. lia.
Qed.

(* @pm on a phrase list decides exactly "some listed phrase occurs, ASCII-case-insensitively" *)
Lemma pm_eval_exact ps capturing v :
  fst (pm_eval ps capturing v) = true <-> Spec.pm ps v.
Proof.
  unfold pm_eval. destruct (length v <? min_pattern_len ps)%nat eqn:E.
  - apply Nat.ltb_lt in E. cbn [fst]. split; [discriminate|].
    intros H. exfalso. exact (pm_minlen_sound ps v E H).
  - cbn [fst]. rewrite <- ac_matches_nonempty_iff.
    destruct (ac_matches ps v); split; intros H; try discriminate; try reflexivity; try (exfalso; apply H; reflexivity).
Qed.

(* the captured texts: at most ten, each an occurrence of a listed phrase in the value *)
Lemma pm_captures_sound ps v :
  (length (snd (pm_eval ps true v)) <= 10)%nat /\
  forall m, In m (snd (pm_eval ps true v)) ->
    exists a b p, v = a ++ m ++ b /\ In p ps /\ lower_ascii m = lower_ascii p.
Proof.
  unfold pm_eval. destruct (length v <? min_pattern_len ps)%nat; cbn [snd].
  - split; [cbn; lia | intros ? []].
  - split; [apply firstn_le_length|].
    intros m Hm. apply ac_matches_sound. revert Hm. generalize (ac_matches ps v). intros l.
    generalize 10%nat. intros n. revert l. induction n; intros l H; [destruct H|].
    destruct l; [destruct H|]. destruct H as [<-|H]; [left; reflexivity | right; apply IHn; exact H].
Qed.

(* nothing is captured, and nothing stored, without `capture` *)
Lemma pm_no_capture ps v : snd (pm_eval ps false v) = [].
Proof. unfold pm_eval. destruct (length v <? min_pattern_len ps)%nat; reflexivity. Qed.

(* ---- from the argument text to the phrase list ---- *)
Lemma ascii_lower_space c : (ascii_lower c =? 32) = (c =? 32).
Proof.
  unfold ascii_lower. destruct ((65 <=? c) && (c <=? 90)) eqn:E; [|reflexivity].
  apply andb_true_iff in E as [E1 E2]. apply N.leb_le in E1, E2.
  destruct (c =? 32) eqn:E3; [apply N.eqb_eq in E3; lia|]. apply N.eqb_neq. lia.
Qed.

Lemma split_byte_nonnil sep s : split_byte sep s <> [].
Proof.
  destruct s as [|c r]; cbn [split_byte]; [discriminate|].
  destruct (c =? sep); [discriminate|]. destruct (split_byte sep r); discriminate.
Qed.

Lemma split_byte_lower s :
  split_byte 32 (lower_ascii s) = map lower_ascii (split_byte 32 s).
Proof.
  induction s as [|c r IH]; [reflexivity|].
  cbn [lower_ascii map split_byte]. fold (lower_ascii r). rewrite ascii_lower_space, IH.
  destruct (c =? 32); [reflexivity|].
  destruct (split_byte 32 r) eqn:E; [exfalso; exact (split_byte_nonnil _ _ E)|]. reflexivity.
Qed.

Lemma ascii_lower_idem c : ascii_lower (ascii_lower c) = ascii_lower c.
Proof.
  unfold ascii_lower. destruct ((65 <=? c) && (c <=? 90)) eqn:E; [|rewrite E; reflexivity].
  apply andb_true_iff in E as [E1 E2]. apply N.leb_le in E1, E2.
  destruct ((65 <=? c + 32) && (c + 32 <=? 90)) eqn:E3; [|reflexivity].
  apply andb_true_iff in E3 as [E4 E5]. apply N.leb_le in E4, E5. lia.
Qed.

Lemma lower_ascii_idem s : lower_ascii (lower_ascii s) = lower_ascii s.
Proof. unfold lower_ascii. rewrite map_map. apply map_ext. apply ascii_lower_idem. Qed.

Lemma occurs_ci_lower p s : Spec.occurs_ci (lower_ascii p) s <-> Spec.occurs_ci p s.
Proof. unfold Spec.occurs_ci. setoid_rewrite lower_ascii_idem. reflexivity. Qed.

Lemma lower_nonempty p : nonempty (lower_ascii p) = nonempty p.
Proof. destruct p; reflexivity. Qed.

(* @pm with a pure-ASCII argument: some non-empty space-separated phrase of the argument
   occurs in the value, ASCII-case-insensitively *)
Lemma pm_arg_exact tbl arg capturing v :
  is_ascii arg = true ->
  (fst (pm_eval (pm_phrases tbl arg) capturing v) = true
   <-> exists p, In p (split_byte 32 arg) /\ p <> [] /\ Spec.occurs_ci p v).
Proof.
  intros Ha. rewrite pm_eval_exact. unfold pm_phrases, go_to_lower, Spec.pm. rewrite Ha, split_byte_lower.
  unfold drop_empty. split.
  - intros [p [Hp Hocc]]. apply filter_In in Hp as [Hp Hne]. apply in_map_iff in Hp as [q [<- Hq]].
    exists q. split; [exact Hq|]. split; [destruct q; [discriminate | discriminate]|].
    apply occurs_ci_lower. exact Hocc.
  - intros [q [Hq [Hne Hocc]]]. exists (lower_ascii q). split.
    + apply filter_In. split; [apply in_map; exact Hq|]. rewrite lower_nonempty. destruct q; [contradiction | reflexivity].
    + apply occurs_ci_lower. exact Hocc.
Qed.

(* @pmFromDataset: some non-empty entry occurs *)
Lemma pmd_exact ds capturing v :
  fst (pm_eval (pmd_phrases ds) capturing v) = true
  <-> exists p, In p ds /\ p <> [] /\ Spec.occurs_ci p v.
Proof.
  rewrite pm_eval_exact. unfold pmd_phrases, drop_empty, Spec.pm. split.
  - intros [p [Hp Hocc]]. apply filter_In in Hp as [Hp Hne]. exists p. repeat split; try assumption.
    destruct p; discriminate.
  - intros [p [Hp [Hne Hocc]]]. exists p. split; [|exact Hocc]. apply filter_In. split; [exact Hp|].
    destruct p; [contradiction | reflexivity].
Qed.

(* a non-ASCII phrase goes through strings.ToLower, which rewrites invalid UTF-8 to U+FFFD:
   "@pm \xff" does not find the byte \xff *)
Lemma pm_nonascii_phrase_refuted :
  exists arg v, fst (pm_eval (pm_phrases [] arg) false v) = false
                /\ (exists p, In p (split_byte 32 arg) /\ p <> [] /\ Spec.occurs_ci p v).
Proof.
  exists [255], [255]. split; [vm_compute; reflexivity|].
  exists [255]. split; [left; reflexivity|]. split; [discriminate|].
  exists [], [255], []. split; reflexivity.
Qed.

(* ==================================================================================== *)
(* @validateUrlEncoding                                                                  *)
(* ==================================================================================== *)
Lemma hex_not_pct c : is_hex_digit c = true -> (c =? 37) = false.
Proof.
  unfold is_hex_digit, is_digit. intros H. apply N.eqb_neq.
  rewrite !orb_true_iff, !andb_true_iff, !N.leb_le in H. lia.
Qed.

Fixpoint hexprefix (k : nat) (s : bytes) : Prop :=
  match k with
  | O => True
  | S k' => match s with
            | c :: r => is_hex_digit c = true /\ hexprefix k' r
            | [] => True
            end
  end.

Lemma pct_ok_cons_other c r : (c =? 37) = false -> (Spec.pct_ok (c :: r) <-> Spec.pct_ok r).
Proof.
  intros Hc. unfold Spec.pct_ok. split.
  - intros H i Hi. apply (H (S i)). exact Hi.
  - intros H i Hi. destruct i as [|i].
    + cbn in Hi. inversion Hi; subst. rewrite N.eqb_refl in Hc. discriminate.
    + apply (H i). exact Hi.
Qed.

Lemma pct_ok_cons_pct r :
  Spec.pct_ok (37 :: r) <->
  (exists h1 h2 r', r = h1 :: h2 :: r' /\ is_hex_digit h1 = true /\ is_hex_digit h2 = true) /\ Spec.pct_ok r.
Proof.
  unfold Spec.pct_ok. split.
  - intros H. split.
    + destruct (H 0%nat eq_refl) as [h1 [h2 [E1 [E2 [X1 X2]]]]].
      destruct r as [|a [|b r']]; cbn in E1, E2; try discriminate.
      inversion E1; inversion E2; subst. exists h1, h2, r'. repeat split; assumption.
    + intros i Hi. apply (H (S i)). exact Hi.
  - intros [[h1 [h2 [r' [-> [X1 X2]]]]] H] i Hi. destruct i as [|i].
    + exists h1, h2. repeat split; assumption.
    + apply (H i). exact Hi.
Qed.

Lemma vue_scan_spec s : forall k, hexprefix k s -> (vue_scan s k = 0 <-> Spec.pct_ok s).
Proof.
  induction s as [|c r IH]; intros k Hk.
  - cbn [vue_scan]. split; [intros _ i Hi; destruct i; discriminate | reflexivity].
  - cbn [vue_scan]. destruct k as [|k'].
    + destruct (c =? 37) eqn:Ec; cbn [negb].
      * apply N.eqb_eq in Ec. subst c. rewrite pct_ok_cons_pct.
        destruct r as [|h1 [|h2 r']].
        -- split; [discriminate|]. intros [[? [? [? [E _]]]] _]. discriminate.
        -- split; [discriminate|]. intros [[? [? [? [E _]]]] _]. discriminate.
        -- destruct (is_hex_digit h1) eqn:X1; cbn [negb orb].
           ++ destruct (is_hex_digit h2) eqn:X2; cbn [negb].
              ** rewrite (IH 2%nat) by (cbn; auto). split.
                 --- intros H. split; [|exact H]. exists h1, h2, r'. auto.
                 --- intros [_ H]. exact H.
              ** split; [discriminate|]. intros [[a [b [r2 [E [Y1 Y2]]]]] _]. inversion E; subst. congruence.
           ++ split; [discriminate|]. intros [[a [b [r2 [E [Y1 Y2]]]]] _]. inversion E; subst. congruence.
      * rewrite (IH 0%nat) by exact I. symmetry. apply pct_ok_cons_other. exact Ec.
    + cbn [hexprefix] in Hk. destruct Hk as [Hc Hk].
      rewrite (IH k') by exact Hk. symmetry. apply pct_ok_cons_other. apply hex_not_pct. exact Hc.
Qed.

(* @validateUrlEncoding matches exactly when some '%' is not followed by two hex digits *)
Lemma vue_eval_exact v : vue_eval v = true <-> Spec.vue v.
Proof.
  unfold vue_eval, Spec.vue. destruct v as [|c r].
  - split; [discriminate|]. intros H. exfalso. apply H. intros i Hi. destruct i; discriminate.
  - rewrite negb_true_iff, N.eqb_neq. rewrite (vue_scan_spec (c :: r) 0 I). reflexivity.
Qed.

(* ==================================================================================== *)
(* @validateByteRange                                                                    *)
(* ==================================================================================== *)
Lemma set_nth_length i t : length (set_nth i t) = length t.
Proof. revert i; induction t as [|b r IH]; intros [|i]; cbn; auto. Qed.

Lemma set_nth_lookup i t j :
  nth j (set_nth i t) false = (nth j t false || (Nat.eqb i j && (j <? length t)%nat)).
Proof.
  revert i j; induction t as [|b r IH]; intros i j.
  - destruct i, j; cbn; rewrite ?andb_false_r; reflexivity.
  - destruct i as [|i], j as [|j]; cbn [set_nth nth Nat.eqb length].
    + cbn. rewrite orb_true_r. reflexivity.
    + cbn. rewrite orb_false_r. reflexivity.
    + cbn. rewrite orb_false_r. reflexivity.
    + rewrite IH. reflexivity.
Qed.

Lemma set_range_length cnt : forall i t, length (set_range cnt i t) = length t.
Proof. induction cnt; intros i t; cbn [set_range]; [reflexivity|]. rewrite IHcnt. apply set_nth_length. Qed.

Ltac bool_nat :=
  repeat match goal with
  | |- context [(?a <=? ?b)%nat] => destruct (Nat.leb_spec a b)
  | |- context [(?a <? ?b)%nat] => destruct (Nat.ltb_spec a b)
  | |- context [Nat.eqb ?a ?b] => destruct (Nat.eqb_spec a b)
  end; cbn [andb orb]; try reflexivity; try lia.

Lemma set_range_lookup cnt : forall i t j,
  nth j (set_range cnt i t) false
  = (nth j t false || ((i <=? j)%nat && (j <? i + cnt)%nat && (j <? length t)%nat)).
Proof.
  induction cnt as [|c IH]; intros i t j; cbn [set_range].
  - destruct (nth j t false); cbn [orb]; [reflexivity|]. bool_nat.
  - rewrite IH, set_nth_lookup, set_nth_length.
    destruct (nth j t false); cbn [orb]; [reflexivity|].
    destruct (j <? length t)%nat; rewrite ?andb_false_r, ?andb_true_r; cbn [orb]; [|reflexivity].
    bool_nat.
Qed.

Lemma vbr_lookup_empty b : vbr_lookup vbr_empty b = false.
Proof.
  unfold vbr_lookup, vbr_empty. generalize (N.to_nat b). intros n.
  generalize 256%nat. intros m. revert n. induction m; intros [|n]; cbn; auto.
Qed.

(* one item: error exactly when it denotes no range; otherwise the table gains exactly the
   bytes of its range *)
Lemma vbr_item_spec item t :
  length t = 256%nat ->
  match vbr_item item t, Spec.vbr_item_range item with
  | None, None => True
  | Some t', Some (lo, hi) =>
    length t' = 256%nat /\
    forall b, vbr_lookup t' b = (vbr_lookup t b || ((lo <=? Z.of_N b)%Z && (Z.of_N b <=? hi)%Z))
  | _, _ => False
  end.
Proof.
  intros Hlen. unfold vbr_item, Spec.vbr_item_range.
  destruct (cut_byte 45 (trim_space item)) as [[st en] found].
  destruct (go_atoi st) as [s es]. destruct (es =? 0); cbn [negb andb]; [|exact I].
  unfold valid_byte_z. destruct ((0 <=? s)%Z && (s <=? 255)%Z) eqn:Vs; cbn [negb]; [|exact I].
  apply andb_true_iff in Vs as [Vs1 Vs2]. apply Z.leb_le in Vs1, Vs2.
  destruct found; cbn [negb].
  - destruct (go_atoi en) as [e ee]. destruct (ee =? 0); cbn [negb andb]; [|exact I].
    destruct ((0 <=? e)%Z && (e <=? 255)%Z) eqn:Ve; cbn [negb]; [|exact I].
    apply andb_true_iff in Ve as [Ve1 Ve2]. apply Z.leb_le in Ve1, Ve2.
    split; [rewrite set_range_length; exact Hlen|].
    intros b. unfold vbr_lookup. rewrite set_range_lookup, Hlen. f_equal.
    destruct (s <=? Z.of_N b)%Z eqn:A, (Z.of_N b <=? e)%Z eqn:B; cbn [andb];
      try apply Z.leb_le in A; try apply Z.leb_le in B; try apply Z.leb_gt in A; try apply Z.leb_gt in B.
    + apply andb_true_iff. split; [apply andb_true_iff; split|]; [apply Nat.leb_le | apply Nat.ltb_lt | apply Nat.ltb_lt]; lia.
    + apply andb_false_iff. left. apply andb_false_iff. right. apply Nat.ltb_ge. lia.
    + apply andb_false_iff. left. apply andb_false_iff. left. apply Nat.leb_gt. lia.
    + apply andb_false_iff. left. apply andb_false_iff. left. apply Nat.leb_gt. lia.
  - split; [rewrite set_nth_length; exact Hlen|].
    intros b. unfold vbr_lookup. rewrite set_nth_lookup, Hlen. f_equal.
    destruct (s <=? Z.of_N b)%Z eqn:A, (Z.of_N b <=? s)%Z eqn:B; cbn [andb];
      try apply Z.leb_le in A; try apply Z.leb_le in B; try apply Z.leb_gt in A; try apply Z.leb_gt in B.
    + apply andb_true_iff. split; [apply Nat.eqb_eq | apply Nat.ltb_lt]; lia.
    + apply andb_false_iff. left. apply Nat.eqb_neq. lia.
    + apply andb_false_iff. left. apply Nat.eqb_neq. lia.
    + lia.
Qed.

Lemma vbr_items_spec items : forall t,
  length t = 256%nat ->
  match vbr_items items t with
  | None => exists it, In it items /\ Spec.vbr_item_range it = None
  | Some t' =>
    (forall it, In it items -> Spec.vbr_item_range it <> None) /\
    forall b, vbr_lookup t' b = true <-> (vbr_lookup t b = true \/ Spec.vbr_allowed items b)
  end.
Proof.
  induction items as [|it r IH]; intros t Hlen; cbn [vbr_items].
  - split; [intros ? []|]. intros b. split; [auto|]. intros [H|[it [lo [hi [[] _]]]]]. exact H.
  - pose proof (vbr_item_spec it t Hlen) as Hit.
    destruct (vbr_item it t) as [t'|] eqn:E1, (Spec.vbr_item_range it) as [[lo hi]|] eqn:E2; try contradiction.
    + destruct Hit as [Hlen' Hlk]. specialize (IH t' Hlen').
      destruct (vbr_items r t') as [t''|].
      * destruct IH as [IH1 IH2]. split.
        -- intros x [<-|Hx]; [congruence | apply IH1; exact Hx].
        -- intros b. rewrite IH2, Hlk, orb_true_iff, andb_true_iff, !Z.leb_le. split.
           ++ intros [[H|H]|[x [l [h [Hx Hr]]]]].
              ** left; exact H.
              ** right. exists it, lo, hi. split; [left; reflexivity|]. split; [exact E2 | exact H].
              ** right. exists x, l, h. split; [right; exact Hx | exact Hr].
           ++ intros [H|[x [l [h [[<-|Hx] [Hr Hb]]]]]].
              ** left; left; exact H.
              ** rewrite E2 in Hr. inversion Hr; subst. left; right. exact Hb.
              ** right. exists x, l, h. split; [exact Hx|]. split; assumption.
      * destruct IH as [x [Hx Hn]]. exists x. split; [right; exact Hx | exact Hn].
    + exists it. split; [left; reflexivity | exact E2].
Qed.

Lemma vbr_eval_iff t v :
  vbr_eval t v = true <-> exists b, In b v /\ vbr_lookup t b = false.
Proof.
  unfold vbr_eval. destruct v as [|c r].
  - split; [discriminate | intros [b [[] _]]].
  - rewrite existsb_exists. split; intros [b [Hb H]]; exists b; (split; [exact Hb|]).
    + apply negb_true_iff. exact H.
    + apply negb_true_iff. exact H.
Qed.

(* @validateByteRange with a non-empty argument: constructor error exactly when some
   comma-separated item is malformed; otherwise it matches exactly when the value has a byte
   that no item allows (reversed ranges allow nothing, overlapping ranges are a union) *)
Lemma run_vbr_exact arg v :
  arg <> [] ->
  match run_vbr arg v with
  | None => exists it, In it (split_byte 44 arg) /\ Spec.vbr_item_range it = None
  | Some r => (forall it, In it (split_byte 44 arg) -> Spec.vbr_item_range it <> None)
              /\ (r = true <-> Spec.vbr (split_byte 44 arg) v)
  end.
Proof.
  intros Hne. unfold run_vbr, vbr_new. destruct arg as [|c a]; [contradiction|].
  set (items := split_byte 44 (c :: a)).
  assert (Hlen : length vbr_empty = 256%nat) by reflexivity.
  pose proof (vbr_items_spec items vbr_empty Hlen) as H.
  destruct (vbr_items items vbr_empty) as [t|]; [|exact H].
  destruct H as [H1 H2]. split; [exact H1|].
  rewrite vbr_eval_iff. unfold Spec.vbr. split.
  - intros [b [Hb Hl]]. exists b. split; [exact Hb|]. intros Ha.
    assert (vbr_lookup t b = true) by (apply H2; right; exact Ha). congruence.
  - intros [b [Hb Hn]]. exists b. split; [exact Hb|].
    destruct (vbr_lookup t b) eqn:E; [|reflexivity].
    apply H2 in E as [E|E]; [rewrite vbr_lookup_empty in E; discriminate | contradiction].
Qed.

(* ==================================================================================== *)
(* numeric operators: strconv.Atoi with ignored errors                                    *)
(* ==================================================================================== *)
Definition dv_step (a d : N) : N := a * 10 + (d - 48).
Lemma digits_value_unfold ds : Spec.digits_value ds = fold_left dv_step ds 0.
Proof. reflexivity. Qed.

Lemma dv_fold_ge r : forall m, m <= fold_left dv_step r m.
Proof.
  induction r as [|c r IH]; intros m; cbn [fold_left]; [lia|].
  etransitivity; [|apply IH]. unfold dv_step. lia.
Qed.

Lemma pul_digits s : forall n,
  forallb is_digit s = true -> n < two64 ->
  parse_uint_loop s n =
  if fold_left dv_step s n <? two64 then (fold_left dv_step s n, 0) else (two64 - 1, 2).
Proof.
  induction s as [|c r IH]; intros n Hd Hn; cbn [parse_uint_loop fold_left].
  - apply N.ltb_lt in Hn. rewrite Hn. reflexivity.
  - cbn [forallb] in Hd. apply andb_true_iff in Hd as [Hc Hr]. rewrite Hc. cbn [negb].
    pose proof (dv_fold_ge r (dv_step n c)) as Hge.
    destruct (pu_cutoff <=? n) eqn:E1.
    + apply N.leb_le in E1.
      assert (two64 <= fold_left dv_step r (dv_step n c)).
      { etransitivity; [|exact Hge]. unfold dv_step, two64, pu_cutoff in *. lia. }
      apply N.ltb_ge in H. rewrite H. reflexivity.
    + fold (dv_step n c). destruct (two64 <=? dv_step n c) eqn:E2.
      * apply N.leb_le in E2.
        assert (two64 <= fold_left dv_step r (dv_step n c)) by (etransitivity; eassumption).
        apply N.ltb_ge in H. rewrite H. reflexivity.
      * apply N.leb_gt in E2. apply IH; assumption.
Qed.

Lemma pul_junk ds j rest : forall n,
  forallb is_digit ds = true -> is_digit j = false -> n < two64 ->
  parse_uint_loop (ds ++ j :: rest) n =
  if fold_left dv_step ds n <? two64 then (0, 1) else (two64 - 1, 2).
Proof.
  induction ds as [|c r IH]; intros n Hd Hj Hn; cbn [app parse_uint_loop fold_left].
  - rewrite Hj. cbn [negb]. apply N.ltb_lt in Hn. rewrite Hn. reflexivity.
  - cbn [forallb] in Hd. apply andb_true_iff in Hd as [Hc Hr]. rewrite Hc. cbn [negb].
    pose proof (dv_fold_ge r (dv_step n c)) as Hge.
    destruct (pu_cutoff <=? n) eqn:E1.
    + apply N.leb_le in E1.
      assert (two64 <= fold_left dv_step r (dv_step n c)).
      { etransitivity; [|exact Hge]. unfold dv_step, two64, pu_cutoff in *. lia. }
      apply N.ltb_ge in H. rewrite H. reflexivity.
    + fold (dv_step n c). destruct (two64 <=? dv_step n c) eqn:E2.
      * apply N.leb_le in E2.
        assert (two64 <= fold_left dv_step r (dv_step n c)) by (etransitivity; eassumption).
        apply N.ltb_ge in H. rewrite H. reflexivity.
      * apply N.leb_gt in E2. apply IH; assumption.
Qed.

Fixpoint lead_digits (s : bytes) : bytes :=
  match s with
  | c :: r => if is_digit c then c :: lead_digits r else []
  | [] => []
  end.

Lemma lead_digits_split s :
  forallb is_digit s = false ->
  exists j rest, s = lead_digits s ++ j :: rest /\ is_digit j = false
                 /\ forallb is_digit (lead_digits s) = true.
Proof.
  induction s as [|c r IH]; cbn [forallb lead_digits]; [discriminate|].
  destruct (is_digit c) eqn:E; cbn [andb].
  - intros H. destruct (IH H) as [j [rest [H1 [H2 H3]]]].
    exists j, rest. cbn [app forallb]. rewrite E, H3, <- H1. auto.
  - intros _. exists c, r. auto.
Qed.

(* the sign-stripped body of a numeric string *)
Definition num_body (s : bytes) : bytes :=
  match s with
  | [] => []
  | c :: r => if (c =? 43) || (c =? 45) then r else s
  end.
(* guard: the string is a well-formed integer, or its leading digit run stays below 2^64
   (Go's ParseUint reports a range error as soon as the digits read so far overflow, before
   it looks at the rest of the string) *)
Definition num_guard (s : bytes) : bool :=
  let body := num_body s in
  forallb is_digit body || (Spec.digits_value (lead_digits body) <? two64).

Lemma parse_uint_digits body :
  body <> [] -> forallb is_digit body = true ->
  parse_uint body = if Spec.digits_value body <? two64 then (Spec.digits_value body, 0) else (two64 - 1, 2).
Proof.
  intros Hne Hd. unfold parse_uint. destruct body as [|c r]; [contradiction|].
  rewrite digits_value_unfold. apply pul_digits; [exact Hd | reflexivity].
Qed.

Lemma parse_uint_junk body :
  forallb is_digit body = false ->
  parse_uint body = if Spec.digits_value (lead_digits body) <? two64 then (0, 1) else (two64 - 1, 2).
Proof.
  intros Hd. destruct (lead_digits_split body Hd) as [j [rest [H1 [H2 H3]]]].
  unfold parse_uint. destruct body as [|c r]; [discriminate|].
  rewrite H1 at 1. rewrite digits_value_unfold. apply pul_junk; [exact H3 | exact H2 | reflexivity].
Qed.

Lemma go_atoi_body s :
  s <> [] ->
  go_atoi s =
  (let neg := hd0 s =? 45 in
   let '(un, e) := parse_uint (num_body s) in
   if e =? 1 then (0%Z, 1)
   else if negb neg && (two63 <=? un) then ((Z.of_N two63 - 1)%Z, 2)
   else if neg && (two63 <? un) then ((- Z.of_N two63)%Z, 2)
   else ((if neg then - Z.of_N un else Z.of_N un)%Z, 0)).
Proof.
  destruct s as [|c r]; [contradiction|]. intros _. unfold go_atoi, num_body, hd0.
  reflexivity.
Qed.

Lemma int_value_body s :
  Spec.int_value s =
  (let neg := hd0 s =? 45 in
   let body := num_body s in
   match body with
   | [] => 0%Z
   | _ => if forallb is_digit body
          then Spec.clamp (if neg then - Z.of_N (Spec.digits_value body) else Z.of_N (Spec.digits_value body))
          else 0%Z
   end).
Proof. destruct s as [|c r]; reflexivity. Qed.

(* Atoi (errors ignored) is the documented integer value whenever the guard holds *)
Lemma atoi_val_exact s : num_guard s = true -> atoi_val s = Spec.int_value s.
Proof.
  intros G. unfold atoi_val. destruct s as [|c0 r0] eqn:Es; [reflexivity|]. rewrite <- Es in *.
  assert (Hne : s <> []) by (rewrite Es; discriminate).
  rewrite go_atoi_body by exact Hne. rewrite int_value_body. cbv zeta.
  unfold num_guard in G. set (body := num_body s) in *. set (neg := hd0 s =? 45).
  destruct body as [|b0 br] eqn:Eb.
  - cbn. reflexivity.
  - rewrite <- Eb in *. assert (Hbne : body <> []) by (rewrite Eb; discriminate).
    destruct (forallb is_digit body) eqn:Hd.
    + rewrite parse_uint_digits by assumption.
      set (V := Spec.digits_value body).
      destruct (V <? two64) eqn:EV.
      * apply N.ltb_lt in EV. change (0 =? 1) with false. cbv iota.
        unfold Spec.clamp. destruct neg; cbn [negb andb].
        -- destruct (two63 <? V) eqn:E2; cbn [fst].
           ++ apply N.ltb_lt in E2. unfold two63 in *. lia.
           ++ apply N.ltb_ge in E2. unfold two63 in *. lia.
        -- destruct (two63 <=? V) eqn:E2; cbn [fst].
           ++ apply N.leb_le in E2. unfold two63 in *. lia.
           ++ apply N.leb_gt in E2. unfold two63 in *. lia.
      * apply N.ltb_ge in EV. change (2 =? 1) with false. cbv iota.
        unfold Spec.clamp. destruct neg; cbn [negb andb].
        -- change (two63 <? two64 - 1) with true. cbn [fst]. unfold two63, two64 in *. lia.
        -- change (two63 <=? two64 - 1) with true. cbn [fst]. unfold two63, two64 in *. lia.
    + cbn [orb] in G. rewrite parse_uint_junk by exact Hd. rewrite G. reflexivity.
Qed.

Definition is_num_op (o : mop) : bool :=
  match o with OEq | OGe | OGt | OLe | OLt => true | _ => false end.

(* the numeric comparisons are the documented comparisons of the documented integer values *)
Lemma eval_mop_num_exact o data v :
  is_num_op o = true -> num_guard data = true -> num_guard v = true ->
  eval_mop o data v = Spec.mop_num o data v.
Proof.
  intros Ho Gd Gv. destruct o; try discriminate; cbn [eval_mop Spec.mop_num];
    rewrite (atoi_val_exact data Gd), (atoi_val_exact v Gv).
  - apply Z.eqb_sym.
  - symmetry. apply Z.geb_leb.
  - symmetry. apply Z.gtb_ltb.
  - reflexivity.
  - reflexivity.
Qed.

(* outside the guard the code departs from the documented value: digits that overflow uint64
   followed by junk are read as MaxInt64 instead of 0 (Atoi's range error is ignored) *)
Lemma atoi_overflow_junk_refuted :
  exists s, atoi_val s <> Spec.int_value s.
Proof.
  exists (sstr "99999999999999999999x"). vm_compute. discriminate.
Qed.

Example num_guard_examples :
  num_guard (sstr "-9223372036854775809") = true /\ num_guard (sstr "12ab") = true
  /\ num_guard (sstr "99999999999999999999") = true /\ num_guard (sstr "99999999999999999999x") = false.
Proof. vm_compute. auto. Qed.

(* ==================================================================================== *)
(* captures: TX.0-9                                                                      *)
(* ==================================================================================== *)
Lemma itoa_small_eqb k i : (k < 10)%nat -> (i < 10)%nat ->
  bytes_eqb (itoa (N.of_nat k)) (itoa (N.of_nat i)) = Nat.eqb k i.
Proof.
  intros Hk Hi.
  do 10 (destruct k as [|k]; [do 10 (destruct i as [|i]; [reflexivity|]); lia|]). lia.
Qed.

(* CaptureField(k, c0), CaptureField(k+1, c1), ...: TX.i holds the (i-k)-th text, every other
   TX.0-9 entry keeps its value *)
Lemma store_captures_get caps : forall k tx i,
  (k + length caps <= 10)%nat -> (i < 10)%nat ->
  tx_get (store_captures true tx k caps) (itoa (N.of_nat i))
  = if (k <=? i)%nat && (i <? k + length caps)%nat then Some (nth (i - k) caps [])
    else tx_get tx (itoa (N.of_nat i)).
Proof.
  induction caps as [|c r IH]; intros k tx i Hk Hi; cbn [store_captures length].
  - replace (i <? k + 0)%nat with (i <? k)%nat by (f_equal; lia).
    destruct (k <=? i)%nat eqn:A, (i <? k)%nat eqn:B; cbn [andb]; try reflexivity.
    apply Nat.leb_le in A. apply Nat.ltb_lt in B. lia.
  - cbn [length] in Hk. rewrite IH by lia.
    unfold capture_field, tx_set. cbn [tx_get]. rewrite itoa_small_eqb by lia.
    destruct (Nat.eqb k i) eqn:E.
    + apply Nat.eqb_eq in E. subst i.
      replace (S k <=? k)%nat with false by (symmetry; apply Nat.leb_gt; lia). cbn [andb].
      replace (k <=? k)%nat with true by (symmetry; apply Nat.leb_le; lia).
      replace (k <? k + S (length r))%nat with true by (symmetry; apply Nat.ltb_lt; lia).
      cbn [andb]. rewrite Nat.sub_diag. reflexivity.
    + apply Nat.eqb_neq in E.
      destruct (S k <=? i)%nat eqn:A.
      * apply Nat.leb_le in A.
        replace (k <=? i)%nat with true by (symmetry; apply Nat.leb_le; lia).
        replace (k + S (length r))%nat with (S k + length r)%nat by lia. cbn [andb].
        destruct (i <? S k + length r)%nat; [|reflexivity].
        replace (i - k)%nat with (S (i - S k)) by lia. reflexivity.
      * apply Nat.leb_gt in A. cbn [andb].
        replace (k <=? i)%nat with false by (symmetry; apply Nat.leb_gt; lia). reflexivity.
Qed.

Lemma store_captures_off tx k caps : store_captures false tx k caps = tx.
Proof. revert tx k; induction caps as [|c r IH]; intros tx k; cbn [store_captures capture_field]; auto. Qed.

(* @rx: number of (start, end) pairs and the text of group i in the index vector *)
Fixpoint ngroups (idx : list Z) : nat :=
  match idx with _ :: _ :: r => S (ngroups r) | _ => 0%nat end.
Definition rx_group (idx : list Z) (v : bytes) (i : nat) : bytes :=
  let st := nth (2 * i) idx (-1)%Z in
  let en := nth (2 * i + 1) idx 0%Z in
  if (0 <=? st)%Z then slice v st en else [].

Lemma list_ind2 {A} (P : list A -> Prop) :
  P [] -> (forall x, P [x]) -> (forall x y l, P l -> P (x :: y :: l)) -> forall l, P l.
Proof. intros H0 H1 H2. fix F 1. intros [|x [|y l]]; [exact H0 | apply H1 | apply H2, F]. Qed.

Lemma rx_groups_spec idx v : forall k,
  (k <= 10)%nat ->
  length (rx_groups idx v k) = Nat.min (ngroups idx) (10 - k)
  /\ forall j, (j < Nat.min (ngroups idx) (10 - k))%nat -> nth j (rx_groups idx v k) [] = rx_group idx v j.
Proof.
  induction idx as [| x | st en r IH] using list_ind2; intros k Hk.
  - cbn. split; [reflexivity | intros j Hj; lia].
  - cbn. split; [reflexivity | intros j Hj; lia].
  - cbn [rx_groups ngroups]. destruct (Nat.eqb k 10) eqn:E.
    + apply Nat.eqb_eq in E. subst k. cbn [length]. split; [lia | intros j Hj; lia].
    + apply Nat.eqb_neq in E. destruct (IH (S k)) as [I1 I2]; [lia|]. cbn [length]. split.
      * rewrite I1. lia.
      * intros j Hj. destruct j as [|j].
        -- cbn [nth]. unfold rx_group. cbn [Nat.mul Nat.add nth]. reflexivity.
        -- cbn [nth]. rewrite I2 by lia. unfold rx_group.
           replace (2 * S j)%nat with (S (S (2 * j))) by lia.
           replace (S (S (2 * j)) + 1)%nat with (S (S (2 * j + 1))) by lia. reflexivity.
Qed.

(* C15 captures, @rx: after a match under `capture`, TX.i holds the text of group i for every
   group i < 10 (empty for a group that did not participate); the other TX.0-9 keep their value *)
Lemma rx_captures idx v tx i :
  (i < 10)%nat ->
  tx_get (store_captures true tx 0 (snd (rx_eval (Some idx) true v))) (itoa (N.of_nat i))
  = if (i <? ngroups idx)%nat then Some (rx_group idx v i) else tx_get tx (itoa (N.of_nat i)).
Proof.
  intros Hi. cbn [rx_eval snd].
  destruct (rx_groups_spec idx v 0) as [HL HN]; [lia|].
  replace (10 - 0)%nat with 10%nat in * by lia.
  rewrite store_captures_get; [|rewrite HL; lia|exact Hi].
  rewrite HL. cbn [Nat.leb andb Nat.add]. rewrite Nat.sub_0_r.
  destruct (i <? Nat.min (ngroups idx) 10)%nat eqn:A.
  - apply Nat.ltb_lt in A. rewrite HN by exact A.
    replace (i <? ngroups idx)%nat with true by (symmetry; apply Nat.ltb_lt; lia). reflexivity.
  - apply Nat.ltb_ge in A.
    replace (i <? ngroups idx)%nat with false by (symmetry; apply Nat.ltb_ge; lia). reflexivity.
Qed.

(* C15 captures, @pm: TX.i holds the i-th reported hit for the first ten hits *)
Lemma pm_captures ps v tx i :
  (i < 10)%nat ->
  tx_get (store_captures true tx 0 (snd (pm_eval ps true v))) (itoa (N.of_nat i))
  = if (i <? length (snd (pm_eval ps true v)))%nat then Some (nth i (snd (pm_eval ps true v)) [])
    else tx_get tx (itoa (N.of_nat i)).
Proof.
  intros Hi. destruct (pm_captures_sound ps v) as [HL _].
  rewrite store_captures_get; [|lia|exact Hi]. cbn [Nat.leb andb Nat.add]. rewrite Nat.sub_0_r. reflexivity.
Qed.

(* ==================================================================================== *)
(* operator-name parsing and negation                                                    *)
(* ==================================================================================== *)
Lemma exec_operator_complement r : exec_operator true r = negb (exec_operator false r).
Proof. reflexivity. Qed.

Definition plain (c : N) : bool := (c <? 128) && negb (is_unicode_space c).

Lemma trim_space_plain s : s <> [] -> forallb plain s = true -> trim_space s = s.
Proof.
  intros Hne Hp. destruct s as [|c r]; [contradiction|].
  assert (Hc : plain c = true) by (cbn [forallb] in Hp; apply andb_true_iff in Hp; tauto).
  unfold plain in Hc. apply andb_true_iff in Hc as [Hc1 Hc2]. apply negb_true_iff in Hc2.
  unfold trim_space.
  assert (HL : trim_left_fuel (length (c :: r)) (c :: r) = c :: r).
  { cbn [length trim_left_fuel]. unfold decode_rune. rewrite Hc1, Hc2. reflexivity. }
  rewrite HL.
  destruct (exists_last Hne) as [s' [d Hs]].
  assert (Hd : plain d = true).
  { rewrite Hs in Hp. rewrite forallb_app in Hp. apply andb_true_iff in Hp as [_ Hp]. cbn in Hp.
    rewrite andb_true_r in Hp. exact Hp. }
  unfold plain in Hd. apply andb_true_iff in Hd as [Hd1 Hd2]. apply negb_true_iff in Hd2.
  cbn [length trim_right_fuel]. unfold decode_last_rune. rewrite Hs, rev_app_distr. cbn [rev app].
  rewrite Hd1, Hd2. reflexivity.
Qed.

Lemma cut_byte_app sep a b :
  forallb (fun c => negb (c =? sep)) a = true -> cut_byte sep (a ++ sep :: b) = (a, b, true).
Proof.
  induction a as [|c r IH]; cbn [forallb app cut_byte].
  - intros _. rewrite N.eqb_refl. reflexivity.
  - intros H. apply andb_true_iff in H as [Hc Hr]. apply negb_true_iff in Hc. rewrite Hc, IH by exact Hr. reflexivity.
Qed.

Lemma plain_not_space c : plain c = true -> negb (c =? 32) = true.
Proof.
  unfold plain, is_unicode_space. intros H. apply andb_true_iff in H as [_ H]. apply negb_true_iff in H.
  apply negb_true_iff. destruct (c =? 32) eqn:E; [|reflexivity].
  apply N.eqb_eq in E. subst c. vm_compute in H. discriminate.
Qed.

Lemma forallb_impl {A} (f g : A -> bool) l :
  (forall x, f x = true -> g x = true) -> forallb f l = true -> forallb g l = true.
Proof.
  intros H. induction l as [|x l IH]; cbn [forallb]; [reflexivity|].
  intros H1. apply andb_true_iff in H1 as [A1 A2]. rewrite (H x A1), (IH A2). reflexivity.
Qed.

(* "@name arg" *)
Lemma parse_operator_at name arg :
  name <> [] -> forallb plain name = true ->
  parse_operator (64 :: name ++ 32 :: arg) = (64 :: name, name, trim_space arg).
Proof.
  intros Hne Hp. unfold parse_operator.
  change (negb (64 =? 64) && negb (64 =? 33)) with false. cbv iota.
  destruct name as [|n0 nr] eqn:En; [contradiction|]. rewrite <- En in *.
  replace (name ++ 32 :: arg) with (n0 :: nr ++ 32 :: arg) by (rewrite En; reflexivity).
  change ((64 =? 33) && negb (n0 =? 64)) with false. cbv iota.
  replace (64 :: n0 :: nr ++ 32 :: arg) with ((64 :: name) ++ 32 :: arg) by (rewrite En; reflexivity).
  rewrite cut_byte_app.
  2:{ cbn [forallb]. change (negb (64 =? 32)) with true. cbn [andb].
      apply (forallb_impl plain); [apply plain_not_space | exact Hp]. }
  rewrite trim_space_plain; [|discriminate|cbn [forallb]; rewrite Hp; reflexivity].
  change (64 =? 64) with true. reflexivity.
Qed.

(* "!@name arg": same name and argument, opRaw starts with '!' *)
Lemma parse_operator_bang_at name arg :
  name <> [] -> forallb plain name = true ->
  parse_operator (33 :: 64 :: name ++ 32 :: arg) = (33 :: 64 :: name, name, trim_space arg).
Proof.
  intros Hne Hp. unfold parse_operator.
  change (negb (33 =? 64) && negb (33 =? 33)) with false. cbv iota.
  change ((33 =? 33) && negb (64 =? 64)) with false. cbv iota.
  replace (33 :: 64 :: name ++ 32 :: arg) with ((33 :: 64 :: name) ++ 32 :: arg) by reflexivity.
  rewrite cut_byte_app.
  2:{ cbn [forallb]. change (negb (33 =? 32)) with true. change (negb (64 =? 32)) with true. cbn [andb].
      apply (forallb_impl plain); [apply plain_not_space | exact Hp]. }
  rewrite trim_space_plain; [|discriminate|cbn [forallb]; rewrite Hp; reflexivity].
  change (33 =? 64) with false. cbv iota.
  destruct name as [|n0 nr]; [contradiction|].
  cbn [length]. change (2 <? S (S (S (length nr))))%nat with true.
  change ((true && (33 =? 33)) && (64 =? 64)) with true. reflexivity.
Qed.

(* no '@' and no '!' in front: the operator is @rx and the whole text is its argument *)
Lemma parse_operator_default_rx o :
  hd0 o <> 64 -> hd0 o <> 33 ->
  parse_operator o = (sstr "@rx", sstr "rx", trim_space o).
Proof.
  intros H1 H2. unfold parse_operator. destruct o as [|c r].
  - vm_compute. reflexivity.
  - cbn [hd0] in H1, H2. apply N.eqb_neq in H1, H2. rewrite H1, H2. cbn [negb andb].
    change (cut_byte 32 (sstr "@rx " ++ c :: r)) with (sstr "@rx", c :: r, true).
    cbv iota. replace (trim_space (sstr "@rx")) with (sstr "@rx") by (vm_compute; reflexivity).
    reflexivity.
Qed.

(* a leading '!' without '@': negated @rx on the rest *)
Lemma parse_operator_bang_rx o :
  o <> [] -> hd0 o <> 64 ->
  parse_operator (33 :: o) = (sstr "!@rx", sstr "rx", trim_space o).
Proof.
  intros Hne H1. unfold parse_operator. destruct o as [|c r]; [contradiction|].
  cbn [hd0] in H1. apply N.eqb_neq in H1.
  change (negb (33 =? 64) && negb (33 =? 33)) with false. cbv iota.
  change (33 =? 33) with true. rewrite H1. cbn [negb andb].
  change (cut_byte 32 (sstr "!@rx " ++ c :: r)) with (sstr "!@rx", c :: r, true).
  cbv iota. replace (trim_space (sstr "!@rx")) with (sstr "!@rx") by (vm_compute; reflexivity).
  reflexivity.
Qed.

(* C15 negation at rule level: "!@name arg" compiles exactly when "@name arg" does, stores
   the same captures and matches exactly when "@name arg" does not *)
Lemma rule_negation name arg ltbl rxm capturing tx v :
  name <> [] -> forallb plain name = true ->
  rule_eval (33 :: 64 :: name ++ 32 :: arg) ltbl rxm capturing tx v
  = match rule_eval (64 :: name ++ 32 :: arg) ltbl rxm capturing tx v with
    | None => None
    | Some (m, tx') => Some (negb m, tx')
    end.
Proof.
  intros Hne Hp. unfold rule_eval.
  rewrite parse_operator_bang_at, parse_operator_at by assumption.
  destruct (op_lookup op_table name) as [o|]; [|reflexivity].
  destruct (eval_named o ltbl rxm (trim_space arg) capturing tx v) as [[r caps]|]; [|reflexivity].
  reflexivity.
Qed.

(* ==================================================================================== *)
(* constructor + Evaluate of the macro-argument operators                                *)
(* ==================================================================================== *)
Lemma run_mop_str_exact o arg tx v toks :
  is_str_op o = true -> macro_compile arg = Some toks ->
  exists b, run_mop o arg tx v = Some b /\ (b = true <-> Spec.mop_str o (macro_expand tx toks) v).
Proof.
  intros Ho Hc. unfold run_mop. rewrite Hc. eexists. split; [reflexivity|].
  apply eval_mop_str_exact. exact Ho.
Qed.

Lemma run_mop_num_exact o arg tx v toks :
  is_num_op o = true -> macro_compile arg = Some toks ->
  num_guard (macro_expand tx toks) = true -> num_guard v = true ->
  run_mop o arg tx v = Some (Spec.mop_num o (macro_expand tx toks) v).
Proof.
  intros Ho Hc G1 G2. unfold run_mop. rewrite Hc. f_equal. apply eval_mop_num_exact; assumption.
Qed.

(* a literal argument (no '%') is compared as it is; an empty argument is rejected *)
Lemma run_mop_literal o arg tx v :
  arg <> [] -> forallb (fun c => negb (c =? 37)) arg = true ->
  run_mop o arg tx v = Some (eval_mop o arg v).
Proof.
  intros Hne H. unfold run_mop. rewrite macro_compile_literal by assumption.
  rewrite macro_expand_literal. reflexivity.
Qed.

Lemma run_mop_empty o tx v : run_mop o [] tx v = None.
Proof. reflexivity. Qed.

(* the argument %{tx.KEY} is replaced by the value of TX:key (lower-cased key); when the
   variable is not set the operator sees the text "tx.KEY" *)
Lemma run_mop_tx_var o key tx v :
  key <> [] -> forallb key_char key = true ->
  run_mop o (sstr "%{tx." ++ key ++ [125]) tx v
  = Some (eval_mop o (match tx_get tx (lower_ascii key) with Some x => x | None => sstr "tx." ++ key end) v).
Proof.
  intros Hne Hk. unfold run_mop. rewrite macro_compile_tx_var by assumption.
  unfold macro_expand. cbn [flat_map expand_token]. rewrite app_nil_r. reflexivity.
Qed.

(* ==================================================================================== *)
(* @validateUtf8Encoding: utf8.ValidString is RFC 3629 well-formedness                    *)
(* ==================================================================================== *)
From Coq Require Import ZifyN ZifyBool ZifyNat.
Ltac Zify.zify_post_hook ::= Z.div_mod_to_equations.

Ltac bdestr :=
  repeat match goal with
  | |- context [?a <? ?b] => destruct (N.ltb_spec a b)
  | |- context [?a <=? ?b] => destruct (N.leb_spec a b)
  | |- context [?a =? ?b] => destruct (N.eqb_spec a b)
  end; cbn [andb orb negb] in *.

Lemma enc1 r : r < 128 -> encode_rune r = [r].
Proof. intros H. unfold encode_rune, in_rng. bdestr; try lia; reflexivity. Qed.
Lemma enc2 r : 128 <= r -> r < 2048 -> encode_rune r = [192 + r / 64; 128 + r mod 64].
Proof. intros H1 H2. unfold encode_rune, in_rng. bdestr; try lia; reflexivity. Qed.
Lemma enc3 r : 2048 <= r -> r < 65536 -> ~ (55296 <= r <= 57343) ->
  encode_rune r = [224 + r / 4096; 128 + (r / 64) mod 64; 128 + r mod 64].
Proof. intros H1 H2 H3. unfold encode_rune, in_rng. bdestr; try lia; reflexivity. Qed.
Lemma enc4 r : 65536 <= r -> r <= 1114111 ->
  encode_rune r = [240 + r / 262144; 128 + (r / 4096) mod 64; 128 + (r / 64) mod 64; 128 + r mod 64].
Proof. intros H1 H2. unfold encode_rune, in_rng. bdestr; try lia; reflexivity. Qed.

Ltac leaf_bad Hk := exfalso; destruct Hk as [Hk|Hk]; [cbn [hd0] in Hk; lia | apply Hk; reflexivity].

Ltac generic Hk :=
  try lia;
  repeat match goal with |- context [?a <=? ?b] => destruct (N.leb_spec a b); cbn [andb] end;
  try lia; intros HD; inversion HD; subst; leaf_bad Hk.

Lemma decode_valid s r k :
  decode_rune s = (r, k) -> s <> [] -> (hd0 s < 128 \/ k <> 1%nat) ->
  Spec.scalar r /\ k = length (encode_rune r) /\ firstn k s = encode_rune r.
Proof.
  destruct s as [|b0 t]; [intros _ HD; contradiction|].
  unfold decode_rune, in_rng. intros HD _ Hk. revert HD.
  destruct (N.ltb_spec b0 128).
  { intros HD; inversion HD; subst. rewrite enc1 by lia. unfold Spec.scalar. repeat split; try lia. }
  destruct (N.leb_spec 194 b0); cbn [andb]; [destruct (N.leb_spec b0 223); cbn [andb]|].
  { (* two bytes *)
    destruct t as [|b1 t]; [intros HD; inversion HD; subst; leaf_bad Hk|].
    destruct (N.leb_spec 128 b1); cbn [andb]; [destruct (N.leb_spec b1 191); cbn [andb]|];
      intros HD; inversion HD; subst; try leaf_bad Hk.
    rewrite enc2 by lia. unfold Spec.scalar. repeat split; try lia.
    cbn [firstn]. f_equal; [lia | f_equal; lia]. }
  { destruct (N.leb_spec 224 b0); cbn [andb]; [destruct (N.leb_spec b0 239); cbn [andb]|].
    { (* three bytes *)
      destruct t as [|b1 [|b2 t]]; try (intros HD; inversion HD; subst; leaf_bad Hk).
      destruct (N.eqb_spec b0 224); destruct (N.eqb_spec b0 237); try lia;
      match goal with |- context [?lo <=? b1] => destruct (N.leb_spec lo b1) end; cbn [andb];
      try (intros HD; inversion HD; subst; leaf_bad Hk);
      match goal with |- context [b1 <=? ?hi] => destruct (N.leb_spec b1 hi) end; cbn [andb];
      try (intros HD; inversion HD; subst; leaf_bad Hk);
      destruct (N.leb_spec 128 b2); cbn [andb]; try (intros HD; inversion HD; subst; leaf_bad Hk);
      destruct (N.leb_spec b2 191); cbn [andb]; try (intros HD; inversion HD; subst; leaf_bad Hk);
      intros HD; inversion HD; subst;
      (rewrite enc3 by lia; unfold Spec.scalar; repeat split; try lia;
       cbn [firstn]; f_equal; [lia | f_equal; [lia | f_equal; lia]]). }
    { destruct (N.leb_spec 240 b0); cbn [andb]; [destruct (N.leb_spec b0 244); cbn [andb]|];
        try (intros HD; inversion HD; subst; leaf_bad Hk).
      (* four bytes *)
      destruct t as [|b1 [|b2 [|b3 t]]]; try (intros HD; inversion HD; subst; leaf_bad Hk).
      destruct (N.eqb_spec b0 240); destruct (N.eqb_spec b0 244); try lia;
      match goal with |- context [?lo <=? b1] => destruct (N.leb_spec lo b1) end; cbn [andb];
      try (intros HD; inversion HD; subst; leaf_bad Hk);
      match goal with |- context [b1 <=? ?hi] => destruct (N.leb_spec b1 hi) end; cbn [andb];
      try (intros HD; inversion HD; subst; leaf_bad Hk);
      destruct (N.leb_spec 128 b2); cbn [andb]; try (intros HD; inversion HD; subst; leaf_bad Hk);
      destruct (N.leb_spec b2 191); cbn [andb]; try (intros HD; inversion HD; subst; leaf_bad Hk);
      destruct (N.leb_spec 128 b3); cbn [andb]; try (intros HD; inversion HD; subst; leaf_bad Hk);
      destruct (N.leb_spec b3 191); cbn [andb]; try (intros HD; inversion HD; subst; leaf_bad Hk);
      intros HD; inversion HD; subst;
      (rewrite enc4 by lia; unfold Spec.scalar; repeat split; try lia;
       cbn [firstn]; f_equal; [lia | f_equal; [lia | f_equal; [lia | f_equal; lia]]]). }
    { generic Hk. } }
  { generic Hk. }
Qed.

Ltac bprune :=
  repeat (match goal with
          | |- context [?a =? ?b] => destruct (N.eqb_spec a b)
          | |- context [?a <? ?b] => destruct (N.ltb_spec a b)
          | |- context [?a <=? ?b] => destruct (N.leb_spec a b)
          end; cbn [andb orb negb]; try (exfalso; lia)).

Lemma mod_shift K x M c : K = c * M -> x < M -> (K + x) mod M = x.
Proof.
  intros -> Hx. assert (M <> 0) by lia. rewrite N.add_comm, N.mod_add by assumption. apply N.mod_small. exact Hx.
Qed.

Lemma decode_encode r rest :
  Spec.scalar r -> decode_rune (encode_rune r ++ rest) = (r, length (encode_rune r)).
Proof.
  intros [H1 H2].
  destruct (N.ltb_spec r 128).
  { rewrite enc1 by lia. cbn [app length]. unfold decode_rune. bprune. reflexivity. }
  destruct (N.ltb_spec r 2048).
  { rewrite enc2 by lia. cbn [app length]. unfold decode_rune, in_rng. bprune. f_equal.
    rewrite (mod_shift 192 (r / 64) 32 6) by lia.
    rewrite (mod_shift 128 (r mod 64) 64 2) by lia. lia. }
  destruct (N.ltb_spec r 65536).
  { assert (Hq : r / 4096 = r / 64 / 64) by (rewrite N.div_div by lia; reflexivity).
    rewrite enc3 by lia. rewrite Hq.
    pose proof (N.div_mod r 64 ltac:(lia)) as Hr. pose proof (N.mod_lt r 64 ltac:(lia)) as Hm.
    set (q := r / 64) in *. set (m := r mod 64) in *. clearbody q m. subst r.
    cbn [app length]. unfold decode_rune, in_rng. bprune; f_equal;
    rewrite (mod_shift 224 (q / 64) 16 14) by lia;
    rewrite (mod_shift 128 (q mod 64) 64 2) by lia;
    rewrite (mod_shift 128 m 64 2) by lia; lia. }
  assert (Hq : r / 4096 = r / 64 / 64) by (rewrite N.div_div by lia; reflexivity).
  assert (Hp : r / 262144 = r / 64 / 64 / 64) by (rewrite !N.div_div by lia; reflexivity).
  rewrite enc4 by lia. rewrite Hq, Hp.
  pose proof (N.div_mod r 64 ltac:(lia)) as Hr. pose proof (N.mod_lt r 64 ltac:(lia)) as Hm.
  set (q := r / 64) in *. set (m := r mod 64) in *. clearbody q m. subst r.
  pose proof (N.div_mod q 64 ltac:(lia)) as Hq2. pose proof (N.mod_lt q 64 ltac:(lia)) as Hn.
  set (p := q / 64) in *. set (n := q mod 64) in *. clearbody p n. subst q.
  cbn [app length]. unfold decode_rune, in_rng. bprune; f_equal;
    rewrite (mod_shift 240 (p / 64) 8 30) by lia;
    rewrite (mod_shift 128 (p mod 64) 64 2) by lia;
    rewrite (mod_shift 128 n 64 2) by lia;
    rewrite (mod_shift 128 m 64 2) by lia; lia.
Qed.

Lemma enc_len r : Spec.scalar r ->
  (r < 128 /\ encode_rune r = [r]) \/ (2 <= length (encode_rune r))%nat.
Proof.
  intros [H1 H2]. destruct (N.ltb_spec r 128); [left; split; [assumption | apply enc1; assumption]|].
  right. destruct (N.ltb_spec r 2048); [rewrite enc2 by lia; cbn; lia|].
  destruct (N.ltb_spec r 65536); [rewrite enc3 by lia; cbn; lia|].
  rewrite enc4 by lia. cbn. lia.
Qed.

Lemma utf8_valid_fuel_wf fuel : forall s, utf8_valid_fuel fuel s = true -> Spec.utf8_wf s.
Proof.
  induction fuel as [|f IH]; intros s; cbn [utf8_valid_fuel].
  - destruct s; [|discriminate]. intros _. exists []. split; [constructor | reflexivity].
  - destruct s as [|b t]; [intros _; exists []; split; [constructor | reflexivity]|].
    destruct (decode_rune (b :: t)) as [r n] eqn:E.
    destruct ((128 <=? b) && Nat.eqb n 1) eqn:C; [discriminate|].
    intros H. apply IH in H as [rs [Hrs Hs]].
    assert (Hk : hd0 (b :: t) < 128 \/ n <> 1%nat).
    { cbn [hd0]. apply andb_false_iff in C as [C|C]; [left; apply N.leb_gt; exact C | right; apply Nat.eqb_neq; exact C]. }
    destruct (decode_valid (b :: t) r n E ltac:(discriminate) Hk) as [Hsc [Hn Hf]].
    exists (r :: rs). split; [constructor; assumption|].
    cbn [flat_map]. rewrite <- Hs, <- Hf. symmetry. apply firstn_skipn.
Qed.

Lemma utf8_wf_valid_fuel rs : Forall Spec.scalar rs ->
  forall fuel, (length (flat_map encode_rune rs) <= fuel)%nat ->
  utf8_valid_fuel fuel (flat_map encode_rune rs) = true.
Proof.
  induction 1 as [|r rs Hr Hrs IH]; intros fuel Hf.
  - cbn [flat_map]. destruct fuel; reflexivity.
  - cbn [flat_map] in *. rewrite app_length in Hf.
    pose proof (decode_encode r (flat_map encode_rune rs) Hr) as HD.
    destruct (enc_len r Hr) as [[Hlt He]|Hlen].
    + rewrite He in *. cbn [app length] in *. destruct fuel as [|f]; [lia|].
      cbn [utf8_valid_fuel]. rewrite HD. cbn [Nat.eqb].
      replace (128 <=? r) with false by (symmetry; apply N.leb_gt; exact Hlt). cbn [andb skipn].
      apply IH. lia.
    + destruct fuel as [|f]; [lia|].
      destruct (encode_rune r) as [|b0 e] eqn:Ee; [cbn in Hlen; lia|].
      cbn [app utf8_valid_fuel]. cbn [app] in HD. rewrite HD.
      replace (Nat.eqb (length (b0 :: e)) 1) with false by (symmetry; apply Nat.eqb_neq; lia).
      rewrite andb_false_r.
      change (b0 :: e ++ flat_map encode_rune rs) with ((b0 :: e) ++ flat_map encode_rune rs).
      rewrite skipn_app, skipn_all, Nat.sub_diag. cbn [app skipn]. apply IH. cbn [length] in *. lia.
Qed.

(* @validateUtf8Encoding matches exactly the values that are not well-formed UTF-8 (RFC 3629) *)
Lemma utf8_valid_exact s : utf8_valid s = true <-> Spec.utf8_wf s.
Proof.
  split.
  - apply utf8_valid_fuel_wf.
  - intros [rs [Hrs ->]]. apply utf8_wf_valid_fuel; [exact Hrs | lia].
Qed.

Lemma vutf8_eval_exact v : vutf8_eval v = true <-> ~ Spec.utf8_wf v.
Proof.
  unfold vutf8_eval. rewrite negb_true_iff. rewrite <- utf8_valid_exact.
  destruct (utf8_valid v); split; intros H; try discriminate; try reflexivity; try congruence.
Qed.

(* ==================================================================================== *)
(* captures over a non-empty prior state                                                 *)
(* ==================================================================================== *)
(* a group that did not participate is written as "": a stale text of an earlier capturing
   evaluation never survives in TX.i for i < min(groups, 10) *)
Lemma rx_captures_overwrite_stale idx v tx i :
  (i < 10)%nat -> (i < ngroups idx)%nat -> (nth (2 * i) idx (-1) < 0)%Z ->
  tx_get (store_captures true tx 0 (snd (rx_eval (Some idx) true v))) (itoa (N.of_nat i)) = Some [].
Proof.
  intros Hi Hg Hneg. rewrite rx_captures by exact Hi.
  replace (i <? ngroups idx)%nat with true by (symmetry; apply Nat.ltb_lt; exact Hg).
  unfold rx_group. replace (0 <=? nth (2 * i) idx (-1))%Z with false by (symmetry; apply Z.leb_gt; exact Hneg).
  reflexivity.
Qed.

(* two capturing @rx evaluations in a row: what TX.i holds afterwards is decided by the second
   one alone for every group index it has, and by the state after the first one otherwise *)
Lemma rx_captures_sequence idx1 v1 idx2 v2 tx i :
  (i < 10)%nat ->
  let tx1 := store_captures true tx 0 (snd (rx_eval (Some idx1) true v1)) in
  let tx2 := store_captures true tx1 0 (snd (rx_eval (Some idx2) true v2)) in
  tx_get tx2 (itoa (N.of_nat i))
  = if (i <? ngroups idx2)%nat then Some (rx_group idx2 v2 i)
    else if (i <? ngroups idx1)%nat then Some (rx_group idx1 v1 i)
    else tx_get tx (itoa (N.of_nat i)).
Proof.
  intros Hi tx1 tx2. unfold tx2. rewrite rx_captures by exact Hi.
  destruct (i <? ngroups idx2)%nat; [reflexivity|]. unfold tx1. apply rx_captures. exact Hi.
Qed.

(* ==================================================================================== *)
(* @ipMatch / @ipMatchFromFile (IPv4 forms)                                              *)
(* ==================================================================================== *)
Module IpSpec.
  (* the addresses of the block a/n: the 2^(32-n) addresses that share the first n bits with a *)
  Definition in_block (net : N * N) (ip : N) : Prop :=
    let '(a, n) := net in
    let size := 2 ^ (32 - n) in
    (a / size) * size <= ip < (a / size) * size + size.
  (* @ipMatch: the value is a dotted IPv4 address that lies in the union of the listed blocks *)
  Definition ipmatch (nets : list (N * N)) (value : bytes) : Prop :=
    exists ip, parse_ipv4 value = Some ip /\ exists net, In net nets /\ in_block net ip.
End IpSpec.

Lemma net_contains_iff net ip : net_contains net ip = true <-> IpSpec.in_block net ip.
Proof.
  destruct net as [a n]. unfold net_contains, IpSpec.in_block.
  rewrite N.eqb_eq, !N.shiftr_div_pow2.
  set (P := 2 ^ (32 - n)). assert (HP : 0 < P) by (apply N.neq_0_lt_0, N.pow_nonzero; lia).
  pose proof (N.div_mod ip P ltac:(lia)) as Hi. pose proof (N.mod_lt ip P ltac:(lia)) as Hm.
  rewrite (N.mul_comm P (ip / P)) in Hi.
  split.
  - intros E. rewrite <- E. set (q := ip / P) in *. set (m := ip mod P) in *. clearbody q m P.
    set (qp := q * P) in *. clearbody qp. lia.
  - intros [H1 H2]. symmetry. apply (N.div_unique ip P (a / P) (ip - a / P * P)).
    + set (ap := a / P * P) in *. clearbody ap. lia.
    + rewrite (N.mul_comm P (a / P)). set (ap := a / P * P) in *. clearbody ap. lia.
Qed.

Lemma ipm_eval_exact nets v : ipm_eval nets v = true <-> IpSpec.ipmatch nets v.
Proof.
  unfold ipm_eval, IpSpec.ipmatch. destruct (parse_ipv4 v) as [ip|].
  - rewrite existsb_exists. split.
    + intros [net [Hn Hc]]. exists ip. split; [reflexivity|]. exists net. split; [exact Hn|].
      apply net_contains_iff. exact Hc.
    + intros [ip' [E [net [Hn Hb]]]]. inversion E; subst ip'. exists net. split; [exact Hn|].
      apply net_contains_iff. exact Hb.
  - split; [discriminate|]. intros [ip [E _]]. discriminate.
Qed.

(* the listed networks are exactly the items that parse, in order (nothing is rejected at
   construction: an item that does not parse is skipped) *)
Lemma ipm_nets_in items net :
  In net (ipm_nets items) <-> exists it, In it items /\ ipm_item it = Some net.
Proof.
  induction items as [|it r IH]; cbn [ipm_nets].
  - split; [intros [] | intros [? [[] _]]].
  - destruct (ipm_item it) as [n|] eqn:E.
    + cbn [In]. rewrite IH. split.
      * intros [<-|[x [Hx Hn]]]; [exists it; split; [left; reflexivity | exact E] | exists x; split; [right; exact Hx | exact Hn]].
      * intros [x [[<-|Hx] Hn]]; [left; congruence | right; exists x; split; assumption].
    + rewrite IH. split.
      * intros [x [Hx Hn]]. exists x. split; [right; exact Hx | exact Hn].
      * intros [x [[<-|Hx] Hn]]; [congruence | exists x; split; assumption].
Qed.

(* @ipMatch arg decides exactly: the value is an IPv4 address inside the block of some
   comma-separated item that parses *)
Lemma ipmatch_exact arg v :
  ipm_eval (ipm_new arg) v = true <->
  exists ip it net, parse_ipv4 v = Some ip /\ In it (split_byte 44 arg) /\ ipm_item it = Some net
                    /\ IpSpec.in_block net ip.
Proof.
  rewrite ipm_eval_exact. unfold IpSpec.ipmatch, ipm_new. split.
  - intros [ip [E [net [Hn Hb]]]]. apply ipm_nets_in in Hn as [it [Hi Hp]]. exists ip, it, net. auto.
  - intros [ip [it [net [E [Hi [Hp Hb]]]]]]. exists ip. split; [exact E|]. exists net. split; [|exact Hb].
    apply ipm_nets_in. exists it. auto.
Qed.

(* /32 is the single address, /0 is everything *)
Lemma in_block_32 a ip : IpSpec.in_block (a, 32) ip <-> ip = a.
Proof. unfold IpSpec.in_block. change (2 ^ (32 - 32)) with 1. rewrite N.div_1_r. lia. Qed.
Lemma in_block_0 a ip : a < 2 ^ 32 -> (IpSpec.in_block (a, 0) ip <-> ip < 2 ^ 32).
Proof.
  intros Ha. unfold IpSpec.in_block. change (2 ^ (32 - 0)) with (2 ^ 32).
  rewrite (N.div_small a) by exact Ha. lia.
Qed.
