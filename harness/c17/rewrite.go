package c17

import (
	"encoding/json"
	"strings"
)

// The implementation-side oracle of C17: the explicitly rewritten rule set, written here directly on
// the source description (independently of the Coq model): rules removed from the text, targets and
// actions written into the rule.

func cloneSrc(src []itemJ) []itemJ {
	b, _ := json.Marshal(src)
	var out []itemJ
	_ = json.Unmarshal(b, &out)
	return out
}

func specHas(s specJ, id int) bool {
	if s.Range {
		return s.A <= id && id <= s.B
	}
	return id == s.A
}

func specsHave(ss []specJ, id int) bool {
	for _, s := range ss {
		if specHas(s, id) {
			return true
		}
	}
	return false
}

func headTags(it itemJ) []string {
	var t []string
	for _, a := range it.Links[0].Acts {
		if a.A == "tag" {
			t = append(t, a.V)
		}
	}
	return t
}

func headMsg(it itemJ) (string, bool) {
	m, ok := "", false
	for _, a := range it.Links[0].Acts {
		if a.A == "msg" {
			m, ok = a.V, true
		}
	}
	return m, ok
}

func hasTag(it itemJ, t string) bool {
	for _, x := range headTags(it) {
		if x == t {
			return true
		}
	}
	return false
}

func hasMsg(it itemJ, m string) bool {
	x, ok := headMsg(it)
	return ok && x == m
}

func hasDisr(as []actJ) bool {
	for _, a := range as {
		if a.A == "disr" {
			return true
		}
	}
	return false
}

func withActions(old, upd []actJ) []actJ {
	var out []actJ
	for _, a := range old {
		if a.A == "disr" && hasDisr(upd) {
			continue
		}
		out = append(out, a)
	}
	return append(out, upd...)
}

// rewriteDir: the configuration a user would write by hand instead of the directive.
func rewriteDir(src []itemJ, d *dirJ) []itemJ {
	src = cloneSrc(src)
	switch d.Kind {
	case "rmId", "rmTag", "rmMsg":
		var out []itemJ
		for _, it := range src {
			if it.Marker == "" {
				if (d.Kind == "rmId" && specsHave(d.Specs, it.ID)) ||
					(d.Kind == "rmTag" && hasTag(it, d.Val)) ||
					(d.Kind == "rmMsg" && hasMsg(it, d.Val)) {
					continue
				}
			}
			out = append(out, it)
		}
		return out
	case "updTargetId", "updActionId":
		for _, s := range d.Specs {
			for i := range src {
				if src[i].Marker != "" || !specHas(s, src[i].ID) {
					continue
				}
				h := &src[i].Links[0]
				if d.Kind == "updTargetId" {
					h.Targets = append(h.Targets, d.Items...)
				} else {
					h.Acts = withActions(h.Acts, d.Acts)
				}
			}
		}
		return src
	case "updTargetTag":
		for i := range src {
			if src[i].Marker == "" && hasTag(src[i], d.Val) {
				src[i].Links[0].Targets = append(src[i].Links[0].Targets, d.Items...)
			}
		}
		return src
	}
	panic("directive " + d.Kind)
}

func stripCtlActs(as []actJ) []actJ {
	var out []actJ
	for _, a := range as {
		if a.A != "ctl" {
			out = append(out, a)
		}
	}
	return out
}

func stripCtl(src []itemJ) []itemJ {
	src = cloneSrc(src)
	for i := range src {
		for j := range src[i].Links {
			src[i].Links[j].Acts = stripCtlActs(src[i].Links[j].Acts)
		}
	}
	return src
}

func hasCtl(src []itemJ) bool {
	for _, it := range src {
		for _, l := range it.Links {
			for _, a := range l.Acts {
				if a.A == "ctl" {
					return true
				}
			}
		}
	}
	return false
}

func ctlSelects(c *ctlJ, it itemJ) bool {
	switch c.Kind {
	case "rmId", "rmTargetId":
		if c.Spec.Range && c.Spec.A > c.Spec.B {
			return false // an invalid range is logged and ignored
		}
		return specHas(*c.Spec, it.ID)
	case "rmTag", "rmTargetTag":
		return hasTag(it, c.Val)
	case "rmMsg", "rmTargetMsg":
		return hasMsg(it, c.Val)
	}
	return false
}

// rewriteCtl: the rule set that behaves, for every rule evaluated after the trigger at index ti fired,
// like the original one after the trigger's ctl actions executed: selected later rules are removed /
// get the exclusion written into every link.
func rewriteCtl(src []itemJ, fired map[int]bool) []itemJ {
	return rewriteCtlExcept(src, fired, nil)
}

// rewriteCtlExcept: as rewriteCtl, the ctl actions for which inert() holds are treated as having no effect.
func rewriteCtlExcept(src []itemJ, fired map[int]bool, inert func(*ctlJ) bool) []itemJ {
	orig := src
	src = stripCtl(src)
	drop := map[int]bool{}
	for ti, t := range orig {
		if t.Marker != "" || !fired[t.ID] {
			continue
		}
		for _, a := range t.Links[0].Acts {
			if a.A != "ctl" || (inert != nil && inert(a.Ctl)) {
				continue
			}
			for j := range src {
				it := orig[j]
				if it.Marker != "" || j == ti {
					continue
				}
				later := (it.Phase == t.Phase && j > ti) || it.Phase > t.Phase
				if !later || !ctlSelects(a.Ctl, it) {
					continue
				}
				if strings.HasPrefix(a.Ctl.Kind, "rmTarget") {
					for k := range src[j].Links {
						src[j].Links[k].Targets = append(src[j].Links[k].Targets, titemJ{Neg: true, Var: a.Ctl.Var, Key: *a.Ctl.Key})
					}
				} else {
					drop[j] = true
				}
			}
		}
	}
	var out []itemJ
	for j, it := range src {
		if !drop[j] {
			out = append(out, it)
		}
	}
	return out
}

// rewrittenFor returns the rewritten SecLang text for one request of the case ("" and a reason when the
// oracle does not apply).
func rewrittenFor(c *caseJ, ri int) (string, string) {
	return rewrittenWith(c, ri, nil)
}

func rewrittenWith(c *caseJ, ri int, inert func(*ctlJ) bool) (string, string) {
	if c.Dir != nil {
		return confText(c.Dflt, rewriteDir(c.Src, c.Dir), nil), ""
	}
	if !hasCtl(c.Src) {
		return "", "no directive"
	}
	fired := map[int]bool{}
	for _, it := range c.Src {
		if it.Marker != "" {
			continue
		}
		carries := false
		for j, l := range it.Links {
			for _, a := range l.Acts {
				if a.A == "ctl" {
					carries = true
					if j > 0 || len(it.Links) > 1 {
						// a chained trigger runs its ctl when the link matches, even if the chain does not:
						// not readable from the matched rules
						return "", "ctl carried by a chain (model comparison only)"
					}
				}
			}
		}
		if carries {
			for _, m := range c.Obs[ri].Matched {
				if m.ID == it.ID {
					fired[it.ID] = true
				}
			}
		}
	}
	return confText(c.Dflt, rewriteCtlExcept(c.Src, fired, inert), nil), ""
}

func rxCaseCtl(ct *ctlJ) bool {
	return strings.HasPrefix(ct.Kind, "rmTarget") && ct.Key.K == "rx" && ct.Var == "REQUEST_HEADERS" && hasUpper(ct.Key.V)
}

// asCodedFor renders, for a case of a listed deviation class, the SecLang text that behaves like the
// DEVIATING code (not like the property): the form must equal it, otherwise the difference is not the
// listed one. "" when the deviating behaviour cannot be written as text (a SecMarker with actions, markers
// hidden from a point inside a phase).
func asCodedFor(c *caseJ, ri int, class string) string {
	switch class {
	case keyZero:
		if c.Dir == nil || c.Dir.Kind != "rmId" {
			return ""
		}
		// DeleteByID removes the first rule with the id (markers carry 0), DeleteByRange all of them
		src := cloneSrc(c.Src)
		id := func(it itemJ) int {
			if it.Marker != "" {
				return 0
			}
			return it.ID
		}
		for _, s := range c.Dir.Specs {
			var out []itemJ
			done := false
			for _, it := range src {
				if s.Range {
					if s.A <= id(it) && id(it) <= s.B {
						continue
					}
				} else if !done && id(it) == s.A {
					done = true
					continue
				}
				out = append(out, it)
			}
			src = out
		}
		return confText(c.Dflt, src, nil)
	case keyBlock:
		// the written "block" stays in the rule as an action without effect
		d := *c.Dir
		d.Acts = append([]actJ{}, c.Dir.Acts...)
		for i := range d.Acts {
			if d.Acts[i].A == "disr" && d.Acts[i].V == "block" {
				d.Acts[i].V = "pass"
			}
		}
		return confText(c.Dflt, rewriteDir(c.Src, &d), nil)
	case keyRxCase:
		// the un-folded regex never matches a lower-cased name: that ctl excludes nothing
		rw, _ := rewrittenWith(c, ri, rxCaseCtl)
		return rw
	}
	return ""
}

func hasMarkers(src []itemJ) bool {
	for _, it := range src {
		if it.Marker != "" {
			return true
		}
	}
	return false
}

func hasUpper(s string) bool { return strings.ToLower(s) != s }

// deviationClass names the known-deviation class a case falls into ("" = none); such cases go through
// oracle (b) only when the class key is listed as a finding in KNOWN_FINDINGS.txt.
func deviationClass(c *caseJ) string {
	if d := c.Dir; d != nil {
		if (d.Kind == "rmId" || d.Kind == "updActionId") && specsHave(d.Specs, 0) && hasMarkers(c.Src) {
			return keyZero
		}
		if d.Kind == "updActionId" {
			blk := false
			for _, a := range d.Acts {
				if a.A == "disr" && a.V == "block" {
					blk = true
				}
			}
			if blk {
				for _, df := range c.Dflt {
					if df.Disr != "pass" {
						return keyBlock
					}
				}
			}
		}
		return ""
	}
	for _, it := range c.Src {
		for _, l := range it.Links {
			for _, a := range l.Acts {
				if a.A != "ctl" {
					continue
				}
				if a.Ctl.Kind == "rmId" && specHas(*a.Ctl.Spec, 0) && hasMarkers(c.Src) {
					return keyZero
				}
				if rxCaseCtl(a.Ctl) {
					return keyRxCase
				}
			}
		}
	}
	return ""
}
