(* Props/C07.v — the property theorems of C07 and nothing else.
   C07: the library never panics, whatever configuration text or traffic it is given.
   PARTIAL by nature: the theorems cover the modelled code paths (NoPanic.v), in which every
   partial Go operation is an explicit [Panic] outcome; the rest of the library is searched. *)
From Coq Require Import String.
From Verif Require Import Base NoPanic NoPanicProofs NoPanicConfig NoPanicConfigProofs.
Open Scope Z_scope.

(* macro.NewMacro + Expand: no input bytes and no transaction state (nil collections included)
   reach a panic: input[i-1], input[i+1] stay in bounds, nil collections are handled *)
Theorem C07_macro_total : forall data tx,
  np_new_macro data <> Panic /\
  (forall toks, np_new_macro data = Ok toks -> np_expand true tx toks <> Panic).
Proof. exact np_macro_total. Qed.
Print Assumptions C07_macro_total.

(* F03, code before 5665fe3: %{JSON.x} compiles and panics when expanded *)
Theorem C07_macro_expand_nil_collection_refuted :
  exists data toks, np_new_macro data = Ok toks /\ np_expand false np_tx_json_nil toks = Panic.
Proof. exact np_macro_expand_nil_collection_refuted. Qed.
Print Assumptions C07_macro_expand_nil_collection_refuted.

(* the hand-written scanners of rule_parser.go, for every byte string *)
Theorem C07_cut_quoted_string_total : forall s, np_cut_quoted_string s <> Panic.
Proof. exact np_cut_quoted_string_total. Qed.
Print Assumptions C07_cut_quoted_string_total.

Theorem C07_parse_action_operator_total : forall data, np_parse_action_operator data <> Panic.
Proof. exact np_parse_action_operator_total. Qed.
Print Assumptions C07_parse_action_operator_total.

(* parseActions: actions[i-1], actions[afterKey+1:i], actions[beforeKey+1:afterKey],
   res[disruptiveActionIndex] are in bounds for every action text *)
Theorem C07_parse_actions_total : forall s, np_parse_actions s <> Panic.
Proof. exact np_parse_actions_total. Qed.
Print Assumptions C07_parse_actions_total.

(* ParseOperator: operator[0], operator[1], op[0], op[1], op[1:], op[2:] *)
Theorem C07_parse_operator_total : forall o, np_parse_operator o <> Panic.
Proof. exact np_parse_operator_total. Qed.
Print Assumptions C07_parse_operator_total.

(* ParseVariables: vars[i], vars[i+1] *)
Theorem C07_parse_variables_total : forall s, np_parse_variables s <> Panic.
Proof. exact np_parse_variables_total. Qed.
Print Assumptions C07_parse_variables_total.

(* setvar in every spelling: Init never panics, an accepted setvar always has a key macro, and
   Evaluate never panics for any transaction state (value macro optional, value[0] guarded) *)
Theorem C07_setvar_total : forall data tx, np_setvar_run true data tx <> Panic.
Proof. exact np_setvar_total. Qed.
Print Assumptions C07_setvar_total.

Theorem C07_setvar_init_key_present : forall data sv, np_setvar_init data = Ok sv -> sv_key sv <> None.
Proof. exact np_setvar_init_key_present. Qed.
Print Assumptions C07_setvar_init_key_present.

(* F02, code before e674a84 *)
Theorem C07_setvar_nil_value_refuted :
  np_setvar_run false (str "!tx.a"%string) np_tx_empty = Panic /\
  np_setvar_run false (str "tx.a"%string) np_tx_empty = Panic /\
  np_is_ok (np_setvar_init (str "!tx.a"%string)) = true.
Proof. exact np_setvar_nil_value_refuted. Qed.
Print Assumptions C07_setvar_nil_value_refuted.

(* DeleteByMsg over rules with optional Msg *)
Theorem C07_delete_by_msg_total : forall rules msg, np_delete_by_msg true rules msg <> Panic.
Proof. exact np_delete_by_msg_total. Qed.
Print Assumptions C07_delete_by_msg_total.

Theorem C07_delete_by_msg_spec : forall rules msg,
  np_delete_by_msg true rules msg =
  Ok (filter (fun r => match r_msg r with None => true | Some m => negb (bytes_eqb m msg) end) rules).
Proof. exact np_delete_by_msg_spec. Qed.
Print Assumptions C07_delete_by_msg_spec.

(* F01, code before c155495 *)
Theorem C07_delete_by_msg_nil_msg_refuted : exists rules msg, np_delete_by_msg false rules msg = Panic.
Proof. exact np_delete_by_msg_nil_msg_refuted. Qed.
Print Assumptions C07_delete_by_msg_nil_msg_refuted.

(* b[:writingBytes] in WriteRequestBody / WriteResponseBody: in bounds for EVERY int64 limit
   (negative, MinInt64, MaxInt64), every buffered length and chunk length; int64 arithmetic explicit *)
Theorem C07_write_body_slice_in_bounds : forall partial limit buffered blen,
  np_int64 limit = true -> 0 <= buffered <= np_max_int64 -> 0 <= blen <= np_max_int64 ->
  np_write_body WbCompareFirst partial limit buffered blen <> Panic /\
  (forall n, np_write_body WbCompareFirst partial limit buffered blen = Ok (Some n) -> 0 <= n <= blen).
Proof. exact np_write_body_slice_in_bounds. Qed.
Print Assumptions C07_write_body_slice_in_bounds.

Theorem C07_write_body_respects_limit : forall limit buffered blen n,
  np_int64 limit = true -> 0 <= buffered <= np_max_int64 -> 0 <= blen <= np_max_int64 ->
  np_write_body WbCompareFirst true limit buffered blen = Ok (Some n) -> buffered + n <= Z.max limit buffered.
Proof. exact np_write_body_respects_limit. Qed.
Print Assumptions C07_write_body_respects_limit.

(* F06/F34 (no clamp) and F43 (low clamp only: MinInt64 - 1 wraps to MaxInt64) *)
Theorem C07_write_body_old_variants_refuted :
  np_write_body WbNoClamp true 5 13 1 = Panic /\
  np_write_body WbNoClamp true (-1) 0 4 = Panic /\
  np_write_body WbClampLow true np_min_int64 1 1 = Panic /\
  np_write_body WbClampLow true 5 13 1 = Ok (Some 0).
Proof. exact np_write_body_old_variants_refuted. Qed.
Print Assumptions C07_write_body_old_variants_refuted.

(* memoize: with key prefixes that are pairwise incomparable across artefact types, no sequence
   of lookups from any of the call sites ever fails its type assertion *)
Theorem C07_memo_typed_lookup_total : forall sites, np_sites_ok sites = true ->
  forall calls, (forall s x f, In (s, x, f) calls -> In s sites) -> np_memo_run [] calls = false.
Proof. exact np_memo_typed_lookup_total. Qed.
Print Assumptions C07_memo_typed_lookup_total.

Theorem C07_memo_fixed_total :
  forall calls, (forall s x f, In (s, x, f) calls -> In s np_sites_fixed) -> np_memo_run [] calls = false.
Proof. exact np_memo_fixed_total. Qed.
Print Assumptions C07_memo_fixed_total.

(* F04, code before efe1f8f: one untagged key space *)
Theorem C07_memo_untagged_refuted :
  exists calls, (forall s x f, In (s, x, f) calls -> In s np_sites_old) /\ np_memo_run [] calls = true.
Proof. exact np_memo_untagged_refuted. Qed.
Print Assumptions C07_memo_untagged_refuted.

(* ---- one level up: whole configurations and whole transactions (NoPanicConfig.v) ---- *)

(* compiling ANY configuration text (parseString line assembly, evaluateLine dispatch and quote trim,
   SecAction / SecRule / SecMarker / SecRuleRemoveByMsg, ParseRule, Init of id phase msg logdata tag
   pass log nolog auditlog noauditlog setvar, RuleGroup.Add) never panics; directives and actions
   outside the fragment yield Ok None ("unmodelled"), never Panic *)
Theorem C07_compile_config_total : forall text, np_compile_config text <> Panic.
Proof. exact np_compile_config_total. Qed.
Print Assumptions C07_compile_config_total.

(* what request time relies on: every setvar of every accepted configuration carries its key macro *)
Theorem C07_compile_config_wf : forall text rules, np_compile_config text = Ok (Some rules) -> np_rules_wf rules.
Proof. exact np_compile_config_wf. Qed.
Print Assumptions C07_compile_config_wf.

(* the five phases over any well-formed rule list, any collections (nil ones included), any TX state *)
Theorem C07_run_config_total : forall base rules kv, np_rules_wf rules -> np_run_config base rules kv <> Panic.
Proof. exact np_run_config_total. Qed.
Print Assumptions C07_run_config_total.

(* whole pipeline: for every configuration text and every state of the other collections, compiling and
   then driving a transaction through all phases never panics *)
Theorem C07_compile_and_run_total : forall base text, np_compile_and_run base text <> Panic.
Proof. exact np_compile_and_run_total. Qed.
Print Assumptions C07_compile_and_run_total.

(* mergeActions: whenever the defaults of the phase contain a disruptive action (ParseDefaultActions
   guarantees it, proved: np_parse_default_disr) no merged action has a nil F; compile_config_total
   above goes through SecDefaultAction, ParseDefaultActions, the built-in phase-2 default and this merge *)
Theorem C07_merge_no_nil_action : forall origin d,
  existsb ra_disr d = true -> Forall (fun o => o <> None) (np_merge origin d).
Proof. exact np_merge_no_nil. Qed.
Print Assumptions C07_merge_no_nil_action.
