(* AuditJson.v — byte-level model of the JSON audit formatter (property C19) for the fields the
   property names: encoding/json's string encoder (appendString with HTML escaping, as json.Marshal
   uses it), the decoder of a JSON string literal, and the frame of the record printed by
   internal/auditlog/formats_json.go (json.Marshal of auditlog.Log): the head of the "transaction"
   object up to "server_id" (it carries the transaction id) and the whole "messages" array. The part
   in between (request / response / producer objects) is not modelled. No proofs here. *)
From Coq Require Import String.
From Verif Require Import Base Utf8.
Open Scope N_scope.

(* ---- encoding/json appendString(dst, s, escapeHTML = true) ---- *)

Definition js_hexd (n : N) : N := if n <? 10 then 48 + n else 87 + n.

(* htmlSafeSet *)
Definition js_safe (b : N) : bool :=
  (32 <=? b) && (b <? 128)
  && negb ((b =? 34) || (b =? 92) || (b =? 60) || (b =? 62) || (b =? 38)).

Definition js_esc_ascii (b : N) : bytes :=
  if js_safe b then [b]
  else if (b =? 92) || (b =? 34) then [92; b]
  else if b =? 8 then [92; 98]
  else if b =? 12 then [92; 102]
  else if b =? 10 then [92; 110]
  else if b =? 13 then [92; 114]
  else if b =? 9 then [92; 116]
  else [92; 117; 48; 48; js_hexd (b / 16); js_hexd (b mod 16)].

Definition js_ufffd : bytes := [92; 117; 102; 102; 102; 100].            (* � *)
Definition js_u202 (c : N) : bytes := [92; 117; 50; 48; 50; js_hexd (c mod 16)].  (*     *)

Fixpoint js_esc_fuel (fuel : nat) (s : bytes) : bytes :=
  match fuel with
  | O => []
  | S f =>
    match s with
    | [] => []
    | b :: r =>
      if b <? 128 then js_esc_ascii b ++ js_esc_fuel f r
      else
        let '(c, n) := decode_rune s in
        if (c =? rune_error) && Nat.eqb n 1 then js_ufffd ++ js_esc_fuel f r
        else if (c =? 8232) || (c =? 8233) then js_u202 c ++ js_esc_fuel f (skipn n s)
        else firstn n s ++ js_esc_fuel f (skipn n s)
    end
  end.

Definition js_escape (s : bytes) : bytes := js_esc_fuel (length s) s.
Definition js_string (s : bytes) : bytes := 34 :: js_escape s ++ [34].

(* what a reader gets back: invalid UTF-8 bytes come back as U+FFFD, everything else as it was *)
Fixpoint js_san_fuel (fuel : nat) (s : bytes) : bytes :=
  match fuel with
  | O => []
  | S f =>
    match s with
    | [] => []
    | b :: r =>
      if b <? 128 then b :: js_san_fuel f r
      else
        let '(c, n) := decode_rune s in
        if (c =? rune_error) && Nat.eqb n 1 then [239; 191; 189] ++ js_san_fuel f r
        else firstn n s ++ js_san_fuel f (skipn n s)
    end
  end.
Definition js_sanitize (s : bytes) : bytes := js_san_fuel (length s) s.

Fixpoint js_valid_fuel (fuel : nat) (s : bytes) : bool :=
  match fuel with
  | O => true
  | S f =>
    match s with
    | [] => true
    | b :: r =>
      if b <? 128 then js_valid_fuel f r
      else
        let '(c, n) := decode_rune s in
        if (c =? rune_error) && Nat.eqb n 1 then false else js_valid_fuel f (skipn n s)
    end
  end.
Definition valid_utf8 (s : bytes) : bool := js_valid_fuel (length s) s.

(* ---- decoding a JSON string literal (the part of encoding/json's unquote the encoder can produce:
   two-character escapes, \uXXXX of the basic plane, raw bytes >= 0x20) ---- *)

Definition js_hexv (c : N) : option N :=
  if (48 <=? c) && (c <=? 57) then Some (c - 48)
  else if (97 <=? c) && (c <=? 102) then Some (c - 87)
  else if (65 <=? c) && (c <=? 70) then Some (c - 55)
  else None.

Definition js_simple (e : N) : option N :=
  if e =? 34 then Some 34 else if e =? 92 then Some 92 else if e =? 47 then Some 47
  else if e =? 98 then Some 8 else if e =? 102 then Some 12 else if e =? 110 then Some 10
  else if e =? 114 then Some 13 else if e =? 116 then Some 9 else None.

Definition js_cons (x : bytes) (o : option (bytes * bytes)) : option (bytes * bytes) :=
  match o with Some (v, t) => Some (x ++ v, t) | None => None end.

(* after the opening quote: the decoded value and what follows the closing quote *)
Fixpoint js_unq (s : bytes) : option (bytes * bytes) :=
  match s with
  | [] => None
  | b :: r =>
    if b =? 34 then Some ([], r)
    else if b =? 92 then
      match r with
      | [] => None
      | e :: r2 =>
        if e =? 117 then
          match r2 with
          | h1 :: h2 :: h3 :: h4 :: r3 =>
            match js_hexv h1, js_hexv h2, js_hexv h3, js_hexv h4 with
            | Some a, Some b', Some c, Some d =>
              js_cons (encode_rune (a * 4096 + b' * 256 + c * 16 + d)) (js_unq r3)
            | _, _, _, _ => None
            end
          | _ => None
          end
        else match js_simple e with Some x => js_cons [x] (js_unq r2) | None => None end
      end
    else if b <? 32 then None
    else js_cons [b] (js_unq r)
  end.

Definition js_unquote (s : bytes) : option (bytes * bytes) :=
  match s with
  | q :: r => if q =? 34 then js_unq r else None
  | [] => None
  end.

(* ---- the record ---- *)

Definition js_int (z : Z) : bytes :=
  if (z <? 0)%Z then 45 :: itoa (Z.to_N (- z)) else itoa (Z.to_N z).

Fixpoint js_join (sep : bytes) (l : list bytes) : bytes :=
  match l with
  | [] => []
  | [x] => x
  | x :: r => x ++ sep ++ js_join sep r
  end.

Record jdata := {
  jd_file : bytes; jd_line : Z; jd_id : Z; jd_rev : bytes; jd_msg : bytes; jd_data : bytes;
  jd_severity : Z; jd_ver : bytes; jd_maturity : Z; jd_accuracy : Z;
  jd_tags : option (list bytes);       (* None = nil slice = null *)
  jd_raw : bytes
}.

Record jmsg := { jm_actionset : bytes; jm_message : bytes; jm_error : bytes; jm_data : option jdata }.

Record jhead := {
  jh_ts : bytes; jh_unix : Z; jh_id : bytes; jh_cip : bytes; jh_cport : Z; jh_hip : bytes; jh_hport : Z;
  jh_server : bytes
}.

Definition json_data (d : jdata) : bytes :=
  str "{""file"":" ++ js_string (jd_file d) ++ str ",""line"":" ++ js_int (jd_line d)
  ++ str ",""id"":" ++ js_int (jd_id d) ++ str ",""rev"":" ++ js_string (jd_rev d)
  ++ str ",""msg"":" ++ js_string (jd_msg d) ++ str ",""data"":" ++ js_string (jd_data d)
  ++ str ",""severity"":" ++ js_int (jd_severity d) ++ str ",""ver"":" ++ js_string (jd_ver d)
  ++ str ",""maturity"":" ++ js_int (jd_maturity d) ++ str ",""accuracy"":" ++ js_int (jd_accuracy d)
  ++ str ",""tags"":"
  ++ (match jd_tags d with None => str "null" | Some l => [91] ++ js_join [44] (map js_string l) ++ [93] end)
  ++ str ",""raw"":" ++ js_string (jd_raw d) ++ str "}".

Definition json_msg (m : jmsg) : bytes :=
  str "{""actionset"":" ++ js_string (jm_actionset m) ++ str ",""message"":" ++ js_string (jm_message m)
  ++ str ",""error_message"":" ++ js_string (jm_error m)
  ++ str ",""data"":" ++ (match jm_data m with None => str "null" | Some d => json_data d end) ++ str "}".

(* `json:"messages,omitempty"`: the key disappears when there is no message *)
Definition json_tail (ms : list jmsg) : bytes :=
  match ms with
  | [] => str "}"
  | _ => str ",""messages"":[" ++ js_join [44] (map json_msg ms) ++ str "]}"
  end.

Definition json_head_pre (h : jhead) : bytes :=
  str "{""transaction"":{""timestamp"":" ++ js_string (jh_ts h) ++ str ",""unix_timestamp"":" ++ js_int (jh_unix h)
  ++ str ",""id"":".

Definition json_head_post (h : jhead) : bytes :=
  str ",""client_ip"":" ++ js_string (jh_cip h) ++ str ",""client_port"":" ++ js_int (jh_cport h)
  ++ str ",""host_ip"":" ++ js_string (jh_hip h) ++ str ",""host_port"":" ++ js_int (jh_hport h)
  ++ str ",""server_id"":" ++ js_string (jh_server h).

Definition json_head (h : jhead) : bytes := json_head_pre h ++ js_string (jh_id h) ++ json_head_post h.

(* the printed record: head, the unmodelled middle (request / response / producer / severity /
   interruption flag, closing brace of "transaction"), tail *)
Definition json_record (h : jhead) (middle : bytes) (ms : list jmsg) : bytes :=
  json_head h ++ middle ++ json_tail ms.
