(* Props/C04.v — the property theorems of C04 and nothing else.
   C04: a transaction's outcome is a function of configuration and request only. *)
From Verif Require Import Base Transform Determinism DeterminismProofs.
From Coq Require Import Permutation.

(* the outcome is a function of (configuration, request, order oracle): nothing else - no
   repetition count, no history of the WAF - enters the evaluation *)
Theorem C04_deterministic_given_order : forall cfg cfg' rq rq' (ord ord' : ord_t),
  cfg = cfg' -> rq = rq' -> (forall n l, ord n l = ord' n l) ->
  run cfg rq ord = run cfg' rq' ord'.
Proof. exact deterministic_given_order. Qed.
Print Assumptions C04_deterministic_given_order.

(* for an order-insensitive configuration the observable outcome (interruption, fired rules in
   order, per rule the multiset of matched (variable, key, value), TX counters, highest
   severity) is the same under ANY two permutation oracles, a fresh permutation at every map
   iteration, for every request *)
Theorem C04_order_independent_partial : forall cfg rq (ord1 ord2 : ord_t),
  order_insensitive cfg = true ->
  (forall n l, Permutation (ord1 n l) l) -> (forall n l, Permutation (ord2 n l) l) ->
  obs_equiv (observe (run cfg rq ord1)) (observe (run cfg rq ord2)).
Proof. intros cfg rq ord1 ord2 H H1 H2. exact (order_independent ord1 ord2 rq H1 H2 cfg H). Qed.
Print Assumptions C04_order_independent_partial.

(* the guard is not vacuous: an anomaly-scoring configuration (per-match increments by a TX
   constant, chain with MATCHED_VAR read after a single-valued link, count target, threshold
   deny, logging-phase rule, capture) satisfies it *)
Theorem C04_guard_nonvacuous : order_insensitive cfg_anomaly = true.
Proof. exact anomaly_scoring_is_order_insensitive. Qed.
Print Assumptions C04_guard_nonvacuous.

(* without the guard the statement is false (known finding F26, key c04-matched-var-hash-order):
   SecRule ARGS "@rx ." "chain" + SecRule MATCHED_VAR "@streq x" on ?a=x&b=y fires or not
   depending on the oracle *)
Theorem C04_order_dependent_refuted :
  exists cfg rq ord1 ord2, (forall n l, Permutation (ord1 n l) l) /\ (forall n l, Permutation (ord2 n l) l) /\
    ~ obs_equiv (observe (run cfg rq ord1)) (observe (run cfg rq ord2)).
Proof. exact order_dependent_refuted. Qed.
Print Assumptions C04_order_dependent_refuted.

(* ... a counter copied from MATCHED_VAR in a multi-valued rule differs *)
Theorem C04_order_dependent_counter_refuted :
  exists cfg rq ord1 ord2, (forall n l, Permutation (ord1 n l) l) /\ (forall n l, Permutation (ord2 n l) l) /\
    o_tx (observe (run cfg rq ord1)) <> o_tx (observe (run cfg rq ord2)).
Proof. exact order_dependent_counter_refuted. Qed.
Print Assumptions C04_order_dependent_counter_refuted.

(* ... and the interruption itself differs when a later rule reads TX.0 captured by a multi-valued rule *)
Theorem C04_order_dependent_interruption_refuted :
  exists cfg rq ord1 ord2, (forall n l, Permutation (ord1 n l) l) /\ (forall n l, Permutation (ord2 n l) l) /\
    o_intr (observe (run cfg rq ord1)) <> o_intr (observe (run cfg rq ord2)).
Proof. exact order_dependent_interruption_refuted. Qed.
Print Assumptions C04_order_dependent_interruption_refuted.

(* the key lemma in its general form: a fold of steps that pairwise commute up to an equivalence
   the steps respect gives equivalent results on any two permutations of the list *)
Theorem C04_fold_of_commuting_steps_is_order_independent :
  forall (S A : Type) (R : S -> S -> Prop) (step : S -> A -> S),
  (forall s, R s s) -> (forall a b c, R a b -> R b c -> R a c) ->
  (forall s s' a, R s s' -> R (step s a) (step s' a)) ->
  (forall s a b, R (step (step s a) b) (step (step s b) a)) ->
  forall l l', Permutation l l' -> forall s s', R s s' -> R (fold_left step l s) (fold_left step l' s').
Proof. exact fold_perm_equiv. Qed.
Print Assumptions C04_fold_of_commuting_steps_is_order_independent.

(* the oracles the correspondence run evaluates the model with are permutation oracles *)
Theorem C04_correspondence_oracles_are_permutations :
  perm_oracle ord_id /\ perm_oracle ord_rev /\ forall m, perm_oracle (ord_mask m).
Proof. exact (conj ord_id_perm (conj ord_rev_perm ord_mask_perm)). Qed.
Print Assumptions C04_correspondence_oracles_are_permutations.

(* derived views are stateless: a target over a request variable (ARGS_COMBINED_SIZE, &ARGS,
   ARGS_NAMES, ARGS:/rx/, REQUEST_HEADERS ...) selects the same entries in EVERY transaction state,
   so nothing that happened earlier (in this or an earlier transaction) can enter its value *)
Theorem C04_request_views_are_stateless : forall t rq post s s',
  request_var (t_var t) = true -> select t rq post s = select t rq post s'.
Proof. exact select_stateless. Qed.
Print Assumptions C04_request_views_are_stateless.

(* ARGS_COMBINED_SIZE is the sum of name and value lengths of the arguments visible in the phase,
   whatever the state, and does not depend on their order *)
Theorem C04_combined_size_spec : forall rq post s,
  select (mkT VArgsCombinedSize None [] false None) rq post s
  = [mkE VArgsCombinedSize [] (itoa (N.of_nat (kv_size (q_get rq ++ if post then q_post rq else []))))].
Proof. exact combined_size_spec. Qed.
Print Assumptions C04_combined_size_spec.

Theorem C04_combined_size_order_independent : forall l l', Permutation l l' -> kv_size l = kv_size l'.
Proof. exact kv_size_perm. Qed.
Print Assumptions C04_combined_size_order_independent.

(* ... and it is not determined by the names (let alone their number): a memo of the size that is
   revalidated by the key count returns another request's size (seed C04-g) *)
Theorem C04_size_memo_by_key_count_refuted :
  exists l l', List.length l = List.length l' /\ map fst l = map fst l' /\ kv_size l <> kv_size l'.
Proof. exact size_not_function_of_name_count. Qed.
Print Assumptions C04_size_memo_by_key_count_refuted.
