(* Config.v — executable model for C17 (rule exclusions and updates equal the rewritten rule set).

   Source level  : what a user writes (rules with target items, an operator, an action list; markers).
   Compiled level: what the parser leaves in RuleGroup.rules (internal/corazawaf/rule.go Rule).
   cf_compile    : seclang.ParseRule + RuleGroup.Add                      (rule_parser.go, rulegroup.go:Add)
   cf_apply      : the configuration-time directives as coded              (seclang/directives.go)
   cf_rewrite    : the explicit rewriting of the SOURCE a user would write by hand
   cf_outcome    : RuleGroup.Eval for phases 1 and 2 + Rule.doEvaluate + Transaction.GetField
   cf_ctl_step   : actions/ctl.go Evaluate for the ruleRemove* family.

   Representation choices (validated by the correspondence run):
   - r.actions is ONE list in the code; it is only ever read through type filters (non-disruptive at
     match time, disruptive/flow after the chain, ClearDisruptiveActions). The model keeps the three
     per-type sublists in order (cl_nd, cl_disr, cl_flow); Interrupt writes tx.interruption only and
     skipAfter writes tx.SkipAfter only, so their interleaving is immaterial (cf_exec_commute in ConfigProofs).
   - log/nolog/auditlog are ANop (no effect on the observables used here).
   - a rule's non-disruptive actions run once per matched value in the code; the ctl family is
     idempotent, the model runs them once per matching link.
   - regular expressions are an oracle: a Section variable (pattern -> subject -> bool). *)
From Verif Require Import Base.
Open Scope N_scope.

(* ---------- variables, keys, target items ---------- *)
Inductive var := VArgs | VArgsNames | VHeaders | VMethod.

Definition var_eqb (a b : var) : bool :=
  match a, b with
  | VArgs, VArgs | VArgsNames, VArgsNames | VHeaders, VHeaders | VMethod, VMethod => true
  | _, _ => false
  end.

(* rule.go caseSensitiveVariable: keys of these are NOT lower-cased when a target is compiled *)
Definition var_cs (v : var) : bool :=
  match v with VArgs | VArgsNames => true | _ => false end.

Inductive key := KNone | KStr (k : bytes) | KRx (p : bytes).

Inductive titem :=
  | TPos (cnt : bool) (v : var) (k : key)
  | TNeg (v : var) (k : key).

Record exc := mkExc { ex_key : bytes; ex_rx : option bytes }.

Record cvar := mkCvar {
  cv_count : bool; cv_var : var; cv_key : bytes; cv_rx : option bytes; cv_exc : list exc }.

Definition key_text (k : key) : bytes :=
  match k with KNone => [] | KStr s => s | KRx p => (47 :: p) ++ [47] end.

Definition low_unless (cs : bool) (s : bytes) : bytes := if cs then s else lower_ascii s.

(* rule.go lowerRegexSource: the literal text of a regex key is lower-cased, escape sequences are copied
   as written (\X, \pL, \p{Name}, \P{Name}, \x{10FFFF}); a trailing backslash is literal text.
   mode 0 = text, 1 = just after a backslash, 2 = inside {...} up to the closing brace, 3 = one-letter class *)
Fixpoint lower_rx_go (mode : nat) (s : bytes) : bytes :=
  match s with
  | [] => []
  | c :: r =>
    match mode with
    | O => if (c =? 92) && negb (match r with [] => true | _ => false end)
           then c :: lower_rx_go (S O) r else ascii_lower c :: lower_rx_go O r
    | S O =>
      let isp := (c =? 112) || (c =? 80) in
      let brace := match r with n :: _ => n =? 123 | [] => false end in
      if (isp || (c =? 120)) && brace then c :: lower_rx_go (S (S O)) r
      else if isp && negb (match r with [] => true | _ => false end) then c :: lower_rx_go (S (S (S O))) r
      else c :: lower_rx_go O r
    | S (S O) => c :: lower_rx_go (if c =? 125 then O else S (S O)) r
    | _ => c :: lower_rx_go O r
    end
  end.
Definition lower_rx (p : bytes) : bytes := lower_rx_go O p.

Definition key_rx (cs : bool) (k : key) : option bytes :=
  match k with KRx p => Some (if cs then p else lower_rx p) | _ => None end.

(* Rule.AddVariable / newRuleVariableParams *)
Definition add_var (cnt : bool) (v : var) (k : key) (vars : list cvar) : list cvar :=
  vars ++ [mkCvar cnt v (low_unless (var_cs v) (key_text k)) (key_rx (var_cs v) k) []].

Definition cv_add_exc (e : exc) (cv : cvar) : cvar :=
  mkCvar (cv_count cv) (cv_var cv) (cv_key cv) (cv_rx cv) (cv_exc cv ++ [e]).

(* Rule.AddVariableNegation: only the variables already present get the exception; key text kept raw *)
Definition add_neg (v : var) (k : key) (vars : list cvar) : list cvar :=
  map (fun cv => if var_eqb (cv_var cv) v
                 then cv_add_exc (mkExc (key_text k) (key_rx (var_cs v) k)) cv else cv) vars.

Definition add_titem (vars : list cvar) (it : titem) : list cvar :=
  match it with
  | TPos c v k => add_var c v k vars
  | TNeg v k => add_neg v k vars
  end.

(* RuleParser.ParseVariables at the level of scanned items *)
Definition parse_targets (items : list titem) (vars : list cvar) : list cvar :=
  fold_left add_titem items vars.

(* ---------- operators ---------- *)
Inductive opk := OContains (l : bytes) | OStreq (l : bytes) | OAlways.
Record op := mkOp { op_neg : bool; op_k : opk }.

Definition op_eval (o : op) (v : bytes) : bool :=
  xorb (op_neg o)
       (match op_k o with
        | OContains l => is_substring l v
        | OStreq l => bytes_eqb v l
        | OAlways => true
        end).

(* ---------- actions ---------- *)
Inductive disr := DPass | DDeny | DDrop | DBlock.
Inductive idspec := IdOne (n : N) | IdRange (a b : N).

Inductive ctl :=
  | CRmId (s : idspec)
  | CRmTag (t : bytes)
  | CRmMsg (m : bytes)
  | CRmTargetId (s : idspec) (v : var) (k : key)
  | CRmTargetTag (t : bytes) (v : var) (k : key)
  | CRmTargetMsg (m : bytes) (v : var) (k : key).

Inductive action :=
  | ATag (t : bytes) | AMsg (m : bytes) | AStatus (n : N)
  | ADisr (d : disr) | ACtl (c : ctl) | ASkipAfter (m : bytes) | ANop | ASkip (n : N).

(* flow actions: skipAfter:marker writes tx.SkipAfter, skip:N writes tx.Skip *)
Inductive flow := FAfter (m : bytes) | FSkip (n : N).

Definition is_disr (a : action) : bool := match a with ADisr _ => true | _ => false end.
Definition is_block (a : action) : bool := match a with ADisr DBlock => true | _ => false end.
Definition is_nonblock_disr (a : action) : bool := is_disr a && negb (is_block a).

(* ---------- compiled rules ---------- *)
Record clink := mkClink {
  cl_vars : list cvar; cl_op : option op;
  cl_nd : list ctl;          (* non-disruptive actions with an effect here: ctl, in order *)
  cl_disr : list disr;       (* disruptive actions, in order *)
  cl_flow : list flow;       (* skipAfter / skip actions, in order *)
  cl_tags : list bytes; cl_msg : option bytes; cl_status : N }.

Record crule := mkCrule {
  cr_id : N; cr_phase : N; cr_mark : bytes; cr_head : clink; cr_chain : list clink }.

Definition set_vars (l : clink) (vs : list cvar) : clink :=
  mkClink vs (cl_op l) (cl_nd l) (cl_disr l) (cl_flow l) (cl_tags l) (cl_msg l) (cl_status l).

Definition set_head (r : crule) (h : clink) : crule :=
  mkCrule (cr_id r) (cr_phase r) (cr_mark r) h (cr_chain r).

(* metadata actions are initialised first (applyParsedActions, first loop) *)
Definition meta_step (l : clink) (a : action) : clink :=
  match a with
  | ATag t => mkClink (cl_vars l) (cl_op l) (cl_nd l) (cl_disr l) (cl_flow l) (cl_tags l ++ [t]) (cl_msg l) (cl_status l)
  | AMsg m => mkClink (cl_vars l) (cl_op l) (cl_nd l) (cl_disr l) (cl_flow l) (cl_tags l) (Some m) (cl_status l)
  | _ => l
  end.

(* the other actions: Init + AddAction, in order (second loop) *)
Definition act_step (l : clink) (a : action) : clink :=
  match a with
  | AStatus n => mkClink (cl_vars l) (cl_op l) (cl_nd l) (cl_disr l) (cl_flow l) (cl_tags l) (cl_msg l) n
  | ADisr d => mkClink (cl_vars l) (cl_op l) (cl_nd l) (cl_disr l ++ [d]) (cl_flow l) (cl_tags l) (cl_msg l) (cl_status l)
  | ACtl c => mkClink (cl_vars l) (cl_op l) (cl_nd l ++ [c]) (cl_disr l) (cl_flow l) (cl_tags l) (cl_msg l) (cl_status l)
  | ASkipAfter m => mkClink (cl_vars l) (cl_op l) (cl_nd l) (cl_disr l) (cl_flow l ++ [FAfter m]) (cl_tags l) (cl_msg l) (cl_status l)
  | ASkip n => mkClink (cl_vars l) (cl_op l) (cl_nd l) (cl_disr l) (cl_flow l ++ [FSkip n]) (cl_tags l) (cl_msg l) (cl_status l)
  | _ => l
  end.

(* rule_parser.go mergeActions: "block" is dropped, the default disruptive action is appended when
   the rule names no other disruptive action *)
Definition merge_defaults (acts : list action) (d : disr) : list action :=
  let o := filter (fun a => negb (is_block a)) acts in
  if existsb is_nonblock_disr acts then o else o ++ [ADisr d].

(* parseActions / appendRuleAction: a parsed action list holds at most ONE disruptive action - a later
   one replaces the earlier one (in the earlier one's position; positions across action types are
   immaterial in the per-type representation, the survivor is put last here) *)
Fixpoint last_disr (acts : list action) (cur : option disr) : option disr :=
  match acts with
  | [] => cur
  | ADisr d :: r => last_disr r (Some d)
  | _ :: r => last_disr r cur
  end.

Definition norm_acts (acts : list action) : list action :=
  match last_disr acts None with
  | None => acts
  | Some d => filter (fun a => negb (is_disr a)) acts ++ [ADisr d]
  end.

(* parseActions followed by RuleParser.applyParsedActions *)
Definition apply_actions (dflt : option disr) (acts : list action) (l : clink) : clink :=
  let pa := norm_acts acts in
  let l1 := fold_left meta_step pa l in
  let acts' := match dflt with None => pa | Some d => merge_defaults pa d end in
  fold_left act_step acts' l1.

(* Rule.ClearDisruptiveActions *)
Definition clear_disr (l : clink) : clink :=
  mkClink (cl_vars l) (cl_op l) (cl_nd l) [] (cl_flow l) (cl_tags l) (cl_msg l) (cl_status l).

(* updateActionBySingleID / the range loop body: defaultActions is an empty map there *)
Definition update_action (acts : list action) (l : clink) : clink :=
  apply_actions None acts (if existsb is_disr acts then clear_disr l else l).

Definition update_target (items : list titem) (l : clink) : clink :=
  set_vars l (parse_targets items (cl_vars l)).

(* ---------- source level ---------- *)
Record link_src := mkLinkSrc { ls_targets : list titem; ls_op : op; ls_actions : list action }.

Inductive item_src :=
  | SRule (id phase : N) (head : link_src) (chain : list link_src)
  | SMarker (name : bytes).

Definition empty_link (o : option op) : clink := mkClink [] o [] [] [] [] None 0.

Definition compile_link (dflt : option disr) (l : link_src) : clink :=
  apply_actions dflt (ls_actions l)
    (set_vars (empty_link (Some (ls_op l))) (parse_targets (ls_targets l) [])).

(* directiveSecMarker *)
Definition marker_rule (name : bytes) : crule := mkCrule 0 0 name (empty_link None) [].

(* chain members are parsed with Phase_ = 2 (NewRule) and so take phase 2's defaults; their
   disruptive actions are never evaluated *)
Definition compile_item (dflt : N -> option disr) (it : item_src) : crule :=
  match it with
  | SRule id ph h ch => mkCrule id ph [] (compile_link (dflt ph) h) (map (compile_link (dflt 2)) ch)
  | SMarker m => marker_rule m
  end.

Definition has_id (id : N) (rs : list crule) : bool := existsb (fun r => cr_id r =? id) rs.

(* RuleGroup.Add without the mandatory-id build tag: a non-zero id must be new *)
Fixpoint compile_from (dflt : N -> option disr) (items : list item_src) (acc : list crule) : option (list crule) :=
  match items with
  | [] => Some acc
  | it :: rest =>
    let r := compile_item dflt it in
    if negb (cr_id r =? 0) && has_id (cr_id r) acc then None
    else compile_from dflt rest (acc ++ [r])
  end.

Definition cf_compile (dflt : N -> option disr) (items : list item_src) : option (list crule) :=
  compile_from dflt items [].

(* ---------- configuration-time directives, as coded ---------- *)
Inductive directive :=
  | DRemoveById (l : list idspec)
  | DRemoveByTag (t : bytes)
  | DRemoveByMsg (m : bytes)
  | DUpdTargetById (l : list idspec) (items : list titem)
  | DUpdTargetByTag (t : bytes) (items : list titem)
  | DUpdActionById (l : list idspec) (acts : list action).

Definition in_rng (a b id : N) : bool := (a <=? id) && (id <=? b).

Fixpoint mem_bytes (x : bytes) (l : list bytes) : bool :=
  match l with [] => false | y :: r => bytes_eqb x y || mem_bytes x r end.

Definition opt_bytes_is (o : option bytes) (m : bytes) : bool :=
  match o with Some x => bytes_eqb x m | None => false end.

(* RuleGroup.DeleteByID: the FIRST rule with that id *)
Fixpoint del_first (id : N) (rs : list crule) : list crule :=
  match rs with
  | [] => []
  | r :: t => if cr_id r =? id then t else r :: del_first id t
  end.

Definition del_range (a b : N) (rs : list crule) : list crule :=
  filter (fun r => negb (in_rng a b (cr_id r))) rs.

Definition del_tag (t : bytes) (rs : list crule) : list crule :=
  filter (fun r => negb (mem_bytes t (cl_tags (cr_head r)))) rs.

Definition del_msg (m : bytes) (rs : list crule) : list crule :=
  filter (fun r => negb (opt_bytes_is (cl_msg (cr_head r)) m)) rs.

(* directiveSecRuleRemoveByID *)
Fixpoint rm_specs (specs : list idspec) (rs : list crule) : option (list crule) :=
  match specs with
  | [] => Some rs
  | IdOne n :: t => rm_specs t (del_first n rs)
  | IdRange a b :: t => if b <? a then None else rm_specs t (del_range a b rs)
  end.

(* FindByID + in-place update of the first rule with that id *)
Fixpoint upd_first (id : N) (f : crule -> crule) (rs : list crule) : option (list crule) :=
  match rs with
  | [] => None
  | r :: t => if cr_id r =? id then Some (f r :: t)
              else match upd_first id f t with Some t' => Some (r :: t') | None => None end
  end.

Definition upd_range (a b : N) (f : crule -> crule) (rs : list crule) : list crule :=
  map (fun r => if in_rng a b (cr_id r) then f r else r) rs.

(* directiveSecRuleUpdateTargetByID / ...ActionByID: the loop over the id fields.
   [single] = the directive names exactly one id field (length == 2 in the code): only then an
   unknown single id is an error; a-a with an unknown id is always an error; a>b is an error *)
Fixpoint upd_specs (single : bool) (f : crule -> crule) (specs : list idspec) (rs : list crule)
  : option (list crule) :=
  match specs with
  | [] => Some rs
  | IdOne n :: t =>
    match upd_first n f rs with
    | Some rs' => upd_specs single f t rs'
    | None => if single then None else upd_specs single f t rs
    end
  | IdRange a b :: t =>
    if a =? b then
      match upd_first a f rs with
      | Some rs' => upd_specs single f t rs'
      | None => None
      end
    else if b <? a then None
    else upd_specs single f t (upd_range a b f rs)
  end.

Definition is_single (l : list idspec) : bool := match l with [_] => true | _ => false end.

Definition upd_tag (t : bytes) (f : crule -> crule) (rs : list crule) : list crule :=
  map (fun r => if mem_bytes t (cl_tags (cr_head r)) then f r else r) rs.

Definition on_head (g : clink -> clink) (r : crule) : crule := set_head r (g (cr_head r)).

Definition cf_apply (d : directive) (rs : list crule) : option (list crule) :=
  match d with
  | DRemoveById l => match l with [] => None | _ => rm_specs l rs end
  | DRemoveByTag t => Some (del_tag t rs)
  | DRemoveByMsg m => Some (del_msg m rs)
  | DUpdTargetById l items =>
    match l with [] => None | _ => upd_specs (is_single l) (on_head (update_target items)) l rs end
  | DUpdTargetByTag t items => Some (upd_tag t (on_head (update_target items)) rs)
  | DUpdActionById l acts =>
    match l with [] => None | _ => upd_specs (is_single l) (on_head (update_action acts)) l rs end
  end.

(* ---------- the explicit rewriting of the source ---------- *)
Definition spec_has (sp : idspec) (id : N) : bool :=
  match sp with IdOne n => id =? n | IdRange a b => in_rng a b id end.

Definition specs_have (l : list idspec) (id : N) : bool := existsb (fun sp => spec_has sp id) l.

Fixpoint src_tags (acts : list action) : list bytes :=
  match acts with
  | [] => []
  | ATag t :: r => t :: src_tags r
  | _ :: r => src_tags r
  end.

Fixpoint src_msg (acts : list action) (cur : option bytes) : option bytes :=
  match acts with
  | [] => cur
  | AMsg m :: r => src_msg r (Some m)
  | _ :: r => src_msg r cur
  end.

Definition src_keep (p : N -> link_src -> bool) (it : item_src) : bool :=
  match it with SRule id _ h _ => negb (p id h) | SMarker _ => true end.

Definition src_upd (p : N -> link_src -> bool) (g : link_src -> link_src) (it : item_src) : item_src :=
  match it with
  | SRule id ph h ch => if p id h then SRule id ph (g h) ch else it
  | SMarker _ => it
  end.

Definition src_add_targets (items : list titem) (h : link_src) : link_src :=
  mkLinkSrc (ls_targets h ++ items) (ls_op h) (ls_actions h).

(* the rule written with the new actions: an explicit disruptive action replaces the old one(s),
   everything else is written after the existing actions *)
Definition src_add_actions (acts : list action) (h : link_src) : link_src :=
  mkLinkSrc (ls_targets h) (ls_op h)
    ((if existsb is_disr acts then filter (fun a => negb (is_disr a)) (ls_actions h) else ls_actions h) ++ acts).

Definition cf_rewrite (d : directive) (src : list item_src) : list item_src :=
  match d with
  | DRemoveById l => filter (src_keep (fun id _ => specs_have l id)) src
  | DRemoveByTag t => filter (src_keep (fun _ h => mem_bytes t (src_tags (ls_actions h)))) src
  | DRemoveByMsg m => filter (src_keep (fun _ h => opt_bytes_is (src_msg (ls_actions h) None) m)) src
  | DUpdTargetById l items =>
    fold_left (fun s sp => map (src_upd (fun id _ => spec_has sp id) (src_add_targets items)) s) l src
  | DUpdTargetByTag t items =>
    map (src_upd (fun _ h => mem_bytes t (src_tags (ls_actions h))) (src_add_targets items)) src
  | DUpdActionById l acts =>
    fold_left (fun s sp => map (src_upd (fun id _ => spec_has sp id) (src_add_actions acts)) s) l src
  end.

(* guards used by the theorems *)
Definition spec_zero_free (sp : idspec) : bool := negb (spec_has sp 0).
Definition zero_free (d : directive) : bool :=
  match d with
  | DRemoveById l | DUpdTargetById l _ | DUpdActionById l _ => forallb spec_zero_free l
  | _ => true
  end.

(* ---------- requests and evaluation ---------- *)
Record request := mkReq { rq_method : bytes; rq_args : list (bytes * bytes); rq_headers : list (bytes * bytes) }.

Definition md := (var * bytes * bytes)%type.                 (* variable, key, value *)
Definition intr := (N * N * disr)%type.                      (* status, rule id, action *)

Record texc := mkTexc { te_id : N; te_var : var; te_exc : exc }.

Record txst := mkSt {
  st_rm : list N; st_rng : list (N * N); st_texc : list texc;   (* per-transaction exclusions *)
  st_skip : bytes; st_intr : option intr; st_matched : list (N * list md);
  st_skipn : N }.                                               (* tx.Skip *)

Definition st_init : txst := mkSt [] [] [] [] None [] 0.

Definition bytes_nil (s : bytes) : bool := match s with [] => true | _ => false end.

Section Engine.
Variable rx_match : bytes -> bytes -> bool.   (* pattern -> subject -> bool : Go's regexp, an oracle *)

(* (map key, reported key, value) of a collection; maps are keyed by the lower-cased name *)
Definition entries (v : var) (rq : request) : list (bytes * bytes * bytes) :=
  match v with
  | VArgs => map (fun kv => (lower_ascii (fst kv), fst kv, snd kv)) (rq_args rq)
  | VArgsNames => map (fun kv => (lower_ascii (fst kv), fst kv, fst kv)) (rq_args rq)
  | VHeaders => map (fun kv => (lower_ascii (fst kv), fst kv, snd kv)) (rq_headers rq)
  | VMethod => [([], [], rq_method rq)]
  end.

Definition var_single (v : var) : bool := match v with VMethod => true | _ => false end.

Definition ent_key (e : bytes * bytes * bytes) : bytes := snd (fst e).
Definition ent_mkey (e : bytes * bytes * bytes) : bytes := fst (fst e).
Definition ent_val (e : bytes * bytes * bytes) : bytes := snd e.

(* Transaction.GetField: the selection before exceptions *)
Definition select_base (cv : cvar) (rq : request) : list (bytes * bytes * bytes) :=
  let es := entries (cv_var cv) rq in
  if var_single (cv_var cv) then es
  else match cv_rx cv with
       | Some p => filter (fun e => rx_match p (ent_mkey e)) es
       | None => if bytes_nil (cv_key cv) then es
                 else filter (fun e => bytes_eqb (ent_mkey e) (lower_ascii (cv_key cv))) es
       end.

(* one exception against the lower-cased key of a selected entry *)
Definition exc_hit (e : exc) (lkey : bytes) : bool :=
  (match ex_rx e with Some p => rx_match p lkey | None => false end)
  || bytes_eqb (lower_ascii (ex_key e)) lkey
  || (bytes_nil (ex_key e) && match ex_rx e with None => true | Some _ => false end).

Definition excluded (excs : list exc) (lkey : bytes) : bool := existsb (fun e => exc_hit e lkey) excs.

(* doEvaluate: the transaction's exclusions for this rule id and this variable are appended *)
Definition extras (ecol : list texc) (v : var) : list exc :=
  map te_exc (filter (fun t => var_eqb (te_var t) v) ecol).

Definition select (cv : cvar) (ecol : list texc) (rq : request) : list md :=
  let excs := cv_exc cv ++ extras ecol (cv_var cv) in
  let es := filter (fun e => negb (excluded excs (lower_ascii (ent_key e)))) (select_base cv rq) in
  if cv_count cv then [(cv_var cv, cv_key cv, itoa (N.of_nat (length es)))]
  else map (fun e => (cv_var cv, ent_key e, ent_val e)) es.

Definition md_forced : md := (VMethod, [], []).

Definition link_matches (l : clink) (ecol : list texc) (rq : request) : list md :=
  match cl_op l with
  | None => [md_forced]                                   (* SecMarker / SecAction: forced match *)
  | Some o => flat_map (fun cv => filter (fun m => op_eval o (snd m)) (select cv ecol rq)) (cl_vars l)
  end.

(* ---- the transaction's exclusion state ---- *)
Definition is_removed (st : txst) (id : N) : bool :=
  existsb (N.eqb id) (st_rm st) || existsb (fun r => in_rng (fst r) (snd r) id) (st_rng st).

Definition texc_for (st : txst) (id : N) : list texc := filter (fun t => te_id t =? id) (st_texc st).

Definition st_add_rm (ids : list N) (st : txst) : txst :=
  mkSt (st_rm st ++ ids) (st_rng st) (st_texc st) (st_skip st) (st_intr st) (st_matched st) (st_skipn st).
Definition st_add_rng (a b : N) (st : txst) : txst :=
  mkSt (st_rm st) (st_rng st ++ [(a, b)]) (st_texc st) (st_skip st) (st_intr st) (st_matched st) (st_skipn st).
Definition st_add_texc (l : list texc) (st : txst) : txst :=
  mkSt (st_rm st) (st_rng st) (st_texc st ++ l) (st_skip st) (st_intr st) (st_matched st) (st_skipn st).

(* parseCtl: a string key is lower-cased; a regex key is compiled as written, the string key is then "" *)
Definition ctl_exc (k : key) : exc :=
  match k with
  | KNone => mkExc [] None
  | KStr s => mkExc (lower_ascii s) None
  | KRx p => mkExc [] (Some p)
  end.

Definition ids_where (p : crule -> bool) (rules : list crule) : list N := map cr_id (filter p rules).

Definition spec_valid (s : idspec) : bool := match s with IdOne _ => true | IdRange a b => a <=? b end.

(* actions/ctl.go Evaluate; [rules] is tx.WAF.Rules.GetRules() *)
Definition cf_ctl_step (rules : list crule) (c : ctl) (st : txst) : txst :=
  match c with
  | CRmId (IdOne n) => st_add_rm [n] st
  | CRmId (IdRange a b) => if a <=? b then st_add_rng a b st else st
  | CRmTag t => st_add_rm (ids_where (fun r => mem_bytes t (cl_tags (cr_head r))) rules) st
  | CRmMsg m => st_add_rm (ids_where (fun r => opt_bytes_is (cl_msg (cr_head r)) m) rules) st
  | CRmTargetId s v k =>
    if spec_valid s
    then st_add_texc (map (fun id => mkTexc id v (ctl_exc k)) (ids_where (fun r => spec_has s (cr_id r)) rules)) st
    else st
  | CRmTargetTag t v k =>
    st_add_texc (map (fun id => mkTexc id v (ctl_exc k))
                     (ids_where (fun r => mem_bytes t (cl_tags (cr_head r))) rules)) st
  | CRmTargetMsg m v k =>
    st_add_texc (map (fun id => mkTexc id v (ctl_exc k))
                     (ids_where (fun r => opt_bytes_is (cl_msg (cr_head r)) m) rules)) st
  end.

Definition run_nd (rules : list crule) (cs : list ctl) (st : txst) : txst :=
  fold_left (fun s c => cf_ctl_step rules c s) cs st.

(* Transaction.Interrupt keeps the first interruption (engine On) *)
Definition st_interrupt (i : intr) (st : txst) : txst :=
  match st_intr st with
  | Some _ => st
  | None => mkSt (st_rm st) (st_rng st) (st_texc st) (st_skip st) (Some i) (st_matched st) (st_skipn st)
  end.

Definition st_set_skip (m : bytes) (st : txst) : txst :=
  mkSt (st_rm st) (st_rng st) (st_texc st) m (st_intr st) (st_matched st) (st_skipn st).

Definition st_set_skipn (n : N) (st : txst) : txst :=
  mkSt (st_rm st) (st_rng st) (st_texc st) (st_skip st) (st_intr st) (st_matched st) n.

Definition exec_flow (f : flow) (st : txst) : txst :=
  match f with FAfter m => st_set_skip m st | FSkip n => st_set_skipn n st end.

(* end of a phase: tx.Skip = 0; tx.SkipAfter = "" *)
Definition st_end_phase (st : txst) : txst := st_set_skipn 0 (st_set_skip [] st).

Definition st_add_match (id : N) (m : list md) (st : txst) : txst :=
  mkSt (st_rm st) (st_rng st) (st_texc st) (st_skip st) (st_intr st) (st_matched st ++ [(id, m)]) (st_skipn st).

(* deny: status defaults to 403; drop: the status as it is; pass and (un-merged) block: nothing *)
Definition exec_disr (id status : N) (d : disr) (st : txst) : txst :=
  match d with
  | DDeny => st_interrupt ((if status =? 0 then 403 else status), id, DDeny) st
  | DDrop => st_interrupt (status, id, DDrop) st
  | DPass | DBlock => st
  end.

(* chain members: every link must match; each matching link runs its non-disruptive actions and
   reads the exclusions stored under the PARENT id at that moment *)
Fixpoint eval_chain (rules : list crule) (pid : N) (links : list clink) (rq : request)
         (st : txst) (acc : list md) : txst * option (list md) :=
  match links with
  | [] => (st, Some acc)
  | l :: rest =>
    match link_matches l (texc_for st pid) rq with
    | [] => (st, None)
    | m => eval_chain rules pid rest rq (run_nd rules (cl_nd l) st) (acc ++ m)
    end
  end.

(* Rule.doEvaluate for a rule of the list (chain starter or plain rule or marker) *)
Definition eval_rule (rules : list crule) (r : crule) (rq : request) (st : txst) : txst :=
  let h := cr_head r in
  match link_matches h (texc_for st (cr_id r)) rq with
  | [] => st
  | m0 =>
    match eval_chain rules (cr_id r) (cr_chain r) rq (run_nd rules (cl_nd h) st) m0 with
    | (st1, None) => st1
    | (st1, Some ms) =>
      let st2 := fold_left (fun s d => exec_disr (cr_id r) (cl_status h) d s) (cl_disr h) st1 in
      let st3 := fold_left (fun s f => exec_flow f s) (cl_flow h) st2 in
      if cr_id r =? 0 then st3 else st_add_match (cr_id r) ms st3
    end
  end.

(* one iteration of RuleGroup.Eval's loop body (after the interruption check), in the coded order:
   phase filter, per-transaction removal (a removed rule neither resolves a pending marker nor counts
   for skip:N), pending SkipAfter, pending Skip counter (every remaining rule or marker of the phase
   counts), evaluation *)
Definition eval_step (rules : list crule) (ph : N) (rq : request) (st : txst) (r : crule) : txst :=
  if negb (cr_phase r =? 0) && negb (cr_phase r =? ph) then st
  else if is_removed st (cr_id r) then st
  else if negb (bytes_nil (st_skip st)) then
         (if bytes_eqb (cr_mark r) (st_skip st) then st_set_skip [] st else st)
  else if 0 <? st_skipn st then st_set_skipn (st_skipn st - 1) st
  else eval_rule rules r rq st.

Fixpoint eval_list (rules : list crule) (rs : list crule) (ph : N) (rq : request) (st : txst) : txst :=
  match rs with
  | [] => st
  | r :: rest =>
    match st_intr st with
    | Some _ => st
    | None => eval_list rules rest ph rq (eval_step rules ph rq st r)
    end
  end.

Definition eval_phase (rules : list crule) (ph : N) (rq : request) (st : txst) : txst :=
  st_end_phase (eval_list rules rules ph rq st).

(* ProcessRequestHeaders; ProcessRequestBody (not evaluated once interrupted) *)
Definition cf_run (rules : list crule) (rq : request) : txst :=
  let s1 := eval_phase rules 1 rq st_init in
  match st_intr s1 with
  | Some _ => s1
  | None => eval_phase rules 2 rq s1
  end.

(* the rest of a transaction from a point inside phase [ph]: the remaining rules [rs] of that phase,
   then the later phases [phs] over the whole rule list (none of them once interrupted) *)
Definition cf_rest (rules rs : list crule) (ph : N) (phs : list N) (rq : request) (st : txst) : txst :=
  fold_left (fun s p => match st_intr s with Some _ => s | None => eval_phase rules p rq s end)
            phs (st_end_phase (eval_list rules rs ph rq st)).

Definition cf_outcome (rules : list crule) (rq : request) : list (N * list md) * option intr :=
  let s := cf_run rules rq in (st_matched s, st_intr s).

(* a WAF serving several transactions one after the other: the rule list is an input of every
   transaction and is never an output *)
Definition cf_serve (rules : list crule) (rqs : list request) : list (list (N * list md) * option intr) :=
  map (cf_outcome rules) rqs.

End Engine.

(* ---------- a small concrete regex class for the correspondence run ----------
   patterns used by the generator: optional leading ^, optional trailing $, literal body *)
Definition simple_rx (p s : bytes) : bool :=
  let anch_l := match p with c :: _ => c =? 94 | [] => false end in
  let p1 := if anch_l then tl p else p in
  let rp := rev p1 in
  let anch_r := match rp with c :: _ => c =? 36 | [] => false end in
  let body := if anch_r then rev (tl rp) else p1 in
  match anch_l, anch_r with
  | true, true => bytes_eqb body s
  | true, false => is_prefix body s
  | false, true => is_suffix body s
  | false, false => is_substring body s
  end.
