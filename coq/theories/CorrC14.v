(* CorrC14.v — correspondence checker for C14: evaluates the Transform.v models on the
   inputs the Go harness ran and compares with the observed outputs.  lowercase / uppercase go through
   the regenerated Unicode case tables (CaseMap.v); on ASCII values that is Transform.t_lowercase /
   t_uppercase (CaseMapProofs.apply_tu_ascii). *)
From Verif Require Import Base Transform CaseMap.
Open Scope N_scope.

Inductive case :=
  | CS (t : tid) (input out : bytes) (changed err : bool)
  | CL (ts : list tid) (input out : bytes) (nerr : nat) (multi : list bytes)
  | CU (input out : bytes) (changed : bool).   (* urlDecodeUni, under the regenerated best-fit table *)

Fixpoint list_bytes_eqb (a b : list bytes) : bool :=
  match a, b with
  | [], [] => true
  | x :: a', y :: b' => bytes_eqb x y && list_bytes_eqb a' b'
  | _, _ => false
  end.

Definition ok (tbl : N -> option N) (lo up : list case_range) (c : case) : bool :=
  match c with
  | CU i o ch =>
    let r := t_url_decode_uni tbl i in bytes_eqb (t_out r) o && Bool.eqb (t_changed r) ch && negb (t_err r)
  | CS t i o ch e =>
    let r := apply_tu lo up t i in
    bytes_eqb (t_out r) o && Bool.eqb (t_changed r) ch && Bool.eqb (t_err r) e
  | CL ts i o n m =>
    let '(o', n') := exec_tfs_g (apply_tu lo up) ts i in
    bytes_eqb o' o && Nat.eqb n' n && list_bytes_eqb (exec_tfs_multi_g (apply_tu lo up) ts i) m
  end.

Definition mismatches (tbl : N -> option N) (lo up : list case_range) (l : list case) : list nat :=
  mismatches_of (ok tbl lo up) l.
