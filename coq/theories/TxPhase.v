(* TxPhase.v — executable model of the phase machinery of a Coraza transaction (property C02).

   Modelled code (read line by line, guards in source order):
     internal/corazawaf/transaction.go : Interrupt, Allow, AddRequestHeader / AddResponseHeader /
        ProcessConnection / ProcessURI (only as "data has been fed" flags), ProcessRequestHeaders,
        setAndReturnBodyLimitInterruption, WriteRequestBody, ReadRequestBodyFrom, ProcessRequestBody,
        ProcessResponseHeaders, WriteResponseBody, ReadResponseBodyFrom, ProcessResponseBody,
        ProcessLogging (rule part), IsInterrupted, Interruption, LastPhase
     internal/corazawaf/rulegroup.go   : Eval (lastPhase, interruption break, phase filter, the three
        allow scopes, end-of-phase reset of allow:phase)
     internal/corazawaf/rule.go        : doEvaluate as far as the order "non-disruptive actions of the
        starter (ctl) -> chain -> disruptive action -> MatchRule" is concerned
     internal/actions/{deny,drop,redirect,block,pass,allow,status}.go and ctl.go (ctl:ruleEngine)
     internal/seclang/rule_parser.go   : appendRuleAction (last disruptive action of a list wins),
        mergeActions (block / no disruptive action inherits SecDefaultAction; status inheritance),
        the hard-wired phase-2 default "phase:2,log,auditlog,pass"
     waf.go                            : DetectionOnly => both body-limit actions become ProcessPartial

   Abstracted: operators/variables (a rule's condition is one of six observable facts about which
   data-feeding calls happened), body processors (every non-error path of Process*Body ends in
   Eval), ruleRemove* (C08), ctl changes of the body limits (C07/C10), audit log.
   The field [st_trace] is ghost state: the history of evaluations the theorems talk about. *)
From Verif Require Import Base.
Open Scope N_scope.

(* ---------------------------------------------------------------------------------- *)
(* configuration as written (seclang level)                                            *)
(* ---------------------------------------------------------------------------------- *)

Inductive tp_mode := MOn | MDet | MOff.
Inductive tp_lact := LReject | LPartial.
Inductive tp_scope := SPhase | SRequest | SAll.

(* what a rule looks at: which data-feeding call has happened so far *)
Inductive tp_cond := CTrue | CFalse | CConn | CUri | CReqHdr | CRespHdr.

(* disruptive-type actions as they can be written in an action list *)
Inductive tp_dact :=
  | DDeny | DDrop | DRedirect (url : bytes) | DPass | DBlock | DAllow (sc : tp_scope).

(* the four ctl actions that change the per-transaction body settings *)
Inductive tp_bctl :=
  | BReqLimit (n : Z) | BRespLimit (n : Z) | BReqAcc (b : bool) | BRespAcc (b : bool).

(* one element of an action list as parseActions sees it *)
Inductive tp_item :=
  | IDis (d : tp_dact)          (* an action of type Disruptive *)
  | IStatus (n : N)             (* status:N *)
  | ICtl (m : tp_mode)          (* ctl:ruleEngine=m *)
  | IBody (b : tp_bctl)         (* ctl:requestBodyLimit / responseBodyLimit / requestBodyAccess / responseBodyAccess *)
  | ISkip (n : N)               (* skip:n, n >= 1 *)
  | ISkipAfter (m : N)          (* skipAfter:M<m> *)
  | IInert.                     (* id, phase, log, nolog, msg, tag, setvar, ... : no effect on this model *)

Record tp_raw := mkRaw {
  rr_mark   : option N;          (* Some m: the entry is "SecMarker M<m>", the other fields are unused *)
  rr_id     : N;
  rr_phase  : N;                 (* 1..5 *)
  rr_cond   : tp_cond;           (* the starter's condition *)
  rr_chain  : option tp_cond;    (* condition of a chained link, if any *)
  rr_acts   : list tp_item       (* the action list in written order *)
}.

(* SecDefaultAction "phase:p,<actions>" *)
Record tp_default := mkDef {
  df_phase  : N;
  df_acts   : list tp_item
}.

Record tp_waf := mkWaf {
  w_engine   : tp_mode;
  w_defaults : list tp_default;
  w_rules    : list tp_raw;
  w_reqacc   : bool;  w_reqlim  : Z;  w_reqact  : tp_lact;
  w_respacc  : bool;  w_resplim : Z;  w_respact : tp_lact
}.

(* ---------------------------------------------------------------------------------- *)
(* compiled configuration                                                              *)
(* ---------------------------------------------------------------------------------- *)

Record tp_rule := mkRule {
  r_mark   : option N;           (* Some m: SecMarker (phase 0, id 0, no operator, no actions) *)
  r_id     : N;
  r_phase  : N;
  r_cond   : tp_cond;
  r_chain  : option tp_cond;
  r_ctl    : option tp_mode;
  r_act    : option tp_dact;     (* the one disruptive-type action left after parsing *)
  r_status : N;                  (* Rule.DisruptiveStatus, 0 = unset *)
  r_skip   : N;                  (* skip:N, 0 = none *)
  r_skipafter : option N         (* skipAfter:M *)
}.

Record tp_cfg := mkCfg {
  c_engine  : tp_mode;
  c_rules   : list tp_rule;
  c_reqacc  : bool;  c_reqlim  : Z;  c_reqact  : tp_lact;
  c_respacc : bool;  c_resplim : Z;  c_respact : tp_lact
}.

Definition tp_is_dis (a : tp_item) : bool := match a with IDis _ => true | _ => false end.
Definition tp_is_block_item (a : tp_item) : bool := match a with IDis DBlock => true | _ => false end.

(* res[i] = a *)
Definition tp_replace_nth {A} (i : nat) (a : A) (l : list A) : list A :=
  firstn i l ++ a :: skipn (S i) l.

(* appendRuleAction(res, key, val, disruptiveActionIndex): a disruptive action replaces the one at
   the tracked index when there is one, otherwise it is appended and its index is tracked; any other
   action is appended and the tracked index is handed back unchanged *)
Definition tp_append_action (st : list tp_item * option nat) (a : tp_item) : list tp_item * option nat :=
  let '(res, idx) := st in
  if tp_is_dis a then
    match idx with
    | Some i => (tp_replace_nth i a res, Some i)
    | None => (res ++ [a], Some (length res))
    end
  else (res ++ [a], idx).

(* parseActions *)
Definition tp_parse_actions (l : list tp_item) : list tp_item :=
  fst (fold_left tp_append_action l ([], None)).

Fixpoint tp_last_some {A B} (f : A -> option B) (l : list A) (acc : option B) : option B :=
  match l with
  | [] => acc
  | a :: r => tp_last_some f r (match f a with Some b => Some b | None => acc end)
  end.

Definition tp_dis_of (a : tp_item) : option tp_dact := match a with IDis d => Some d | _ => None end.

(* the disruptive action a default list hands down (mergeActions: "da = action" for each one) *)
Definition tp_last_dis (l : list tp_item) : option tp_dact := tp_last_some tp_dis_of l None.

(* the first disruptive action of a compiled list (there is exactly one at most, see
   TxPhaseProofs.parse_one_disruptive) *)
Fixpoint tp_first_dis (l : list tp_item) : option tp_dact :=
  match l with
  | [] => None
  | IDis d :: _ => Some d
  | _ :: r => tp_first_dis r
  end.

Fixpoint tp_find_default (ds : list tp_default) (p : N) : option tp_default :=
  match ds with
  | [] => None
  | d :: r => if df_phase d =? p then Some d else tp_find_default r p
  end.

(* ParseRule: defaults of the rule's phase; phase 2 has the built-in "phase:2,log,auditlog,pass" *)
Definition tp_defaults_for (ds : list tp_default) (p : N) : option tp_default :=
  match tp_find_default ds p with
  | Some d => Some d
  | None => if p =? 2 then Some (mkDef 2 [IInert; IInert; IDis DPass]) else None
  end.

(* mergeActions(origin, defaults): the defaults' non-disruptive actions, then the rule's own actions
   without "block", then the default disruptive action unless the rule has a non-block one *)
Definition tp_merge (origin defaults : list tp_item) : list tp_item :=
  let has_da := existsb (fun a => tp_is_dis a && negb (tp_is_block_item a)) origin in
  filter (fun a => negb (tp_is_dis a)) defaults
  ++ filter (fun a => negb (tp_is_block_item a)) origin
  ++ (if has_da then [] else match tp_last_dis defaults with Some d => [IDis d] | None => [] end).

(* applyParsedActions: parse, merge with the (parsed) defaults of the phase; Init of every action in
   list order (the last status / ctl / skip / skipAfter of the list is the effective one) *)
Definition tp_compiled_actions (ds : list tp_default) (r : tp_raw) : list tp_item :=
  match tp_defaults_for ds (rr_phase r) with
  | None => tp_parse_actions (rr_acts r)
  | Some d => tp_merge (tp_parse_actions (rr_acts r)) (tp_parse_actions (df_acts d))
  end.

Definition tp_compile_rule (ds : list tp_default) (r : tp_raw) : tp_rule :=
  match rr_mark r with
  | Some m => mkRule (Some m) 0 0 CTrue None None None 0 0 None
  | None =>
    let m := tp_compiled_actions ds r in
    mkRule None (rr_id r) (rr_phase r) (rr_cond r) (rr_chain r)
      (tp_last_some (fun a => match a with ICtl e => Some e | _ => None end) m None)
      (tp_first_dis m)
      (match tp_last_some (fun a => match a with IStatus n => Some n | _ => None end) m None with
       | Some n => n | None => 0 end)
      (match tp_last_some (fun a => match a with ISkip n => Some n | _ => None end) m None with
       | Some n => n | None => 0 end)
      (tp_last_some (fun a => match a with ISkipAfter k => Some k | _ => None end) m None)
  end.

(* waf.go: in DetectionOnly both body-limit actions are forced to ProcessPartial *)
Definition tp_limit_action (e : tp_mode) (a : tp_lact) : tp_lact :=
  match e with MDet => LPartial | _ => a end.

Definition tp_compile (w : tp_waf) : tp_cfg :=
  mkCfg (w_engine w) (map (tp_compile_rule (w_defaults w)) (w_rules w))
        (w_reqacc w) (w_reqlim w) (tp_limit_action (w_engine w) (w_reqact w))
        (w_respacc w) (w_resplim w) (tp_limit_action (w_engine w) (w_respact w)).

(* ---------------------------------------------------------------------------------- *)
(* transaction state                                                                   *)
(* ---------------------------------------------------------------------------------- *)

Inductive tp_akind := KDeny | KDrop | KRedirect.

Record tp_intr := mkIntr {
  i_rule   : N;
  i_kind   : tp_akind;
  i_status : N;
  i_data   : bytes
}.

(* outcome of one rule evaluation *)
Inductive tp_rstat :=
  | RNoMatch                 (* the starter's condition is false *)
  | RStarterOnly             (* starter matched (its non-disruptive actions ran), a chain link did not *)
  | RFired (m : tp_mode).    (* whole rule matched; disruptive action executed under engine mode m *)

(* ghost history *)
Inductive tp_event :=
  | EvPhase (p : N)                               (* RuleGroup.Eval entered for phase p *)
  | EvRule (p : N) (r : tp_rule) (st : tp_rstat)  (* Rule.Evaluate called in phase p *)
  | EvLimit (status : N).                         (* setAndReturnBodyLimitInterruption called *)

Record tp_state := mkSt {
  st_last    : N;                    (* tx.lastPhase *)
  st_engine  : tp_mode;              (* tx.RuleEngine *)
  st_intr    : option tp_intr;       (* tx.interruption *)
  st_dintr   : option tp_intr;       (* tx.detectionOnlyInterruption *)
  st_allow   : option tp_scope;      (* tx.AllowType *)
  st_skip    : N;                    (* tx.Skip *)
  st_skipafter : option N;           (* tx.SkipAfter *)
  st_reqlen  : Z;                    (* tx.requestBodyBuffer.length *)
  st_resplen : Z;                    (* tx.responseBodyBuffer.length *)
  st_conn    : bool;                 (* ProcessConnection happened *)
  st_uri     : bool;                 (* ProcessURI happened *)
  st_reqhdr  : bool;                 (* AddRequestHeader happened *)
  st_resphdr : bool;                 (* AddResponseHeader happened *)
  st_trace   : list tp_event
}.

Definition tp_init (c : tp_cfg) : tp_state :=
  mkSt 0 (c_engine c) None None None 0 None 0%Z 0%Z false false false false [].

Definition set_last (s : tp_state) (p : N) :=
  mkSt p (st_engine s) (st_intr s) (st_dintr s) (st_allow s) (st_skip s) (st_skipafter s) (st_reqlen s) (st_resplen s)
       (st_conn s) (st_uri s) (st_reqhdr s) (st_resphdr s) (st_trace s).
Definition set_engine (s : tp_state) (m : tp_mode) :=
  mkSt (st_last s) m (st_intr s) (st_dintr s) (st_allow s) (st_skip s) (st_skipafter s) (st_reqlen s) (st_resplen s)
       (st_conn s) (st_uri s) (st_reqhdr s) (st_resphdr s) (st_trace s).
Definition set_intr (s : tp_state) (i : option tp_intr) :=
  mkSt (st_last s) (st_engine s) i (st_dintr s) (st_allow s) (st_skip s) (st_skipafter s) (st_reqlen s) (st_resplen s)
       (st_conn s) (st_uri s) (st_reqhdr s) (st_resphdr s) (st_trace s).
Definition set_dintr (s : tp_state) (i : option tp_intr) :=
  mkSt (st_last s) (st_engine s) (st_intr s) i (st_allow s) (st_skip s) (st_skipafter s) (st_reqlen s) (st_resplen s)
       (st_conn s) (st_uri s) (st_reqhdr s) (st_resphdr s) (st_trace s).
Definition set_allow (s : tp_state) (a : option tp_scope) :=
  mkSt (st_last s) (st_engine s) (st_intr s) (st_dintr s) a (st_skip s) (st_skipafter s) (st_reqlen s) (st_resplen s)
       (st_conn s) (st_uri s) (st_reqhdr s) (st_resphdr s) (st_trace s).
(* tx.Skip and tx.SkipAfter *)
Definition set_flow (s : tp_state) (k : N) (m : option N) :=
  mkSt (st_last s) (st_engine s) (st_intr s) (st_dintr s) (st_allow s) k m (st_reqlen s) (st_resplen s)
       (st_conn s) (st_uri s) (st_reqhdr s) (st_resphdr s) (st_trace s).
Definition set_reqlen (s : tp_state) (n : Z) :=
  mkSt (st_last s) (st_engine s) (st_intr s) (st_dintr s) (st_allow s) (st_skip s) (st_skipafter s) n (st_resplen s)
       (st_conn s) (st_uri s) (st_reqhdr s) (st_resphdr s) (st_trace s).
Definition set_resplen (s : tp_state) (n : Z) :=
  mkSt (st_last s) (st_engine s) (st_intr s) (st_dintr s) (st_allow s) (st_skip s) (st_skipafter s) (st_reqlen s) n
       (st_conn s) (st_uri s) (st_reqhdr s) (st_resphdr s) (st_trace s).
Definition set_flags (s : tp_state) (a b c d : bool) :=
  mkSt (st_last s) (st_engine s) (st_intr s) (st_dintr s) (st_allow s) (st_skip s) (st_skipafter s) (st_reqlen s) (st_resplen s)
       a b c d (st_trace s).
Definition add_event (s : tp_state) (e : tp_event) :=
  mkSt (st_last s) (st_engine s) (st_intr s) (st_dintr s) (st_allow s) (st_skip s) (st_skipafter s) (st_reqlen s) (st_resplen s)
       (st_conn s) (st_uri s) (st_reqhdr s) (st_resphdr s) (st_trace s ++ [e]).

Definition is_some {A} (o : option A) : bool := match o with Some _ => true | None => false end.

(* ---------------------------------------------------------------------------------- *)
(* actions                                                                             *)
(* ---------------------------------------------------------------------------------- *)

(* Transaction.Interrupt *)
Definition tp_interrupt (s : tp_state) (i : tp_intr) : tp_state :=
  match st_engine s with
  | MOn => match st_intr s with None => set_intr s (Some i) | Some _ => s end
  | MDet => match st_dintr s with None => set_dintr s (Some i) | Some _ => s end
  | MOff => s
  end.

(* Transaction.Allow *)
Definition tp_allow (s : tp_state) (sc : tp_scope) : tp_state :=
  match st_engine s with MOn => set_allow s (Some sc) | _ => s end.

Definition tp_redirect_status (st : N) : N :=
  if (st =? 301) || (st =? 302) || (st =? 303) || (st =? 307) then st else 302.

(* the Interruption a deny / drop / redirect rule builds (deny.go, drop.go, redirect.go) *)
Definition tp_intr_of (r : tp_rule) : option tp_intr :=
  match r_act r with
  | Some DDeny => Some (mkIntr (r_id r) KDeny (if r_status r =? 0 then 403 else r_status r) [])
  | Some DDrop => Some (mkIntr (r_id r) KDrop (r_status r) [])
  | Some (DRedirect u) => Some (mkIntr (r_id r) KRedirect (tp_redirect_status (r_status r)) u)
  | _ => None
  end.

(* Evaluate of the rule's disruptive-type action *)
Definition tp_exec_dact (r : tp_rule) (s : tp_state) : tp_state :=
  match r_act r with
  | Some (DAllow sc) => tp_allow s sc
  | _ => match tp_intr_of r with Some i => tp_interrupt s i | None => s end   (* pass, block: nothing *)
  end.

(* Evaluate of the flow actions skip:N and skipAfter:M (they do not look at the engine mode) *)
Definition tp_exec_flow (r : tp_rule) (s : tp_state) : tp_state :=
  set_flow s (if 0 <? r_skip r then r_skip r else st_skip s)
             (match r_skipafter r with Some m => Some m | None => st_skipafter s end).

Definition tp_holds (s : tp_state) (c : tp_cond) : bool :=
  match c with
  | CTrue => true | CFalse => false
  | CConn => st_conn s | CUri => st_uri s | CReqHdr => st_reqhdr s | CRespHdr => st_resphdr s
  end.

(* Rule.doEvaluate: non-disruptive actions of the starter run as soon as it matches; the chain is
   walked; disruptive action and MatchRule only when every link matched *)
Definition tp_eval_rule (p : N) (r : tp_rule) (s : tp_state) : tp_state :=
  if tp_holds s (r_cond r) then
    let s1 := match r_ctl r with Some m => set_engine s m | None => s end in
    if match r_chain r with Some c => tp_holds s1 c | None => true end then
      add_event (tp_exec_flow r (tp_exec_dact r s1)) (EvRule p r (RFired (st_engine s1)))
    else add_event s1 (EvRule p r RStarterOnly)
  else add_event s (EvRule p r RNoMatch).

Definition tp_mark_eqb (a : option N) (m : N) : bool :=
  match a with Some k => k =? m | None => false end.

(* the RulesLoop of RuleGroup.Eval.  A SecMarker (phase 0) passes the phase filter of every phase;
   its evaluation has no effect (no operator, no actions, id 0: no MatchRule) *)
Fixpoint tp_eval_loop (p : N) (rs : list tp_rule) (s : tp_state) : tp_state :=
  match rs with
  | [] => s
  | r :: rs' =>
    if is_some (st_intr s) && negb (p =? 5) then s                 (* break *)
    else if negb ((r_phase r =? 0) || (r_phase r =? p)) then tp_eval_loop p rs' s   (* continue *)
    else
      match st_skipafter s with
      | Some m =>                                                  (* pending skipAfter *)
          if tp_mark_eqb (r_mark r) m then tp_eval_loop p rs' (set_flow s (st_skip s) None)
          else tp_eval_loop p rs' s
      | None =>
        if 0 <? st_skip s then tp_eval_loop p rs' (set_flow s (st_skip s - 1) None)
        else
          let go := tp_eval_loop p rs' (if is_some (r_mark r) then s else tp_eval_rule p r s) in
          match st_allow s with
          | None => go
          | Some SPhase => s
          | Some SRequest =>
              if p =? 1 then s
              else if p =? 2 then set_allow s None
              else go
          | Some SAll => if p =? 5 then go else s
          end
      end
  end.

(* RuleGroup.Eval: after the loop (however it was left) allow:phase, Skip and SkipAfter are reset *)
Definition tp_eval_phase (c : tp_cfg) (p : N) (s : tp_state) : tp_state :=
  let s1 := add_event (set_last s p) (EvPhase p) in
  let s2 := tp_eval_loop p (c_rules c) s1 in
  let s3 := match st_allow s2 with Some SPhase => set_allow s2 None | _ => s2 end in
  set_flow s3 0 None.

(* setAndReturnBodyLimitInterruption *)
Definition tp_limit_intr (s : tp_state) (status : N) : tp_state :=
  let s1 := add_event s (EvLimit status) in
  match st_intr s1 with
  | Some _ => s1
  | None => set_intr s1 (Some (mkIntr 0 KDeny status []))
  end.

(* ---------------------------------------------------------------------------------- *)
(* the API                                                                             *)
(* ---------------------------------------------------------------------------------- *)

Inductive tp_call :=
  | KConn | KUri | KReqHdr | KRespHdr
  | KPRH | KPRB | KPRespH | KPRespB | KLog
  | KWReq (n : Z) | KRReq (n : Z) (known : bool)
  | KWResp (n : Z) | KRResp (n : Z) (known : bool).

Inductive tp_ret :=
  | RVoid
  | RI (i : option tp_intr)               (* Process*Headers / Process*Body *)
  | RW (i : option tp_intr) (w : Z).      (* Write*Body / Read*BodyFrom: interruption, bytes written *)

Definition is_off (s : tp_state) : bool := match st_engine s with MOff => true | _ => false end.

Definition tp_prh (c : tp_cfg) (s : tp_state) : tp_state * tp_ret :=
  if is_off s then (s, RI None)
  else if 1 <=? st_last s then (s, RI (st_intr s))
  else if is_some (st_intr s) then (s, RI (st_intr s))
  else let s' := tp_eval_phase c 1 s in (s', RI (st_intr s')).

Definition tp_prb (c : tp_cfg) (s : tp_state) : tp_state * option tp_intr :=
  if is_off s then (s, None)
  else if is_some (st_intr s) then (s, st_intr s)
  else if negb (st_last s =? 1) then (s, None)
  else let s' := tp_eval_phase c 2 s in (s', st_intr s').

Definition tp_presph (c : tp_cfg) (s : tp_state) : tp_state * tp_ret :=
  if is_off s then (s, RI None)
  else if 3 <=? st_last s then (s, RI (st_intr s))
  else if is_some (st_intr s) then (s, RI (st_intr s))
  else let s' := tp_eval_phase c 3 s in (s', RI (st_intr s')).

Definition tp_prespb (c : tp_cfg) (s : tp_state) : tp_state * option tp_intr :=
  if is_off s then (s, None)
  else if is_some (st_intr s) then (s, st_intr s)
  else if negb (st_last s =? 3) then (s, None)
  else let s' := tp_eval_phase c 4 s in (s', st_intr s').

Definition tp_log (c : tp_cfg) (s : tp_state) : tp_state :=
  if is_off s then s else tp_eval_phase c 5 s.

(* the common shape of Write{Request,Response}Body and Read{Request,Response}BodyFrom.
   [known] = None: Write*Body(b) with len b = n;  Some k: Read*BodyFrom(r) with n bytes available,
   k = the reader implements ByteLenger. *)
Definition tp_body_write (acc : bool) (lim : Z) (act : tp_lact) (status : N)
           (len : tp_state -> Z) (set_len : tp_state -> Z -> tp_state)
           (process : tp_state -> tp_state * option tp_intr)
           (n : Z) (known : option bool) (s : tp_state) : tp_state * tp_ret :=
  if is_off s then (s, RW None 0)
  else if negb acc then (s, RW None 0)
  else if (lim =? len s)%Z then
    match act with
    | LReject => (s, RW (st_intr s) 0)
    | LPartial => (s, RW None 0)
    end
  else
    let over := (lim <=? len s + n)%Z in
    match known with
    | None =>                                     (* Write*Body *)
      if over then
        match act with
        | LReject => let s' := tp_limit_intr s status in (s', RW (st_intr s') 0)
        | LPartial =>
          let w := Z.max 0 (lim - len s) in
          let s1 := set_len s (len s + w)%Z in
          let s2 := fst (process s1) in
          (s2, RW (st_intr s2) w)
        end
      else let s1 := set_len s (len s + n)%Z in (s1, RW (st_intr s1) n)
    | Some k =>                                   (* Read*BodyFrom *)
      if k && over && match act with LReject => true | LPartial => false end then
        let s' := tp_limit_intr s status in (s', RW (st_intr s') 0)
      else
        let run0 := k && over in                  (* ProcessPartial with a known length *)
        let writing := if k && negb over then n else (lim - len s)%Z in
        let w := Z.max 0 (Z.min n writing) in     (* io.CopyN *)
        let s1 := set_len s (len s + w)%Z in
        if (len s1 =? lim)%Z then
          match act with
          | LReject => let s' := tp_limit_intr s1 status in (s', RW (st_intr s') 0)
          | LPartial => let s2 := fst (process s1) in (s2, RW (st_intr s2) w)
          end
        else
          let s2 := if run0 then fst (process s1) else s1 in
          (s2, RW (st_intr s2) w)
    end.

Definition tp_step (c : tp_cfg) (s : tp_state) (k : tp_call) : tp_state * tp_ret :=
  match k with
  | KConn => (set_flags s true (st_uri s) (st_reqhdr s) (st_resphdr s), RVoid)
  | KUri => (set_flags s (st_conn s) true (st_reqhdr s) (st_resphdr s), RVoid)
  | KReqHdr => (set_flags s (st_conn s) (st_uri s) true (st_resphdr s), RVoid)
  | KRespHdr => (set_flags s (st_conn s) (st_uri s) (st_reqhdr s) true, RVoid)
  | KPRH => tp_prh c s
  | KPRB => let '(s', i) := tp_prb c s in (s', RI i)
  | KPRespH => tp_presph c s
  | KPRespB => let '(s', i) := tp_prespb c s in (s', RI i)
  | KLog => (tp_log c s, RVoid)
  | KWReq n => tp_body_write (c_reqacc c) (c_reqlim c) (c_reqact c) 413 st_reqlen set_reqlen (tp_prb c) n None s
  | KRReq n k => tp_body_write (c_reqacc c) (c_reqlim c) (c_reqact c) 413 st_reqlen set_reqlen (tp_prb c) n (Some k) s
  | KWResp n => tp_body_write (c_respacc c) (c_resplim c) (c_respact c) 500 st_resplen set_resplen (tp_prespb c) n None s
  | KRResp n k => tp_body_write (c_respacc c) (c_resplim c) (c_respact c) 500 st_resplen set_resplen (tp_prespb c) n (Some k) s
  end.

(* ---------------------------------------------------------------------------------- *)
(* per-transaction body settings changed by ctl (layered on the machine above)          *)
(* ---------------------------------------------------------------------------------- *)
(* ctl:requestBodyLimit / requestBodyAccess (effective while tx.LastPhase() <= 1) and
   ctl:responseBodyLimit / responseBodyAccess (while <= 3) are non-disruptive actions of the starter:
   they run whenever the starter matches.  Nothing inside RuleGroup.Eval reads the four settings, so the
   settings a body call sees are a function of the evaluation history: every EvRule event whose starter
   matched applies the body ctls of that rule (looked up by rule id) with the phase it ran in. *)

Record tp_body := mkBody { b_reqacc : bool; b_reqlim : Z; b_respacc : bool; b_resplim : Z }.

(* ctl.go, phase = tx.LastPhase() = the phase being evaluated *)
Definition tp_exec_bctl1 (p : N) (b : tp_body) (x : tp_bctl) : tp_body :=
  match x with
  | BReqLimit n => if p <=? 1 then mkBody (b_reqacc b) n (b_respacc b) (b_resplim b) else b
  | BReqAcc a => if p <=? 1 then mkBody a (b_reqlim b) (b_respacc b) (b_resplim b) else b
  | BRespLimit n => if p <=? 3 then mkBody (b_reqacc b) (b_reqlim b) (b_respacc b) n else b
  | BRespAcc a => if p <=? 3 then mkBody (b_reqacc b) (b_reqlim b) a (b_resplim b) else b
  end.

Definition tp_bmap := list (N * list tp_bctl).

Fixpoint tp_bctls_of (bm : tp_bmap) (id : N) : list tp_bctl :=
  match bm with [] => [] | (i, l) :: r => if i =? id then l else tp_bctls_of r id end.

Definition tp_body_ev (bm : tp_bmap) (b : tp_body) (e : tp_event) : tp_body :=
  match e with
  | EvRule p r RNoMatch => b
  | EvRule p r _ => fold_left (tp_exec_bctl1 p) (tp_bctls_of bm (r_id r)) b
  | _ => b
  end.

(* tx.RequestBodyAccess / RequestBodyLimit / ResponseBodyAccess / ResponseBodyLimit after history t *)
Definition tp_body_of (c : tp_cfg) (bm : tp_bmap) (t : list tp_event) : tp_body :=
  fold_left (tp_body_ev bm) t (mkBody (c_reqacc c) (c_reqlim c) (c_respacc c) (c_resplim c)).

(* the body ctls of every rule (merged action list, list order) *)
Definition tp_compile_bmap (w : tp_waf) : tp_bmap :=
  flat_map (fun r => match rr_mark r with
                     | Some _ => []
                     | None => [(rr_id r, flat_map (fun a => match a with IBody b => [b] | _ => [] end)
                                                   (tp_compiled_actions (w_defaults w) r))]
                     end) (w_rules w).

(* the API with the current settings: body calls use them, every other call is tp_step *)
Definition tb_step (c : tp_cfg) (bm : tp_bmap) (s : tp_state) (k : tp_call) : tp_state * tp_ret :=
  let b := tp_body_of c bm (st_trace s) in
  match k with
  | KWReq n => tp_body_write (b_reqacc b) (b_reqlim b) (c_reqact c) 413 st_reqlen set_reqlen (tp_prb c) n None s
  | KRReq n kn => tp_body_write (b_reqacc b) (b_reqlim b) (c_reqact c) 413 st_reqlen set_reqlen (tp_prb c) n (Some kn) s
  | KWResp n => tp_body_write (b_respacc b) (b_resplim b) (c_respact c) 500 st_resplen set_resplen (tp_prespb c) n None s
  | KRResp n kn => tp_body_write (b_respacc b) (b_resplim b) (c_respact c) 500 st_resplen set_resplen (tp_prespb c) n (Some kn) s
  | _ => tp_step c s k
  end.

Definition tb_run_from (c : tp_cfg) (bm : tp_bmap) (s : tp_state) (ks : list tp_call) : tp_state :=
  fold_left (fun s k => fst (tb_step c bm s k)) ks s.

Definition tb_run (c : tp_cfg) (bm : tp_bmap) (ks : list tp_call) : tp_state := tb_run_from c bm (tp_init c) ks.

Definition tp_run_from (c : tp_cfg) (s : tp_state) (ks : list tp_call) : tp_state :=
  fold_left (fun s k => fst (tp_step c s k)) ks s.

Definition tp_run (c : tp_cfg) (ks : list tp_call) : tp_state := tp_run_from c (tp_init c) ks.

(* ---------------------------------------------------------------------------------- *)
(* declarative readings of the ghost history (used by the theorems)                    *)
(* ---------------------------------------------------------------------------------- *)

(* the interruption an event would cause under engine mode [m] *)
Definition tp_ev_intr (m : tp_mode) (e : tp_event) : option tp_intr :=
  match e with
  | EvRule _ r (RFired m') =>
      match m, m' with
      | MOn, MOn => tp_intr_of r
      | MDet, MDet => tp_intr_of r
      | _, _ => None
      end
  | EvLimit st => match m with MOn => Some (mkIntr 0 KDeny st []) | _ => None end
  | _ => None
  end.

(* first event of the history that interrupts (m = MOn) / would interrupt (m = MDet) *)
Fixpoint tp_first_intr (m : tp_mode) (t : list tp_event) : option tp_intr :=
  match t with
  | [] => None
  | e :: t' => match tp_ev_intr m e with Some i => Some i | None => tp_first_intr m t' end
  end.

Definition tp_ev_phase (e : tp_event) : option N :=
  match e with EvPhase p => Some p | EvRule p _ _ => Some p | EvLimit _ => None end.

(* an event that may still occur after the interruption: logging phase, or a body-limit notice *)
Definition tp_late_ok (e : tp_event) : bool :=
  match tp_ev_phase e with Some p => p =? 5 | None => true end.

Definition tp_count_phase (p : N) (t : list tp_event) : nat :=
  length (filter (fun e => match e with EvPhase q => q =? p | _ => false end) t).

Definition tp_count_rule (id : N) (t : list tp_event) : nat :=
  length (filter (fun e => match e with EvRule _ r _ => r_id r =? id | _ => false end) t).

(* MatchedRules(): (id, Disruptive_) of every fully matched rule, in order *)
Fixpoint tp_matched (t : list tp_event) : list (N * bool) :=
  match t with
  | [] => []
  | EvRule _ r (RFired m) :: t' =>
      (r_id r, is_some (r_act r) && match m with MOn => true | _ => false end) :: tp_matched t'
  | _ :: t' => tp_matched t'
  end.

(* how often the starter of rule [id] matched (its setvar counter) *)
Definition tp_starter_count (id : N) (t : list tp_event) : N :=
  N.of_nat (length (filter (fun e => match e with
                                     | EvRule _ r RNoMatch => false
                                     | EvRule _ r _ => r_id r =? id
                                     | _ => false end) t)).
