(* Flow.v — executable model of rule-flow control in Coraza (property C08).

   Code side (transcribed line by line from /repo):
     fl_eval_loop / fl_eval_phase  = RuleGroup.Eval            internal/corazawaf/rulegroup.go
     fl_evaluate / fl_walk         = Rule.doEvaluate            internal/corazawaf/rule.go
     fl_apply_act                  = skipFn/skipafterFn/allowFn/denyFn.Evaluate (internal/actions),
                                     Transaction.Allow / Interrupt (transaction.go)
     fl_run                        = ProcessRequestHeaders .. ProcessLogging called in order
   Spec side (independent, declarative): fl_spec_* — the documented semantics as rewriting of the
   phase's agenda (the phase-filtered list of live entries).

   A request enters only as the list of booleans [req]: link key k matches iff [nth k req false]
   (the harness uses  SecRule REQUEST_HEADERS:Xk "@streq 1"). No proofs in this file. *)
From Verif Require Import Base.
Local Open Scope nat_scope.

(* ---------------------------------------------------------------------------------- *)
(* abstract rules                                                                      *)
(* ---------------------------------------------------------------------------------- *)

Inductive fl_scope := ScPhase | ScRequest | ScAll.          (* allow:phase | allow:request | allow *)

(* tx.RuleEngine: per-transaction state, initialised from SecRuleEngine, changed by ctl:ruleEngine *)
Inductive fl_mode := MOn | MDet | MOff.

(* flow and disruptive actions (plugintypes.ActionTypeFlow / ActionTypeDisruptive) *)
Inductive fl_act :=
  | ASkip (n : nat)            (* skip:N       -> tx.Skip = N *)
  | ASkipAfter (m : nat)       (* skipAfter:M  -> tx.SkipAfter = M   (marker names are numbered) *)
  | AAllow (sc : fl_scope)     (* allow[:scope]-> tx.Allow(scope) *)
  | ADeny.                     (* deny         -> tx.Interrupt(..) *)

(* one link of a chain (the starter is the first link) *)
Record fl_link := mkLink {
  l_key  : option nat;         (* None: no operator (SecAction / SecMarker), always matches *)
  l_rm   : list nat;           (* ctl:ruleRemoveById=<id> actions of this link (non-disruptive: run when the link matches) *)
  l_eng  : option fl_mode;     (* ctl:ruleEngine=<mode> of this link (non-disruptive as well) *)
  l_acts : list fl_act         (* flow actions written on this link; the engine never runs those of non-starters *)
}.

Record fl_rule := mkRule {
  r_id    : nat;               (* 0 for SecMarker (ID_ = noID) *)
  r_phase : nat;               (* 0 for SecMarker, else 1..5 *)
  r_mark  : option nat;        (* SecMark_ (None = "") *)
  r_links : list fl_link;      (* starter first *)
  r_acts  : list fl_act        (* the starter's flow/disruptive actions in r.actions order *)
}.

Definition fl_marker (m : nat) : fl_rule := mkRule 0 0 (Some m) [mkLink None [] None []] [].

(* ---------------------------------------------------------------------------------- *)
(* transaction state                                                                   *)
(* ---------------------------------------------------------------------------------- *)

(* one call of Rule.Evaluate from the phase loop: phase, rule id (0 = marker), whether tx.MatchRule ran *)
Inductive fl_event := Ev (phase id : nat) (matched : bool).

Record fl_st := mkSt {
  s_skip  : nat;                     (* tx.Skip *)
  s_after : option nat;              (* tx.SkipAfter ("" = None) *)
  s_allow : option fl_scope;         (* tx.AllowType (Unset = None) *)
  s_intr  : option (nat * nat);      (* tx.interruption: (phase, rule id) *)
  s_dintr : option (nat * nat);      (* tx.detectionOnlyInterruption *)
  s_rm    : list nat;                (* tx.ruleRemoveByID *)
  s_eng   : fl_mode;                 (* tx.RuleEngine *)
  s_ev    : list fl_event            (* trace, oldest first *)
}.

Definition fl_init (eng : fl_mode) : fl_st := mkSt 0 None None None None [] eng [].

Definition set_skip n s := mkSt n (s_after s) (s_allow s) (s_intr s) (s_dintr s) (s_rm s) (s_eng s) (s_ev s).
Definition set_after m s := mkSt (s_skip s) m (s_allow s) (s_intr s) (s_dintr s) (s_rm s) (s_eng s) (s_ev s).
Definition set_allow a s := mkSt (s_skip s) (s_after s) a (s_intr s) (s_dintr s) (s_rm s) (s_eng s) (s_ev s).
Definition set_intr i s := mkSt (s_skip s) (s_after s) (s_allow s) i (s_dintr s) (s_rm s) (s_eng s) (s_ev s).
Definition set_dintr i s := mkSt (s_skip s) (s_after s) (s_allow s) (s_intr s) i (s_rm s) (s_eng s) (s_ev s).
Definition add_rm l s := mkSt (s_skip s) (s_after s) (s_allow s) (s_intr s) (s_dintr s) (s_rm s ++ l) (s_eng s) (s_ev s).
Definition set_eng e s := mkSt (s_skip s) (s_after s) (s_allow s) (s_intr s) (s_dintr s) (s_rm s) e (s_ev s).
Definition add_ev e s := mkSt (s_skip s) (s_after s) (s_allow s) (s_intr s) (s_dintr s) (s_rm s) (s_eng s) (s_ev s ++ [e]).

Definition is_some {A} (o : option A) : bool := match o with Some _ => true | None => false end.
Definition opt_nat_eqb (a b : option nat) : bool :=
  match a, b with
  | Some x, Some y => x =? y
  | None, None => true
  | _, _ => false
  end.

(* ---------------------------------------------------------------------------------- *)
(* code side                                                                           *)
(* ---------------------------------------------------------------------------------- *)

(* Transaction.Allow and Transaction.Interrupt read the transaction's CURRENT mode *)
Definition fl_apply_act (p id : nat) (s : fl_st) (a : fl_act) : fl_st :=
  match a with
  | ASkip n => set_skip n s
  | ASkipAfter m => set_after (Some m) s
  | AAllow sc => match s_eng s with MOn => set_allow (Some sc) s | _ => s end   (* Transaction.Allow *)
  | ADeny =>                                                         (* Transaction.Interrupt: first one wins *)
      match s_eng s with
      | MOn => if is_some (s_intr s) then s else set_intr (Some (p, id)) s
      | MDet => if is_some (s_dintr s) then s else set_dintr (Some (p, id)) s
      | MOff => s
      end
  end.

Definition fl_link_matches (req : list bool) (l : fl_link) : bool :=
  match l_key l with None => true | Some k => nth k req false end.

(* the ctl actions of a link that matched *)
Definition fl_link_ctl (l : fl_link) (s : fl_st) : fl_st :=
  let s1 := add_rm (l_rm l) s in
  match l_eng l with Some e => set_eng e s1 | None => s1 end.

(* the chain walk of doEvaluate: a link that matches runs its non-disruptive actions, the first link
   that does not match ends the walk *)
Fixpoint fl_walk (req : list bool) (ls : list fl_link) (s : fl_st) : bool * fl_st :=
  match ls with
  | [] => (true, s)
  | l :: ls' => if fl_link_matches req l then fl_walk req ls' (fl_link_ctl l s) else (false, s)
  end.

(* Rule.Evaluate for the rule visited by the phase loop (always a starter or a marker) *)
Definition fl_evaluate (req : list bool) (p : nat) (r : fl_rule) (s : fl_st) : fl_st :=
  let '(m, s1) := fl_walk req (r_links r) s in
  let s2 := if m then fold_left (fl_apply_act p (r_id r)) (r_acts r) s1 else s1 in
  add_ev (Ev p (r_id r) (m && negb (r_id r =? 0))) s2.

Definition fl_removed (s : fl_st) (r : fl_rule) : bool := existsb (Nat.eqb (r_id r)) (s_rm s).
Definition fl_in_phase (p : nat) (r : fl_rule) : bool := (r_phase r =? 0) || (r_phase r =? p).
Definition fl_halted (p : nat) (s : fl_st) : bool := is_some (s_intr s) && negb (p =? 5).

(* the switch on tx.AllowType in the loop: Some s' = break with state s', None = fall through *)
Definition fl_allow_break (p : nat) (s : fl_st) : option fl_st :=
  match s_allow s with
  | None => None
  | Some ScPhase => Some s
  | Some ScRequest => if p =? 1 then Some s else if p =? 2 then Some (set_allow None s) else None
  | Some ScAll => if p =? 5 then None else Some s
  end.

(* RulesLoop of RuleGroup.Eval, over ALL rules of the WAF *)
Fixpoint fl_eval_loop (req : list bool) (p : nat) (rs : list fl_rule) (s : fl_st) : fl_st :=
  match rs with
  | [] => s
  | r :: rest =>
    if fl_halted p s then s                                           (* break *)
    else if negb (fl_in_phase p r) then fl_eval_loop req p rest s (* continue: other phase *)
    else if fl_removed s r then fl_eval_loop req p rest s         (* continue: ctl:ruleRemoveById *)
    else match s_after s with
    | Some m =>                                                       (* pending skipAfter *)
        if opt_nat_eqb (r_mark r) (Some m)
        then fl_eval_loop req p rest (set_after None s)
        else fl_eval_loop req p rest s
    | None =>
      match s_skip s with
      | S k => fl_eval_loop req p rest (set_skip k s)             (* tx.Skip-- ; continue *)
      | O =>
        match fl_allow_break p s with
        | Some s' => s'                                               (* break *)
        | None => fl_eval_loop req p rest (fl_evaluate req p r s)
        end
      end
    end
  end.

(* the resets after the loop *)
Definition fl_end_phase (s : fl_st) : fl_st :=
  let s1 := match s_allow s with Some ScPhase => set_allow None s | _ => s end in
  set_after None (set_skip 0 s1).

Definition fl_eval_phase req p rs s : fl_st := fl_end_phase (fl_eval_loop req p rs s).

Definition fl_is_off (e : fl_mode) : bool := match e with MOff => true | _ => false end.

(* ProcessRequestHeaders/RequestBody/ResponseHeaders/ResponseBody return early when the rule engine of
   the transaction is Off or the transaction is interrupted; ProcessLogging evaluates phase 5 unless
   the rule engine is Off *)
Definition fl_guarded_phase req rs (s : fl_st) (p : nat) : fl_st :=
  if fl_is_off (s_eng s) then s else if is_some (s_intr s) then s else fl_eval_phase req p rs s.

Definition fl_logging req rs (s : fl_st) : fl_st :=
  if fl_is_off (s_eng s) then s else fl_eval_phase req 5 rs s.

(* eng: the configured SecRuleEngine *)
Definition fl_run (eng : fl_mode) (req : list bool) (rs : list fl_rule) : fl_st :=
  fl_logging req rs (fold_left (fl_guarded_phase req rs) [1; 2; 3; 4] (fl_init eng)).

(* ---------------------------------------------------------------------------------- *)
(* observables                                                                         *)
(* ---------------------------------------------------------------------------------- *)

Definition ev_phase (e : fl_event) := match e with Ev p _ _ => p end.
Definition ev_id (e : fl_event) := match e with Ev _ i _ => i end.
Definition ev_matched (e : fl_event) := match e with Ev _ _ m => m end.

Definition fl_evaluated_in (p : nat) (evs : list fl_event) : list nat :=
  map ev_id (filter (fun e => ev_phase e =? p) evs).
Definition fl_matched_in (p : nat) (evs : list fl_event) : list nat :=
  map ev_id (filter (fun e => (ev_phase e =? p) && ev_matched e) evs).

(* what a caller can see: the trace, the interruption, the would-be interruption of DetectionOnly *)
Definition fl_obs (s : fl_st) : list fl_event * option (nat * nat) * option (nat * nat) :=
  (s_ev s, s_intr s, s_dintr s).

(* ---------------------------------------------------------------------------------- *)
(* spec side: the documented semantics                                                 *)
(* ---------------------------------------------------------------------------------- *)

(* what survives between rules according to the documentation: the allow scope, the interruptions,
   per-transaction removals (and the trace). No skip counter, no pending marker. *)
Record fl_g := mkG {
  g_allow : option fl_scope;
  g_intr  : option (nat * nat);
  g_dintr : option (nat * nat);
  g_rm    : list nat;
  g_eng   : fl_mode;                 (* the transaction's current mode *)
  g_ev    : list fl_event
}.
Definition fl_ginit (eng : fl_mode) : fl_g := mkG None None None [] eng [].

Definition fl_live (rm : list nat) (r : fl_rule) : bool := negb (existsb (Nat.eqb (r_id r)) rm).

(* the directive of a rule that fired: the last action of each kind *)
Fixpoint fl_last_skip_opt (acts : list fl_act) : option nat :=
  match acts with
  | [] => None
  | a :: t => match fl_last_skip_opt t with Some n => Some n | None => match a with ASkip n => Some n | _ => None end end
  end.
Definition fl_last_skip (acts : list fl_act) : nat :=
  match fl_last_skip_opt acts with Some n => n | None => 0 end.

Fixpoint fl_last_after (acts : list fl_act) : option nat :=
  match acts with
  | [] => None
  | a :: t => match fl_last_after t with Some m => Some m | None => match a with ASkipAfter m => Some m | _ => None end end
  end.

Fixpoint fl_last_allow (acts : list fl_act) : option fl_scope :=
  match acts with
  | [] => None
  | a :: t => match fl_last_allow t with Some sc => Some sc | None => match a with AAllow sc => Some sc | _ => None end end
  end.

Definition fl_has_deny (acts : list fl_act) : bool :=
  existsb (fun a => match a with ADeny => true | _ => false end) acts.

(* does every link of the chain match *)
Definition fl_all_match (req : list bool) (r : fl_rule) : bool := forallb (fl_link_matches req) (r_links r).

(* removals performed by the links that were reached and matched (the matching prefix of the chain) *)
Fixpoint fl_prefix_rm (req : list bool) (ls : list fl_link) : list nat :=
  match ls with
  | [] => []
  | l :: t => if fl_link_matches req l then l_rm l ++ fl_prefix_rm req t else []
  end.

(* the mode after the ctl:ruleEngine actions of the links that were reached and matched *)
Fixpoint fl_prefix_eng (req : list bool) (ls : list fl_link) (e : fl_mode) : fl_mode :=
  match ls with
  | [] => e
  | l :: t => if fl_link_matches req l
              then fl_prefix_eng req t (match l_eng l with Some e' => e' | None => e end)
              else e
  end.

(* does an allow of this scope, in force, end phase p *)
Definition fl_blocks (a : option fl_scope) (p : nat) : bool :=
  match a with
  | None => false
  | Some ScPhase => true
  | Some ScRequest => p <=? 2
  | Some ScAll => p <=? 4
  end.

(* drop everything up to and including the first marker m; nothing left when there is none *)
Fixpoint fl_after_marker (m : nat) (l : list fl_rule) : list fl_rule :=
  match l with
  | [] => []
  | r :: t => if opt_nat_eqb (r_mark r) (Some m) then t else fl_after_marker m t
  end.

(* evaluating entry r of phase p: effect on what survives. allow is enforced only when the
   transaction's mode (after this rule's own ctl actions) is On; deny interrupts in On, is only
   recorded in DetectionOnly *)
Definition fl_fire (req : list bool) (p : nat) (r : fl_rule) (g : fl_g) : fl_g :=
  let m := fl_all_match req r in
  let acts := if m then r_acts r else [] in
  let eng := fl_prefix_eng req (r_links r) (g_eng g) in
  let allow' := match eng with
                | MOn => match fl_last_allow acts with Some sc => Some sc | None => g_allow g end
                | _ => g_allow g
                end in
  let intr' := match eng with
               | MOn => if fl_has_deny acts && negb (is_some (g_intr g)) then Some (p, r_id r) else g_intr g
               | _ => g_intr g
               end in
  let dintr' := match eng with
                | MDet => if fl_has_deny acts && negb (is_some (g_dintr g)) then Some (p, r_id r) else g_dintr g
                | _ => g_dintr g
                end in
  mkG allow' intr' dintr' (g_rm g ++ fl_prefix_rm req (r_links r)) eng
      (g_ev g ++ [Ev p (r_id r) (m && negb (r_id r =? 0))]).

(* ... and on the rest of the phase's agenda *)
Definition fl_resume (req : list bool) (p : nat) (r : fl_rule) (g' : fl_g) (rest : list fl_rule) : list fl_rule :=
  let acts := if fl_all_match req r then r_acts r else [] in
  let rest0 := filter (fl_live (g_rm g')) rest in
  let rest1 := match fl_last_after acts with Some m => fl_after_marker m rest0 | None => rest0 end in
  let rest2 := skipn (fl_last_skip acts) rest1 in
  if fl_blocks (g_allow g') p then [] else rest2.

(* the agenda of phase p is consumed from the left; an interruption ends every phase but logging *)
Fixpoint fl_spec_go (fuel : nat) (req : list bool) (p : nat) (agenda : list fl_rule) (g : fl_g) : fl_g :=
  match fuel with
  | O => g
  | S f =>
    match agenda with
    | [] => g
    | r :: rest =>
      if is_some (g_intr g) && negb (p =? 5) then g
      else let g' := fl_fire req p r g in
           fl_spec_go f req p (fl_resume req p r g' rest) g'
    end
  end.

Definition fl_agenda (p : nat) (rm : list nat) (rs : list fl_rule) : list fl_rule :=
  filter (fl_live rm) (filter (fl_in_phase p) rs).

(* one phase: nothing is evaluated while an allow covering this phase is in force; allow:phase expires
   with its phase, allow:request with the request phases *)
Definition fl_spec_phase (req : list bool) (rs : list fl_rule) (g : fl_g) (p : nat) : fl_g :=
  let g1 :=
    if fl_blocks (g_allow g) p then g
    else let ag := fl_agenda p (g_rm g) rs in fl_spec_go (length ag) req p ag g in
  let a' := match g_allow g1 with
            | Some ScPhase => None
            | Some ScRequest => if 2 <=? p then None else Some ScRequest
            | a => a
            end in
  mkG a' (g_intr g1) (g_dintr g1) (g_rm g1) (g_eng g1) (g_ev g1).

(* nothing is evaluated any more once the transaction's engine is Off; an interruption ends phases 1-4 *)
Definition fl_spec_guarded req rs (g : fl_g) (p : nat) : fl_g :=
  if fl_is_off (g_eng g) then g else if is_some (g_intr g) then g else fl_spec_phase req rs g p.

Definition fl_spec_run (eng : fl_mode) (req : list bool) (rs : list fl_rule) : fl_g :=
  let g4 := fold_left (fl_spec_guarded req rs) [1; 2; 3; 4] (fl_ginit eng) in
  if fl_is_off (g_eng g4) then g4 else fl_spec_phase req rs g4 5.

Definition fl_gobs (g : fl_g) : list fl_event * option (nat * nat) * option (nat * nat) :=
  (g_ev g, g_intr g, g_dintr g).

(* ---------------------------------------------------------------------------------- *)
(* vocabulary of the theorems about the coded loop                                     *)
(* ---------------------------------------------------------------------------------- *)

(* the flow/disruptive actions that take effect when the phase loop evaluates r *)
Definition fl_fired_acts (req : list bool) (r : fl_rule) : list fl_act :=
  if fl_all_match req r then r_acts r else [].

(* the rule list without its shortest prefix holding n entries of phase p (markers included, removed
   rules not counted); nothing is left when there are fewer *)
Fixpoint fl_drop_entries (p : nat) (rm : list nat) (n : nat) (l : list fl_rule) : list fl_rule :=
  match l with
  | [] => []
  | x :: t => match n with
              | O => l
              | S k => if fl_in_phase p x && fl_live rm x then fl_drop_entries p rm k t
                       else fl_drop_entries p rm n t
              end
  end.

(* the rule list after its first live marker m; nothing is left when there is none *)
Fixpoint fl_after_entry (p : nat) (rm : list nat) (m : nat) (l : list fl_rule) : list fl_rule :=
  match l with
  | [] => []
  | x :: t => if fl_in_phase p x && fl_live rm x && opt_nat_eqb (r_mark x) (Some m) then t
              else fl_after_entry p rm m t
  end.

Definition fl_not_allow (a : fl_act) : bool := match a with AAllow _ => false | _ => true end.
Definition fl_strip_allow (r : fl_rule) : fl_rule :=
  mkRule (r_id r) (r_phase r) (r_mark r) (r_links r) (filter fl_not_allow (r_acts r)).

Definition fl_strip_link_acts (r : fl_rule) : fl_rule :=
  mkRule (r_id r) (r_phase r) (r_mark r) (map (fun l => mkLink (l_key l) (l_rm l) (l_eng l) []) (r_links r)) (r_acts r).

(* a transaction that carries nothing but per-transaction removals *)
Definition fl_fresh (rm : list nat) (eng : fl_mode) : fl_st := mkSt 0 None None None None rm eng [].

(* state between two phases *)
Definition fl_boundary (s : fl_st) : Prop := s_skip s = 0 /\ s_after s = None /\ s_allow s <> Some ScPhase.

(* no ctl:ruleEngine=On anywhere in the rule set *)
Definition fl_link_no_on (l : fl_link) : bool := match l_eng l with Some MOn => false | _ => true end.
Definition fl_no_switch_on (rs : list fl_rule) : bool :=
  forallb (fun r => forallb fl_link_no_on (r_links r)) rs.

(* ctl:ruleRemoveById=<lo>-<hi> (tx.ruleRemoveByIDRanges; the loop tests lo <= ID_ <= hi) is carried in
   l_rm / s_rm as the ids lo..hi: the same membership test (FlowProofs.range_membership) *)
Definition fl_range (lo hi : nat) : list nat := seq lo (S hi - lo).

(* ---------------------------------------------------------------------------------- *)
(* configure time: SecDefaultAction + block, SecRuleRemoveById                         *)
(* ---------------------------------------------------------------------------------- *)

(* an argument of SecRuleRemoveById: one id (RuleGroup.DeleteByID) or a range (DeleteByRange) *)
Inductive fl_rmv := RmId (i : nat) | RmRange (lo hi : nat).

Definition fl_rm_hit (id : nat) (e : fl_rmv) : bool :=
  match e with
  | RmId i => id =? i
  | RmRange lo hi => (lo <=? id) && (id <=? hi)
  end.

(* an action as written on the starter: a modelled action, pass, or block *)
Inductive fl_sact := SA (a : fl_act) | SPass | SBlock.

(* mergeActions: is it a disruptive action other than block *)
Definition fl_sact_is_da (x : fl_sact) : bool :=
  match x with SA (AAllow _) => true | SA ADeny => true | SPass => true | _ => false end.
(* what the written action contributes at run time (pass and block evaluate to nothing) *)
Definition fl_sact_keep (x : fl_sact) : list fl_act := match x with SA a => [a] | _ => [] end.

(* rule_parser.go applyParsedActions + mergeActions: dflt = the SecDefaultAction of the rule's phase
   (None: none defined, nothing is merged; Some None: its disruptive action is pass; Some (Some a): deny /
   allow). The rule's own actions keep their order, block is dropped, the default disruptive action is
   appended when the rule has no disruptive action of its own or only block *)
Definition fl_resolve_acts (dflt : option (option fl_act)) (src : list fl_sact) : list fl_act :=
  let own := flat_map fl_sact_keep src in
  match dflt with
  | None => own
  | Some da => if existsb fl_sact_is_da src then own
               else own ++ match da with Some a => [a] | None => [] end
  end.

(* parseActions / appendRuleAction: an action list naming several disruptive actions (block included)
   keeps ONE: the last one, with its own parameter, in the slot of the first one *)
Definition fl_sact_is_dis (x : fl_sact) : bool :=
  fl_sact_is_da x || match x with SBlock => true | _ => false end.

Fixpoint fl_last_dis (src : list fl_sact) : option fl_sact :=
  match src with
  | [] => None
  | x :: t => match fl_last_dis t with
              | Some d => Some d
              | None => if fl_sact_is_dis x then Some x else None
              end
  end.

Fixpoint fl_place_dis (d : fl_sact) (src : list fl_sact) : list fl_sact :=
  match src with
  | [] => []
  | x :: t => if fl_sact_is_dis x then d :: filter (fun y => negb (fl_sact_is_dis y)) t
              else x :: fl_place_dis d t
  end.

Definition fl_collapse (src : list fl_sact) : list fl_sact :=
  match fl_last_dis src with Some d => fl_place_dis d src | None => src end.

Inductive fl_directive :=
  | DRule (r : fl_rule) (sacts : list fl_sact)    (* SecRule / SecAction (chain attached) / SecMarker; r_acts r is ignored *)
  | DDefault (p : nat) (da : option fl_act)       (* SecDefaultAction "phase:p,<pass|deny|allow..>" *)
  | DRemove (l : list fl_rmv).                    (* SecRuleRemoveById id .. lo-hi .. *)

Fixpoint fl_find_default (defs : list (nat * option fl_act)) (p : nat) : option (option fl_act) :=
  match defs with
  | [] => if p =? 2 then Some None else None      (* defaultActionsPhase2 = "phase:2,log,auditlog,pass" *)
  | (q, da) :: t => if q =? p then Some da else fl_find_default t p
  end.

Definition fl_set_acts (r : fl_rule) (acts : list fl_act) : fl_rule :=
  mkRule (r_id r) (r_phase r) (r_mark r) (r_links r) acts.

(* RuleGroup.DeleteByID: the FIRST rule with that id only *)
Fixpoint fl_delete_first (id : nat) (rs : list fl_rule) : list fl_rule :=
  match rs with
  | [] => []
  | r :: t => if r_id r =? id then t else r :: fl_delete_first id t
  end.

(* RuleGroup.DeleteByID / DeleteByRange *)
Definition fl_delete (rs : list fl_rule) (e : fl_rmv) : list fl_rule :=
  match e with
  | RmId i => fl_delete_first i rs
  | RmRange lo hi => filter (fun r => negb (fl_rm_hit (r_id r) (RmRange lo hi))) rs
  end.

(* the parser going through the configuration: directives act on what was read before them *)
Fixpoint fl_configure_from (defs : list (nat * option fl_act)) (acc : list fl_rule) (ds : list fl_directive)
  : list fl_rule :=
  match ds with
  | [] => acc
  | DRule r sa :: t =>
      fl_configure_from defs
        (acc ++ [fl_set_acts r (fl_resolve_acts (fl_find_default defs (r_phase r)) (fl_collapse sa))]) t
  | DDefault p da :: t => fl_configure_from (defs ++ [(p, da)]) acc t
  | DRemove l :: t => fl_configure_from defs (fold_left fl_delete l acc) t
  end.

Definition fl_configure (ds : list fl_directive) : list fl_rule := fl_configure_from [] [] ds.
