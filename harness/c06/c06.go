// Package c06 drives the check of C06 (a WAF is safe to share).
//
// Correspondence (model of Conc.v evaluated in Coq on what the real code did):
//   - tx:     a transaction on the F27-shaped rule ARGS|!ARGS:x|!ARGS:y|!ARGS:z with
//     ctl:ruleRemoveTargetById exclusions, run ALONE in process, and sampled from INSIDE the
//     concurrent stress run; rule 100's matched pairs vs the model's run-alone outcome
//   - intern: transformationID called on generated chains from the real table's current content
//   - memo:   scripts of memoize Do / Release with the final owner sets (verif hook)
//   - audit:  the file written by concurrent writers through one serialWriter must be explained
//     by the model (au_explain)
//
// Implementation-side oracles: no slot of a shared rule's Exceptions backing array beyond its length
// is ever written (deterministic witness of F27, no concurrency needed); and the SUPPORTING SEARCH:
// a `go build -race` stress program (harness/c06/stress) run as subprocesses - data race reports,
// panics, deadlock (watchdog), cross-talk, torn audit records, intern/memoize invariants.
package c06

import (
	"bytes"
	"context"
	"crypto/sha1"
	"encoding/hex"
	"encoding/json"
	"errors"
	"fmt"
	"math/rand"
	"os"
	"os/exec"
	"path/filepath"
	"regexp"
	"sort"
	"strconv"
	"strings"
	"sync"
	"time"

	"github.com/corazawaf/coraza/v3/internal/corazawaf"
	"github.com/corazawaf/coraza/v3/internal/memoize"
	"github.com/corazawaf/coraza/v3/verifharness/c06/c06lib"
	"github.com/corazawaf/coraza/v3/verifharness/vh"
)

func init() { vh.Register("C06", Run) }

type memoOp struct {
	Release bool `json:"release,omitempty"`
	Owner   int  `json:"owner"`
	Key     int  `json:"key"`
}

type caseJSON struct {
	Kind string `json:"kind"` // tx | intern | memo | audit | stress
	// tx
	Tx       *c06lib.TxCase `json:"tx,omitempty"`
	Mode     string         `json:"mode,omitempty"` // alone | concurrent
	Observed [][2]string    `json:"observed,omitempty"`
	SetStart []int          `json:"set_start,omitempty"`
	SetAfter []int          `json:"set_after,omitempty"`
	// intern
	Chains [][]string `json:"chains,omitempty"`
	// memo
	Ops     []memoOp `json:"ops,omitempty"`
	ErrKeys []int    `json:"err_keys,omitempty"`
	// audit
	Writers [][]string `json:"writers,omitempty"` // hex
	Log     string     `json:"log,omitempty"`     // hex
	// stress
	Seed  int64   `json:"seed,omitempty"`
	Dur   float64 `json:"dur,omitempty"`
	Procs int     `json:"procs,omitempty"`
	Race  bool    `json:"race,omitempty"`
	// cw: script of Writes through the concurrent audit writer; pool: names of the WAFs of a pair
	Cw   []cwWrite `json:"cw,omitempty"`
	Pool []string  `json:"pool,omitempty"`

	FindingKey string `json:"finding_key,omitempty"`
}

type runner struct {
	cfg    vh.Config
	res    *vh.Result
	dist   vh.Counter
	nontr  map[string]bool
	waf    *corazawaf.WAF
	memoN  int
	shards map[string]*vh.Shard
	order  []string
	syms   map[string]map[string]string // per shard: byte string -> name of its prelude definition
	txCount int
	itPrev []string                     // intern table as printed for the previous case (prelude itN)
	itName string
}

func (r *runner) shard(name string) *vh.Shard {
	s, ok := r.shards[name]
	if !ok {
		s = &vh.Shard{Name: name, Imports: "From Verif Require Import Base Conc CorrC06.", CaseType: "CorrC06.case", MismatchF: "CorrC06.mismatches",
			Prelude: "Open Scope nat_scope."}
		r.shards[name] = s
		r.order = append(r.order, name)
	}
	return s
}

// sym returns the name of a prelude definition holding the byte string (printed once per shard:
// elaborating a hex literal costs far more than an identifier).
func (r *runner) sym(shard, str string) string {
	if r.syms == nil {
		r.syms = map[string]map[string]string{}
	}
	m := r.syms[shard]
	if m == nil {
		m = map[string]string{}
		r.syms[shard] = m
	}
	if n, ok := m[str]; ok {
		return n
	}
	n := fmt.Sprintf("b%s_%d", strings.ToLower(strings.ReplaceAll(shard, "C06_", "")), len(m))
	m[str] = n
	sh := r.shard(shard)
	sh.Prelude += fmt.Sprintf("\nDefinition %s : bytes := %s.", n, vh.HxS(str))
	return n
}

func (r *runner) symList(shard string, l []string) string {
	items := make([]string, len(l))
	for i, x := range l {
		items[i] = r.sym(shard, x)
	}
	return vh.List(items)
}

func (r *runner) kvSyms(shard string, l [][2]string) string {
	items := make([]string, len(l))
	for i, p := range l {
		items[i] = "(" + r.sym(shard, p[0]) + ", " + r.sym(shard, p[1]) + ")"
	}
	return vh.List(items)
}

func (r *runner) add(shard string, term string, c caseJSON) {
	s := r.shard(shard)
	s.Terms = append(s.Terms, term)
	s.Cases = append(s.Cases, c)
	r.res.Evaluations++
	if len(r.res.Samples) < 8 && len(s.Terms)%17 == 1 {
		r.res.Samples = append(r.res.Samples, c)
	}
}

func natList(l []int) string {
	items := make([]string, len(l))
	for i, n := range l {
		items[i] = strconv.Itoa(n)
	}
	return vh.List(items)
}

// ---- tx ----

func (r *runner) txTerm(shard string, c c06lib.TxCase, observed [][2]string) string {
	return fmt.Sprintf("(CTx %s %s %s %s %s)", r.symList(shard, c06lib.StaticEx), r.sym(shard, c06lib.Needle), r.kvSyms(shard, c.Args()), r.symList(shard, c.Ecol()), r.kvSyms(shard, observed))
}

// setTerm: the settings a transaction had right after NewTransaction and after its ctl rules, for the
// settings machine of Conc.v (st_alone): every setting must be the WAF-wide one at the start whatever
// transaction used the pooled object before.
// symNat: like sym, for a vector of numbers.
func (r *runner) symNat(shard string, l []int) string {
	key := "nat:" + natList(l)
	if r.syms == nil {
		r.syms = map[string]map[string]string{}
	}
	m := r.syms[shard]
	if m == nil {
		m = map[string]string{}
		r.syms[shard] = m
	}
	if n, ok := m[key]; ok {
		return n
	}
	n := fmt.Sprintf("v%s_%d", strings.ToLower(strings.ReplaceAll(shard, "C06_", "")), len(m))
	m[key] = n
	sh := r.shard(shard)
	sh.Prelude += fmt.Sprintf("\nDefinition %s : list nat := %s.", n, natList(l))
	return n
}

func (r *runner) setTerm(shard string, c c06lib.TxCase, waf, start, after []int) string {
	var acts []string
	if len(c.Ecol()) > 0 {
		acts = append(acts, "SSet 11 2") // ruleRemoveTargetByID gets the keys 100 and 300
	}
	for _, a := range c.CtlActs() {
		if a.Inc {
			acts = append(acts, fmt.Sprintf("SInc %d", a.Idx))
		} else {
			acts = append(acts, fmt.Sprintf("SSet %d %d", a.Idx, a.Val))
		}
	}
	return fmt.Sprintf("(CSet %s %s %s %s)", r.symNat(shard, waf), vh.List(acts), r.symNat(shard, start), r.symNat(shard, after))
}

// addTxTerms emits the Coq cases of one observed transaction: CSet always, CTx when the transaction
// carries no ctl marker (rule 100's outcome is then the one the exclusion-merge machine models).
func (r *runner) addTxTerms(shard string, c c06lib.TxCase, cj caseJSON, m [][2]string, waf, start, after []int) {
	if c.Plain() {
		r.add(shard, r.txTerm(shard, c, m), cj)
	}
	if len(start) > 0 && len(waf) == len(start) {
		cs := cj
		cs.Kind = "tx"
		cs.SetStart, cs.SetAfter = start, after
		r.add(shard, r.setTerm(shard, c, waf, start, after), cs)
	}
}

func (r *runner) runTxAlone(c c06lib.TxCase, shard string) {
	o, err := c06lib.RunTx(r.waf, "", c)
	cj := caseJSON{Kind: "tx", Tx: &c, Mode: "alone"}
	if err != nil {
		r.res.OracleFailures = append(r.res.OracleFailures, vh.OracleFailure{Key: "c06-tx-error", What: err.Error(), Case: cj})
		return
	}
	m := o.Matched[100]
	if m == nil {
		m = [][2]string{}
	}
	cj.Observed = m
	r.addTxTerms(shard, c, cj, m, o.WafSet, o.SetStart, o.SetAfter)
	r.res.OracleEvaluations++
	// the same transaction on a WAF nobody else has used: truly alone
	if fw, err := c06lib.NewWAF(c06lib.Directives("", 0)); err == nil {
		if oa, err := c06lib.RunTx(fw, "", c); err == nil && oa.String() != o.String() {
			r.res.OracleFailures = append(r.res.OracleFailures, vh.OracleFailure{Key: "c06-outcome-differs-from-alone",
				What: fmt.Sprintf("a transaction on the long-lived shared WAF (after %d earlier transactions) differs from the same transaction alone on a fresh WAF:\n got   %s\n alone %s", r.txCount, o.String(), oa.String()), Case: cj})
		}
		_ = fw.Close()
		r.res.OracleEvaluations++
	}
	r.txCount++
	if len(c.Ctl) > 0 {
		r.dist.Inc("tx: fires a per-transaction ctl")
	} else if c.Pad > 0 || c.Resp != "" || c.Raw != "" {
		r.dist.Inc("tx: no ctl, outcome sensitive to a per-transaction setting")
	}
	if s := c06lib.SpareSlotsWritten(r.waf); s != "" {
		r.res.OracleFailures = append(r.res.OracleFailures, vh.OracleFailure{Key: "c06-shared-rule-written",
			What: "an evaluation step wrote into the shared rule (in-place append into the Exceptions backing array, F27): " + s, Case: cj})
		// rebuild so that the next case starts from a clean rule
		if w, err := c06lib.NewWAF(c06lib.Directives("", 0)); err == nil {
			r.waf = w
		}
	}
	// input distribution
	needle := 0
	for _, a := range c.Args() {
		if strings.Contains(a[1], c06lib.Needle) {
			needle++
		}
	}
	ecol := c.Ecol()
	r.dist.Inc(fmt.Sprintf("tx: exclusions=%d", len(ecol)))
	if needle > 0 && len(ecol) > 0 {
		r.dist.Inc("tx: rule fires and per-transaction exclusions present")
		r.nontr[fmt.Sprint("tx:", c)] = true
	}
	if len(ecol) >= 2 {
		r.dist.Inc("tx: more exclusions than the spare capacity of the shared slice")
	}
}

func sysTxCases() []c06lib.TxCase {
	var out []c06lib.TxCase
	args := [][2]string{{"a", "evil1"}, {"b", "evil2"}, {"x", "evil3"}, {"A", "evil4"}, {"q", "fine"}}
	exsets := [][]string{{}, {"a"}, {"b"}, {"a", "b"}, {"b", "a"}, {"a", "a"}, {"x"}, {"a", "b", "c", "d", "e"}, {"q"}, {"e", "d", "c"}}
	for _, ex := range exsets {
		out = append(out, c06lib.TxCase{Get: args, Post: [][2]string{}, Ex: ex})
		out = append(out, c06lib.TxCase{Get: args[:2], Post: args[2:], Ex: ex})
	}
	out = append(out, c06lib.TxCase{Get: [][2]string{}, Post: [][2]string{}, Ex: []string{"a"}})
	// every member of the ctl family, each followed by a transaction WITHOUT marker whose outcome is
	// sensitive to the setting (on the sequential pass the second one reuses the first one's object)
	sens := c06lib.TxCase{Get: args[:2], Post: args[2:4], Ex: []string{}, Pad: 200, Resp: strings.Repeat("a", 50) + " respevil tail"}
	raw := c06lib.TxCase{Get: args[:2], Post: [][2]string{}, Ex: []string{}, Raw: "a raw body with rawevil inside", Resp: strings.Repeat("a", 50) + " respevil"}
	for _, sp := range c06lib.Ctls {
		t := sens
		t.Ctl = []string{sp.Name}
		out = append(out, t, sens, raw)
	}
	return out
}

// ---- intern ----

var internNames = []string{"lowercase", "trim", "c06a", "c06b", "c06c", "c06a+c06b", "0+c06a", "1+c06b", "+", "c06-" /* + fresh suffix */}

func splitKey(k string) (int, string, bool) {
	i := strings.IndexByte(k, '+')
	if i < 0 {
		return 0, "", false
	}
	n, err := strconv.Atoi(k[:i])
	if err != nil {
		return 0, "", false
	}
	return n, k[i+1:], true
}

func (r *runner) runIntern(rng *rand.Rand, chains [][]string, shard string) {
	tbl := corazawaf.VerifC06InternTable()
	items := make([]string, 0, len(tbl))
	for i, k := range tbl {
		if i == 0 {
			continue // id 0: the empty chain
		}
		cur, name, ok := splitKey(k)
		if !ok {
			r.res.OracleFailures = append(r.res.OracleFailures, vh.OracleFailure{Key: "c06-intern-key-shape", What: fmt.Sprintf("intern table key %q is not <id>+<name>", k), Case: caseJSON{Kind: "intern", Chains: chains}})
			return
		}
		items = append(items, fmt.Sprintf("(%d, %s)", cur, r.sym(shard, name)))
	}
	// the real table's content is printed as a prelude definition; when the previous snapshot is a
	// prefix of this one (the table only grows) only the new entries are written out
	sh := r.shard(shard)
	isPrefix := r.itName != "" && len(r.itPrev) <= len(items)
	if isPrefix {
		for i := range r.itPrev {
			if r.itPrev[i] != items[i] {
				isPrefix = false
				break
			}
		}
	}
	name := fmt.Sprintf("it%d", len(sh.Terms))
	switch {
	case isPrefix && len(items) == len(r.itPrev):
		name = r.itName
	case isPrefix:
		sh.Prelude += fmt.Sprintf("\nDefinition %s : it_table := (%s ++ %s)%%list.", name, r.itName, vh.List(items[len(r.itPrev):]))
	default:
		sh.Prelude += fmt.Sprintf("\nDefinition %s : it_table := %s.", name, vh.List(items))
	}
	r.itName, r.itPrev = name, items
	var ids []string
	for _, ch := range chains {
		cur := 0
		var l []int
		for _, n := range ch {
			cur = corazawaf.VerifC06TransformationID(cur, n)
			l = append(l, cur)
		}
		ids = append(ids, natList(l))
	}
	chs := make([]string, len(chains))
	for i, ch := range chains {
		chs[i] = r.symList(shard, ch)
	}
	r.add(shard, fmt.Sprintf("(CIntern %s %s %s)", name, vh.List(chs), vh.List(ids)), caseJSON{Kind: "intern", Chains: chains})
	r.dist.Inc("intern: chains per case=" + strconv.Itoa(len(chains)))
	r.nontr["intern:"+fmt.Sprint(chains)] = true
}

func genChains(rng *rand.Rand, fresh *int) [][]string {
	n := 1 + rng.Intn(4)
	var out [][]string
	for i := 0; i < n; i++ {
		l := 1 + rng.Intn(4)
		var ch []string
		for j := 0; j < l; j++ {
			nm := internNames[rng.Intn(len(internNames))]
			if nm == "c06-" {
				*fresh++
				nm = fmt.Sprintf("c06-%d-%d", rng.Int63()%1000003, *fresh)
			}
			ch = append(ch, nm)
		}
		out = append(out, ch)
	}
	return out
}

// ---- memo ----

func (r *runner) runMemo(ops []memoOp, errKeys []int, shard string) {
	r.memoN++
	prefix := fmt.Sprintf("c06/%d/%d/%d/", os.Getpid(), r.cfg.Seed, r.memoN)
	base := uint64(1)<<40 + uint64(r.memoN)*64
	isErr := map[int]bool{}
	for _, k := range errKeys {
		isErr[k] = true
	}
	cj := caseJSON{Kind: "memo", Ops: ops, ErrKeys: errKeys}
	var opTerms, resTerms []string
	for _, op := range ops {
		if op.Release {
			memoize.Release(base + uint64(op.Owner))
			opTerms = append(opTerms, fmt.Sprintf("SRelease %s", strconv.Itoa(op.Owner)))
			continue
		}
		opTerms = append(opTerms, fmt.Sprintf("SDo %s %s", strconv.Itoa(op.Owner), strconv.Itoa(op.Key)))
		computed := false
		k := op.Key
		v, err := memoize.NewMemoizer(base+uint64(op.Owner)).Do(prefix+strconv.Itoa(k), func() (any, error) {
			computed = true
			if isErr[k] {
				return nil, errors.New("c06 fn error")
			}
			return k, nil
		})
		switch {
		case err != nil:
			resTerms = append(resTerms, fmt.Sprintf("(%s, None, %s)", strconv.Itoa(k), vh.Bool(computed)))
		default:
			vi, ok := v.(int)
			if !ok {
				vi = 999999
			}
			resTerms = append(resTerms, fmt.Sprintf("(%s, Some %s, %s)", strconv.Itoa(k), strconv.Itoa(vi), vh.Bool(computed)))
		}
	}
	var snap []string
	for _, e := range memoize.VerifC06Snapshot(prefix) {
		k, _ := strconv.Atoi(strings.TrimPrefix(e.Key, prefix))
		r.res.OracleEvaluations++
		if e.Deleted || len(e.Owners) == 0 {
			r.res.OracleFailures = append(r.res.OracleFailures, vh.OracleFailure{Key: "c06-memo-dead-entry-in-cache",
				What: fmt.Sprintf("entry %q reachable from the cache: deleted=%v owners=%v", e.Key, e.Deleted, e.Owners), Case: cj})
		}
		ow := make([]int, len(e.Owners))
		for i, o := range e.Owners {
			ow[i] = int(o - base)
		}
		snap = append(snap, fmt.Sprintf("(%s, %s)", strconv.Itoa(k), natList(ow)))
	}
	// leave nothing behind in the process-wide cache
	for o := 0; o < 8; o++ {
		memoize.Release(base + uint64(o))
	}
	r.add(shard, fmt.Sprintf("(CMemo %s %s %s %s)", natList(errKeys), vh.List(opTerms), vh.List(resTerms), vh.List(snap)), cj)
	rel := 0
	for _, op := range ops {
		if op.Release {
			rel++
		}
	}
	r.dist.Inc(fmt.Sprintf("memo: releases in script=%d", min(rel, 4)))
	if rel > 0 && len(ops) > rel+1 {
		r.nontr["memo:"+fmt.Sprint(ops, errKeys)] = true
	}
}

func genMemo(rng *rand.Rand) ([]memoOp, []int) {
	n := 3 + rng.Intn(12)
	var ops []memoOp
	for i := 0; i < n; i++ {
		if rng.Intn(4) == 0 {
			ops = append(ops, memoOp{Release: true, Owner: 1 + rng.Intn(4)})
		} else {
			ops = append(ops, memoOp{Owner: 1 + rng.Intn(4), Key: rng.Intn(4)})
		}
	}
	var errKeys []int
	if rng.Intn(3) == 0 {
		errKeys = []int{rng.Intn(4)}
	}
	if errKeys == nil {
		errKeys = []int{}
	}
	return ops, errKeys
}

// ---- the race-detector stress subprocesses ----

type stressOut struct {
	Seed     int64 `json:"seed"`
	Procs    int   `json:"procs"`
	Failures []struct {
		Kind string `json:"kind"`
		What string `json:"what"`
		Case any    `json:"case"`
	} `json:"failures"`
	Samples []struct {
		Tx       c06lib.TxCase `json:"tx"`
		Observed [][2]string   `json:"observed"`
		SetStart []int         `json:"set_start"`
		SetAfter []int         `json:"set_after"`
		WafSet   []int         `json:"waf_set"`
	} `json:"samples"`
	Audit *struct {
		Writers [][]string `json:"writers"`
		Log     string     `json:"log"`
	} `json:"audit"`
	Stats     map[string]int `json:"stats"`
	SpareSlot bool           `json:"spare_slot"`
	Completed bool           `json:"completed"`
}

func verifDir() string {
	if d := os.Getenv("VERIF_DIR"); d != "" {
		return d
	}
	return "/verif"
}

func repoDir() string {
	if d := os.Getenv("VERIF_REPO"); d != "" {
		return d
	}
	return "/repo"
}

// buildStress builds harness/c06/stress against the repository under check, with the race detector
// when the toolchain can (cgo + C compiler); the same -modfile isolation as bin/check's harness_build.
func buildStress() (bin string, race bool, note string, err error) {
	vd, repo := verifDir(), repoDir()
	harness := filepath.Join(vd, "harness")
	moddir := filepath.Join(vd, "work", "mod")
	bindir := filepath.Join(vd, "work", "bin")
	_ = os.MkdirAll(moddir, 0o755)
	_ = os.MkdirAll(bindir, 0o755)
	gomod, err := os.ReadFile(filepath.Join(harness, "go.mod"))
	if err != nil {
		return "", false, "", err
	}
	re := regexp.MustCompile(`replace github.com/corazawaf/coraza/v3 => \S+`)
	gomod = re.ReplaceAll(gomod, []byte("replace github.com/corazawaf/coraza/v3 => "+repo))
	sum := sha1.Sum([]byte(repo + "c06-stress"))
	tag := hex.EncodeToString(sum[:])[:10]
	modfile := filepath.Join(moddir, "c06s-"+tag+".mod")
	if err := os.WriteFile(modfile, gomod, 0o644); err != nil {
		return "", false, "", err
	}
	if s, err := os.ReadFile(filepath.Join(repo, "go.sum")); err == nil {
		_ = os.WriteFile(filepath.Join(moddir, "c06s-"+tag+".sum"), s, 0o644)
	}
	bin = filepath.Join(bindir, "c06-stress-"+tag)
	try := func(withRace bool) (string, error) {
		args := []string{"build"}
		if withRace {
			args = append(args, "-race")
		}
		args = append(args, "-modfile="+modfile, "-tags", "verif", "-o", bin, "./c06/stress")
		ctx, cancel := context.WithTimeout(context.Background(), 15*time.Minute)
		defer cancel()
		cmd := exec.CommandContext(ctx, "go", args...)
		cmd.Dir = harness
		cmd.Env = append(os.Environ(), "CGO_ENABLED=1")
		out, err := cmd.CombinedOutput()
		return string(out), err
	}
	out, err := try(true)
	if err == nil {
		return bin, true, "", nil
	}
	raceErr := out
	// is it the race detector that cannot be built, or the program itself?
	out2, err2 := try(false)
	if err2 != nil {
		return "", false, "", fmt.Errorf("stress program does not build against %s: %s", repo, tail(out2, 1500))
	}
	return bin, false, "the race detector build failed (" + tail(raceErr, 300) + "); the stress ran WITHOUT -race", nil
}

func tail(s string, n int) string {
	if len(s) > n {
		return s[len(s)-n:]
	}
	return s
}

type stressSpec struct {
	Seed  int64
	Dur   float64
	Procs int
	Extra []c06lib.TxCase // inputs placed in front of the generated ones (corpus witnesses, replay)
	Only  bool            // use only Extra
}

func (r *runner) runStress(bin string, race bool, sp stressSpec, shard string) {
	tmp, err := os.MkdirTemp("", "c06s")
	if err != nil {
		r.res.Notes = append(r.res.Notes, "stress: "+err.Error())
		return
	}
	defer os.RemoveAll(tmp)
	outFile := filepath.Join(tmp, "out.json")
	args := []string{"-seed", strconv.FormatInt(sp.Seed, 10), "-dur", strconv.FormatFloat(sp.Dur, 'f', 1, 64), "-out", outFile, "-tmp", tmp}
	if len(sp.Extra) > 0 {
		cf := filepath.Join(tmp, "cases.json")
		j, _ := json.Marshal(sp.Extra)
		_ = os.WriteFile(cf, j, 0o644)
		args = append(args, "-case", cf)
		if sp.Only {
			args = append(args, "-only")
		}
	}
	ctx, cancel := context.WithTimeout(context.Background(), time.Duration(sp.Dur*float64(time.Second))+4*time.Minute)
	defer cancel()
	cmd := exec.CommandContext(ctx, bin, args...)
	cmd.Env = append(os.Environ(), "GOMAXPROCS="+strconv.Itoa(sp.Procs), "GORACE=halt_on_error=0 exitcode=66 history_size=3")
	var stderr bytes.Buffer
	cmd.Stderr = &stderr
	cmd.Stdout = &stderr
	runErr := cmd.Run()
	cj := caseJSON{Kind: "stress", Seed: sp.Seed, Dur: sp.Dur, Procs: sp.Procs, Race: race}
	if len(sp.Extra) > 0 && sp.Only {
		cj.Tx = &sp.Extra[0]
	}
	var mu sync.Mutex
	failf := func(key, what string) {
		mu.Lock()
		r.res.OracleFailures = append(r.res.OracleFailures, vh.OracleFailure{Key: key, What: what, Case: cj})
		mu.Unlock()
	}
	errTxt := stderr.String()
	if n := strings.Count(errTxt, "WARNING: DATA RACE"); n > 0 {
		i := strings.Index(errTxt, "WARNING: DATA RACE")
		rep := errTxt[i:]
		if j := strings.Index(rep[10:], "=================="); j > 0 {
			rep = rep[:j+10]
		}
		failf("c06-data-race", fmt.Sprintf("%d data race report(s) from the race detector (seed %d, GOMAXPROCS %d); first report:\n%s", n, sp.Seed, sp.Procs, tail2(rep, 3500)))
	}
	if ctx.Err() != nil {
		failf("c06-deadlock", fmt.Sprintf("the stress subprocess did not finish (seed %d, GOMAXPROCS %d): %s", sp.Seed, sp.Procs, tail(errTxt, 1500)))
		return
	}
	raw, rerr := os.ReadFile(outFile)
	var so stressOut
	if rerr == nil {
		rerr = json.Unmarshal(raw, &so)
	}
	if rerr != nil || !so.Completed {
		ee := ""
		if runErr != nil {
			ee = runErr.Error()
		}
		key := "c06-stress-crash"
		if strings.Contains(errTxt, "all goroutines are asleep") {
			key = "c06-deadlock"
		}
		failf(key, fmt.Sprintf("the stress subprocess crashed (%s; seed %d, GOMAXPROCS %d): %s", ee, sp.Seed, sp.Procs, tail(errTxt, 3000)))
	}
	for _, f := range so.Failures {
		c2 := cj
		if m, ok := f.Case.(map[string]any); ok {
			if j, err := json.Marshal(m); err == nil {
				var tc c06lib.TxCase
				if json.Unmarshal(j, &tc) == nil {
					c2.Tx = &tc
				}
			}
		}
		mu.Lock()
		r.res.OracleFailures = append(r.res.OracleFailures, vh.OracleFailure{Key: "c06-" + f.Kind, What: f.What, Case: c2})
		mu.Unlock()
	}
	mu.Lock()
	defer mu.Unlock()
	for k, v := range so.Stats {
		r.dist["stress: "+k] += v
	}
	r.res.OracleEvaluations += so.Stats["transactions"] + so.Stats["wafs_built_and_closed"] + so.Stats["chains_interned"] + so.Stats["audit_lines"] + so.Stats["memo_entries"]
	if rerr == nil && !so.SpareSlot {
		r.res.Notes = append(r.res.Notes, "rule 100's exception slice has no spare capacity in this build: the F27 shape is not exercised")
	}
	for _, s := range so.Samples {
		tx := s.Tx
		obs := s.Observed
		if obs == nil {
			obs = [][2]string{}
		}
		r.addTxTerms(shard, tx, caseJSON{Kind: "tx", Tx: &tx, Mode: "concurrent", Observed: obs, Seed: sp.Seed, Procs: sp.Procs}, obs, s.WafSet, s.SetStart, s.SetAfter)
		r.dist.Inc("tx sampled inside the concurrent run")
	}
	if so.Audit != nil {
		r.addAudit(so.Audit.Writers, so.Audit.Log, shard)
	}
}

func tail2(s string, n int) string {
	if len(s) > n {
		return s[:n] + "\n..."
	}
	return s
}

func (r *runner) addAudit(writersHex [][]string, logHex string, shard string) {
	ws := make([]string, len(writersHex))
	for i, recs := range writersHex {
		items := make([]string, len(recs))
		for j, h := range recs {
			items[j] = `(hx "` + h + `"%string)`
		}
		ws[i] = vh.List(items)
	}
	r.add(shard, fmt.Sprintf(`(CAudit %s (hx "%s"%%string))`, vh.List(ws), logHex), caseJSON{Kind: "audit", Writers: writersHex, Log: logHex})
	r.dist.Inc("audit: concurrent writers on one serial log=" + strconv.Itoa(len(writersHex)))
	r.nontr["audit:"+logHex[:min(len(logHex), 64)]] = true
}

// ---- driver ----

func Run(cfg vh.Config) (*vh.Result, error) {
	res := &vh.Result{InputDistribution: map[string]int{}}
	r := &runner{cfg: cfg, res: res, dist: vh.Counter(res.InputDistribution), nontr: map[string]bool{}, shards: map[string]*vh.Shard{}}
	res.Rule = "non-trivial = a transaction whose rule fires while per-transaction exclusions are merged into the shared rule's exception list; an intern case with chains; a memoize script with a Release between Do calls; an audit log written by several goroutines"
	waf, err := c06lib.NewWAF(c06lib.Directives("", 0))
	if err != nil {
		return nil, fmt.Errorf("rule set does not load: %w", err)
	}
	r.waf = waf
	if !c06lib.HasSpareSlot(waf, 100) {
		res.Notes = append(res.Notes, "rule 100's exception slice has no spare capacity: the F27 shape is not exercised")
	}

	var extra []c06lib.TxCase
	flush := func() (*vh.Result, error) {
		sort.Strings(r.order)
		for _, name := range r.order {
			si, err := vh.WriteShard(cfg.OutDir, *r.shards[name])
			if err != nil {
				return nil, err
			}
			res.Shards = append(res.Shards, si)
		}
		res.DistinctNontrivial = len(r.nontr)
		return res, nil
	}

	if cfg.Replay != "" {
		raw, err := os.ReadFile(cfg.Replay)
		if err != nil {
			return nil, err
		}
		var doc struct {
			Case *caseJSON `json:"case"`
		}
		var cj caseJSON
		if json.Unmarshal(raw, &doc) == nil && doc.Case != nil {
			cj = *doc.Case
		} else if err := json.Unmarshal(raw, &cj); err != nil {
			return nil, err
		}
		r.replay(cj)
		return flush()
	}

	// 1. corpus (witnesses of repaired defects) first
	docs, names := vh.LoadCorpus(cfg.Corpus)
	for i, d := range docs {
		var cj caseJSON
		if err := json.Unmarshal(d, &cj); err != nil {
			return nil, fmt.Errorf("corpus %s: %w", names[i], err)
		}
		if cj.Kind == "tx" && cj.Tx != nil {
			r.runTxAlone(*cj.Tx, "C06_0")
			extra = append(extra, *cj.Tx)
			r.dist.Inc("corpus witness")
		} else {
			r.replayInProcess(cj, "C06_0")
		}
	}

	// 1b. fault injection on the concurrent audit writer (process-wide file size limit: before any
	// subprocess is started) and the deterministic WAF-pool pass
	crng := vh.Rng(cfg.Seed, "c06-cw")
	r.runCwWAF()
	for i := 0; i < cfg.Pick(6, 40); i++ {
		r.runCwScript(genCwScript(crng, i), "C06_0", i)
	}
	r.runPool()

	// 2. the stress subprocesses start now and run while the sequential correspondence is produced
	var wg sync.WaitGroup
	bin, race, note, berr := buildStress()
	if note != "" {
		res.Notes = append(res.Notes, note)
	}
	if berr != nil {
		res.OracleFailures = append(res.OracleFailures, vh.OracleFailure{Key: "c06-stress-build", What: berr.Error(), Case: caseJSON{Kind: "stress", Seed: cfg.Seed}})
	} else {
		res.Notes = append(res.Notes, fmt.Sprintf("SUPPORTING VALIDATION (search, not proof): stress subprocesses built with -race=%v", race))
		var specs []stressSpec
		if cfg.Thorough() {
			for i, p := range []int{2, 4, 16} {
				specs = append(specs, stressSpec{Seed: cfg.Seed*31 + int64(i), Dur: 200, Procs: p, Extra: extra})
			}
		} else {
			specs = []stressSpec{{Seed: cfg.Seed*31 + 0, Dur: 9, Procs: 4, Extra: extra}, {Seed: cfg.Seed*31 + 1, Dur: 9, Procs: 16, Extra: extra}}
		}
		stressResults = make([]*runner, len(specs))
		for i, sp := range specs {
			wg.Add(1)
			go func(i int, sp stressSpec) {
				defer wg.Done()
				r2 := &runner{cfg: cfg, res: &vh.Result{InputDistribution: map[string]int{}}, nontr: map[string]bool{}, shards: map[string]*vh.Shard{}}
				r2.dist = vh.Counter(r2.res.InputDistribution)
				r2.runStress(bin, race, sp, fmt.Sprintf("C06_s%d", i))
				stressResults[i] = r2
			}(i, sp)
		}
	}

	// 3. sequential correspondence, in process
	rng := vh.Rng(cfg.Seed, "c06")
	for _, c := range sysTxCases() {
		r.runTxAlone(c, "C06_0")
	}
	for i := 0; i < cfg.Pick(220, 3000); i++ {
		r.runTxAlone(c06lib.GenTx(rng), "C06_0")
	}
	fresh := 0
	for i := 0; i < cfg.Pick(60, 600); i++ {
		r.runIntern(rng, genChains(rng, &fresh), "C06_1")
	}
	for i := 0; i < cfg.Pick(200, 3000); i++ {
		ops, ek := genMemo(rng)
		if cfg.Thorough() {
			r.runMemo(ops, ek, "C06_2")
		} else {
			r.runMemo(ops, ek, "C06_1")
		}
	}

	wg.Wait()
	for _, r2 := range stressResults {
		if r2 == nil {
			continue
		}
		res.OracleFailures = append(res.OracleFailures, r2.res.OracleFailures...)
		res.OracleEvaluations += r2.res.OracleEvaluations
		res.Evaluations += r2.res.Evaluations
		res.Notes = append(res.Notes, r2.res.Notes...)
		for k, v := range r2.res.InputDistribution {
			r.dist[k] += v
		}
		for k := range r2.nontr {
			r.nontr[k] = true
		}
		for _, n := range r2.order {
			dst := r.shard("C06_3")
			src := r2.shards[n]
			dst.Prelude += strings.TrimPrefix(src.Prelude, "Open Scope nat_scope.")
			dst.Terms = append(dst.Terms, src.Terms...)
			dst.Cases = append(dst.Cases, src.Cases...)
		}
	}
	return flush()
}

var stressResults []*runner

func genCwScript(rng *rand.Rand, i int) []cwWrite {
	n := 2 + rng.Intn(5)
	var out []cwWrite
	for k := 0; k < n; k++ {
		out = append(out, cwWrite{Fail: rng.Intn(3) == 0})
	}
	if i < 2 { // always: ok, FAIL, ok, ok
		out = []cwWrite{{Fail: false}, {Fail: true}, {Fail: false}, {Fail: false}}
	}
	return out
}

func (r *runner) replayInProcess(cj caseJSON, shard string) {
	switch cj.Kind {
	case "cw":
		r.runCwScript(cj.Cw, shard, 0)
	case "cw-waf":
		r.runCwWAF()
	case "pool":
		r.runPool()
	case "tx":
		if cj.Tx != nil {
			r.runTxAlone(*cj.Tx, shard)
		}
	case "intern":
		r.runIntern(nil, cj.Chains, shard)
	case "memo":
		ek := cj.ErrKeys
		if ek == nil {
			ek = []int{}
		}
		r.runMemo(cj.Ops, ek, shard)
	case "audit":
		r.addAudit(cj.Writers, cj.Log, shard)
	}
}

// replay re-runs one stored case: the in-process part, and for tx / stress cases a race-detector
// stress run (the stored transaction together with variants of it that exclude other names, so
// that two goroutines merge DIFFERENT exclusions into the same rule at the same time).
func (r *runner) replay(cj caseJSON) {
	r.replayInProcess(cj, "C06_0")
	if cj.Kind != "tx" && cj.Kind != "stress" {
		return
	}
	bin, race, note, err := buildStress()
	if note != "" {
		r.res.Notes = append(r.res.Notes, note)
	}
	if err != nil {
		r.res.OracleFailures = append(r.res.OracleFailures, vh.OracleFailure{Key: "c06-stress-build", What: err.Error(), Case: cj})
		return
	}
	sp := stressSpec{Seed: cj.Seed, Dur: 12, Procs: cj.Procs}
	if sp.Procs == 0 {
		sp.Procs = 8
	}
	if cj.Dur > 0 && cj.Dur < 60 {
		sp.Dur = cj.Dur
	}
	if cj.Tx != nil {
		sp.Extra = []c06lib.TxCase{*cj.Tx}
		for _, n := range c06lib.ExNames {
			v := *cj.Tx
			v.Ex = []string{n}
			sp.Extra = append(sp.Extra, v)
		}
		sp.Only = cj.Kind == "tx"
	}
	r.runStress(bin, race, sp, "C06_3")
}
