(* Setvar.v — executable model for C09 (non-disruptive actions run once per match; counters
   add up exactly).

   Modelled line by line (default build: multiphaseEvaluation = false, case-insensitive ARGS maps):
     strconv.Atoi / strconv.Itoa (sign, digits only, int64 saturation on range errors)
     internal/collections/map.go      Get / Set / SetIndex(.,0,.) / Remove / Add on TX, RULE, MATCHED_VARS
     experimental/plugins/macro       compile (token grammar, errors) / Expand / expandToken
     internal/actions/setvar.go       Init and Evaluate / evaluateTxCollection
     internal/corazawaf/rule.go       doEvaluate (RULE updates, forced match of SecAction, per-target and
                                      per-value loop, multiMatch, matchVariable, chain walk, postponed
                                      msg/logdata expansion, starter-only flow/disruptive actions)
     internal/corazawaf/transaction.go matchVariable, CaptureField, MatchRule (HIGHEST_SEVERITY, message)
     internal/corazawaf/rulegroup.go  Eval (phase filter, interruption break, MATCHED_VARS reset)
   Operators are a parameter (op_eval); the concrete ones used by the correspondence are at the end.
   Every helper is prefixed sv_ / mc_ / tx_ to avoid clashes. No proofs in this file. *)
From Verif Require Import Base Transform.
From Coq Require Import String.
Open Scope N_scope.

(* ------------------------------------------------------------------------------------ *)
(* strconv                                                                              *)
(* ------------------------------------------------------------------------------------ *)
Definition sv_is_digit (b : byte) : bool := (48 <=? b) && (b <=? 57).
Definition sv_dec_step (a : N) (d : byte) : N := a * 10 + (d - 48).
Definition sv_dec_val (l : bytes) : N := fold_left sv_dec_step l 0.

(* strconv.Atoi: AOk z = (z, nil); AErr z = (z, err) — z is 0 on a syntax error and the
   saturated bound on a range error (the value matters where the code ignores the error) *)
Inductive atoi_res := AOk (z : Z) | AErr (z : Z).
Definition two63 : Z := 9223372036854775808%Z.

(* strconv.ParseUint(s, 10, 64), scanning left to right: None = syntax error (a non-digit is
   reached), Some None = range error (the accumulator would exceed 2^64-1 before any later
   non-digit is looked at), Some (Some n) = n *)
Definition sv_cutoff_u : N := 1844674407370955162.
Definition sv_max_u : N := 18446744073709551615.
Fixpoint sv_parse_uint (ds : bytes) (n : N) : option (option N) :=
  match ds with
  | [] => Some (Some n)
  | c :: r =>
    if negb (sv_is_digit c) then None
    else if sv_cutoff_u <=? n then Some None
    else let n1 := sv_dec_step n c in
         if sv_max_u <? n1 then Some None else sv_parse_uint r n1
  end.

(* strconv.ParseInt after the sign: saturation on range errors *)
Definition sv_atoi_digits (neg : bool) (ds : bytes) : atoi_res :=
  match ds with
  | [] => AErr 0%Z
  | _ =>
    match sv_parse_uint ds 0 with
    | None => AErr 0%Z
    | Some None => if neg then AErr (- two63)%Z else AErr (two63 - 1)%Z
    | Some (Some u) =>
      let m := Z.of_N u in
      if neg then (if (two63 <? m)%Z then AErr (- two63)%Z else AOk (- m)%Z)
      else (if (two63 <=? m)%Z then AErr (two63 - 1)%Z else AOk m)
    end
  end.

Definition atoi (s : bytes) : atoi_res :=
  match s with
  | [] => AErr 0%Z
  | c :: r => if c =? 43 then sv_atoi_digits false r
              else if c =? 45 then sv_atoi_digits true r
              else sv_atoi_digits false s
  end.
Definition atoi_val (r : atoi_res) : Z := match r with AOk z => z | AErr z => z end.

(* strconv.Itoa on int *)
Definition z_itoa (z : Z) : bytes :=
  if (z <? 0)%Z then 45 :: itoa (Z.to_N (- z)) else itoa (Z.to_N z).
(* Go int arithmetic wraps modulo 2^64 *)
Definition wrap64 (z : Z) : Z := ((z + two63) mod (2 * two63) - two63)%Z.

(* ------------------------------------------------------------------------------------ *)
(* collections.Map (TX, RULE): lower-cased key -> values                                *)
(* ------------------------------------------------------------------------------------ *)
Definition txmap := list (bytes * list bytes).

Fixpoint tx_get (m : txmap) (k : bytes) : list bytes :=
  match m with
  | [] => []
  | (k', vs) :: r => if bytes_eqb k' k then vs else tx_get r k
  end.
Fixpoint tx_set (m : txmap) (k : bytes) (vs : list bytes) : txmap :=
  match m with
  | [] => [(k, vs)]
  | (k', vs') :: r => if bytes_eqb k' k then (k, vs) :: r else (k', vs') :: tx_set r k vs
  end.
Fixpoint tx_remove (m : txmap) (k : bytes) : txmap :=
  match m with
  | [] => []
  | (k', vs') :: r => if bytes_eqb k' k then tx_remove r k else (k', vs') :: tx_remove r k
  end.
(* Map.SetIndex(key, 0, v) *)
Definition tx_setindex0 (m : txmap) (k : bytes) (v : bytes) : txmap :=
  match tx_get m k with
  | [] => tx_set m k [v]
  | _ :: rest => tx_set m k (v :: rest)
  end.

(* ------------------------------------------------------------------------------------ *)
(* variables known to the model                                                         *)
(* ------------------------------------------------------------------------------------ *)
Inductive var := VTx | VArgs | VArgsGet | VHeaders | VRule | VMatchedVar | VMatchedVarName
               | VMatchedVars | VHighestSeverity | VUnknown.

Definition var_name (v : var) : bytes :=
  match v with
  | VTx => str "TX" | VArgs => str "ARGS" | VArgsGet => str "ARGS_GET"
  | VHeaders => str "REQUEST_HEADERS" | VRule => str "RULE" | VMatchedVar => str "MATCHED_VAR"
  | VMatchedVarName => str "MATCHED_VAR_NAME" | VMatchedVars => str "MATCHED_VARS"
  | VHighestSeverity => str "HIGHEST_SEVERITY" | VUnknown => str "UNKNOWN"
  end.
Definition sv_all_vars : list var :=
  [VTx; VArgs; VArgsGet; VHeaders; VRule; VMatchedVar; VMatchedVarName; VMatchedVars; VHighestSeverity; VUnknown].

(* variables.Parse: case-insensitive name lookup (restricted to the table above; every other
   name is outside the model and never generated) *)
Definition var_of_name (n : bytes) : option var :=
  let u := map ascii_upper n in
  find (fun v => bytes_eqb (var_name v) u) sv_all_vars.

Definition var_is_single (v : var) : bool :=
  match v with VMatchedVar | VMatchedVarName | VHighestSeverity => true | _ => false end.

(* ------------------------------------------------------------------------------------ *)
(* transaction state                                                                    *)
(* ------------------------------------------------------------------------------------ *)
Record mdata := { md_var : bytes; md_key : bytes; md_value : bytes; md_msg : bytes; md_data : bytes }.
Record mrule := { mr_id : Z; mr_sev : option Z; mr_msg : bytes; mr_data : bytes; mr_mds : list mdata }.

(* ghost trace = the debug-log lines of the real engine that report action execution *)
Inductive event :=
  | EvMatching (rid : Z) (vname key : bytes)     (* rule.go matchVariable: "Matching rule" *)
  | EvAct (lvl idx : nat) (name : bytes)         (* "Evaluating action" (lvl, idx are ghost tags) *)
  | EvSetvar (key value : bytes) (rid : Z)       (* setvar.go Evaluate: "Action evaluated" *)
  | EvFlow (name : bytes)                        (* "Evaluating flow action for rule" *)
  | EvDisr (name : bytes)                        (* "Executing disruptive action for rule" *)
  | EvRuleMatched (rid : Z).                     (* MatchRule: "Rule matched" *)

Record st := {
  s_tx : txmap;
  s_rule : txmap;
  s_mv : bytes;
  s_mvn : bytes;
  s_mvs : list (bytes * bytes);      (* MATCHED_VARS in Add order *)
  s_hs : bytes;
  s_capture : bool;                  (* tx.Capture *)
  s_interrupted : option Z;          (* rule id of tx.interruption *)
  s_matched : list mrule;            (* tx.matchedRules, newest first *)
  s_trace : list event               (* newest first *)
}.

Record env := { e_args : list (bytes * bytes); e_hdrs : list (bytes * bytes) }.

Definition st_with_tx (s : st) (m : txmap) : st :=
  {| s_tx := m; s_rule := s_rule s; s_mv := s_mv s; s_mvn := s_mvn s; s_mvs := s_mvs s; s_hs := s_hs s;
     s_capture := s_capture s; s_interrupted := s_interrupted s; s_matched := s_matched s; s_trace := s_trace s |}.
Definition st_with_rule (s : st) (m : txmap) : st :=
  {| s_tx := s_tx s; s_rule := m; s_mv := s_mv s; s_mvn := s_mvn s; s_mvs := s_mvs s; s_hs := s_hs s;
     s_capture := s_capture s; s_interrupted := s_interrupted s; s_matched := s_matched s; s_trace := s_trace s |}.
Definition st_with_capture (s : st) (c : bool) : st :=
  {| s_tx := s_tx s; s_rule := s_rule s; s_mv := s_mv s; s_mvn := s_mvn s; s_mvs := s_mvs s; s_hs := s_hs s;
     s_capture := c; s_interrupted := s_interrupted s; s_matched := s_matched s; s_trace := s_trace s |}.
Definition st_log (e : event) (s : st) : st :=
  {| s_tx := s_tx s; s_rule := s_rule s; s_mv := s_mv s; s_mvn := s_mvn s; s_mvs := s_mvs s; s_hs := s_hs s;
     s_capture := s_capture s; s_interrupted := s_interrupted s; s_matched := s_matched s; s_trace := e :: s_trace s |}.
Definition st_reset_mvs (s : st) : st :=
  {| s_tx := s_tx s; s_rule := s_rule s; s_mv := s_mv s; s_mvn := s_mvn s; s_mvs := []; s_hs := s_hs s;
     s_capture := s_capture s; s_interrupted := s_interrupted s; s_matched := s_matched s; s_trace := s_trace s |}.

(* Transaction.matchVariable *)
Definition sv_match_name (vname key : bytes) : bytes :=
  match key with [] => vname | _ => vname ++ 58 :: key end.
Definition st_match_variable (vname key value : bytes) (s : st) : st :=
  let n := sv_match_name vname key in
  {| s_tx := s_tx s; s_rule := s_rule s; s_mv := value; s_mvn := n; s_mvs := s_mvs s ++ [(n, value)];
     s_hs := s_hs s; s_capture := s_capture s; s_interrupted := s_interrupted s; s_matched := s_matched s;
     s_trace := s_trace s |}.

(* NewTransaction: TX.0 .. TX.10 = "", HIGHEST_SEVERITY = 255 *)
Definition sv_init_tx : txmap :=
  map (fun n => (itoa n, [[]])) [0;1;2;3;4;5;6;7;8;9;10].
Definition st_init : st :=
  {| s_tx := sv_init_tx; s_rule := []; s_mv := []; s_mvn := []; s_mvs := []; s_hs := str "255";
     s_capture := false; s_interrupted := None; s_matched := []; s_trace := [] |}.

(* ------------------------------------------------------------------------------------ *)
(* keyed / single reads used by macros and targets                                      *)
(* ------------------------------------------------------------------------------------ *)
Definition sv_key_eq_ci (a b : bytes) : bool := bytes_eqb (lower_ascii a) (lower_ascii b).

Definition sv_pairs_get (l : list (bytes * bytes)) (k : bytes) : list bytes :=
  map snd (filter (fun p => sv_key_eq_ci (fst p) k) l).

(* Keyed.Get(key) *)
Definition coll_get (e : env) (s : st) (v : var) (k : bytes) : list bytes :=
  match v with
  | VTx => tx_get (s_tx s) (lower_ascii k)
  | VRule => tx_get (s_rule s) (lower_ascii k)
  | VArgs | VArgsGet => sv_pairs_get (e_args e) k
  | VHeaders => sv_pairs_get (e_hdrs e) k
  | VMatchedVars => sv_pairs_get (s_mvs s) k
  | _ => []
  end.
(* Single.Get() *)
Definition coll_single (s : st) (v : var) : bytes :=
  match v with
  | VMatchedVar => s_mv s | VMatchedVarName => s_mvn s | VHighestSeverity => s_hs s | _ => []
  end.

(* ------------------------------------------------------------------------------------ *)
(* macro: compile and Expand                                                            *)
(* ------------------------------------------------------------------------------------ *)
Record token := { tk_text : bytes; tk_var : var; tk_key : bytes }.
Definition macro := list token.

Definition mc_valid_char (c : byte) : bool :=
  (c =? 91) || (c =? 93) || (c =? 46) || (c =? 95) || (c =? 45) ||
  ((48 <=? c) && (c <=? 57)) || ((65 <=? c) && (c <=? 90)) || ((97 <=? c) && (c <=? 122)).

(* strings.Cut(s, sep) for a one-byte separator: (before, after, found) *)
Fixpoint sv_cut (sep : byte) (s : bytes) : bytes * bytes * bool :=
  match s with
  | [] => ([], [], false)
  | c :: r => if c =? sep then ([], r, true)
              else let '(a, b, f) := sv_cut sep r in (c :: a, b, f)
  end.

Definition mc_text_tok (t : bytes) : token := {| tk_text := t; tk_var := VUnknown; tk_key := [] |}.
Definition mc_flush (cur : bytes) (toks : list token) : list token :=
  match cur with [] => toks | _ => mc_text_tok (rev cur) :: toks end.

(* macro.compile: [rest] is the unread input, [prev] the byte before it (input[i-1]), [cur] the
   currentToken builder (reversed), [ism] the isMacro flag, [toks] the tokens so far (reversed) *)
Fixpoint mc_go (rest : bytes) (prev : byte) (cur : bytes) (ism : bool) (toks : list token)
  : option (list token) :=
  match rest with
  | [] => Some (rev (mc_flush cur toks))
  | c :: r =>
    if (c =? 37) && (match r with c2 :: _ => c2 =? 123 | [] => false end) then
      match r with
      | _ :: r2 => mc_go r2 123 [] true (mc_flush cur toks)
      | [] => None
      end
    else
      if ism then
        if c =? 125 then
          if prev =? 46 then None
          else
            let name := rev cur in
            let '(vn, key, _) := sv_cut 46 name in
            match var_of_name vn with
            | None => None
            | Some v => mc_go r c [] false ({| tk_text := name; tk_var := v; tk_key := lower_ascii key |} :: toks)
            end
        else if negb (mc_valid_char c) then None
        else match r with
             | [] => None                          (* malformed variable: no closing braces *)
             | _ => mc_go r c (c :: cur) true toks
             end
      else mc_go r c (c :: cur) false toks
  end.

(* macro.NewMacro *)
Definition macro_compile (data : bytes) : option macro :=
  match data with
  | [] => None
  | _ => mc_go data 0 [] false []
  end.

(* macro.expandToken *)
Definition expand_token (e : env) (s : st) (t : token) : bytes :=
  match tk_var t with
  | VUnknown => tk_text t
  | v => if var_is_single v then coll_single s v
         else match coll_get e s v (tk_key t) with
              | c :: _ => c
              | [] => tk_text t
              end
  end.
Definition macro_expand (e : env) (s : st) (m : macro) : bytes :=
  flat_map (expand_token e s) m.
Definition macro_expand_opt (e : env) (s : st) (m : option macro) : bytes :=
  match m with Some m => macro_expand e s m | None => [] end.

(* ------------------------------------------------------------------------------------ *)
(* setvar                                                                               *)
(* ------------------------------------------------------------------------------------ *)
Record setvar := { sv_key : macro; sv_value : option macro; sv_remove : bool }.

Definition sv_is_space (c : byte) : bool :=
  (c =? 32) || ((9 <=? c) && (c <=? 13)).

(* setvarFn.Init *)
Definition setvar_init (data : bytes) : option setvar :=
  match data with
  | [] => None
  | c0 :: r0 =>
    let '(rm, d) := if c0 =? 33 then (true, r0) else (false, data) in
    let '(key, val, val_ok) := sv_cut 61 d in
    let '(col_key, col_val, _) := sv_cut 46 key in
    if negb (bytes_eqb (map ascii_upper col_key) (str "TX")) then None
    else if forallb sv_is_space col_val then None
    else match macro_compile col_val with
         | None => None
         | Some km =>
           if val_ok then
             match macro_compile val with
             | None => None
             | Some vm => Some {| sv_key := km; sv_value := Some vm; sv_remove := rm |}
             end
           else Some {| sv_key := km; sv_value := None; sv_remove := rm |}
         end
  end.

(* setvarFn.evaluateTxCollection on the TX map; [key] is already lower-cased *)
Definition setvar_apply (rm : bool) (key value : bytes) (m : txmap) : txmap :=
  if rm then tx_remove m key
  else
    let current := match tx_get m key with c :: _ => c | [] => [] end in
    match value with
    | [] => tx_set m key [[]]
    | c :: rest =>
      if (c =? 43) || (c =? 45) then
        match (match rest with [] => AOk 0%Z | _ => atoi rest end) with
        | AErr _ =>
            if is_prefix (str "tx.") rest then m      (* error logged, nothing stored *)
            else tx_set m key [value]
        | AOk v =>
            match (match current with [] => AOk 0%Z | _ => atoi current end) with
            | AErr _ => m                             (* "Invalid value": nothing stored *)
            | AOk cur =>
                if c =? 43 then tx_set m key [z_itoa (wrap64 (cur + v))]
                else tx_set m key [z_itoa (wrap64 (cur - v))]
            end
        end
      else tx_set m key [value]
    end.

(* setvarFn.Evaluate (after the engine logged "Evaluating action") *)
Definition setvar_eval (e : env) (rid : Z) (a : setvar) (s : st) : st :=
  let key := macro_expand e s (sv_key a) in
  let value := macro_expand_opt e s (sv_value a) in
  let s1 := st_log (EvSetvar key value rid) s in
  st_with_tx s1 (setvar_apply (sv_remove a) (lower_ascii key) value (s_tx s1)).

(* ------------------------------------------------------------------------------------ *)
(* rules                                                                                *)
(* ------------------------------------------------------------------------------------ *)
Inductive action :=
  | ANd (name : bytes)                 (* non-disruptive, Evaluate is a no-op (log, capture, t, ...) *)
  | ASetvar (a : setvar)
  | ADisr (name : bytes) (deny : bool) (* pass / deny *)
  | AFlow (name : bytes)               (* chain *)
  | AOther (name : bytes).             (* data actions: kept in r.actions, never evaluated *)

Record target := { tg_var : var; tg_key : bytes; tg_count : bool }.

Section Engine.
  Variable opid : Type.
  (* Operator.Evaluate: the result before negation, and the fields it passes to CaptureField *)
  Variable op_eval : opid -> env -> st -> bytes -> bool * list (N * bytes).

  Record link := {
    l_id : Z;                           (* Rule.ID_ (0 for chain links) *)
    l_logid : bytes;                    (* LogID_: the printable id (the starter's for links) *)
    l_parent : Z;                       (* ParentID_ *)
    l_op : option (list target * opid * bool);   (* None = SecAction; bool = negation *)
    l_tfs : list tid;
    l_multi : bool;
    l_capture : bool;
    l_haschain : bool;
    l_msg : option macro;
    l_logdata : option macro;
    l_sev : option Z;                   (* None = unset (-1) *)
    l_actions : list action
  }.
  Record rule := { r_phase : N; r_head : link; r_chain : list link }.

  Definition sev_name (sv : option Z) : bytes :=
    match sv with
    | Some 0%Z => str "emergency" | Some 1%Z => str "alert" | Some 2%Z => str "critical"
    | Some 3%Z => str "error" | Some 4%Z => str "warning" | Some 5%Z => str "notice"
    | Some 6%Z => str "info" | Some 7%Z => str "debug" | _ => str "unknown"
    end.

  (* doEvaluate, first lines: tx.Capture and the RULE collection *)
  Definition link_prologue (e : env) (l : link) (s : st) : st :=
    let s := st_with_capture s (l_capture l) in
    let s := st_with_rule s (tx_setindex0 (s_rule s) (str "id") (l_logid l)) in
    let s := match l_msg l with
             | Some m => st_with_rule s (tx_setindex0 (s_rule s) (str "msg") (macro_expand e s m))
             | None => s end in
    let s := st_with_rule s (tx_setindex0 (s_rule s) (str "rev") []) in
    let s := match l_logdata l with
             | Some m => st_with_rule s (tx_setindex0 (s_rule s) (str "logdata") (macro_expand e s m))
             | None => s end in
    st_with_rule s (tx_setindex0 (s_rule s) (str "severity") (sev_name (l_sev l))).

  (* the non-disruptive actions of a rule, in list order, against the evolving state *)
  Fixpoint run_nd (e : env) (rid : Z) (lvl idx : nat) (acts : list action) (s : st) : st :=
    match acts with
    | [] => s
    | a :: r =>
      let s' := match a with
                | ANd name => st_log (EvAct lvl idx name) s
                | ASetvar sv => setvar_eval e rid sv (st_log (EvAct lvl idx (str "setvar")) s)
                | _ => s
                end in
      run_nd e rid lvl (S idx) r s'
    end.

  Definition link_rid (l : link) : Z := if (l_id l =? 0)%Z then l_parent l else l_id l.

  (* Rule.matchVariable: debug line, MATCHED_* update, then every non-disruptive action *)
  Definition on_match (e : env) (l : link) (lvl : nat) (known : bool) (vname key value : bytes) (s : st) : st :=
    let s := if known then st_log (EvMatching (link_rid l) vname key) s else s in
    let s := st_match_variable vname key value s in
    run_nd e (l_id l) lvl 0 (l_actions l) s.

  (* Transaction.CaptureField for every reported field, when tx.Capture *)
  Definition apply_caps (caps : list (N * bytes)) (s : st) : st :=
    if s_capture s then
      st_with_tx s (fold_left (fun m c => tx_setindex0 m (itoa (fst c)) (snd c)) caps (s_tx s))
    else s.

  (* Transaction.GetField without exceptions and regex keys *)
  Fixpoint sv_dedup (seen l : list bytes) : list bytes :=
    match l with
    | [] => []
    | k :: r => if existsb (bytes_eqb k) seen then sv_dedup seen r else k :: sv_dedup (k :: seen) r
    end.
  (* FindAll of a Go map: grouped by (lower-cased) key; the model fixes first-occurrence order *)
  Definition sv_find_all (l : list (bytes * bytes)) : list (bytes * bytes) :=
    flat_map (fun k => filter (fun p => bytes_eqb (lower_ascii (fst p)) k) l)
             (sv_dedup [] (map (fun p => lower_ascii (fst p)) l)).
  Definition sv_find_pairs (l : list (bytes * bytes)) (k : bytes) : list (bytes * bytes) :=
    match k with
    | [] => sv_find_all l
    | _ => filter (fun p => sv_key_eq_ci (fst p) k) l
    end.
  Definition sv_find_map (m : txmap) (k : bytes) : list (bytes * bytes) :=
    match k with
    | [] => flat_map (fun kv => map (fun v => (fst kv, v)) (snd kv)) m
    | _ => map (fun v => (lower_ascii k, v)) (tx_get m (lower_ascii k))
    end.

  Definition get_field (e : env) (s : st) (t : target) : list (bytes * bytes * bytes) :=
    let vn := var_name (tg_var t) in
    let raw : list (bytes * bytes) :=
      match tg_var t with
      | VTx => sv_find_map (s_tx s) (tg_key t)
      | VRule => sv_find_map (s_rule s) (tg_key t)
      | VArgs | VArgsGet => sv_find_pairs (e_args e) (tg_key t)
      | VHeaders => sv_find_pairs (e_hdrs e) (tg_key t)
      | VMatchedVars => sv_find_pairs (s_mvs s) (tg_key t)
      | VUnknown => []
      | v => match tg_key t with [] => [([], coll_single s v)] | _ => [] end
      end in
    if tg_count t then [(vn, tg_key t, itoa (N.of_nat (List.length raw)))]
    else map (fun p => (vn, fst p, snd p)) raw.

  Definition link_args (l : link) (v : bytes) : list bytes :=
    if l_multi l then multimatch_values (l_tfs l) v else [fst (exec_tfs (l_tfs l) v)].

  Definition mk_md (e : env) (l : link) (expand_now : bool) (vname key value : bytes) (s : st) : mdata :=
    {| md_var := vname; md_key := key; md_value := value;
       md_msg := if expand_now then macro_expand_opt e s (l_msg l) else [];
       md_data := if expand_now then macro_expand_opt e s (l_logdata l) else [] |}.

  (* the innermost loop of doEvaluate over the transformed values of one target *)
  Fixpoint eval_cands (e : env) (l : link) (lvl : nat) (o : opid) (neg : bool)
           (cands : list (bytes * bytes * bytes)) (s : st) (acc : list mdata) : st * list mdata :=
    match cands with
    | [] => (s, acc)
    | (vn, key, carg) :: r =>
      let '(res, caps) := op_eval o e s carg in
      let s1 := apply_caps caps s in
      if xorb res neg then
        let s2 := on_match e l lvl true vn key carg s1 in
        let md := mk_md e l (negb (l_parent l =? 0)%Z || negb (l_haschain l)) vn key carg s2 in
        eval_cands e l lvl o neg r s2 (md :: acc)
      else eval_cands e l lvl o neg r s1 acc
    end.

  Definition target_cands (e : env) (l : link) (s : st) (t : target) : list (bytes * bytes * bytes) :=
    flat_map (fun c => map (fun a => (fst (fst c), snd (fst c), a)) (link_args l (snd c))) (get_field e s t).

  (* the loop over r.variables: GetField is evaluated when its turn comes *)
  Fixpoint eval_targets (e : env) (l : link) (lvl : nat) (o : opid) (neg : bool)
           (ts : list target) (s : st) (acc : list mdata) : st * list mdata :=
    match ts with
    | [] => (s, acc)
    | t :: r =>
      let '(s', acc') := eval_cands e l lvl o neg (target_cands e l s t) s acc in
      eval_targets e l lvl o neg r s' acc'
    end.

  (* doEvaluate up to "if len(matchedValues) == 0": the state and matchedValues (in order) *)
  Definition eval_link (e : env) (l : link) (lvl : nat) (s : st) : st * list mdata :=
    let s := link_prologue e l s in
    match l_op l with
    | None =>
      let md := mk_md e l (negb (l_parent l =? 0)%Z || l_multi l) (var_name VUnknown) [] [] s in
      (on_match e l lvl false (var_name VUnknown) [] [] s, [md])
    | Some (ts, o, neg) =>
      let '(s', acc) := eval_targets e l lvl o neg ts s [] in (s', rev acc)
    end.

  (* the chain walk: every link must match; None = some link did not match *)
  Fixpoint eval_chain (e : env) (links : list link) (lvl : nat) (s : st) : st * option (list mdata) :=
    match links with
    | [] => (s, Some [])
    | l :: r =>
      let '(s1, mds) := eval_link e l lvl s in
      match mds with
      | [] => (s1, None)
      | _ => let '(s2, rest) := eval_chain e r (S lvl) s1 in
             (s2, match rest with Some m => Some (mds ++ m) | None => None end)
      end
    end.

  (* flow and disruptive actions of the chain starter *)
  Fixpoint run_flow_disr (rid : Z) (acts : list action) (s : st) : st :=
    match acts with
    | [] => s
    | a :: r =>
      let s' := match a with
                | AFlow name => st_log (EvFlow name) s
                | ADisr name deny =>
                  let s1 := st_log (EvDisr name) s in
                  if deny then
                    match s_interrupted s1 with
                    | Some _ => s1
                    | None => {| s_tx := s_tx s1; s_rule := s_rule s1; s_mv := s_mv s1; s_mvn := s_mvn s1;
                                 s_mvs := s_mvs s1; s_hs := s_hs s1; s_capture := s_capture s1;
                                 s_interrupted := Some rid; s_matched := s_matched s1; s_trace := s_trace s1 |}
                    end
                  else s1
                | _ => s
                end in
      run_flow_disr rid r s'
    end.

  (* Transaction.MatchRule *)
  Fixpoint first_msg (mds : list mdata) : bytes * bytes :=
    match mds with
    | [] => ([], [])
    | m :: r => match md_msg m with [] => first_msg r | _ => (md_msg m, md_data m) end
    end.
  Definition match_rule (l : link) (mds : list mdata) (s : st) : st :=
    let s := st_log (EvRuleMatched (l_id l)) s in
    let hs := match l_sev l with
              | Some sv => if (sv <? atoi_val (atoi (s_hs s)))%Z then z_itoa sv else s_hs s
              | None => s_hs s
              end in
    let '(m, d) := first_msg mds in
    {| s_tx := s_tx s; s_rule := s_rule s; s_mv := s_mv s; s_mvn := s_mvn s; s_mvs := s_mvs s; s_hs := hs;
       s_capture := s_capture s; s_interrupted := s_interrupted s;
       s_matched := {| mr_id := l_id l; mr_sev := l_sev l; mr_msg := m; mr_data := d; mr_mds := mds |} :: s_matched s;
       s_trace := s_trace s |}.

  Definition set_first_md (e : env) (l : link) (s : st) (mds : list mdata) : list mdata :=
    match mds with
    | [] => []
    | m :: r =>
      {| md_var := md_var m; md_key := md_key m; md_value := md_value m;
         md_msg := match l_msg l with Some x => macro_expand e s x | None => md_msg m end;
         md_data := match l_logdata l with Some x => macro_expand e s x | None => md_data m end |} :: r
    end.

  (* Rule.Evaluate for a top-level rule: the starter is level 0 of the walk; flow/disruptive
     actions, the postponed msg/logdata expansion and MatchRule only when every link matched *)
  Definition eval_rule (e : env) (r : rule) (s : st) : st :=
    let h := r_head r in
    let '(s2, res) := eval_chain e (h :: r_chain r) 0 s in
    match res with
    | None => s2
    | Some all =>
      let all := if l_haschain h || (match l_op h with None => true | _ => false end)
                 then set_first_md e h s2 all else all in
      let s3 := run_flow_disr (link_rid h) (l_actions h) s2 in
      if (l_id h =? 0)%Z then s3 else match_rule h all s3
    end.

  (* RuleGroup.Eval for one phase (no removals, skips, allow: not generated) *)
  Fixpoint eval_rules (e : env) (phase : N) (rs : list rule) (s : st) : st :=
    match rs with
    | [] => s
    | r :: rest =>
      match s_interrupted s, negb (phase =? 5) with
      | Some _, true => s
      | _, _ =>
        if r_phase r =? phase then
          eval_rules e phase rest (st_with_capture (eval_rule e r (st_reset_mvs s)) false)
        else eval_rules e phase rest s
      end
    end.

  (* Process* guards: phases 1-4 are not evaluated once interrupted *)
  Definition eval_phase (e : env) (rs : list rule) (s : st) (phase : N) : st :=
    match s_interrupted s, negb (phase =? 5) with
    | Some _, true => s
    | _, _ => eval_rules e phase rs s
    end.

  Definition eval_tx (e : env) (rs : list rule) (s : st) : st :=
    fold_left (eval_phase e rs) [1; 2; 3; 4; 5] s.
End Engine.

(* ---- the pooled transaction object: Close, then WAF.newTransaction on the recycled object ---- *)
(* Transaction.Close: TransactionVariables.reset() empties every collection (Map.Reset,
   Single.Reset -> ""); the other fields stay until the object is handed out again *)
Definition st_close (s : st) : st :=
  {| s_tx := []; s_rule := []; s_mv := []; s_mvn := []; s_mvs := []; s_hs := [];
     s_capture := s_capture s; s_interrupted := s_interrupted s; s_matched := s_matched s; s_trace := s_trace s |}.
(* WAF.newTransaction on an object taken from the pool: matchedRules, interruption, Capture are
   re-initialised, TX.0 .. TX.10 are Set to "", HIGHEST_SEVERITY is Set to 255 — for EVERY
   transaction, not only when the variables are first constructed; the ghost trace starts empty *)
Definition st_new (s : st) : st :=
  {| s_tx := fold_left (fun m n => tx_set m (itoa n) [[]]) [0;1;2;3;4;5;6;7;8;9;10] (s_tx s);
     s_rule := s_rule s; s_mv := s_mv s; s_mvn := s_mvn s; s_mvs := s_mvs s; s_hs := str "255";
     s_capture := false; s_interrupted := None; s_matched := []; s_trace := [] |}.

Section Pool.
  Variable opid : Type.
  Variable op_eval : opid -> env -> st -> bytes -> bool * list (N * bytes).
  (* the state in which the next transaction of the same pooled object starts, after the earlier
     requests [priors] were processed and closed one after the other *)
  Fixpoint run_priors (rs : list (rule opid)) (priors : list env) (s : st) : st :=
    match priors with
    | [] => s
    | e :: r => run_priors rs r (st_new (st_close (eval_tx opid op_eval e rs s)))
    end.
  Definition eval_nth_tx (rs : list (rule opid)) (priors : list env) (e : env) : st :=
    eval_tx opid op_eval e rs (run_priors rs priors st_init).
End Pool.
Arguments run_priors {opid}. Arguments eval_nth_tx {opid}.

Arguments l_id {opid}. Arguments l_logid {opid}. Arguments l_parent {opid}. Arguments l_op {opid}.
Arguments l_tfs {opid}. Arguments l_multi {opid}. Arguments l_capture {opid}. Arguments l_haschain {opid}.
Arguments l_msg {opid}. Arguments l_logdata {opid}. Arguments l_sev {opid}. Arguments l_actions {opid}.
Arguments r_phase {opid}. Arguments r_head {opid}. Arguments r_chain {opid}.
Arguments on_match {opid}. Arguments link_rid {opid}. Arguments eval_cands {opid}. Arguments target_cands {opid}.
Arguments link_prologue {opid}. Arguments eval_link {opid}. Arguments eval_targets {opid}. Arguments eval_chain {opid}.
Arguments match_rule {opid}. Arguments set_first_md {opid}. Arguments eval_rule {opid}. Arguments eval_rules {opid}.
Arguments eval_phase {opid}. Arguments eval_tx {opid}. Arguments link_args {opid}. Arguments mk_md {opid}.

(* ------------------------------------------------------------------------------------ *)
(* the concrete operators of the correspondence run                                     *)
(* ------------------------------------------------------------------------------------ *)
Inductive cop :=
  | OpUncond                      (* @unconditionalMatch *)
  | OpBeginsWith (m : macro) | OpContains (m : macro) | OpStreq (m : macro)
  | OpEq (m : macro) | OpGt (m : macro) | OpGe (m : macro) | OpLt (m : macro) | OpLe (m : macro)
  | OpRxPrefix (lit : bytes)      (* @rx ^lit with lit a literal: (?sm)^lit *)
  (* @rx with an arbitrary pattern: Go's regexp is an oracle, given as the table "value that
     matches -> the fields rx.go passes to CaptureField" (every group 0..9 of the pattern, the
     empty string for a group that did not participate); a value not in the table does not match *)
  | OpRxTable (tbl : list (bytes * list (N * bytes))).

Definition cop_num (e : env) (s : st) (m : macro) : Z := atoi_val (atoi (macro_expand e s m)).

Definition cop_eval (o : cop) (e : env) (s : st) (v : bytes) : bool * list (N * bytes) :=
  match o with
  | OpUncond => (true, [])
  | OpBeginsWith m => (is_prefix (macro_expand e s m) v, [])
  | OpContains m => (is_substring (macro_expand e s m) v, [])
  | OpStreq m => (bytes_eqb (macro_expand e s m) v, [])
  | OpEq m => (Z.eqb (cop_num e s m) (atoi_val (atoi v)), [])
  | OpGt m => (Z.ltb (cop_num e s m) (atoi_val (atoi v)), [])
  | OpGe m => (Z.leb (cop_num e s m) (atoi_val (atoi v)), [])
  | OpLt m => (Z.ltb (atoi_val (atoi v)) (cop_num e s m), [])
  | OpLe m => (Z.leb (atoi_val (atoi v)) (cop_num e s m), [])
  | OpRxPrefix lit =>
      let r := is_prefix lit v || is_substring (10 :: lit) v in
      (r, if r then [(0, lit)] else [])
  | OpRxTable tbl =>
      match find (fun p => bytes_eqb (fst p) v) tbl with
      | Some p => (true, snd p)
      | None => (false, [])
      end
  end.
