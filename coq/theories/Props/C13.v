(* Props/C13.v — the property theorems of C13 (a WAF follows its own configuration only; the
   process-wide pattern cache is invisible) and nothing else.  Model: Memo.v (internal/memoize
   Do / Release, one memoizer per WAF, every call site's key, builder and type assertion).
   coq/gen/FactsC13.v (regenerated from go/ast on every run) checks that the call sites of the
   source are the modelled ones and instantiates C13_transparent with the source's tag table. *)
From Coq Require Import String.
From Coq Require Import List NArith.
From Verif Require Import Base Utf8 Transform CaseMap Memo MemoProofs.
Import ListNotations.
Open Scope N_scope.

(* GENERIC (any key function / builder / type assertion): if equal keys imply equal builder
   outputs on the requests in play, then after ANY history of constructions and closures by any
   WAFs a construction ends exactly like the build with the cache compiled out (noop.go): same
   artefacts in the same order, same error if one is reported, panic only if that one panics *)
Theorem C13_transparent_generic :
  forall (req art err : Type) (key_of : req -> bytes) (build : req -> result art err)
         (expect : req -> art -> bool) (U : req -> Prop),
    faithful_on req art err key_of build U ->
    forall (h : list (event req)) (id : N) (rs : list req),
      hist_in req U h -> Forall U rs ->
      snd (construct req art err key_of build expect
             (ps_cache (run req art err key_of build expect h)) id rs)
      = construct_nocache req art err build expect rs.
Proof. exact transparent. Qed.
Print Assumptions C13_transparent_generic.

(* the same for every construction INSIDE a history: the list of outcomes of a process history
   is the list of no-cache outcomes of its configurations *)
Theorem C13_history_transparent :
  forall (req art err : Type) (key_of : req -> bytes) (build : req -> result art err)
         (expect : req -> art -> bool) (U : req -> Prop),
    faithful_on req art err key_of build U ->
    forall h : list (event req), hist_in req U h ->
      outcomes_from req art err key_of build expect (mk_ps [] []) h
      = outcomes_nocache req art err build expect h.
Proof. exact history_transparent. Qed.
Print Assumptions C13_history_transparent.

(* the keys the CODE builds are faithful: for every tag table without a tag that is a prefix of
   another one (checked on the regenerated tags in gen/FactsC13.v), every hash that does not
   collide on the schema files in play, and requests as the code produces them (joined entries
   are non-empty and newline-free); [lower] = strings.ToLower is ANY function: the statement covers
   non-ASCII and invalid UTF-8 phrases, pattern files and regex keys *)
Theorem C13_keys_faithful :
  forall (tags : kind -> bytes) (lower hash : bytes -> bytes) (re_ok binre_ok schema_ok : bytes -> bool)
         (U : creq -> Prop),
    tags_prefix_free tags = true ->
    (forall r, U r -> wf_creq lower r = true) ->
    (forall a b, U (RSchema a) -> U (RSchema b) -> hash a = hash b -> a = b) ->
    faithful_on creq cart cerr (ckey_of tags lower hash) (cbuild lower re_ok binre_ok schema_ok) U.
Proof. exact ckeys_faithful. Qed.
Print Assumptions C13_keys_faithful.

(* C13 for the call sites of the code (external compilers are arbitrary functions) *)
Theorem C13_transparent :
  forall (tags : kind -> bytes) (lower hash : bytes -> bytes) (re_ok binre_ok schema_ok : bytes -> bool)
         (U : creq -> Prop),
    tags_prefix_free tags = true ->
    (forall r, U r -> wf_creq lower r = true) ->
    (forall a b, U (RSchema a) -> U (RSchema b) -> hash a = hash b -> a = b) ->
    forall (h : list (event creq)) (id : N) (rs : list creq),
      hist_in creq U h -> Forall U rs ->
      snd (cconstruct tags lower hash re_ok binre_ok schema_ok
             (ps_cache (crun tags lower hash re_ok binre_ok schema_ok h)) id rs)
      = cconstruct_nocache lower re_ok binre_ok schema_ok rs.
Proof. exact ctransparent. Qed.
Print Assumptions C13_transparent.

(* ... and no type assertion on a cached value ever fails (F04 cannot come back) *)
Theorem C13_never_panics :
  forall (tags : kind -> bytes) (lower hash : bytes -> bytes) (re_ok binre_ok schema_ok : bytes -> bool)
         (U : creq -> Prop),
    tags_prefix_free tags = true ->
    (forall r, U r -> wf_creq lower r = true) ->
    (forall a b, U (RSchema a) -> U (RSchema b) -> hash a = hash b -> a = b) ->
    forall (h : list (event creq)) (id : N) (rs : list creq) (l : list cart),
      hist_in creq U h -> Forall U rs ->
      snd (cconstruct tags lower hash re_ok binre_ok schema_ok
             (ps_cache (crun tags lower hash re_ok binre_ok schema_ok h)) id rs)
      <> Panicked l.
Proof. exact cnever_panics. Qed.
Print Assumptions C13_never_panics.

(* closing any set of OTHER WAFs (and building any WAFs) never removes, replaces or disowns an
   entry a live WAF obtained: after history h1, WAF w runs its calls rs, then any history h2
   without the Close of w *)
Theorem C13_release_safe :
  forall (req art err : Type) (key_of : req -> bytes) (build : req -> result art err)
         (expect : req -> art -> bool)
         (h1 : list (event req)) (w : N) (rs : list req) (h2 : list (event req)),
    Forall (not_close_of req w) h2 ->
    let s1 := run req art err key_of build expect h1 in
    let co := construct req art err key_of build expect (ps_cache s1) w rs in
    let final := run_from req art err key_of build expect (mk_ps (fst co) (ps_closed s1)) h2 in
    Forall2 (fun r a => owns art (ps_cache final) w (key_of r) a)
            (firstn (length (outcome_arts art err (snd co))) rs) (outcome_arts art err (snd co)).
Proof. exact release_safe_full. Qed.
Print Assumptions C13_release_safe.

(* reachable caches have distinct keys, no entry marked deleted and no entry without owners: in
   sequential histories the "entry was deleted concurrently" branches of Do are dead *)
Theorem C13_cache_wellformed :
  forall (req art err : Type) (key_of : req -> bytes) (build : req -> result art err)
         (expect : req -> art -> bool) (h : list (event req)),
    wf_cache art (ps_cache (run req art err key_of build expect h)).
Proof. exact wf_run. Qed.
Print Assumptions C13_cache_wellformed.

(* every owner of every entry is a WAF that is still active; with no active WAF the cache is empty *)
Theorem C13_no_leak :
  forall (req art err : Type) (key_of : req -> bytes) (build : req -> result art err)
         (expect : req -> art -> bool) (h : list (event req)),
    owners_in art (active req h) (ps_cache (run req art err key_of build expect h))
    /\ (active req h = [] -> ps_cache (run req art err key_of build expect h) = []).
Proof. intros. split; [apply no_leak | apply no_leak_empty]. Qed.
Print Assumptions C13_no_leak.

(* F04 (repaired by efe1f8f): with untagged keys ONE WAF holding SecRule ARGS:/foo/ "@pm foo"
   panics on a type assertion while its no-cache build is fine *)
Theorem C13_untagged_keys_refuted :
  exists rs,
    snd (cconstruct untagged lower_ascii id_hash all_ok all_ok all_ok [] 1 rs) = Panicked [ARegexp (str "foo"%string)]
    /\ cconstruct_nocache lower_ascii all_ok all_ok all_ok rs = Built [ARegexp (str "foo"%string); AAho true [str "foo"%string]].
Proof. exact untagged_keys_refuted. Qed.
Print Assumptions C13_untagged_keys_refuted.

(* F05 (repaired by 0162365): with @pmFromDataset keyed by the data-set NAME a second WAF gets
   the first WAF's matcher *)
Theorem C13_name_only_key_refuted :
  exists h id rs,
    snd (construct creq cart cerr key_name_only (cbuild lower_ascii all_ok all_ok all_ok) cexpect
           (ps_cache (run creq cart cerr key_name_only (cbuild lower_ascii all_ok all_ok all_ok) cexpect h)) id rs)
    <> cconstruct_nocache lower_ascii all_ok all_ok all_ok rs.
Proof. exact name_only_key_refuted. Qed.
Print Assumptions C13_name_only_key_refuted.

(* F44 (repaired by 54cadaf): name + NUL + entries is ambiguous when a name contains NUL, even
   on well-formed requests *)
Theorem C13_name_nul_key_refuted :
  exists h id rs,
    Forall (fun r => wf_creq lower_ascii r = true) rs /\
    snd (construct creq cart cerr key_name_nul (cbuild lower_ascii all_ok all_ok all_ok) cexpect
           (ps_cache (run creq cart cerr key_name_nul (cbuild lower_ascii all_ok all_ok all_ok) cexpect h)) id rs)
    <> cconstruct_nocache lower_ascii all_ok all_ok all_ok rs.
Proof. exact name_nul_key_refuted. Qed.
Print Assumptions C13_name_nul_key_refuted.

(* the call sites that lower-case (@pm phrase lists, @pmFromFile lines, regex keys of case-insensitive
   variables): two requests share a cache entry EXACTLY when their lower-cased texts are equal ... *)
Theorem C13_pm_key_iff :
  forall (tags : kind -> bytes) (lower hash : bytes -> bytes) (a b : bytes),
    ckey_of tags lower hash (RPm a) = ckey_of tags lower hash (RPm b) <-> lower a = lower b.
Proof. exact pm_key_iff. Qed.
Print Assumptions C13_pm_key_iff.

Theorem C13_pmf_key_iff :
  forall (tags : kind -> bytes) (lower hash : bytes -> bytes) (l1 l2 : list bytes),
    forallb wf_line (map lower l1) = true -> forallb wf_line (map lower l2) = true ->
    (ckey_of tags lower hash (RPmF l1) = ckey_of tags lower hash (RPmF l2) <-> map lower l1 = map lower l2).
Proof. exact pmf_key_iff. Qed.
Print Assumptions C13_pmf_key_iff.

Theorem C13_regex_key_iff :
  forall (tags : kind -> bytes) (lower hash : bytes -> bytes) (s1 s2 : resite) (a b : bytes),
    ckey_of tags lower hash (RReL s1 a) = ckey_of tags lower hash (RReL s2 b) <-> lower a = lower b.
Proof. exact rel_key_iff. Qed.
Print Assumptions C13_regex_key_iff.

(* ... and then they compile to the same object, so sharing is sound for pairs that collide only
   after lower-casing (U+212A and k, U+0130 and i, an invalid byte and U+FFFD: instances computed
   with the regenerated table in gen/FactsC13.v) *)
Theorem C13_lowercase_collision_same_object :
  forall (tags : kind -> bytes) (lower hash : bytes -> bytes) (re_ok binre_ok schema_ok : bytes -> bool),
    (forall a b, lower a = lower b ->
       ckey_of tags lower hash (RPm a) = ckey_of tags lower hash (RPm b) /\
       cbuild lower re_ok binre_ok schema_ok (RPm a) = cbuild lower re_ok binre_ok schema_ok (RPm b)) /\
    (forall l1 l2, map lower l1 = map lower l2 ->
       ckey_of tags lower hash (RPmF l1) = ckey_of tags lower hash (RPmF l2) /\
       cbuild lower re_ok binre_ok schema_ok (RPmF l1) = cbuild lower re_ok binre_ok schema_ok (RPmF l2)) /\
    (forall s1 s2 a b, lower a = lower b ->
       ckey_of tags lower hash (RReL s1 a) = ckey_of tags lower hash (RReL s2 b) /\
       cbuild lower re_ok binre_ok schema_ok (RReL s1 a) = cbuild lower re_ok binre_ok schema_ok (RReL s2 b)).
Proof. exact lowercase_collision_same_object. Qed.
Print Assumptions C13_lowercase_collision_same_object.

(* Go's strings.ToLower (rune-by-rune mapping under ANY case table whose ranges and images lie above
   '\n', checked on the regenerated table) keeps a kept line kept: non-empty and newline-free.  Hence the
   well-formedness premise of C13_keys_faithful on @pmFromFile requests follows from what the line
   scanner guarantees about the RAW lines, for arbitrary (also invalid UTF-8) bytes *)
Theorem C13_lower_keeps_wf_line :
  forall (tbl : list case_range) (l : bytes),
    tbl_above 10 tbl = true -> wf_line l = true -> wf_line (utf8_map (map_rune tbl) l) = true.
Proof. exact lower_keeps_wf_line. Qed.
Print Assumptions C13_lower_keeps_wf_line.
