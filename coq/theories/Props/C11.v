(* Props/C11.v — the property theorems of C11 (placeholder while the proofs are built). *)
From Verif Require Import Base Regex Prefilter.
