// Package vh holds what every per-property driver of the correspondence harness shares:
// one PRNG derived from VERIF_SEED, printers of Coq terms, shard/result files.
package vh

import (
	"encoding/hex"
	"encoding/json"
	"fmt"
	"math/rand"
	"os"
	"path/filepath"
	"sort"
	"strings"
)

// Config is what bin/check passes to a property driver.
type Config struct {
	Property string
	Tier     string // quick | thorough
	Seed     int64
	OutDir   string
	Replay   string // path of a replay / corpus file to re-run instead of generating
	Corpus   string // directory with corpus/<prop>/*.json (run first)
}

func (c Config) Thorough() bool { return c.Tier == "thorough" }

// Pick returns q in the quick tier and t in the thorough tier.
func (c Config) Pick(q, t int) int {
	if c.Thorough() {
		return t
	}
	return q
}

// Rng is the single source of randomness of a run.
func Rng(seed int64, stream string) *rand.Rand {
	h := int64(1469598103934665603)
	for _, b := range []byte(stream) {
		h = (h ^ int64(b)) * 1099511628211
	}
	return rand.New(rand.NewSource(seed*1000003 + h))
}

// ---- Coq term printers ----

// Hx prints a byte string as the Gallina term (hx "6869").
func Hx(b []byte) string { return `(hx "` + hex.EncodeToString(b) + `"%string)` }
func HxS(s string) string { return Hx([]byte(s)) }

func Bool(b bool) string {
	if b {
		return "true"
	}
	return "false"
}

// Nat prints a small natural number (never use for data-dependent sizes above a few thousand).
func Nat(n int) string { return fmt.Sprintf("%d%%nat", n) }
func N(n int64) string  { return fmt.Sprintf("%d%%N", n) }
func Z(n int64) string {
	if n < 0 {
		return fmt.Sprintf("(%d)%%Z", n)
	}
	return fmt.Sprintf("%d%%Z", n)
}

func List(items []string) string {
	if len(items) == 0 {
		return "[]"
	}
	return "[" + strings.Join(items, "; ") + "]"
}

func HxList(l []string) string {
	items := make([]string, len(l))
	for i, s := range l {
		items[i] = HxS(s)
	}
	return List(items)
}

func OptionOf(present bool, term string) string {
	if present {
		return "(Some " + term + ")"
	}
	return "None"
}

// ---- shards and results ----

// Shard is one cases file: Coq text of each case plus its JSON description (for replays).
type Shard struct {
	Name      string   // e.g. C14_0
	Imports   string   // "From Verif Require Import Base Transform CorrC14."
	CaseType  string   // "CorrC14.case"
	MismatchF string   // "CorrC14.mismatches"
	Terms     []string // one Coq term per case
	Cases     []any    // JSON description per case (same order)
	Prelude   string   // optional extra definitions placed before the case list
}

type OracleFailure struct {
	Key  string `json:"key"`  // stable key (matched against KNOWN_FINDINGS.txt)
	What string `json:"what"` // human description
	Case any    `json:"case"`
}

type ShardInfo struct {
	File      string `json:"file"`
	CasesFile string `json:"cases_file"`
	N         int    `json:"n"`
}

type Result struct {
	Property           string          `json:"property"`
	Tier               string          `json:"tier"`
	Seed               int64           `json:"seed"`
	Shards             []ShardInfo     `json:"shards"`
	OracleFailures     []OracleFailure `json:"oracle_failures"`
	OracleEvaluations  int             `json:"oracle_evaluations"`
	Evaluations        int             `json:"evaluations"`
	DistinctNontrivial int             `json:"distinct_nontrivial"`
	Rule               string          `json:"rule"`
	Samples            []any           `json:"samples"`
	InputDistribution  map[string]int  `json:"input_distribution"`
	Exhaustive         bool            `json:"exhaustive"`
	Notes              []string        `json:"notes,omitempty"`
	// KnownFindingWitnesses: finding keys whose witness was re-run and still reproduces
	KnownReproduced []string `json:"known_reproduced,omitempty"`
}

// WriteShard writes <out>/<name>.v and <out>/<name>.cases.json.
func WriteShard(outDir string, s Shard) (ShardInfo, error) {
	var b strings.Builder
	b.WriteString("From Coq Require Import String.\n" + s.Imports + "\n")
	b.WriteString("Open Scope N_scope.\n")
	if s.Prelude != "" {
		b.WriteString(s.Prelude + "\n")
	}
	// Cases are split into chunks so that no single Gallina list literal gets huge.
	const chunk = 200
	var names []string
	for i := 0; i < len(s.Terms); i += chunk {
		j := i + chunk
		if j > len(s.Terms) {
			j = len(s.Terms)
		}
		name := fmt.Sprintf("cases_%d", i/chunk)
		names = append(names, name)
		fmt.Fprintf(&b, "Definition %s : list %s := [\n  %s\n].\n", name, s.CaseType, strings.Join(s.Terms[i:j], ";\n  "))
	}
	if len(names) == 0 {
		fmt.Fprintf(&b, "Definition cases : list %s := [].\n", s.CaseType)
	} else {
		fmt.Fprintf(&b, "Definition cases : list %s := %s.\n", s.CaseType, strings.Join(names, " ++ ")+"%list")
	}
	fmt.Fprintf(&b, "Definition M := Eval vm_compute in %s cases.\nPrint M.\n", s.MismatchF)
	vf := filepath.Join(outDir, s.Name+".v")
	if err := os.WriteFile(vf, []byte(b.String()), 0o644); err != nil {
		return ShardInfo{}, err
	}
	cj, err := json.Marshal(s.Cases)
	if err != nil {
		return ShardInfo{}, err
	}
	cf := filepath.Join(outDir, s.Name+".cases.json")
	if err := os.WriteFile(cf, cj, 0o644); err != nil {
		return ShardInfo{}, err
	}
	return ShardInfo{File: s.Name + ".v", CasesFile: s.Name + ".cases.json", N: len(s.Terms)}, nil
}

// WriteResult writes <out>/result.json.
func WriteResult(outDir string, r *Result) error {
	if r.InputDistribution == nil {
		r.InputDistribution = map[string]int{}
	}
	if r.OracleFailures == nil {
		r.OracleFailures = []OracleFailure{}
	}
	if r.Samples == nil {
		r.Samples = []any{}
	}
	j, err := json.MarshalIndent(r, "", " ")
	if err != nil {
		return err
	}
	return os.WriteFile(filepath.Join(outDir, "result.json"), j, 0o644)
}

// LoadCorpus returns the JSON documents found in <corpus>/<prop>/*.json, sorted by name.
func LoadCorpus(dir string) ([]json.RawMessage, []string) {
	ents, err := os.ReadDir(dir)
	if err != nil {
		return nil, nil
	}
	var names []string
	for _, e := range ents {
		if strings.HasSuffix(e.Name(), ".json") {
			names = append(names, e.Name())
		}
	}
	sort.Strings(names)
	var docs []json.RawMessage
	for _, n := range names {
		b, err := os.ReadFile(filepath.Join(dir, n))
		if err == nil {
			docs = append(docs, b)
		}
	}
	return docs, names
}

// Driver is implemented by each property package and registered in init().
type Driver func(cfg Config) (*Result, error)

var Drivers = map[string]Driver{}

func Register(prop string, d Driver) { Drivers[strings.ToUpper(prop)] = d }

// Counter is a small histogram helper for input distributions.
type Counter map[string]int

func (c Counter) Inc(k string) { c[k]++ }
