(* ConfigProofs.v — lemmas and proofs for C17 over Config.v *)
From Verif Require Import Base Config.
Open Scope N_scope.

(* ================= generic helpers ================= *)

Lemma filter_filter {A} (p q : A -> bool) l :
  filter p (filter q l) = filter (fun x => q x && p x) l.
Proof.
  induction l as [|x l IH]; cbn [filter]; [reflexivity|].
  destruct (q x); cbn [filter andb]; [destruct (p x)|]; rewrite IH; reflexivity.
Qed.

Lemma filter_ext' {A} (p q : A -> bool) l : (forall x, In x l -> p x = q x) -> filter p l = filter q l.
Proof.
  induction l as [|x l IH]; intro H; cbn [filter]; [reflexivity|].
  rewrite (H x (or_introl eq_refl)), IH; [reflexivity|]. intros y Hy. apply H. right; exact Hy.
Qed.

Lemma filter_all {A} (p : A -> bool) l : (forall x, In x l -> p x = true) -> filter p l = l.
Proof.
  induction l as [|x l IH]; intro H; cbn [filter]; [reflexivity|].
  rewrite (H x (or_introl eq_refl)), IH; [reflexivity|]. intros y Hy; apply H; right; exact Hy.
Qed.

Lemma map_filter_comm {A B} (f : A -> B) (p : B -> bool) (q : A -> bool) l :
  (forall x, In x l -> p (f x) = q x) -> filter p (map f l) = map f (filter q l).
Proof.
  induction l as [|x l IH]; intro H; cbn [map filter]; [reflexivity|].
  rewrite (H x (or_introl eq_refl)). rewrite IH by (intros y Hy; apply H; right; exact Hy).
  destruct (q x); reflexivity.
Qed.

Lemma map_ext_in' {A B} (f g : A -> B) l : (forall x, In x l -> f x = g x) -> map f l = map g l.
Proof. apply map_ext_in. Qed.

(* ================= compile: closed form and unique non-zero ids ================= *)

Fixpoint uniq (rs : list crule) : Prop :=
  match rs with
  | [] => True
  | r :: t => (cr_id r = 0 \/ has_id (cr_id r) t = false) /\ uniq t
  end.

Lemma has_id_app id a b : has_id id (a ++ b) = has_id id a || has_id id b.
Proof. unfold has_id. apply existsb_app. Qed.

Lemma has_id_false_in id rs : has_id id rs = false -> forall r, In r rs -> cr_id r <> id.
Proof.
  unfold has_id. intros H r Hr E.
  assert (existsb (fun r => cr_id r =? id) rs = true) as X.
  { apply existsb_exists. exists r. split; [exact Hr|]. apply N.eqb_eq; exact E. }
  congruence.
Qed.

Lemma has_id_in id rs : has_id id rs = true -> exists r, In r rs /\ cr_id r = id.
Proof.
  unfold has_id. intro H. apply existsb_exists in H as [r [Hr E]]. exists r. split; [exact Hr|].
  apply N.eqb_eq; exact E.
Qed.

Lemma uniq_snoc acc r :
  uniq (acc ++ [r]) <-> uniq acc /\ (cr_id r = 0 \/ has_id (cr_id r) acc = false).
Proof.
  induction acc as [|a acc IH]; cbn [app uniq].
  - unfold has_id; cbn. tauto.
  - rewrite IH, has_id_app.
    replace (has_id (cr_id a) [r]) with (cr_id r =? cr_id a)
      by (unfold has_id; cbn; rewrite orb_false_r; reflexivity).
    replace (has_id (cr_id r) (a :: acc)) with ((cr_id a =? cr_id r) || has_id (cr_id r) acc) by reflexivity.
    rewrite (N.eqb_sym (cr_id r) (cr_id a)).
    destruct (N.eqb_spec (cr_id a) (cr_id r)) as [E|E]; rewrite ?orb_true_r, ?orb_false_r; cbn [orb].
    + rewrite E. intuition (try congruence; try discriminate).
    + tauto.
Qed.

Lemma uniq_app_l a b : uniq (a ++ b) -> uniq a.
Proof.
  induction a as [|x a IH]; cbn [app uniq]; [tauto|]. intros [H1 H2]. split; [|apply IH; exact H2].
  destruct H1 as [H1|H1]; [left; exact H1|right]. rewrite has_id_app in H1. apply orb_false_iff in H1. tauto.
Qed.

Lemma compile_from_closed dflt items : forall acc rs,
  compile_from dflt items acc = Some rs -> rs = acc ++ map (compile_item dflt) items.
Proof.
  induction items as [|it items IH]; intros acc rs H; cbn [compile_from map] in *.
  - inversion H. rewrite app_nil_r. reflexivity.
  - destruct (negb (cr_id (compile_item dflt it) =? 0) && has_id (cr_id (compile_item dflt it)) acc); [discriminate|].
    apply IH in H. rewrite H, <- app_assoc. reflexivity.
Qed.

Lemma compile_from_uniq dflt items : forall acc rs,
  uniq acc -> compile_from dflt items acc = Some rs -> uniq rs.
Proof.
  induction items as [|it items IH]; intros acc rs Hu H; cbn [compile_from] in *.
  - inversion H; subst; exact Hu.
  - destruct (negb (cr_id (compile_item dflt it) =? 0) && has_id (cr_id (compile_item dflt it)) acc) eqn:E; [discriminate|].
    eapply IH; [|exact H]. apply uniq_snoc. split; [exact Hu|].
    apply andb_false_iff in E as [E|E]; [left|right; exact E].
    apply negb_false_iff in E. apply N.eqb_eq; exact E.
Qed.

Lemma compile_from_ok dflt items : forall acc,
  uniq (acc ++ map (compile_item dflt) items) ->
  compile_from dflt items acc = Some (acc ++ map (compile_item dflt) items).
Proof.
  induction items as [|it items IH]; intros acc Hu; cbn [compile_from map] in *.
  - rewrite app_nil_r. reflexivity.
  - assert (uniq ((acc ++ [compile_item dflt it]) ++ map (compile_item dflt) items)) as Hu'
      by (rewrite <- app_assoc; exact Hu).
    pose proof (uniq_app_l _ _ Hu') as Hs. apply uniq_snoc in Hs as [_ Hs].
    replace (negb (cr_id (compile_item dflt it) =? 0) && has_id (cr_id (compile_item dflt it)) acc) with false.
    + rewrite (IH _ Hu'), <- app_assoc. reflexivity.
    + symmetry. destruct Hs as [Hs|Hs]; [rewrite Hs; reflexivity|rewrite Hs; apply andb_false_r].
Qed.

Lemma compile_closed dflt src c : cf_compile dflt src = Some c -> c = map (compile_item dflt) src.
Proof. intro H. apply compile_from_closed in H. exact H. Qed.

Lemma compile_uniq dflt src c : cf_compile dflt src = Some c -> uniq c.
Proof. intro H. eapply compile_from_uniq; [|exact H]. exact I. Qed.

Lemma compile_ok dflt src : uniq (map (compile_item dflt) src) -> cf_compile dflt src = Some (map (compile_item dflt) src).
Proof. intro H. apply (compile_from_ok dflt src []). exact H. Qed.

Lemma has_id_filter id p rs : has_id id (filter p rs) = true -> has_id id rs = true.
Proof.
  intro H. apply has_id_in in H as [r [Hr E]]. apply filter_In in Hr as [Hr _].
  unfold has_id. apply existsb_exists. exists r. split; [exact Hr|apply N.eqb_eq; exact E].
Qed.

Lemma uniq_filter p rs : uniq rs -> uniq (filter p rs).
Proof.
  induction rs as [|r t IH]; cbn [filter uniq]; [tauto|]. intros [H1 H2].
  destruct (p r); cbn [uniq]; [|apply IH; exact H2]. split; [|apply IH; exact H2].
  destruct H1 as [H1|H1]; [left; exact H1|right].
  destruct (has_id (cr_id r) (filter p t)) eqn:E; [|reflexivity]. apply has_id_filter in E. congruence.
Qed.

Lemma has_id_map g id rs : (forall r, cr_id (g r) = cr_id r) -> has_id id (map g rs) = has_id id rs.
Proof.
  intro Hg. unfold has_id. induction rs as [|r t IH]; cbn [map existsb]; [reflexivity|].
  rewrite Hg, IH. reflexivity.
Qed.

Lemma uniq_map g rs : (forall r, cr_id (g r) = cr_id r) -> uniq rs -> uniq (map g rs).
Proof.
  intro Hg. induction rs as [|r t IH]; cbn [map uniq]; [tauto|]. intros [H1 H2].
  rewrite Hg, (has_id_map g _ t Hg). split; [exact H1|apply IH; exact H2].
Qed.

(* ================= links: closed form of parseActions + applyParsedActions ================= *)

Definition ctls_of (acts : list action) : list ctl :=
  flat_map (fun a => match a with ACtl c => [c] | _ => [] end) acts.
Definition disrs_of (acts : list action) : list disr :=
  flat_map (fun a => match a with ADisr d => [d] | _ => [] end) acts.
Definition flows_of (acts : list action) : list flow :=
  flat_map (fun a => match a with ASkipAfter m => [FAfter m] | ASkip n => [FSkip n] | _ => [] end) acts.
Fixpoint status_of (acts : list action) (cur : N) : N :=
  match acts with
  | [] => cur
  | AStatus n :: r => status_of r n
  | _ :: r => status_of r cur
  end.

Definition mrg (d : option disr) (acts : list action) : list action :=
  match d with None => acts | Some x => merge_defaults acts x end.

(* the disruptive action(s) a written action list leaves in the rule: its last disruptive action o,
   merged with the phase default d ("block" and "none" take the default) *)
Definition eff_disr (d : option disr) (o : option disr) : list disr :=
  match o, d with
  | None, None => []
  | None, Some x => [x]
  | Some DBlock, Some x => [x]
  | Some y, _ => [y]
  end.

Lemma fold_act_closed acts : forall l,
  fold_left act_step acts l =
  mkClink (cl_vars l) (cl_op l) (cl_nd l ++ ctls_of acts) (cl_disr l ++ disrs_of acts)
          (cl_flow l ++ flows_of acts) (cl_tags l) (cl_msg l) (status_of acts (cl_status l)).
Proof.
  induction acts as [|a acts IH]; intro l.
  - cbn. rewrite !app_nil_r. destruct l; reflexivity.
  - cbn [fold_left]. rewrite IH.
    destruct a; cbn [act_step cl_vars cl_op cl_nd cl_disr cl_flow cl_tags cl_msg cl_status
                     ctls_of disrs_of flows_of flat_map status_of app];
      rewrite <- ?app_assoc; reflexivity.
Qed.

Lemma fold_meta_closed acts : forall l,
  fold_left meta_step acts l =
  mkClink (cl_vars l) (cl_op l) (cl_nd l) (cl_disr l) (cl_flow l)
          (cl_tags l ++ src_tags acts) (src_msg acts (cl_msg l)) (cl_status l).
Proof.
  induction acts as [|a acts IH]; intro l.
  - cbn. rewrite app_nil_r. destruct l; reflexivity.
  - cbn [fold_left]. rewrite IH.
    destruct a; cbn [meta_step cl_vars cl_op cl_nd cl_disr cl_flow cl_tags cl_msg cl_status src_tags src_msg];
      rewrite <- ?app_assoc; reflexivity.
Qed.

(* --- list algebra of the projections --- *)
Lemma ctls_app a b : ctls_of (a ++ b) = ctls_of a ++ ctls_of b.
Proof. apply flat_map_app. Qed.
Lemma disrs_app a b : disrs_of (a ++ b) = disrs_of a ++ disrs_of b.
Proof. apply flat_map_app. Qed.
Lemma flows_app a b : flows_of (a ++ b) = flows_of a ++ flows_of b.
Proof. apply flat_map_app. Qed.
Lemma status_app a : forall b s, status_of (a ++ b) s = status_of b (status_of a s).
Proof. induction a as [|x a IH]; intros b s; [reflexivity|]. destruct x; cbn [app status_of]; apply IH. Qed.
Lemma tags_app a b : src_tags (a ++ b) = src_tags a ++ src_tags b.
Proof. induction a as [|x a IH]; [reflexivity|]. destruct x; cbn [app src_tags]; rewrite ?IH; reflexivity. Qed.
Lemma msg_app a : forall b m, src_msg (a ++ b) m = src_msg b (src_msg a m).
Proof. induction a as [|x a IH]; intros b m; [reflexivity|]. destruct x; cbn [app src_msg]; apply IH. Qed.

(* filtering out (some) disruptive actions changes only the disruptive projection *)
Section FilterDisr.
Variable p : action -> bool.
Hypothesis p_keeps : forall a, is_disr a = false -> p a = true.

Lemma ctls_filter a : ctls_of (filter p a) = ctls_of a.
Proof.
  induction a as [|x a IH]; [reflexivity|]. cbn [filter].
  destruct (p x) eqn:E; cbn [ctls_of flat_map]; fold (ctls_of a); fold (ctls_of (filter p a)); rewrite IH; [reflexivity|].
  destruct x; try (rewrite p_keeps in E by reflexivity; discriminate). reflexivity.
Qed.
Lemma flows_filter a : flows_of (filter p a) = flows_of a.
Proof.
  induction a as [|x a IH]; [reflexivity|]. cbn [filter].
  destruct (p x) eqn:E; cbn [flows_of flat_map]; fold (flows_of a); fold (flows_of (filter p a)); rewrite IH; [reflexivity|].
  destruct x; try (rewrite p_keeps in E by reflexivity; discriminate). reflexivity.
Qed.
Lemma status_filter a : forall s, status_of (filter p a) s = status_of a s.
Proof.
  induction a as [|x a IH]; intro s; [reflexivity|]. cbn [filter].
  destruct (p x) eqn:E.
  - destruct x; cbn [status_of]; apply IH.
  - destruct x; try (rewrite p_keeps in E by reflexivity; discriminate). cbn [status_of]. apply IH.
Qed.
Lemma tags_filter a : src_tags (filter p a) = src_tags a.
Proof.
  induction a as [|x a IH]; [reflexivity|]. cbn [filter].
  destruct (p x) eqn:E.
  - destruct x; cbn [src_tags]; rewrite IH; reflexivity.
  - destruct x; try (rewrite p_keeps in E by reflexivity; discriminate). cbn [src_tags]. apply IH.
Qed.
Lemma msg_filter a : forall m, src_msg (filter p a) m = src_msg a m.
Proof.
  induction a as [|x a IH]; intro m; [reflexivity|]. cbn [filter].
  destruct (p x) eqn:E.
  - destruct x; cbn [src_msg]; apply IH.
  - destruct x; try (rewrite p_keeps in E by reflexivity; discriminate). cbn [src_msg]. apply IH.
Qed.
End FilterDisr.

Definition nonblock (a : action) : bool := negb (is_block a).
Definition nondisr (a : action) : bool := negb (is_disr a).

Lemma nonblock_keeps a : is_disr a = false -> nonblock a = true.
Proof. destruct a as [| | |[]| | | |]; cbn; congruence. Qed.
Lemma nondisr_keeps a : is_disr a = false -> nondisr a = true.
Proof. unfold nondisr. intro H; rewrite H; reflexivity. Qed.

Lemma disrs_nondisr a : disrs_of (filter nondisr a) = [].
Proof.
  induction a as [|x a IH]; [reflexivity|]. cbn [filter]. destruct x; cbn [nondisr is_disr negb disrs_of flat_map app]; exact IH.
Qed.

Lemma no_disr_filter_nondisr p a : existsb is_disr (filter p (filter nondisr a)) = false.
Proof.
  induction a as [|x a IH]; [reflexivity|]. cbn [filter].
  destruct x; cbn [nondisr is_disr negb filter]; try exact IH; destruct (p _); cbn [existsb is_disr orb]; exact IH.
Qed.

Lemma no_disr_disrs p a : existsb is_disr a = false -> disrs_of (filter p a) = [].
Proof.
  induction a as [|x a IH]; intro H; [reflexivity|]. cbn [existsb] in H. apply orb_false_iff in H as [H1 H2].
  cbn [filter]. destruct (p x); [|apply IH; exact H2].
  destruct x; try discriminate; cbn [disrs_of flat_map app]; apply IH; exact H2.
Qed.

Lemma no_disr_disrs' a : existsb is_disr a = false -> disrs_of a = [].
Proof. intro H. rewrite <- (filter_all (fun _ => true) a) by reflexivity. apply no_disr_disrs; exact H. Qed.

Lemma no_disr_nonblockdisr a : existsb is_disr a = false -> existsb is_nonblock_disr a = false.
Proof.
  induction a as [|x a IH]; intro H; [reflexivity|]. cbn [existsb] in *. apply orb_false_iff in H as [H1 H2].
  unfold is_nonblock_disr at 1. rewrite H1, (IH H2). reflexivity.
Qed.

(* --- the last disruptive action --- *)
Lemma last_disr_app a : forall b c, last_disr (a ++ b) c = last_disr b (last_disr a c).
Proof. induction a as [|x a IH]; intros b c; [reflexivity|]. destruct x; cbn [app last_disr]; apply IH. Qed.

Lemma last_disr_none a : forall c, existsb is_disr a = false -> last_disr a c = c.
Proof.
  induction a as [|x a IH]; intros c H; [reflexivity|]. cbn [existsb] in H. apply orb_false_iff in H as [H1 H2].
  destruct x; try discriminate; cbn [last_disr]; apply IH; exact H2.
Qed.

Lemma last_disr_nondisr a c : last_disr (filter nondisr a) c = c.
Proof.
  apply last_disr_none.
  rewrite <- (filter_all (fun _ => true) (filter nondisr a)) by reflexivity. apply no_disr_filter_nondisr.
Qed.

Lemma last_disr_some a : existsb is_disr a = true ->
  exists y, (forall c, last_disr a c = Some y) /\ In (ADisr y) a.
Proof.
  induction a as [|x a IH]; intro H; [discriminate|]. cbn [existsb] in H.
  destruct (existsb is_disr a) eqn:E.
  - destruct (IH eq_refl) as [y [Hy Hin]]. exists y. split; [|right; exact Hin].
    intro c. destruct x; cbn [last_disr]; apply Hy.
  - destruct x; try discriminate. exists d. split; [|left; reflexivity].
    intro c. cbn [last_disr]. apply last_disr_none; exact E.
Qed.

Lemma last_disr_is_none a : last_disr a None = None -> existsb is_disr a = false.
Proof.
  intro H. destruct (existsb is_disr a) eqn:E; [|reflexivity].
  destruct (last_disr_some a E) as [y [Hy _]]. rewrite Hy in H. discriminate.
Qed.

(* --- norm_acts touches the disruptive projection only --- *)
Lemma norm_ctls a : ctls_of (norm_acts a) = ctls_of a.
Proof.
  unfold norm_acts. destruct (last_disr a None); [|reflexivity]. fold nondisr.
  rewrite ctls_app, (ctls_filter nondisr nondisr_keeps). apply app_nil_r.
Qed.
Lemma norm_flows a : flows_of (norm_acts a) = flows_of a.
Proof.
  unfold norm_acts. destruct (last_disr a None); [|reflexivity]. fold nondisr.
  rewrite flows_app, (flows_filter nondisr nondisr_keeps). apply app_nil_r.
Qed.
Lemma norm_status a s : status_of (norm_acts a) s = status_of a s.
Proof.
  unfold norm_acts. destruct (last_disr a None); [|reflexivity]. fold nondisr.
  rewrite status_app, (status_filter nondisr nondisr_keeps). reflexivity.
Qed.
Lemma norm_tags a : src_tags (norm_acts a) = src_tags a.
Proof.
  unfold norm_acts. destruct (last_disr a None); [|reflexivity]. fold nondisr.
  rewrite tags_app, (tags_filter nondisr nondisr_keeps). apply app_nil_r.
Qed.
Lemma norm_msg a m : src_msg (norm_acts a) m = src_msg a m.
Proof.
  unfold norm_acts. destruct (last_disr a None); [|reflexivity]. fold nondisr.
  rewrite msg_app, (msg_filter nondisr nondisr_keeps). reflexivity.
Qed.

Lemma mrg_ctls d a : ctls_of (mrg d a) = ctls_of a.
Proof.
  destruct d as [x|]; [|reflexivity]. unfold mrg, merge_defaults. fold nonblock.
  destruct (existsb is_nonblock_disr a); rewrite ?ctls_app, (ctls_filter nonblock nonblock_keeps); [reflexivity|apply app_nil_r].
Qed.
Lemma mrg_flows d a : flows_of (mrg d a) = flows_of a.
Proof.
  destruct d as [x|]; [|reflexivity]. unfold mrg, merge_defaults. fold nonblock.
  destruct (existsb is_nonblock_disr a); rewrite ?flows_app, (flows_filter nonblock nonblock_keeps); [reflexivity|apply app_nil_r].
Qed.
Lemma mrg_status d a s : status_of (mrg d a) s = status_of a s.
Proof.
  destruct d as [x|]; [|reflexivity]. unfold mrg, merge_defaults. fold nonblock.
  destruct (existsb is_nonblock_disr a); rewrite ?status_app, (status_filter nonblock nonblock_keeps); reflexivity.
Qed.

Lemma mrg_norm_disrs d a : disrs_of (mrg d (norm_acts a)) = eff_disr d (last_disr a None).
Proof.
  unfold norm_acts. destruct (last_disr a None) as [y|] eqn:E.
  - fold nondisr. destruct d as [x|]; cbn [mrg].
    + unfold merge_defaults. fold nonblock.
      assert (existsb is_disr (filter nondisr a) = false) as Hn.
      { rewrite <- (filter_all (fun _ => true) (filter nondisr a)) by reflexivity. apply no_disr_filter_nondisr. }
      rewrite existsb_app, filter_app, (no_disr_nonblockdisr _ Hn).
      destruct y; cbn [existsb is_nonblock_disr is_disr is_block negb andb orb filter nonblock app];
        rewrite ?disrs_app, (no_disr_disrs nonblock _ Hn); reflexivity.
    + rewrite disrs_app, disrs_nondisr. destruct y; reflexivity.
  - pose proof (last_disr_is_none a E) as Hn. destruct d as [x|]; cbn [mrg eff_disr].
    + unfold merge_defaults. fold nonblock. rewrite (no_disr_nonblockdisr a Hn), disrs_app, (no_disr_disrs nonblock a Hn). reflexivity.
    + apply no_disr_disrs'; exact Hn.
Qed.

Lemma apply_actions_closed d acts l :
  apply_actions d acts l =
  mkClink (cl_vars l) (cl_op l) (cl_nd l ++ ctls_of acts) (cl_disr l ++ eff_disr d (last_disr acts None))
          (cl_flow l ++ flows_of acts) (cl_tags l ++ src_tags acts) (src_msg acts (cl_msg l))
          (status_of acts (cl_status l)).
Proof.
  unfold apply_actions. fold (mrg d (norm_acts acts)). rewrite fold_act_closed, fold_meta_closed.
  cbn [cl_vars cl_op cl_nd cl_disr cl_flow cl_tags cl_msg cl_status].
  rewrite mrg_ctls, mrg_flows, mrg_status, mrg_norm_disrs, norm_ctls, norm_flows, norm_status, norm_tags, norm_msg.
  reflexivity.
Qed.

Lemma compile_link_tags d h : cl_tags (compile_link d h) = src_tags (ls_actions h).
Proof. unfold compile_link. rewrite apply_actions_closed. reflexivity. Qed.
Lemma compile_link_msg d h : cl_msg (compile_link d h) = src_msg (ls_actions h) None.
Proof. unfold compile_link. rewrite apply_actions_closed. reflexivity. Qed.

Lemma set_vars_apply d acts l vs : apply_actions d acts (set_vars l vs) = set_vars (apply_actions d acts l) vs.
Proof. rewrite !apply_actions_closed. reflexivity. Qed.

(* L1: the rule written with the added targets *)
Lemma compile_link_add_targets d items h :
  compile_link d (src_add_targets items h) = update_target items (compile_link d h).
Proof.
  unfold compile_link, update_target, src_add_targets. cbn [ls_targets ls_op ls_actions].
  rewrite !set_vars_apply. unfold set_vars at 1 3 4.
  cbn [cl_vars cl_op cl_nd cl_disr cl_flow cl_tags cl_msg cl_status].
  unfold parse_targets. rewrite fold_left_app. reflexivity.
Qed.

Definition no_block (acts : list action) : bool := forallb nonblock acts.

(* L2: the rule written with the new actions (no "block" among them) *)
Lemma compile_link_add_actions d acts h :
  no_block acts = true ->
  compile_link d (src_add_actions acts h) = update_action acts (compile_link d h).
Proof.
  intro Hnb. unfold compile_link, update_action, src_add_actions. cbn [ls_targets ls_op ls_actions].
  set (l0 := set_vars (empty_link (Some (ls_op h))) (parse_targets (ls_targets h) [])).
  set (O := ls_actions h). fold nondisr.
  destruct (existsb is_disr acts) eqn:Hd.
  - (* the update names a disruptive action: the old ones are replaced *)
    destruct (last_disr_some acts Hd) as [y [Hy Hin]].
    assert (y <> DBlock) as Hyb.
    { intro E. subst y. unfold no_block in Hnb. rewrite forallb_forall in Hnb. specialize (Hnb _ Hin). discriminate. }
    rewrite !apply_actions_closed. unfold clear_disr.
    cbn [cl_vars cl_op cl_nd cl_disr cl_flow cl_tags cl_msg cl_status].
    rewrite last_disr_app, !Hy.
    rewrite ctls_app, flows_app, status_app, tags_app, msg_app.
    rewrite (ctls_filter nondisr nondisr_keeps), (flows_filter nondisr nondisr_keeps),
            (status_filter nondisr nondisr_keeps), (tags_filter nondisr nondisr_keeps), (msg_filter nondisr nondisr_keeps).
    subst l0. cbn [set_vars empty_link cl_vars cl_op cl_nd cl_disr cl_flow cl_tags cl_msg cl_status app].
    replace (eff_disr d (Some y)) with [y] by (destruct y, d; try reflexivity; contradiction).
    replace (eff_disr None (Some y)) with [y] by (destruct y; reflexivity).
    reflexivity.
  - (* no disruptive action in the update: everything is written after the existing actions *)
    rewrite !apply_actions_closed. cbn [cl_vars cl_op cl_nd cl_disr cl_flow cl_tags cl_msg cl_status].
    rewrite last_disr_app, !(last_disr_none acts _ Hd).
    rewrite ctls_app, flows_app, status_app, tags_app, msg_app, <- !app_assoc.
    cbn [eff_disr]. rewrite app_nil_r. reflexivity.
Qed.

(* ================= removal ================= *)

Lemma del_first_filter n rs : n <> 0 -> uniq rs ->
  del_first n rs = filter (fun r => negb (cr_id r =? n)) rs.
Proof.
  intros Hn. induction rs as [|r t IH]; cbn [del_first filter uniq]; [reflexivity|]. intros [H1 H2].
  destruct (N.eqb_spec (cr_id r) n) as [E|E]; cbn [negb].
  - symmetry. apply filter_all. intros x Hx. apply negb_true_iff. apply N.eqb_neq.
    destruct H1 as [H1|H1]; [congruence|]. rewrite E in H1. eapply has_id_false_in; eassumption.
  - rewrite IH by exact H2. reflexivity.
Qed.

Lemma rm_specs_filter l : forall rs rs',
  forallb spec_zero_free l = true -> uniq rs -> rm_specs l rs = Some rs' ->
  rs' = filter (fun r => negb (specs_have l (cr_id r))) rs.
Proof.
  induction l as [|sp l IH]; intros rs rs' Hz Hu H; cbn [rm_specs forallb] in *.
  - inversion H; subst. symmetry. apply filter_all. reflexivity.
  - apply andb_true_iff in Hz as [Hz1 Hz].
    assert (forall rs1, uniq rs1 -> rm_specs l rs1 = Some rs' ->
            rs1 = filter (fun r => negb (spec_has sp (cr_id r))) rs ->
            rs' = filter (fun r => negb (specs_have (sp :: l) (cr_id r))) rs) as K.
    { intros rs1 Hu1 H1 E. rewrite (IH _ _ Hz Hu1 H1), E, filter_filter.
      apply filter_ext'. intros x _. unfold specs_have. cbn [existsb]. rewrite negb_orb. reflexivity. }
    destruct sp as [n|a b].
    + assert (n <> 0) as Hn.
      { unfold spec_zero_free, spec_has in Hz1. apply negb_true_iff in Hz1. apply N.eqb_neq in Hz1. congruence. }
      rewrite (del_first_filter n rs Hn Hu) in H.
      eapply K; [|exact H|reflexivity]. apply uniq_filter; exact Hu.
    + destruct (b <? a); [discriminate|].
      eapply K; [|exact H|reflexivity]. apply uniq_filter; exact Hu.
Qed.

Lemma compile_item_id dflt it :
  cr_id (compile_item dflt it) = match it with SRule id _ _ _ => id | SMarker _ => 0 end.
Proof. destruct it; reflexivity. Qed.

Lemma zero_free_specs l : forallb spec_zero_free l = true -> specs_have l 0 = false.
Proof.
  induction l as [|s r IH]; [reflexivity|]. cbn [forallb specs_have existsb]. intro H.
  apply andb_true_iff in H as [H1 H2]. unfold specs_have in IH. rewrite (IH H2), orb_false_r.
  unfold spec_zero_free in H1. apply negb_true_iff in H1. exact H1.
Qed.

(* ---- C17_remove_equiv ---- *)

Definition is_remove (d : directive) : bool :=
  match d with DRemoveById _ | DRemoveByTag _ | DRemoveByMsg _ => true | _ => false end.

Lemma remove_structural dflt src c d c' :
  cf_compile dflt src = Some c -> is_remove d = true -> zero_free d = true ->
  cf_apply d c = Some c' -> cf_compile dflt (cf_rewrite d src) = Some c'.
Proof.
  intros Hc Hr Hz Ha. pose proof (compile_uniq _ _ _ Hc) as Hu. apply compile_closed in Hc. subst c.
  assert (forall (p : crule -> bool) (q : item_src -> bool),
            (forall it, In it src -> p (compile_item dflt it) = q it) ->
            c' = filter p (map (compile_item dflt) src) ->
            cf_compile dflt (filter q src) = Some c') as K.
  { intros p q Hpq E. rewrite (map_filter_comm _ p q src Hpq) in E. subst c'.
    apply compile_ok. rewrite <- (map_filter_comm _ p q src Hpq). apply uniq_filter. exact Hu. }
  destruct d as [l|t|m| | |]; try discriminate; cbn [cf_apply cf_rewrite zero_free] in *.
  - destruct l as [|sp l]; [discriminate|].
    eapply K; [|eapply rm_specs_filter; eassumption].
    intros it _. cbv beta. rewrite compile_item_id. destruct it as [id ph h ch|nm]; cbn [src_keep]; [reflexivity|].
    (* a marker has id 0, not covered by a zero-free list *)
    rewrite (zero_free_specs _ Hz). reflexivity.
  - inversion Ha; subst c'. eapply K; [|reflexivity].
    intros it _. destruct it as [id ph h ch|nm]; cbn [compile_item src_keep cr_head marker_rule empty_link cl_tags mem_bytes negb].
    + rewrite compile_link_tags. reflexivity.
    + reflexivity.
  - inversion Ha; subst c'. eapply K; [|reflexivity].
    intros it _. destruct it as [id ph h ch|nm]; cbn [compile_item src_keep cr_head marker_rule empty_link cl_msg opt_bytes_is negb].
    + rewrite compile_link_msg. reflexivity.
    + reflexivity.
Qed.

Theorem remove_equiv rx dflt src c d c' rq :
  cf_compile dflt src = Some c -> is_remove d = true -> zero_free d = true -> cf_apply d c = Some c' ->
  exists c'', cf_compile dflt (cf_rewrite d src) = Some c'' /\ cf_outcome rx c' rq = cf_outcome rx c'' rq.
Proof. intros. exists c'. split; [eapply remove_structural; eassumption|reflexivity]. Qed.

(* ================= updates: the id loop in closed form ================= *)

Definition spec_map (sp : idspec) (f : crule -> crule) (rs : list crule) : list crule :=
  map (fun r => if spec_has sp (cr_id r) then f r else r) rs.

Lemma upd_first_map n f rs : forall rs', n <> 0 -> uniq rs -> upd_first n f rs = Some rs' ->
  rs' = map (fun r => if cr_id r =? n then f r else r) rs.
Proof.
  induction rs as [|r t IH]; intros rs' Hn Hu H; cbn [upd_first map uniq] in *; [discriminate|].
  destruct Hu as [H1 H2]. destruct (N.eqb_spec (cr_id r) n) as [E|E].
  - inversion H; subst rs'. f_equal. symmetry. rewrite <- (map_id t) at 2. apply map_ext_in. intros x Hx.
    destruct (N.eqb_spec (cr_id x) n) as [E'|_]; [|reflexivity]. exfalso.
    destruct H1 as [H1|H1]; [congruence|]. rewrite E in H1. exact (has_id_false_in _ _ H1 _ Hx E').
  - destruct (upd_first n f t) as [t'|] eqn:Et; [|discriminate]. inversion H; subst rs'.
    rewrite (IH t' Hn H2 eq_refl). reflexivity.
Qed.

Lemma upd_first_none n f rs : upd_first n f rs = None ->
  map (fun r => if cr_id r =? n then f r else r) rs = rs.
Proof.
  induction rs as [|r t IH]; cbn [upd_first map]; [reflexivity|].
  destruct (cr_id r =? n); [discriminate|]. destruct (upd_first n f t); [discriminate|].
  intros _. rewrite IH; reflexivity.
Qed.

Lemma in_rng_same a id : in_rng a a id = (id =? a).
Proof.
  unfold in_rng. destruct (N.eqb_spec id a) as [E|E].
  - subst. rewrite N.leb_refl. reflexivity.
  - destruct (N.leb_spec a id), (N.leb_spec id a); try reflexivity. lia.
Qed.

Lemma uniq_spec_map sp f rs : (forall r, cr_id (f r) = cr_id r) -> uniq rs -> uniq (spec_map sp f rs).
Proof.
  intros Hf Hu. unfold spec_map. apply uniq_map; [|exact Hu].
  intro r. destruct (spec_has sp (cr_id r)); [apply Hf|reflexivity].
Qed.

Lemma upd_specs_fold single f l : forall rs rs',
  (forall r, cr_id (f r) = cr_id r) -> forallb spec_zero_free l = true -> uniq rs ->
  upd_specs single f l rs = Some rs' -> rs' = fold_left (fun rs sp => spec_map sp f rs) l rs.
Proof.
  induction l as [|sp l IH]; intros rs rs' Hf Hz Hu H; cbn [upd_specs fold_left forallb] in *.
  - inversion H; reflexivity.
  - apply andb_true_iff in Hz as [Hz1 Hz]. unfold spec_zero_free in Hz1. apply negb_true_iff in Hz1.
    destruct sp as [n|a b]; cbn [spec_has] in Hz1.
    + assert (n <> 0) as Hn by (apply N.eqb_neq in Hz1; congruence).
      destruct (upd_first n f rs) as [rs1|] eqn:E.
      * pose proof (upd_first_map n f rs rs1 Hn Hu E) as E1.
        assert (rs1 = spec_map (IdOne n) f rs) as E2 by exact E1.
        rewrite <- E2. apply IH; try assumption. rewrite E2. apply uniq_spec_map; assumption.
      * destruct single; [discriminate|].
        assert (spec_map (IdOne n) f rs = rs) as E2 by (apply (upd_first_none n f rs E)).
        rewrite E2. apply IH; assumption.
    + destruct (N.eqb_spec a b) as [Eab|Eab].
      * subst b. rewrite in_rng_same in Hz1.
        assert (a <> 0) as Hn by (apply N.eqb_neq in Hz1; congruence).
        destruct (upd_first a f rs) as [rs1|] eqn:E; [|discriminate].
        pose proof (upd_first_map a f rs rs1 Hn Hu E) as E1.
        assert (rs1 = spec_map (IdRange a a) f rs) as E2.
        { rewrite E1. unfold spec_map. apply map_ext. intro r. cbn [spec_has]. rewrite in_rng_same. reflexivity. }
        rewrite <- E2. apply IH; try assumption. rewrite E2. apply uniq_spec_map; assumption.
      * destruct (b <? a); [discriminate|].
        change (upd_range a b f rs) with (spec_map (IdRange a b) f rs) in H.
        apply IH; try assumption. apply uniq_spec_map; assumption.
Qed.

Lemma uniq_fold_spec_map f l : forall rs,
  (forall r, cr_id (f r) = cr_id r) -> uniq rs -> uniq (fold_left (fun rs sp => spec_map sp f rs) l rs).
Proof.
  induction l as [|sp l IH]; intros rs Hf Hu; cbn [fold_left]; [exact Hu|].
  apply IH; [exact Hf|]. apply uniq_spec_map; assumption.
Qed.

(* the source-level rewriting of one id field commutes with compilation *)
Lemma compile_src_upd dflt (p : N -> bool) g f src :
  p 0 = false ->
  (forall id ph h ch, compile_item dflt (SRule id ph (g h) ch) = f (compile_item dflt (SRule id ph h ch))) ->
  map (compile_item dflt) (map (src_upd (fun id _ => p id) g) src)
  = map (fun r => if p (cr_id r) then f r else r) (map (compile_item dflt) src).
Proof.
  intros H0 Hg. rewrite !map_map. apply map_ext. intro it.
  rewrite compile_item_id. destruct it as [id ph h ch|nm]; cbn [src_upd].
  - destruct (p id); [apply Hg|reflexivity].
  - rewrite H0. reflexivity.
Qed.

Lemma compile_fold_upd dflt g f l : forall src,
  forallb spec_zero_free l = true ->
  (forall id ph h ch, compile_item dflt (SRule id ph (g h) ch) = f (compile_item dflt (SRule id ph h ch))) ->
  map (compile_item dflt) (fold_left (fun s sp => map (src_upd (fun id _ => spec_has sp id) g) s) l src)
  = fold_left (fun rs sp => spec_map sp f rs) l (map (compile_item dflt) src).
Proof.
  induction l as [|sp l IH]; intros src Hz Hg; cbn [fold_left forallb] in *; [reflexivity|].
  apply andb_true_iff in Hz as [Hz1 Hz]. rewrite (IH _ Hz Hg). f_equal.
  unfold spec_map. apply (compile_src_upd dflt (spec_has sp) g f src); [|exact Hg].
  unfold spec_zero_free in Hz1. apply negb_true_iff in Hz1. exact Hz1.
Qed.

(* ================= C17_update_target_equiv / C17_update_action_equiv ================= *)

Lemma on_head_id g r : cr_id (on_head g r) = cr_id r.
Proof. reflexivity. Qed.

Lemma upd_by_id_structural dflt src c l (g : link_src -> link_src) (gc : clink -> clink) c' :
  (forall d h, compile_link d (g h) = gc (compile_link d h)) ->
  cf_compile dflt src = Some c -> forallb spec_zero_free l = true ->
  upd_specs (is_single l) (on_head gc) l c = Some c' ->
  cf_compile dflt (fold_left (fun s sp => map (src_upd (fun id _ => spec_has sp id) g) s) l src) = Some c'.
Proof.
  intros Hg Hc Hz Ha. pose proof (compile_uniq _ _ _ Hc) as Hu. apply compile_closed in Hc. subst c.
  pose proof (upd_specs_fold _ _ _ _ _ (on_head_id gc) Hz Hu Ha) as E.
  assert (forall id ph h ch, compile_item dflt (SRule id ph (g h) ch) = on_head gc (compile_item dflt (SRule id ph h ch))) as Hci.
  { intros. cbn [compile_item]. unfold on_head, set_head. cbn [cr_id cr_phase cr_mark cr_head cr_chain]. rewrite Hg. reflexivity. }
  rewrite <- (compile_fold_upd dflt g (on_head gc) l src Hz Hci) in E.
  subst c'. apply compile_ok. rewrite (compile_fold_upd dflt g (on_head gc) l src Hz Hci).
  apply uniq_fold_spec_map; [apply on_head_id|exact Hu].
Qed.

Lemma update_target_structural dflt src c d c' :
  cf_compile dflt src = Some c -> zero_free d = true ->
  (exists l items, d = DUpdTargetById l items) \/ (exists t items, d = DUpdTargetByTag t items) ->
  cf_apply d c = Some c' -> cf_compile dflt (cf_rewrite d src) = Some c'.
Proof.
  intros Hc Hz [[l [items E]]|[t [items E]]] Ha; subst d; cbn [cf_apply cf_rewrite zero_free] in *.
  - destruct l as [|sp l]; [discriminate|].
    eapply upd_by_id_structural; try eassumption. intros; apply compile_link_add_targets.
  - inversion Ha; subst c'. pose proof (compile_uniq _ _ _ Hc) as Hu. apply compile_closed in Hc. subst c.
    assert (map (compile_item dflt)
              (map (src_upd (fun _ h => mem_bytes t (src_tags (ls_actions h))) (src_add_targets items)) src)
            = upd_tag t (on_head (update_target items)) (map (compile_item dflt) src)) as E.
    { unfold upd_tag. rewrite !map_map. apply map_ext. intro it.
      destruct it as [id ph h ch|nm]; cbn [src_upd].
      - cbn [compile_item cr_head]. rewrite compile_link_tags.
        destruct (mem_bytes t (src_tags (ls_actions h))); [|reflexivity].
        cbn [compile_item]. unfold on_head, set_head. cbn [cr_id cr_phase cr_mark cr_head cr_chain].
        rewrite compile_link_add_targets. reflexivity.
      - reflexivity. }
    rewrite <- E. apply compile_ok. rewrite E. unfold upd_tag. apply uniq_map; [|exact Hu].
    intro r. destruct (mem_bytes t (cl_tags (cr_head r))); reflexivity.
Qed.

Theorem update_target_equiv rx dflt src c d c' rq :
  cf_compile dflt src = Some c -> zero_free d = true ->
  (exists l items, d = DUpdTargetById l items) \/ (exists t items, d = DUpdTargetByTag t items) ->
  cf_apply d c = Some c' ->
  exists c'', cf_compile dflt (cf_rewrite d src) = Some c'' /\ cf_outcome rx c' rq = cf_outcome rx c'' rq.
Proof. intros. exists c'. split; [eapply update_target_structural; eassumption|reflexivity]. Qed.

Lemma update_action_structural dflt src c l acts c' :
  cf_compile dflt src = Some c -> forallb spec_zero_free l = true -> no_block acts = true ->
  cf_apply (DUpdActionById l acts) c = Some c' ->
  cf_compile dflt (cf_rewrite (DUpdActionById l acts) src) = Some c'.
Proof.
  intros Hc Hz Hb Ha. cbn [cf_apply cf_rewrite] in *. destruct l as [|sp l]; [discriminate|].
  eapply upd_by_id_structural; try eassumption. intros; apply compile_link_add_actions; exact Hb.
Qed.

Theorem update_action_equiv_partial rx dflt src c l acts c' rq :
  cf_compile dflt src = Some c -> forallb spec_zero_free l = true -> no_block acts = true ->
  cf_apply (DUpdActionById l acts) c = Some c' ->
  exists c'', cf_compile dflt (cf_rewrite (DUpdActionById l acts) src) = Some c'' /\
              cf_outcome rx c' rq = cf_outcome rx c'' rq.
Proof. intros. exists c'. split; [eapply update_action_structural; eassumption|reflexivity]. Qed.

(* ================= lists and ranges enumerate their members ================= *)

Definition obind {A B} (o : option A) (f : A -> option B) : option B :=
  match o with Some x => f x | None => None end.

Lemma rm_specs_app l1 : forall l2 rs, rm_specs (l1 ++ l2) rs = obind (rm_specs l1 rs) (rm_specs l2).
Proof.
  induction l1 as [|sp l1 IH]; intros l2 rs; [reflexivity|]. cbn [app rm_specs].
  destruct sp as [n|a b]; [apply IH|]. destruct (b <? a); [reflexivity|apply IH].
Qed.

Lemma upd_specs_app single f l1 : forall l2 rs,
  upd_specs single f (l1 ++ l2) rs = obind (upd_specs single f l1 rs) (upd_specs single f l2).
Proof.
  induction l1 as [|sp l1 IH]; intros l2 rs; [reflexivity|]. cbn [app upd_specs].
  destruct sp as [n|a b].
  - destruct (upd_first n f rs); [apply IH|]. destruct single; [reflexivity|apply IH].
  - destruct (a =? b).
    + destruct (upd_first a f rs); [apply IH|reflexivity].
    + destruct (b <? a); [reflexivity|apply IH].
Qed.

(* the ids of the rule list that fall into a range, in list order *)
Definition present (a b : N) (rs : list crule) : list N := filter (in_rng a b) (map cr_id rs).

Lemma fold_del_first_skip ids : forall r t,
  (forall i, In i ids -> cr_id r <> i) ->
  fold_left (fun rs i => del_first i rs) ids (r :: t) = r :: fold_left (fun rs i => del_first i rs) ids t.
Proof.
  induction ids as [|i ids IH]; intros r t H; [reflexivity|]. cbn [fold_left del_first].
  destruct (N.eqb_spec (cr_id r) i) as [E|E]; [exfalso; exact (H i (or_introl eq_refl) E)|].
  apply IH. intros j Hj. apply H. right; exact Hj.
Qed.

(* SecRuleRemoveById a-b = SecRuleRemoveById i for every present member i (no uniqueness needed:
   DeleteByID removes one rule per call) *)
Lemma del_range_enumerate a b rs :
  del_range a b rs = fold_left (fun rs i => del_first i rs) (present a b rs) rs.
Proof.
  unfold present. induction rs as [|r t IH]; [reflexivity|]. cbn [del_range filter map].
  destruct (in_rng a b (cr_id r)) eqn:E; cbn [negb fold_left del_first].
  - rewrite N.eqb_refl. exact IH.
  - rewrite fold_del_first_skip.
    + f_equal. exact IH.
    + intros i Hi Ei. apply filter_In in Hi as [_ Hi]. congruence.
Qed.

Definition upd_first_or_skip (i : N) (f : crule -> crule) (rs : list crule) : list crule :=
  match upd_first i f rs with Some rs' => rs' | None => rs end.

Lemma fold_upd_first_skip f ids : forall r t,
  (forall i, In i ids -> cr_id r <> i) ->
  fold_left (fun rs i => upd_first_or_skip i f rs) ids (r :: t)
  = r :: fold_left (fun rs i => upd_first_or_skip i f rs) ids t.
Proof.
  induction ids as [|i ids IH]; intros r t H; [reflexivity|]. cbn [fold_left].
  unfold upd_first_or_skip at 2 4. cbn [upd_first].
  destruct (N.eqb_spec (cr_id r) i) as [E|E]; [exfalso; exact (H i (or_introl eq_refl) E)|].
  assert (forall j, In j ids -> cr_id r <> j) as H' by (intros j Hj; apply H; right; exact Hj).
  destruct (upd_first i f t); apply IH; exact H'.
Qed.

(* SecRuleUpdate…ById a-b = the single-id update for every present member, when non-zero ids are
   unique and the range does not cover 0 *)
Lemma upd_range_enumerate a b f rs :
  (forall r, cr_id (f r) = cr_id r) -> in_rng a b 0 = false -> uniq rs ->
  upd_range a b f rs = fold_left (fun rs i => upd_first_or_skip i f rs) (present a b rs) rs.
Proof.
  intros Hf H0. unfold present. induction rs as [|r t IH]; intro Hu; [reflexivity|].
  cbn [upd_range map filter uniq] in *. destruct Hu as [H1 H2].
  destruct (in_rng a b (cr_id r)) eqn:E; cbn [fold_left].
  - unfold upd_first_or_skip at 2. cbn [upd_first]. rewrite N.eqb_refl.
    rewrite fold_upd_first_skip.
    + f_equal. apply IH; exact H2.
    + intros i Hi Ei. apply filter_In in Hi as [Hi _]. apply in_map_iff in Hi as [x [Ex Hx]].
      rewrite Hf in Ei. destruct H1 as [H1|H1]; [rewrite H1 in E; congruence|].
      apply (has_id_false_in _ _ H1 x Hx). congruence.
  - rewrite fold_upd_first_skip.
    + f_equal. apply IH; exact H2.
    + intros i Hi Ei. apply filter_In in Hi as [_ Hi]. congruence.
Qed.

Theorem lists_ranges_enumerate :
  (* a list of id fields = the fields one after the other *)
  (forall l1 l2 rs, cf_apply (DRemoveById (l1 ++ l2)) rs
                    = match l1, l2 with
                      | [], _ => cf_apply (DRemoveById l2) rs
                      | _, [] => cf_apply (DRemoveById l1) rs
                      | _, _ => obind (cf_apply (DRemoveById l1) rs) (cf_apply (DRemoveById l2))
                      end) /\
  (forall single f l1 l2 rs,
      upd_specs single f (l1 ++ l2) rs = obind (upd_specs single f l1 rs) (upd_specs single f l2)) /\
  (* a range = its present members one after the other *)
  (forall a b rs, a <= b ->
      cf_apply (DRemoveById [IdRange a b]) rs
      = Some (fold_left (fun rs i => del_first i rs) (present a b rs) rs)) /\
  (forall a b f rs, (forall r, cr_id (f r) = cr_id r) -> in_rng a b 0 = false -> uniq rs ->
      upd_range a b f rs = fold_left (fun rs i => upd_first_or_skip i f rs) (present a b rs) rs).
Proof.
  repeat split.
  - intros l1 l2 rs. destruct l1 as [|s1 l1]; [reflexivity|]. destruct l2 as [|s2 l2].
    + rewrite app_nil_r. reflexivity.
    + cbn [cf_apply app]. change (s1 :: l1 ++ s2 :: l2) with ((s1 :: l1) ++ s2 :: l2).
      rewrite rm_specs_app. destruct (rm_specs (s1 :: l1) rs); reflexivity.
  - intros. apply upd_specs_app.
  - intros a b rs Hab. cbn [cf_apply rm_specs]. destruct (N.ltb_spec b a); [lia|].
    rewrite del_range_enumerate. reflexivity.
  - intros. apply upd_range_enumerate; assumption.
Qed.

(* ================= one transaction does not change what the next one sees ================= *)
Lemma serve_local : forall rx rules rqs1 rq rqs2,
  nth (length rqs1) (cf_serve rx rules (rqs1 ++ rq :: rqs2)) ([], None) = cf_outcome rx rules rq.
Proof.
  intros. unfold cf_serve. rewrite map_app. cbn [map].
  rewrite app_nth2; rewrite map_length; [|lia]. rewrite Nat.sub_diag. reflexivity.
Qed.

(* ================= run-time ctl: simulation between the transaction that executed the ctl and
   the same transaction over the rewritten rule list ================= *)

Definition same_obs (s1 s2 : txst) : Prop :=
  st_skip s1 = st_skip s2 /\ st_intr s1 = st_intr s2 /\ st_matched s1 = st_matched s2 /\ st_skipn s1 = st_skipn s2.

(* matched rules with data, interruption, pending marker, pending skip counter *)
Definition obs (s : txst) := (st_matched s, st_intr s, st_skip s, st_skipn s).

Lemma same_obs_obs s1 s2 : same_obs s1 s2 -> obs s1 = obs s2.
Proof. intros [A [B [C D]]]. unfold obs. rewrite A, B, C, D. reflexivity. Qed.

(* the ctl family never touches skip / interruption / matched rules *)
Lemma ctl_step_skip rules c s : st_skip (cf_ctl_step rules c s) = st_skip s.
Proof. destruct c as [[n|a b]| | |sp v k| |]; cbn [cf_ctl_step]; try reflexivity;
       try (destruct (a <=? b); reflexivity); destruct (spec_valid sp); reflexivity. Qed.
Lemma ctl_step_intr rules c s : st_intr (cf_ctl_step rules c s) = st_intr s.
Proof. destruct c as [[n|a b]| | |sp v k| |]; cbn [cf_ctl_step]; try reflexivity;
       try (destruct (a <=? b); reflexivity); destruct (spec_valid sp); reflexivity. Qed.
Lemma ctl_step_matched rules c s : st_matched (cf_ctl_step rules c s) = st_matched s.
Proof. destruct c as [[n|a b]| | |sp v k| |]; cbn [cf_ctl_step]; try reflexivity;
       try (destruct (a <=? b); reflexivity); destruct (spec_valid sp); reflexivity. Qed.

Lemma ctl_step_skipn rules c s : st_skipn (cf_ctl_step rules c s) = st_skipn s.
Proof. destruct c as [[n|a b]| | |sp v k| |]; cbn [cf_ctl_step]; try reflexivity;
       try (destruct (a <=? b); reflexivity); destruct (spec_valid sp); reflexivity. Qed.

Section Sim.
Variable rx : bytes -> bytes -> bool.
Variables all1 all2 : list crule.
Variable RX : txst -> txst -> Prop.     (* relates the exclusion parts only *)

Hypothesis RX_frame : forall s1 s2, RX s1 s2 -> forall k1 i1 m1 n1 k2 i2 m2 n2,
  RX (mkSt (st_rm s1) (st_rng s1) (st_texc s1) k1 i1 m1 n1) (mkSt (st_rm s2) (st_rng s2) (st_texc s2) k2 i2 m2 n2).
Hypothesis RX_ctl : forall c s1 s2, RX s1 s2 -> RX (cf_ctl_step all1 c s1) (cf_ctl_step all2 c s2).

Definition Rel (s1 s2 : txst) : Prop := RX s1 s2 /\ same_obs s1 s2.

(* link correspondence under a parent id *)
Definition LC (rq : request) (pid : N) (l1 l2 : clink) : Prop :=
  cl_nd l1 = cl_nd l2 /\
  forall s1 s2, RX s1 s2 -> link_matches rx l1 (texc_for s1 pid) rq = link_matches rx l2 (texc_for s2 pid) rq.

Definition RC (rq : request) (r1 r2 : crule) : Prop :=
  cr_id r1 = cr_id r2 /\ cr_phase r1 = cr_phase r2 /\ cr_mark r1 = cr_mark r2 /\
  cl_disr (cr_head r1) = cl_disr (cr_head r2) /\ cl_flow (cr_head r1) = cl_flow (cr_head r2) /\
  cl_status (cr_head r1) = cl_status (cr_head r2) /\
  LC rq (cr_id r1) (cr_head r1) (cr_head r2) /\ Forall2 (LC rq (cr_id r1)) (cr_chain r1) (cr_chain r2) /\
  (forall s1 s2, RX s1 s2 -> is_removed s1 (cr_id r1) = is_removed s2 (cr_id r2)).

Lemma Rel_ctl c s1 s2 : Rel s1 s2 -> Rel (cf_ctl_step all1 c s1) (cf_ctl_step all2 c s2).
Proof.
  intros [H [A [B [C D]]]]. split; [apply RX_ctl; exact H|].
  unfold same_obs. rewrite !ctl_step_skip, !ctl_step_intr, !ctl_step_matched, !ctl_step_skipn. auto.
Qed.

Lemma Rel_run_nd cs : forall s1 s2, Rel s1 s2 -> Rel (run_nd all1 cs s1) (run_nd all2 cs s2).
Proof.
  unfold run_nd. induction cs as [|c cs IH]; intros s1 s2 H; cbn [fold_left]; [exact H|].
  apply IH. apply Rel_ctl; exact H.
Qed.

Lemma Rel_set_skip m s1 s2 : Rel s1 s2 -> Rel (st_set_skip m s1) (st_set_skip m s2).
Proof.
  intros [H [A [B [C D]]]]. split; [apply RX_frame; exact H|]. unfold same_obs, st_set_skip; cbn. auto.
Qed.

Lemma Rel_set_skipn n s1 s2 : Rel s1 s2 -> Rel (st_set_skipn n s1) (st_set_skipn n s2).
Proof.
  intros [H [A [B [C D]]]]. split; [apply RX_frame; exact H|]. unfold same_obs, st_set_skipn; cbn. auto.
Qed.

Lemma Rel_end_phase s1 s2 : Rel s1 s2 -> Rel (st_end_phase s1) (st_end_phase s2).
Proof. intro H. apply Rel_set_skipn, Rel_set_skip, H. Qed.

Lemma Rel_exec_flow f s1 s2 : Rel s1 s2 -> Rel (exec_flow f s1) (exec_flow f s2).
Proof. intro H. destruct f; cbn [exec_flow]; [apply Rel_set_skip|apply Rel_set_skipn]; exact H. Qed.

Lemma Rel_interrupt i s1 s2 : Rel s1 s2 -> Rel (st_interrupt i s1) (st_interrupt i s2).
Proof.
  intros [H [A [B [C D]]]]. unfold st_interrupt. rewrite <- B. destruct (st_intr s1) eqn:E1.
  - split; [exact H|]. unfold same_obs. rewrite E1. auto.
  - split; [apply RX_frame; exact H|]. unfold same_obs; cbn. auto.
Qed.

Lemma Rel_exec_disr id stt d s1 s2 : Rel s1 s2 -> Rel (exec_disr id stt d s1) (exec_disr id stt d s2).
Proof. intro H. destruct d; cbn [exec_disr]; try exact H; apply Rel_interrupt; exact H. Qed.

Lemma Rel_add_match id m s1 s2 : Rel s1 s2 -> Rel (st_add_match id m s1) (st_add_match id m s2).
Proof.
  intros [H [A [B [C D]]]]. split; [apply RX_frame; exact H|]. unfold same_obs, st_add_match; cbn. rewrite C. auto.
Qed.

Lemma Rel_fold_disr id stt ds : forall s1 s2, Rel s1 s2 ->
  Rel (fold_left (fun s d => exec_disr id stt d s) ds s1) (fold_left (fun s d => exec_disr id stt d s) ds s2).
Proof. induction ds as [|d ds IH]; intros s1 s2 H; cbn [fold_left]; [exact H|]. apply IH, Rel_exec_disr, H. Qed.

Lemma Rel_fold_skip ms : forall s1 s2, Rel s1 s2 ->
  Rel (fold_left (fun s f => exec_flow f s) ms s1) (fold_left (fun s f => exec_flow f s) ms s2).
Proof. induction ms as [|m ms IH]; intros s1 s2 H; cbn [fold_left]; [exact H|]. apply IH, Rel_exec_flow, H. Qed.

Lemma Rel_eval_chain rq pid ch1 : forall ch2 s1 s2 acc,
  Forall2 (LC rq pid) ch1 ch2 -> Rel s1 s2 ->
  Rel (fst (eval_chain rx all1 pid ch1 rq s1 acc)) (fst (eval_chain rx all2 pid ch2 rq s2 acc)) /\
  snd (eval_chain rx all1 pid ch1 rq s1 acc) = snd (eval_chain rx all2 pid ch2 rq s2 acc).
Proof.
  induction ch1 as [|l1 ch1 IH]; intros ch2 s1 s2 acc HF HR; inversion HF; subst; cbn [eval_chain].
  - split; [exact HR|reflexivity].
  - match goal with H : LC _ _ l1 _ |- _ => destruct H as [Hnd Hm] end.
    rewrite (Hm s1 s2 (proj1 HR)).
    destruct (link_matches rx y (texc_for s2 pid) rq) as [|m0 ms]; [split; [exact HR|reflexivity]|].
    rewrite Hnd. apply IH; [assumption|]. apply Rel_run_nd; exact HR.
Qed.

Lemma Rel_eval_rule rq r1 r2 s1 s2 :
  RC rq r1 r2 -> Rel s1 s2 -> Rel (eval_rule rx all1 r1 rq s1) (eval_rule rx all2 r2 rq s2).
Proof.
  intros [Hid [_ [_ [Hd [Hf [Hs [[Hnd Hm] [Hch _]]]]]]]] HR. unfold eval_rule.
  rewrite <- Hid. rewrite (Hm s1 s2 (proj1 HR)).
  destruct (link_matches rx (cr_head r2) (texc_for s2 (cr_id r1)) rq) as [|m0 ms]; [exact HR|].
  rewrite Hnd.
  pose proof (Rel_eval_chain rq (cr_id r1) (cr_chain r1) (cr_chain r2) _ _ (m0 :: ms) Hch
                (Rel_run_nd (cl_nd (cr_head r2)) _ _ HR)) as [K1 K2].
  destruct (eval_chain rx all1 (cr_id r1) (cr_chain r1) rq (run_nd all1 (cl_nd (cr_head r2)) s1) (m0 :: ms)) as [t1 o1].
  destruct (eval_chain rx all2 (cr_id r1) (cr_chain r2) rq (run_nd all2 (cl_nd (cr_head r2)) s2) (m0 :: ms)) as [t2 o2].
  cbn [fst snd] in K1, K2. subst o2. destruct o1 as [mm|]; [|exact K1].
  rewrite Hd, Hf, Hs.
  assert (Rel (fold_left (fun s f => exec_flow f s) (cl_flow (cr_head r2))
                 (fold_left (fun s d => exec_disr (cr_id r1) (cl_status (cr_head r2)) d s) (cl_disr (cr_head r2)) t1))
              (fold_left (fun s f => exec_flow f s) (cl_flow (cr_head r2))
                 (fold_left (fun s d => exec_disr (cr_id r1) (cl_status (cr_head r2)) d s) (cl_disr (cr_head r2)) t2))) as K3
    by (apply Rel_fold_skip, Rel_fold_disr, K1).
  destruct (cr_id r1 =? 0); [exact K3|apply Rel_add_match; exact K3].
Qed.

Lemma Rel_eval_step ph rq r1 r2 s1 s2 :
  RC rq r1 r2 -> Rel s1 s2 -> Rel (eval_step rx all1 ph rq s1 r1) (eval_step rx all2 ph rq s2 r2).
Proof.
  intros HC HR. pose proof HC as [Hid [Hph [Hmk [_ [_ [_ [_ [_ Hrm]]]]]]]]. unfold eval_step.
  rewrite <- Hph. destruct (negb (cr_phase r1 =? 0) && negb (cr_phase r1 =? ph)); [exact HR|].
  rewrite <- (Hrm s1 s2 (proj1 HR)). destruct (is_removed s1 (cr_id r1)); [exact HR|].
  destruct HR as [HX [A [B [C D]]]]. rewrite <- A, <- Hmk, <- D.
  assert (Rel s1 s2) as HR by (split; [exact HX|unfold same_obs; auto]).
  destruct (negb (bytes_nil (st_skip s1))).
  - destruct (bytes_eqb (cr_mark r1) (st_skip s1)); [apply Rel_set_skip|]; exact HR.
  - destruct (0 <? st_skipn s1).
    + rewrite D. apply Rel_set_skipn; exact HR.
    + apply Rel_eval_rule; [exact HC|exact HR].
Qed.

Lemma Rel_eval_list ph rq rs1 : forall rs2 s1 s2,
  Forall2 (RC rq) rs1 rs2 -> Rel s1 s2 ->
  Rel (eval_list rx all1 rs1 ph rq s1) (eval_list rx all2 rs2 ph rq s2).
Proof.
  induction rs1 as [|r1 rs1 IH]; intros rs2 s1 s2 HF HR; inversion HF; subst; cbn [eval_list]; [exact HR|].
  pose proof HR as [_ [_ [B _]]]. rewrite <- B. destruct (st_intr s1); [exact HR|].
  apply IH; [assumption|]. apply Rel_eval_step; assumption.
Qed.
End Sim.

(* ---- how the exclusion state is read ---- *)
Lemma is_removed_add_rm ids s id : is_removed (st_add_rm ids s) id = is_removed s id || existsb (N.eqb id) ids.
Proof.
  unfold is_removed, st_add_rm. cbn [st_rm st_rng]. rewrite existsb_app.
  destruct (existsb (N.eqb id) (st_rm s)), (existsb (N.eqb id) ids),
           (existsb (fun r => in_rng (fst r) (snd r) id) (st_rng s)); reflexivity.
Qed.
Lemma is_removed_add_rng a b s id : is_removed (st_add_rng a b s) id = is_removed s id || in_rng a b id.
Proof.
  unfold is_removed, st_add_rng. cbn [st_rm st_rng]. rewrite existsb_app. cbn [existsb fst snd].
  rewrite orb_false_r, orb_assoc. reflexivity.
Qed.
Lemma is_removed_add_texc l s id : is_removed (st_add_texc l s) id = is_removed s id.
Proof. reflexivity. Qed.
Lemma texc_for_add_texc l s id : texc_for (st_add_texc l s) id = texc_for s id ++ filter (fun t => te_id t =? id) l.
Proof. unfold texc_for, st_add_texc. cbn [st_texc]. apply filter_app. Qed.
Lemma texc_for_add_rm l s id : texc_for (st_add_rm l s) id = texc_for s id.
Proof. reflexivity. Qed.
Lemma texc_for_add_rng a b s id : texc_for (st_add_rng a b s) id = texc_for s id.
Proof. reflexivity. Qed.

Lemma mem_ids_where p rules id :
  existsb (N.eqb id) (ids_where p rules) = existsb (fun r => p r && (cr_id r =? id)) rules.
Proof.
  unfold ids_where. induction rules as [|r t IH]; [reflexivity|]. cbn [filter existsb].
  destruct (p r); cbn [map existsb andb]; rewrite IH; [rewrite (N.eqb_sym id)|]; reflexivity.
Qed.

Lemma filter_texc_map v e ids id :
  filter (fun t => te_id t =? id) (map (fun i => mkTexc i v e) ids)
  = map (fun i => mkTexc i v e) (filter (fun i => i =? id) ids).
Proof.
  induction ids as [|i ids IH]; [reflexivity|]. cbn [map filter te_id].
  destruct (i =? id); cbn [map]; rewrite IH; reflexivity.
Qed.

Lemma filter_ids_where p rules id :
  filter (fun i => i =? id) (ids_where p rules) = map cr_id (filter (fun r => p r && (cr_id r =? id)) rules).
Proof.
  unfold ids_where. induction rules as [|r t IH]; [reflexivity|]. cbn [filter].
  destruct (p r); cbn [map filter andb]; [destruct (cr_id r =? id); cbn [map]|]; rewrite IH; reflexivity.
Qed.

Lemma eval_list_intr rx all rs ph rq s i : st_intr s = Some i -> eval_list rx all rs ph rq s = s.
Proof. intro H. destruct rs; cbn [eval_list]; [reflexivity|]. rewrite H. reflexivity. Qed.

(* ================= C17_ctl_equiv, removal kind ================= *)

(* the set of ids a removal ctl adds to the transaction *)
Definition rm_set (all : list crule) (c : ctl) (id : N) : bool :=
  match c with
  | CRmId (IdOne n) => id =? n
  | CRmId (IdRange a b) => (a <=? b) && in_rng a b id
  | CRmTag t => existsb (fun r => mem_bytes t (cl_tags (cr_head r)) && (cr_id r =? id)) all
  | CRmMsg m => existsb (fun r => opt_bytes_is (cl_msg (cr_head r)) m && (cr_id r =? id)) all
  | _ => false
  end.

Definition is_rm_ctl (c : ctl) : bool :=
  match c with CRmId _ | CRmTag _ | CRmMsg _ => true | _ => false end.

Section RmSim.
Variable rx : bytes -> bytes -> bool.
Variable all : list crule.
Variable P : N -> bool.

Definition keepP (r : crule) : bool := negb (P (cr_id r)).
Definition allP : list crule := filter keepP all.

Definition RXrm (s1 s2 : txst) : Prop :=
  (forall id, is_removed s1 id = P id || is_removed s2 id) /\
  (forall id, P id = false -> texc_for s1 id = texc_for s2 id).

Lemma RXrm_frame : forall s1 s2, RXrm s1 s2 -> forall k1 i1 m1 n1 k2 i2 m2 n2,
  RXrm (mkSt (st_rm s1) (st_rng s1) (st_texc s1) k1 i1 m1 n1) (mkSt (st_rm s2) (st_rng s2) (st_texc s2) k2 i2 m2 n2).
Proof. intros s1 s2 H; intros. exact H. Qed.

Lemma keep_sel_filter (p : crule -> bool) id : P id = false ->
  filter (fun r => p r && (cr_id r =? id)) allP = filter (fun r => p r && (cr_id r =? id)) all.
Proof.
  intro H. unfold allP. rewrite filter_filter. apply filter_ext'. intros r _. unfold keepP.
  destruct (N.eqb_spec (cr_id r) id) as [E|E]; [rewrite E, H; reflexivity|rewrite andb_false_r, andb_false_r; reflexivity].
Qed.

Lemma keep_sel_exists (p : crule -> bool) id : P id = false ->
  existsb (fun r => p r && (cr_id r =? id)) allP = existsb (fun r => p r && (cr_id r =? id)) all.
Proof.
  intro H. unfold allP. induction all as [|r t IH]; [reflexivity|]. cbn [filter]. unfold keepP at 1.
  destruct (N.eqb_spec (cr_id r) id) as [E|E].
  - rewrite E, H. cbn [negb existsb]. rewrite IH, <- E, N.eqb_refl. reflexivity.
  - destruct (negb (P (cr_id r))); cbn [existsb]; rewrite IH.
    + reflexivity.
    + destruct (N.eqb_spec (cr_id r) id); [contradiction|]. rewrite andb_false_r. reflexivity.
Qed.

Lemma RXrm_add_ids (p : crule -> bool) s1 s2 : RXrm s1 s2 ->
  RXrm (st_add_rm (ids_where p all) s1) (st_add_rm (ids_where p allP) s2).
Proof.
  intros [H1 H2]. split; [|exact H2]. intro id. rewrite !is_removed_add_rm, H1, !mem_ids_where.
  destruct (P id) eqn:E; [reflexivity|]. rewrite (keep_sel_exists p id E). reflexivity.
Qed.

Lemma RXrm_add_texc (p : crule -> bool) v e s1 s2 : RXrm s1 s2 ->
  RXrm (st_add_texc (map (fun i => mkTexc i v e) (ids_where p all)) s1)
       (st_add_texc (map (fun i => mkTexc i v e) (ids_where p allP)) s2).
Proof.
  intros [H1 H2]. split; [exact H1|]. intros id E. rewrite !texc_for_add_texc, (H2 id E). f_equal.
  rewrite !filter_texc_map, !filter_ids_where, (keep_sel_filter p id E). reflexivity.
Qed.

Lemma RXrm_ctl c s1 s2 : RXrm s1 s2 -> RXrm (cf_ctl_step all c s1) (cf_ctl_step allP c s2).
Proof.
  intro H. destruct c as [[n|a b]|t|m|sp v k|t v k|m v k]; cbn [cf_ctl_step].
  - destruct H as [H1 H2]. split; [|exact H2]. intro id. rewrite !is_removed_add_rm, H1, orb_assoc. reflexivity.
  - destruct (a <=? b); [|exact H]. destruct H as [H1 H2]. split; [|exact H2].
    intro id. rewrite !is_removed_add_rng, H1, orb_assoc. reflexivity.
  - apply RXrm_add_ids; exact H.
  - apply RXrm_add_ids; exact H.
  - destruct (spec_valid sp); [|exact H]. apply (RXrm_add_texc (fun r => spec_has sp (cr_id r))); exact H.
  - apply (RXrm_add_texc (fun r => mem_bytes t (cl_tags (cr_head r)))); exact H.
  - apply (RXrm_add_texc (fun r => opt_bytes_is (cl_msg (cr_head r)) m)); exact H.
Qed.

Lemma LC_refl_rm rq pid l : P pid = false -> LC rx RXrm rq pid l l.
Proof. intro E. split; [reflexivity|]. intros s1 s2 [_ H2]. rewrite (H2 pid E). reflexivity. Qed.

Lemma RC_refl_rm rq r : P (cr_id r) = false -> RC rx RXrm rq r r.
Proof.
  intro E. repeat split; try reflexivity.
  - intros s1 s2 [_ H2]. rewrite (H2 _ E). reflexivity.
  - induction (cr_chain r) as [|l t IH]; constructor; [apply LC_refl_rm; exact E|exact IH].
  - intros s1 s2 [H1 _]. rewrite H1, E. reflexivity.
Qed.

Lemma rm_sim_list ph rq rs : forall s1 s2,
  Rel RXrm s1 s2 ->
  Rel RXrm (eval_list rx all rs ph rq s1) (eval_list rx allP (filter keepP rs) ph rq s2).
Proof.
  induction rs as [|r rs IH]; intros s1 s2 HR; cbn [filter eval_list]; [exact HR|].
  pose proof HR as [[H1 _] [_ [B _]]].
  destruct (st_intr s1) as [i|] eqn:Ei.
  - rewrite (eval_list_intr rx allP _ ph rq s2 i) by congruence. exact HR.
  - unfold keepP at 1. destruct (P (cr_id r)) eqn:E; cbn [negb].
    + (* the removed rule: skipped on the left, absent on the right *)
      assert (eval_step rx all ph rq s1 r = s1) as K.
      { unfold eval_step. destruct (negb (cr_phase r =? 0) && negb (cr_phase r =? ph)); [reflexivity|].
        rewrite H1, E. reflexivity. }
      rewrite K. apply IH; exact HR.
    + cbn [eval_list]. rewrite <- B. apply IH.
      apply (Rel_eval_step rx all allP RXrm RXrm_frame RXrm_ctl); [apply RC_refl_rm; exact E|exact HR].
Qed.
End RmSim.

Lemma rm_ctl_initial all c st : is_rm_ctl c = true -> RXrm (rm_set all c) (cf_ctl_step all c st) st.
Proof.
  intro Hc. destruct c as [[n|a b]|t|m| | |]; try discriminate; cbn [cf_ctl_step].
  - split; [|reflexivity]. intro id. cbn [rm_set]. rewrite is_removed_add_rm. cbn [existsb].
    rewrite orb_false_r, orb_comm. reflexivity.
  - destruct (a <=? b) eqn:E.
    + split; [|reflexivity]. intro id. cbn [rm_set]. rewrite E, is_removed_add_rng, orb_comm. reflexivity.
    + split; [|reflexivity]. intro id. cbn [rm_set]. rewrite E. reflexivity.
  - split; [|reflexivity]. intro id. cbn [rm_set]. rewrite is_removed_add_rm, mem_ids_where, orb_comm. reflexivity.
  - split; [|reflexivity]. intro id. cbn [rm_set]. rewrite is_removed_add_rm, mem_ids_where, orb_comm. reflexivity.
Qed.

(* after ctl:ruleRemoveById/ByTag/ByMsg executed, every later evaluation (any list of rules [rs] of
   the WAF, any phase) behaves as over the rule list without the rules carrying the removed ids *)
Theorem ctl_remove_equiv rx all c st rs ph rq :
  is_rm_ctl c = true ->
  obs (eval_list rx all rs ph rq (cf_ctl_step all c st))
  = obs (eval_list rx (allP all (rm_set all c)) (filter (keepP (rm_set all c)) rs) ph rq st).
Proof.
  intro Hc. apply same_obs_obs. apply (rm_sim_list rx all (rm_set all c) ph rq rs).
  split; [apply rm_ctl_initial; exact Hc|]. unfold same_obs.
  rewrite ctl_step_skip, ctl_step_intr, ctl_step_matched, ctl_step_skipn. auto.
Qed.

(* ================= C17_ctl_equiv, target-exclusion kind ================= *)

Definition add_exc_vars (v : var) (e : exc) (vs : list cvar) : list cvar :=
  map (fun cv => if var_eqb (cv_var cv) v then cv_add_exc e cv else cv) vs.

Definition add_exc_link (v : var) (e : exc) (l : clink) : clink := set_vars l (add_exc_vars v e (cl_vars l)).

(* the rule with the exclusion written into every link (the chain members are looked up under the
   parent id by the code) *)
Definition add_exc_rule (v : var) (e : exc) (r : crule) : crule :=
  mkCrule (cr_id r) (cr_phase r) (cr_mark r) (add_exc_link v e (cr_head r)) (map (add_exc_link v e) (cr_chain r)).

(* ids / variable / exception a target ctl stores in the transaction *)
Definition tgt_ids (all : list crule) (c : ctl) : list N :=
  match c with
  | CRmTargetId s _ _ => if spec_valid s then ids_where (fun r => spec_has s (cr_id r)) all else []
  | CRmTargetTag t _ _ => ids_where (fun r => mem_bytes t (cl_tags (cr_head r))) all
  | CRmTargetMsg m _ _ => ids_where (fun r => opt_bytes_is (cl_msg (cr_head r)) m) all
  | _ => []
  end.
Definition tgt_var (c : ctl) : var :=
  match c with CRmTargetId _ v _ | CRmTargetTag _ v _ | CRmTargetMsg _ v _ => v | _ => VMethod end.
Definition tgt_exc (c : ctl) : exc :=
  match c with CRmTargetId _ _ k | CRmTargetTag _ _ k | CRmTargetMsg _ _ k => ctl_exc k | _ => mkExc [] None end.
Definition is_tgt_ctl (c : ctl) : bool :=
  match c with CRmTargetId _ _ _ | CRmTargetTag _ _ _ | CRmTargetMsg _ _ _ => true | _ => false end.

Lemma excluded_app rx a b k : excluded rx (a ++ b) k = excluded rx a k || excluded rx b k.
Proof. apply existsb_app. Qed.

(* select reads the exception list only through [excluded] *)
Lemma select_congr rx cv cv' ecol ecol' rq :
  cv_count cv = cv_count cv' -> cv_var cv = cv_var cv' -> cv_key cv = cv_key cv' -> cv_rx cv = cv_rx cv' ->
  (forall k, excluded rx (cv_exc cv ++ extras ecol (cv_var cv)) k
             = excluded rx (cv_exc cv' ++ extras ecol' (cv_var cv')) k) ->
  select rx cv ecol rq = select rx cv' ecol' rq.
Proof.
  intros Hc Hv Hk Hr He. unfold select.
  assert (select_base rx cv rq = select_base rx cv' rq) as Eb by (unfold select_base; rewrite Hv, Hk, Hr; reflexivity).
  rewrite Eb, <- Hc, <- Hv, <- Hk.
  rewrite (filter_ext' (fun e => negb (excluded rx (cv_exc cv ++ extras ecol (cv_var cv)) (lower_ascii (ent_key e))))
                       (fun e => negb (excluded rx (cv_exc cv' ++ extras ecol' (cv_var cv)) (lower_ascii (ent_key e))))).
  - reflexivity.
  - intros x _. rewrite He, Hv. reflexivity.
Qed.

Section TgtSim.
Variable rx : bytes -> bytes -> bool.
Variable all : list crule.
Variable ids : list N.     (* the ids that received the exclusion *)
Variable v : var.
Variable e : exc.

Definition tq (id : N) : bool := existsb (N.eqb id) ids.
Definition rwT (r : crule) : crule := if tq (cr_id r) then add_exc_rule v e r else r.
Definition allT : list crule := map rwT all.

Definition dyn (s : txst) (id : N) (w : var) (k : bytes) : bool := excluded rx (extras (texc_for s id) w) k.

Definition RXt (s1 s2 : txst) : Prop :=
  st_rm s1 = st_rm s2 /\ st_rng s1 = st_rng s2 /\
  forall id w k, dyn s1 id w k = (tq id && var_eqb v w && exc_hit rx e k) || dyn s2 id w k.

Lemma RXt_frame : forall s1 s2, RXt s1 s2 -> forall k1 i1 m1 n1 k2 i2 m2 n2,
  RXt (mkSt (st_rm s1) (st_rng s1) (st_texc s1) k1 i1 m1 n1) (mkSt (st_rm s2) (st_rng s2) (st_texc s2) k2 i2 m2 n2).
Proof. intros s1 s2 H; intros. exact H. Qed.

Lemma rwT_id r : cr_id (rwT r) = cr_id r.
Proof. unfold rwT. destruct (tq (cr_id r)); reflexivity. Qed.
Lemma rwT_tags r : cl_tags (cr_head (rwT r)) = cl_tags (cr_head r).
Proof. unfold rwT. destruct (tq (cr_id r)); reflexivity. Qed.
Lemma rwT_msg r : cl_msg (cr_head (rwT r)) = cl_msg (cr_head r).
Proof. unfold rwT. destruct (tq (cr_id r)); reflexivity. Qed.

Lemma ids_where_allT (p : crule -> bool) : (forall r, p (rwT r) = p r) -> ids_where p allT = ids_where p all.
Proof.
  intro Hp. unfold ids_where, allT. induction all as [|r t IH]; [reflexivity|]. cbn [map filter].
  rewrite Hp. destruct (p r); cbn [map]; rewrite IH, ?rwT_id; reflexivity.
Qed.

Lemma dyn_add_texc l s id w k :
  dyn (st_add_texc l s) id w k = dyn s id w k || excluded rx (extras (filter (fun t => te_id t =? id) l) w) k.
Proof.
  unfold dyn. rewrite texc_for_add_texc. unfold extras. rewrite filter_app, map_app. apply excluded_app.
Qed.

Lemma RXt_ctl c s1 s2 : RXt s1 s2 -> RXt (cf_ctl_step all c s1) (cf_ctl_step allT c s2).
Proof.
  intros [H1 [H2 H3]].
  assert (forall p, (forall r, p (rwT r) = p r) -> forall s1' s2',
            st_rm s1' = st_rm s2' -> RXt (st_add_rm (ids_where p all) s1') (st_add_rm (ids_where p allT) s2') ->
            True) as _ by auto.
  destruct c as [[n|a b]|t|m|sp w k|t w k|m w k]; cbn [cf_ctl_step].
  - split; [cbn; rewrite H1; reflexivity|split; [exact H2|exact H3]].
  - destruct (a <=? b); [|split; [exact H1|split; [exact H2|exact H3]]].
    split; [exact H1|split; [cbn; rewrite H2; reflexivity|exact H3]].
  - rewrite (ids_where_allT (fun r => mem_bytes t (cl_tags (cr_head r)))) by (intro r; rewrite rwT_tags; reflexivity).
    split; [cbn; rewrite H1; reflexivity|split; [exact H2|exact H3]].
  - rewrite (ids_where_allT (fun r => opt_bytes_is (cl_msg (cr_head r)) m)) by (intro r; rewrite rwT_msg; reflexivity).
    split; [cbn; rewrite H1; reflexivity|split; [exact H2|exact H3]].
  - destruct (spec_valid sp); [|split; [exact H1|split; [exact H2|exact H3]]].
    rewrite (ids_where_allT (fun r => spec_has sp (cr_id r))) by (intro r; rewrite rwT_id; reflexivity).
    split; [exact H1|split; [exact H2|]]. intros id w' k'. rewrite !dyn_add_texc, H3, orb_assoc. reflexivity.
  - rewrite (ids_where_allT (fun r => mem_bytes t (cl_tags (cr_head r)))) by (intro r; rewrite rwT_tags; reflexivity).
    split; [exact H1|split; [exact H2|]]. intros id w' k'. rewrite !dyn_add_texc, H3, orb_assoc. reflexivity.
  - rewrite (ids_where_allT (fun r => opt_bytes_is (cl_msg (cr_head r)) m)) by (intro r; rewrite rwT_msg; reflexivity).
    split; [exact H1|split; [exact H2|]]. intros id w' k'. rewrite !dyn_add_texc, H3, orb_assoc. reflexivity.
Qed.

Lemma var_eqb_sym a b : var_eqb a b = var_eqb b a.
Proof. destruct a, b; reflexivity. Qed.
Lemma var_eqb_eq a b : var_eqb a b = true -> a = b.
Proof. destruct a, b; cbn; congruence. Qed.

(* one variable of a link, with and without the written exclusion *)
Lemma select_rw rq pid cv s1 s2 : RXt s1 s2 ->
  select rx cv (texc_for s1 pid) rq
  = select rx (if tq pid then (if var_eqb (cv_var cv) v then cv_add_exc e cv else cv) else cv) (texc_for s2 pid) rq.
Proof.
  intros [_ [_ H3]]. apply select_congr; try (destruct (tq pid), (var_eqb (cv_var cv) v); reflexivity).
  intro k. rewrite !excluded_app.
  assert (cv_var (if tq pid then if var_eqb (cv_var cv) v then cv_add_exc e cv else cv else cv) = cv_var cv) as Ev
    by (destruct (tq pid), (var_eqb (cv_var cv) v); reflexivity).
  rewrite Ev. fold (dyn s1 pid (cv_var cv) k). fold (dyn s2 pid (cv_var cv) k). rewrite H3.
  rewrite (var_eqb_sym v (cv_var cv)).
  destruct (tq pid); cbn [andb orb]; [|reflexivity].
  destruct (var_eqb (cv_var cv) v); cbn [andb orb]; [|reflexivity].
  unfold cv_add_exc. cbn [cv_exc]. rewrite excluded_app. unfold excluded at 3. cbn [existsb].
  rewrite orb_false_r, orb_assoc. reflexivity.
Qed.

Lemma link_rw rq pid l s1 s2 : RXt s1 s2 ->
  link_matches rx l (texc_for s1 pid) rq
  = link_matches rx (if tq pid then add_exc_link v e l else l) (texc_for s2 pid) rq.
Proof.
  intro H. unfold link_matches.
  assert (cl_op (if tq pid then add_exc_link v e l else l) = cl_op l) as Eo by (destruct (tq pid); reflexivity).
  rewrite Eo. destruct (cl_op l) as [o|]; [|reflexivity].
  assert (cl_vars (if tq pid then add_exc_link v e l else l)
          = map (fun cv => if tq pid then (if var_eqb (cv_var cv) v then cv_add_exc e cv else cv) else cv) (cl_vars l)) as Evs.
  { destruct (tq pid); [reflexivity|]. rewrite map_id. reflexivity. }
  rewrite Evs. clear Evs Eo. induction (cl_vars l) as [|cv vs IH]; [reflexivity|]. cbn [map flat_map].
  rewrite IH, (select_rw rq pid cv s1 s2 H). reflexivity.
Qed.

Lemma LC_rw rq pid l : LC rx RXt rq pid l (if tq pid then add_exc_link v e l else l).
Proof. split; [destruct (tq pid); reflexivity|]. intros s1 s2 H. apply link_rw; exact H. Qed.

Lemma RC_rw rq r : RC rx RXt rq r (rwT r).
Proof.
  unfold RC. rewrite rwT_id. unfold rwT.
  repeat split; try (destruct (tq (cr_id r)); reflexivity).
  - intros s1 s2 H. rewrite (link_rw rq (cr_id r) (cr_head r) s1 s2 H). destruct (tq (cr_id r)); reflexivity.
  - assert (cr_chain (if tq (cr_id r) then add_exc_rule v e r else r)
            = map (fun l => if tq (cr_id r) then add_exc_link v e l else l) (cr_chain r)) as Ec.
    { destruct (tq (cr_id r)); [reflexivity|]. rewrite map_id. reflexivity. }
    rewrite Ec. clear Ec. induction (cr_chain r) as [|l t IH]; cbn [map]; constructor; [apply LC_rw|exact IH].
  - intros s1 s2 [H1 [H2 _]]. unfold is_removed. rewrite H1, H2. reflexivity.
Qed.

Lemma tgt_sim_list ph rq rs s1 s2 :
  Rel RXt s1 s2 -> Rel RXt (eval_list rx all rs ph rq s1) (eval_list rx allT (map rwT rs) ph rq s2).
Proof.
  apply (Rel_eval_list rx all allT RXt RXt_frame RXt_ctl).
  induction rs as [|r t IH]; constructor; [apply RC_rw|exact IH].
Qed.
End TgtSim.

Lemma tgt_initial_dyn rx v e ids id w k :
  excluded rx (extras (filter (fun t => te_id t =? id) (map (fun i => mkTexc i v e) ids)) w) k
  = existsb (N.eqb id) ids && var_eqb v w && exc_hit rx e k.
Proof.
  induction ids as [|i ids IH]; [reflexivity|].
  cbn [map filter te_id existsb]. rewrite (N.eqb_sym id i).
  destruct (i =? id); cbn [orb]; [|exact IH].
  unfold extras in *. cbn [filter te_var]. destruct (var_eqb v w); cbn [map te_exc].
  - unfold excluded in *. cbn [existsb]. rewrite IH.
    destruct (exc_hit rx e k), (existsb (N.eqb id) ids); reflexivity.
  - rewrite IH. destruct (existsb (N.eqb id) ids); reflexivity.
Qed.

Lemma tgt_ctl_initial rx all c st : is_tgt_ctl c = true ->
  RXt rx (tgt_ids all c) (tgt_var c) (tgt_exc c) (cf_ctl_step all c st) st.
Proof.
  intro Hc.
  assert (forall l, RXt rx l (tgt_var c) (tgt_exc c)
                        (st_add_texc (map (fun i => mkTexc i (tgt_var c) (tgt_exc c)) l) st) st) as K.
  { intro l. split; [reflexivity|split; [reflexivity|]]. intros id w k.
    rewrite dyn_add_texc, tgt_initial_dyn, orb_comm. reflexivity. }
  destruct c as [| | |sp v k|t v k|m v k]; try discriminate; cbn [cf_ctl_step tgt_ids tgt_var tgt_exc] in *.
  - destruct (spec_valid sp); [apply K|]. split; [reflexivity|split; [reflexivity|]]. intros; reflexivity.
  - apply K.
  - apply K.
Qed.

(* after ctl:ruleRemoveTargetById/ByTag/ByMsg executed, every later evaluation behaves as over the
   rule list in which the rules carrying the selected ids have the exclusion written into every link *)
Theorem ctl_target_equiv rx all c st rs ph rq :
  is_tgt_ctl c = true ->
  obs (eval_list rx all rs ph rq (cf_ctl_step all c st))
  = obs (eval_list rx (allT all (tgt_ids all c) (tgt_var c) (tgt_exc c))
                   (map (rwT (tgt_ids all c) (tgt_var c) (tgt_exc c)) rs) ph rq st).
Proof.
  intro Hc. apply same_obs_obs. apply tgt_sim_list.
  split; [apply tgt_ctl_initial; exact Hc|]. unfold same_obs.
  rewrite ctl_step_skip, ctl_step_intr, ctl_step_matched, ctl_step_skipn. auto.
Qed.

(* ================= the ctl rewriting at the source level ================= *)

Definition src_ctl_remove (P : N -> bool) (src : list item_src) : list item_src :=
  filter (src_keep (fun id _ => P id)) src.

Definition key_lower (k : key) : key := match k with KStr s => KStr (lower_ascii s) | _ => k end.

Definition src_add_neg (v : var) (k : key) (l : link_src) : link_src :=
  mkLinkSrc (ls_targets l ++ [TNeg v (key_lower k)]) (ls_op l) (ls_actions l).

Definition src_ctl_target (Q : N -> bool) (v : var) (k : key) (it : item_src) : item_src :=
  match it with
  | SRule id ph h ch => if Q id then SRule id ph (src_add_neg v k h) (map (src_add_neg v k) ch) else it
  | SMarker _ => it
  end.

Definition key_not_rx (k : key) : bool := match k with KRx _ => false | _ => true end.
Definition tgt_key (c : ctl) : key :=
  match c with CRmTargetId _ _ k | CRmTargetTag _ _ k | CRmTargetMsg _ _ k => k | _ => KNone end.

Lemma compile_src_ctl_remove dflt P src : P 0 = false ->
  map (compile_item dflt) (src_ctl_remove P src) = filter (keepP P) (map (compile_item dflt) src).
Proof.
  intro H0. unfold src_ctl_remove. symmetry. apply map_filter_comm. intros it _. unfold keepP.
  rewrite compile_item_id. destruct it; cbn [src_keep]; [reflexivity|]. rewrite H0. reflexivity.
Qed.

Lemma compile_link_add_neg d v k l : key_not_rx k = true ->
  compile_link d (src_add_neg v k l) = add_exc_link v (ctl_exc k) (compile_link d l).
Proof.
  intro Hk. unfold compile_link, add_exc_link, src_add_neg. cbn [ls_targets ls_op ls_actions].
  rewrite !set_vars_apply. unfold set_vars.
  cbn [cl_vars cl_op cl_nd cl_disr cl_flow cl_tags cl_msg cl_status].
  unfold parse_targets. rewrite fold_left_app. cbn [fold_left add_titem].
  f_equal. unfold add_neg, add_exc_vars. apply map_ext. intro cv.
  destruct k as [|s|p]; [reflexivity|reflexivity|discriminate].
Qed.

Lemma compile_src_ctl_target dflt Q v k it : key_not_rx k = true ->
  compile_item dflt (src_ctl_target Q v k it)
  = (if Q (cr_id (compile_item dflt it)) then add_exc_rule v (ctl_exc k) (compile_item dflt it) else compile_item dflt it).
Proof.
  intro Hk. rewrite compile_item_id. destruct it as [id ph h ch|nm]; cbn [src_ctl_target].
  - destruct (Q id); [|reflexivity]. cbn [compile_item]. unfold add_exc_rule. cbn [cr_id cr_phase cr_mark cr_head cr_chain].
    rewrite (compile_link_add_neg _ v k h Hk). f_equal. rewrite !map_map. apply map_ext. intro l.
    apply compile_link_add_neg; exact Hk.
  - destruct (Q 0); reflexivity.
Qed.

Theorem ctl_remove_equiv_src rx dflt src all c st srs ph rq :
  cf_compile dflt src = Some all -> is_rm_ctl c = true -> rm_set all c 0 = false ->
  exists all', cf_compile dflt (src_ctl_remove (rm_set all c) src) = Some all' /\
    obs (eval_list rx all (map (compile_item dflt) srs) ph rq (cf_ctl_step all c st))
    = obs (eval_list rx all' (map (compile_item dflt) (src_ctl_remove (rm_set all c) srs)) ph rq st).
Proof.
  intros Hc Hr H0. pose proof (compile_uniq _ _ _ Hc) as Hu. pose proof (compile_closed _ _ _ Hc) as Ea.
  exists (allP all (rm_set all c)). split.
  - clear Hc. subst all. unfold allP. rewrite <- (compile_src_ctl_remove dflt _ src H0). apply compile_ok.
    rewrite (compile_src_ctl_remove dflt _ src H0). apply uniq_filter. exact Hu.
  - rewrite (compile_src_ctl_remove dflt _ srs H0). apply ctl_remove_equiv; exact Hr.
Qed.

Theorem ctl_target_equiv_src rx dflt src all c st srs ph rq :
  cf_compile dflt src = Some all -> is_tgt_ctl c = true -> key_not_rx (tgt_key c) = true ->
  let Q := tq (tgt_ids all c) in
  exists all', cf_compile dflt (map (src_ctl_target Q (tgt_var c) (tgt_key c)) src) = Some all' /\
    obs (eval_list rx all (map (compile_item dflt) srs) ph rq (cf_ctl_step all c st))
    = obs (eval_list rx all' (map (compile_item dflt) (map (src_ctl_target Q (tgt_var c) (tgt_key c)) srs)) ph rq st).
Proof.
  intros Hc Ht Hk Q. pose proof (compile_uniq _ _ _ Hc) as Hu. pose proof (compile_closed _ _ _ Hc) as Ea.
  assert (tgt_exc c = ctl_exc (tgt_key c)) as Ee by (destruct c; try discriminate; reflexivity).
  assert (forall l, map (compile_item dflt) (map (src_ctl_target Q (tgt_var c) (tgt_key c)) l)
                    = map (rwT (tgt_ids all c) (tgt_var c) (tgt_exc c)) (map (compile_item dflt) l)) as Em.
  { intro l. rewrite !map_map. apply map_ext. intro it. rewrite (compile_src_ctl_target dflt Q _ _ it Hk).
    unfold rwT. fold Q. rewrite Ee. reflexivity. }
  exists (allT all (tgt_ids all c) (tgt_var c) (tgt_exc c)). split.
  - pose proof (Em src) as Es. unfold allT.
    replace (map (rwT (tgt_ids all c) (tgt_var c) (tgt_exc c)) all)
      with (map (compile_item dflt) (map (src_ctl_target Q (tgt_var c) (tgt_key c)) src))
      by (rewrite Es; f_equal; symmetry; exact Ea).
    apply compile_ok. rewrite Es. apply uniq_map.
    + intro r. apply rwT_id.
    + rewrite <- Ea. exact Hu.
  - rewrite Em. apply ctl_target_equiv; exact Ht.
Qed.

(* ================= the interleaving of disruptive and flow actions is immaterial ================= *)
Lemma cf_exec_commute id stt d f s :
  exec_disr id stt d (exec_flow f s) = exec_flow f (exec_disr id stt d s).
Proof.
  destruct f, d; cbn [exec_disr exec_flow]; try reflexivity; unfold st_interrupt, st_set_skip, st_set_skipn; cbn [st_intr];
    destruct (st_intr s) eqn:E; cbn; rewrite ?E; reflexivity.
Qed.

(* skipAfter and skip write different fields *)
Lemma cf_flow_commute m n s : exec_flow (FAfter m) (exec_flow (FSkip n) s) = exec_flow (FSkip n) (exec_flow (FAfter m) s).
Proof. reflexivity. Qed.

(* ================= what an update with an exclusion means for the selection ================= *)
(* after "!V:key" has been written into a rule (configuration time or ctl), no entry of V whose
   lower-cased name is hit by the exclusion is selected by any target of V that existed then *)
Lemma select_excluded rx cv ecol rq e m :
  cv_count cv = false -> In e (cv_exc cv) -> In m (select rx cv ecol rq) ->
  exc_hit rx e (lower_ascii (snd (fst m))) = false.
Proof.
  intros Hc He Hm. unfold select in Hm. rewrite Hc in Hm. apply in_map_iff in Hm as [x [Ex Hx]].
  apply filter_In in Hx as [_ Hx]. apply negb_true_iff in Hx. subst m. cbn [fst snd].
  unfold excluded in Hx. rewrite existsb_app in Hx. apply orb_false_iff in Hx as [Hx _].
  destruct (exc_hit rx e (lower_ascii (ent_key x))) eqn:E; [|reflexivity].
  assert (existsb (fun e0 => exc_hit rx e0 (lower_ascii (ent_key x))) (cv_exc cv) = true) as K
    by (apply existsb_exists; exists e; split; assumption).
  congruence.
Qed.

Lemma add_neg_in v k vars cv :
  In cv (add_neg v k vars) -> cv_var cv = v -> In (mkExc (key_text k) (key_rx (var_cs v) k)) (cv_exc cv).
Proof.
  unfold add_neg. intros H Hv. apply in_map_iff in H as [c0 [E _]].
  destruct (var_eqb (cv_var c0) v) eqn:Ev.
  - subst cv. unfold cv_add_exc. cbn [cv_exc]. apply in_or_app. right. left. reflexivity.
  - subst cv. rewrite Hv in Ev. destruct v; discriminate.
Qed.

Theorem update_target_excludes rx v k l ecol rq cv m :
  In cv (cl_vars (update_target [TNeg v k] l)) -> cv_var cv = v -> cv_count cv = false ->
  In m (select rx cv ecol rq) ->
  exc_hit rx (mkExc (key_text k) (key_rx (var_cs v) k)) (lower_ascii (snd (fst m))) = false.
Proof.
  intros Hin Hv Hc Hm. unfold update_target, set_vars in Hin. cbn [cl_vars parse_targets fold_left add_titem] in Hin.
  eapply select_excluded; [exact Hc| |exact Hm]. eapply add_neg_in; eassumption.
Qed.

(* ================= refutations (the code as it is) and non-vacuity ================= *)
From Coq Require Import String.
Local Open Scope string_scope.
Local Open Scope N_scope.

Definition w_dflt (ph : N) : option disr := if ph =? 2 then Some DPass else None.
Definition w_link (v : var) (o : opk) (acts : list action) : link_src :=
  mkLinkSrc [TPos false v KNone] (mkOp false o) acts.
Definition w_req : request := mkReq (str "GET") [(str "a", str "x")] [(str "X-Foo", str "x9")].

(* id 0: SecMarker pseudo-rules are hit by SecRuleRemoveById 0 (first marker) *)
Definition w0_src : list item_src :=
  [ SRule 5 1 (w_link VMethod OAlways [ADisr DPass; ASkipAfter (str "M1")]) [];
    SRule 6 1 (w_link VArgs (OContains (str "x")) [ADisr DPass]) [];
    SMarker (str "M1");
    SRule 7 1 (w_link VArgs (OContains (str "x")) [ADisr DPass]) [] ].

Lemma remove_id_zero_refuted :
  exists dflt src d c c' c'' rq,
    cf_compile dflt src = Some c /\ is_remove d = true /\ cf_apply d c = Some c' /\
    cf_compile dflt (cf_rewrite d src) = Some c'' /\
    cf_outcome simple_rx c' rq <> cf_outcome simple_rx c'' rq.
Proof.
  exists w_dflt, w0_src, (DRemoveById [IdOne 0]).
  eexists. eexists. eexists. exists w_req.
  split; [vm_compute; reflexivity|]. split; [reflexivity|]. split; [vm_compute; reflexivity|].
  split; [vm_compute; reflexivity|]. vm_compute. discriminate.
Qed.

(* id 0: SecRuleUpdateActionById 0-6 "deny" makes the SecMarker deny *)
Lemma update_action_id_zero_refuted :
  exists dflt src l acts c c' c'' rq,
    cf_compile dflt src = Some c /\ no_block acts = true /\ cf_apply (DUpdActionById l acts) c = Some c' /\
    cf_compile dflt (cf_rewrite (DUpdActionById l acts) src) = Some c'' /\
    cf_outcome simple_rx c' rq <> cf_outcome simple_rx c'' rq.
Proof.
  exists w_dflt, [SMarker (str "M1"); SRule 7 1 (w_link VArgs (OContains (str "x")) [ADisr DPass]) []],
         [IdRange 0 6], [ADisr DDeny].
  eexists. eexists. eexists. exists w_req.
  split; [vm_compute; reflexivity|]. split; [reflexivity|]. split; [vm_compute; reflexivity|].
  split; [vm_compute; reflexivity|]. vm_compute. discriminate.
Qed.

(* "block" written by SecRuleUpdateActionById is not merged with the phase's SecDefaultAction *)
Lemma update_action_block_refuted :
  exists dflt src l acts c c' c'' rq,
    cf_compile dflt src = Some c /\ forallb spec_zero_free l = true /\
    cf_apply (DUpdActionById l acts) c = Some c' /\
    cf_compile dflt (cf_rewrite (DUpdActionById l acts) src) = Some c'' /\
    cf_outcome simple_rx c' rq <> cf_outcome simple_rx c'' rq.
Proof.
  exists (fun ph => if ph =? 2 then Some DDeny else None),
         [SRule 1 2 (w_link VArgs (OContains (str "x")) [ADisr DPass]) []], [IdOne 1], [ADisr DBlock].
  eexists. eexists. eexists. exists w_req.
  split; [vm_compute; reflexivity|]. split; [reflexivity|]. split; [vm_compute; reflexivity|].
  split; [vm_compute; reflexivity|]. vm_compute. discriminate.
Qed.

(* ctl:ruleRemoveTargetById=1;REQUEST_HEADERS:/^X-Foo/ : the regex is not case-folded by the ctl,
   the same exclusion written into the rule is *)
Definition wrx_src (with_ctl : bool) : list item_src :=
  [ SRule 10 1 (w_link VMethod OAlways
                  (ADisr DPass :: if with_ctl then [ACtl (CRmTargetId (IdOne 1) VHeaders (KRx (str "^X-Foo")))] else [])) [];
    SRule 1 2 (w_link VHeaders (OContains (str "x9")) [ADisr DDeny]) [] ].

Lemma ctl_target_regex_case_refuted :
  exists dflt c1 c2 rq,
    cf_compile dflt (wrx_src true) = Some c1 /\
    cf_compile dflt (map (src_ctl_target (fun id => id =? 1) VHeaders (KRx (str "^X-Foo"))) (wrx_src false)) = Some c2 /\
    cf_outcome simple_rx c1 rq <> cf_outcome simple_rx c2 rq.
Proof.
  exists w_dflt. eexists. eexists. exists w_req.
  split; [vm_compute; reflexivity|]. split; [vm_compute; reflexivity|]. vm_compute. discriminate.
Qed.

(* non-vacuity of the guards: a zero-free range update with a disruptive action, on a rule set with a chain *)
Example update_action_guard_instance :
  exists c c', cf_compile w_dflt w0_src = Some c /\
    forallb spec_zero_free [IdRange 5 6; IdOne 7] = true /\ no_block [ADisr DDeny; AStatus 500] = true /\
    cf_apply (DUpdActionById [IdRange 5 6; IdOne 7] [ADisr DDeny; AStatus 500]) c = Some c' /\
    cf_outcome simple_rx c' w_req = ([(5, [(VMethod, [], str "GET")])], Some (500, 5, DDeny)).
Proof.
  eexists. eexists. split; [vm_compute; reflexivity|]. split; [reflexivity|]. split; [reflexivity|].
  split; [vm_compute; reflexivity|]. vm_compute. reflexivity.
Qed.

(* ================= the rest of the transaction after the ctl ================= *)
Lemma cf_run_rest rx rules rq : cf_run rx rules rq = cf_rest rx rules rules 1 [2] rq st_init.
Proof. reflexivity. Qed.

Theorem ctl_remove_equiv_rest rx all c st rs ph phs rq :
  is_rm_ctl c = true ->
  obs (cf_rest rx all rs ph phs rq (cf_ctl_step all c st))
  = obs (cf_rest rx (allP all (rm_set all c)) (filter (keepP (rm_set all c)) rs) ph phs rq st).
Proof.
  intro Hc. apply same_obs_obs. unfold cf_rest.
  set (P := rm_set all c).
  assert (Rel (RXrm P) (cf_ctl_step all c st) st) as H0.
  { split; [apply rm_ctl_initial; exact Hc|]. unfold same_obs.
    rewrite ctl_step_skip, ctl_step_intr, ctl_step_matched, ctl_step_skipn. auto. }
  pose proof (Rel_end_phase (RXrm P) (RXrm_frame P) _ _ (rm_sim_list rx all P ph rq rs _ _ H0)) as H1.
  revert H1. generalize (st_end_phase (eval_list rx all rs ph rq (cf_ctl_step all c st))).
  generalize (st_end_phase (eval_list rx (allP all P) (filter (keepP P) rs) ph rq st)).
  induction phs as [|p phs IH]; intros s2 s1 H; cbn [fold_left]; [exact (proj2 H)|].
  apply IH. pose proof H as [_ [_ [B _]]]. rewrite <- B. destruct (st_intr s1); [exact H|].
  unfold eval_phase. apply (Rel_end_phase (RXrm P) (RXrm_frame P)).
  apply (rm_sim_list rx all P p rq all). exact H.
Qed.

Theorem ctl_target_equiv_rest rx all c st rs ph phs rq :
  is_tgt_ctl c = true ->
  obs (cf_rest rx all rs ph phs rq (cf_ctl_step all c st))
  = obs (cf_rest rx (allT all (tgt_ids all c) (tgt_var c) (tgt_exc c))
                 (map (rwT (tgt_ids all c) (tgt_var c) (tgt_exc c)) rs) ph phs rq st).
Proof.
  intro Hc. apply same_obs_obs. unfold cf_rest.
  set (ids := tgt_ids all c). set (v := tgt_var c). set (e := tgt_exc c).
  assert (Rel (RXt rx ids v e) (cf_ctl_step all c st) st) as H0.
  { split; [apply tgt_ctl_initial; exact Hc|]. unfold same_obs.
    rewrite ctl_step_skip, ctl_step_intr, ctl_step_matched, ctl_step_skipn. auto. }
  pose proof (Rel_end_phase (RXt rx ids v e) (RXt_frame rx ids v e) _ _
                (tgt_sim_list rx all ids v e ph rq rs _ _ H0)) as H1.
  revert H1. generalize (st_end_phase (eval_list rx all rs ph rq (cf_ctl_step all c st))).
  generalize (st_end_phase (eval_list rx (allT all ids v e) (map (rwT ids v e) rs) ph rq st)).
  induction phs as [|p phs IH]; intros s2 s1 H; cbn [fold_left]; [exact (proj2 H)|].
  apply IH. pose proof H as [_ [_ [B _]]]. rewrite <- B. destruct (st_intr s1); [exact H|].
  unfold eval_phase. apply (Rel_end_phase (RXt rx ids v e) (RXt_frame rx ids v e)).
  apply (tgt_sim_list rx all ids v e p rq all). exact H.
Qed.

(* ================= unguarded corollaries for the tag / msg forms, guard instances ================= *)
Theorem remove_by_tag_msg_equiv rx dflt src c d c' rq :
  cf_compile dflt src = Some c -> (exists t, d = DRemoveByTag t) \/ (exists m, d = DRemoveByMsg m) ->
  cf_apply d c = Some c' ->
  exists c'', cf_compile dflt (cf_rewrite d src) = Some c'' /\ cf_outcome rx c' rq = cf_outcome rx c'' rq.
Proof.
  intros Hc [[t E]|[m E]] Ha; subst d; eapply remove_equiv; try eassumption; reflexivity.
Qed.

Theorem update_target_by_tag_equiv rx dflt src c t items c' rq :
  cf_compile dflt src = Some c -> cf_apply (DUpdTargetByTag t items) c = Some c' ->
  exists c'', cf_compile dflt (cf_rewrite (DUpdTargetByTag t items) src) = Some c'' /\
              cf_outcome rx c' rq = cf_outcome rx c'' rq.
Proof.
  intros Hc Ha. eapply update_target_equiv; try eassumption; [reflexivity|]. right. eauto.
Qed.

(* a mixed list with a range, a chained rule set with a marker: the guards hold and the directive acts *)
Example remove_guard_instance :
  exists c c', cf_compile w_dflt w0_src = Some c /\ zero_free (DRemoveById [IdRange 5 6; IdOne 9]) = true /\
    cf_apply (DRemoveById [IdRange 5 6; IdOne 9]) c = Some c' /\
    cf_outcome simple_rx c' w_req = ([(7, [(VArgs, str "a", str "x")])], None).
Proof.
  eexists. eexists. split; [vm_compute; reflexivity|]. split; [reflexivity|].
  split; [vm_compute; reflexivity|]. vm_compute. reflexivity.
Qed.

Example update_target_guard_instance :
  exists c c', cf_compile w_dflt w0_src = Some c /\
    zero_free (DUpdTargetById [IdOne 6; IdOne 7] [TNeg VArgs (KStr (str "a")); TPos false VMethod KNone]) = true /\
    cf_apply (DUpdTargetById [IdOne 6; IdOne 7] [TNeg VArgs (KStr (str "a")); TPos false VMethod KNone]) c = Some c' /\
    cf_outcome simple_rx c' w_req = ([(5, [(VMethod, [], str "GET")])], None).
Proof.
  eexists. eexists. split; [vm_compute; reflexivity|]. split; [reflexivity|].
  split; [vm_compute; reflexivity|]. vm_compute. reflexivity.
Qed.

(* skip:N with a run-time removed rule inside its window: the removed rule does not count *)
Definition wsk_src : list item_src :=
  [ SRule 10 1 (w_link VMethod OAlways [ADisr DPass; ACtl (CRmId (IdOne 30))]) [];
    SRule 20 1 (w_link VMethod OAlways [ADisr DPass; ASkip 2]) [];
    SRule 30 1 (w_link VMethod OAlways [ADisr DPass]) [];
    SRule 40 1 (w_link VMethod OAlways [ADisr DPass]) [];
    SRule 50 1 (w_link VMethod OAlways [ADisr DPass]) [];
    SRule 60 1 (w_link VMethod OAlways [ADisr DPass]) [] ].

Example skip_window_instance :
  exists c, cf_compile w_dflt wsk_src = Some c /\
    map fst (fst (cf_outcome simple_rx c w_req)) = [10; 20; 60].
Proof. eexists. split; [vm_compute; reflexivity|]. vm_compute. reflexivity. Qed.

(* ================= a LIST of ctl target exclusions executed in one transaction ================= *)

(* what the ctl family reads of the rule list: ids, tags and msg of the chain starters *)
Definition rmeta (r : crule) : N * list bytes * option bytes := (cr_id r, cl_tags (cr_head r), cl_msg (cr_head r)).

Lemma ids_where_meta (q : N * list bytes * option bytes -> bool) : forall A B,
  map rmeta A = map rmeta B -> ids_where (fun r => q (rmeta r)) A = ids_where (fun r => q (rmeta r)) B.
Proof.
  unfold ids_where. induction A as [|a A IH]; intros [|b B] H; try discriminate; [reflexivity|].
  cbn [map] in H. inversion H as [[H1 H2 H3 H4]]. cbn [filter].
  replace (rmeta b) with (rmeta a) by (unfold rmeta; rewrite H1, H2, H3; reflexivity).
  destruct (q (rmeta a)); cbn [map]; rewrite (IH B H4), ?H1; reflexivity.
Qed.

Lemma ids_where_meta' p (q : N * list bytes * option bytes -> bool) A B :
  (forall r, p r = q (rmeta r)) -> map rmeta A = map rmeta B -> ids_where p A = ids_where p B.
Proof.
  intros Hp H. unfold ids_where.
  rewrite (filter_ext' p (fun r => q (rmeta r)) A (fun r _ => Hp r)),
          (filter_ext' p (fun r => q (rmeta r)) B (fun r _ => Hp r)).
  exact (ids_where_meta q A B H).
Qed.

Lemma ctl_step_meta A B c st : map rmeta A = map rmeta B -> cf_ctl_step A c st = cf_ctl_step B c st.
Proof.
  intro H. destruct c as [[n|a b]|t|m|sp v k|t v k|m v k]; cbn [cf_ctl_step]; try reflexivity.
  - rewrite (ids_where_meta' (fun r => mem_bytes t (cl_tags (cr_head r))) (fun x => mem_bytes t (snd (fst x))) A B (fun _ => eq_refl) H). reflexivity.
  - rewrite (ids_where_meta' (fun r => opt_bytes_is (cl_msg (cr_head r)) m) (fun x => opt_bytes_is (snd x) m) A B (fun _ => eq_refl) H). reflexivity.
  - rewrite (ids_where_meta' (fun r => spec_has sp (cr_id r)) (fun x => spec_has sp (fst (fst x))) A B (fun _ => eq_refl) H). reflexivity.
  - rewrite (ids_where_meta' (fun r => mem_bytes t (cl_tags (cr_head r))) (fun x => mem_bytes t (snd (fst x))) A B (fun _ => eq_refl) H). reflexivity.
  - rewrite (ids_where_meta' (fun r => opt_bytes_is (cl_msg (cr_head r)) m) (fun x => opt_bytes_is (snd x) m) A B (fun _ => eq_refl) H). reflexivity.
Qed.

Lemma tgt_ids_meta A B c : map rmeta A = map rmeta B -> tgt_ids A c = tgt_ids B c.
Proof.
  intro H. destruct c as [| | |sp v k|t v k|m v k]; cbn [tgt_ids]; try reflexivity.
  - rewrite (ids_where_meta' (fun r => spec_has sp (cr_id r)) (fun x => spec_has sp (fst (fst x))) A B (fun _ => eq_refl) H). reflexivity.
  - rewrite (ids_where_meta' (fun r => mem_bytes t (cl_tags (cr_head r))) (fun x => mem_bytes t (snd (fst x))) A B (fun _ => eq_refl) H). reflexivity.
  - rewrite (ids_where_meta' (fun r => opt_bytes_is (cl_msg (cr_head r)) m) (fun x => opt_bytes_is (snd x) m) A B (fun _ => eq_refl) H). reflexivity.
Qed.

Lemma rwT_meta ids v e rs : map rmeta (map (rwT ids v e) rs) = map rmeta rs.
Proof.
  rewrite map_map. apply map_ext. intro r. unfold rmeta. rewrite rwT_id, rwT_tags, rwT_msg. reflexivity.
Qed.

(* the rule list with the exclusions of every executed ctl written in (ids read from the ORIGINAL list
   [all]: the rewriting never changes ids, tags or msgs) *)
Fixpoint rw_list (all : list crule) (cs : list ctl) (rs : list crule) : list crule :=
  match cs with
  | [] => rs
  | c :: t => map (rwT (tgt_ids all c) (tgt_var c) (tgt_exc c)) (rw_list all t rs)
  end.

Lemma rw_list_meta all cs rs : map rmeta (rw_list all cs rs) = map rmeta rs.
Proof. induction cs as [|c t IH]; cbn [rw_list]; [reflexivity|]. rewrite rwT_meta. exact IH. Qed.

(* after ANY list of ctl:ruleRemoveTarget* executions (one rule or several, any kinds and keys, the same
   rule and collection hit repeatedly), the rest of the transaction behaves as over the rule list with
   ALL the exclusions written into the selected rules *)
Theorem ctl_target_list_equiv rx all cs : forall st rs ph phs rq,
  forallb is_tgt_ctl cs = true ->
  obs (cf_rest rx all rs ph phs rq (fold_left (fun s c => cf_ctl_step all c s) cs st))
  = obs (cf_rest rx (rw_list all cs all) (rw_list all cs rs) ph phs rq st).
Proof.
  induction cs as [|c t IH]; intros st rs ph phs rq H; cbn [fold_left rw_list forallb] in *; [reflexivity|].
  apply andb_true_iff in H as [Hc Ht].
  rewrite (IH (cf_ctl_step all c st) rs ph phs rq Ht).
  pose proof (rw_list_meta all t all) as Hm.
  rewrite <- (ctl_step_meta (rw_list all t all) all c st Hm).
  rewrite (ctl_target_equiv_rest rx (rw_list all t all) c st (rw_list all t rs) ph phs rq Hc).
  rewrite (tgt_ids_meta (rw_list all t all) all c Hm). reflexivity.
Qed.

(* ================= a LIST of ctl removals executed in one transaction: union, in any order ================= *)
From Coq Require Import Permutation.

(* from related states, the rest of the transaction over the list without the removed ids *)
Lemma rm_rest_from_rel rx all P rs ph phs rq s1 s2 :
  Rel (RXrm P) s1 s2 ->
  obs (cf_rest rx all rs ph phs rq s1) = obs (cf_rest rx (allP all P) (filter (keepP P) rs) ph phs rq s2).
Proof.
  intro H0. apply same_obs_obs. unfold cf_rest.
  pose proof (Rel_end_phase (RXrm P) (RXrm_frame P) _ _ (rm_sim_list rx all P ph rq rs _ _ H0)) as H1.
  revert H1. generalize (st_end_phase (eval_list rx all rs ph rq s1)).
  generalize (st_end_phase (eval_list rx (allP all P) (filter (keepP P) rs) ph rq s2)).
  induction phs as [|p phs IH]; intros t2 t1 H; cbn [fold_left]; [exact (proj2 H)|].
  apply IH. pose proof H as [_ [_ [B _]]]. rewrite <- B. destruct (st_intr t1); [exact H|].
  unfold eval_phase. apply (Rel_end_phase (RXrm P) (RXrm_frame P)).
  apply (rm_sim_list rx all P p rq all). exact H.
Qed.

(* the ids removed by a list of executed removal ctls: the UNION of what each of them removes *)
Definition rm_set_list (all : list crule) (cs : list ctl) (id : N) : bool :=
  existsb (fun c => rm_set all c id) cs.

Lemma fold_rm_state all cs : forall st, forallb is_rm_ctl cs = true ->
  let st' := fold_left (fun s c => cf_ctl_step all c s) cs st in
  (forall id, is_removed st' id = is_removed st id || rm_set_list all cs id) /\
  (forall id, texc_for st' id = texc_for st id) /\ same_obs st' st.
Proof.
  induction cs as [|c t IH]; intros st H; cbn [fold_left forallb rm_set_list existsb] in *.
  - repeat split; intros; rewrite ?orb_false_r; reflexivity.
  - apply andb_true_iff in H as [Hc Ht]. destruct (IH (cf_ctl_step all c st) Ht) as [A [B C]].
    destruct (rm_ctl_initial all c st Hc) as [R1 R2].
    repeat split.
    + intro id. rewrite A, R1. unfold rm_set_list.
      destruct (rm_set all c id), (is_removed st id); reflexivity.
    + intro id. rewrite B. destruct c as [[n|a b]|tg|m| | |]; try discriminate; cbn [cf_ctl_step]; try reflexivity.
      destruct (a <=? b); reflexivity.
    + destruct C as [C1 [C2 [C3 C4]]]. rewrite C1, ctl_step_skip. reflexivity.
    + destruct C as [C1 [C2 [C3 C4]]]. rewrite C2, ctl_step_intr. reflexivity.
    + destruct C as [C1 [C2 [C3 C4]]]. rewrite C3, ctl_step_matched. reflexivity.
    + destruct C as [C1 [C2 [C3 C4]]]. rewrite C4, ctl_step_skipn. reflexivity.
Qed.

(* after ANY list of ctl:ruleRemoveById (ids, ranges) / ByTag / ByMsg executions, the rest of the
   transaction behaves as over the rule list without the rules carrying an id of the union *)
Theorem ctl_remove_list_equiv rx all cs st rs ph phs rq :
  forallb is_rm_ctl cs = true ->
  obs (cf_rest rx all rs ph phs rq (fold_left (fun s c => cf_ctl_step all c s) cs st))
  = obs (cf_rest rx (allP all (rm_set_list all cs)) (filter (keepP (rm_set_list all cs)) rs) ph phs rq st).
Proof.
  intro H. apply rm_rest_from_rel. destruct (fold_rm_state all cs st H) as [A [B C]].
  split; [split|exact C].
  - intro id. rewrite A. apply orb_comm.
  - intros id _. apply B.
Qed.

Lemma existsb_perm {A} (f : A -> bool) l l' : Permutation l l' -> existsb f l = existsb f l'.
Proof.
  induction 1; cbn [existsb]; try reflexivity.
  - rewrite IHPermutation. reflexivity.
  - destruct (f x), (f y); reflexivity.
  - congruence.
Qed.

Lemma forallb_perm {A} (f : A -> bool) l l' : Permutation l l' -> forallb f l = forallb f l'.
Proof.
  induction 1; cbn [forallb]; try reflexivity.
  - rewrite IHPermutation. reflexivity.
  - destruct (f x), (f y); reflexivity.
  - congruence.
Qed.

(* the removal set does not depend on the order in which the ctl actions were executed ... *)
Lemma rm_set_list_perm all cs cs' id : Permutation cs cs' -> rm_set_list all cs id = rm_set_list all cs' id.
Proof. intro H. unfold rm_set_list. apply existsb_perm; exact H. Qed.

Theorem ctl_remove_order_irrelevant all cs cs' st id :
  Permutation cs cs' -> forallb is_rm_ctl cs = true ->
  is_removed (fold_left (fun s c => cf_ctl_step all c s) cs st) id
  = is_removed (fold_left (fun s c => cf_ctl_step all c s) cs' st) id.
Proof.
  intros Hp H. assert (forallb is_rm_ctl cs' = true) as H' by (rewrite <- (forallb_perm _ _ _ Hp); exact H).
  destruct (fold_rm_state all cs st H) as [A _]. destruct (fold_rm_state all cs' st H') as [A' _].
  rewrite A, A', (rm_set_list_perm all cs cs' id Hp). reflexivity.
Qed.

(* ... and neither does the rest of the transaction *)
Theorem ctl_remove_perm_rest rx all cs cs' st rs ph phs rq :
  Permutation cs cs' -> forallb is_rm_ctl cs = true ->
  obs (cf_rest rx all rs ph phs rq (fold_left (fun s c => cf_ctl_step all c s) cs st))
  = obs (cf_rest rx all rs ph phs rq (fold_left (fun s c => cf_ctl_step all c s) cs' st)).
Proof.
  intros Hp H. assert (forallb is_rm_ctl cs' = true) as H' by (rewrite <- (forallb_perm _ _ _ Hp); exact H).
  rewrite (ctl_remove_list_equiv rx all cs st rs ph phs rq H), (ctl_remove_list_equiv rx all cs' st rs ph phs rq H').
  assert (forall r, keepP (rm_set_list all cs) r = keepP (rm_set_list all cs') r) as E
    by (intro r; unfold keepP; rewrite (rm_set_list_perm all cs cs' _ Hp); reflexivity).
  unfold allP. rewrite (filter_ext' _ _ all (fun r _ => E r)), (filter_ext' _ _ rs (fun r _ => E r)). reflexivity.
Qed.

(* a range removes exactly its members: the rule with id i is removed by a list of id / range entries iff
   one entry is the id i or a valid range a-b with a <= i <= b *)
Lemma rm_set_list_ids all (l : list idspec) id :
  rm_set_list all (map CRmId l) id = existsb (fun sp => spec_valid sp && spec_has sp id) l.
Proof.
  unfold rm_set_list. induction l as [|sp l IH]; [reflexivity|]. cbn [map existsb]. rewrite IH. f_equal.
  destruct sp as [n|a b]; cbn [rm_set spec_valid spec_has andb]; reflexivity.
Qed.
