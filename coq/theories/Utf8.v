(* Utf8.v — Go's unicode/utf8 DecodeRune / EncodeRune on byte lists, as coded in the Go
   standard library (first-byte table with accept ranges). Used by the transformations that
   iterate over runes (compressWhitespace, removeWhitespace, utf8toUnicode, cssDecode). *)
From Verif Require Import Base.
Open Scope N_scope.

Definition rune_error : N := 65533. (* U+FFFD *)

Definition in_rng (lo hi b : N) : bool := (lo <=? b) && (b <=? hi).

(* returns (rune, size); size >= 1 for non-empty input, (RuneError,0) for empty input *)
Definition decode_rune (s : bytes) : N * nat :=
  match s with
  | [] => (rune_error, 0%nat)
  | b0 :: r =>
    if b0 <? 128 then (b0, 1%nat)
    else if in_rng 194 223 b0 then
      match r with
      | b1 :: _ => if in_rng 128 191 b1 then ((b0 mod 32) * 64 + (b1 mod 64), 2%nat) else (rune_error, 1%nat)
      | _ => (rune_error, 1%nat)
      end
    else if in_rng 224 239 b0 then
      let lo := if b0 =? 224 then 160 else 128 in
      let hi := if b0 =? 237 then 159 else 191 in
      match r with
      | b1 :: b2 :: _ =>
        if in_rng lo hi b1 && in_rng 128 191 b2
        then ((b0 mod 16) * 4096 + (b1 mod 64) * 64 + (b2 mod 64), 3%nat) else (rune_error, 1%nat)
      | _ => (rune_error, 1%nat)
      end
    else if in_rng 240 244 b0 then
      let lo := if b0 =? 240 then 144 else 128 in
      let hi := if b0 =? 244 then 143 else 191 in
      match r with
      | b1 :: b2 :: b3 :: _ =>
        if in_rng lo hi b1 && in_rng 128 191 b2 && in_rng 128 191 b3
        then ((b0 mod 8) * 262144 + (b1 mod 64) * 4096 + (b2 mod 64) * 64 + (b3 mod 64), 4%nat)
        else (rune_error, 1%nat)
      | _ => (rune_error, 1%nat)
      end
    else (rune_error, 1%nat)
  end.

Definition encode_rune (r : N) : bytes :=
  let r := if (1114111 <? r) || in_rng 55296 57343 r then rune_error else r in
  if r <? 128 then [r]
  else if r <? 2048 then [192 + r / 64; 128 + r mod 64]
  else if r <? 65536 then [224 + r / 4096; 128 + (r / 64) mod 64; 128 + r mod 64]
  else [240 + r / 262144; 128 + (r / 4096) mod 64; 128 + (r / 64) mod 64; 128 + r mod 64].

Lemma decode_rune_size_pos b s : (1 <= snd (decode_rune (b :: s)))%nat.
Proof.
  unfold decode_rune.
  repeat match goal with
  | |- context [if ?c then _ else _] => destruct c
  | |- context [match ?l with [] => _ | _ :: _ => _ end] => destruct l
  end; cbn [snd]; lia.
Qed.

Lemma decode_rune_size_le s : (snd (decode_rune s) <= length s)%nat.
Proof.
  unfold decode_rune. destruct s as [|b0 r]; [cbn; lia|].
  repeat match goal with
  | |- context [if ?c then _ else _] => destruct c
  | |- context [match ?l with [] => _ | _ :: _ => _ end] => destruct l
  end; cbn [snd length]; lia.
Qed.

(* unicode.IsSpace (White_Space property) *)
Definition is_unicode_space (r : N) : bool :=
  in_rng 9 13 r || (r =? 32) || (r =? 133) || (r =? 160) || (r =? 5760) || in_rng 8192 8202 r
  || (r =? 8232) || (r =? 8233) || (r =? 8239) || (r =? 8287) || (r =? 12288).
