(* AuditJsonProofs.v — the JSON string encoder / decoder round trip and its consequences (C19). *)
From Coq Require Import String.
From Verif Require Import Base Utf8 Utf8Proofs AuditJson.
From Coq Require Import ZifyBool ZifyN ZifyNat.
Open Scope N_scope.
Ltac Zify.zify_post_hook ::= Z.div_mod_to_equations.

Lemma js_hexv_hexd x : x < 16 -> js_hexv (js_hexd x) = Some x.
Proof.
  intros H. unfold js_hexd, js_hexv.
  destruct (x <? 10) eqn:E.
  - apply N.ltb_lt in E.
    replace ((48 <=? 48 + x) && (48 + x <=? 57)) with true by (symmetry; apply andb_true_iff; split; apply N.leb_le; lia).
    f_equal. lia.
  - apply N.ltb_ge in E.
    replace ((48 <=? 87 + x) && (87 + x <=? 57)) with false
      by (symmetry; apply andb_false_iff; right; apply N.leb_gt; lia).
    replace ((97 <=? 87 + x) && (87 + x <=? 102)) with true by (symmetry; apply andb_true_iff; split; apply N.leb_le; lia).
    f_equal. lia.
Qed.

Lemma encode_rune_ascii b : b < 128 -> encode_rune b = [b].
Proof.
  intros H. unfold encode_rune, in_rng, rune_error.
  replace (1114111 <? b) with false by (symmetry; apply N.ltb_ge; lia).
  replace (55296 <=? b) with false by (symmetry; apply N.leb_gt; lia).
  cbn [orb andb]. replace (b <? 128) with true by (symmetry; apply N.ltb_lt; lia). reflexivity.
Qed.

Lemma js_unq_u4 a b c d t :
  a < 16 -> b < 16 -> c < 16 -> d < 16 ->
  js_unq (92 :: 117 :: js_hexd a :: js_hexd b :: js_hexd c :: js_hexd d :: t)
  = js_cons (encode_rune (a * 4096 + b * 256 + c * 16 + d)) (js_unq t).
Proof.
  intros Ha Hb Hc Hd. cbn [js_unq]. change (92 =? 34) with false. change (92 =? 92) with true.
  change (117 =? 117) with true. cbn iota.
  rewrite !js_hexv_hexd by assumption. reflexivity.
Qed.

Lemma js_unq_plain b t :
  32 <= b -> b <> 34 -> b <> 92 -> js_unq (b :: t) = js_cons [b] (js_unq t).
Proof.
  intros H1 H2 H3. cbn [js_unq].
  replace (b =? 34) with false by (symmetry; apply N.eqb_neq; assumption).
  replace (b =? 92) with false by (symmetry; apply N.eqb_neq; assumption).
  replace (b <? 32) with false by (symmetry; apply N.ltb_ge; assumption). reflexivity.
Qed.

Lemma js_unq_ascii b t : b < 128 -> js_unq (js_esc_ascii b ++ t) = js_cons [b] (js_unq t).
Proof.
  intros Hb. unfold js_esc_ascii.
  destruct (js_safe b) eqn:Es.
  - unfold js_safe in Es. apply andb_true_iff in Es as [Es E3]. apply andb_true_iff in Es as [E1 E2].
    apply negb_true_iff in E3.
    apply orb_false_iff in E3 as [E3 _]. apply orb_false_iff in E3 as [E3 _]. apply orb_false_iff in E3 as [E3 _].
    apply orb_false_iff in E3 as [E34 E92].
    apply N.leb_le in E1. apply N.eqb_neq in E34. apply N.eqb_neq in E92.
    cbn [app]. apply js_unq_plain; assumption.
  - destruct ((b =? 92) || (b =? 34)) eqn:E1.
    { apply orb_true_iff in E1 as [E|E]; apply N.eqb_eq in E; subst b; reflexivity. }
    destruct (b =? 8) eqn:E2; [apply N.eqb_eq in E2; subst b; reflexivity|].
    destruct (b =? 12) eqn:E3; [apply N.eqb_eq in E3; subst b; reflexivity|].
    destruct (b =? 10) eqn:E4; [apply N.eqb_eq in E4; subst b; reflexivity|].
    destruct (b =? 13) eqn:E5; [apply N.eqb_eq in E5; subst b; reflexivity|].
    destruct (b =? 9) eqn:E6; [apply N.eqb_eq in E6; subst b; reflexivity|].
    cbn [app]. change 48 with (js_hexd 0) at 1 2.
    rewrite js_unq_u4 by lia.
    replace (0 * 4096 + 0 * 256 + b / 16 * 16 + b mod 16) with b by lia.
    rewrite encode_rune_ascii by assumption. reflexivity.
Qed.

Lemma js_cons_app x y o : js_cons (x ++ y) o = js_cons x (js_cons y o).
Proof. destruct o as [[v t]|]; cbn [js_cons]; [rewrite app_assoc; reflexivity | reflexivity]. Qed.

Lemma js_unq_copy l t : Forall (fun b => 128 <= b) l -> js_unq (l ++ t) = js_cons l (js_unq t).
Proof.
  induction 1 as [|b l Hb _ IH].
  - cbn [app]. destruct (js_unq t) as [[v u]|]; reflexivity.
  - cbn [app]. rewrite js_unq_plain by lia. rewrite IH.
    change (b :: l) with ([b] ++ l). rewrite js_cons_app. reflexivity.
Qed.

(* a decoding step on a non-ASCII first byte: the width-1 replacement, or 2..4 bytes all >= 0x80 *)
Lemma decode_nonascii b r c n :
  128 <= b -> decode_rune (b :: r) = (c, n) ->
  (n = 1%nat /\ c = rune_error)
  \/ ((2 <= n)%nat /\ (n <= length (b :: r))%nat /\ Forall (fun x => 128 <= x) (firstn n (b :: r))).
Proof.
  intros Hb. unfold decode_rune, in_rng.
  replace (b <? 128) with false by (symmetry; apply N.ltb_ge; assumption).
  destruct ((194 <=? b) && (b <=? 223)) eqn:E2.
  { destruct r as [|b1 r]; [intros H; inversion H; auto|].
    destruct ((128 <=? b1) && (b1 <=? 191)) eqn:F1; intros H; inversion H; subst; auto.
    right. apply andb_true_iff in F1 as [F1 _]. apply N.leb_le in F1.
    split; [lia|]. split; [cbn; lia|]. cbn [firstn]. repeat constructor; assumption. }
  destruct ((224 <=? b) && (b <=? 239)) eqn:E3.
  { destruct r as [|b1 [|b2 r]]; try (intros H; inversion H; auto; fail).
    match goal with |- context [if ?X then _ else _] => destruct X eqn:F end; intros H; inversion H; subst; auto.
    right. apply andb_true_iff in F as [F1 F2]. apply andb_true_iff in F1 as [F1 _]. apply andb_true_iff in F2 as [F2 _].
    apply N.leb_le in F1, F2.
    split; [lia|]. split; [cbn; lia|]. cbn [firstn].
    assert (128 <= b1) by (destruct (b =? 224); lia). repeat constructor; assumption. }
  destruct ((240 <=? b) && (b <=? 244)) eqn:E4.
  { destruct r as [|b1 [|b2 [|b3 r]]]; try (intros H; inversion H; auto; fail).
    match goal with |- context [if ?X then _ else _] => destruct X eqn:F end; intros H; inversion H; subst; auto.
    right. apply andb_true_iff in F as [F F3]. apply andb_true_iff in F as [F1 F2].
    apply andb_true_iff in F1 as [F1 _]. apply andb_true_iff in F2 as [F2 _]. apply andb_true_iff in F3 as [F3 _].
    apply N.leb_le in F1, F2, F3.
    split; [lia|]. split; [cbn; lia|]. cbn [firstn].
    assert (128 <= b1) by (destruct (b =? 240); lia). repeat constructor; assumption. }
  intros H; inversion H; auto.
Qed.

Lemma wf_skipn n s : wf_bytes s -> wf_bytes (skipn n s).
Proof.
  unfold wf_bytes. revert s. induction n as [|n IH]; intros s H; [exact H|].
  destruct s; [constructor|]. inversion H; subst. cbn [skipn]. auto.
Qed.

(* the round trip: decoding what the encoder printed gives the string back (invalid UTF-8 bytes as
   U+FFFD) and stops exactly after the closing quote, whatever follows *)
Lemma js_roundtrip_fuel : forall fuel s rest,
  wf_bytes s -> (length s <= fuel)%nat ->
  js_unq (js_esc_fuel fuel s ++ 34 :: rest) = Some (js_san_fuel fuel s, rest).
Proof.
  induction fuel as [|f IH]; intros s rest Hwf Hlen.
  - destruct s; [reflexivity | cbn in Hlen; lia].
  - destruct s as [|b r]; [reflexivity|].
    cbn [js_esc_fuel js_san_fuel].
    assert (Hr : wf_bytes r) by (inversion Hwf; assumption).
    assert (Hlr : (length r <= f)%nat) by (cbn in Hlen; lia).
    destruct (b <? 128) eqn:Eb.
    + apply N.ltb_lt in Eb. rewrite <- app_assoc, js_unq_ascii by assumption.
      rewrite IH by assumption. reflexivity.
    + apply N.ltb_ge in Eb.
      destruct (decode_rune (b :: r)) as [c n] eqn:Ed.
      destruct (decode_nonascii b r c n Eb Ed) as [[-> ->]|[Hn [Hl Hall]]].
      * change ((rune_error =? rune_error) && Nat.eqb 1 1) with true. cbn iota.
        rewrite <- app_assoc.
        change (js_ufffd ++ js_esc_fuel f r ++ 34 :: rest)
          with (92 :: 117 :: js_hexd 15 :: js_hexd 15 :: js_hexd 15 :: js_hexd 13 :: (js_esc_fuel f r ++ 34 :: rest)).
        rewrite js_unq_u4 by lia. rewrite IH by assumption. reflexivity.
      * assert (En : Nat.eqb n 1 = false) by (apply Nat.eqb_neq; lia).
        rewrite En, andb_false_r.
        assert (Hsk : wf_bytes (skipn n (b :: r))) by (apply wf_skipn; assumption).
        assert (Hls : (length (skipn n (b :: r)) <= f)%nat) by (rewrite skipn_length; cbn [length] in *; lia).
        assert (Henc : encode_rune c = firstn n (b :: r)).
        { apply (encode_decode (b :: r) c n Hwf Ed). apply orb_true_iff. right. apply Nat.ltb_lt. lia. }
        destruct ((c =? 8232) || (c =? 8233)) eqn:Eu.
        -- rewrite <- app_assoc. unfold js_u202.
           assert (Hc : c = 8232 \/ c = 8233) by (apply orb_true_iff in Eu as [E|E]; apply N.eqb_eq in E; auto).
           assert (Hm : js_hexd (c mod 16) = js_hexd (c - 8224) /\ c - 8224 < 16 /\ 2 * 4096 + 0 * 256 + 2 * 16 + (c - 8224) = c).
           { destruct Hc as [-> | ->]; repeat split; reflexivity. }
           destruct Hm as [-> [Hlt Hval]].
           change (92 :: 117 :: 50 :: 48 :: 50 :: js_hexd (c - 8224) :: nil)
             with ([92; 117; js_hexd 2; js_hexd 0; js_hexd 2; js_hexd (c - 8224)]).
           cbn [app]. rewrite js_unq_u4 by lia. rewrite Hval, Henc, IH by assumption. reflexivity.
        -- rewrite <- app_assoc, js_unq_copy by assumption. rewrite IH by assumption. reflexivity.
Qed.

Lemma js_roundtrip s rest :
  wf_bytes s -> js_unquote (js_string s ++ rest) = Some (js_sanitize s, rest).
Proof.
  intros H. unfold js_string, js_unquote, js_escape, js_sanitize. cbn [app]. change (34 =? 34) with true. cbn iota.
  rewrite <- app_assoc. cbn [app]. apply js_roundtrip_fuel; [assumption | lia].
Qed.

Lemma js_sanitize_valid_fuel : forall fuel s,
  (length s <= fuel)%nat -> js_valid_fuel fuel s = true -> js_san_fuel fuel s = s.
Proof.
  induction fuel as [|f IH]; intros s Hl Hv.
  - destruct s; [reflexivity | cbn in Hl; lia].
  - destruct s as [|b r]; [reflexivity|]. cbn [js_san_fuel js_valid_fuel] in *.
    destruct (b <? 128) eqn:Eb.
    + rewrite IH; [reflexivity | cbn in Hl; lia | assumption].
    + destruct (decode_rune (b :: r)) as [c n] eqn:Ed.
      destruct ((c =? rune_error) && Nat.eqb n 1) eqn:E; [discriminate|].
      apply N.ltb_ge in Eb.
      destruct (decode_nonascii b r c n Eb Ed) as [[-> ->]|[Hn [Hln _]]]; [discriminate|].
      rewrite IH; [apply firstn_skipn | rewrite skipn_length; cbn [length] in *; lia | assumption].
Qed.

(* valid UTF-8 comes back unchanged *)
Lemma js_sanitize_valid s : valid_utf8 s = true -> js_sanitize s = s.
Proof. intros H. apply js_sanitize_valid_fuel; [lia | exact H]. Qed.

Lemma js_roundtrip_valid s rest :
  wf_bytes s -> valid_utf8 s = true -> js_unquote (js_string s ++ rest) = Some (s, rest).
Proof. intros Hw Hv. rewrite js_roundtrip by assumption. rewrite js_sanitize_valid by assumption. reflexivity. Qed.

(* no raw control byte (in particular no newline) in a printed string *)
Lemma js_esc_ascii_printable b : b < 128 -> Forall (fun x => 32 <= x) (js_esc_ascii b).
Proof.
  intros Hb. unfold js_esc_ascii.
  destruct (js_safe b) eqn:Es.
  { unfold js_safe in Es. apply andb_true_iff in Es as [Es _]. apply andb_true_iff in Es as [E1 _].
    apply N.leb_le in E1. repeat constructor. assumption. }
  destruct ((b =? 92) || (b =? 34)) eqn:E1.
  { apply orb_true_iff in E1 as [E|E]; apply N.eqb_eq in E; subst b; repeat constructor; lia. }
  repeat match goal with |- context [if ?X then _ else _] => destruct X end; repeat constructor; try lia.
  all: unfold js_hexd; match goal with |- context [if ?X then _ else _] => destruct X end; lia.
Qed.

Lemma js_escape_printable_fuel : forall fuel s,
  wf_bytes s -> (length s <= fuel)%nat -> Forall (fun x => 32 <= x) (js_esc_fuel fuel s).
Proof.
  induction fuel as [|f IH]; intros s Hwf Hl; [constructor|].
  destruct s as [|b r]; [constructor|]. cbn [js_esc_fuel].
  assert (Hr : wf_bytes r) by (inversion Hwf; assumption).
  assert (Hlr : (length r <= f)%nat) by (cbn in Hl; lia).
  destruct (b <? 128) eqn:Eb.
  - apply N.ltb_lt in Eb. apply Forall_app. split; [apply js_esc_ascii_printable; assumption | apply IH; assumption].
  - apply N.ltb_ge in Eb. destruct (decode_rune (b :: r)) as [c n] eqn:Ed.
    assert (Hsk : Forall (fun x => 32 <= x) (js_esc_fuel f (skipn n (b :: r)))).
    { destruct n; [cbn [skipn]; destruct (decode_nonascii b r c 0 Eb Ed) as [[? _]|[? _]]; lia|].
      apply IH; [apply wf_skipn; assumption | rewrite skipn_length; cbn [length] in *; lia]. }
    destruct ((c =? rune_error) && Nat.eqb n 1).
    + apply Forall_app. split; [repeat constructor; lia | apply IH; assumption].
    + destruct ((c =? 8232) || (c =? 8233)).
      * apply Forall_app. split; [|exact Hsk]. unfold js_u202, js_hexd.
        repeat constructor; try lia. destruct (c mod 16 <? 10); lia.
      * apply Forall_app. split; [|exact Hsk].
        destruct (decode_nonascii b r c n Eb Ed) as [[-> ->]|[_ [_ Hall]]].
        -- cbn [firstn]. repeat constructor. lia.
        -- eapply Forall_impl; [|exact Hall]. cbn. intros; lia.
Qed.

Lemma js_string_one_line s : wf_bytes s -> Forall (fun x => 32 <= x) (js_string s).
Proof.
  intros H. unfold js_string. constructor; [lia|]. apply Forall_app. split.
  - apply js_escape_printable_fuel; [assumption | unfold js_escape; lia].
  - repeat constructor. lia.
Qed.

(* the record: the transaction id sits in the head as one string literal, and reads back *)
Lemma json_record_id h middle ms :
  wf_bytes (jh_id h) ->
  json_record h middle ms = json_head_pre h ++ js_string (jh_id h) ++ (json_head_post h ++ middle ++ json_tail ms)
  /\ js_unquote (js_string (jh_id h) ++ (json_head_post h ++ middle ++ json_tail ms))
     = Some (js_sanitize (jh_id h), json_head_post h ++ middle ++ json_tail ms).
Proof.
  intros H. split.
  - unfold json_record, json_head. rewrite <- !app_assoc. reflexivity.
  - apply js_roundtrip. exact H.
Qed.
