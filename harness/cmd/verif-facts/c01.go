package main

// C01's correspondence (CFold cases) evaluates the key folding of case-insensitive collections with the
// lower-case table of gen/FactsC14.v: the C01 check regenerates and re-checks those facts itself so that it
// does not depend on a C14 run having produced them.
func init() { extractors["C01"] = factsC14 }
