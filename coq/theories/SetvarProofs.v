(* SetvarProofs.v — lemmas and proofs about the model of Setvar.v (property C09). *)
From Verif Require Import Base Transform Setvar.
From Coq Require Import String ZArith Lia ZifyN ZifyBool ZifyNat.
From Coq Require Import List.
Ltac Zify.zify_post_hook ::= Z.div_mod_to_equations.
Open Scope N_scope.

(* ------------------------------------------------------------------------------------ *)
(* decimal rendering and parsing                                                        *)
(* ------------------------------------------------------------------------------------ *)
Lemma itoa_fuel_digits : forall f n acc,
  Forall (fun b => sv_is_digit b = true) acc -> Forall (fun b => sv_is_digit b = true) (itoa_fuel f n acc).
Proof.
  induction f as [|f IH]; intros n acc H; cbn [itoa_fuel]; [exact H|].
  assert (Hd : sv_is_digit (48 + n mod 10) = true).
  { unfold sv_is_digit. assert (n mod 10 < 10) by (apply N.mod_lt; lia).
    apply andb_true_iff; split; apply N.leb_le; lia. }
  destruct (n / 10 =? 0); [constructor; assumption|].
  apply IH. constructor; assumption.
Qed.

Lemma itoa_fuel_nonempty : forall f n acc, acc <> [] -> itoa_fuel f n acc <> [].
Proof.
  induction f as [|f IH]; intros n acc H; cbn [itoa_fuel]; [exact H|].
  destruct (n / 10 =? 0); [discriminate|]. apply IH. discriminate.
Qed.

Lemma itoa_digits n : Forall (fun b => sv_is_digit b = true) (itoa n).
Proof. apply itoa_fuel_digits. constructor. Qed.

Lemma itoa_nonempty n : itoa n <> [].
Proof.
  unfold itoa. cbn [itoa_fuel]. destruct (n / 10 =? 0); [discriminate|].
  apply itoa_fuel_nonempty. discriminate.
Qed.

Fixpoint pow2 (f : nat) : N := match f with O => 1 | S f' => 2 * pow2 f' end.

Lemma itoa_fuel_val : forall f n acc,
  n < pow2 f ->
  fold_left sv_dec_step (itoa_fuel f n acc) 0 = fold_left sv_dec_step acc n.
Proof.
  induction f as [|f IH]; intros n acc H; cbn [itoa_fuel pow2] in *.
  - assert (n = 0) by lia. subst. reflexivity.
  - assert (Hdm : n = 10 * (n / 10) + n mod 10) by (apply N.div_mod; lia).
    assert (Hm : n mod 10 < 10) by (apply N.mod_lt; lia).
    destruct (n / 10 =? 0) eqn:E.
    + apply N.eqb_eq in E. cbn [fold_left]. unfold sv_dec_step at 2. f_equal. lia.
    + rewrite IH.
      * cbn [fold_left]. unfold sv_dec_step at 2. f_equal. lia.
      * assert (n / 10 <= n / 2) by (apply N.div_le_compat_l; lia).
        assert (n / 2 < pow2 f) by (apply N.div_lt_upper_bound; lia). lia.
Qed.

Lemma pow2_log2 n : n < pow2 (S (N.to_nat (N.log2 n))).
Proof.
  assert (Hp : forall k, pow2 k = 2 ^ N.of_nat k).
  { induction k as [|k IH]; [reflexivity|]. cbn [pow2]. rewrite IH, Nnat.Nat2N.inj_succ, N.pow_succ_r'. reflexivity. }
  rewrite Hp, Nnat.Nat2N.inj_succ, Nnat.N2Nat.id.
  destruct (N.eq_dec n 0) as [->|Hn]; [reflexivity|].
  apply N.log2_spec. lia.
Qed.

Lemma itoa_val n : sv_dec_val (itoa n) = n.
Proof. unfold sv_dec_val, itoa. rewrite itoa_fuel_val; [reflexivity | apply pow2_log2]. Qed.

Lemma dec_fold_ge : forall ds n, n <= fold_left sv_dec_step ds n.
Proof.
  induction ds as [|d ds IH]; intro n; cbn [fold_left]; [lia|].
  specialize (IH (sv_dec_step n d)). unfold sv_dec_step in *. lia.
Qed.

Lemma parse_uint_small : forall ds n,
  Forall (fun b => sv_is_digit b = true) ds ->
  fold_left sv_dec_step ds n <= 9223372036854775808 ->
  sv_parse_uint ds n = Some (Some (fold_left sv_dec_step ds n)).
Proof.
  induction ds as [|d ds IH]; intros n Hd Hb; cbn [sv_parse_uint fold_left]; [reflexivity|].
  inversion Hd as [|? ? H1 H2]; subst. rewrite H1. cbn [negb].
  cbn [fold_left] in Hb. pose proof (dec_fold_ge ds (sv_dec_step n d)) as Hge.
  assert (Hn : sv_dec_step n d <= 9223372036854775808) by lia.
  assert (n * 10 <= sv_dec_step n d) by (unfold sv_dec_step; lia).
  unfold sv_cutoff_u, sv_max_u.
  destruct (1844674407370955162 <=? n) eqn:E1; [apply N.leb_le in E1; lia|].
  destruct (18446744073709551615 <? sv_dec_step n d) eqn:E2; [apply N.ltb_lt in E2; lia|].
  apply IH; assumption.
Qed.

Lemma itoa_head_not_sign n : match itoa n with c :: _ => (c =? 43) = false /\ (c =? 45) = false | [] => False end.
Proof.
  pose proof (itoa_digits n) as H. pose proof (itoa_nonempty n) as Hn.
  destruct (itoa n) as [|c r]; [congruence|]. inversion H as [|? ? H1 _]; subst.
  unfold sv_is_digit in H1. apply andb_true_iff in H1 as [A B]. apply N.leb_le in A. apply N.leb_le in B.
  split; apply N.eqb_neq; lia.
Qed.

Lemma atoi_digits_itoa n neg :
  n <= 9223372036854775808 ->
  sv_atoi_digits neg (itoa n) =
    let m := Z.of_N n in
    if neg then (if (two63 <? m)%Z then AErr (- two63)%Z else AOk (- m)%Z)
    else (if (two63 <=? m)%Z then AErr (two63 - 1)%Z else AOk m).
Proof.
  intro Hb. unfold sv_atoi_digits.
  pose proof (itoa_nonempty n) as Hn. destruct (itoa n) as [|c r] eqn:E; [congruence|].
  rewrite <- E. rewrite parse_uint_small.
  - fold (sv_dec_val (itoa n)). rewrite itoa_val. reflexivity.
  - apply itoa_digits.
  - fold (sv_dec_val (itoa n)). rewrite itoa_val. exact Hb.
Qed.

(* the value written by an arithmetic setvar is read back unchanged *)
Lemma atoi_z_itoa z : (- two63 <= z < two63)%Z -> atoi (z_itoa z) = AOk z.
Proof.
  intro H. unfold z_itoa, two63 in *. destruct (z <? 0)%Z eqn:E.
  - apply Z.ltb_lt in E. cbn [atoi]. change (45 =? 43) with false. change (45 =? 45) with true. cbn iota.
    rewrite atoi_digits_itoa by lia. cbn zeta. rewrite Z2N.id by lia. unfold two63.
    destruct (9223372036854775808 <? - z)%Z eqn:E2; [apply Z.ltb_lt in E2; lia|]. f_equal. lia.
  - apply Z.ltb_ge in E. pose proof (itoa_head_not_sign (Z.to_N z)) as Hh.
    unfold atoi. destruct (itoa (Z.to_N z)) as [|c r] eqn:Ei; [contradiction|]. destruct Hh as [A B]. rewrite A, B.
    rewrite <- Ei. rewrite atoi_digits_itoa by lia. cbn zeta. rewrite Z2N.id by lia. unfold two63.
    destruct (9223372036854775808 <=? z)%Z eqn:E2; [apply Z.leb_le in E2; lia|]. reflexivity.
Qed.

Lemma wrap64_id z : (- two63 <= z < two63)%Z -> wrap64 z = z.
Proof. intro H. unfold wrap64, two63 in *. rewrite Z.mod_small by lia. lia. Qed.

(* ------------------------------------------------------------------------------------ *)
(* the TX map                                                                           *)
(* ------------------------------------------------------------------------------------ *)
Lemma tx_get_set_same m k vs : tx_get (tx_set m k vs) k = vs.
Proof.
  induction m as [|[k' vs'] m IH]; cbn [tx_set tx_get].
  - rewrite bytes_eqb_refl. reflexivity.
  - destruct (bytes_eqb k' k) eqn:E; cbn [tx_get].
    + rewrite bytes_eqb_refl. reflexivity.
    + rewrite E. exact IH.
Qed.

Lemma tx_get_set_other m k vs k2 : k2 <> k -> tx_get (tx_set m k vs) k2 = tx_get m k2.
Proof.
  intro Hne. induction m as [|[k' vs'] m IH]; cbn [tx_set tx_get].
  - destruct (bytes_eqb k k2) eqn:E; [apply bytes_eqb_eq in E; congruence | reflexivity].
  - destruct (bytes_eqb k' k) eqn:E; cbn [tx_get].
    + apply bytes_eqb_eq in E. subst k'.
      destruct (bytes_eqb k k2) eqn:E2; [apply bytes_eqb_eq in E2; congruence | reflexivity].
    + destruct (bytes_eqb k' k2); [reflexivity | exact IH].
Qed.

Lemma tx_get_remove_same m k : tx_get (tx_remove m k) k = [].
Proof.
  induction m as [|[k' vs'] m IH]; cbn [tx_remove tx_get]; [reflexivity|].
  destruct (bytes_eqb k' k) eqn:E; [exact IH|]. cbn [tx_get]. rewrite E. exact IH.
Qed.

Lemma tx_get_remove_other m k k2 : k2 <> k -> tx_get (tx_remove m k) k2 = tx_get m k2.
Proof.
  intro Hne. induction m as [|[k' vs'] m IH]; cbn [tx_remove tx_get]; [reflexivity|].
  destruct (bytes_eqb k' k) eqn:E.
  - apply bytes_eqb_eq in E. subst k'.
    destruct (bytes_eqb k k2) eqn:E2; [apply bytes_eqb_eq in E2; congruence | exact IH].
  - cbn [tx_get]. destruct (bytes_eqb k' k2); [reflexivity | exact IH].
Qed.

Lemma tx_get_setindex0_other m k v k2 : k2 <> k -> tx_get (tx_setindex0 m k v) k2 = tx_get m k2.
Proof. intro H. unfold tx_setindex0. destruct (tx_get m k); apply tx_get_set_other; exact H. Qed.

Lemma tx_get_setindex0_same m k v : exists rest, tx_get (tx_setindex0 m k v) k = v :: rest.
Proof. unfold tx_setindex0. destruct (tx_get m k) as [|x rest]; rewrite tx_get_set_same; eauto. Qed.

(* keys stay distinct: the association list is a faithful picture of a Go map *)
Definition tx_keys (m : txmap) : list bytes := map fst m.

Lemma tx_set_keys_in m k vs x : In x (tx_keys (tx_set m k vs)) <-> x = k \/ In x (tx_keys m).
Proof.
  induction m as [|[k' vs'] m IH]; cbn [tx_set tx_keys map In fst].
  - intuition congruence.
  - destruct (bytes_eqb k' k) eqn:E; cbn [tx_keys map In fst].
    + apply bytes_eqb_eq in E. subst. intuition congruence.
    + unfold tx_keys in IH. rewrite IH. intuition congruence.
Qed.

Lemma tx_set_nodup m k vs : NoDup (tx_keys m) -> NoDup (tx_keys (tx_set m k vs)).
Proof.
  induction m as [|[k' vs'] m IH]; intro H; cbn [tx_set tx_keys map fst].
  - constructor; [intros []|constructor].
  - inversion H as [|? ? Hn Hd]; subst. destruct (bytes_eqb k' k) eqn:E; cbn [tx_keys map fst].
    + apply bytes_eqb_eq in E. subst. constructor; assumption.
    + constructor; [|apply IH; exact Hd].
      intro Hin. apply tx_set_keys_in in Hin as [->|Hin]; [rewrite bytes_eqb_refl in E; discriminate | contradiction].
Qed.

Lemma tx_remove_keys_in m k x : In x (tx_keys (tx_remove m k)) -> In x (tx_keys m).
Proof.
  induction m as [|[k' vs'] m IH]; cbn [tx_remove tx_keys map In fst]; [tauto|].
  destruct (bytes_eqb k' k); cbn [tx_keys map In fst]; intuition.
Qed.

Lemma tx_remove_nodup m k : NoDup (tx_keys m) -> NoDup (tx_keys (tx_remove m k)).
Proof.
  induction m as [|[k' vs'] m IH]; intro H; cbn [tx_remove tx_keys map fst]; [constructor|].
  inversion H as [|? ? Hn Hd]; subst. destruct (bytes_eqb k' k); [apply IH; exact Hd|].
  cbn [tx_keys map fst]. constructor; [|apply IH; exact Hd].
  intro Hin. apply tx_remove_keys_in in Hin. contradiction.
Qed.

(* ------------------------------------------------------------------------------------ *)
(* setvar semantics (C09_setvar_semantics)                                               *)
(* ------------------------------------------------------------------------------------ *)
Lemma setvar_apply_nodup rm k v m : NoDup (tx_keys m) -> NoDup (tx_keys (setvar_apply rm k v m)).
Proof.
  intro H. unfold setvar_apply. destruct rm; [apply tx_remove_nodup; exact H|].
  destruct v as [|c rest]; [apply tx_set_nodup; exact H|].
  destruct ((c =? 43) || (c =? 45)); [|apply tx_set_nodup; exact H].
  destruct (match rest with [] => AOk 0%Z | _ :: _ => atoi rest end).
  - destruct (match match tx_get m k with c0 :: _ => c0 | [] => [] end with [] => AOk 0%Z | _ :: _ => atoi _ end);
      [destruct (c =? 43); apply tx_set_nodup; exact H | exact H].
  - destruct (is_prefix (str "tx.") rest); [exact H | apply tx_set_nodup; exact H].
Qed.

(* every other key is left alone *)
Lemma setvar_apply_frame rm k v m k2 : k2 <> k -> tx_get (setvar_apply rm k v m) k2 = tx_get m k2.
Proof.
  intro Hne. unfold setvar_apply. destruct rm; [apply tx_get_remove_other; exact Hne|].
  destruct v as [|c rest]; [apply tx_get_set_other; exact Hne|].
  destruct ((c =? 43) || (c =? 45)); [|apply tx_get_set_other; exact Hne].
  destruct (match rest with [] => AOk 0%Z | _ :: _ => atoi rest end).
  - destruct (match match tx_get m k with c0 :: _ => c0 | [] => [] end with [] => AOk 0%Z | _ :: _ => atoi _ end);
      [destruct (c =? 43); apply tx_get_set_other; exact Hne | reflexivity].
  - destruct (is_prefix (str "tx.") rest); [reflexivity | apply tx_get_set_other; exact Hne].
Qed.

Lemma setvar_delete_removes k v m : tx_get (setvar_apply true k v m) k = [].
Proof. apply tx_get_remove_same. Qed.

Lemma setvar_empty_value k m : tx_get (setvar_apply false k [] m) k = [[]].
Proof. unfold setvar_apply. apply tx_get_set_same. Qed.

Lemma setvar_assign_one_value k c rest m :
  (c =? 43) || (c =? 45) = false -> tx_get (setvar_apply false k (c :: rest) m) k = [c :: rest].
Proof. intro H. unfold setvar_apply. rewrite H. apply tx_get_set_same. Qed.

(* the integer the code reads as the current value of a key (None: Atoi fails) *)
Definition tx_counter (m : txmap) (k : bytes) : option Z :=
  match (match tx_get m k with c :: _ => c | [] => [] end) with
  | [] => Some 0%Z
  | v => match atoi v with AOk z => Some z | AErr _ => None end
  end.
Definition sv_operand (rest : bytes) : atoi_res := match rest with [] => AOk 0%Z | _ => atoi rest end.

Lemma setvar_arith k sign rest m cur n :
  (sign = 43 \/ sign = 45) -> tx_counter m k = Some cur -> sv_operand rest = AOk n ->
  tx_get (setvar_apply false k (sign :: rest) m) k =
    [z_itoa (wrap64 (if sign =? 43 then cur + n else cur - n))].
Proof.
  intros Hs Hc Hn. unfold setvar_apply, tx_counter, sv_operand in *.
  assert (Hsg : (sign =? 43) || (sign =? 45) = true) by (destruct Hs; subst; reflexivity).
  rewrite Hsg, Hn.
  destruct (match tx_get m k with c :: _ => c | [] => [] end) as [|c0 r0].
  - inversion Hc; subst. destruct (sign =? 43); apply tx_get_set_same.
  - destruct (atoi (c0 :: r0)); [|discriminate]. inversion Hc; subst.
    destruct (sign =? 43); apply tx_get_set_same.
Qed.

Lemma setvar_non_numeric_current k sign rest m n :
  (sign = 43 \/ sign = 45) -> tx_counter m k = None -> sv_operand rest = AOk n ->
  setvar_apply false k (sign :: rest) m = m.
Proof.
  intros Hs Hc Hn. unfold setvar_apply, tx_counter, sv_operand in *.
  assert (Hsg : (sign =? 43) || (sign =? 45) = true) by (destruct Hs; subst; reflexivity).
  rewrite Hsg, Hn.
  destruct (match tx_get m k with c :: _ => c | [] => [] end) as [|c0 r0]; [discriminate|].
  destruct (atoi (c0 :: r0)); [discriminate | reflexivity].
Qed.

Lemma setvar_non_numeric_operand k sign rest m z :
  (sign = 43 \/ sign = 45) -> sv_operand rest = AErr z ->
  setvar_apply false k (sign :: rest) m =
    if is_prefix (str "tx.") rest then m else tx_set m k [sign :: rest].
Proof.
  intros Hs Hn. unfold setvar_apply, sv_operand in *.
  assert (Hsg : (sign =? 43) || (sign =? 45) = true) by (destruct Hs; subst; reflexivity).
  rewrite Hsg, Hn. reflexivity.
Qed.

(* the prefix test that recognises an unresolved %{tx.x} operand is case sensitive: the same
   missing variable written %{TX.x} overwrites the counter with the text "+TX.x" *)
Example setvar_missing_operand_case :
  let m := [(str "score", [str "5"])] in
  setvar_apply false (str "score") (str "+tx.inc") m = m /\
  setvar_apply false (str "score") (str "+TX.inc") m = [(str "score", [str "+TX.inc"])].
Proof. vm_compute. split; reflexivity. Qed.

(* numeric increments under the no-overflow guard: the counter moves by exactly the operand *)
Lemma setvar_counter_step k sign rest m cur n :
  (sign = 43 \/ sign = 45) -> tx_counter m k = Some cur -> sv_operand rest = AOk n ->
  let d := if sign =? 43 then n else (- n)%Z in
  (- two63 <= cur + d < two63)%Z ->
  tx_counter (setvar_apply false k (sign :: rest) m) k = Some (cur + d)%Z.
Proof.
  intros Hs Hc Hn d Hb. unfold tx_counter at 1.
  rewrite (setvar_arith k sign rest m cur n Hs Hc Hn).
  assert (Hv : (if sign =? 43 then (cur + n)%Z else (cur - n)%Z) = (cur + d)%Z).
  { subst d. destruct (sign =? 43); lia. }
  rewrite Hv, wrap64_id by exact Hb.
  pose proof (atoi_z_itoa (cur + d) Hb) as Ha.
  destruct (z_itoa (cur + d)) as [|c r] eqn:E.
  - unfold z_itoa in E. destruct (cur + d <? 0)%Z; [discriminate|]. exfalso. exact (itoa_nonempty _ E).
  - rewrite Ha. reflexivity.
Qed.

(* ------------------------------------------------------------------------------------ *)
(* the ghost trace: which action ran how often                                          *)
(* ------------------------------------------------------------------------------------ *)
Definition is_nd (a : action) : bool := match a with ANd _ | ASetvar _ => true | _ => false end.

(* tags (level, index) of the "Evaluating action" lines of a trace *)
Definition act_tags (tr : list event) : list (nat * nat) :=
  flat_map (fun e => match e with EvAct l i _ => [(l, i)] | _ => [] end) tr.
(* the flow / disruptive lines and the MatchRule lines of a trace *)
Definition ev_is_fd (e : event) : bool :=
  match e with EvFlow _ | EvDisr _ | EvRuleMatched _ => true | _ => false end.
Definition fd_events (tr : list event) : list event := filter ev_is_fd tr.

Definition tag_eqb (a b : nat * nat) : bool := Nat.eqb (fst a) (fst b) && Nat.eqb (snd a) (snd b).
Definition count_tag (t : nat * nat) (l : list (nat * nat)) : nat := length (filter (tag_eqb t) l).

Fixpoint nd_tags (idx : nat) (acts : list action) : list nat :=
  match acts with
  | [] => []
  | a :: r => if is_nd a then idx :: nd_tags (S idx) r else nd_tags (S idx) r
  end.
(* one execution of a link's non-disruptive actions, newest first *)
Definition link_tags {opid} (lvl : nat) (l : link opid) : list (nat * nat) :=
  rev (map (pair lvl) (nd_tags 0 (l_actions l))).

Lemma act_tags_app a b : act_tags (a ++ b) = act_tags a ++ act_tags b.
Proof. unfold act_tags. apply flat_map_app. Qed.
Lemma fd_events_app a b : fd_events (a ++ b) = fd_events a ++ fd_events b.
Proof. unfold fd_events. apply filter_app. Qed.
Lemma count_tag_app t a b : count_tag t (a ++ b) = (count_tag t a + count_tag t b)%nat.
Proof. unfold count_tag. rewrite filter_app, app_length. reflexivity. Qed.
Lemma count_tag_rev t a : count_tag t (rev a) = count_tag t a.
Proof.
  induction a as [|x a IH]; [reflexivity|]. cbn [rev]. rewrite count_tag_app, IH.
  unfold count_tag. cbn [filter]. destruct (tag_eqb t x); cbn [length]; lia.
Qed.
Lemma count_tag_concat_repeat t l n : count_tag t (concat (repeat l n)) = (n * count_tag t l)%nat.
Proof. induction n as [|n IH]; [reflexivity|]. cbn [repeat concat]. rewrite count_tag_app, IH. lia. Qed.

Lemma nd_tags_ge : forall acts idx x, In x (nd_tags idx acts) -> (idx <= x)%nat.
Proof.
  induction acts as [|a r IH]; intros idx x H; cbn [nd_tags] in H; [contradiction|].
  destruct (is_nd a); [destruct H as [<-|H]; [lia|]|]; apply IH in H; lia.
Qed.

Lemma count_tag_map_lvl lvl lvl' i l : lvl' <> lvl -> count_tag (lvl', i) (map (pair lvl) l) = 0%nat.
Proof.
  intro H. induction l as [|x l IH]; [reflexivity|]. unfold count_tag in *. cbn [map filter].
  unfold tag_eqb at 1. cbn [fst snd]. destruct (Nat.eqb lvl' lvl) eqn:E; [apply Nat.eqb_eq in E; congruence|].
  cbn [andb]. exact IH.
Qed.

Lemma count_tag_absent lvl i l : ~ In i l -> count_tag (lvl, i) (map (pair lvl) l) = 0%nat.
Proof.
  induction l as [|x l IH]; intro H; [reflexivity|]. unfold count_tag in *. cbn [map filter].
  unfold tag_eqb at 1. cbn [fst snd]. rewrite Nat.eqb_refl. cbn [andb].
  destruct (Nat.eqb i x) eqn:E; [apply Nat.eqb_eq in E; subst; exfalso; apply H; left; reflexivity|].
  apply IH. intro Hin. apply H. right. exact Hin.
Qed.

(* an action that is non-disruptive appears exactly once in one execution of the list *)
Lemma count_nd_tags : forall acts idx i a lvl,
  nth_error acts i = Some a -> is_nd a = true ->
  count_tag (lvl, (idx + i)%nat) (map (pair lvl) (nd_tags idx acts)) = 1%nat.
Proof.
  induction acts as [|b r IH]; intros idx i a lvl Hn Ha; [destruct i; discriminate|].
  destruct i as [|i]; cbn [nth_error] in Hn.
  - inversion Hn; subst b. cbn [nd_tags]. rewrite Ha. cbn [map]. unfold count_tag. cbn [filter].
    unfold tag_eqb at 1. cbn [fst snd]. rewrite Nat.add_0_r, !Nat.eqb_refl. cbn [andb length].
    f_equal. fold (count_tag (lvl, idx) (map (pair lvl) (nd_tags (S idx) r))).
    apply count_tag_absent. intro Hin. apply nd_tags_ge in Hin. lia.
  - cbn [nd_tags]. replace (idx + S i)%nat with (S idx + i)%nat by lia.
    destruct (is_nd b); [|eapply IH; eassumption].
    cbn [map]. unfold count_tag. cbn [filter]. unfold tag_eqb at 1. cbn [fst snd].
    destruct (Nat.eqb (S idx + i) idx) eqn:E; [apply Nat.eqb_eq in E; lia|].
    rewrite andb_false_r. eapply IH; eassumption.
Qed.

Lemma count_link_tags {opid} (l : link opid) lvl i a :
  nth_error (l_actions l) i = Some a -> is_nd a = true -> count_tag (lvl, i) (link_tags lvl l) = 1%nat.
Proof.
  intros Hn Ha. unfold link_tags. rewrite count_tag_rev.
  exact (count_nd_tags (l_actions l) 0 i a lvl Hn Ha).
Qed.

Lemma count_link_tags_other {opid} (l : link opid) lvl lvl' i :
  lvl' <> lvl -> count_tag (lvl', i) (link_tags lvl l) = 0%nat.
Proof. intro H. unfold link_tags. rewrite count_tag_rev. apply count_tag_map_lvl. exact H. Qed.

(* a state whose trace extends another's by [new] (newest first) *)
Definition ext (s s' : st) (new : list event) : Prop := s_trace s' = new ++ s_trace s.
Lemma ext_refl s : ext s s [].
Proof. reflexivity. Qed.
Lemma ext_trans s1 s2 s3 n1 n2 : ext s1 s2 n1 -> ext s2 s3 n2 -> ext s1 s3 (n2 ++ n1).
Proof. unfold ext. intros H1 H2. rewrite H2, H1, app_assoc. reflexivity. Qed.

Definition no_fd (tr : list event) : Prop := fd_events tr = [].
Lemma no_fd_app a b : no_fd a -> no_fd b -> no_fd (a ++ b).
Proof. unfold no_fd. intros Ha Hb. rewrite fd_events_app, Ha, Hb. reflexivity. Qed.

Section EngineProofs.
  Variable opid : Type.
  Variable op_eval : opid -> env -> st -> bytes -> bool * list (N * bytes).
  Notation link := (link opid).
  Notation rule := (rule opid).

  Lemma setvar_eval_ext e rid a s :
    exists new, ext s (setvar_eval e rid a s) new /\ act_tags new = [] /\ no_fd new.
  Proof. unfold setvar_eval. eexists [_]. repeat split. Qed.

  Lemma run_nd_ext e rid lvl : forall acts idx s,
    exists new, ext s (run_nd e rid lvl idx acts s) new /\
                act_tags new = rev (map (pair lvl) (nd_tags idx acts)) /\ no_fd new.
  Proof.
    induction acts as [|a r IH]; intros idx s; cbn [run_nd nd_tags].
    - exists []. repeat split.
    - destruct a as [name|sv|name d|name|name]; cbn [is_nd].
      + destruct (IH (S idx) (st_log (EvAct lvl idx name) s)) as (n & He & Ht & Hf).
        exists (n ++ [EvAct lvl idx name]). split; [|split].
        * eapply ext_trans; [|exact He]. reflexivity.
        * rewrite act_tags_app, Ht. reflexivity.
        * apply no_fd_app; [exact Hf | reflexivity].
      + destruct (setvar_eval_ext e rid sv (st_log (EvAct lvl idx (str "setvar")) s)) as (n1 & He1 & Ht1 & Hf1).
        destruct (IH (S idx) (setvar_eval e rid sv (st_log (EvAct lvl idx (str "setvar")) s))) as (n & He & Ht & Hf).
        exists (n ++ n1 ++ [EvAct lvl idx (str "setvar")]). split; [|split].
        * eapply ext_trans; [|exact He]. eapply ext_trans; [|exact He1]. reflexivity.
        * rewrite !act_tags_app, Ht, Ht1. reflexivity.
        * apply no_fd_app; [exact Hf|]. apply no_fd_app; [exact Hf1 | reflexivity].
      + apply IH.
      + apply IH.
      + apply IH.
  Qed.

  Lemma on_match_ext e (l : link) lvl known vn key value s :
    exists new, ext s (on_match e l lvl known vn key value s) new /\
                act_tags new = link_tags lvl l /\ no_fd new.
  Proof.
    unfold on_match.
    set (s0 := if known then st_log (EvMatching (link_rid l) vn key) s else s).
    destruct (run_nd_ext e (l_id l) lvl (l_actions l) 0 (st_match_variable vn key value s0)) as (n & He & Ht & Hf).
    exists (n ++ (if known then [EvMatching (link_rid l) vn key] else [])). split; [|split].
    - unfold ext in *. rewrite He. cbn [st_match_variable s_trace]. subst s0. destruct known; cbn [st_log s_trace].
      + rewrite <- app_assoc. reflexivity.
      + rewrite app_nil_r. reflexivity.
    - rewrite act_tags_app, Ht. destruct known; cbn; rewrite app_nil_r; reflexivity.
    - apply no_fd_app; [exact Hf|]. destruct known; reflexivity.
  Qed.

  Lemma apply_caps_trace caps s : s_trace (apply_caps caps s) = s_trace s.
  Proof. unfold apply_caps. destruct (s_capture s); reflexivity. Qed.

  (* the innermost loop: one execution of the action list per value appended to matchedValues *)
  Lemma eval_cands_ext e (l : link) lvl o neg : forall cands s acc s' acc',
    eval_cands op_eval e l lvl o neg cands s acc = (s', acc') ->
    exists new k, ext s s' new /\ length acc' = (k + length acc)%nat /\
                  act_tags new = concat (repeat (link_tags lvl l) k) /\ no_fd new.
  Proof.
    induction cands as [|[[vn key] carg] r IH]; intros s acc s' acc' H; cbn [eval_cands] in H.
    - inversion H; subst. exists [], 0%nat. repeat split.
    - destruct (op_eval o e s carg) as [res caps].
      destruct (xorb res neg).
      + match type of H with eval_cands _ _ _ _ _ _ _ _ ?s2 (?md :: _) = _ =>
          destruct (IH s2 (md :: acc) s' acc' H) as (n & k & He & Hl & Ht & Hf) end.
        destruct (on_match_ext e l lvl true vn key carg (apply_caps caps s)) as (n1 & He1 & Ht1 & Hf1).
        exists (n ++ n1), (S k). split; [|split; [|split]].
        * unfold ext in *. rewrite He, He1, apply_caps_trace, app_assoc. reflexivity.
        * cbn [length] in Hl. lia.
        * rewrite act_tags_app, Ht, Ht1. clear. induction k as [|k IHk]; cbn [repeat concat].
          -- rewrite app_nil_r. reflexivity.
          -- rewrite <- app_assoc, IHk. reflexivity.
        * apply no_fd_app; assumption.
      + destruct (IH (apply_caps caps s) acc s' acc' H) as (n & k & He & Hl & Ht & Hf).
        exists n, k. repeat split; try assumption. unfold ext in *. rewrite He, apply_caps_trace. reflexivity.
  Qed.

  Lemma eval_targets_ext e (l : link) lvl o neg : forall ts s acc s' acc',
    eval_targets op_eval e l lvl o neg ts s acc = (s', acc') ->
    exists new k, ext s s' new /\ length acc' = (k + length acc)%nat /\
                  act_tags new = concat (repeat (link_tags lvl l) k) /\ no_fd new.
  Proof.
    induction ts as [|t r IH]; intros s acc s' acc' H; cbn [eval_targets] in H.
    - inversion H; subst. exists [], 0%nat. repeat split.
    - destruct (eval_cands op_eval e l lvl o neg (target_cands e l s t) s acc) as [s1 acc1] eqn:E.
      destruct (eval_cands_ext e l lvl o neg _ _ _ _ _ E) as (n1 & k1 & He1 & Hl1 & Ht1 & Hf1).
      destruct (IH _ _ _ _ H) as (n2 & k2 & He2 & Hl2 & Ht2 & Hf2).
      exists (n2 ++ n1), (k2 + k1)%nat. split; [|split; [|split]].
      + eapply ext_trans; eassumption.
      + lia.
      + rewrite act_tags_app, Ht1, Ht2, repeat_app, concat_app. reflexivity.
      + apply no_fd_app; assumption.
  Qed.

  Lemma link_prologue_trace e (l : link) s : s_trace (link_prologue e l s) = s_trace s.
  Proof. unfold link_prologue. destruct (l_msg l), (l_logdata l); reflexivity. Qed.

  (* C09_once_per_match, link level *)
  Lemma eval_link_ext e (l : link) lvl s s' mds :
    eval_link op_eval e l lvl s = (s', mds) ->
    exists new, ext s s' new /\ act_tags new = concat (repeat (link_tags lvl l) (length mds)) /\ no_fd new.
  Proof.
    unfold eval_link. intro H. destruct (l_op l) as [[[ts o] neg]|].
    - destruct (eval_targets op_eval e l lvl o neg ts (link_prologue e l s) []) as [s1 acc] eqn:E.
      inversion H; subst. destruct (eval_targets_ext e l lvl o neg _ _ _ _ _ E) as (n & k & He & Hl & Ht & Hf).
      exists n. split; [|split; [|exact Hf]].
      + unfold ext in *. rewrite He, link_prologue_trace. reflexivity.
      + rewrite rev_length, Hl. cbn [length]. rewrite Nat.add_0_r. exact Ht.
    - inversion H; subst.
      destruct (on_match_ext e l lvl false (var_name VUnknown) [] [] (link_prologue e l s)) as (n & He & Ht & Hf).
      exists n. split; [|split; [|exact Hf]].
      + unfold ext in *. rewrite He, link_prologue_trace. reflexivity.
      + cbn [length repeat concat]. rewrite app_nil_r. exact Ht.
  Qed.

  (* number of matched values of every evaluated link of a chain walk *)
  Fixpoint chain_counts (e : env) (links : list link) (lvl : nat) (s : st) : list nat :=
    match links with
    | [] => []
    | l :: r =>
      let '(s1, mds) := eval_link op_eval e l lvl s in
      length mds :: match mds with [] => [] | _ => chain_counts e r (S lvl) s1 end
    end.
  Fixpoint chain_tags (links : list link) (lvl : nat) (counts : list nat) : list (nat * nat) :=
    match links, counts with
    | l :: r, n :: cr => chain_tags r (S lvl) cr ++ concat (repeat (link_tags lvl l) n)
    | _, _ => []
    end.
  Definition chain_complete (links : list link) (counts : list nat) : bool :=
    Nat.eqb (length counts) (length links) && forallb (fun n => negb (Nat.eqb n 0)) counts.

  Lemma eval_chain_ext e : forall links lvl s s' res,
    eval_chain op_eval e links lvl s = (s', res) ->
    exists new, ext s s' new /\ act_tags new = chain_tags links lvl (chain_counts e links lvl s) /\ no_fd new /\
                (match res with Some _ => true | None => false end) = chain_complete links (chain_counts e links lvl s).
  Proof.
    induction links as [|l r IH]; intros lvl s s' res H; cbn [eval_chain chain_counts] in *.
    - inversion H; subst. exists []. repeat split.
    - destruct (eval_link op_eval e l lvl s) as [s1 mds] eqn:E.
      destruct (eval_link_ext e l lvl s s1 mds E) as (n1 & He1 & Ht1 & Hf1).
      destruct mds as [|md mds'].
      + inversion H; subst. exists n1. split; [exact He1|]. split; [|split; [exact Hf1|]].
        * cbn [chain_tags]. destruct r; cbn [chain_tags]; cbn [length repeat concat app] in *; rewrite Ht1; reflexivity.
        * reflexivity.
      + destruct (eval_chain op_eval e r (S lvl) s1) as [s2 rest] eqn:E2.
        destruct (IH _ _ _ _ E2) as (n2 & He2 & Ht2 & Hf2 & Hc2).
        inversion H; subst. exists (n2 ++ n1). split; [eapply ext_trans; eassumption|]. split; [|split].
        * cbn [chain_tags]. rewrite act_tags_app, Ht1, Ht2. reflexivity.
        * apply no_fd_app; assumption.
        * unfold chain_complete in *. cbn [length forallb Nat.eqb negb andb].
          destruct rest; rewrite <- Hc2 || rewrite <- Hc2; reflexivity.
  Qed.

  (* counting in the tags of a walk: level lvl+k belongs to link k alone *)
  Lemma chain_tags_count_high : forall links lvl counts lvl' i,
    (lvl' < lvl)%nat -> count_tag (lvl', i) (chain_tags links lvl counts) = 0%nat.
  Proof.
    induction links as [|l r IH]; intros lvl counts lvl' i H; [reflexivity|].
    destruct counts as [|n cr]; [reflexivity|]. cbn [chain_tags].
    rewrite count_tag_app, count_tag_concat_repeat, count_link_tags_other by lia.
    rewrite IH by lia. lia.
  Qed.

  Lemma chain_tags_count : forall links lvl counts k l i a,
    nth_error links k = Some l -> nth_error (l_actions l) i = Some a -> is_nd a = true ->
    count_tag ((lvl + k)%nat, i) (chain_tags links lvl counts) = nth k counts 0%nat.
  Proof.
    induction links as [|l0 r IH]; intros lvl counts k l i a Hk Hi Ha; [destruct k; discriminate|].
    destruct counts as [|n cr]; [destruct k; reflexivity|]. cbn [chain_tags].
    rewrite count_tag_app, count_tag_concat_repeat.
    destruct k as [|k]; cbn [nth_error nth] in *.
    - inversion Hk; subst l0. rewrite Nat.add_0_r, (count_link_tags l lvl i a Hi Ha).
      rewrite chain_tags_count_high by lia. lia.
    - replace (lvl + S k)%nat with (S lvl + k)%nat by lia.
      rewrite (IH (S lvl) cr k l i a Hk Hi Ha), count_link_tags_other by lia. lia.
  Qed.
End EngineProofs.
