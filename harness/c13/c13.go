// Package c13 drives the check of C13 (a WAF follows its own configuration only; pattern caching
// is invisible).
//
// A case is a process history: WAFs are built from configurations drawn from a pool that reuses
// the SAME strings in different roles (phrase list of @pm, regex key ARGS:/../, @rx pattern,
// @restpath, @validateNid, ctl collection key, SecAuditLogRelevantStatus, SecDataset name with
// DIFFERENT contents in different WAFs, @pmFromFile / @validateSchema file name resolved against
// different fs.FS roots or temp directories), more rules are added to live WAFs, WAFs are closed
// (also twice).
//
//   - correspondence: after EVERY event the real cache is snapshotted (hook
//     internal/memoize/zz_verif_c13.go: key, value, owner ids) and printed together with the
//     memoizer calls of the configuration (as the values each call site has in hand); Coq runs
//     Memo.v on the same history and must get the same construction status and the same cache
//     (keys, value types, value contents, owner sets) after every event.
//   - oracle of the property on the real code: after every event every live WAF is probed
//     (matched rule ids of a fixed set of requests); the outcome must equal (a) the same
//     configuration built ALONE at a moment the cache is empty, (b) the same configuration built
//     alone in a FRESH PROCESS (this binary re-executed), (c) the same in a second binary built
//     with -tags coraza.no_memoize.  The construction status must agree as well.  At the end of
//     a case every WAF is closed and the cache must be empty.
package c13

import (
	"crypto/md5"
	"encoding/hex"
	"encoding/json"
	"fmt"
	"io/fs"
	"math/rand"
	"os"
	"os/exec"
	"path/filepath"
	"regexp"
	"sort"
	"strings"
	"testing/fstest"

	"github.com/kaptinlin/jsonschema"
	"rsc.io/binaryregexp"

	"github.com/corazawaf/coraza/v3/internal/corazawaf"
	"github.com/corazawaf/coraza/v3/internal/operators"
	"github.com/corazawaf/coraza/v3/internal/seclang"
	"github.com/corazawaf/coraza/v3/verifharness/vh"
)

func init() { vh.Register("C13", Run) }

// ---------------------------------------------------------------------------------------------
// configurations
// ---------------------------------------------------------------------------------------------

// Item is one directive of a configuration; Arg / Arg2 come from the shared vocabulary.
type Item struct {
	Kind string `json:"kind"` // pm rx restpath nid varrx negrx ctl relstatus pmds pmf schema
	Arg  string `json:"arg"`
	Arg2 string `json:"arg2,omitempty"`
}

type Config struct {
	PreFilter bool                `json:"prefilter"`
	Datasets  map[string][]string `json:"datasets,omitempty"` // SecDataset name -> entries
	Files     map[string]string   `json:"files,omitempty"`    // file name -> content (root of this WAF)
	DirFS     bool                `json:"dirfs,omitempty"`    // files live in a temp directory (os.DirFS) instead of a MapFS
	Items     []Item              `json:"items"`
}

type Event struct {
	Op  string `json:"op"`  // build | more | close
	Waf int    `json:"waf"` // WAF slot
	Cfg int    `json:"cfg"` // index into Configs (build, more)
}

type caseJSON struct {
	Configs    []Config `json:"configs"`
	Events     []Event  `json:"events"`
	Note       string   `json:"note,omitempty"`
	FindingKey string   `json:"finding_key,omitempty"`
}

// Strings of a configuration are kept JSON-safe: a byte that is not part of valid UTF-8 is written as
// \x01 followed by two hex digits (encoding/json would silently turn it into U+FFFD in case files,
// replays and the input of the solo sub-processes).  dec undoes that.
func dec(s string) string {
	if !strings.Contains(s, "\x01") {
		return s
	}
	var sb strings.Builder
	for i := 0; i < len(s); i++ {
		if s[i] == 1 && i+2 < len(s) {
			if b, err := hex.DecodeString(s[i+1 : i+3]); err == nil {
				sb.WriteByte(b[0])
				i += 2
				continue
			}
		}
		sb.WriteByte(s[i])
	}
	return sb.String()
}

// decoded returns the configuration with every string in raw bytes
func (c Config) decoded() Config {
	d := Config{PreFilter: c.PreFilter, DirFS: c.DirFS}
	if c.Datasets != nil {
		d.Datasets = map[string][]string{}
		for n, es := range c.Datasets {
			var l []string
			for _, e := range es {
				l = append(l, dec(e))
			}
			d.Datasets[dec(n)] = l
		}
	}
	if c.Files != nil {
		d.Files = map[string]string{}
		for n, content := range c.Files {
			d.Files[dec(n)] = dec(content)
		}
	}
	for _, it := range c.Items {
		d.Items = append(d.Items, Item{Kind: it.Kind, Arg: dec(it.Arg), Arg2: dec(it.Arg2)})
	}
	return d
}

// Req is one memoizer call as the model sees it.
type Req struct {
	Kind string // pm pmds pmf rx binrx re schema
	Site string // for re: SRestPath ...
	A    string
	L    []string
	PF   bool
}

func (r Req) term() string {
	switch r.Kind {
	case "pm":
		return "(RPm " + vh.HxS(r.A) + ")"
	case "pmds":
		return "(RPmDs " + vh.HxS(r.A) + " " + vh.HxList(r.L) + ")"
	case "pmf":
		return "(RPmF " + vh.HxList(r.L) + ")"
	case "rx":
		return "(RRx " + vh.Bool(r.PF) + " " + vh.HxS(r.A) + ")"
	case "binrx":
		return "(RBinRx " + vh.HxS(r.A) + ")"
	case "re":
		return "(RRe " + r.Site + " " + vh.HxS(r.A) + ")"
	case "rel":
		return "(RReL " + r.Site + " " + vh.HxS(r.A) + ")"
	case "schema":
		return "(RSchema " + vh.HxS(r.A) + ")"
	}
	return "(RPm " + vh.HxS("?") + ")"
}

var restTokenRe = regexp.MustCompile(`\{([^\}]+)\}`)

// the transformation newRESTPath applies before compiling
func restPattern(arg string) string {
	data := strings.ReplaceAll(arg, "/", "\\/")
	for _, token := range restTokenRe.FindAllStringSubmatch(data, -1) {
		data = strings.Replace(data, token[0], fmt.Sprintf("(?P<%s>[^?/]+)", token[1]), 1)
	}
	return data
}

// the lines newPMFromFile keeps, BEFORE it lower-cases them
func fileLines(content string) []string {
	var lines []string
	for _, l := range strings.Split(content, "\n") {
		l = strings.TrimSuffix(l, "\r")
		l = strings.TrimSpace(l)
		if l == "" || l[0] == '#' {
			continue
		}
		lines = append(lines, l) // the model applies strings.ToLower (CaseMap) itself
	}
	return lines
}

// the entries directiveSecDataset keeps
func datasetEntries(raw []string) []string {
	var arr []string
	for _, s := range raw {
		s = strings.TrimSpace(s)
		if s == "" || s[0] == '#' {
			continue
		}
		arr = append(arr, s)
	}
	return arr
}

func isBinaryRx(arg string) bool { return strings.Contains(arg, `\xf`) }

// compile renders a configuration as SecLang text and lists the memoizer calls it makes, in call
// order.  idBase keeps rule ids of successive configurations on one WAF apart.
func (c Config) compile(idBase int) (string, []Req) {
	c = c.decoded()
	var sb strings.Builder
	var reqs []Req
	sb.WriteString("SecRuleEngine On\nSecRequestBodyAccess On\n")
	if c.PreFilter {
		sb.WriteString("SecRxPreFilter On\n")
	} else {
		sb.WriteString("SecRxPreFilter Off\n")
	}
	names := make([]string, 0, len(c.Datasets))
	for n := range c.Datasets {
		names = append(names, n)
	}
	sort.Strings(names)
	for _, n := range names {
		sb.WriteString("SecDataset " + n + " `\n")
		for _, e := range c.Datasets[n] {
			sb.WriteString(e + "\n")
		}
		sb.WriteString("`\n")
	}
	rxReq := func(arg string) Req {
		if isBinaryRx(arg) {
			// newRX hands the flagged pattern to newBinaryRX (options.Arguments = data, fix c8f3cc1)
			return Req{Kind: "binrx", A: rxPrefix() + arg}
		}
		return Req{Kind: "rx", PF: c.PreFilter, A: arg}
	}
	needCatchAll := false
	for i, it := range c.Items {
		id := idBase + 100 + i
		tail := fmt.Sprintf("\"id:%d,phase:2,pass,nolog\"\n", id)
		switch it.Kind {
		case "pm":
			fmt.Fprintf(&sb, "SecRule ARGS \"@pm %s\" %s", it.Arg, tail)
			reqs = append(reqs, Req{Kind: "pm", A: it.Arg})
		case "rx":
			fmt.Fprintf(&sb, "SecRule ARGS \"@rx %s\" %s", it.Arg, tail)
			reqs = append(reqs, rxReq(it.Arg))
		case "restpath":
			fmt.Fprintf(&sb, "SecRule REQUEST_FILENAME \"@restpath %s\" %s", it.Arg, tail)
			reqs = append(reqs, Req{Kind: "re", Site: "SRestPath", A: restPattern(it.Arg)})
		case "nid":
			fmt.Fprintf(&sb, "SecRule ARGS \"@validateNid cl %s\" %s", it.Arg, tail)
			reqs = append(reqs, Req{Kind: "re", Site: "SValidateNid", A: it.Arg})
		case "varrx":
			fmt.Fprintf(&sb, "SecRule ARGS:/%s/ \"@pm %s\" %s", it.Arg, it.Arg2, tail)
			// ARGS is a case-sensitive variable: the regex key is compiled as written
			reqs = append(reqs, Req{Kind: "re", Site: "SRuleVar", A: it.Arg}, Req{Kind: "pm", A: it.Arg2})
		case "negrx":
			// REQUEST_HEADERS is not: the regex key is lower-cased before it is compiled
			fmt.Fprintf(&sb, "SecRule REQUEST_HEADERS|!REQUEST_HEADERS:/%s/ \"@rx %s\" %s", it.Arg, it.Arg2, tail)
			reqs = append(reqs, Req{Kind: "rel", Site: "SRuleVarNeg", A: it.Arg}, rxReq(it.Arg2))
		case "ctl":
			fmt.Fprintf(&sb, "SecAction \"id:%d,phase:1,pass,nolog,ctl:ruleRemoveTargetById=%d;ARGS:/%s/\"\n", id, idBase+999, it.Arg)
			reqs = append(reqs, Req{Kind: "re", Site: "SCtl", A: it.Arg})
			needCatchAll = true
		case "relstatus":
			fmt.Fprintf(&sb, "SecAuditLogRelevantStatus %s\n", it.Arg)
			reqs = append(reqs, Req{Kind: "re", Site: "SRelevantStatus", A: it.Arg})
		case "pmds":
			fmt.Fprintf(&sb, "SecRule ARGS \"@pmFromDataset %s\" %s", it.Arg, tail)
			reqs = append(reqs, Req{Kind: "pmds", A: it.Arg, L: datasetEntries(c.Datasets[it.Arg])})
		case "pmf":
			fmt.Fprintf(&sb, "SecRule ARGS \"@pmFromFile %s\" %s", it.Arg, tail)
			reqs = append(reqs, Req{Kind: "pmf", L: fileLines(c.Files[it.Arg])})
		case "schema":
			fmt.Fprintf(&sb, "SecRule ARGS:j \"@validateSchema %s\" %s", it.Arg, tail)
			reqs = append(reqs, Req{Kind: "schema", A: c.Files[it.Arg]})
		}
	}
	if needCatchAll {
		fmt.Fprintf(&sb, "SecRule ARGS \"@rx .\" \"id:%d,phase:2,pass,nolog\"\n", idBase+999)
		reqs = append(reqs, rxReq("."))
	}
	return sb.String(), reqs
}

// ---------------------------------------------------------------------------------------------
// building and probing real WAFs
// ---------------------------------------------------------------------------------------------

type liveWAF struct {
	waf    *corazawaf.WAF
	parser *seclang.Parser
	spec   []int // configurations applied so far
	usable bool  // every construction so far succeeded
	closed bool
	tmp    []string
}

func (c Config) root(l *liveWAF) (fs.FS, error) {
	c = c.decoded()
	if c.DirFS {
		dir, err := os.MkdirTemp("", "verif-c13-")
		if err != nil {
			return nil, err
		}
		l.tmp = append(l.tmp, dir)
		for n, content := range c.Files {
			if err := os.WriteFile(filepath.Join(dir, n), []byte(content), 0o644); err != nil {
				return nil, err
			}
		}
		return os.DirFS(dir), nil
	}
	m := fstest.MapFS{}
	for n, content := range c.Files {
		m[n] = &fstest.MapFile{Data: []byte(content)}
	}
	return m, nil
}

// apply parses one configuration into the WAF; status: StBuilt / StFailed / StPanicked
func (l *liveWAF) apply(c Config, cfgIdx int) (status string, detail string) {
	root, err := c.root(l)
	if err != nil {
		return "StFailed", "harness: " + err.Error()
	}
	l.parser.SetRoot(root)
	text, _ := c.compile(1000 * len(l.spec))
	l.spec = append(l.spec, cfgIdx)
	defer func() {
		if r := recover(); r != nil {
			status, detail = "StPanicked", fmt.Sprint(r)
			l.usable = false
		}
	}()
	if err := l.parser.FromString(text); err != nil {
		l.usable = false
		return "StFailed", err.Error()
	}
	return "StBuilt", ""
}

func newLive() *liveWAF {
	waf := corazawaf.NewWAF()
	return &liveWAF{waf: waf, parser: seclang.NewParser(waf), usable: true}
}

func (l *liveWAF) close() {
	_ = l.waf.Close()
	l.closed = true
	for _, d := range l.tmp {
		_ = os.RemoveAll(d)
	}
	l.tmp = nil
}

// probe requests: every vocabulary word as ARGS:x, a JSON document as ARGS:j, a few paths
var probeWords = []string{"k", "K", "\u212a", "i", "\u0130", "\xff", "\ufffd", "\u00e9t\u00e9", "\u00c9T\u00c9", "foo", "bar", "baz", "xfooy", "FOO", "fo", "fooo", "ds", "foo bar", "foo.json", "list.txt", "11.111.111-1", "zzz", "fo\xffo"}
var probeJSON = []string{`{"a":1}`, `{"a":"s"}`, `{}`, `[1]`}
var probePaths = []string{"/foo/123", "/foo", "/bar/x/y", "/foo/1/bar"}

func urlEscape(s string) string {
	var sb strings.Builder
	for i := 0; i < len(s); i++ {
		c := s[i]
		if c >= 'a' && c <= 'z' || c >= 'A' && c <= 'Z' || c >= '0' && c <= '9' || c == '.' || c == '-' {
			sb.WriteByte(c)
		} else {
			fmt.Fprintf(&sb, "%%%02X", c)
		}
	}
	return sb.String()
}

func probeOne(waf *corazawaf.WAF, uri string) (out string) {
	defer func() {
		if r := recover(); r != nil {
			out = "panic:" + fmt.Sprint(r)
		}
	}()
	tx := waf.NewTransaction()
	defer tx.Close()
	tx.ProcessConnection("10.0.0.1", 1234, "10.0.0.2", 80)
	tx.ProcessURI(uri, "GET", "HTTP/1.1")
	tx.AddRequestHeader("Host", "example.com")
	tx.AddRequestHeader("Foo", "foo bar")
	tx.AddRequestHeader("X-Ds", "FOO")
	tx.ProcessRequestHeaders()
	_, _ = tx.ProcessRequestBody()
	tx.ProcessResponseHeaders(200, "HTTP/1.1")
	_, _ = tx.ProcessResponseBody()
	tx.ProcessLogging()
	var ids []string
	for _, mr := range tx.MatchedRules() {
		ids = append(ids, fmt.Sprint(mr.Rule().ID()))
	}
	sort.Strings(ids)
	s := strings.Join(ids, ",")
	if it := tx.Interruption(); it != nil {
		s += fmt.Sprintf("!%d", it.RuleID)
	}
	if ap := tx.Variables().ArgsPath().FindAll(); len(ap) > 0 {
		var kv []string
		for _, m := range ap {
			kv = append(kv, m.Key()+"="+m.Value())
		}
		sort.Strings(kv)
		s += "{" + strings.Join(kv, ";") + "}"
	}
	return s
}

func probeAll(waf *corazawaf.WAF) string {
	var parts []string
	for _, w := range probeWords {
		parts = append(parts, probeOne(waf, "/p?x="+urlEscape(w)))
	}
	for _, j := range probeJSON {
		parts = append(parts, probeOne(waf, "/p?j="+urlEscape(j)))
	}
	for _, p := range probePaths {
		parts = append(parts, probeOne(waf, p+"?x=1"))
	}
	return strings.Join(parts, "|")
}

func specKey(configs []Config, spec []int) string {
	var cs []Config
	for _, i := range spec {
		cs = append(cs, configs[i])
	}
	b, _ := json.Marshal(cs)
	h := md5.Sum(b)
	return hex.EncodeToString(h[:])
}

// solo builds the configurations of one WAF alone (nothing else alive), probes, closes.
func solo(cs []Config) string {
	l := newLive()
	defer l.close()
	st := "StBuilt"
	for i, c := range cs {
		var detail string
		st, detail = l.apply(c, i)
		if st != "StBuilt" {
			return st + ":" + errClass(detail)
		}
	}
	return st + ":" + probeAll(l.waf)
}

// errClass maps an error text to something stable across builds
func errClass(s string) string {
	if len(s) > 160 {
		s = s[:160]
	}
	// error texts quote the offending pattern: keep them JSON-safe (the solo outcomes travel through JSON)
	return strings.ToValidUTF8(s, "\ufffd")
}

// ---------------------------------------------------------------------------------------------
// solo runs in other processes (fresh process of this binary; second binary without memoize)
// ---------------------------------------------------------------------------------------------

type soloInput struct {
	Specs map[string][]Config `json:"specs"`
}

func runSoloMode(in, out string) error {
	b, err := os.ReadFile(in)
	if err != nil {
		return err
	}
	var si soloInput
	if err := json.Unmarshal(b, &si); err != nil {
		return err
	}
	res := map[string]string{}
	keys := make([]string, 0, len(si.Specs))
	for k := range si.Specs {
		keys = append(keys, k)
	}
	sort.Strings(keys)
	for _, k := range keys {
		res[k] = solo(si.Specs[k])
		if memoized {
			if n := len(snapshot(nil)); n != 0 {
				res[k] += fmt.Sprintf("|LEAK:%d", n)
			}
		}
	}
	res["__memoized"] = fmt.Sprint(memoized)
	ob, _ := json.Marshal(res)
	return os.WriteFile(out, ob, 0o644)
}

func runSubprocess(bin string, specs map[string][]Config, dir, tag string) (map[string]string, error) {
	in := filepath.Join(dir, "solo-"+tag+"-in.json")
	out := filepath.Join(dir, "solo-"+tag+"-out.json")
	b, _ := json.Marshal(soloInput{Specs: specs})
	if err := os.WriteFile(in, b, 0o644); err != nil {
		return nil, err
	}
	sub := filepath.Join(dir, "solo-"+tag)
	_ = os.MkdirAll(sub, 0o755)
	cmd := exec.Command(bin, "C13", "-tier", "quick", "-seed", "1", "-out", sub)
	cmd.Env = append(os.Environ(), "VERIF_C13_SOLO_IN="+in, "VERIF_C13_SOLO_OUT="+out)
	if o, err := cmd.CombinedOutput(); err != nil {
		return nil, fmt.Errorf("%s: %v: %.600s", tag, err, o)
	}
	ob, err := os.ReadFile(out)
	if err != nil {
		return nil, err
	}
	res := map[string]string{}
	if err := json.Unmarshal(ob, &res); err != nil {
		return nil, err
	}
	return res, nil
}

// buildNoMemoize builds the second harness binary with -tags coraza.no_memoize, the way
// bin/check builds the first one (private go.mod through -modfile, replace => VERIF_REPO).
func buildNoMemoize(outDir string) (string, error) {
	verif := os.Getenv("VERIF_DIR")
	repo := os.Getenv("VERIF_REPO")
	if verif == "" {
		verif = "/verif"
	}
	if repo == "" {
		repo = "/repo"
	}
	harness := filepath.Join(verif, "harness")
	gomod, err := os.ReadFile(filepath.Join(harness, "go.mod"))
	if err != nil {
		return "", err
	}
	re := regexp.MustCompile(`replace github.com/corazawaf/coraza/v3 => \S+`)
	gomod = re.ReplaceAll(gomod, []byte("replace github.com/corazawaf/coraza/v3 => "+repo))
	modfile := filepath.Join(outDir, "nomemo.mod")
	if err := os.WriteFile(modfile, gomod, 0o644); err != nil {
		return "", err
	}
	if sum, err := os.ReadFile(filepath.Join(repo, "go.sum")); err == nil {
		_ = os.WriteFile(filepath.Join(outDir, "nomemo.sum"), sum, 0o644)
	}
	bin := filepath.Join(outDir, "verif-run-C13-nomemoize")
	cmd := exec.Command("go", "build", "-modfile="+modfile, "-tags", "verif verif_c13 coraza.no_memoize", "-o", bin, "./cmd/verif-run")
	cmd.Dir = harness
	cmd.Env = append(os.Environ(), "GOFLAGS=-mod=mod", "GOPROXY=off", "GOWORK=off")
	if o, err := cmd.CombinedOutput(); err != nil {
		return "", fmt.Errorf("go build -tags coraza.no_memoize: %v: %.800s", err, o)
	}
	return bin, nil
}

// ---------------------------------------------------------------------------------------------
// generator
// ---------------------------------------------------------------------------------------------

// the shared vocabulary: every string is used in as many roles as its syntax allows
var vocab = []string{"foo", "bar", "foo bar", "fo+", "ba[rz]", "(", "foo.json", "ds", "FOO", "list.txt", "/foo/{id}", `fo\xffo`, "[0-9.-]+", `b\xfear`}

// strings whose lower-cased forms collide only through strings.ToLower's rune mapping: U+212A KELVIN SIGN / k,
// U+0130 / i, an invalid byte / U+FFFD, plus a multi-byte upper/lower pair; used in the roles that lower-case
// (@pm phrases, @pmFromFile lines, regex keys of REQUEST_HEADERS) and, unlowered, as ARGS regex keys and data-set entries
var vocabU = []string{"\u212a", "k", "\u0130", "i", "\x01ff", "\ufffd", "\u00c9t\u00e9", "\u00e9T\u00c9", "K\u212a \x01ffoo"}

func simpleTok(s string) bool { // usable inside ARGS:/../, ctl keys, file and data-set names
	return !strings.ContainsAny(s, " |/\"',;`") && s != ""
}
func fileName(s string) bool { return simpleTok(s) && !strings.ContainsAny(s, "()[]+\\{}") }

var datasetContents = [][]string{{"foo"}, {"bar"}, {"foo", "bar"}, {"baz", "FOO"}, {}, {"fo", "# note", " ds "}, {"b\x00c"}, {"\u212a"}, {"k"}, {"\x01ff", "\u0130"}}
var listContents = []string{"foo\n", "bar\nfoo\n", "# c\n Foo \n\nbaz\n", "ds", "FOO\r\nlist.txt\r\n", "",
	"\u212a\n", "k\n", "\x01ff\nfoo\n", "\ufffd\nFOO\n", "\u0130\n", "i\n", "\u00c9T\u00c9\n", "\u00e9t\u00e9\n"}
var schemaContents = []string{
	`{"title":"t1","type":"object","properties":{"a":{"type":"number"}},"required":["a"]}`,
	`{"title":"t2","type":"object","properties":{"a":{"type":"string"}}}`,
	`{"title":"t3"}`,
	`{not json`,
}

func pick[T any](rng *rand.Rand, l []T) T { return l[rng.Intn(len(l))] }

func pickIf(rng *rand.Rand, ok func(string) bool) string {
	return pickFrom(rng, vocab, ok)
}

// pickU: roles that tolerate arbitrary bytes draw from the non-ASCII vocabulary every third time
func pickU(rng *rand.Rand, ok func(string) bool) string {
	if rng.Intn(3) == 0 {
		return pickFrom(rng, vocabU, ok)
	}
	return pickFrom(rng, vocab, ok)
}

func pickFrom(rng *rand.Rand, vocab []string, ok func(string) bool) string {
	for {
		s := pick(rng, vocab)
		if ok(s) {
			return s
		}
	}
}

func genConfig(rng *rand.Rand) Config {
	c := Config{PreFilter: rng.Intn(3) == 0, DirFS: rng.Intn(6) == 0}
	n := 1 + rng.Intn(4)
	kinds := []string{"pm", "pm", "rx", "rx", "restpath", "nid", "varrx", "varrx", "negrx", "negrx", "negrx", "ctl", "relstatus", "pmds", "pmds", "pmf", "pmf", "schema"}
	any := func(string) bool { return true }
	noQuote := func(s string) bool { return !strings.ContainsAny(s, "\"`") }
	for i := 0; i < n; i++ {
		k := pick(rng, kinds)
		it := Item{Kind: k}
		switch k {
		case "pm":
			it.Arg = pickU(rng, noQuote)
		case "rx", "nid":
			it.Arg = pickIf(rng, noQuote)
		case "restpath":
			it.Arg = pickIf(rng, noQuote)
		case "varrx":
			it.Arg, it.Arg2 = pickU(rng, simpleTok), pickU(rng, noQuote)
		case "negrx":
			it.Arg, it.Arg2 = pickU(rng, simpleTok), pickIf(rng, noQuote)
		case "ctl", "relstatus":
			it.Arg = pickIf(rng, simpleTok)
		case "pmds":
			it.Arg = pickIf(rng, fileName)
			if c.Datasets == nil {
				c.Datasets = map[string][]string{}
			}
			if _, ok := c.Datasets[it.Arg]; !ok {
				c.Datasets[it.Arg] = pick(rng, datasetContents)
			}
		case "pmf":
			it.Arg = pickIf(rng, fileName)
			if c.Files == nil {
				c.Files = map[string]string{}
			}
			if _, ok := c.Files[it.Arg]; !ok {
				c.Files[it.Arg] = pick(rng, listContents)
			}
		case "schema":
			it.Arg = "foo.json"
			if c.Files == nil {
				c.Files = map[string]string{}
			}
			if _, ok := c.Files[it.Arg]; !ok || !strings.HasPrefix(c.Files[it.Arg], "{") {
				c.Files[it.Arg] = pick(rng, schemaContents)
			}
		}
		_ = any
		c.Items = append(c.Items, it)
	}
	return c
}

func genCase(rng *rand.Rand, pool []Config) caseJSON {
	nc := 2 + rng.Intn(3)
	var c caseJSON
	for i := 0; i < nc; i++ {
		c.Configs = append(c.Configs, pool[rng.Intn(len(pool))])
	}
	slots := 2 + rng.Intn(3)
	state := make([]int, slots) // 0 unborn, 1 live, 2 closed
	nev := 3 + rng.Intn(7)
	for i := 0; i < nev; i++ {
		w := rng.Intn(slots)
		switch state[w] {
		case 0:
			c.Events = append(c.Events, Event{Op: "build", Waf: w, Cfg: rng.Intn(nc)})
			state[w] = 1
		case 1:
			if rng.Intn(4) == 0 {
				c.Events = append(c.Events, Event{Op: "more", Waf: w, Cfg: rng.Intn(nc)})
			} else {
				c.Events = append(c.Events, Event{Op: "close", Waf: w})
				state[w] = 2
			}
		case 2:
			if rng.Intn(3) == 0 {
				c.Events = append(c.Events, Event{Op: "close", Waf: w}) // second Close: closeOnce
			} else {
				// a new WAF takes the slot
				slots++
				state = append(state, 1)
				c.Events = append(c.Events, Event{Op: "build", Waf: slots - 1, Cfg: rng.Intn(nc)})
			}
		}
	}
	return c
}

// ---------------------------------------------------------------------------------------------
// running one case
// ---------------------------------------------------------------------------------------------

type runner struct {
	res      *vh.Result
	dist     vh.Counter
	fresh    map[string]string // spec key -> outcome in a fresh process of this binary
	nomemo   map[string]string // spec key -> outcome in the no-memoize binary
	distinct map[string]bool
}

func (r *runner) fail(key, what string, c caseJSON) {
	r.res.OracleFailures = append(r.res.OracleFailures, vh.OracleFailure{Key: key, What: what, Case: c})
}

func hexTerm(s string) string { return vh.HxS(s) }

func snapTerm(snap []obsEntry) string {
	items := make([]string, len(snap))
	for i, o := range snap {
		ow := make([]string, len(o.Owners))
		for j, w := range o.Owners {
			ow[j] = vh.N(int64(w))
		}
		items[i] = fmt.Sprintf("(mk_obs %s %s %s %s)", hexTerm(o.Key), vh.N(int64(o.Type)), hexTerm(o.Desc), vh.List(ow))
	}
	return vh.List(items)
}

// specs lists the WAF specifications (configuration sequences) a case builds
func (c caseJSON) specs() map[string][]Config {
	out := map[string][]Config{}
	cur := map[int][]int{}
	for _, ev := range c.Events {
		switch ev.Op {
		case "build":
			cur[ev.Waf] = []int{ev.Cfg}
		case "more":
			cur[ev.Waf] = append(append([]int{}, cur[ev.Waf]...), ev.Cfg)
		default:
			continue
		}
		var cs []Config
		for _, i := range cur[ev.Waf] {
			cs = append(cs, c.Configs[i])
		}
		out[specKey(c.Configs, cur[ev.Waf])] = cs
	}
	return out
}

func (r *runner) runCase(c caseJSON) (term string, err error) {
	if memoized {
		if n := len(snapshot(nil)); n != 0 {
			return "", fmt.Errorf("cache not empty at the start of a case (%d entries)", n)
		}
	}
	// (a) every WAF specification of the case built ALONE while the cache is empty
	alone := map[string]string{}
	for k, cs := range c.specs() {
		alone[k] = solo(cs)
		if memoized {
			if n := len(snapshot(nil)); n != 0 {
				r.fail("c13-leak-solo", fmt.Sprintf("%d cache entries left after a WAF was built alone and closed", n), c)
				resetCache()
			}
		}
	}

	// tables of the external compilers for the model
	badRe, badBin, badSchema := map[string]bool{}, map[string]bool{}, map[string]bool{}
	hashes, titles := map[string]string{}, map[string]string{}
	note := func(reqs []Req) {
		for _, q := range reqs {
			switch q.Kind {
			case "re":
				if _, e := regexp.Compile(q.A); e != nil {
					badRe[q.A] = true
				}
			case "rel":
				if l := strings.ToLower(q.A); true {
					if _, e := regexp.Compile(l); e != nil {
						badRe[l] = true
					}
				}
			case "rx":
				d := rxPrefix() + q.A
				if _, e := regexp.Compile(d); e != nil {
					badRe[d] = true
				}
			case "binrx":
				if _, e := binaryregexp.Compile(q.A); e != nil {
					badBin[q.A] = true
				}
			case "schema":
				h := md5.Sum([]byte(q.A))
				hashes[q.A] = hex.EncodeToString(h[:])
				var js any
				ok := json.Unmarshal([]byte(q.A), &js) == nil
				if ok {
					if _, e := jsonschema.NewCompiler().Compile([]byte(q.A)); e != nil {
						ok = false
					}
				}
				if !ok {
					badSchema[q.A] = true
				}
				if m, isMap := js.(map[string]any); isMap {
					if t, isStr := m["title"].(string); isStr {
						titles[q.A] = t
					}
				}
			}
		}
	}

	live := map[int]*liveWAF{}
	ownerSlot := map[uint64]int{}
	var evTerms []string
	shared, failed := false, false
	check := func(when string) {
		for slot, l := range live {
			if l.closed || !l.usable {
				continue
			}
			got := "StBuilt:" + probeAll(l.waf)
			k := specKey(c.Configs, l.spec)
			r.res.OracleEvaluations++
			if got != alone[k] {
				r.fail("c13-differs-from-solo", fmt.Sprintf("%s: WAF %d behaves differently from the same configuration built alone: %.300s vs %.300s", when, slot, got, alone[k]), c)
			}
			if want, ok := r.fresh[k]; ok {
				r.res.OracleEvaluations++
				if got != want {
					r.fail("c13-differs-from-fresh-process", fmt.Sprintf("%s: WAF %d behaves differently from the same configuration built in a fresh process: %.300s vs %.300s", when, slot, got, want), c)
				}
			}
			if want, ok := r.nomemo[k]; ok {
				r.res.OracleEvaluations++
				if got != want {
					r.fail("c13-differs-from-no-memoize", fmt.Sprintf("%s: WAF %d behaves differently from the build with -tags coraza.no_memoize: %.300s vs %.300s", when, slot, got, want), c)
				}
			}
		}
	}
	for i, ev := range c.Events {
		when := fmt.Sprintf("after event %d (%s waf %d)", i, ev.Op, ev.Waf)
		switch ev.Op {
		case "build", "more":
			l := live[ev.Waf]
			if ev.Op == "build" || l == nil {
				l = newLive()
				live[ev.Waf] = l
				ownerSlot[ownerID(l.waf)] = ev.Waf + 1
			}
			cfg := c.Configs[ev.Cfg]
			_, reqs := cfg.compile(1000 * len(l.spec))
			note(reqs)
			wasUsable := l.usable
			st, detail := l.apply(cfg, ev.Cfg)
			if st != "StBuilt" {
				failed = true
			}
			// construction status against the solo / fresh / no-memoize builds of the same specification
			if wasUsable {
				k := specKey(c.Configs, l.spec)
				for name, tbl := range map[string]map[string]string{"solo": alone, "fresh-process": r.fresh, "no-memoize": r.nomemo} {
					want, ok := tbl[k]
					if !ok {
						continue
					}
					r.res.OracleEvaluations++
					wst, wdetail, _ := strings.Cut(want, ":")
					if wst != st || (st != "StBuilt" && wdetail != errClass(detail)) {
						r.fail("c13-construction-differs-"+name, fmt.Sprintf("%s: construction ended %s (%.200s) but the %s build ended %.200s", when, st, detail, name, want), c)
					}
				}
			}
			rt := make([]string, len(reqs))
			for j, q := range reqs {
				rt[j] = q.term()
				r.dist.Inc("call:" + q.Kind)
			}
			snap := snapshot(ownerSlot)
			for _, o := range snap {
				if len(o.Owners) > 1 {
					shared = true
				}
			}
			evTerms = append(evTerms, fmt.Sprintf("(CBuild %s %s %s %s)", vh.N(int64(ev.Waf+1)), vh.List(rt), st, snapTerm(snap)))
			r.dist.Inc("event:" + ev.Op + ":" + st)
		case "close":
			if l := live[ev.Waf]; l != nil {
				l.close()
			}
			snap := snapshot(ownerSlot)
			evTerms = append(evTerms, fmt.Sprintf("(CClose %s %s)", vh.N(int64(ev.Waf+1)), snapTerm(snap)))
			r.dist.Inc("event:close")
		}
		check(when)
	}
	// close everything (part of the history the model sees), the cache must be empty
	slots := make([]int, 0, len(live))
	for s := range live {
		slots = append(slots, s)
	}
	sort.Ints(slots)
	for _, s := range slots {
		if !live[s].closed {
			live[s].close()
			evTerms = append(evTerms, fmt.Sprintf("(CClose %s %s)", vh.N(int64(s+1)), snapTerm(snapshot(ownerSlot))))
			check(fmt.Sprintf("after the final close of waf %d", s))
		}
	}
	if memoized {
		r.res.OracleEvaluations++
		if n := len(snapshot(nil)); n != 0 {
			r.fail("c13-leak", fmt.Sprintf("%d cache entries left after every WAF was closed", n), c)
			resetCache()
		}
	}

	// role reuse: the same vocabulary string in two different roles inside this case
	roles := map[string]map[string]bool{}
	for _, cf := range c.Configs {
		for _, it := range cf.Items {
			for _, a := range []string{it.Arg, it.Arg2} {
				if a == "" {
					continue
				}
				if roles[a] == nil {
					roles[a] = map[string]bool{}
				}
				roles[a][it.Kind] = true
			}
		}
	}
	// lower-casing collisions: two DIFFERENT texts in lower-casing roles (@pm phrases, @pmFromFile lines,
	// REQUEST_HEADERS regex keys) of this case with the same strings.ToLower
	lowered := map[string]map[string]bool{}
	addLow := func(role, raw string) {
		k := role + "\x00" + strings.ToLower(raw)
		if lowered[k] == nil {
			lowered[k] = map[string]bool{}
		}
		lowered[k][raw] = true
	}
	for _, cf := range c.Configs {
		d := cf.decoded()
		for _, it := range d.Items {
			switch it.Kind {
			case "pm":
				addLow("pm", it.Arg)
			case "varrx":
				addLow("pm", it.Arg2)
			case "negrx":
				addLow("re", it.Arg)
			case "pmf":
				addLow("pmf", strings.Join(fileLines(d.Files[it.Arg]), "\n"))
			}
		}
	}
	for _, raws := range lowered {
		if len(raws) > 1 {
			r.dist.Inc("case:texts-colliding-after-ToLower")
			break
		}
	}
	reuse := false
	for _, ks := range roles {
		if len(ks) > 1 {
			reuse = true
		}
	}
	if shared {
		r.dist.Inc("case:entry-shared-by-2+-WAFs")
	}
	if reuse {
		r.dist.Inc("case:string-in-2+-roles")
	}
	if failed {
		r.dist.Inc("case:has-failed-construction")
	}
	if shared || reuse {
		b, _ := json.Marshal(c)
		r.distinct[string(b)] = true
	}

	keys := func(m map[string]bool) []string {
		l := make([]string, 0, len(m))
		for k := range m {
			l = append(l, k)
		}
		sort.Strings(l)
		return l
	}
	pairs := func(m map[string]string) string {
		ks := make([]string, 0, len(m))
		for k := range m {
			ks = append(ks, k)
		}
		sort.Strings(ks)
		items := make([]string, len(ks))
		for i, k := range ks {
			items[i] = "(" + hexTerm(k) + ", " + hexTerm(m[k]) + ")"
		}
		return vh.List(items)
	}
	term = fmt.Sprintf("(mk_case %s %s %s %s %s %s %s)", vh.HxList(keys(badRe)), vh.HxList(keys(badBin)), vh.HxList(keys(badSchema)),
		pairs(hashes), pairs(titles), vh.HxList(acVocab), vh.List(evTerms))
	return term, nil
}

// ---------------------------------------------------------------------------------------------
// driver
// ---------------------------------------------------------------------------------------------

func Run(cfg vh.Config) (*vh.Result, error) {
	if in := os.Getenv("VERIF_C13_SOLO_IN"); in != "" {
		if err := runSoloMode(in, os.Getenv("VERIF_C13_SOLO_OUT")); err != nil {
			return nil, err
		}
		return &vh.Result{Rule: "solo mode"}, nil
	}
	if !memoized {
		return nil, fmt.Errorf("the C13 driver needs the memoizing build (coraza.no_memoize is for the solo mode only)")
	}
	res := &vh.Result{}
	r := &runner{res: res, dist: vh.Counter{}, distinct: map[string]bool{}}
	rng := vh.Rng(cfg.Seed, "c13")

	var cases []caseJSON
	if cfg.Replay != "" {
		b, err := os.ReadFile(cfg.Replay)
		if err != nil {
			return nil, err
		}
		var rp struct {
			Case *caseJSON `json:"case"`
		}
		var c caseJSON
		if json.Unmarshal(b, &rp) == nil && rp.Case != nil && len(rp.Case.Events) > 0 {
			c = *rp.Case
		} else if err := json.Unmarshal(b, &c); err != nil {
			return nil, err
		}
		cases = append(cases, c)
	} else {
		docs, _ := vh.LoadCorpus(cfg.Corpus)
		for _, d := range docs {
			var c caseJSON
			if json.Unmarshal(d, &c) == nil && len(c.Events) > 0 {
				cases = append(cases, c)
				r.dist.Inc("source:corpus")
			}
		}
		pool := make([]Config, cfg.Pick(60, 400))
		for i := range pool {
			pool[i] = genConfig(rng)
		}
		for i := 0; i < cfg.Pick(120, 2500); i++ {
			cases = append(cases, genCase(rng, pool))
			r.dist.Inc("source:generated")
		}
	}

	// solo outcomes of every WAF specification in other processes
	all := map[string][]Config{}
	for _, c := range cases {
		for k, cs := range c.specs() {
			all[k] = cs
		}
	}
	if self, err := os.Executable(); err == nil {
		fresh, err := runSubprocess(self, all, cfg.OutDir, "fresh")
		if err != nil {
			return nil, fmt.Errorf("fresh-process solo run: %w", err)
		}
		r.fresh = fresh
	}
	if os.Getenv("VERIF_C13_SKIP_NOMEMO") == "" {
		bin, err := buildNoMemoize(cfg.OutDir)
		if err != nil {
			return nil, err
		}
		nm, err := runSubprocess(bin, all, cfg.OutDir, "nomemo")
		if err != nil {
			return nil, fmt.Errorf("no-memoize solo run: %w", err)
		}
		if nm["__memoized"] != "false" {
			return nil, fmt.Errorf("the second binary was not built without memoize")
		}
		r.nomemo = nm
		res.Notes = append(res.Notes, fmt.Sprintf("second binary built with -tags coraza.no_memoize: %d WAF specifications built alone in it and in a fresh process of the first binary", len(all)))
	}

	var terms []string
	var descs []any
	for _, c := range cases {
		t, err := r.runCase(c)
		if err != nil {
			return nil, err
		}
		terms = append(terms, t)
		descs = append(descs, c)
		res.Evaluations++
	}

	per := 25
	for i, k := 0, 0; i < len(terms); i, k = i+per, k+1 {
		j := i + per
		if j > len(terms) {
			j = len(terms)
		}
		si, err := vh.WriteShard(cfg.OutDir, vh.Shard{
			Name: fmt.Sprintf("C13_%d", k), Imports: "From Verif Require Import Base Memo CorrC13.\nFrom VerifGen Require Import FactsC13.",
			CaseType: "CorrC13.case", MismatchF: "CorrC13.mismatches FactsC13.source_tags FactsC13.lower_table", Terms: terms[i:j], Cases: descs[i:j],
		})
		if err != nil {
			return nil, err
		}
		res.Shards = append(res.Shards, si)
	}
	res.DistinctNontrivial = len(r.distinct)
	res.Rule = "a history is non-trivial when a cache entry was owned by two or more WAFs at some point, or the same vocabulary string occurs in two different roles (phrase list / regex key / @rx / @restpath / data-set name / file name ...) among its configurations"
	for i := 0; i < len(descs) && i < 4; i++ {
		res.Samples = append(res.Samples, descs[i])
	}
	res.InputDistribution = r.dist
	return res, nil
}

// probe words for the descriptor of a matcher
var acVocab = []string{"k", "K", "\u212a", "i", "\xff", "\ufffd", "\u00e9t\u00e9", "\u00c9t\u00e9", "foo", "bar", "baz", "FOO", "fo", "ds", "xfooy", "list.txt", "b\x00c", ""}

func rxPrefix() string {
	if operators.VerifC13MultilineOff() {
		return "(?s)"
	}
	return "(?sm)"
}
