(* ConfigProofs.v — lemmas and proofs for C17 over Config.v *)
From Verif Require Import Base Config.
Open Scope N_scope.

(* ================= generic helpers ================= *)

Lemma filter_filter {A} (p q : A -> bool) l :
  filter p (filter q l) = filter (fun x => q x && p x) l.
Proof.
  induction l as [|x l IH]; cbn [filter]; [reflexivity|].
  destruct (q x); cbn [filter andb]; [destruct (p x)|]; rewrite IH; reflexivity.
Qed.

Lemma filter_ext' {A} (p q : A -> bool) l : (forall x, In x l -> p x = q x) -> filter p l = filter q l.
Proof.
  induction l as [|x l IH]; intro H; cbn [filter]; [reflexivity|].
  rewrite (H x (or_introl eq_refl)), IH; [reflexivity|]. intros y Hy. apply H. right; exact Hy.
Qed.

Lemma filter_all {A} (p : A -> bool) l : (forall x, In x l -> p x = true) -> filter p l = l.
Proof.
  induction l as [|x l IH]; intro H; cbn [filter]; [reflexivity|].
  rewrite (H x (or_introl eq_refl)), IH; [reflexivity|]. intros y Hy; apply H; right; exact Hy.
Qed.

Lemma map_filter_comm {A B} (f : A -> B) (p : B -> bool) (q : A -> bool) l :
  (forall x, In x l -> p (f x) = q x) -> filter p (map f l) = map f (filter q l).
Proof.
  induction l as [|x l IH]; intro H; cbn [map filter]; [reflexivity|].
  rewrite (H x (or_introl eq_refl)). rewrite IH by (intros y Hy; apply H; right; exact Hy).
  destruct (q x); reflexivity.
Qed.

Lemma map_ext_in' {A B} (f g : A -> B) l : (forall x, In x l -> f x = g x) -> map f l = map g l.
Proof. apply map_ext_in. Qed.

(* ================= compile: closed form and unique non-zero ids ================= *)

Fixpoint uniq (rs : list crule) : Prop :=
  match rs with
  | [] => True
  | r :: t => (cr_id r = 0 \/ has_id (cr_id r) t = false) /\ uniq t
  end.

Lemma has_id_app id a b : has_id id (a ++ b) = has_id id a || has_id id b.
Proof. unfold has_id. apply existsb_app. Qed.

Lemma has_id_false_in id rs : has_id id rs = false -> forall r, In r rs -> cr_id r <> id.
Proof.
  unfold has_id. intros H r Hr E.
  assert (existsb (fun r => cr_id r =? id) rs = true) as X.
  { apply existsb_exists. exists r. split; [exact Hr|]. apply N.eqb_eq; exact E. }
  congruence.
Qed.

Lemma has_id_in id rs : has_id id rs = true -> exists r, In r rs /\ cr_id r = id.
Proof.
  unfold has_id. intro H. apply existsb_exists in H as [r [Hr E]]. exists r. split; [exact Hr|].
  apply N.eqb_eq; exact E.
Qed.

Lemma uniq_snoc acc r :
  uniq (acc ++ [r]) <-> uniq acc /\ (cr_id r = 0 \/ has_id (cr_id r) acc = false).
Proof.
  induction acc as [|a acc IH]; cbn [app uniq].
  - unfold has_id; cbn. tauto.
  - rewrite IH, has_id_app.
    replace (has_id (cr_id a) [r]) with (cr_id r =? cr_id a)
      by (unfold has_id; cbn; rewrite orb_false_r; reflexivity).
    replace (has_id (cr_id r) (a :: acc)) with ((cr_id a =? cr_id r) || has_id (cr_id r) acc) by reflexivity.
    rewrite (N.eqb_sym (cr_id r) (cr_id a)).
    destruct (N.eqb_spec (cr_id a) (cr_id r)) as [E|E]; rewrite ?orb_true_r, ?orb_false_r; cbn [orb].
    + rewrite E. intuition (try congruence; try discriminate).
    + tauto.
Qed.

Lemma uniq_app_l a b : uniq (a ++ b) -> uniq a.
Proof.
  induction a as [|x a IH]; cbn [app uniq]; [tauto|]. intros [H1 H2]. split; [|apply IH; exact H2].
  destruct H1 as [H1|H1]; [left; exact H1|right]. rewrite has_id_app in H1. apply orb_false_iff in H1. tauto.
Qed.

Lemma compile_from_closed dflt items : forall acc rs,
  compile_from dflt items acc = Some rs -> rs = acc ++ map (compile_item dflt) items.
Proof.
  induction items as [|it items IH]; intros acc rs H; cbn [compile_from map] in *.
  - inversion H. rewrite app_nil_r. reflexivity.
  - destruct (negb (cr_id (compile_item dflt it) =? 0) && has_id (cr_id (compile_item dflt it)) acc); [discriminate|].
    apply IH in H. rewrite H, <- app_assoc. reflexivity.
Qed.

Lemma compile_from_uniq dflt items : forall acc rs,
  uniq acc -> compile_from dflt items acc = Some rs -> uniq rs.
Proof.
  induction items as [|it items IH]; intros acc rs Hu H; cbn [compile_from] in *.
  - inversion H; subst; exact Hu.
  - destruct (negb (cr_id (compile_item dflt it) =? 0) && has_id (cr_id (compile_item dflt it)) acc) eqn:E; [discriminate|].
    eapply IH; [|exact H]. apply uniq_snoc. split; [exact Hu|].
    apply andb_false_iff in E as [E|E]; [left|right; exact E].
    apply negb_false_iff in E. apply N.eqb_eq; exact E.
Qed.

Lemma compile_from_ok dflt items : forall acc,
  uniq (acc ++ map (compile_item dflt) items) ->
  compile_from dflt items acc = Some (acc ++ map (compile_item dflt) items).
Proof.
  induction items as [|it items IH]; intros acc Hu; cbn [compile_from map] in *.
  - rewrite app_nil_r. reflexivity.
  - assert (uniq ((acc ++ [compile_item dflt it]) ++ map (compile_item dflt) items)) as Hu'
      by (rewrite <- app_assoc; exact Hu).
    pose proof (uniq_app_l _ _ Hu') as Hs. apply uniq_snoc in Hs as [_ Hs].
    replace (negb (cr_id (compile_item dflt it) =? 0) && has_id (cr_id (compile_item dflt it)) acc) with false.
    + rewrite (IH _ Hu'), <- app_assoc. reflexivity.
    + symmetry. destruct Hs as [Hs|Hs]; [rewrite Hs; reflexivity|rewrite Hs; apply andb_false_r].
Qed.

Lemma compile_closed dflt src c : cf_compile dflt src = Some c -> c = map (compile_item dflt) src.
Proof. intro H. apply compile_from_closed in H. exact H. Qed.

Lemma compile_uniq dflt src c : cf_compile dflt src = Some c -> uniq c.
Proof. intro H. eapply compile_from_uniq; [|exact H]. exact I. Qed.

Lemma compile_ok dflt src : uniq (map (compile_item dflt) src) -> cf_compile dflt src = Some (map (compile_item dflt) src).
Proof. intro H. apply (compile_from_ok dflt src []). exact H. Qed.

Lemma has_id_filter id p rs : has_id id (filter p rs) = true -> has_id id rs = true.
Proof.
  intro H. apply has_id_in in H as [r [Hr E]]. apply filter_In in Hr as [Hr _].
  unfold has_id. apply existsb_exists. exists r. split; [exact Hr|apply N.eqb_eq; exact E].
Qed.

Lemma uniq_filter p rs : uniq rs -> uniq (filter p rs).
Proof.
  induction rs as [|r t IH]; cbn [filter uniq]; [tauto|]. intros [H1 H2].
  destruct (p r); cbn [uniq]; [|apply IH; exact H2]. split; [|apply IH; exact H2].
  destruct H1 as [H1|H1]; [left; exact H1|right].
  destruct (has_id (cr_id r) (filter p t)) eqn:E; [|reflexivity]. apply has_id_filter in E. congruence.
Qed.

Lemma has_id_map g id rs : (forall r, cr_id (g r) = cr_id r) -> has_id id (map g rs) = has_id id rs.
Proof.
  intro Hg. unfold has_id. induction rs as [|r t IH]; cbn [map existsb]; [reflexivity|].
  rewrite Hg, IH. reflexivity.
Qed.

Lemma uniq_map g rs : (forall r, cr_id (g r) = cr_id r) -> uniq rs -> uniq (map g rs).
Proof.
  intro Hg. induction rs as [|r t IH]; cbn [map uniq]; [tauto|]. intros [H1 H2].
  rewrite Hg, (has_id_map g _ t Hg). split; [exact H1|apply IH; exact H2].
Qed.

(* ================= removal ================= *)

Lemma del_first_filter n rs : n <> 0 -> uniq rs ->
  del_first n rs = filter (fun r => negb (cr_id r =? n)) rs.
Proof.
  intros Hn. induction rs as [|r t IH]; cbn [del_first filter uniq]; [reflexivity|]. intros [H1 H2].
  destruct (N.eqb_spec (cr_id r) n) as [E|E]; cbn [negb].
  - symmetry. apply filter_all. intros x Hx. apply negb_true_iff. apply N.eqb_neq.
    destruct H1 as [H1|H1]; [congruence|]. rewrite E in H1. eapply has_id_false_in; eassumption.
  - rewrite IH by exact H2. reflexivity.
Qed.

Lemma rm_specs_filter l : forall rs rs',
  forallb spec_zero_free l = true -> uniq rs -> rm_specs l rs = Some rs' ->
  rs' = filter (fun r => negb (specs_have l (cr_id r))) rs.
Proof.
  induction l as [|sp l IH]; intros rs rs' Hz Hu H; cbn [rm_specs forallb] in *.
  - inversion H; subst. symmetry. apply filter_all. reflexivity.
  - apply andb_true_iff in Hz as [Hz1 Hz].
    assert (forall rs1, uniq rs1 -> rm_specs l rs1 = Some rs' ->
            rs1 = filter (fun r => negb (spec_has sp (cr_id r))) rs ->
            rs' = filter (fun r => negb (specs_have (sp :: l) (cr_id r))) rs) as K.
    { intros rs1 Hu1 H1 E. rewrite (IH _ _ Hz Hu1 H1), E, filter_filter.
      apply filter_ext'. intros x _. unfold specs_have. cbn [existsb]. rewrite negb_orb. reflexivity. }
    destruct sp as [n|a b].
    + assert (n <> 0) as Hn.
      { unfold spec_zero_free, spec_has in Hz1. apply negb_true_iff in Hz1. apply N.eqb_neq in Hz1. congruence. }
      rewrite (del_first_filter n rs Hn Hu) in H.
      eapply K; [|exact H|reflexivity]. apply uniq_filter; exact Hu.
    + destruct (b <? a); [discriminate|].
      eapply K; [|exact H|reflexivity]. apply uniq_filter; exact Hu.
Qed.

Lemma compile_item_id dflt it :
  cr_id (compile_item dflt it) = match it with SRule id _ _ _ => id | SMarker _ => 0 end.
Proof. destruct it; reflexivity. Qed.

(* ---- metadata of a compiled link in closed form ---- *)

Definition tags_of (acts : list action) : list bytes := src_tags acts.

Lemma fold_meta_tags acts : forall l, cl_tags (fold_left meta_step acts l) = cl_tags l ++ src_tags acts.
Proof.
  induction acts as [|a acts IH]; intro l; cbn [fold_left src_tags]; [rewrite app_nil_r; reflexivity|].
  rewrite IH. destruct a; cbn [meta_step cl_tags]; try reflexivity. rewrite <- app_assoc. reflexivity.
Qed.

Lemma fold_meta_msg acts : forall l, cl_msg (fold_left meta_step acts l) = src_msg acts (cl_msg l).
Proof.
  induction acts as [|a acts IH]; intro l; cbn [fold_left src_msg]; [reflexivity|].
  rewrite IH. destruct a; reflexivity.
Qed.

Lemma act_step_tags l a : cl_tags (act_step l a) = cl_tags l.
Proof. destruct a; reflexivity. Qed.
Lemma act_step_msg l a : cl_msg (act_step l a) = cl_msg l.
Proof. destruct a; reflexivity. Qed.

Lemma fold_act_tags acts : forall l, cl_tags (fold_left act_step acts l) = cl_tags l.
Proof. induction acts as [|a acts IH]; intro l; cbn [fold_left]; [reflexivity|]. rewrite IH. apply act_step_tags. Qed.
Lemma fold_act_msg acts : forall l, cl_msg (fold_left act_step acts l) = cl_msg l.
Proof. induction acts as [|a acts IH]; intro l; cbn [fold_left]; [reflexivity|]. rewrite IH. apply act_step_msg. Qed.

Lemma apply_actions_tags d acts l : cl_tags (apply_actions d acts l) = cl_tags l ++ src_tags acts.
Proof. unfold apply_actions. rewrite fold_act_tags. apply fold_meta_tags. Qed.
Lemma apply_actions_msg d acts l : cl_msg (apply_actions d acts l) = src_msg acts (cl_msg l).
Proof. unfold apply_actions. rewrite fold_act_msg. apply fold_meta_msg. Qed.

Lemma compile_link_tags d h : cl_tags (compile_link d h) = src_tags (ls_actions h).
Proof. unfold compile_link. rewrite apply_actions_tags. reflexivity. Qed.
Lemma compile_link_msg d h : cl_msg (compile_link d h) = src_msg (ls_actions h) None.
Proof. unfold compile_link. rewrite apply_actions_msg. reflexivity. Qed.

Lemma zero_free_specs l : forallb spec_zero_free l = true -> specs_have l 0 = false.
Proof.
  induction l as [|s r IH]; [reflexivity|]. cbn [forallb specs_have existsb]. intro H.
  apply andb_true_iff in H as [H1 H2]. unfold specs_have in IH. rewrite (IH H2), orb_false_r.
  unfold spec_zero_free in H1. apply negb_true_iff in H1. exact H1.
Qed.

(* ---- C17_remove_equiv ---- *)

Definition is_remove (d : directive) : bool :=
  match d with DRemoveById _ | DRemoveByTag _ | DRemoveByMsg _ => true | _ => false end.

Lemma remove_structural dflt src c d c' :
  cf_compile dflt src = Some c -> is_remove d = true -> zero_free d = true ->
  cf_apply d c = Some c' -> cf_compile dflt (cf_rewrite d src) = Some c'.
Proof.
  intros Hc Hr Hz Ha. pose proof (compile_uniq _ _ _ Hc) as Hu. apply compile_closed in Hc. subst c.
  assert (forall (p : crule -> bool) (q : item_src -> bool),
            (forall it, In it src -> p (compile_item dflt it) = q it) ->
            c' = filter p (map (compile_item dflt) src) ->
            cf_compile dflt (filter q src) = Some c') as K.
  { intros p q Hpq E. rewrite (map_filter_comm _ p q src Hpq) in E. subst c'.
    apply compile_ok. rewrite <- (map_filter_comm _ p q src Hpq). apply uniq_filter. exact Hu. }
  destruct d as [l|t|m| | |]; try discriminate; cbn [cf_apply cf_rewrite zero_free] in *.
  - destruct l as [|sp l]; [discriminate|].
    eapply K; [|eapply rm_specs_filter; eassumption].
    intros it _. cbv beta. rewrite compile_item_id. destruct it as [id ph h ch|nm]; cbn [src_keep]; [reflexivity|].
    (* a marker has id 0, not covered by a zero-free list *)
    rewrite (zero_free_specs _ Hz). reflexivity.
  - inversion Ha; subst c'. eapply K; [|reflexivity].
    intros it _. destruct it as [id ph h ch|nm]; cbn [compile_item src_keep cr_head marker_rule empty_link cl_tags mem_bytes negb].
    + rewrite compile_link_tags. reflexivity.
    + reflexivity.
  - inversion Ha; subst c'. eapply K; [|reflexivity].
    intros it _. destruct it as [id ph h ch|nm]; cbn [compile_item src_keep cr_head marker_rule empty_link cl_msg opt_bytes_is negb].
    + rewrite compile_link_msg. reflexivity.
    + reflexivity.
Qed.
