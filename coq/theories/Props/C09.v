(* Props/C09.v — the property theorems of C09 and nothing else. *)
From Verif Require Import Base Transform Setvar.
