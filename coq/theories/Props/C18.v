(* Props/C18.v — the property theorems of C18 and nothing else.
   C18: the net/http middleware blocks completely and otherwise passes traffic through intact. *)
From Verif Require Import Base Http HttpProofs.

Theorem C18_request_block : forall cfg sk body ops it,
  c_engine cfg <> EOff ->
  mw_request cfg body = RBlocked it ->
  let r := wrap_handler cfg sk body ops in
  r_invoked r = false /\ r_read r = [] /\ r_intr r = Some it /\
  cl_body (client_of sk (r_ds r)) = [] /\
  d_trace (r_ds r) = [DHeader (status_of it 200) []] /\
  (is_info (status_of it 200) = false -> cl_status (client_of sk (r_ds r)) = status_of it 200).
Proof. exact request_block_holds. Qed.
Print Assumptions C18_request_block.
