(* CorrC11.v — correspondence checker for C11.  One case = one pattern (Go's simplified AST of
   "(?sm)"+arguments and of the arguments alone, serialised by the harness) with what the real
   code computed for it (minLen, whether prefilterFunc is nil, extractLiterals, extractExactMatch)
   and a list of inputs with, per input: prefilterFunc(pattern)(input), the @rx operator result
   and captured fields with the prefilter off (that is Go's regexp engine) and on.
   The model functions evaluated here are the ones the theorems of Props/C11.v are about. *)
From Verif Require Import Base Utf8 Regex Prefilter.
Open Scope N_scope.

(* literal runes are written as code points; the shard prelude supplies the table of the runes
   whose lower-case image or fold orbit is not trivial *)
Definition lr_of (tbl : list (N * lrune)) (r : N) : lrune :=
  match find (fun p => fst p =? r) tbl with
  | Some p => snd p
  | None => LR r r [r]
  end.
Definition LitT (tbl : list (N * lrune)) (f : bool) (rs : list N) : re := Lit f (map (lr_of tbl) rs).

Inductive io :=
  IO (w : bytes)
     (pf : bool)                      (* prefilterFunc(pattern)(w); true when the prefilter is nil *)
     (capturing : bool)
     (off : option (list bytes))      (* prefilter off: None = no match, Some fields = TX.0.. as captured *)
     (on_res : bool) (on_caps : option (list bytes))   (* prefilter on; None = the same fields as off *)
     (sem : bool).                    (* also compare the regex semantics with the engine's verdict *)

Inductive golits := GNone | GAll (l : list bytes) | GAny (l : list bytes) | GComb (a y : list bytes).

Inductive case :=
  CP (r r0 : re) (minlen : nat) (pf_nil : bool) (gl : golits) (exact : option (bytes * bool)) (ios : list io)
  (* the parsed, NOT simplified AST (it still has OpRepeat nodes): minLen and extractLiterals
     called on it through the hooks, and Go's engine verdict per input for the semantics of Rep *)
| CU (ru : re) (minlen : N) (gl : golits) (ms : list (bytes * bool)).

Fixpoint lb_eqb (a b : list bytes) : bool :=
  match a, b with
  | [], [] => true
  | x :: a', y :: b' => bytes_eqb x y && lb_eqb a' b'
  | _, _ => false
  end.

Definition lits_eqb (m : lits) (g : golits) : bool :=
  match m, g with
  | LNone, GNone => true
  | LAll a, GAll b => lb_eqb a b
  | LAny a, GAny b => lb_eqb a b
  | LComb a y, GComb b z => lb_eqb a b && lb_eqb y z
  | _, _ => false
  end.

Definition exact_eqb (m : option (list lrune * bool)) (g : option (bytes * bool)) : bool :=
  match m, g with
  | None, None => true
  | Some (rs, f), Some (b, f') => bytes_eqb (lit_str false rs) b && Bool.eqb f f'
  | _, _ => false
  end.

(* TX.0-9 are all "" in a fresh transaction: fields are compared up to trailing empty values *)
Fixpoint trim_empty (l : list bytes) : list bytes :=
  match l with
  | [] => []
  | x :: l' => match trim_empty l' with
               | [] => if is_nil x then [] else [x]
               | t => x :: t
               end
  end.

Definition is_some {A} (o : option A) : bool := match o with Some _ => true | None => false end.

Definition on_fields (off on_caps : option (list bytes)) : list bytes :=
  match on_caps with
  | Some l => l
  | None => match off with Some l => l | None => [] end
  end.

Definition io_ok (r : re) (pfo : option pfn) (c : rx_compiled) (x : io) : bool :=
  match x with
  | IO w pf capturing off on_res on_caps sem =>
      let model_pf := match pfo with None => true | Some p => pf_run p w end in
      let engine := fun _ : bytes => option_map (map (@Some bytes)) off in
      let '(m_res, m_caps) := evaluate engine c capturing w in
      Bool.eqb model_pf pf
      && Bool.eqb m_res on_res && lb_eqb (trim_empty m_caps) (on_fields off on_caps)
      && (if sem then Bool.eqb (re_matchb r w) (is_some off) else true)
  end.

Definition ok (c : case) : bool :=
  match c with
  | CP r r0 minlen pf_nil gl exact ios =>
      let pfo := prefilter_func r in
      let rc := rx_compile true r r0 in
      wf_re r && wf_re r0
      && Nat.eqb (min_len r) minlen
      && Bool.eqb (negb (is_some pfo)) pf_nil
      && lits_eqb (extract_literals r (has_flag r)) gl
      && exact_eqb (extract_exact r0) exact && exact_rel r0 r
      && forallb (io_ok r pfo rc) ios
  | CU ru minlen gl ms =>
      wf_re ru
      && (N.of_nat (min_len ru) =? minlen)
      && lits_eqb (extract_literals ru (has_flag ru)) gl
      && forallb (fun p => Bool.eqb (re_matchb ru (fst p)) (snd p)) ms
  end.

Definition mismatches (l : list case) : list nat := mismatches_of ok l.

(* diagnosis of a mismatching case (debugging aid, not part of any verdict): codes of the failing
   checks: 1 wf, 2 minLen, 3 prefilter nil-ness, 4 extractLiterals, 5 extractExactMatch;
   100*(k+1)+c for input k: c = 1 prefilter decision, 2 result, 3 captured fields, 4 semantics *)
Definition io_diag (r : re) (pfo : option pfn) (c : rx_compiled) (k : nat) (x : io) : list nat :=
  match x with
  | IO w pf capturing off on_res on_caps sem =>
      let model_pf := match pfo with None => true | Some p => pf_run p w end in
      let engine := fun _ : bytes => option_map (map (@Some bytes)) off in
      let '(m_res, m_caps) := evaluate engine c capturing w in
      (if Bool.eqb model_pf pf then [] else [100 * (k + 1) + 1])
      ++ (if Bool.eqb m_res on_res then [] else [100 * (k + 1) + 2])
      ++ (if lb_eqb (trim_empty m_caps) (on_fields off on_caps) then [] else [100 * (k + 1) + 3])
      ++ (if sem then if Bool.eqb (re_matchb r w) (is_some off) then [] else [100 * (k + 1) + 4] else [])
  end%nat.

Fixpoint ios_diag (r : re) (pfo : option pfn) (c : rx_compiled) (k : nat) (l : list io) : list nat :=
  match l with [] => [] | x :: l' => io_diag r pfo c k x ++ ios_diag r pfo c (S k) l' end.

Definition diag (c : case) : list nat :=
  match c with
  | CP r r0 minlen pf_nil gl exact ios =>
      let pfo := prefilter_func r in
      let rc := rx_compile true r r0 in
      ((if wf_re r && wf_re r0 then [] else [1])
      ++ (if Nat.eqb (min_len r) minlen then [] else [2])
      ++ (if Bool.eqb (negb (is_some pfo)) pf_nil then [] else [3])
      ++ (if lits_eqb (extract_literals r (has_flag r)) gl then [] else [4])
      ++ (if exact_eqb (extract_exact r0) exact && exact_rel r0 r then [] else [5])
      ++ ios_diag r pfo rc 0 ios)%nat
  | CU ru minlen gl ms =>
      ((if wf_re ru then [] else [1])
      ++ (if (N.of_nat (min_len ru) =? minlen)%N then [] else [2])
      ++ (if lits_eqb (extract_literals ru (has_flag ru)) gl then [] else [4])
      ++ (if forallb (fun p => Bool.eqb (re_matchb ru (fst p)) (snd p)) ms then [] else [104]))%nat
  end.
