(* EngineBridge2Proofs.v — Setvar.v (C09) driven by Match.v's (C01) selection / transformation /
   operator pipeline: the matched values are C01's satisfying triples, actions run once per
   C01-satisfying value, counters move by delta x (number of C01-satisfying values). *)
From Coq Require Import String ZArith Permutation Lia.
From Verif Require Import Base Utf8 Transform Match MatchProofs Setvar SetvarProofs EngineBridge2.
Open Scope N_scope.

(* ------------------------------------------------------------------------------------ *)
(* 1. Setvar.v's FindAll is a permutation of the pairs                                   *)
(* ------------------------------------------------------------------------------------ *)
Lemma filter_disjoint_app {A} (a b : A -> bool) : (forall x, a x && b x = false) -> forall l,
  Permutation (filter a l ++ filter b l) (filter (fun x => a x || b x) l).
Proof.
  intros Hd. induction l as [|x l IH]; [constructor|]. cbn [filter].
  specialize (Hd x). destruct (a x), (b x); cbn [orb app] in *; try discriminate.
  - constructor. exact IH.
  - etransitivity; [apply Permutation_sym, Permutation_middle|]. constructor. exact IH.
  - exact IH.
Qed.

Lemma existsb_bytes_in k l : existsb (bytes_eqb k) l = true <-> In k l.
Proof.
  rewrite existsb_exists. split.
  - intros (x & Hx & E). apply bytes_eqb_eq in E. subst. exact Hx.
  - intro H. exists k. split; [exact H | apply bytes_eqb_refl].
Qed.

Lemma sv_dedup_in : forall l seen x, In x (sv_dedup seen l) <-> In x l /\ ~ In x seen.
Proof.
  induction l as [|k l IH]; intros seen x; cbn [sv_dedup]; [tauto|].
  destruct (existsb (bytes_eqb k) seen) eqn:E.
  - apply existsb_bytes_in in E. rewrite IH. cbn [In]. split; [tauto|]. intros [[->|H] Hn]; [contradiction | tauto].
  - assert (Hk : ~ In k seen). { intro H. apply existsb_bytes_in in H. congruence. }
    cbn [In]. rewrite IH. cbn [In]. split.
    + intros [<-|[H Hn]]; [tauto | tauto].
    + intros [[<-|H] Hn]; [tauto|]. destruct (list_eq_dec N.eq_dec k x) as [<-|Hne]; [tauto|]. right. tauto.
Qed.

Lemma sv_dedup_nodup : forall l seen, NoDup (sv_dedup seen l).
Proof.
  induction l as [|k l IH]; intro seen; cbn [sv_dedup]; [constructor|].
  destruct (existsb (bytes_eqb k) seen); [apply IH|]. constructor; [|apply IH].
  rewrite sv_dedup_in. cbn [In]. tauto.
Qed.

Lemma group_by_keys {A} (f : A -> bytes) (l : list A) : forall keys, NoDup keys ->
  Permutation (flat_map (fun k => filter (fun p => bytes_eqb (f p) k) l) keys)
              (filter (fun p => existsb (bytes_eqb (f p)) keys) l).
Proof.
  induction keys as [|k ks IH]; intro Hnd; cbn [flat_map].
  - rewrite filter_false. constructor.
  - inversion Hnd as [|? ? Hk Hks]; subst.
    etransitivity; [apply Permutation_app_head, IH, Hks|].
    etransitivity; [apply filter_disjoint_app|].
    + intro x. destruct (bytes_eqb (f x) k) eqn:E; [|reflexivity]. apply bytes_eqb_eq in E. subst k.
      cbn [andb]. destruct (existsb (bytes_eqb (f x)) ks) eqn:E2; [|reflexivity].
      apply existsb_bytes_in in E2. contradiction.
    + cbn [existsb]. apply Permutation_refl.
Qed.

Lemma sv_find_all_perm (l : list (bytes * bytes)) : Permutation (sv_find_all l) l.
Proof.
  unfold sv_find_all.
  etransitivity; [apply (group_by_keys (fun p => lower_ascii (fst p))), sv_dedup_nodup|].
  rewrite filter_all; [apply Permutation_refl|].
  apply Forall_forall. intros p Hp. apply existsb_bytes_in. apply sv_dedup_in. split; [|intros []].
  apply (in_map (fun p => lower_ascii (fst p))) in Hp. exact Hp.
Qed.

(* ------------------------------------------------------------------------------------ *)
(* 2. GetField of Setvar.v = the declarative selection of Match.v                        *)
(* ------------------------------------------------------------------------------------ *)
(* the Match.v state and the Setvar.v environment describe the same request *)
Definition b2_agree (e : env) (st : state) : Prop :=
  Permutation (flat_entries (s_get st)) (e_args e) /\ s_post st = [] /\ s_path st = [] /\
  Permutation (flat_entries (s_hdr st)) (e_hdrs e).

Lemma b2_agree_build1 q : b2_agree (b2_env q) (build1 q).
Proof.
  unfold b2_agree, b2_env, build1. cbn. repeat split; apply map_of_list_entries.
Qed.

Definition b2_pairs (e : env) (v : Match.var) : list (bytes * bytes) :=
  match v with Match.VReqHeaders => e_hdrs e | _ => e_args e end.

Lemma b2_entries_perm e st v : b2_agree e st -> b2_var_ok v = true ->
  Permutation (spec_entries st v) (b2_pairs e v).
Proof.
  intros (Hg & Hp & Hpa & Hh) Hv. destruct v; try discriminate; unfold spec_entries; cbn [var_shape flat_map fst snd view get_map b2_pairs].
  - rewrite Hp, Hpa. cbn [flat_entries flat_map]. rewrite !app_nil_r. exact Hg.
  - rewrite app_nil_r. exact Hg.
  - rewrite app_nil_r. exact Hh.
Qed.

Definition b2_keystr (X : sem) (v : Match.var) (sl : sel) : bytes :=
  if args_family v then sel_text X sl else key_lower (sel_text X sl).

Lemma b2_find_pairs X v sl l : b2_var_ok v = true -> b2_sel_ok sl = true ->
  Permutation (sv_find_pairs l (b2_keystr X v sl)) (filter (fun en => sel_accepts X v sl (fst en)) l).
Proof.
  intros Hv Hs.
  assert (Hsel : selectable v = true) by (destruct v; try discriminate; reflexivity).
  assert (Hall : forall k, is_empty k = true -> Permutation (sv_find_pairs l k) l).
  { intros k Hk. destruct k; [|discriminate]. apply sv_find_all_perm. }
  destruct sl as [|k|p]; [| |discriminate].
  - unfold sel_accepts. rewrite filter_true. apply Hall. unfold b2_keystr. destruct (args_family v); reflexivity.
  - unfold sel_accepts. destruct (is_empty k) eqn:Ek.
    + rewrite filter_true. apply Hall. unfold b2_keystr. cbn [sel_text]. destruct (args_family v); [exact Ek|].
      rewrite key_lower_nil_iff. exact Ek.
    + rewrite Hsel. cbn [andb].
      assert (Hne : is_empty (b2_keystr X v (SelStr k)) = false).
      { unfold b2_keystr. cbn [sel_text]. destruct (args_family v); [exact Ek | rewrite key_lower_nil_iff; exact Ek]. }
      assert (Hlow : lower_ascii (b2_keystr X v (SelStr k)) = key_lower k).
      { unfold b2_keystr. cbn [sel_text]. destruct (args_family v); [reflexivity | apply key_lower_idem]. }
      assert (Hfp : forall k', is_empty k' = false -> sv_find_pairs l k' = filter (fun p => sv_key_eq_ci (fst p) k') l).
      { intros k' Hk'. destruct k'; [discriminate | reflexivity]. }
      rewrite (Hfp _ Hne). erewrite filter_ext; [apply Permutation_refl|].
      intro en. unfold sv_key_eq_ci. rewrite Hlow. apply bytes_eqb_sym.
Qed.

Lemma b2_get_field X e s st t : b2_agree e st -> b2_rtarget_ok t = true ->
  Permutation (Setvar.get_field e s (b2_target X t)) (map m_triple (spec_selects X st t)).
Proof.
  intros Hag Hok. destruct t as [cnt v sl negs]. unfold b2_rtarget_ok in Hok. cbn [rt_var rt_sel rt_negs] in Hok.
  apply andb_true_iff in Hok as [Hok Hn]. apply andb_true_iff in Hok as [Hv Hs].
  destruct negs; [|discriminate].
  assert (Hraw : Permutation (sv_find_pairs (b2_pairs e v) (b2_keystr X v sl))
                             (spec_selected X st (mk_rtarget cnt v sl []))).
  { unfold spec_selected. cbn [rt_var rt_sel rt_negs existsb negb].
    etransitivity; [apply b2_find_pairs; assumption|].
    erewrite (filter_ext (fun e0 => sel_accepts X v sl (fst e0) && true)); [|intro; apply andb_true_r].
    apply Permutation_filter. apply Permutation_sym. apply b2_entries_perm; assumption. }
  unfold spec_selects. cbn [rt_count rt_var].
  assert (Hgf : Setvar.get_field e s (b2_target X (mk_rtarget cnt v sl [])) =
                let raw := sv_find_pairs (b2_pairs e v) (b2_keystr X v sl) in
                if cnt then [(var_name (b2_var v), b2_keystr X v sl, itoa (N.of_nat (List.length raw)))]
                else map (fun p => (var_name (b2_var v), fst p, snd p)) raw).
  { destruct v; try discriminate; reflexivity. }
  rewrite Hgf. cbv zeta. destruct cnt.
  - cbn [map m_triple fst snd]. rewrite (Permutation_length Hraw). apply Permutation_refl.
  - rewrite map_map. cbn [m_triple fst snd]. apply Permutation_map. exact Hraw.
Qed.

(* ------------------------------------------------------------------------------------ *)
(* 3. the matched values of a link                                                       *)
(* ------------------------------------------------------------------------------------ *)
Definition b2_sat (X : sem) (neg : bool) (o : op) (c : b2_triple) : bool := xorb (opev X o (snd c)) neg.

Lemma filter_map_comm {A B} (f : B -> bool) (h : A -> B) l : filter f (map h l) = map h (filter (fun x => f (h x)) l).
Proof. induction l as [|x l IH]; [reflexivity|]. cbn [map filter]. destruct (f (h x)); cbn [map]; rewrite IH; reflexivity. Qed.

Lemma map_flat_map {A B C} (f : B -> C) (g : A -> list B) l : map f (flat_map g l) = flat_map (fun x => map f (g x)) l.
Proof. induction l as [|x l IH]; [reflexivity|]. cbn [flat_map]. rewrite map_app, IH. reflexivity. Qed.

(* with Match.v's (state-independent, capture-free) operator the matched values are the
   candidates that satisfy it, in order *)
Lemma b2_eval_cands X e (l : Setvar.link op) lvl o neg : forall cands s acc s' acc',
  eval_cands (b2_op X) e l lvl o neg cands s acc = (s', acc') ->
  map sv_triple acc' = rev (filter (b2_sat X neg o) cands) ++ map sv_triple acc.
Proof.
  induction cands as [|[[vn key] carg] r IH]; intros s acc s' acc' H; cbn [eval_cands] in H.
  - injection H as _ <-. reflexivity.
  - change (b2_op X o e s carg) with (opev X o carg, @nil (N * bytes)) in H. cbn beta iota in H.
    cbn [filter]. unfold b2_sat at 1. cbn [snd].
    destruct (xorb (opev X o carg) neg).
    + apply IH in H. rewrite H. cbn [rev map sv_triple mk_md md_var md_key Setvar.md_value].
      rewrite <- app_assoc. reflexivity.
    + apply IH in H. exact H.
Qed.

Lemma b2_link_args X b v : link_args (bl_sv X b) v = transform_values (bl_m b) v.
Proof. reflexivity. Qed.

(* one target: the satisfying candidates are Match.v's satisfying triples of the selected entries *)
Lemma b2_target_sat X e s st b neg o t : b2_agree e st -> b2_rtarget_ok t = true ->
  Permutation (filter (b2_sat X neg o) (target_cands e (bl_sv X b) s (b2_target X t)))
              (map m_triple (flat_map (satisfying X (bl_m b) neg o) (spec_selects X st t))).
Proof.
  intros Hag Hok. unfold target_cands.
  set (g := fun c : bytes * bytes * bytes => map (fun a => (fst (fst c), snd (fst c), a)) (link_args (bl_sv X b) (snd c))).
  etransitivity; [apply Permutation_filter, (Permutation_flat_map g), (b2_get_field X e s st t Hag Hok)|].
  generalize (spec_selects X st t). intro M. induction M as [|m M IH]; [constructor|].
  cbn [map flat_map]. rewrite filter_app, map_app. apply Permutation_app; [|exact IH].
  unfold g, satisfying. rewrite filter_map_comm, map_map, b2_link_args.
  cbn [m_triple fst snd]. unfold b2_sat, exec_operator, Match.md_value. cbn [snd]. apply Permutation_refl.
Qed.

Definition b2_target_spec (X : sem) (st : state) (b : blink) (neg : bool) (o : op) (t : rtarget) : list b2_triple :=
  map m_triple (flat_map (satisfying X (bl_m b) neg o) (spec_selects X st t)).

Lemma b2_eval_targets X e st b lvl o neg : b2_agree e st -> forall rts, forallb b2_rtarget_ok rts = true ->
  forall s acc s' acc',
  Setvar.eval_targets (b2_op X) e (bl_sv X b) lvl o neg (map (b2_target X) rts) s acc = (s', acc') ->
  Permutation (map sv_triple acc') (flat_map (b2_target_spec X st b neg o) rts ++ map sv_triple acc).
Proof.
  intro Hag. induction rts as [|t rts IH]; intros Hok s acc s' acc' H; cbn [map Setvar.eval_targets] in H.
  - injection H as _ <-. apply Permutation_refl.
  - cbn [forallb] in Hok. apply andb_true_iff in Hok as [Ht Hr].
    destruct (eval_cands (b2_op X) e (bl_sv X b) lvl o neg (target_cands e (bl_sv X b) s (b2_target X t)) s acc)
      as [s1 acc1] eqn:E.
    apply b2_eval_cands in E. specialize (IH Hr _ _ _ _ H). rewrite E in IH.
    etransitivity; [exact IH|]. cbn [flat_map]. rewrite <- app_assoc.
    etransitivity; [apply Permutation_app_swap_app|]. apply Permutation_app.
    + etransitivity; [apply Permutation_sym, Permutation_rev|]. apply b2_target_sat; assumption.
    + apply Permutation_refl.
Qed.

(* (1) the matched values of Setvar.v's evaluation of the link are Match.v's satisfying
   (variable, key, transformed value) triples *)
Theorem b2_matches_are_spec X e st b lvl s s' mds : b2_agree e st -> b2_link_ok b = true ->
  Setvar.eval_link (b2_op X) e (bl_sv X b) lvl s = (s', mds) ->
  Permutation (map sv_triple mds) (map m_triple (spec_link_matches X st (bl_m b))).
Proof.
  intros Hag Hok H. unfold Setvar.eval_link in H. cbv zeta in H. unfold spec_link_matches.
  cbn [bl_sv Setvar.l_op] in H. unfold b2_lop in H. destruct (Match.l_kind (bl_m b)) as [svs|neg o].
  - injection H as _ <-. apply Permutation_refl.
  - destruct (Setvar.eval_targets (b2_op X) e (bl_sv X b) lvl o neg
                (map (b2_target X) (targets_of_items (Match.l_items (bl_m b)))) (link_prologue e (bl_sv X b) s) [])
      as [s1 acc] eqn:E.
    injection H as _ <-. apply (b2_eval_targets X e st b lvl o neg Hag _ Hok) in E.
    cbn [map] in E. rewrite app_nil_r in E. rewrite map_flat_map.
    etransitivity; [|exact E]. apply Permutation_map. apply Permutation_sym, Permutation_rev.
Qed.

(* ... and, by C01_link_matchdata_exact, the match data of Match.v's evaluation under any order oracle *)
(* a covered link reads none of the MATCHED_* variables *)
Lemma b2_link_ok_reads b : b2_link_ok b = true -> reads_mvar (bl_m b) = false.
Proof.
  unfold b2_link_ok, reads_mvar. intro H. rewrite forallb_forall in H.
  destruct (existsb _ _) eqn:E; [|reflexivity]. apply existsb_exists in E as [t [Ht Hm]].
  specialize (H t Ht). unfold b2_rtarget_ok in H. apply andb_true_iff in H as [H _]. apply andb_true_iff in H as [H _].
  destruct (rt_var t); discriminate.
Qed.

Theorem b2_matches_are_link_matches X ord e st b lvl s s' mds : b2_agree e st -> b2_link_ok b = true ->
  wf_state st -> ok_oracle ord -> s_excl st = [] (* no ctl:ruleRemoveTarget* ran: Setvar.v has none *) ->
  Setvar.eval_link (b2_op X) e (bl_sv X b) lvl s = (s', mds) ->
  Permutation (map sv_triple mds) (map m_triple (Match.link_matches X ord st (bl_m b))).
Proof.
  intros Hag Hok Hwf Hord Hex H. etransitivity; [eapply b2_matches_are_spec; eassumption|].
  apply Permutation_map, Permutation_sym, link_matches_spec; try assumption. apply b2_link_ok_reads; assumption.
Qed.

(* the number of matched values of the link does not depend on the Setvar.v state *)
Lemma b2_link_count X e st b lvl s : b2_agree e st -> b2_link_ok b = true ->
  List.length (snd (Setvar.eval_link (b2_op X) e (bl_sv X b) lvl s)) = b2_count X st b.
Proof.
  intros Hag Hok. destruct (Setvar.eval_link (b2_op X) e (bl_sv X b) lvl s) as [s' mds] eqn:E. cbn [snd].
  pose proof (Permutation_length (b2_matches_are_spec X e st b lvl s s' mds Hag Hok E)) as H.
  rewrite !map_length in H. exact H.
Qed.

(* ------------------------------------------------------------------------------------ *)
(* 4. once per C01-satisfying value                                                      *)
(* ------------------------------------------------------------------------------------ *)
Theorem b2_once_per_satisfying_value X e st b lvl s s' mds : b2_agree e st -> b2_link_ok b = true ->
  Setvar.eval_link (b2_op X) e (bl_sv X b) lvl s = (s', mds) ->
  exists new, s_trace s' = new ++ s_trace s /\
    forall i a, nth_error (Setvar.l_actions (bl_d b)) i = Some a -> is_nd a = true ->
                count_tag (lvl, i) (act_tags new) = List.length (spec_link_matches X st (bl_m b)).
Proof.
  intros Hag Hok H. destruct (once_per_match_link op (b2_op X) e (bl_sv X b) lvl s s' mds H) as (new & He & Hc).
  exists new. split; [exact He|]. intros i a Hi Ha. rewrite (Hc i a Hi Ha).
  pose proof (b2_link_count X e st b lvl s Hag Hok) as Hl. rewrite H in Hl. exact Hl.
Qed.

Lemma b2_chain_counts_eq X e st : b2_agree e st -> forall bs lvl s, forallb b2_link_ok bs = true ->
  chain_counts op (b2_op X) e (map (bl_sv X) bs) lvl s = b2_chain_counts X st bs.
Proof.
  intro Hag. induction bs as [|b bs IH]; intros lvl s Hok; [reflexivity|].
  cbn [forallb] in Hok. apply andb_true_iff in Hok as [Hb Hbs]. cbn [map chain_counts b2_chain_counts].
  pose proof (b2_link_count X e st b lvl s Hag Hb) as Hl.
  destruct (Setvar.eval_link (b2_op X) e (bl_sv X b) lvl s) as [s1 mds]. cbn [snd] in Hl. rewrite <- Hl.
  destruct mds; cbn [List.length Nat.eqb]; [reflexivity|]. rewrite IH by exact Hbs. reflexivity.
Qed.

Definition b2_all_match (X : sem) (st : state) (bs : list blink) : bool :=
  forallb (fun b => negb (Nat.eqb (b2_count X st b) 0)) bs.

Lemma b2_chain_complete X st : forall bs,
  chain_complete op (map (bl_sv X) bs) (b2_chain_counts X st bs) = b2_all_match X st bs.
Proof.
  unfold chain_complete, b2_all_match. induction bs as [|b bs IH]; [reflexivity|].
  cbn [map b2_chain_counts forallb]. destruct (Nat.eqb (b2_count X st b) 0) eqn:E.
  - cbn [forallb]. rewrite ?E. cbn [negb andb]. apply andb_false_r.
  - cbn [List.length Nat.eqb forallb]. rewrite ?E. cbn [negb andb]. rewrite <- IH.
    destruct (Nat.eqb (List.length (b2_chain_counts X st bs)) (List.length (map (bl_sv X) bs))); reflexivity.
Qed.

(* every link of the walk has a C01-satisfying value <-> C01's link_holds for every link *)
Lemma b2_all_match_holds X st bs : b2_all_match X st bs = true <-> Forall (fun b => link_holds X st (bl_m b)) bs.
Proof.
  unfold b2_all_match. rewrite forallb_forall, Forall_forall. split; intros H b Hb; specialize (H b Hb).
  - apply spec_link_nonempty. unfold b2_count in H. destruct (spec_link_matches X st (bl_m b)); [discriminate|discriminate].
  - apply spec_link_nonempty in H. unfold b2_count. destruct (spec_link_matches X st (bl_m b)); [contradiction|reflexivity].
Qed.

(* a whole rule (C09_starter_once_per_chain over Match.v's specification) *)
Theorem b2_rule_once_per_satisfying_value X e st r s : b2_agree e st -> br_ok r = true ->
  exists new, s_trace (Setvar.eval_rule (b2_op X) e (br_sv X r) s) = new ++ s_trace s /\
    (forall k b i a, nth_error (br_links r) k = Some b -> nth_error (Setvar.l_actions (bl_d b)) i = Some a -> is_nd a = true ->
       count_tag (k, i) (act_tags new) = nth k (b2_chain_counts X st (br_links r)) 0%nat) /\
    fd_events new =
      if b2_all_match X st (br_links r)
      then (if (Setvar.l_id (bl_d (br_head r)) =? 0)%Z then [] else [EvRuleMatched (Setvar.l_id (bl_d (br_head r)))])
           ++ rev (fd_names (Setvar.l_actions (bl_d (br_head r))))
      else [].
Proof.
  intros Hag Hok. destruct (once_per_match_rule op (b2_op X) e (br_sv X r) s) as (new & He & Hc & Hf).
  assert (Hcounts : rule_counts op (b2_op X) e (br_sv X r) s = b2_chain_counts X st (br_links r)).
  { unfold rule_counts. apply (b2_chain_counts_eq X e st Hag (br_links r) 0%nat s Hok). }
  exists new. split; [exact He|]. split.
  - intros k b i a Hk Hi Ha. rewrite <- Hcounts. apply (Hc k (bl_sv X b) i a); [|exact Hi|exact Ha].
    change (SetvarProofs.rule_links op (br_sv X r)) with (map (bl_sv X) (br_links r)).
    rewrite nth_error_map, Hk. reflexivity.
  - rewrite Hf, Hcounts. change (SetvarProofs.rule_links op (br_sv X r)) with (map (bl_sv X) (br_links r)).
    rewrite b2_chain_complete. reflexivity.
Qed.

(* ------------------------------------------------------------------------------------ *)
(* 5. the exact sum over Match.v's specification                                         *)
(* ------------------------------------------------------------------------------------ *)
Section Sum.
Variable X : sem.
Variable e : env.
Variable st : state.
Hypothesis Hag : b2_agree e st.
Variable f : Setvar.link op -> Z.

Lemma b2_chain_sum_eq : forall bs lvl s, forallb b2_link_ok bs = true ->
  chain_sum op (b2_op X) f e (map (bl_sv X) bs) lvl s = b2_chain_sum f X st bs.
Proof.
  induction bs as [|b bs IH]; intros lvl s Hok; [reflexivity|].
  cbn [forallb] in Hok. apply andb_true_iff in Hok as [Hb Hbs]. cbn [map chain_sum b2_chain_sum].
  pose proof (b2_link_count X e st b lvl s Hag Hb) as Hl.
  destruct (Setvar.eval_link (b2_op X) e (bl_sv X b) lvl s) as [s1 mds]. cbn [snd] in Hl. rewrite <- Hl.
  destruct mds; cbn [List.length Nat.eqb]; [reflexivity|]. rewrite IH by exact Hbs. reflexivity.
Qed.

Lemma b2_rule_sum_eq r s : br_ok r = true ->
  rule_sum op (b2_op X) f e (br_sv X r) s = b2_rule_sum f X st r.
Proof. intro Hok. unfold rule_sum, b2_rule_sum. apply (b2_chain_sum_eq (br_links r) 0%nat s Hok). Qed.

Lemma b2_rules_sum_eq phase : forall rs s, forallb br_ok rs = true ->
  rules_sum op (b2_op X) f e phase (map (br_sv X) rs) s = b2_rules_sum f X st e phase rs s.
Proof.
  induction rs as [|r rs IH]; intros s Hok; [reflexivity|].
  cbn [forallb] in Hok. apply andb_true_iff in Hok as [Hr Hrs]. cbn [map rules_sum b2_rules_sum].
  change (Setvar.r_phase (br_sv X r)) with (br_phase r).
  rewrite (b2_rule_sum_eq r _ Hr), !IH by exact Hrs. reflexivity.
Qed.

Lemma b2_phase_sum_eq rs s p : forallb br_ok rs = true ->
  phase_sum op (b2_op X) f e (map (br_sv X) rs) s p = b2_phase_sum f X st e rs s p.
Proof. intro Hok. unfold phase_sum, b2_phase_sum. rewrite b2_rules_sum_eq by exact Hok. reflexivity. Qed.

Lemma b2_phases_sum_eq rs : forallb br_ok rs = true -> forall ps s,
  phases_sum op (b2_op X) f e (map (br_sv X) rs) ps s = b2_phases_sum f X st e rs ps s.
Proof.
  intro Hok. induction ps as [|p ps IH]; intro s; [reflexivity|].
  cbn [phases_sum b2_phases_sum]. rewrite b2_phase_sum_eq, IH by exact Hok. reflexivity.
Qed.

Lemma b2_tx_sum_eq rs s : forallb br_ok rs = true ->
  tx_sum op (b2_op X) f e (map (br_sv X) rs) s = b2_tx_sum f X st e rs s.
Proof. intro Hok. unfold tx_sum, b2_tx_sum. apply b2_phases_sum_eq. exact Hok. Qed.
End Sum.

(* (3) C09_sum with the number of matches of every link given by Match.v's specification *)
Theorem b2_sum_over_c01_matches X e st c rs s z : has_nondigit c = true ->
  b2_agree e st -> forallb br_ok rs = true ->
  forallb (rule_ok op c) (map (br_sv X) rs) = true ->
  tx_counter (s_tx s) c = Some z ->
  (Z.abs z + b2_tx_sum (link_abs op c) X st e rs s < two63)%Z ->
  tx_counter (s_tx (Setvar.eval_tx (b2_op X) e (map (br_sv X) rs) s)) c =
    Some (z + b2_tx_sum (link_delta op c) X st e rs s)%Z.
Proof.
  intros Hc Hag Hok Hrok Hz Hb.
  rewrite <- (b2_tx_sum_eq X e st Hag (link_delta op c) rs s Hok).
  apply sum_exact; [exact Hc | exact Hrok | exact Hz |].
  unfold inb. rewrite (b2_tx_sum_eq X e st Hag (link_abs op c) rs s Hok). exact Hb.
Qed.

(* ------------------------------------------------------------------------------------ *)
(* 6. without interrupting actions the sum is a plain sum over phases, rules, links      *)
(* ------------------------------------------------------------------------------------ *)
Section Interrupted.
Variable opid : Type.
Variable op_eval : opid -> env -> Setvar.st -> bytes -> bool * list (N * bytes).

Lemma on_match_int e (l : Setvar.link opid) lvl known vn key value s :
  s_interrupted (on_match e l lvl known vn key value s) = s_interrupted s.
Proof.
  unfold on_match. destruct (run_nd_fields e (Setvar.l_id l) lvl (Setvar.l_actions l) 0
    (st_match_variable vn key value (if known then st_log (EvMatching (link_rid l) vn key) s else s)))
    as (_ & _ & _ & _ & H & _).
  cbn zeta in H. rewrite H. destruct known; reflexivity.
Qed.

Lemma apply_caps_int caps s : s_interrupted (apply_caps caps s) = s_interrupted s.
Proof. unfold apply_caps. destruct (s_capture s); reflexivity. Qed.

Lemma eval_cands_int e (l : Setvar.link opid) lvl o neg : forall cands s acc s' acc',
  eval_cands op_eval e l lvl o neg cands s acc = (s', acc') -> s_interrupted s' = s_interrupted s.
Proof.
  induction cands as [|[[vn key] carg] r IH]; intros s acc s' acc' H; cbn [eval_cands] in H.
  - inversion H; reflexivity.
  - destruct (op_eval o e s carg) as [res caps]. destruct (xorb res neg).
    + apply IH in H. rewrite H, on_match_int, apply_caps_int. reflexivity.
    + apply IH in H. rewrite H, apply_caps_int. reflexivity.
Qed.

Lemma eval_targets_int e (l : Setvar.link opid) lvl o neg : forall ts s acc s' acc',
  Setvar.eval_targets op_eval e l lvl o neg ts s acc = (s', acc') -> s_interrupted s' = s_interrupted s.
Proof.
  induction ts as [|t r IH]; intros s acc s' acc' H; cbn [Setvar.eval_targets] in H.
  - inversion H; reflexivity.
  - destruct (eval_cands op_eval e l lvl o neg (target_cands e l s t) s acc) as [s1 acc1] eqn:E.
    apply eval_cands_int in E. apply IH in H. congruence.
Qed.

Lemma link_prologue_int e (l : Setvar.link opid) s : s_interrupted (link_prologue e l s) = s_interrupted s.
Proof. unfold link_prologue. destruct (Setvar.l_msg l), (Setvar.l_logdata l); reflexivity. Qed.

Lemma eval_link_int e (l : Setvar.link opid) lvl s s' mds :
  Setvar.eval_link op_eval e l lvl s = (s', mds) -> s_interrupted s' = s_interrupted s.
Proof.
  unfold Setvar.eval_link. intro H. cbv zeta in H. destruct (Setvar.l_op l) as [[[ts o] neg]|].
  - destruct (Setvar.eval_targets op_eval e l lvl o neg ts (link_prologue e l s) []) as [s1 acc] eqn:E.
    apply eval_targets_int in E. inversion H; subst. rewrite E. apply link_prologue_int.
  - injection H as Hs Hm. subst s'. rewrite on_match_int. apply link_prologue_int.
Qed.

Lemma eval_chain_int e : forall links lvl s s' res,
  Setvar.eval_chain op_eval e links lvl s = (s', res) -> s_interrupted s' = s_interrupted s.
Proof.
  induction links as [|l r IH]; intros lvl s s' res H; cbn [Setvar.eval_chain] in H.
  - inversion H; reflexivity.
  - destruct (Setvar.eval_link op_eval e l lvl s) as [s1 mds] eqn:E. apply eval_link_int in E.
    destruct mds; [inversion H; subst; exact E|].
    destruct (Setvar.eval_chain op_eval e r (S lvl) s1) as [s2 rest] eqn:E2. apply IH in E2. inversion H; subst. congruence.
Qed.

Lemma run_flow_disr_int rid : forall acts s, b2_no_deny_acts acts = true ->
  s_interrupted (run_flow_disr rid acts s) = s_interrupted s.
Proof.
  induction acts as [|a r IH]; intros s H; [reflexivity|].
  cbn [b2_no_deny_acts forallb] in H. apply andb_true_iff in H as [Ha Hr]. cbn [run_flow_disr].
  destruct a as [name|sv|name d|name|name]; try (apply IH; exact Hr).
  - destruct d; [discriminate|]. rewrite IH by exact Hr. reflexivity.
  - rewrite IH by exact Hr. reflexivity.
Qed.

Lemma match_rule_int (l : Setvar.link opid) mds s : s_interrupted (match_rule l mds s) = s_interrupted s.
Proof. unfold match_rule. destruct (first_msg mds). reflexivity. Qed.

Lemma eval_rule_int e (r : Setvar.rule opid) s : b2_no_deny_acts (Setvar.l_actions (Setvar.r_head r)) = true ->
  s_interrupted (Setvar.eval_rule op_eval e r s) = s_interrupted s.
Proof.
  intro Hnd. unfold Setvar.eval_rule.
  destruct (Setvar.eval_chain op_eval e (Setvar.r_head r :: Setvar.r_chain r) 0 s) as [s2 res] eqn:E.
  apply eval_chain_int in E. destruct res as [all|]; [|exact E].
  destruct (Setvar.l_id (Setvar.r_head r) =? 0)%Z; [|rewrite match_rule_int]; rewrite run_flow_disr_int by exact Hnd; exact E.
Qed.

Lemma eval_rules_int e phase : forall rs s,
  forallb (fun r => b2_no_deny_acts (Setvar.l_actions (Setvar.r_head r))) rs = true ->
  s_interrupted s = None -> s_interrupted (Setvar.eval_rules op_eval e phase rs s) = None.
Proof.
  induction rs as [|r rs IH]; intros s Hnd Hs; [exact Hs|].
  cbn [forallb] in Hnd. apply andb_true_iff in Hnd as [Hr Hrs]. cbn [Setvar.eval_rules]. rewrite Hs.
  destruct (Setvar.r_phase r =? phase)%N; [|apply IH; assumption].
  apply IH; [exact Hrs|]. cbn [st_with_capture s_interrupted]. rewrite eval_rule_int by exact Hr. exact Hs.
Qed.

Lemma eval_phase_int e rs s phase :
  forallb (fun r => b2_no_deny_acts (Setvar.l_actions (Setvar.r_head r))) rs = true ->
  s_interrupted s = None -> s_interrupted (Setvar.eval_phase op_eval e rs s phase) = None.
Proof. intros Hnd Hs. unfold Setvar.eval_phase. rewrite Hs. apply eval_rules_int; assumption. Qed.
End Interrupted.

Lemma br_no_deny_sv X rs : forallb br_no_deny rs = true ->
  forallb (fun r => b2_no_deny_acts (Setvar.l_actions (Setvar.r_head r))) (map (br_sv X) rs) = true.
Proof. intro H. rewrite forallb_forall in *. intros r Hr. apply in_map_iff in Hr as (b & <- & Hb). apply (H b Hb). Qed.

Lemma b2_rules_sum_plain f X st e phase : forall rs s, forallb br_no_deny rs = true -> s_interrupted s = None ->
  b2_rules_sum f X st e phase rs s = b2_plain_phase_sum f X st rs phase.
Proof.
  unfold b2_plain_phase_sum. induction rs as [|r rs IH]; intros s Hnd Hs; [reflexivity|].
  cbn [forallb] in Hnd. apply andb_true_iff in Hnd as [Hr Hrs]. cbn [b2_rules_sum map fold_right]. rewrite Hs.
  destruct (br_phase r =? phase)%N.
  - rewrite IH; [reflexivity | exact Hrs|]. cbn [st_with_capture s_interrupted].
    rewrite eval_rule_int; [exact Hs | exact Hr].
  - rewrite IH by assumption. reflexivity.
Qed.

Lemma b2_phases_sum_plain f X st e rs : forallb br_no_deny rs = true -> forall ps s, s_interrupted s = None ->
  b2_phases_sum f X st e rs ps s = fold_right Z.add 0%Z (map (b2_plain_phase_sum f X st rs) ps).
Proof.
  intro Hnd. induction ps as [|p ps IH]; intros s Hs; [reflexivity|].
  cbn [b2_phases_sum map fold_right]. unfold b2_phase_sum. rewrite Hs.
  rewrite b2_rules_sum_plain by assumption. rewrite IH; [reflexivity|].
  apply eval_phase_int; [apply br_no_deny_sv; exact Hnd | exact Hs].
Qed.

Lemma b2_tx_sum_plain f X st e rs s : forallb br_no_deny rs = true -> s_interrupted s = None ->
  b2_tx_sum f X st e rs s = b2_plain_tx_sum f X st rs.
Proof. intros Hnd Hs. unfold b2_tx_sum, b2_plain_tx_sum. apply b2_phases_sum_plain; assumption. Qed.

(* (3'), the statement anomaly scoring relies on: no rule interrupts => final counter = initial +
   sum over phases 1..5, rules of the phase in configuration order, links reached by the chain walk,
   of (delta of the link's actions) x (number of C01-satisfying values of the link) *)
Theorem b2_sum_plain X e st c rs s z : has_nondigit c = true ->
  b2_agree e st -> forallb br_ok rs = true -> forallb br_no_deny rs = true -> s_interrupted s = None ->
  forallb (rule_ok op c) (map (br_sv X) rs) = true ->
  tx_counter (s_tx s) c = Some z ->
  (Z.abs z + b2_plain_tx_sum (link_abs op c) X st rs < two63)%Z ->
  tx_counter (s_tx (Setvar.eval_tx (b2_op X) e (map (br_sv X) rs) s)) c =
    Some (z + b2_plain_tx_sum (link_delta op c) X st rs)%Z.
Proof.
  intros Hc Hag Hok Hnd Hs Hrok Hz Hb.
  rewrite <- (b2_tx_sum_plain (link_delta op c) X st e rs s Hnd Hs).
  apply b2_sum_over_c01_matches; try assumption.
  rewrite (b2_tx_sum_plain (link_abs op c) X st e rs s Hnd Hs). exact Hb.
Qed.

(* ------------------------------------------------------------------------------------ *)
(* 7. executable checks: a small anomaly-scoring rule set                                *)
(* ------------------------------------------------------------------------------------ *)
Definition ex2_setvar (d : string) : action :=
  match setvar_init (str d) with Some a => ASetvar a | None => ANd (str "invalid setvar") end.

(* decoration of a link: id, parent id, chain flag, actions *)
Definition ex2_deco (id parent : Z) (haschain : bool) (acts : list action) : Setvar.link op :=
  {| Setvar.l_id := id; Setvar.l_logid := z_itoa (if (id =? 0)%Z then parent else id); Setvar.l_parent := parent;
     Setvar.l_op := None; Setvar.l_tfs := []; Setvar.l_multi := false; Setvar.l_capture := false;
     Setvar.l_haschain := haschain; Setvar.l_msg := None; Setvar.l_logdata := None; Setvar.l_sev := None;
     Setvar.l_actions := acts |}.

(* SecRule ARGS "@contains attack" "id:1,phase:1,pass,t:lowercase,setvar:tx.score=+5" *)
Definition ex2_r1 : brule :=
  {| br_phase := 1;
     br_head := {| bl_m := mk_link [TPos false Match.VArgs SelAll] (LRule false (mk_op Match.OpContains (str "attack"))) [TLowercase] false;
                   bl_d := ex2_deco 1 0 false [ANd (str "log"); ex2_setvar "tx.score=+5"; ADisr (str "pass") false] |};
     br_chain := [] |}.
(* SecRule REQUEST_HEADERS:User-Agent "@streq bad" "id:2,phase:1,pass,setvar:tx.score=+3" *)
Definition ex2_r2 : brule :=
  {| br_phase := 1;
     br_head := {| bl_m := mk_link [TPos false Match.VReqHeaders (SelStr (str "User-Agent"))] (LRule false (mk_op Match.OpStreq (str "bad"))) [] false;
                   bl_d := ex2_deco 2 0 false [ex2_setvar "tx.score=+3"; ADisr (str "pass") false] |};
     br_chain := [] |}.
(* SecRule ARGS_GET:a "@contains k" "id:3,phase:2,pass,chain,setvar:tx.score=+1"
     SecRule &ARGS "@gt 1" "setvar:tx.score=-2" *)
Definition ex2_r3 : brule :=
  {| br_phase := 2;
     br_head := {| bl_m := mk_link [TPos false Match.VArgsGet (SelStr (str "a"))] (LRule false (mk_op Match.OpContains (str "k"))) [] false;
                   bl_d := ex2_deco 3 0 true [ex2_setvar "tx.score=+1"; ADisr (str "pass") false; AFlow (str "chain")] |};
     br_chain := [{| bl_m := mk_link [TPos true Match.VArgs SelAll] (LRule false (mk_op Match.OpGt (str "1"))) [] false;
                     bl_d := ex2_deco 0 3 false [ex2_setvar "tx.score=-2"] |}] |}.
(* SecRule ARGS "!@streq ok" "id:4,phase:2,pass,multiMatch,t:lowercase,t:trim,setvar:tx.score=+10,setvar:tx.other=+1" *)
Definition ex2_r4 : brule :=
  {| br_phase := 2;
     br_head := {| bl_m := mk_link [TPos false Match.VArgs SelAll] (LRule true (mk_op Match.OpStreq (str "ok"))) [TLowercase; TTrim] true;
                   bl_d := ex2_deco 4 0 false [ex2_setvar "tx.score=+10"; ex2_setvar "tx.other=+1"; ADisr (str "pass") false] |};
     br_chain := [] |}.
Definition ex2_rules : list brule := [ex2_r1; ex2_r2; ex2_r3; ex2_r4].

(* GET /?a=ATTACK1&b=xattack&A=ok   User-Agent: bad *)
Definition ex2_req : request :=
  mk_request [(str "a", str "ATTACK1"); (str "b", str "xattack"); (str "A", str "ok")] []
             [(str "User-Agent", str "bad"); (str "Host", str "h")] [] (str "/") (str "GET") [].
Definition ex2_c : bytes := str "score".

(* the guards hold *)
Example ex2_guards :
  forallb br_ok ex2_rules = true /\ forallb br_no_deny ex2_rules = true /\
  forallb (rule_ok op ex2_c) (map (br_sv csem) ex2_rules) = true /\ has_nondigit ex2_c = true /\
  tx_counter (s_tx st_init) ex2_c = Some 0%Z.
Proof. vm_compute. repeat split. Qed.

(* number of C01-satisfying values per link, by Match.v's specification:
   rule 1: attack1, xattack; rule 2: bad; rule 3: ok / the count 3; rule 4 (multiMatch, negated):
   ATTACK1, attack1 / xattack (unchanged by lowercase and trim: once) / - (ok, ok) *)
Example ex2_counts :
  map (fun r => b2_chain_counts csem (build1 ex2_req) (br_links r)) ex2_rules = [[2]; [1]; [1; 1]; [3]]%nat.
Proof. vm_compute. reflexivity. Qed.

(* sum by the specification: 2*5 + 1*3 + (1*1 + 1*(-2)) + 3*10 = 42 *)
Example ex2_spec_sum : b2_plain_tx_sum (link_delta op ex2_c) csem (build1 ex2_req) ex2_rules = 42%Z.
Proof. vm_compute. reflexivity. Qed.

(* Setvar.v's evaluation of the translated rule set *)
Example ex2_final_counter :
  tx_counter (s_tx (Setvar.eval_tx (b2_op csem) (b2_env ex2_req) (map (br_sv csem) ex2_rules) st_init)) ex2_c = Some 42%Z.
Proof. vm_compute. reflexivity. Qed.

(* the matched values of rule 1 in both models (same order under the identity oracle) *)
Example ex2_matches_r1 :
  map sv_triple (snd (Setvar.eval_link (b2_op csem) (b2_env ex2_req) (bl_sv csem (br_head ex2_r1)) 0 st_init))
  = map m_triple (Match.link_matches csem ord_id (build1 ex2_req) (bl_m (br_head ex2_r1)))
  /\ map m_triple (Match.link_matches csem ord_id (build1 ex2_req) (bl_m (br_head ex2_r1)))
     = [(str "ARGS", str "a", str "attack1"); (str "ARGS", str "b", str "xattack")].
Proof. vm_compute. split; reflexivity. Qed.

(* TX / MATCHED_VAR targets are outside the guard (Setvar.v's variable table is smaller), but the
   two models AGREE on a link that lists MATCHED_VAR after another target (Match.v threads the
   MATCHED_* state between the targets of a link since the C01 follow-up, as rule.go does):
   SecRule ARGS_GET|MATCHED_VAR "@streq x" on ?a=x gives 2 matches in both *)
Definition ex2_mv_link : blink :=
  {| bl_m := mk_link [TPos false Match.VArgsGet SelAll; TPos false Match.VMatchedVar SelAll]
                     (LRule false (mk_op Match.OpStreq (str "x"))) [] false;
     bl_d := ex2_deco 9 0 false [] |}.
Definition ex2_mv_req : request := mk_request [(str "a", str "x")] [] [] [] (str "/") (str "GET") [].
Example b2_same_link_matched_var_agree :
  map sv_triple (snd (Setvar.eval_link (b2_op csem) (b2_env ex2_mv_req) (bl_sv csem ex2_mv_link) 0 st_init))
    = [(str "ARGS_GET", str "a", str "x"); (str "MATCHED_VAR", [], str "x")] /\
  map m_triple (Match.link_matches csem ord_id (build1 ex2_mv_req) (bl_m ex2_mv_link))
    = [(str "ARGS_GET", str "a", str "x"); (str "MATCHED_VAR", [], str "x")].
Proof. vm_compute. split; reflexivity. Qed.

(* the number of C01-satisfying values of a covered link is a function of the request: any two
   Match.v states describing the request of e (before / after other rules, MATCHED_VAR and TX
   changed) give the same number *)
Lemma b2_count_request_only X e st st' b : b2_agree e st -> b2_agree e st' -> b2_link_ok b = true ->
  b2_count X st b = b2_count X st' b.
Proof.
  intros H1 H2 Hok. rewrite <- (b2_link_count X e st b 0 st_init H1 Hok). apply (b2_link_count X e st' b 0 st_init H2 Hok).
Qed.
