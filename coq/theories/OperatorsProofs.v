From Verif Require Import Base Utf8 Operators.
Open Scope N_scope.

Lemma exec_operator_complement r : exec_operator true r = negb (exec_operator false r).
Proof. reflexivity. Qed.
