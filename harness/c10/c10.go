// Package c10 drives the correspondence for C10 (body buffering is byte-faithful; limits exact):
// call sequences over the real Transaction body API (WriteRequestBody / ReadRequestBodyFrom /
// ProcessRequestBody and the response twins) and over a bare BodyBuffer, every observable compared
// with the Gallina models BodyBuffer.v / TxBody.v, plus the property's own implementation-side
// oracles (memory/file agreement by re-running with the spill disabled, independent readers agree,
// stored bytes are the promised prefix of the supplied bytes, no spill file left after Close).
package c10

import (
	"bytes"
	"encoding/hex"
	"encoding/json"
	"fmt"
	"io"
	"math/rand"
	"os"
	"path/filepath"
	"strconv"
	"strings"

	"github.com/corazawaf/coraza/v3/internal/collections"
	"github.com/corazawaf/coraza/v3/internal/corazawaf"
	"github.com/corazawaf/coraza/v3/internal/seclang"
	"github.com/corazawaf/coraza/v3/types"
	"github.com/corazawaf/coraza/v3/verifharness/vh"
)

func init() { vh.Register("C10", Run) }

type callJ struct {
	K     string `json:"k"` // w (slice write) | r (reader) | p (process body) | c (ctl limit)
	N     int    `json:"n,omitempty"`
	Known bool   `json:"known,omitempty"`
	RS    int    `json:"rs,omitempty"`
	Z     int64  `json:"z,omitempty"`
}

type caseJ struct {
	Kind           string  `json:"kind"` // tx | buf
	Dir            string  `json:"dir,omitempty"`
	Limit          int64   `json:"limit"`
	Mem            int64   `json:"mem"`
	Action         string  `json:"action,omitempty"` // reject | partial
	NoAccess       bool    `json:"no_access,omitempty"`
	EngineOff      bool    `json:"engine_off,omitempty"`
	DetectionOnly  bool    `json:"detection_only,omitempty"`
	BP             string  `json:"bp,omitempty"` // none | urlencoded | raw | force
	NotProcessable bool    `json:"not_processable,omitempty"`
	Deny           bool    `json:"deny,omitempty"`
	Phase0         int     `json:"phase0"`
	BodyHex        string  `json:"body_hex,omitempty"`
	GenLen         int64   `json:"gen_len,omitempty"`
	GenSeed        int64   `json:"gen_seed,omitempty"`
	Calls          []callJ `json:"calls,omitempty"`
	Ops            []int   `json:"ops,omitempty"` // buf: n >= 0 write of the next n bytes, -1 Reset
	// observed (informative in replays)
	Rets       [][4]int64     `json:"obs_rets,omitempty"`
	Final      map[string]any `json:"obs_final,omitempty"`
	FindingKey string         `json:"finding_key,omitempty"`
}

// genBody mirrors CorrC10.gen_body.
func genBody(n, seed int64) []byte {
	b := make([]byte, n)
	step, a, k := 1+seed%250, seed%251, int64(250)
	for i := int64(0); i < n; i++ {
		b[i] = byte(a)
		a1 := a + step
		if k == 0 {
			a1++
			k = 250
		} else {
			k--
		}
		if a1 >= 251 {
			a1 -= 251
		}
		a = a1
	}
	return b
}

// hashBytes mirrors CorrC10.hash_bytes.
func hashBytes(s []byte) (int64, int64) {
	var h1, h2 uint64
	for _, c := range s {
		h1 += uint64(c) + 1
		h2 += h1
	}
	return int64(h1), int64(h2)
}

func (c *caseJ) body() []byte {
	if c.GenLen > 0 {
		return genBody(c.GenLen, c.GenSeed)
	}
	b, _ := hex.DecodeString(c.BodyHex)
	return b
}

// readers handed to Read...BodyFrom
type lenReader struct {
	data []byte
	rs   int
}

func (r *lenReader) Len() int { return len(r.data) }
func (r *lenReader) Read(p []byte) (int, error) {
	if len(r.data) == 0 {
		return 0, io.EOF
	}
	n := len(p)
	if r.rs > 0 && n > r.rs {
		n = r.rs
	}
	if n > len(r.data) {
		n = len(r.data)
	}
	copy(p, r.data[:n])
	r.data = r.data[n:]
	return n, nil
}

type plainReader struct{ in *lenReader } // no Len(): unknown length

func (r plainReader) Read(p []byte) (int, error) { return r.in.Read(p) }

func mkReader(chunk []byte, known bool, rs int) io.Reader {
	cp := append([]byte(nil), chunk...)
	if known {
		if rs == 0 {
			return bytes.NewReader(cp) // the stdlib reader connectors use
		}
		return &lenReader{data: cp, rs: rs}
	}
	if rs == 0 {
		return struct{ io.Reader }{bytes.NewReader(cp)}
	}
	return plainReader{&lenReader{data: cp, rs: rs}}
}

type env struct {
	base string
	wafs map[string]*wafEnv
	n    int
}

type wafEnv struct {
	waf *corazawaf.WAF
	tmp string
}

func (e *env) get(c *caseJ, mem int64) (*wafEnv, error) {
	key := fmt.Sprintf("%s|%d|%d|%s|%v|%v|%v|%v", c.Dir, c.Limit, mem, c.Action, c.NoAccess, c.EngineOff, c.Deny, c.DetectionOnly)
	if w, ok := e.wafs[key]; ok {
		return w, nil
	}
	if len(e.wafs) > 3000 {
		for _, w := range e.wafs {
			w.waf.Close()
		}
		e.wafs = map[string]*wafEnv{}
	}
	e.n++
	tmp := filepath.Join(e.base, fmt.Sprintf("w%d", e.n))
	if err := os.MkdirAll(tmp, 0o755); err != nil {
		return nil, err
	}
	waf := corazawaf.NewWAF()
	waf.TmpDir = tmp
	act := types.BodyLimitActionReject
	if c.Action == "partial" {
		act = types.BodyLimitActionProcessPartial
	}
	if c.EngineOff {
		waf.RuleEngine = types.RuleEngineOff
	} else if c.DetectionOnly {
		waf.RuleEngine = types.RuleEngineDetectionOnly
	}
	phase, v := 2, "REQUEST_BODY"
	if c.Dir == "resp" {
		phase, v = 4, "RESPONSE_BODY"
		waf.ResponseBodyAccess = !c.NoAccess
		waf.ResponseBodyLimit = c.Limit
		waf.ResponseBodyLimitAction = act
		waf.ResponseBodyMimeTypes = []string{"text/plain"}
		// the request in-memory limit is a setting of the same WAF, drawn independently of the
		// response limit (the default request limit, 128 MiB, is above every value used here)
		if mem > 0 {
			waf.SetRequestBodyInMemoryLimit(mem)
		}
	} else {
		waf.RequestBodyAccess = !c.NoAccess
		waf.RequestBodyLimit = c.Limit
		if mem > 0 {
			waf.SetRequestBodyInMemoryLimit(mem)
		}
		waf.RequestBodyLimitAction = act
	}
	rules := fmt.Sprintf("SecAction \"id:1,phase:%d,pass,nolog,setvar:tx.p=+1,setvar:tx.seen=x%%{%s}\"\n", phase, v)
	if c.Deny {
		rules += fmt.Sprintf("SecAction \"id:2,phase:%d,deny,status:403,nolog\"\n", phase)
	}
	// SecRuleEngine is set on the struct; the parser must not reset it
	if err := seclang.NewParser(waf).FromString(rules); err != nil {
		return nil, err
	}
	if err := waf.Validate(); err != nil {
		return nil, fmt.Errorf("Validate: %w", err)
	}
	w := &wafEnv{waf: waf, tmp: tmp}
	e.wafs[key] = w
	return w, nil
}

type obs struct {
	rets     [][4]int64
	panicked bool
	contents []byte
	size     int64
	bodyvar  string
	seen     *string
	dataerr  bool
	phase    int
	spilled  bool
	intr     int
	lenvar   string // REQUEST_BODY_LENGTH / RESPONSE_CONTENT_LENGTH
	// oracle material
	perCall   [][]byte // contents after each call (small cases only)
	fileInDir bool
	memLen    int
	readers   bool // independent readers agreed
	leftover  bool // spill file still present after Close
	closeErr  error
}

func spillFiles(dir string) int {
	ents, _ := os.ReadDir(dir)
	n := 0
	for _, e := range ents {
		if strings.HasPrefix(e.Name(), "body") {
			n++
		}
	}
	return n
}

func readAllSized(r io.Reader, sz int) []byte {
	var out []byte
	buf := make([]byte, sz)
	for i := 0; i < 1<<22; i++ {
		n, err := r.Read(buf)
		out = append(out, buf[:n]...)
		if err != nil || n == 0 {
			break
		}
	}
	return out
}

// drive runs one transaction-level case on the implementation.
func drive(e *env, c *caseJ, mem int64, perCall bool) (*obs, error) {
	w, err := e.get(c, mem)
	if err != nil {
		return nil, err
	}
	resp := c.Dir == "resp"
	body := c.body()
	tx := w.waf.NewTransaction()
	o := &obs{}
	if !resp {
		switch c.BP {
		case "urlencoded":
			tx.AddRequestHeader("Content-Type", "application/x-www-form-urlencoded")
		case "raw":
			tx.Variables().RequestBodyProcessor().(*collections.Single).Set("RAW")
		case "force":
			tx.ForceRequestBodyVariable = true
		}
		if c.Phase0 >= 1 {
			tx.ProcessRequestHeaders()
		}
	} else {
		if c.NotProcessable {
			tx.AddResponseHeader("Content-Type", "image/png")
		} else {
			tx.AddResponseHeader("Content-Type", "text/plain")
		}
		if c.Phase0 >= 1 && c.Phase0 < 3 {
			tx.ProcessRequestHeaders()
		}
		if c.Phase0 == 2 {
			tx.ProcessRequestBody()
		}
		if c.Phase0 >= 3 {
			tx.ProcessResponseHeaders(200, "HTTP/1.1")
		}
	}
	runs := func() int64 {
		v := tx.Variables().TX().Get("p")
		if len(v) == 0 {
			return 0
		}
		n, _ := strconv.Atoi(v[0])
		return int64(n)
	}
	reader := func() (io.Reader, error) {
		if resp {
			return tx.ResponseBodyReader()
		}
		return tx.RequestBodyReader()
	}
	pos := 0
	take := func(n int) []byte {
		if pos+n > len(body) {
			n = len(body) - pos
		}
		ch := body[pos : pos+n]
		pos += n
		return ch
	}
	one := func(k callJ) (ret [4]int64) {
		defer func() {
			if r := recover(); r != nil {
				ret = [4]int64{0, 0, 2, runs()}
				o.panicked = true
			}
		}()
		var it *types.Interruption
		var n int
		var err error
		switch k.K {
		case "w":
			ch := append([]byte(nil), take(k.N)...)
			if resp {
				it, n, err = tx.WriteResponseBody(ch)
			} else {
				it, n, err = tx.WriteRequestBody(ch)
			}
		case "r":
			rd := mkReader(take(k.N), k.Known, k.RS)
			if resp {
				it, n, err = tx.ReadResponseBodyFrom(rd)
			} else {
				it, n, err = tx.ReadRequestBodyFrom(rd)
			}
		case "p":
			if resp {
				it, err = tx.ProcessResponseBody()
			} else {
				it, err = tx.ProcessRequestBody()
			}
		case "c":
			if resp {
				tx.ResponseBodyLimit = k.Z
			} else {
				tx.RequestBodyLimit = k.Z
			}
		}
		st := int64(0)
		if it != nil {
			st = int64(it.Status)
		}
		ef := int64(0)
		if err != nil {
			ef = 1
		}
		return [4]int64{st, int64(n), ef, runs()}
	}
	for _, k := range c.Calls {
		r := one(k)
		o.rets = append(o.rets, r)
		if o.panicked {
			break
		}
		if perCall {
			rd, _ := reader()
			b, _ := io.ReadAll(rd)
			o.perCall = append(o.perCall, b)
		}
	}
	// final observables
	r1, _ := reader()
	r2, _ := reader()
	o.contents, _ = io.ReadAll(r1)
	r3, _ := reader()
	// two more independent readers with other read sizes, interleaved
	var b2, b3 []byte
	p2, p3 := make([]byte, 1), make([]byte, 3)
	d2, d3 := false, false
	for i := 0; i < 1<<22 && !(d2 && d3); i++ {
		if !d2 {
			n, err := r2.Read(p2)
			b2 = append(b2, p2[:n]...)
			d2 = err != nil || n == 0
		}
		if !d3 {
			n, err := r3.Read(p3)
			b3 = append(b3, p3[:n]...)
			d3 = err != nil || n == 0
		}
		if len(o.contents) > 4096 { // large bodies: bigger reads for the remaining part
			p2, p3 = make([]byte, 4099), make([]byte, 65537)
		}
	}
	o.readers = bytes.Equal(b2, o.contents) && bytes.Equal(b3, o.contents)
	o.size, o.memLen, o.spilled = tx.VerifC10BodyBufferState(resp)
	o.fileInDir = spillFiles(w.tmp) > 0
	vars := tx.Variables()
	if resp {
		o.bodyvar = vars.ResponseBody().Get()
		o.lenvar = vars.ResponseContentLength().Get()
		o.dataerr = vars.OutboundDataError().Get() == "1"
	} else {
		o.bodyvar = vars.RequestBody().Get()
		o.lenvar = vars.RequestBodyLength().Get()
		o.dataerr = vars.InboundDataError().Get() == "1"
	}
	if runs() > 0 {
		s := ""
		if v := vars.TX().Get("seen"); len(v) > 0 {
			s = strings.TrimPrefix(v[0], "x") // the rule stores "x" + body (a leading +/- would be read as arithmetic)
		}
		o.seen = &s
	}
	o.phase = int(tx.LastPhase())
	if it := tx.Interruption(); it != nil {
		o.intr = it.Status
	}
	o.closeErr = tx.Close()
	o.leftover = spillFiles(w.tmp) > 0
	if o.leftover { // do not let one failure cascade into every later case of this WAF
		ents, _ := os.ReadDir(w.tmp)
		for _, en := range ents {
			os.Remove(filepath.Join(w.tmp, en.Name()))
		}
	}
	return o, nil
}

func coqBool(b bool) string { return vh.Bool(b) }

func obytes(b []byte, large bool) string {
	if large {
		h1, h2 := hashBytes(b)
		return fmt.Sprintf("(OHash %s %s %s)", vh.N(int64(len(b))), vh.N(h1), vh.N(h2))
	}
	return "(OHex " + vh.Hx(b) + ")"
}

func (c *caseJ) term(o *obs) string {
	large := c.GenLen > 0
	dir := "Req"
	if c.Dir == "resp" {
		dir = "Resp"
	}
	act := "Reject"
	if c.Action == "partial" {
		act = "ProcessPartial"
	}
	bp := map[string]string{"": "BPnone", "none": "BPnone", "urlencoded": "BPurlencoded", "raw": "BPraw", "force": "BPforce"}[c.BP]
	body := "(BHex " + vh.Hx(c.body()) + ")"
	if large {
		body = fmt.Sprintf("(BGen %s %s)", vh.N(c.GenLen), vh.N(c.GenSeed))
	}
	var calls []string
	for _, k := range c.Calls {
		switch k.K {
		case "w":
			calls = append(calls, fmt.Sprintf("CW %s", natTerm(k.N)))
		case "r":
			calls = append(calls, fmt.Sprintf("CR %s %s %s", coqBool(k.Known), natTerm(k.RS), natTerm(k.N)))
		case "p":
			calls = append(calls, "CP")
		case "c":
			calls = append(calls, "CC "+vh.Z(k.Z))
		}
	}
	var rets []string
	for _, r := range o.rets {
		rets = append(rets, fmt.Sprintf("(%s, %s, %s, %s)", vh.Z(r[0]), vh.Z(r[1]), vh.Z(r[2]), vh.Z(r[3])))
	}
	seen := "None"
	if o.seen != nil {
		seen = "(Some " + obytes([]byte(*o.seen), large) + ")"
	}
	fin := fmt.Sprintf("(Build_ofinal %s %s %s %s %s %s %s %s %s)",
		obytes(o.contents, large), vh.Z(o.size), obytes([]byte(o.bodyvar), large), seen, coqBool(o.dataerr), vh.Z(int64(o.phase)), coqBool(o.spilled), vh.Z(int64(o.intr)), vh.HxS(o.lenvar))
	ctor := "CT"
	if c.DetectionOnly {
		ctor = "CTD"
	}
	return fmt.Sprintf(ctor+" %s %s %s %s %s %s %s %s %s %s %s %s %s %s", dir, vh.Z(c.Limit), vh.Z(c.Mem), act,
		coqBool(!c.NoAccess), coqBool(!c.EngineOff), bp, coqBool(!c.NotProcessable), coqBool(c.Deny), vh.Z(int64(c.Phase0)),
		body, vh.List(calls), vh.List(rets), fin)
}

// natTerm prints a nat; big values go through Z.to_nat so that no huge unary literal is parsed.
func natTerm(n int) string {
	if n <= 4000 {
		return vh.Nat(n)
	}
	return fmt.Sprintf("(Z.to_nat %s)", vh.Z(int64(n)))
}

func (c *caseJ) fill(o *obs) {
	c.Rets = o.rets
	c.Final = map[string]any{"size": o.size, "dataerr": o.dataerr, "phase": o.phase, "spilled": o.spilled, "intr": o.intr, "panicked": o.panicked, "lenvar": o.lenvar}
	if c.GenLen == 0 {
		c.Final["contents_hex"] = hex.EncodeToString(o.contents)
		c.Final["bodyvar_hex"] = hex.EncodeToString([]byte(o.bodyvar))
		if o.seen != nil {
			c.Final["seen_hex"] = hex.EncodeToString([]byte(*o.seen))
		}
	} else {
		c.Final["contents_len"] = len(o.contents)
		c.Final["bodyvar_len"] = len(o.bodyvar)
	}
}

type runner struct {
	e       *env
	res     *vh.Result
	terms   []string
	cases   []any
	seen    map[string]bool
	nontriv int
	oracle  int
}

func (r *runner) fail(key, what string, c any) {
	r.res.OracleFailures = append(r.res.OracleFailures, vh.OracleFailure{Key: key, What: what, Case: c})
}

func equalObs(a, b *obs) string {
	if len(a.rets) != len(b.rets) {
		return "number of returns"
	}
	for i := range a.rets {
		if a.rets[i] != b.rets[i] {
			return fmt.Sprintf("call %d returns %v vs %v", i, a.rets[i], b.rets[i])
		}
	}
	switch {
	case !bytes.Equal(a.contents, b.contents):
		return "reader contents"
	case a.size != b.size:
		return "size"
	case a.bodyvar != b.bodyvar:
		return "body variable"
	case (a.seen == nil) != (b.seen == nil) || (a.seen != nil && *a.seen != *b.seen):
		return "body variable seen by the rule"
	case a.dataerr != b.dataerr:
		return "data error flag"
	case a.phase != b.phase:
		return "last phase"
	case a.intr != b.intr:
		return "interruption"
	case a.lenvar != b.lenvar:
		return "body length variable"
	}
	return ""
}

func hasCtl(c *caseJ) bool {
	for _, k := range c.Calls {
		if k.K == "c" {
			return true
		}
	}
	return false
}

// runTx: implementation run + oracles + Coq term.
func (r *runner) runTx(c *caseJ) error {
	if c.Dir == "" {
		c.Dir = "req"
	}
	if c.Action == "" {
		c.Action = "reject"
	}
	// effective memory limit of the buffer: the response buffer is created with MemoryLimit = Limit
	// whatever the request in-memory limit is; an unset (<= 0) in-memory limit means the limit
	effMem := c.Mem
	if c.Dir == "resp" || c.Mem <= 0 {
		effMem = c.Limit
	}
	small := c.GenLen == 0 && len(c.BodyHex) <= 64
	o, err := drive(r.e, c, c.Mem, small)
	if err != nil {
		return err
	}
	c.fill(o)
	r.res.Evaluations++
	body := c.body()
	supplied := 0
	for _, k := range c.Calls {
		if k.K == "w" || k.K == "r" {
			supplied += k.N
		}
	}
	if supplied > len(body) {
		supplied = len(body)
	}
	active := !c.NoAccess && !c.EngineOff

	// ---- implementation-side oracles (the property's own statements, on the real code) ----
	r.oracle++
	if o.panicked {
		r.fail("c10-panic", "a body entry point panicked", c)
	}
	if !o.readers {
		r.fail("c10-readers-disagree", "independent readers over the body buffer returned different bytes", c)
	}
	if o.spilled != o.fileInDir {
		r.fail("c10-spill-dir", "spill flag and presence of a body* file in the tmp dir disagree", c)
	}
	if o.spilled && o.memLen != 0 {
		r.fail("c10-spill-mem", "memory buffer not emptied after the spill", c)
	}
	if o.spilled != (int64(len(o.contents)) > effMem) && !hasCtl(c) {
		r.fail("c10-spill-threshold", "spill file in use is not equivalent to stored length > memory limit", c)
	}
	if o.leftover || o.closeErr != nil {
		r.fail("c10-spill-file-left", fmt.Sprintf("spill file left after Close (err=%v)", o.closeErr), c)
	}
	if int64(len(o.contents)) != o.size {
		r.fail("c10-size", "reader yields a different number of bytes than the buffer length", c)
	}
	if active && !hasCtl(c) && !o.panicked {
		if int64(len(o.contents)) > c.Limit {
			r.fail("c10-beyond-limit", "more than limit bytes stored", c)
		}
		if c.Action == "partial" {
			want := body[:supplied]
			if int64(len(want)) > c.Limit {
				want = want[:c.Limit]
			}
			if !bytes.Equal(o.contents, want) {
				r.fail("c10-partial-prefix", "ProcessPartial: stored bytes are not the first min(limit,size) supplied bytes", c)
			}
			if o.dataerr != (int64(supplied) >= c.Limit) {
				r.fail("c10-dataerr", "data error flag is not equivalent to size >= limit", c)
			}
		} else {
			// Reject: up to and including the first refusal
			cum := int64(0)
			for i, k := range c.Calls {
				if i >= len(o.rets) {
					break
				}
				if k.K == "p" {
					continue
				}
				prev := cum
				cum += int64(k.N)
				if cum > int64(len(body)) {
					cum = int64(len(body))
				}
				refused := o.rets[i][0] != 0
				if !c.Deny && refused != (cum >= c.Limit) {
					r.fail("c10-reject-exact", fmt.Sprintf("Reject: call %d refused=%v but cumulative size %d vs limit %d", i, refused, cum, c.Limit), c)
					break
				}
				if refused && !c.Deny && o.rets[i][0] != map[string]int64{"req": 413, "resp": 500}[c.Dir] {
					r.fail("c10-reject-status", "wrong status of the body-limit rejection", c)
				}
				if small && i < len(o.perCall) {
					want := body[:cum]
					if cum >= c.Limit {
						if k.K == "r" && !k.Known {
							want = body[:c.Limit]
						} else {
							want = body[:prev]
						}
					}
					if !bytes.Equal(o.perCall[i], want) {
						r.fail("c10-reject-prefix", fmt.Sprintf("Reject: after call %d the stored bytes are not the promised prefix", i), c)
						break
					}
				}
				if cum >= c.Limit {
					break
				}
			}
		}
	}
	// memory/file agreement: the same sequence with the spill disabled (memory limit = limit)
	if c.Mem > 0 && c.Mem < c.Limit {
		r.oracle++
		o2, err := drive(r.e, c, c.Limit, false)
		if err != nil {
			return err
		}
		if d := equalObs(o, o2); d != "" {
			r.fail("c10-memory-file-agree", "in-memory and spilled runs differ in: "+d, c)
		}
	}

	// ---- distribution / non-triviality ----
	d := r.res.InputDistribution
	d["tx_"+c.Dir+"_"+c.Action]++
	if o.dataerr {
		d["limit_reached"]++
	}
	if o.spilled {
		d["spilled"]++
	}
	if len(o.rets) > 0 && c.Action == "reject" && o.intr != 0 && o.intr != 403 {
		d["refused"]++
	}
	if c.Action == "partial" && o.dataerr && o.seen != nil {
		d["partial_phase_ran"]++
	}
	if hasCtl(c) {
		d["with_ctl_limit"]++
	}
	if c.DetectionOnly {
		d["detection_only"]++
		if c.Deny {
			d["detection_only_with_deny_rule"]++
		}
	}
	if c.Dir == "resp" && c.Mem > 0 && int64(len(o.contents)) > c.Mem {
		d["resp_stored_above_request_inmem_limit"]++
	}
	if c.Mem <= 0 {
		d["inmem_limit_unset"]++
	}
	if !active {
		d["access_or_engine_off"]++
	}
	if c.GenLen > 0 {
		d["large_body"]++
	}
	for _, k := range c.Calls {
		switch {
		case k.K == "w":
			d["call_slice"]++
		case k.K == "r" && k.Known:
			d["call_reader_known"]++
		case k.K == "r":
			d["call_reader_unknown"]++
		case k.K == "p":
			d["call_process"]++
		}
	}
	switch {
	case int64(supplied) < c.Limit-1:
		d["size_below_limit"]++
	case int64(supplied) == c.Limit-1:
		d["size_limit_minus_1"]++
	case int64(supplied) == c.Limit:
		d["size_at_limit"]++
	default:
		d["size_above_limit"]++
	}
	key, _ := json.Marshal([]any{c.Dir, c.Limit, c.Mem, c.Action, c.NoAccess, c.EngineOff, c.BP, c.NotProcessable, c.Deny, c.Phase0, c.BodyHex, c.GenLen, c.GenSeed, c.Calls, c.DetectionOnly})
	if !r.seen[string(key)] {
		r.seen[string(key)] = true
		if active && supplied > 0 {
			r.nontriv++
		}
	}
	r.terms = append(r.terms, c.term(o))
	r.cases = append(r.cases, c)
	return nil
}

// runBuf: bare BodyBuffer case.
func (r *runner) runBuf(c *caseJ) error {
	tmp := filepath.Join(r.e.base, "buf")
	os.MkdirAll(tmp, 0o755)
	bb := corazawaf.NewBodyBuffer(types.BodyBufferOptions{TmpPath: tmp, MemoryLimit: c.Mem, Limit: c.Limit})
	body := c.body()
	pos := 0
	var rets []string
	var jr [][4]int64
	for _, op := range c.Ops {
		if op < 0 {
			err := bb.Reset()
			if err != nil || spillFiles(tmp) > 0 {
				r.fail("c10-spill-file-left", "BodyBuffer.Reset left the spill file or failed", c)
			}
			rets = append(rets, "(0%Z, false)")
			jr = append(jr, [4]int64{0, 0, 0, 0})
			continue
		}
		n := op
		if pos+n > len(body) {
			n = len(body) - pos
		}
		w, err := bb.Write(append([]byte(nil), body[pos:pos+n]...))
		pos += n
		rets = append(rets, fmt.Sprintf("(%s, %s)", vh.Z(int64(w)), coqBool(err != nil)))
		e := int64(0)
		if err != nil {
			e = 1
		}
		jr = append(jr, [4]int64{int64(w), e, 0, 0})
	}
	rd, _ := bb.Reader()
	contents, _ := io.ReadAll(rd)
	rd2, _ := bb.Reader()
	if !bytes.Equal(readAllSized(rd2, 2), contents) {
		r.fail("c10-readers-disagree", "independent readers over the body buffer returned different bytes", c)
	}
	var wt bytes.Buffer
	if _, err := bb.WriteTo(&wt); err == nil || len(contents) > 0 {
		_ = wt // WriteTo is unused by the library (reads from the file's current offset); not compared
	}
	size, memLen, spilled := bb.VerifC10State()
	if spilled && memLen != 0 {
		r.fail("c10-spill-mem", "memory buffer not emptied after the spill", c)
	}
	if size != bb.Size() {
		r.fail("c10-size", "Size() differs from the length field", c)
	}
	bb.Reset()
	if spillFiles(tmp) > 0 {
		r.fail("c10-spill-file-left", "BodyBuffer.Reset left the spill file", c)
	}
	c.Rets = jr
	c.Final = map[string]any{"contents_hex": hex.EncodeToString(contents), "size": size, "spilled": spilled}
	r.res.Evaluations++
	r.oracle++
	r.res.InputDistribution["buf"]++
	if spilled {
		r.res.InputDistribution["buf_spilled"]++
	}
	key, _ := json.Marshal([]any{"buf", c.Limit, c.Mem, c.BodyHex, c.Ops})
	if !r.seen[string(key)] {
		r.seen[string(key)] = true
		if len(contents) > 0 {
			r.nontriv++
		}
	}
	var ops []string
	for _, op := range c.Ops {
		if op < 0 {
			ops = append(ops, "BR")
		} else {
			ops = append(ops, "BW "+natTerm(op))
		}
	}
	r.terms = append(r.terms, fmt.Sprintf("CB %s %s %s %s %s %s %s %s", vh.Z(c.Limit), vh.Z(c.Mem), vh.Hx(body), vh.List(ops),
		vh.List(rets), vh.Hx(contents), vh.Z(size), coqBool(spilled)))
	r.cases = append(r.cases, c)
	return nil
}

func (r *runner) runDoc(doc json.RawMessage) error {
	var c caseJ
	if err := json.Unmarshal(doc, &c); err != nil {
		return nil
	}
	c.Rets, c.Final = nil, nil
	if c.Kind == "buf" {
		return r.runBuf(&c)
	}
	return r.runTx(&c)
}

// compositions of n into positive parts
func compositions(n int) [][]int {
	if n == 0 {
		return [][]int{{}}
	}
	var out [][]int
	for first := 1; first <= n; first++ {
		for _, rest := range compositions(n - first) {
			out = append(out, append([]int{first}, rest...))
		}
	}
	return out
}

var alphabet = []byte("ab&=%+c\x00\xff1 ;d")

func randBody(rng *rand.Rand, n int) string {
	b := make([]byte, n)
	for i := range b {
		if rng.Intn(6) == 0 {
			b[i] = byte(rng.Intn(256))
		} else {
			b[i] = alphabet[rng.Intn(len(alphabet))]
		}
	}
	return hex.EncodeToString(b)
}

// secondary dimensions drawn at random on top of an exhaustive core
func decorate(rng *rand.Rand, c *caseJ, calls []callJ) {
	if c.Dir == "req" {
		c.BP = []string{"urlencoded", "urlencoded", "raw", "force", "none"}[rng.Intn(5)]
		c.Phase0 = 1
		if rng.Intn(12) == 0 {
			c.Phase0 = 0
		}
	} else {
		c.NotProcessable = rng.Intn(8) == 0
		c.Phase0 = 3
		if rng.Intn(12) == 0 {
			c.Phase0 = []int{0, 1, 2}[rng.Intn(3)]
		}
	}
	c.Deny = rng.Intn(8) == 0
	if rng.Intn(40) == 0 {
		c.NoAccess = true
	}
	if rng.Intn(40) == 0 {
		c.EngineOff = true
		c.Phase0 = 0
	}
	// empty chunks
	if rng.Intn(6) == 0 {
		i := rng.Intn(len(calls) + 1)
		k := callJ{K: "w"}
		if rng.Intn(2) == 0 {
			k = callJ{K: "r", Known: rng.Intn(2) == 0}
		}
		calls = append(calls[:i:i], append([]callJ{k}, calls[i:]...)...)
	}
	// the connector's explicit body-phase call: usually at the end, sometimes early, sometimes twice
	switch x := rng.Intn(10); {
	case x < 7:
		calls = append(calls, callJ{K: "p"})
	case x == 7:
		i := rng.Intn(len(calls) + 1)
		calls = append(calls[:i:i], append([]callJ{{K: "p"}}, calls[i:]...)...)
		calls = append(calls, callJ{K: "p"})
	}
	for i := range calls {
		if calls[i].K == "r" && rng.Intn(2) == 0 {
			calls[i].RS = 1 + rng.Intn(2)
		}
	}
	c.Calls = calls
}

func Run(cfg vh.Config) (*vh.Result, error) {
	res := &vh.Result{InputDistribution: map[string]int{}}
	res.Rule = "call sequences through the real Transaction body API (and a bare BodyBuffer): exhaustive core grid limit x memory limit x action x every composition of every body length into chunks x {slice, reader with Len, reader without Len} per chunk, with body processor / deny rule / phases / empty chunks / explicit ProcessBody position / read size drawn at random; random medium sequences with ctl limit changes; large bodies around 131072/524288; a case is non-trivial when access and engine are on and at least one byte is supplied; distinct = distinct (configuration, body, call list)"
	base, err := os.MkdirTemp("", "verif-c10-")
	if err != nil {
		return nil, err
	}
	defer os.RemoveAll(base)
	r := &runner{e: &env{base: base, wafs: map[string]*wafEnv{}}, res: res, seen: map[string]bool{}}
	rng := vh.Rng(cfg.Seed, "c10")

	if cfg.Replay != "" {
		b, err := os.ReadFile(cfg.Replay)
		if err != nil {
			return nil, err
		}
		var rp struct {
			Case json.RawMessage `json:"case"`
		}
		if json.Unmarshal(b, &rp) == nil && rp.Case != nil {
			err = r.runDoc(rp.Case)
		} else {
			err = r.runDoc(b)
		}
		if err != nil {
			return nil, err
		}
	} else {
		docs, _ := vh.LoadCorpus(cfg.Corpus)
		for _, d := range docs {
			if err := r.runDoc(d); err != nil {
				return nil, err
			}
		}
		res.InputDistribution["corpus"] = len(docs)
		if err := generate(cfg, rng, r); err != nil {
			return nil, err
		}
		res.Exhaustive = true
		res.Notes = append(res.Notes, "exhaustive on the stated core grid only; secondary dimensions are sampled")
	}
	res.OracleEvaluations = r.oracle
	res.DistinctNontrivial = r.nontriv

	// shards: small cases 2500 per shard; large-body cases 3 per shard (they cost seconds each)
	var smallIdx, largeIdx []int
	for i, c := range r.cases {
		if cj, ok := c.(*caseJ); ok && cj.GenLen > 0 {
			largeIdx = append(largeIdx, i)
		} else {
			smallIdx = append(smallIdx, i)
		}
	}
	k := 0
	emit := func(idx []int, per int) error {
		for i := 0; i < len(idx); i += per {
			j := i + per
			if j > len(idx) {
				j = len(idx)
			}
			var ts []string
			var cs []any
			for _, x := range idx[i:j] {
				ts = append(ts, r.terms[x])
				cs = append(cs, r.cases[x])
			}
			info, err := vh.WriteShard(cfg.OutDir, vh.Shard{
				Name: fmt.Sprintf("C10_%d", k), Imports: "From Verif Require Import Base BodyBuffer TxBody CorrC10.\nOpen Scope Z_scope.",
				CaseType: "CorrC10.case", MismatchF: "CorrC10.mismatches", Terms: ts, Cases: cs,
			})
			if err != nil {
				return err
			}
			res.Shards = append(res.Shards, info)
			k++
		}
		return nil
	}
	if err := emit(largeIdx, 3); err != nil {
		return nil, err
	}
	if err := emit(smallIdx, cfg.Pick(1000, 4000)); err != nil {
		return nil, err
	}
	for i := 0; i < len(r.cases) && len(res.Samples) < 6; i += 1 + len(r.cases)/6 {
		res.Samples = append(res.Samples, r.cases[i])
	}
	return res, nil
}

func generate(cfg vh.Config, rng *rand.Rand, r *runner) error {
	modes := []callJ{{K: "w"}, {K: "r", Known: true}, {K: "r", Known: false}}
	// all assignments of a mode to each part of a composition
	var assign func(parts []int, i int, cur []callJ, f func([]callJ) error) error
	assign = func(parts []int, i int, cur []callJ, f func([]callJ) error) error {
		if i == len(parts) {
			return f(append([]callJ(nil), cur...))
		}
		for _, m := range modes {
			m.N = parts[i]
			if err := assign(parts, i+1, append(cur, m), f); err != nil {
				return err
			}
		}
		return nil
	}
	// sampled: one random mode assignment per composition
	sample := func(parts []int) []callJ {
		var calls []callJ
		for _, n := range parts {
			m := modes[rng.Intn(3)]
			m.N = n
			calls = append(calls, m)
		}
		return calls
	}
	grid := func(dir string, maxLimit, fullLen, sampledLen int) error {
		for limit := 1; limit <= maxLimit; limit++ {
			for mem := 1; mem <= limit; mem++ {
				if dir == "resp" && mem != limit {
					continue // for responses the in-memory limit is not a grid dimension: drawn per case below
				}
				for _, act := range []string{"reject", "partial"} {
					for n := 0; n <= sampledLen; n++ {
						for _, parts := range compositions(n) {
							mk := func(calls []callJ) error {
								c := &caseJ{Kind: "tx", Dir: dir, Limit: int64(limit), Mem: int64(mem), Action: act, BodyHex: randBody(rng, n)}
								if dir == "resp" {
									// SecRequestBodyInMemoryLimit independent of the response limit: below, at, above, unset
									c.Mem = int64(rng.Intn(limit + 3))
								}
								decorate(rng, c, calls)
								return r.runTx(c)
							}
							var err error
							if n <= fullLen {
								err = assign(parts, 0, nil, mk)
							} else {
								err = mk(sample(parts))
							}
							if err != nil {
								return err
							}
						}
					}
				}
			}
		}
		return nil
	}
	// 1. exhaustive core grid, request direction: limit x memory limit x action x every composition of
	//    every body length <= fullLen x every mode per chunk; lengths up to sampledLen with one random
	//    mode assignment per composition
	if err := grid("req", cfg.Pick(4, 5), cfg.Pick(4, 6), cfg.Pick(6, 8)); err != nil {
		return err
	}
	// 2. the same for the response direction
	if err := grid("resp", cfg.Pick(4, 5), cfg.Pick(3, 6), cfg.Pick(5, 8)); err != nil {
		return err
	}
	// 3. random medium sequences, with ctl limit changes in a part of them
	for i := 0; i < cfg.Pick(1200, 40000); i++ {
		limit := int64(1 + rng.Intn(40))
		if rng.Intn(4) == 0 {
			limit = int64(1 + rng.Intn(300))
		}
		mem := 1 + rng.Int63n(limit)
		c := &caseJ{Kind: "tx", Dir: "req", Limit: limit, Mem: mem, Action: []string{"reject", "partial"}[rng.Intn(2)]}
		if rng.Intn(3) == 0 {
			c.Dir = "resp"
			// the in-memory limit may also exceed the response limit
			if rng.Intn(4) == 0 {
				c.Mem = limit + 1 + rng.Int63n(limit+1)
			}
		}
		if rng.Intn(12) == 0 {
			c.Mem = 0 // SecRequestBodyInMemoryLimit not configured
		}
		// total size around the limit
		total := int(limit) + rng.Intn(7) - 3
		if rng.Intn(4) == 0 {
			total = rng.Intn(2*int(limit) + 2)
		}
		if total < 0 {
			total = 0
		}
		c.BodyHex = randBody(rng, total)
		var calls []callJ
		left := total
		for left > 0 {
			n := 1 + rng.Intn(left)
			if rng.Intn(3) == 0 {
				n = 1 + rng.Intn(3)
				if n > left {
					n = left
				}
			}
			m := modes[rng.Intn(3)]
			m.N = n
			calls = append(calls, m)
			left -= n
		}
		decorate(rng, c, calls)
		if rng.Intn(5) == 0 && len(c.Calls) > 0 {
			// ctl limit change between calls: below / at / above the buffered size, negative, above the buffer's limit
			z := []int64{limit - 1, limit + 1, int64(rng.Intn(int(limit) + 2)), -1, 0, 2 * limit, limit}[rng.Intn(7)]
			j := rng.Intn(len(c.Calls) + 1)
			c.Calls = append(c.Calls[:j:j], append([]callJ{{K: "c", Z: z}}, c.Calls[j:]...)...)
		}
		if err := r.runTx(c); err != nil {
			return err
		}
	}
	// 4. bare BodyBuffer: exhaustive small grid (memory limit may exceed the limit here), with resets
	maxB := cfg.Pick(4, 7)
	for limit := 1; limit <= 4; limit++ {
		for mem := 0; mem <= 5; mem++ {
			for n := 0; n <= maxB; n++ {
				for _, parts := range compositions(n) {
					ops := append([]int(nil), parts...)
					switch rng.Intn(5) {
					case 0:
						j := rng.Intn(len(ops) + 1)
						ops = append(ops[:j:j], append([]int{-1}, ops[j:]...)...)
					case 1:
						j := rng.Intn(len(ops) + 1)
						ops = append(ops[:j:j], append([]int{0}, ops[j:]...)...)
					}
					c := &caseJ{Kind: "buf", Limit: int64(limit), Mem: int64(mem), BodyHex: randBody(rng, n), Ops: ops}
					if err := r.runBuf(c); err != nil {
						return err
					}
				}
			}
		}
	}
	// 5. large bodies around the recommended thresholds (SecRequestBodyInMemoryLimit 131072,
	//    SecResponseBodyLimit 524288); contents compared by length + hash of a generated pattern
	type big struct {
		dir        string
		limit, mem int64
	}
	bigs := []big{{"req", 524288, 131072}, {"req", 262144, 131072}, {"req", 131072, 131072}, {"resp", 524288, 131072}}
	for i := 0; i < cfg.Pick(6, 48); i++ {
		b := bigs[i%len(bigs)]
		act := []string{"reject", "partial"}[(i/len(bigs))%2]
		// total size at a threshold +- 1, or random
		th := []int64{b.mem, b.limit}[rng.Intn(2)]
		total := th + int64(rng.Intn(3)) - 1
		if rng.Intn(4) == 0 {
			total = rng.Int63n(b.limit + 70000)
		}
		c := &caseJ{Kind: "tx", Dir: b.dir, Limit: b.limit, Mem: b.mem, Action: act, GenLen: total, GenSeed: int64(rng.Intn(1000)),
			BP: []string{"urlencoded", "raw"}[rng.Intn(2)], Phase0: map[string]int{"req": 1, "resp": 3}[b.dir]}
		left := int(total)
		for left > 0 {
			n := []int{1, 4096, 32768, 32769, 65536, 100000, left}[rng.Intn(7)]
			// a chunk that ends exactly at / one before / one after a threshold
			if rng.Intn(3) == 0 {
				done := int(total) - left
				for _, t := range []int64{b.mem, b.limit} {
					if int64(done) < t-1 {
						n = int(t) - done + rng.Intn(3) - 1
						break
					}
				}
			}
			if n > left {
				n = left
			}
			if n < 1 {
				n = 1
			}
			m := modes[rng.Intn(3)]
			m.N = n
			if m.K == "r" && rng.Intn(3) == 0 {
				m.RS = []int{1000, 32768, 50000}[rng.Intn(3)]
			}
			c.Calls = append(c.Calls, m)
			left -= n
		}
		c.Calls = append(c.Calls, callJ{K: "p"})
		if err := r.runTx(c); err != nil {
			return err
		}
	}
	// 6. RuleEngine DetectionOnly (own PRNG stream, appended after every earlier family): both
	//    directions, both actions, sizes around the limit, half of the cases with a deny rule in the
	//    body phase (it must not interrupt; the Reject limit action still does)
	rng2 := vh.Rng(cfg.Seed, "C10-growth2")
	for i := 0; i < cfg.Pick(400, 8000); i++ {
		limit := int64(1 + rng2.Intn(24))
		mem := 1 + rng2.Int63n(limit)
		c := &caseJ{Kind: "tx", Dir: []string{"req", "resp"}[rng2.Intn(2)], Limit: limit, Mem: mem,
			Action: []string{"reject", "partial"}[rng2.Intn(2)], DetectionOnly: true}
		total := int(limit) + rng2.Intn(7) - 3
		if total < 0 {
			total = 0
		}
		c.BodyHex = randBody(rng2, total)
		var calls []callJ
		left := total
		for left > 0 {
			n := 1 + rng2.Intn(left)
			m := modes[rng2.Intn(3)]
			m.N = n
			calls = append(calls, m)
			left -= n
		}
		decorate(rng2, c, calls)
		c.EngineOff = false
		c.Deny = rng2.Intn(2) == 0
		if c.Phase0 == 0 {
			c.Phase0 = map[string]int{"req": 1, "resp": 3}[c.Dir]
		}
		if err := r.runTx(c); err != nil {
			return err
		}
	}
	return nil
}
