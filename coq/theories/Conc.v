(* Conc.v — C06: a WAF is safe to share.  Executable interleaving models (no proofs here).

   What is modelled (each step is one atomic action; a schedule is the list of thread
   indices the scheduler picks; theorems in ConcProofs.v quantify over ALL schedules):

   1. gm_*  : the transaction system.  k transactions on one WAF; shared state = the WAF
              (internal/corazawaf/waf.go: "All WAF instance fields are immutable"), the heap of
              pooled Transaction objects, the txPool (internal/sync/pool_std.go Get/Put; the
              object handed out by Get is chosen by the SCHEDULE, as sync.Pool does not promise an
              order), the audit log.  A step may, in the machine, return a modified WAF: that it
              does not is a HYPOTHESIS of the independence theorem, discharged for the model of
              the exclusion merge below and tied to the code by the generated footprint facts
              (coq/gen/FactsC06.v, obligation shared_writes_justified).
   2. cc_*  : Go slices (region, backing array, len, cap), append with / without the full slice
              expression, and rule.go doEvaluate's per-transaction exclusion merge
              `v.Exceptions = append(v.Exceptions[:len:len], ...)` followed by GetField's read
              (transaction.go GetField: exception filter).  cc_eval false is the code before
              commit 9f1a0e9 (F27): the append writes the shared rule's backing array.
   3. it_*  : the transformation-id intern table (rule.go transformationID, one atomic step per
              call as transformationIDsLock makes it; key = (id of the prefix, name)).
   4. mm_*  : internal/memoize/sync.go Do / Release with their real step structure: cache.Load,
              addOwner under e.mu, singleflight enter / leader / waiter / finish, fn + Store, the
              post-registration, Release's Range visit = pick the entry, then the critical section.
   5. au_*  : internal/auditlog/serial_writer.go: log.Logger.Println is one atomic append of
              record ++ "\n" (the Logger's mutex + one Write call per record). *)
From Verif Require Import Base.
From Coq Require Import Arith PeanoNat.
Open Scope nat_scope.

(* ------------------------------------------------------------------------------------------ *)
(* list helpers                                                                                 *)
(* ------------------------------------------------------------------------------------------ *)
Fixpoint cset_nth {A} (l : list A) (i : nat) (x : A) : list A :=
  match l, i with
  | [], _ => []
  | _ :: r, O => x :: r
  | y :: r, S j => y :: cset_nth r j x
  end.

Fixpoint cremove_nth {A} (l : list A) (i : nat) : list A :=
  match l, i with
  | [], _ => []
  | _ :: r, O => r
  | y :: r, S j => y :: cremove_nth r j
  end.

Fixpoint citerate {A} (n : nat) (f : A -> A) (x : A) : A :=
  match n with O => x | S m => citerate m f (f x) end.

(* association lists nat -> nat (sync.Map, singleflight's map) *)
Fixpoint al_get (m : list (nat * nat)) (k : nat) : option nat :=
  match m with
  | [] => None
  | (k', a) :: r => if k' =? k then Some a else al_get r k
  end.
Fixpoint al_del (m : list (nat * nat)) (k : nat) : list (nat * nat) :=
  match m with
  | [] => []
  | (k', a) :: r => if k' =? k then al_del r k else (k', a) :: al_del r k
  end.
Definition al_set (m : list (nat * nat)) (k a : nat) : list (nat * nat) := (k, a) :: al_del m k.

(* ------------------------------------------------------------------------------------------ *)
(* 1. the transaction system                                                                    *)
(* ------------------------------------------------------------------------------------------ *)
Section GM.
  Variables W Inp Act Cont Rec : Type.
  Variable init : W -> Inp -> Cont -> Cont.             (* WAF.newTransaction applied to the object Get hands out (last argument: what the
                                                           recycled - or brand-new - object holds). That every observable field
                                                           is reassigned whatever it held is a HYPOTHESIS of the theorems (init_reset),
                                                           discharged for the settings machine st_* below; see also C05 *)
  Variable eval : W -> Inp -> Act -> Cont -> W * Cont.   (* one evaluation action on the transaction's own object *)
  Variable render : Cont -> Rec.                        (* the audit record of the transaction *)

  Inductive gm_instr := TNew | TAct (a : Act) | TLog | TClose.

  Record gm_sh := mk_gm_sh {
    s_waf : W;
    s_objs : nat -> Cont;       (* heap of Transaction objects, by address *)
    s_next : nat;               (* next never-used address (sync.Pool New) *)
    s_pool : list nat;          (* objects currently in txPool *)
    s_log : list Rec }.

  Record gm_lo := mk_gm_lo {
    l_inp : Inp;
    l_pc : list gm_instr;
    l_obj : option nat;         (* the Transaction object this transaction holds between New and Close *)
    l_out : option Cont }.      (* what the caller read from the transaction before Close *)

  Definition gm_upd (f : nat -> Cont) (o : nat) (c : Cont) : nat -> Cont :=
    fun x => if x =? o then c else f x.

  (* one atomic step of one transaction; ch = which pooled object Get hands out (if any) *)
  Definition gm_tstep (ch : nat) (s : gm_sh) (l : gm_lo) : gm_sh * gm_lo :=
    match l_pc l with
    | [] => (s, l)
    | TNew :: pc =>
      match nth_error (s_pool s) ch with
      | Some o =>
        (mk_gm_sh (s_waf s) (gm_upd (s_objs s) o (init (s_waf s) (l_inp l) (s_objs s o))) (s_next s)
                  (cremove_nth (s_pool s) ch) (s_log s),
         mk_gm_lo (l_inp l) pc (Some o) (l_out l))
      | None =>
        (mk_gm_sh (s_waf s) (gm_upd (s_objs s) (s_next s) (init (s_waf s) (l_inp l) (s_objs s (s_next s)))) (S (s_next s))
                  (s_pool s) (s_log s),
         mk_gm_lo (l_inp l) pc (Some (s_next s)) (l_out l))
      end
    | TAct a :: pc =>
      match l_obj l with
      | Some o =>
        let '(w', c') := eval (s_waf s) (l_inp l) a (s_objs s o) in
        (mk_gm_sh w' (gm_upd (s_objs s) o c') (s_next s) (s_pool s) (s_log s),
         mk_gm_lo (l_inp l) pc (l_obj l) (l_out l))
      | None => (s, mk_gm_lo (l_inp l) pc None (l_out l))
      end
    | TLog :: pc =>
      match l_obj l with
      | Some o =>
        (mk_gm_sh (s_waf s) (s_objs s) (s_next s) (s_pool s) (s_log s ++ [render (s_objs s o)]),
         mk_gm_lo (l_inp l) pc (l_obj l) (l_out l))
      | None => (s, mk_gm_lo (l_inp l) pc None (l_out l))
      end
    | TClose :: pc =>
      match l_obj l with
      | Some o =>
        (mk_gm_sh (s_waf s) (s_objs s) (s_next s) (o :: s_pool s) (s_log s),
         mk_gm_lo (l_inp l) pc None (Some (s_objs s o)))
      | None => (s, mk_gm_lo (l_inp l) pc None (l_out l))
      end
    end.

  (* the scheduler picks transaction i (and the pool's choice ch) *)
  Definition gm_sys_step (st : gm_sh * list gm_lo) (x : nat * nat) : gm_sh * list gm_lo :=
    let '(s, ls) := st in
    match nth_error ls (fst x) with
    | Some l => let '(s', l') := gm_tstep (snd x) s l in (s', cset_nth ls (fst x) l')
    | None => st
    end.

  Definition gm_run (sched : list (nat * nat)) (st : gm_sh * list gm_lo) : gm_sh * list gm_lo :=
    fold_left gm_sys_step sched st.

  (* the transaction running alone: n of its own steps and nothing else *)
  Definition gm_solo (n : nat) (s : gm_sh) (l : gm_lo) : gm_sh * gm_lo :=
    citerate n (fun st => gm_tstep 0 (fst st) (snd st)) (s, l).

  Fixpoint gm_count (i : nat) (sched : list (nat * nat)) : nat :=
    match sched with
    | [] => 0
    | x :: r => (if fst x =? i then 1 else 0) + gm_count i r
    end.

  (* what a transaction can observe of itself: where it is, what it returned, its object's state *)
  Definition gm_obs (s : gm_sh) (l : gm_lo) : list gm_instr * option Cont * option Cont :=
    (l_pc l, l_out l, option_map (s_objs s) (l_obj l)).

  (* the invariant of the concurrent system: live objects are below s_next, pairwise distinct and
     not in the pool; the pool has no duplicates *)
  Definition gm_inv (s : gm_sh) (ls : list gm_lo) : Prop :=
    (forall i l o, nth_error ls i = Some l -> l_obj l = Some o -> o < s_next s /\ ~ In o (s_pool s)) /\
    (forall i j li lj o, i <> j -> nth_error ls i = Some li -> nth_error ls j = Some lj ->
                         l_obj li = Some o -> l_obj lj <> Some o) /\
    NoDup (s_pool s) /\
    (forall o, In o (s_pool s) -> o < s_next s).

  Definition gm_program (acts : list Act) : list gm_instr := TNew :: map TAct acts ++ [TLog; TClose].
  Definition gm_start (inp : Inp) (acts : list Act) : gm_lo := mk_gm_lo inp (gm_program acts) None None.
  Definition gm_sh0 (w : W) (c0 : Cont) : gm_sh := mk_gm_sh w (fun _ => c0) 0 [] [].
End GM.
Arguments mk_gm_sh {W Cont Rec}.
Arguments s_waf {W Cont Rec}.
Arguments s_objs {W Cont Rec}.
Arguments s_next {W Cont Rec}.
Arguments s_pool {W Cont Rec}.
Arguments s_log {W Cont Rec}.
Arguments mk_gm_lo {Inp Act Cont}.
Arguments l_inp {Inp Act Cont}.
Arguments l_pc {Inp Act Cont}.
Arguments l_obj {Inp Act Cont}.
Arguments l_out {Inp Act Cont}.
Arguments gm_upd {Cont}.
Arguments gm_tstep {W Inp Act Cont Rec}.
Arguments gm_sys_step {W Inp Act Cont Rec}.
Arguments gm_run {W Inp Act Cont Rec}.
Arguments gm_solo {W Inp Act Cont Rec}.
Arguments gm_obs {W Inp Act Cont Rec}.
Arguments gm_inv {W Inp Act Cont Rec}.
Arguments gm_program {Act}.
Arguments gm_start {Inp Act Cont}.
Arguments gm_sh0 {W Cont Rec}.

Arguments TNew {Act}.
Arguments TAct {Act} a.
Arguments TLog {Act}.
Arguments TClose {Act}.

(* ------------------------------------------------------------------------------------------ *)
(* 2. Go slices and the exclusion merge of doEvaluate                                           *)
(* ------------------------------------------------------------------------------------------ *)
Inductive cc_region := RShared | RLocal.   (* backing array owned by the WAF's rule / allocated by the transaction *)
Record cc_slice := mk_slice { sl_reg : cc_region; sl_arr : nat; sl_len : nat; sl_cap : nat }.
Definition cc_arrays := list (list bytes).   (* a backing array is as long as its capacity *)

Definition cc_array (w loc : cc_arrays) (s : cc_slice) : list bytes :=
  nth (sl_arr s) (match sl_reg s with RShared => w | RLocal => loc end) [].

(* the elements s[0:len] *)
Definition cc_elems (w loc : cc_arrays) (s : cc_slice) : list bytes := firstn (sl_len s) (cc_array w loc s).

(* s[:len:len] *)
Definition cc_clip (s : cc_slice) : cc_slice := mk_slice (sl_reg s) (sl_arr s) (sl_len s) (sl_len s).

(* Go's append(s, x): in place when len < cap, else a new array (the new capacity is at least
   len+1; doubling is used here, the exact growth policy is irrelevant to the property) *)
Definition cc_go_append (w loc : cc_arrays) (s : cc_slice) (x : bytes) : cc_arrays * cc_arrays * cc_slice :=
  if sl_len s <? sl_cap s then
    let arr' := cset_nth (cc_array w loc s) (sl_len s) x in
    match sl_reg s with
    | RShared => (cset_nth w (sl_arr s) arr', loc, mk_slice RShared (sl_arr s) (S (sl_len s)) (sl_cap s))
    | RLocal => (w, cset_nth loc (sl_arr s) arr', mk_slice RLocal (sl_arr s) (S (sl_len s)) (sl_cap s))
    end
  else
    (w, loc ++ [cc_elems w loc s ++ x :: repeat [] (sl_len s)],
     mk_slice RLocal (length loc) (S (sl_len s)) (S (sl_len s) + sl_len s)).

(* rule.go:249  v.Exceptions = append(v.Exceptions[:len:len], e)   (clipped = true, the code now)
                v.Exceptions = append(v.Exceptions, e)              (clipped = false, before 9f1a0e9) *)
Definition cc_merge_append (clipped : bool) (w loc : cc_arrays) (s : cc_slice) (x : bytes) :=
  cc_go_append w loc (if clipped then cc_clip s else s) x.

Record cc_waf := mk_cc_waf {
  cw_arrays : cc_arrays;         (* backing arrays of the Exceptions slices of the rule's variables *)
  cw_vars : list cc_slice;       (* r.variables[i].Exceptions (slice headers) *)
  cw_needle : bytes }.           (* the operator: @contains needle *)

Record cc_inp := mk_cc_inp {
  in_args : list (bytes * bytes);  (* ARGS of the request *)
  in_ecol : list bytes }.          (* tx.ruleRemoveTargetByID[rule] keys (ctl:ruleRemoveTargetById), in order *)

Record cc_cont := mk_cc_cont {
  lc_arrays : cc_arrays;           (* arrays allocated by this transaction *)
  lc_cur : cc_slice;               (* the range copy v's Exceptions header *)
  lc_matched : list (bytes * bytes) }.

Inductive cc_act :=
  | ACopy (vi : nat)      (* for _, v := range r.variables : v is a COPY of the element *)
  | AAppend (x : bytes)   (* v.Exceptions = append(..., x) *)
  | ARead.                (* values = tx.GetField(v): reads v.Exceptions[0:len], filters ARGS, runs the operator *)

Definition cc_empty_slice := mk_slice RLocal 0 0 0.

(* transaction.go GetField: strings.ToLower(ex.KeyStr) == lkey || ex.KeyStr == "" *)
Definition cc_is_exception (excs : list bytes) (key : bytes) : bool :=
  existsb (fun e => match e with [] => true | _ => bytes_eqb (lower_ascii e) (lower_ascii key) end) excs.

Definition cc_select (needle : bytes) (excs : list bytes) (args : list (bytes * bytes)) : list (bytes * bytes) :=
  filter (fun kv => negb (cc_is_exception excs (fst kv)) && is_substring needle (snd kv)) args.

Definition cc_eval (clipped : bool) (w : cc_waf) (inp : cc_inp) (a : cc_act) (c : cc_cont) : cc_waf * cc_cont :=
  match a with
  | ACopy vi => (w, mk_cc_cont (lc_arrays c) (nth vi (cw_vars w) cc_empty_slice) (lc_matched c))
  | AAppend x =>
    let '(wa, la, s') := cc_merge_append clipped (cw_arrays w) (lc_arrays c) (lc_cur c) x in
    (mk_cc_waf wa (cw_vars w) (cw_needle w), mk_cc_cont la s' (lc_matched c))
  | ARead =>
    let excs := cc_elems (cw_arrays w) (lc_arrays c) (lc_cur c) in
    (w, mk_cc_cont (lc_arrays c) (lc_cur c) (lc_matched c ++ cc_select (cw_needle w) excs (in_args inp)))
  end.

Definition cc_new : cc_cont := mk_cc_cont [] cc_empty_slice [].
Definition cc_init (w : cc_waf) (inp : cc_inp) (old : cc_cont) : cc_cont := cc_new.
Definition cc_render (c : cc_cont) : list (bytes * bytes) := lc_matched c.

(* the actions doEvaluate performs for one rule: per variable, copy, merge every exclusion, read *)
Definition cc_actions (w : cc_waf) (inp : cc_inp) : list cc_act :=
  flat_map (fun vi => ACopy vi :: map AAppend (in_ecol inp) ++ [ARead]) (seq 0 (length (cw_vars w))).

Definition cc_tx (w : cc_waf) (inp : cc_inp) : gm_lo cc_inp cc_act cc_cont :=
  gm_start inp (cc_actions w inp).

(* a rule variable built the way the parser builds it: newRuleVariableParams starts from an empty
   slice and AddVariableNegation appends one exception at a time (Go doubles the capacity) *)
Fixpoint cc_build_cap (n cap : nat) (k : nat) : nat :=
  match k with
  | O => cap
  | S k' => if n <? cap then cc_build_cap (S n) cap k' else cc_build_cap (S n) (if cap =? 0 then 1 else 2 * cap) k'
  end.
Definition cc_waf_of (excs : list bytes) (needle : bytes) : cc_waf :=
  let cap := cc_build_cap 0 0 (length excs) in
  mk_cc_waf [excs ++ repeat [] (cap - length excs)] [mk_slice RShared 0 (length excs) cap] needle.

(* the outcome of a transaction run alone on a fresh WAF: the matched (key, value) pairs *)
Definition cc_solo_outcome (clipped : bool) (w : cc_waf) (inp : cc_inp) : list (bytes * bytes) :=
  let l := cc_tx w inp in
  let '(s, l') := gm_solo cc_init (cc_eval clipped) cc_render (length (l_pc l)) (gm_sh0 w cc_new) l in
  match l_out l' with Some c => lc_matched c | None => [] end.

(* ------------------------------------------------------------------------------------------ *)
(* 2b. per-transaction settings on a RECYCLED object                                            *)
(* ------------------------------------------------------------------------------------------ *)
(* waf.go newTransaction: the Transaction carries copies of WAF-wide settings "that may be
   overwritten by the ctl action" (RequestBodyLimit, ResponseBodyLimit, RuleEngine, RequestBodyAccess,
   ResponseBodyAccess, ForceRequestBodyVariable, ForceResponseBodyVariable, AuditEngine,
   AuditLogParts, ruleRemoveByID, ruleRemoveTargetByID, Skip, ...).  A setting is a number; st_vals is
   the vector of the transaction object.  newTransaction re-copies setting i from the WAF on EVERY call
   when mask[i] = true, and only when the object is brand new (the `if tx.requestBodyBuffer == nil`
   block) when mask[i] = false.  ctl writes a setting (SSet / SInc for the append-like ones); SObs
   records an outcome that depends on it (a body of x bytes against a limit, a rule firing against an
   engine mode...). *)
Record st_cont := mk_st { st_used : bool; st_vals : list nat; st_out : list bool }.
Inductive st_act := SSet (i v : nat) | SInc (i : nat) | SObs (i x : nat).

Fixpoint st_merge (mask : list bool) (used : bool) (w old : list nat) : list nat :=
  match w with
  | [] => []
  | wv :: w' => (if hd true mask || negb used then wv else hd wv old) :: st_merge (tl mask) used w' (tl old)
  end.

Definition st_init (mask : list bool) (w : list nat) (inp : unit) (old : st_cont) : st_cont :=
  mk_st true (st_merge mask (st_used old) w (st_vals old)) [].

Definition st_eval (w : list nat) (inp : unit) (a : st_act) (c : st_cont) : list nat * st_cont :=
  match a with
  | SSet i v => (w, mk_st (st_used c) (cset_nth (st_vals c) i v) (st_out c))
  | SInc i => (w, mk_st (st_used c) (cset_nth (st_vals c) i (S (nth i (st_vals c) 0))) (st_out c))
  | SObs i x => (w, mk_st (st_used c) (st_vals c) (st_out c ++ [x <=? nth i (st_vals c) 0]))
  end.

Definition st_render (c : st_cont) : list bool := st_out c.
Definition st_brand_new : st_cont := mk_st false [] [].
Definition st_tx (acts : list st_act) : gm_lo unit st_act st_cont := gm_start tt acts.

(* what a transaction run ALONE on a WAF with settings w sees: the settings right after
   newTransaction, and after its ctl actions *)
Definition st_alone (w : list nat) (acts : list st_act) : list nat * list nat :=
  let c0 := st_init (map (fun _ => true) w) w tt st_brand_new in
  (st_vals c0, st_vals (fold_left (fun c a => snd (st_eval w tt a c)) acts c0)).

(* ------------------------------------------------------------------------------------------ *)
(* 3. the transformation-id intern table                                                        *)
(* ------------------------------------------------------------------------------------------ *)
Definition it_table := list (nat * bytes).   (* entry i (id i+1) = (id of the prefix, last name); id 0 = empty chain *)

Fixpoint it_find (t : it_table) (cur : nat) (name : bytes) (i : nat) : option nat :=
  match t with
  | [] => None
  | (c, n) :: r => if (c =? cur) && bytes_eqb n name then Some i else it_find r cur name (S i)
  end.

(* transformationID(currentID, name) under transformationIDsLock *)
Definition it_intern (t : it_table) (cur : nat) (name : bytes) : it_table * nat :=
  match it_find t cur name 0 with
  | Some i => (t, S i)
  | None => (t ++ [(cur, name)], S (length t))
  end.

(* a goroutine building rules: AddTransformation called for each name of each chain; every
   prefix id is recorded (r.transformationPrefixIDs) *)
Record it_lo := mk_it_lo {
  b_todo : list (list bytes);           (* chains still to intern; the head is the rest of the current chain *)
  b_cur : nat;                          (* r.transformationsID *)
  b_pref : list bytes;                  (* names interned so far for the current rule *)
  b_done : list (list bytes * nat) }.   (* (chain prefix, id) pairs obtained *)

Definition it_tstep (t : it_table) (l : it_lo) : it_table * it_lo :=
  match b_todo l with
  | [] => (t, l)
  | [] :: rest => (t, mk_it_lo rest 0 [] (b_done l))         (* NewRule(): transformationsID = 0 *)
  | (n :: ns) :: rest =>
    let '(t', id) := it_intern t (b_cur l) n in
    (t', mk_it_lo (ns :: rest) id (b_pref l ++ [n]) (b_done l ++ [(b_pref l ++ [n], id)]))
  end.

Definition it_sys_step (st : it_table * list it_lo) (i : nat) : it_table * list it_lo :=
  let '(t, ls) := st in
  match nth_error ls i with
  | Some l => let '(t', l') := it_tstep t l in (t', cset_nth ls i l')
  | None => st
  end.
Definition it_run (sched : list nat) (st : it_table * list it_lo) := fold_left it_sys_step sched st.
Definition it_start (chains : list (list bytes)) : it_lo := mk_it_lo chains 0 [] [].

(* the chain an id stands for *)
Fixpoint it_decode (fuel : nat) (t : it_table) (id : nat) : list bytes :=
  match fuel with
  | O => []
  | S f => match id with
           | O => []
           | S i => match nth_error t i with
                    | Some (c, n) => it_decode f t c ++ [n]
                    | None => []
                    end
           end
  end.

(* sequential reference used by the correspondence: intern whole chains one after the other *)
Fixpoint it_chain (t : it_table) (cur : nat) (names : list bytes) : it_table * list nat :=
  match names with
  | [] => (t, [])
  | n :: r => let '(t', id) := it_intern t cur n in
              let '(t'', ids) := it_chain t' id r in (t'', id :: ids)
  end.
Fixpoint it_chains (t : it_table) (chains : list (list bytes)) : it_table * list (list nat) :=
  match chains with
  | [] => (t, [])
  | c :: r => let '(t', ids) := it_chain t 0 c in
              let '(t'', rest) := it_chains t' r in (t'', ids :: rest)
  end.

(* ------------------------------------------------------------------------------------------ *)
(* 4. memoize: Do / Release                                                                     *)
(* ------------------------------------------------------------------------------------------ *)
Record mm_entry := mk_entry { e_key : nat; e_val : nat; e_owners : list nat; e_deleted : bool }.
Record mm_flight := mk_flight { f_key : nat; f_res : option (option nat) }.  (* None: in flight; Some r: result *)
Record mm_sh := mk_mm_sh {
  m_ents : list mm_entry;          (* every *entry ever allocated, by address (a thread may hold a stale pointer) *)
  m_map : list (nat * nat);        (* cache sync.Map: key -> entry address *)
  m_flights : list mm_flight;      (* singleflight calls, by address *)
  m_group : list (nat * nat) }.    (* singleflight group.m: key -> call in flight *)

Inductive mm_pc :=
  | PIdle
  | PD0 (o k : nat)                               (* Do: cache.Load(key) *)
  | PD1 (o k a : nat)                             (* Do: m.addOwner(e) on the fast path *)
  | PD2 (o k : nat)                               (* Do: group.Do enter (under g.mu) *)
  | PL0 (o k f : nat)                             (* leader: cache.Load double check *)
  | PL1 (o k f a : nat)                           (* leader: addOwner *)
  | PL2 (o k f : nat)                             (* leader: fn(); cache.Store *)
  | PL3 (o k f : nat) (r : option nat) (c : bool) (* leader: call done, delete(g.m, key), wake the waiters *)
  | PWait (o k f : nat)                           (* duplicate caller: c.wg.Wait() *)
  | PP0 (o k : nat) (r : option nat) (c : bool)   (* after group.Do: cache.Load *)
  | PP1 (o k a : nat) (r : option nat) (c : bool) (* after group.Do: addOwner, result ignored *)
  | PR (o : nat) (ks : list nat)                  (* Release: Range reaches the next key *)
  | PRC (o k a : nat) (ks : list nat).            (* Release: e.mu.Lock() ... Unlock() on the entry Range yielded *)

Inductive mm_op := MDo (o k : nat) | MRelease (o : nat) (ks : list nat).

Record mm_lo := mk_mm_lo {
  t_ops : list mm_op;
  t_pc : mm_pc;
  t_res : list (nat * option nat * bool) }.   (* completed Do: (key, value or error, fn was run by this call) *)

Definition mm_add_owner (o : nat) (l : list nat) : list nat := if existsb (Nat.eqb o) l then l else o :: l.
Definition mm_del_owner (o : nat) (l : list nat) : list nat := filter (fun x => negb (x =? o)) l.

Definition mm_finish (s : mm_sh) (l : mm_lo) (k : nat) (r : option nat) (c : bool) : mm_sh * mm_lo :=
  (s, mk_mm_lo (t_ops l) PIdle (t_res l ++ [(k, r, c)])).
Definition mm_goto (s : mm_sh) (l : mm_lo) (pc : mm_pc) : mm_sh * mm_lo := (s, mk_mm_lo (t_ops l) pc (t_res l)).

(* addOwner: under e.mu; false when the entry is marked deleted *)
Definition mm_try_add (s : mm_sh) (a o : nat) : option (mm_sh * nat) :=
  match nth_error (m_ents s) a with
  | Some e => if e_deleted e then None
              else Some (mk_mm_sh (cset_nth (m_ents s) a (mk_entry (e_key e) (e_val e) (mm_add_owner o (e_owners e)) false))
                                  (m_map s) (m_flights s) (m_group s), e_val e)
  | None => None
  end.

Definition mm_step (fn : nat -> option nat) (s : mm_sh) (l : mm_lo) : mm_sh * mm_lo :=
  match t_pc l with
  | PIdle =>
    match t_ops l with
    | [] => (s, l)
    | MDo o k :: r => (s, mk_mm_lo r (PD0 o k) (t_res l))
    | MRelease o ks :: r => (s, mk_mm_lo r (PR o ks) (t_res l))
    end
  | PD0 o k => match al_get (m_map s) k with
               | Some a => mm_goto s l (PD1 o k a)
               | None => mm_goto s l (PD2 o k)
               end
  | PD1 o k a => match mm_try_add s a o with
                 | Some (s', v) => mm_finish s' l k (Some v) false
                 | None => mm_goto s l (PD2 o k)
                 end
  | PD2 o k => match al_get (m_group s) k with
               | Some f => mm_goto s l (PWait o k f)
               | None =>
                 let f := length (m_flights s) in
                 mm_goto (mk_mm_sh (m_ents s) (m_map s) (m_flights s ++ [mk_flight k None]) (al_set (m_group s) k f))
                         l (PL0 o k f)
               end
  | PL0 o k f => match al_get (m_map s) k with
                 | Some a => mm_goto s l (PL1 o k f a)
                 | None => mm_goto s l (PL2 o k f)
                 end
  | PL1 o k f a => match mm_try_add s a o with
                   | Some (s', v) => mm_goto s' l (PL3 o k f (Some v) false)
                   | None => mm_goto s l (PL2 o k f)
                   end
  | PL2 o k f => match fn k with
                 | Some v =>
                   let a := length (m_ents s) in
                   mm_goto (mk_mm_sh (m_ents s ++ [mk_entry k v [o] false]) (al_set (m_map s) k a) (m_flights s) (m_group s))
                           l (PL3 o k f (Some v) true)
                 | None => mm_goto s l (PL3 o k f None true)
                 end
  | PL3 o k f r c =>
    mm_goto (mk_mm_sh (m_ents s) (m_map s) (cset_nth (m_flights s) f (mk_flight k (Some r))) (al_del (m_group s) k))
            l (PP0 o k r c)
  | PWait o k f => match nth_error (m_flights s) f with
                   | Some fl => match f_res fl with
                                | Some r => mm_goto s l (PP0 o k r false)
                                | None => (s, l)
                                end
                   | None => (s, l)
                   end
  | PP0 o k r c => match r with
                   | None => mm_finish s l k None c
                   | Some _ => match al_get (m_map s) k with
                               | Some a => mm_goto s l (PP1 o k a r c)
                               | None => mm_finish s l k r c
                               end
                   end
  | PP1 o k a r c => match mm_try_add s a o with
                     | Some (s', _) => mm_finish s' l k r c
                     | None => mm_finish s l k r c
                     end
  | PR o [] => mm_goto s l PIdle
  | PR o (k :: ks) => match al_get (m_map s) k with
                      | Some a => mm_goto s l (PRC o k a ks)
                      | None => mm_goto s l (PR o ks)
                      end
  | PRC o k a ks =>
    match nth_error (m_ents s) a with
    | Some e =>
      let ow := mm_del_owner o (e_owners e) in
      match ow with
      | [] => mm_goto (mk_mm_sh (cset_nth (m_ents s) a (mk_entry (e_key e) (e_val e) [] true))
                                (al_del (m_map s) k) (m_flights s) (m_group s)) l (PR o ks)
      | _ => mm_goto (mk_mm_sh (cset_nth (m_ents s) a (mk_entry (e_key e) (e_val e) ow (e_deleted e)))
                               (m_map s) (m_flights s) (m_group s)) l (PR o ks)
      end
    | None => mm_goto s l (PR o ks)
    end
  end.

Definition mm_sys_step (fn : nat -> option nat) (st : mm_sh * list mm_lo) (i : nat) : mm_sh * list mm_lo :=
  let '(s, ls) := st in
  match nth_error ls i with
  | Some l => let '(s', l') := mm_step fn s l in (s', cset_nth ls i l')
  | None => st
  end.
Definition mm_run (fn : nat -> option nat) (sched : list nat) (st : mm_sh * list mm_lo) := fold_left (mm_sys_step fn) sched st.
Definition mm_empty : mm_sh := mk_mm_sh [] [] [] [].
Definition mm_start (ops : list mm_op) : mm_lo := mk_mm_lo ops PIdle [].

(* sequential reference used by the correspondence: one thread, each operation run to completion;
   Release's Range visits the keys present when it starts *)
Inductive mm_sop := SDo (o k : nat) | SRelease (o : nat).
Definition mm_seq_op (fn : nat -> option nat) (st : mm_sh * list (nat * option nat * bool)) (op : mm_sop) :=
  let '(s, res) := st in
  let l := match op with
           | SDo o k => mm_start [MDo o k]
           | SRelease o => mm_start [MRelease o (map fst (m_map s))]
           end in
  let n := match op with SDo _ _ => 12 | SRelease _ => 3 + 2 * length (m_map s) end in
  let '(s', l') := citerate n (fun x => mm_step fn (fst x) (snd x)) (s, l) in
  (s', res ++ t_res l').
Definition mm_seq (fn : nat -> option nat) (ops : list mm_sop) := fold_left (mm_seq_op fn) ops (mm_empty, []).

(* the cache as the hook of the harness sees it: per key, the owner list of its entry *)
Definition mm_snapshot (s : mm_sh) : list (nat * list nat) :=
  flat_map (fun ka => match nth_error (m_ents s) (snd ka) with
                      | Some e => [(fst ka, e_owners e)]
                      | None => []
                      end) (m_map s).

(* ------------------------------------------------------------------------------------------ *)
(* 5. the serial audit writer                                                                   *)
(* ------------------------------------------------------------------------------------------ *)
Definition au_frame (r : bytes) : bytes := r ++ [10%N].     (* Println *)

(* writers: what each goroutine still has to write; the log file *)
Definition au_sys_step (st : bytes * list (list bytes)) (i : nat) : bytes * list (list bytes) :=
  let '(log, ws) := st in
  match nth_error ws i with
  | Some (r :: rest) => (log ++ au_frame r, cset_nth ws i rest)
  | _ => st
  end.
Definition au_run (sched : list nat) (st : bytes * list (list bytes)) := fold_left au_sys_step sched st.

(* the records in the order a schedule emits them *)
Fixpoint au_emitted (sched : list nat) (ws : list (list bytes)) : list bytes :=
  match sched with
  | [] => []
  | i :: r => match nth_error ws i with
              | Some (x :: rest) => x :: au_emitted r (cset_nth ws i rest)
              | _ => au_emitted r ws
              end
  end.

(* decision procedure used on an observed log: consume it record by record, each time taking the
   first writer whose next record is a prefix of what is left (followed by the newline) *)
Fixpoint au_take (ws : list (list bytes)) (rest : bytes) (i : nat) : option (nat * bytes) :=
  match ws with
  | [] => None
  | [] :: r => au_take r rest (S i)
  | (x :: _) :: r =>
    if is_prefix (au_frame x) rest then Some (i, skipn (length (au_frame x)) rest) else au_take r rest (S i)
  end.

Fixpoint au_explain (fuel : nat) (ws : list (list bytes)) (log : bytes) : option (list nat) :=
  match log with
  | [] => if forallb (fun w => match w with [] => true | _ => false end) ws then Some [] else None
  | _ :: _ =>
    match fuel with
    | O => None
    | S f =>
      match au_take ws log 0 with
      | Some (i, rest) =>
        match nth_error ws i with
        | Some (_ :: wr) => match au_explain f (cset_nth ws i wr) rest with
                            | Some sch => Some (i :: sch)
                            | None => None
                            end
        | _ => None
        end
      | None => None
      end
    end
  end.

(* ------------------------------------------------------------------------------------------ *)
(* 5b. the concurrent audit writer: the index file behind cl.mux, with FAILING writes            *)
(* ------------------------------------------------------------------------------------------ *)
(* internal/auditlog/concurrent_writer.go Write: (format the record, write the per-transaction file:
   local) ; cl.mux.Lock() ; defer cl.mux.Unlock() ; up to four cl.log.Output calls, each of which may
   FAIL (disk full, file size limit): the failure is remembered and the remaining parts are still
   attempted ; return errors.Join(errs...)  -- the deferred Unlock runs on every path.
   The failure of each Output call is chosen by the SCHEDULE (a boolean next to the thread index).
   cw_step false is the code as it is; cw_step true is the variant "explicit Unlock after the loop,
   early return on the first failed write" (which leaves the mutex locked). *)
Inductive cw_pc :=
  | CWIdle
  | CWLock (parts : list bytes)                    (* cl.mux.Lock(): blocks while another goroutine holds it *)
  | CWIn (parts : list bytes) (failed : bool)      (* inside the critical section: parts still to write *)
  | CWUnlock (failed : bool).                      (* the deferred cl.mux.Unlock() *)

Record cw_lo := mk_cw_lo {
  cw_todo : list (list bytes);     (* the Write calls still to make: the index parts of each *)
  cw_pcv : cw_pc;
  cw_res : list bool }.            (* per completed Write: did it return an error *)

Record cw_sh := mk_cw_sh { cw_index : bytes; cw_locked : bool }.

Definition cw_step (early_return : bool) (fail : bool) (s : cw_sh) (l : cw_lo) : cw_sh * cw_lo :=
  match cw_pcv l with
  | CWIdle =>
    match cw_todo l with
    | [] => (s, l)
    | ps :: rest => (s, mk_cw_lo rest (CWLock ps) (cw_res l))
    end
  | CWLock ps =>
    if cw_locked s then (s, l)
    else (mk_cw_sh (cw_index s) true, mk_cw_lo (cw_todo l) (CWIn ps false) (cw_res l))
  | CWIn [] f => (s, mk_cw_lo (cw_todo l) (CWUnlock f) (cw_res l))
  | CWIn (p :: ps) f =>
    if fail then
      if early_return
      then (s, mk_cw_lo (cw_todo l) CWIdle (cw_res l ++ [true]))     (* return err: the mutex stays locked *)
      else (s, mk_cw_lo (cw_todo l) (CWIn ps true) (cw_res l))
    else (mk_cw_sh (cw_index s ++ p) (cw_locked s), mk_cw_lo (cw_todo l) (CWIn ps f) (cw_res l))
  | CWUnlock f => (mk_cw_sh (cw_index s) false, mk_cw_lo (cw_todo l) CWIdle (cw_res l ++ [f]))
  end.

Definition cw_sys_step (early_return : bool) (st : cw_sh * list cw_lo) (x : nat * bool) : cw_sh * list cw_lo :=
  let '(s, ls) := st in
  match nth_error ls (fst x) with
  | Some l => let '(s', l') := cw_step early_return (snd x) s l in (s', cset_nth ls (fst x) l')
  | None => st
  end.
Definition cw_run (early_return : bool) (sched : list (nat * bool)) (st : cw_sh * list cw_lo) :=
  fold_left (cw_sys_step early_return) sched st.
Definition cw_start (writes : list (list bytes)) : cw_lo := mk_cw_lo writes CWIdle [].
Definition cw_sh0 : cw_sh := mk_cw_sh [] false.

Definition cw_in_cs (l : cw_lo) : nat :=
  match cw_pcv l with CWIn _ _ | CWUnlock _ => 1 | _ => 0 end.
Definition cw_holders (ls : list cw_lo) : nat := list_sum (map cw_in_cs ls).
Definition cw_busy (l : cw_lo) : bool :=
  match cw_pcv l, cw_todo l with CWIdle, [] => false | _, _ => true end.

(* sequential reference used by the correspondence: one goroutine, every Write run to completion;
   a Write made while the file size limit is in force fails in EVERY Output call *)
Definition cw_seq_write (st : cw_sh * list bool) (w : list bytes * bool) : cw_sh * list bool :=
  let '(s, res) := st in
  let l := cw_start [fst w] in
  let '(s', l') := citerate (4 + length (fst w)) (fun x => cw_step false (snd w) (fst x) (snd x)) (s, l) in
  (s', res ++ cw_res l').
Definition cw_seq (ws : list (list bytes * bool)) : cw_sh * list bool := fold_left cw_seq_write ws (cw_sh0, []).

(* ------------------------------------------------------------------------------------------ *)
(* 6. the shared-write footprint of the evaluation path (regenerated facts: coq/gen/FactsC06.v) *)
(* ------------------------------------------------------------------------------------------ *)
(* One element per syntactic WRITE found by the go/ast translator (harness/cmd/verif-facts/c06.go)
   in internal/corazawaf whose target is reachable from state shared between goroutines:
     fw_root = "rule" | "rulegroup" | "waf"  : rooted at a *Rule / *RuleGroup / *WAF (receiver,
               parameter, tx.WAF..., alias such as r := &rg.rules[i]) inside a function reachable
               from RuleGroup.Eval or a Transaction / NewTransaction entry point;
     fw_root = "rangecopy" : through a reference held by a COPY of a shared struct (range variable
               or local copy): index / map write, or an append that is not clipped to x[:len:len]
               and may therefore store into the shared backing array (F27);
     fw_root = "pkgvar" : a package-level variable, anywhere in the package (WAFs are built and
               closed concurrently with transactions of other WAFs);
   fw_lock  = the mutex the function holds (X.Lock() ... defer X.Unlock()), "" if none;
   fw_dead  = the statement is only reachable under `if multiphaseEvaluation` while that constant
               is false in the default build. *)
From Coq Require Import String.

Record fw := mk_fw {
  fw_file : string; fw_func : string; fw_stmt : string; fw_root : string; fw_lock : string; fw_dead : bool }.

(* THE ALLOW-LIST.  Nothing on the evaluation path may write shared state, except:
   - the transformation-id intern table (package variables transformationIDToName /
     transformationNameToID), written only by transformationID while it holds
     transformationIDsLock: modelled by it_intern as ONE atomic step per call (section 3);
   - statements that are dead code in the default build (multiphase evaluation off). *)
Definition fw_allowed (w : fw) : bool :=
  (String.eqb (fw_root w) "pkgvar" && String.eqb (fw_func w) "transformationID" &&
   String.eqb (fw_lock w) "transformationIDsLock" &&
   (String.eqb (fw_stmt w) "transformationIDToName = append(transformationIDToName, nextName)" ||
    String.eqb (fw_stmt w) "transformationNameToID[nextName] = id"))
  || fw_dead w.

Definition fw_all_allowed (l : list fw) : bool := forallb fw_allowed l.

(* the repaired statement of F27 must be present and recognised as a clipped append *)
Definition fw_is_f27_merge (w : fw) : bool :=
  String.eqb (fw_func w) "Rule.doEvaluate" && String.eqb (fw_root w) "rangecopy-clipped".

(* the intern table is modelled (section 3) as ONE atomic step per transformationID call: the whole
   body must be a single critical section - the first two statements take the mutex and defer its
   release, and no other lock operation (RLock / second Lock region) occurs in the function *)
Fixpoint fw_strs_eqb (a b : list string) : bool :=
  match a, b with
  | [], [] => true
  | x :: a', y :: b' => String.eqb x y && fw_strs_eqb a' b'
  | _, _ => false
  end.
Definition fw_intern_shape_ok (first_two lock_calls : list string) : bool :=
  fw_strs_eqb first_two ["transformationIDsLock.Lock()"%string; "defer transformationIDsLock.Unlock()"%string] &&
  fw_strs_eqb lock_calls ["Lock"%string; "defer Unlock"%string].
