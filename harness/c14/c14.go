// Package c14 drives the correspondence for C14 (transformations are total, pure, with sound
// change reports): direct calls of every registered transformation through the internal
// registry, compared with the Gallina models of Transform.v, plus the implementation-side
// oracles of the property itself (flag soundness, purity/aliasing, identities, idempotence).
package c14

import (
	"bytes"
	"crypto/md5"
	"crypto/sha1"
	"encoding/json"
	"fmt"
	"math/rand"
	"os"
	"strconv"
	"strings"
	"unicode"
	"unicode/utf8"

	"github.com/corazawaf/coraza/v3/experimental/plugins/plugintypes"
	"github.com/corazawaf/coraza/v3/internal/corazawaf"
	"github.com/corazawaf/coraza/v3/internal/transformations"
	"github.com/corazawaf/coraza/v3/verifharness/vh"
)

func init() { vh.Register("C14", Run) }

type tdesc struct {
	Go       string // registry name
	Coq      string // constructor of Transform.tid ("" = not modelled, oracle checks only)
	Alphabet string // metacharacters for the exhaustive small scope
	ASCII    bool   // model valid on ASCII input only
}

var tds = []tdesc{
	{"none", "TNone", "a%+\x00\xff", false},
	{"length", "TLength", "a\x00", false},
	// lowercase / uppercase: the Unicode case-map model (CaseMap.v) over the regenerated tables; the alphabet holds
	// the bytes of \u00c9 \u00e9 \u03a3 \u03c3 \u0130 \u212a \u01c5 \u24b6 \U00010400 plus invalid bytes
	{"lowercase", "TLowercase", "aAzZ@[`{ 0\xc3\x89\xa9\xce\xa3\xcf\x83\xc4\xb0\xe2\x84\xaa\xc7\x85\x92\xb6\xf0\x90\x80\xff", false},
	{"uppercase", "TUppercase", "aAzZ@[`{ 0\xc3\x89\xa9\xce\xa3\xcf\x83\xc4\xb1\xc5\xbf\xc7\x85\xe2\x93\x90\xf0\x90\x90\xa8\xff", false},
	{"removeNulls", "TRemoveNulls", "a\x00 \xff", false},
	{"replaceNulls", "TReplaceNulls", "a\x00 \xff", false},
	{"trim", "TTrim", " \t\n\r\f\va\x00\xa0\x85", false},
	{"trimLeft", "TTrimLeft", " \t\n\r\f\va\x00\xa0\x85", false},
	{"trimRight", "TTrimRight", " \t\n\r\f\va\x00\xa0\x85", false},
	{"hexEncode", "THexEncode", "a\x00\xff\x10\x0f", false},
	{"hexDecode", "THexDecode", "09afAFgG \x00\xff", false},
	{"base64Encode", "TBase64Encode", "a\x00\xff\xfb\x3f>", false},
	{"base64Decode", "TBase64Decode", "AQZaz09+/=-_ .\r\n\x00\xff\x80", false},
	{"base64DecodeExt", "TBase64DecodeExt", "AQZaz09+/=-_ .\r\n\x00\xff\x80\xa0\x85\t", false},
	{"urlDecode", "TUrlDecode", "%+a0fFgG@`4\x00\xff ", false},
	{"urlEncode", "TUrlEncode", "a *-_.~%+\x00\xff/09AZz", false},
	{"cmdLine", "TCmdLine", "\"'\\^ ,;\t\r\n/(aAZz[@\x00\xff", false},
	{"removeCommentsChar", "TRemoveCommentsChar", "/*<!->#a \x00", false},
	{"replaceComments", "TReplaceComments", "/*a \x00<", false},
	{"escapeSeqDecode", "TEscapeSeqDecode", "\\abfnrtv?'\"xX0738fFgz\x00\xff", false},
	{"compressWhitespace", "TCompressWhitespace", " \t\n\v\f\ra\xa0\x85\xc2\xc3\xe4\xbd\x00\xff", false},
	{"removeWhitespace", "TRemoveWhitespace", " \t\na\xa0\x85\xc2\xe2\x80\x81\xe3\x00\xff\xe1\x9a", false},
	{"utf8toUnicode", "TUtf8ToUnicode", "a\xc2\xa0\xe2\x82\xac\xf0\x9f\x98\x80\xff\xed\xa0\x00", false},
	// not (yet) modelled in Gallina: implementation-side oracles only
	{"jsDecode", "TJsDecode", "\\uxXfF0123789abn'\"\x00\xff", false},
	{"cssDecode", "TCssDecode", "\\0afFgz \n\t19\x00\xff", false},
	{"htmlEntityDecode", "", "&#x;0123aAmpltgnve\x00\xff", false},
	{"removeComments", "TRemoveComments", "/*<!->#a \x00", false},
	{"urlDecodeUni", "TUrlDecodeUni", "%uU+a0fF1e2\x00\xff", false},
	{"normalisePath", "", "/.a\\\x00", false},
	{"normalisePathWin", "", "/.a\\\x00", false},
	{"md5", "", "a\x00", false},
	{"sha1", "", "a\x00", false},
}

// escape sequences of the decoders; every prefix of each is tried (truncated escapes at every offset)
var escapeTemplates = []string{
	`\x41`, `\xfF`, `\u0041`, `\uFF21`, `\uff5e`, `\101`, `\377`, `\400`, `\8`, `\n`, `\\`, `\X41`, `\0`,
	"%41", "%fF", "%u0041", "%U00e9", "%uFF21", "%%41", "%4%41", "+%2B",
	"&amp;", "&#65;", "&#x41;", "&#0", "&nvge;", "&lt", "&#xZ;",
	"/*a*/b", "<!--a-->b", "--a", "#a", "a/**/", "*/a", "-->",
	"\\1f ", "\\00ff21 x", "\\\n",
	"QUJD", "QUI=", "QQ==", "QU-_", "4142", "414",
	"\xc2\xa0", "\xe2\x82\xac", "\xf0\x9f\x98\x80", "\xed\xa0\x80", "\xc0\xaf",
	"/a/../b", "a/./b//c", "\\a\\..\\b",
}

type caseJSON struct {
	Kind    string   `json:"kind"` // single | list
	T       []string `json:"t"`
	InHex   string   `json:"in_hex"`
	OutHex  string   `json:"out_hex"`
	Changed bool     `json:"changed"`
	Err     bool     `json:"err"`
	NErr    int      `json:"nerr,omitempty"`
	Multi   []string `json:"multi_hex,omitempty"`
}

func isASCII(s string) bool {
	for i := 0; i < len(s); i++ {
		if s[i] >= 0x80 {
			return false
		}
	}
	return true
}

func get(name string) plugintypes.Transformation {
	t, err := transformations.GetTransformation(name)
	if err != nil {
		panic(err)
	}
	return t
}

// callPure calls t on a private copy of in and checks totality (recover), purity (same result
// twice), that the input is not modified and that the output does not alias the input.
func callPure(name string, t plugintypes.Transformation, in string) (out string, changed bool, isErr bool, fail string) {
	defer func() {
		if r := recover(); r != nil {
			fail = fmt.Sprintf("panic: %v", r)
		}
	}()
	buf := []byte(in)
	arg := string(buf) // private copy
	keep := strings.Clone(arg)
	o1, c1, e1 := t(arg)
	if arg != keep {
		return o1, c1, e1 != nil, "input modified"
	}
	o1copy := strings.Clone(o1)
	// a later call on a different input must not change an output already handed out
	_, _, _ = t(strings.Clone(keep) + "\x01later")
	_, _, _ = t("x" + strings.Clone(keep))
	if o1 != o1copy {
		return o1copy, c1, e1 != nil, "output changed by a later call (aliases shared state)"
	}
	o2, c2, e2 := t(strings.Clone(keep))
	if o2 != o1copy || c1 != c2 || (e1 != nil) != (e2 != nil) {
		return o1, c1, e1 != nil, "not deterministic"
	}
	return o1copy, c1, e1 != nil, ""
}

func enumerate(alpha string, maxLen int) []string {
	res := []string{""}
	prev := []string{""}
	for l := 1; l <= maxLen; l++ {
		var cur []string
		for _, p := range prev {
			for i := 0; i < len(alpha); i++ {
				cur = append(cur, p+string(alpha[i]))
			}
		}
		res = append(res, cur...)
		prev = cur
	}
	return res
}

func randFrom(r *rand.Rand, alpha string, n int) string {
	b := make([]byte, n)
	for i := range b {
		switch r.Intn(10) {
		case 0:
			b[i] = byte(r.Intn(256))
		default:
			b[i] = alpha[r.Intn(len(alpha))]
		}
	}
	return string(b)
}

func hexs(s string) string { return fmt.Sprintf("%x", s) }

func Run(cfg vh.Config) (*vh.Result, error) {
	res := &vh.Result{InputDistribution: map[string]int{}}
	res.Rule = "direct calls of each registered transformation: exhaustive over all strings up to a small length on a per-transformation alphabet of its metacharacters, plus random strings (length up to 4096, long runs) and transformation lists of length <= 4; a case is non-trivial when the output differs from the input or an error is returned; distinct = distinct (transformation list, input)"
	rng := vh.Rng(cfg.Seed, "c14")
	var terms []string
	var cases []any
	seen := map[string]bool{}
	nontrivial := 0
	oracleEvals := 0
	fail := func(key, what string, c any) {
		res.OracleFailures = append(res.OracleFailures, vh.OracleFailure{Key: key, What: what, Case: c})
	}
	addSingle := func(td tdesc, in string) {
		t := get(td.Go)
		out, changed, isErr, bad := callPure(td.Go, t, in)
		cj := caseJSON{Kind: "single", T: []string{td.Go}, InHex: hexs(in), OutHex: hexs(out), Changed: changed, Err: isErr}
		res.Evaluations++
		oracleEvals++
		if bad != "" {
			fail("c14-purity-"+td.Go, td.Go+": "+bad, cj)
			return
		}
		// the property's own oracle: never 'unchanged' when the output differs
		if !isErr && out != in && !changed {
			fail("c14-flag-"+td.Go, td.Go+" reports unchanged but output differs", cj)
		}
		k := td.Go + "|" + in
		if !seen[k] {
			seen[k] = true
			if out != in || isErr {
				nontrivial++
			}
		}
		res.InputDistribution["len_"+lenBucket(len(in))]++
		if td.Coq == "" || (td.ASCII && !isASCII(in)) {
			res.InputDistribution["oracle_only"]++
			return
		}
		if td.Coq == "TUrlDecodeUni" {
			terms = append(terms, fmt.Sprintf("CU %s %s %s", vh.HxS(in), vh.HxS(out), vh.Bool(changed)))
		} else {
			terms = append(terms, fmt.Sprintf("CS %s %s %s %s %s", td.Coq, vh.HxS(in), vh.HxS(out), vh.Bool(changed), vh.Bool(isErr)))
		}
		cases = append(cases, cj)
	}
	addList := func(tl []tdesc, in string) {
		// run step by step as Rule.executeTransformations / ...Multimatch do
		value := in
		nerr := 0
		mvalue := in
		multi := []string{}
		modelled := true
		for _, td := range tl {
			if td.Coq == "" || td.Coq == "TUrlDecodeUni" {
				modelled = false
			}
			t := get(td.Go)
			if td.ASCII && (!isASCII(value) || !isASCII(mvalue)) {
				modelled = false
			}
			v, _, err := t(value)
			if err != nil {
				nerr++
			} else {
				value = v
			}
			mv, ch, merr := t(mvalue)
			if merr == nil && ch {
				multi = append(multi, mv)
				mvalue = mv
			} else if merr == nil && mv != mvalue {
				cj := caseJSON{Kind: "list-step", T: []string{td.Go}, InHex: hexs(mvalue), OutHex: hexs(mv)}
				fail("c14-flag-"+td.Go, td.Go+" reports unchanged but output differs (multiMatch would miss the value)", cj)
			}
		}
		// the same lists through the REAL rule-level loops (Rule.executeTransformations and
		// Rule.executeTransformationsMultimatch): they must agree with the step-by-step run above
		{
			r := corazawaf.NewRule()
			for _, td := range tl {
				_ = r.AddTransformation(td.Go, get(td.Go))
			}
			rv, rn := r.VerifC14Exec(strings.Clone(in))
			rm, rmn := r.VerifC14ExecMulti(strings.Clone(in))
			oracleEvals++
			okMulti := len(rm) == len(multi)+1 && rm[0] == in
			for i := 0; okMulti && i < len(multi); i++ {
				okMulti = rm[i+1] == multi[i]
			}
			if rv != value || rn != nerr || !okMulti || rmn != nerr {
				names0 := make([]string, len(tl))
				for i, td := range tl {
					names0[i] = td.Go
				}
				cj := caseJSON{Kind: "list", T: names0, InHex: hexs(in), OutHex: hexs(rv), NErr: rn}
				fail("c14-rule-loop", fmt.Sprintf("Rule.executeTransformations(Multimatch) disagrees with applying the transformations one by one: value %q/%q errors %d/%d multi %q/%q", rv, value, rn, nerr, rm, multi), cj)
			}
			// what is compared with the Coq model is what the real loops returned
			value, nerr = rv, rn
			if len(rm) > 0 {
				multi = rm[1:]
			}
		}
		names := make([]string, len(tl))
		coqs := make([]string, len(tl))
		for i, td := range tl {
			names[i], coqs[i] = td.Go, td.Coq
		}
		mh := make([]string, len(multi))
		for i, m := range multi {
			mh[i] = hexs(m)
		}
		cj := caseJSON{Kind: "list", T: names, InHex: hexs(in), OutHex: hexs(value), NErr: nerr, Multi: mh}
		res.Evaluations++
		k := strings.Join(names, ",") + "|" + in
		if !seen[k] {
			seen[k] = true
			if value != in {
				nontrivial++
			}
		}
		res.InputDistribution[fmt.Sprintf("list_len_%d", len(tl))]++
		if !modelled {
			return
		}
		terms = append(terms, fmt.Sprintf("CL %s %s %s %s %s", vh.List(coqs), vh.HxS(in), vh.HxS(value), vh.Nat(nerr), vh.HxList(multi)))
		cases = append(cases, cj)
	}

	byName := map[string]tdesc{}
	for _, td := range tds {
		byName[strings.ToLower(td.Go)] = td
	}

	// replay / corpus first
	runDoc := func(doc json.RawMessage) {
		var c caseJSON
		if json.Unmarshal(doc, &c) != nil {
			return
		}
		in := unhex(c.InHex)
		var tl []tdesc
		for _, n := range c.T {
			td, ok := byName[strings.ToLower(n)]
			if !ok {
				return
			}
			tl = append(tl, td)
		}
		if c.Kind == "list" {
			addList(tl, in)
		} else if len(tl) == 1 {
			addSingle(tl[0], in)
		}
	}
	if cfg.Replay != "" {
		b, err := os.ReadFile(cfg.Replay)
		if err != nil {
			return nil, err
		}
		var rp struct {
			Case json.RawMessage `json:"case"`
		}
		if json.Unmarshal(b, &rp) == nil && rp.Case != nil {
			runDoc(rp.Case)
		} else {
			runDoc(b)
		}
	} else {
		docs, _ := vh.LoadCorpus(cfg.Corpus)
		for _, d := range docs {
			runDoc(d)
		}
		res.InputDistribution["corpus"] = len(docs)

		maxLen := cfg.Pick(2, 3)
		for _, td := range tds {
			for _, s := range enumerate(td.Alphabet, maxLen) {
				addSingle(td, s)
			}
			// one length beyond the exhaustive scope, sampled
			for i := 0; i < cfg.Pick(150, 3000); i++ {
				addSingle(td, randFrom(rng, td.Alphabet, maxLen+1+rng.Intn(3)))
			}
			// every truncation of every escape sequence, at the end of the input and followed by a byte
			for _, tmpl := range escapeTemplates {
				// quick tier: only the templates that start with one of this transformation's metacharacters
				if !cfg.Thorough() && !strings.ContainsRune(td.Alphabet, rune(tmpl[0])) && tmpl[0] < 0x80 {
					continue
				}
				for cut := 1; cut <= len(tmpl); cut++ {
					pre := tmpl[:cut]
					addSingle(td, pre)
					addSingle(td, "a"+pre)
					addSingle(td, pre+"z")
					if cfg.Thorough() {
						addSingle(td, pre+pre)
						addSingle(td, pre+" ")
						addSingle(td, " "+pre+"0")
						addSingle(td, pre+"\x00")
					}
				}
			}
			// runs of one escape sequence (in-place decoders whose output grows or shrinks per escape), complete and
			// with every truncation of a further copy at the end
			for _, tmpl := range escapeTemplates {
				if !cfg.Thorough() && !strings.ContainsRune(td.Alphabet, rune(tmpl[0])) && tmpl[0] < 0x80 {
					continue
				}
				for _, k := range []int{2, 3, 4, 5, 8, 17} {
					rep := strings.Repeat(tmpl, k)
					addSingle(td, rep)
					if k == 4 || cfg.Thorough() {
						for cut := 1; cut < len(tmpl); cut++ {
							addSingle(td, rep+tmpl[:cut])
						}
						addSingle(td, "a"+rep+"z")
					}
				}
			}
			// %uXXXX escapes (best-fit table, full-width folding, truncations) for urlDecodeUni
			if td.Go == "urlDecodeUni" {
				hexd := "0123456789abcdefABCDEF"
				for i := 0; i < cfg.Pick(600, 12000); i++ {
					var code string
					switch rng.Intn(4) {
					case 0:
						code = fmt.Sprintf("%04x", 0xa0+rng.Intn(0x60)) // latin-1 supplement (dense in the table)
					case 1:
						code = fmt.Sprintf("%04X", 0xff00+rng.Intn(0x60)) // full-width forms
					case 2:
						code = fmt.Sprintf("%04x", 0x2000+rng.Intn(0x300)) // punctuation, letterlike
					default:
						code = string([]byte{hexd[rng.Intn(22)], hexd[rng.Intn(22)], hexd[rng.Intn(22)], hexd[rng.Intn(22)]})
					}
					esc := "%" + string("uU"[rng.Intn(2)]) + code
					if rng.Intn(6) == 0 {
						esc = esc[:2+rng.Intn(4)] // truncated
					}
					if rng.Intn(6) == 0 && len(esc) > 2 {
						b := []byte(esc)
						b[2+rng.Intn(len(b)-2)] = 'g' // invalid hex digit
						esc = string(b)
					}
					addSingle(td, randFrom(rng, "a%+", rng.Intn(3))+esc+randFrom(rng, "a%+1", rng.Intn(3)))
				}
			}
			// long inputs with runs
			for i := 0; i < cfg.Pick(6, 60); i++ {
				n := []int{17, 64, 255, 256, 1000, 4096}[rng.Intn(6)]
				var sb strings.Builder
				for sb.Len() < n {
					run := 1 + rng.Intn(40)
					c := td.Alphabet[rng.Intn(len(td.Alphabet))]
					if rng.Intn(8) == 0 {
						c = byte(rng.Intn(256))
					}
					sb.Write(bytes.Repeat([]byte{c}, run))
				}
				addSingle(td, sb.String()[:n])
			}
		}
		// lowercase / uppercase beyond ASCII: EVERY code point that Go's unicode package maps (packed 8 per case,
		// so the regenerated range tables are compared with the code on their whole support), the neighbours of
		// every mapped range, surrogates and the last code points, and random rune strings with invalid bytes mixed in
		{
			lc, uc := byName["lowercase"], byName["uppercase"]
			var pack []rune
			flush := func() {
				if len(pack) > 0 {
					addSingle(lc, string(pack))
					addSingle(uc, string(pack))
					pack = pack[:0]
				}
			}
			prevMapped := false
			for r := rune(0x80); r <= unicode.MaxRune; r++ {
				mapped := unicode.ToLower(r) != r || unicode.ToUpper(r) != r
				if mapped || prevMapped || (r < unicode.MaxRune && (unicode.ToLower(r+1) != r+1 || unicode.ToUpper(r+1) != r+1)) {
					if r < 0xd800 || r > 0xdfff {
						pack = append(pack, r)
					}
				}
				prevMapped = mapped
				if len(pack) == 8 {
					flush()
				}
			}
			flush()
			for _, s := range []string{"\xed\x9f\xbf", "\xed\xa0\x80", "\xed\xbf\xbf", "\xee\x80\x80", "\xef\xbf\xbd", "\xf4\x8f\xbf\xbf", "\xf4\x90\x80\x80", "\xc0\x80", "\xe0\x9f\xbf", "\xf0\x8f\xbf\xbf"} {
				addSingle(lc, s)
				addSingle(uc, "A"+s+"z")
			}
			sample := []rune("AaZz \u00c9\u00e9\u00df\u0130\u0131\u017f\u01c4\u01c5\u01c6\u03a3\u03c2\u03c3\u0410\u0430\u1e9e\u212a\u212b\u24b6\u24d0\ua64a\uff21\uff41\U00010400\U00010428\U0001e900\ufffd")
			for i := 0; i < cfg.Pick(400, 8000); i++ {
				var sb strings.Builder
				for k := rng.Intn(10); k >= 0; k-- {
					switch rng.Intn(8) {
					case 0:
						sb.WriteByte(byte(0x80 + rng.Intn(0x80))) // stray continuation / lead byte
					case 1:
						sb.WriteRune(rune(rng.Intn(0x2000)))
					default:
						sb.WriteRune(sample[rng.Intn(len(sample))])
					}
				}
				str := sb.String()
				if rng.Intn(5) == 0 && len(str) > 1 {
					str = str[:len(str)-1] // possibly a truncated encoding at the end of the input
				}
				addSingle(lc, str)
				addSingle(uc, str)
				oracleEvals++
				checkLaws(str, fail)
			}
		}
		// transformation lists of length <= 4
		for i := 0; i < cfg.Pick(1500, 40000); i++ {
			n := 1 + rng.Intn(4)
			tl := make([]tdesc, n)
			alpha := ""
			for j := range tl {
				tl[j] = tds[rng.Intn(len(tds))]
				alpha += tl[j].Alphabet
			}
			addList(tl, randFrom(rng, alpha, rng.Intn(12)))
		}
		// implementation-side identities and idempotence (the property's own laws)
		lawAlpha := "aZ09 %+/=\x00\xff\t\n\xa0\xc2"
		for i := 0; i < cfg.Pick(3000, 100000); i++ {
			s := randFrom(rng, lawAlpha, rng.Intn(20))
			if i < 256 {
				s = string([]byte{byte(i)})
			}
			oracleEvals++
			checkLaws(s, fail)
		}
	}
	res.OracleEvaluations = oracleEvals
	res.DistinctNontrivial = nontrivial

	// shards of <= 4000 cases (function evaluation is cheap)
	const per = 4000
	for i, k := 0, 0; i < len(terms); i, k = i+per, k+1 {
		j := i + per
		if j > len(terms) {
			j = len(terms)
		}
		info, err := vh.WriteShard(cfg.OutDir, vh.Shard{
			Name: fmt.Sprintf("C14_%d", k), Imports: "From Verif Require Import Base Transform CorrC14.\nFrom VerifGen Require Import FactsC14.",
			CaseType: "CorrC14.case", MismatchF: "CorrC14.mismatches FactsC14.bestfit FactsC14.lower_table FactsC14.upper_table", Terms: terms[i:j], Cases: cases[i:j],
		})
		if err != nil {
			return nil, err
		}
		res.Shards = append(res.Shards, info)
	}
	for i := 0; i < len(cases) && len(res.Samples) < 6; i += 1 + len(cases)/6 {
		res.Samples = append(res.Samples, cases[i])
	}
	return res, nil
}

func lenBucket(n int) string {
	switch {
	case n == 0:
		return "0"
	case n <= 3:
		return "1-3"
	case n <= 16:
		return "4-16"
	case n <= 256:
		return "17-256"
	}
	return ">256"
}

func unhex(h string) string {
	b := make([]byte, len(h)/2)
	for i := range b {
		v, _ := strconv.ParseUint(h[2*i:2*i+2], 16, 8)
		b[i] = byte(v)
	}
	return string(b)
}

func apply(name, s string) string {
	o, _, _ := get(name)(strings.Clone(s))
	return strings.Clone(o)
}

// checkLaws: the defining identities and idempotences listed in the property, on the
// implementation.
func checkLaws(s string, fail func(key, what string, c any)) {
	c := map[string]string{"in_hex": hexs(s)}
	if apply("hexDecode", apply("hexEncode", s)) != s {
		fail("c14-law-hex", "hexDecode(hexEncode s) != s", c)
	}
	if apply("base64Decode", apply("base64Encode", s)) != s {
		fail("c14-law-base64", "base64Decode(base64Encode s) != s", c)
	}
	if apply("urlDecode", apply("urlEncode", s)) != s {
		fail("c14-law-url", "urlDecode(urlEncode s) != s", c)
	}
	if apply("length", s) != strconv.Itoa(len(s)) {
		fail("c14-law-length", "length s != itoa |s|", c)
	}
	m := md5.Sum([]byte(s))
	if apply("md5", s) != string(m[:]) {
		fail("c14-law-md5", "md5 differs from crypto/md5", c)
	}
	h := sha1.Sum([]byte(s))
	if apply("sha1", s) != string(h[:]) {
		fail("c14-law-sha1", "sha1 differs from crypto/sha1", c)
	}
	// lowercase / uppercase = the simple case mapping of every code point, bytes that are not UTF-8 left alone
	// (the standard definition); the rewriting of such bytes to U+FFFD is the listed finding F33
	for _, w := range []struct {
		name string
		f    func(rune) rune
	}{{"lowercase", unicode.ToLower}, {"uppercase", unicode.ToUpper}} {
		var sb strings.Builder
		invalid := false
		for i := 0; i < len(s); {
			r, n := utf8.DecodeRuneInString(s[i:])
			if r == utf8.RuneError && n == 1 {
				invalid = true
				sb.WriteByte(s[i])
			} else {
				sb.WriteRune(w.f(r))
			}
			i += n
		}
		if got := apply(w.name, s); got != sb.String() {
			if invalid {
				fail("c14-case-map-invalid-utf8", w.name+" rewrites a byte that is not UTF-8 (F33)", c)
			} else {
				fail("c14-law-"+w.name, w.name+" differs from the simple case mapping of its code points", c)
			}
		}
	}
	if isASCII(s) {
		lo, up := []byte(s), []byte(s)
		for i := range lo {
			if 'A' <= lo[i] && lo[i] <= 'Z' {
				lo[i] += 32
			}
			if 'a' <= up[i] && up[i] <= 'z' {
				up[i] -= 32
			}
		}
		if apply("lowercase", s) != string(lo) {
			fail("c14-law-lowercase", "lowercase differs from the ASCII map", c)
		}
		if apply("uppercase", s) != string(up) {
			fail("c14-law-uppercase", "uppercase differs from the ASCII map", c)
		}
	}
	for _, n := range []string{"trim", "trimLeft", "trimRight", "removeWhitespace", "compressWhitespace", "removeNulls"} {
		once := apply(n, s)
		if apply(n, once) != once {
			fail("c14-law-idem-"+n, n+" is not idempotent", c)
		}
	}
}
