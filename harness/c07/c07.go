// Package c07 drives the check of C07 (the library never panics, whatever configuration text
// or traffic it is given).
//
//   - correspondence: the modelled partial-operation paths (macro compile/expand, setvar
//     Init/Evaluate, the rule_parser scanners, DeleteByMsg, the b[:writingBytes] computation,
//     memoize call sites) are run on generated inputs and the observed {ok, error, panic}
//     (plus values) are compared with the Gallina model of NoPanic.v inside Coq;
//   - search (implementation-side oracle): grammar-generated configurations using every
//     directive / action / operator / transformation / variable the running code registers,
//     plus byte-level mutations, compiled under recover() with a watchdog and - if accepted -
//     driven by generated traffic through generated API call sequences (conf.go).
package c07

import (
	"encoding/hex"
	"encoding/json"
	"fmt"
	"math/rand"
	"os"
	"path/filepath"
	"regexp"
	"runtime/debug"
	"sort"
	"strings"

	"github.com/corazawaf/coraza/v3/collection"
	"github.com/corazawaf/coraza/v3/experimental/plugins/macro"
	"github.com/corazawaf/coraza/v3/internal/actions"
	"github.com/corazawaf/coraza/v3/internal/corazawaf"
	"github.com/corazawaf/coraza/v3/internal/seclang"
	ivars "github.com/corazawaf/coraza/v3/internal/variables"
	"github.com/corazawaf/coraza/v3/types"
	"github.com/corazawaf/coraza/v3/verifharness/vh"
)

func init() { vh.Register("C07", Run) }

// caseJSON describes one case (also the corpus / replay format).
type caseJSON struct {
	Kind       string      `json:"kind"` // macro setvar cqs pao pa op pv del wb memo conf
	InHex      string      `json:"in_hex,omitempty"`
	In         string      `json:"in,omitempty"` // readable copy of the input (informative)
	TX         [][2]string `json:"tx,omitempty"` // TX collection before (macro, setvar)
	Rules      []delRule   `json:"rules,omitempty"`
	Msg        string      `json:"msg,omitempty"`
	Partial    bool        `json:"partial,omitempty"`
	Response   bool        `json:"response,omitempty"`
	Limit      int64       `json:"limit,omitempty"`
	Buffered   int64       `json:"buffered,omitempty"`
	Blen       int64       `json:"blen,omitempty"`
	Calls      []memoCall  `json:"calls,omitempty"`
	Directives string      `json:"directives,omitempty"`
	Script     []step      `json:"script,omitempty"`
	Family     string      `json:"family,omitempty"`
	Observed   string      `json:"observed,omitempty"`
	FindingKey string      `json:"finding_key,omitempty"`
}

type delRule struct {
	ID     int    `json:"id"`
	HasMsg bool   `json:"has_msg"`
	Msg    string `json:"msg"`
	Marker bool   `json:"marker,omitempty"`
}

type memoCall struct {
	Site int    `json:"site"`
	Text string `json:"text"`
}

var tmpDir string

// panicSite extracts the innermost frame inside the repository from a stack trace.
var frameRe = regexp.MustCompile(`(?m)^(github\.com/corazawaf/coraza/v3\S*)\(`)

func panicSite(stack string) string {
	for _, m := range frameRe.FindAllStringSubmatch(stack, -1) {
		f := m[1]
		if strings.Contains(f, "verifharness") {
			continue
		}
		f = strings.TrimPrefix(f, "github.com/corazawaf/coraza/v3/")
		f = strings.NewReplacer("(", "", ")", "", "*", "", "/", ".", " ", "").Replace(f)
		return f
	}
	return "unknown"
}

// guard runs f under recover and reports (panicked, site, message).
func guard(f func()) (panicked bool, site string, msg string) {
	defer func() {
		if r := recover(); r != nil {
			panicked = true
			site = panicSite(string(debug.Stack()))
			msg = fmt.Sprint(r)
		}
	}()
	f()
	return
}

type runner struct {
	cfg    vh.Config
	rng    *rand.Rand
	res    *vh.Result
	terms  []string
	cases  []any
	dist   vh.Counter
	nontr  map[string]bool
	shardN int
	// shared transaction for macro / setvar cases
	waf     *corazawaf.WAF
	tx      *corazawaf.Transaction
	txKeys  []string
	prelude string
	varIDs  map[string]int // upper-case variable name -> model id
	varName []string
}

func (r *runner) fail(key, what string, c caseJSON) {
	r.res.OracleFailures = append(r.res.OracleFailures, vh.OracleFailure{Key: key, What: what, Case: c})
}

func (r *runner) add(term string, c caseJSON, nontrivial bool) {
	r.terms = append(r.terms, term)
	r.cases = append(r.cases, c)
	r.dist.Inc(c.Kind + ":" + c.Observed)
	r.res.Evaluations++
	if nontrivial {
		r.nontr[c.Kind+"|"+c.InHex+"|"+fmt.Sprint(c.TX, c.Rules, c.Msg, c.Limit, c.Buffered, c.Blen, c.Partial, c.Calls)] = true
	}
	if len(r.res.Samples) < 12 && r.rng.Intn(40) == 0 {
		r.res.Samples = append(r.res.Samples, c)
	}
	if len(r.terms) >= 1500 {
		r.flush()
	}
}

func (r *runner) flush() {
	if len(r.terms) == 0 {
		return
	}
	si, err := vh.WriteShard(r.cfg.OutDir, vh.Shard{
		Name: fmt.Sprintf("C07_%d", r.shardN), Imports: "From Verif Require Import Base NoPanic CorrC07.",
		CaseType: "CorrC07.case", MismatchF: "CorrC07.mismatches", Terms: r.terms, Cases: r.cases, Prelude: r.prelude,
	})
	if err == nil {
		r.res.Shards = append(r.res.Shards, si)
	}
	r.shardN++
	r.terms, r.cases = nil, nil
}

func hexOf(s string) string { return hex.EncodeToString([]byte(s)) }
func unhex(h string) string {
	b, _ := hex.DecodeString(h)
	return string(b)
}

func kvTerm(kv [][2]string) string {
	items := make([]string, len(kv))
	for i, p := range kv {
		items[i] = "(" + vh.HxS(p[0]) + ", [" + vh.HxS(p[1]) + "])"
	}
	return vh.List(items)
}

func kvMultiTerm(keys []string, m map[string][]string) string {
	items := make([]string, 0, len(keys))
	for _, k := range keys {
		items = append(items, "("+vh.HxS(k)+", "+vh.HxList(m[k])+")")
	}
	return vh.List(items)
}

func readable(s string) string {
	for i := 0; i < len(s); i++ {
		if s[i] < 0x20 || s[i] >= 0x7f {
			return ""
		}
	}
	return s
}

// ---------------------------------------------------------------------------------------
// shared transaction and the dump of tx.Collection(v) for every variable
// ---------------------------------------------------------------------------------------

// the model's variable ids: position in rulemapRev's source order = the numeric value of the
// RuleVariable constant (iota); the harness checks the hand-written table of NoPanic.v through
// FactsC07.v, here it only needs name -> numeric id.
func (r *runner) setupTx() error {
	r.varIDs = map[string]int{}
	names := ivars.VerifC07VariableNames()
	r.varName = make([]string, 256)
	for n, v := range names {
		r.varIDs[n] = int(v)
		r.varName[int(v)] = n
	}
	waf := corazawaf.NewWAF()
	p := seclang.NewParser(waf)
	if err := p.FromString("SecRuleEngine On\nSecRequestBodyAccess On\n"); err != nil {
		return err
	}
	r.waf = waf
	tx := waf.NewTransaction()
	tx.ProcessConnection("10.1.2.3", 4321, "10.9.9.9", 80)
	tx.ProcessURI("/p/a.php?x=1&y=two", "POST", "HTTP/1.1")
	tx.AddRequestHeader("Host", "h.example")
	tx.AddRequestHeader("Cookie", "c=d")
	tx.AddRequestHeader("Content-Type", "application/x-www-form-urlencoded")
	tx.ProcessRequestHeaders()
	_, _, _ = tx.WriteRequestBody([]byte("p=q&x=3"))
	_, _ = tx.ProcessRequestBody()
	r.tx = tx
	r.prelude = "Definition tx0_tab : CorrC07.txtab := " + r.dumpBase() + "."
	return nil
}

func groupMatches(ms []types.MatchData) ([]string, map[string][]string) {
	m := map[string][]string{}
	var keys []string
	for _, md := range ms {
		k := strings.ToLower(md.Key())
		if _, ok := m[k]; !ok {
			keys = append(keys, k)
		}
		m[k] = append(m[k], md.Value())
	}
	sort.Strings(keys)
	return keys, m
}

var volatileVars = map[string]bool{"DURATION": true, "TIME": true, "TIME_EPOCH": true, "TIME_SEC": true, "TIME_MIN": true,
	"TIME_HOUR": true, "TIME_DAY": true, "TIME_MON": true, "TIME_YEAR": true, "TIME_WDAY": true, "ENV": true}

// dumpBase prints, for every variable except TX (per case) and the volatile ones (dumped as a
// marker the generator avoids), what tx.Collection(v) is: nil, Keyed, Single or other.
func (r *runner) dumpBase() string {
	var items []string
	ids := make([]int, 0, len(r.varIDs))
	for _, id := range r.varIDs {
		ids = append(ids, id)
	}
	sort.Ints(ids)
	for _, id := range ids {
		name := r.varName[id]
		if name == "TX" || name == "UNKNOWN" || volatileVars[name] {
			continue
		}
		var term string
		switch col := r.tx.Collection(ivars.RuleVariable(id)).(type) {
		case nil:
			term = "None"
		case collection.Keyed:
			keys, m := groupMatches(col.FindAll())
			// a Keyed collection answers Get(key); cross-check the grouping against Get
			for _, k := range keys {
				g := col.Get(k)
				if len(g) > 0 && len(m[k]) > 0 && g[0] != m[k][0] {
					m[k] = g
				}
			}
			term = "(Some (CKeyed " + kvMultiTerm(keys, m) + "))"
		case collection.Single:
			term = "(Some (CSingle " + vh.HxS(col.Get()) + "))"
		default:
			var vals []string
			for _, md := range col.FindAll() {
				vals = append(vals, md.Value())
			}
			term = "(Some (COther " + vh.HxList(vals) + "))"
		}
		items = append(items, fmt.Sprintf("(%d%%N, %s)", id, term))
	}
	return vh.List(items)
}

func (r *runner) setTX(kv [][2]string) {
	txc := r.tx.Variables().TX()
	for _, md := range txc.FindAll() {
		txc.Remove(md.Key())
	}
	for _, p := range kv {
		txc.Set(p[0], []string{p[1]})
	}
}

func (r *runner) dumpTX() ([]string, map[string][]string) {
	return groupMatches(r.tx.Variables().TX().FindAll())
}

// ---------------------------------------------------------------------------------------
// cases of the modelled functions
// ---------------------------------------------------------------------------------------

func hasNonASCII(s string) bool {
	for i := 0; i < len(s); i++ {
		if s[i] >= 0x80 {
			return true
		}
	}
	return false
}

// usesVolatile: the macro text names a variable whose value changes between dump and expansion
func (r *runner) usesVolatile(s string) bool {
	u := strings.ToUpper(s)
	for n := range volatileVars {
		if strings.Contains(u, "%{"+n+"}") || strings.Contains(u, "%{"+n+".") {
			return true
		}
	}
	return strings.Contains(u, "%{UNIQUE_ID") // stable within the shared tx, kept; listed for clarity
}

func (r *runner) runMacro(c caseJSON) {
	in := unhex(c.InHex)
	c.In = readable(in)
	r.setTX(c.TX)
	st := 0
	out := ""
	var m macro.Macro
	var err error
	p, site, msg := guard(func() { m, err = macro.NewMacro(in) })
	if p {
		st = 2
	} else if err != nil {
		st = 1
	} else {
		p, site, msg = guard(func() { out = m.Expand(r.tx) })
		if p {
			st = 2
		}
	}
	c.Observed = []string{"ok", "err", "panic"}[st]
	if p {
		r.fail("c07-panic-"+site, "macro "+fmt.Sprintf("%q", in)+": "+msg, c)
	}
	r.res.OracleEvaluations++
	if volatile := r.usesVolatile(in) && !strings.Contains(strings.ToUpper(in), "%{UNIQUE_ID"); volatile {
		r.dist.Inc("macro-volatile(no-panic only)")
		return
	}
	term := fmt.Sprintf("CMacro tx0_tab %s %s %s %s", kvTerm(c.TX), vh.HxS(in), vh.N(int64(st)), vh.HxS(out))
	r.add(term, c, strings.Contains(in, "%{"))
}

func (r *runner) runSetvar(c caseJSON) {
	in := unhex(c.InHex)
	c.In = readable(in)
	r.setTX(c.TX)
	st := 0
	a, _ := actions.Get("setvar")
	rule := corazawaf.NewRule()
	var err error
	p, site, msg := guard(func() { err = a.Init(rule, in) })
	if p {
		st = 2
	} else if err != nil {
		st = 1
	} else {
		p, site, msg = guard(func() { a.Evaluate(rule, r.tx) })
		if p {
			st = 2
		}
	}
	c.Observed = []string{"ok", "err", "panic"}[st]
	if p {
		r.fail("c07-panic-"+site, "setvar:"+fmt.Sprintf("%q", in)+": "+msg, c)
	}
	r.res.OracleEvaluations++
	keys, m := r.dumpTX()
	if r.usesVolatile(in) && !strings.Contains(strings.ToUpper(in), "%{UNIQUE_ID") {
		r.dist.Inc("setvar-volatile(no-panic only)")
		return
	}
	term := fmt.Sprintf("CSetvar tx0_tab %s %s %s %s", kvTerm(c.TX), vh.HxS(in), vh.N(int64(st)), kvMultiTerm(keys, m))
	r.add(term, c, st == 0)
}

func (r *runner) runScanner(c caseJSON) {
	in := unhex(c.InHex)
	c.In = readable(in)
	var term string
	var p bool
	var site, msg string
	nontrivial := false
	switch c.Kind {
	case "cqs":
		var a, b string
		var err error
		p, site, msg = guard(func() { a, b, err = seclang.VerifC07CutQuotedString(in) })
		st := stOf(p, err)
		c.Observed = stName(st)
		term = fmt.Sprintf("CCqs %s %s %s %s", vh.HxS(in), vh.N(st), vh.HxS(a), vh.HxS(b))
		nontrivial = strings.HasPrefix(in, `"`) && len(in) > 1
	case "pao":
		var v, o, a string
		var err error
		p, site, msg = guard(func() { v, o, a, err = seclang.VerifC07ParseActionOperator(in) })
		st := stOf(p, err)
		c.Observed = stName(st)
		if err != nil {
			v, o, a = "", "", ""
		}
		term = fmt.Sprintf("CPao %s %s %s %s %s", vh.HxS(in), vh.N(st), vh.HxS(v), vh.HxS(o), vh.HxS(a))
		nontrivial = strings.Contains(in, `"`)
	case "pa":
		var kvs [][2]string
		var err error
		p, site, msg = guard(func() { kvs, err = seclang.VerifC07ParseActions(in) })
		st := stOf(p, err)
		c.Observed = stName(st)
		items := make([]string, len(kvs))
		for i, kv := range kvs {
			items[i] = "(" + vh.HxS(kv[0]) + ", " + vh.HxS(kv[1]) + ")"
		}
		term = fmt.Sprintf("CPa %s %s %s", vh.HxS(in), vh.N(st), vh.List(items))
		nontrivial = strings.ContainsAny(in, ",:'")
	case "op":
		var err error
		p, site, msg = guard(func() { err = seclang.VerifC07ParseOperator(r.waf, tmpDir, in) })
		st := int64(0)
		switch {
		case p:
			st = 3
		case err != nil && strings.HasSuffix(err.Error(), " not found") && strings.HasPrefix(err.Error(), "operator "):
			st = 1
		case err != nil:
			st = 2
		}
		c.Observed = []string{"ok", "notfound", "operr", "panic"}[st]
		term = fmt.Sprintf("COp %s %s", vh.HxS(in), vh.N(st))
		nontrivial = strings.ContainsAny(in, "@!")
	case "pv":
		var err error
		p, site, msg = guard(func() { err = seclang.VerifC07ParseVariables(nil, in) })
		st := int64(0)
		switch {
		case p:
			st = 3
		case err != nil && strings.Contains(err.Error(), "error parsing regexp"):
			st = 2
		case err != nil:
			st = 1
		}
		c.Observed = []string{"ok", "err", "rxerr", "panic"}[st]
		term = fmt.Sprintf("CPv %s %s", vh.HxS(in), vh.N(st))
		nontrivial = strings.ContainsAny(in, ":|/'!&")
	}
	if p {
		r.fail("c07-panic-"+site, c.Kind+" "+fmt.Sprintf("%q", in)+": "+msg, c)
	}
	r.res.OracleEvaluations++
	r.add(term, c, nontrivial)
}

func stOf(p bool, err error) int64 {
	if p {
		return 2
	}
	if err != nil {
		return 1
	}
	return 0
}
func stName(st int64) string { return []string{"ok", "err", "panic"}[st] }

func (r *runner) runDel(c caseJSON) {
	waf := corazawaf.NewWAF()
	p := seclang.NewParser(waf)
	var sb strings.Builder
	for i, ru := range c.Rules {
		switch {
		case ru.Marker:
			fmt.Fprintf(&sb, "SecMarker M%d\n", i)
		case ru.HasMsg:
			fmt.Fprintf(&sb, "SecAction \"id:%d,phase:1,pass,msg:'%s'\"\n", ru.ID, ru.Msg)
		default:
			fmt.Fprintf(&sb, "SecAction \"id:%d,phase:1,pass\"\n", ru.ID)
		}
	}
	if err := p.FromString(sb.String()); err != nil {
		r.dist.Inc("del-setup-error")
		return
	}
	pn, site, msg := guard(func() {
		if c.Family == "directive" {
			_ = p.FromString("SecRuleRemoveByMsg \"" + c.Msg + "\"\n")
		} else {
			waf.Rules.DeleteByMsg(c.Msg)
		}
	})
	st := int64(0)
	if pn {
		st = 2
		r.fail("c07-panic-"+site, "DeleteByMsg: "+msg, c)
	}
	c.Observed = stName(st)
	r.res.OracleEvaluations++
	var left []string
	for _, ru := range waf.Rules.GetRules() {
		left = append(left, vh.Z(int64(ru.ID_)))
	}
	var rules []string
	for _, ru := range c.Rules {
		id := ru.ID
		if ru.Marker {
			id = 0
		}
		rules = append(rules, fmt.Sprintf("(%s, %s)", vh.Z(int64(id)), vh.OptionOf(ru.HasMsg && !ru.Marker, vh.HxS(ru.Msg))))
	}
	term := fmt.Sprintf("CDel %s %s %s %s", vh.List(rules), vh.HxS(c.Msg), vh.N(st), vh.List(left))
	r.add(term, c, len(c.Rules) > 0)
}

func (r *runner) runWb(c caseJSON) {
	waf := corazawaf.NewWAF()
	p := seclang.NewParser(waf)
	act := "Reject"
	if c.Partial {
		act = "ProcessPartial"
	}
	conf := "SecRuleEngine On\nSecRequestBodyAccess On\nSecResponseBodyAccess On\nSecResponseBodyMimeType text/plain\n" +
		"SecRequestBodyLimit 100000\nSecResponseBodyLimit 100000\nSecRequestBodyLimitAction " + act + "\nSecResponseBodyLimitAction " + act + "\n"
	if err := p.FromString(conf); err != nil {
		r.dist.Inc("wb-setup-error")
		return
	}
	tx := waf.NewTransaction()
	defer tx.Close()
	tx.ProcessConnection("1.1.1.1", 1, "2.2.2.2", 2)
	tx.ProcessURI("/", "POST", "HTTP/1.1")
	tx.AddRequestHeader("Content-Type", "text/plain")
	tx.ProcessRequestHeaders()
	first := strings.Repeat("x", int(c.Buffered))
	chunk := []byte(strings.Repeat("y", int(c.Blen)))
	var n int
	var err error
	var pn bool
	var site, msg string
	if !c.Response {
		if c.Buffered > 0 {
			_, _, _ = tx.WriteRequestBody([]byte(first))
		}
		tx.RequestBodyLimit = c.Limit
		pn, site, msg = guard(func() { _, n, err = tx.WriteRequestBody(chunk) })
	} else {
		_, _ = tx.ProcessRequestBody()
		tx.AddResponseHeader("Content-Type", "text/plain")
		tx.ProcessResponseHeaders(200, "HTTP/1.1")
		if c.Buffered > 0 {
			_, _, _ = tx.WriteResponseBody([]byte(first))
		}
		tx.ResponseBodyLimit = c.Limit
		pn, site, msg = guard(func() { _, n, err = tx.WriteResponseBody(chunk) })
	}
	st := stOf(pn, err)
	if pn {
		r.fail("c07-panic-"+site, fmt.Sprintf("write body limit=%d buffered=%d len=%d: %s", c.Limit, c.Buffered, c.Blen, msg), c)
	}
	c.Observed = stName(st)
	r.res.OracleEvaluations++
	term := fmt.Sprintf("CWb %s %s %s %s %s %s", vh.Bool(c.Partial), vh.Z(c.Limit), vh.Z(c.Buffered), vh.Z(c.Blen), vh.N(st), vh.Z(int64(n)))
	r.add(term, c, c.Limit <= c.Buffered+c.Blen)
}

// memoize call sites (index = position in NoPanic.np_sites_fixed): a directive using the
// text in that role.  Texts come from [a-z]+ so that every role accepts them.
func memoDirective(site int, text string, id int) string {
	switch site {
	case 0: // re: regex key of a target
		return fmt.Sprintf("SecRule ARGS:/%s/ \"@unconditionalMatch\" \"id:%d,phase:1,pass\"\n", text, id)
	case 1: // pm:
		return fmt.Sprintf("SecRule ARGS \"@pm %s\" \"id:%d,phase:1,pass\"\n", text, id)
	case 2: // rx:
		return fmt.Sprintf("SecRule ARGS \"@rx %s\" \"id:%d,phase:1,pass\"\n", text, id)
	case 3: // binrx: (pattern matching arbitrary bytes)
		return fmt.Sprintf("SecRule ARGS \"@rx \\xff%s\" \"id:%d,phase:1,pass\"\n", text, id)
	case 4: // pmds:
		return fmt.Sprintf("SecDataset %s `\n%s\n`\nSecRule ARGS \"@pmFromDataset %s\" \"id:%d,phase:1,pass\"\n", text, text, text, id)
	case 5: // pmf:
		_ = os.WriteFile(filepath.Join(tmpDir, "pmf-"+text+".data"), []byte(text+"\n"), 0o644)
		return fmt.Sprintf("SecRule ARGS \"@pmFromFile %s\" \"id:%d,phase:1,pass\"\n", filepath.Join(tmpDir, "pmf-"+text+".data"), id)
	default: // re: through other call sites (restpath, ctl, SecAuditLogRelevantStatus)
		return fmt.Sprintf("SecRule ARGS \"@restpath /%s\" \"id:%d,phase:1,pass,ctl:ruleRemoveTargetById=1;ARGS:/%s/\"\nSecAuditLogRelevantStatus %s\n", text, id, text, text)
	}
}

func (r *runner) runMemo(c caseJSON) {
	var sb strings.Builder
	var calls []string
	for i, mc := range c.Calls {
		sb.WriteString(memoDirective(mc.Site, mc.Text, 100+i))
		site := mc.Site
		text := mc.Text
		switch mc.Site {
		case 2, 3, 4, 5:
			continue // keys carry more than the text (flags, data); only the no-panic observation is compared
		case 6:
			site = 0
		}
		calls = append(calls, fmt.Sprintf("(%s, %s)", vh.Nat(site), vh.HxS(text)))
	}
	c.Directives = sb.String()
	waf := corazawaf.NewWAF()
	p := seclang.NewParser(waf)
	pn, site, msg := guard(func() { _ = p.FromString(c.Directives) })
	if pn {
		r.fail("c07-panic-"+site, "memoized artefacts: "+msg, c)
	}
	c.Observed = stName(stOf(pn, nil))
	r.res.OracleEvaluations++
	term := fmt.Sprintf("CMemo %s %s", vh.List(calls), vh.Bool(pn))
	r.add(term, c, len(c.Calls) > 1)
}

func (r *runner) runCase(c caseJSON) {
	switch c.Kind {
	case "macro":
		r.runMacro(c)
	case "setvar":
		r.runSetvar(c)
	case "cqs", "pao", "pa", "op", "pv":
		r.runScanner(c)
	case "del":
		r.runDel(c)
	case "wb":
		r.runWb(c)
	case "memo":
		r.runMemo(c)
	case "conf":
		r.runConf(c)
	case "config", "run":
		r.runConfigCase(c)
	default:
		r.dist.Inc("unknown-kind")
	}
}

// Run is the driver entry point.
func Run(cfg vh.Config) (*vh.Result, error) {
	res := &vh.Result{}
	r := &runner{cfg: cfg, rng: vh.Rng(cfg.Seed, "c07"), res: res, dist: vh.Counter{}, nontr: map[string]bool{}}
	var err error
	tmpDir, err = os.MkdirTemp("", "verif-c07-")
	if err != nil {
		return nil, err
	}
	defer os.RemoveAll(tmpDir)
	// relative paths of generated (mutated) configurations must stay inside the temp dir
	if err := os.Chdir(tmpDir); err != nil {
		return nil, err
	}
	if err := r.setupTx(); err != nil {
		return nil, err
	}
	r.loadTables()
	r.prepareFiles()
	r.findOkDirectives()
	res.Shards = []vh.ShardInfo{}

	if cfg.Replay != "" {
		b, err := os.ReadFile(cfg.Replay)
		if err != nil {
			return nil, err
		}
		var doc struct {
			Case *caseJSON `json:"case"`
		}
		var c caseJSON
		if json.Unmarshal(b, &doc) == nil && doc.Case != nil {
			c = *doc.Case
		} else if err := json.Unmarshal(b, &c); err != nil {
			return nil, err
		}
		r.runCase(c)
	} else {
		docs, names := vh.LoadCorpus(cfg.Corpus)
		for i, d := range docs {
			var c caseJSON
			if err := json.Unmarshal(d, &c); err != nil {
				return nil, fmt.Errorf("corpus %s: %v", names[i], err)
			}
			r.runCase(c)
			r.dist.Inc("corpus")
		}
		r.generateModelled()
		r.generateConfigCases()
		r.generateConfs()
	}
	r.flush()
	if r.shardN == 0 { // configuration-only runs still emit one (empty) shard
		if si, err := vh.WriteShard(cfg.OutDir, vh.Shard{Name: "C07_0", Imports: "From Verif Require Import Base NoPanic CorrC07.",
			CaseType: "CorrC07.case", MismatchF: "CorrC07.mismatches", Prelude: r.prelude}); err == nil {
			res.Shards = append(res.Shards, si)
		}
	}
	res.DistinctNontrivial = len(r.nontr)
	res.Rule = "modelled-function cases: the input reaches the scanner's loop (contains one of its delimiters / a macro opener / a non-empty rule list / a limit that is hit); configuration cases: the configuration was accepted and the transaction script ran at least one phase"
	res.InputDistribution = r.dist
	res.Exhaustive = false
	res.Notes = append(res.Notes, fmt.Sprintf("directives=%d actions=%d operators=%d transformations=%d variables=%d (tables read from the running code)",
		len(tabDirectives), len(tabActions), len(tabOperators), len(tabTransformations), len(tabVariables)))
	return res, nil
}
